import PhononModel.Gen.TetraC
import PhononModel.Model.TetraPy
import PhononModel.Model.TetraUtil
import PhononModel.Model.Dos
import PhononModel.Model.TetraMesh
import PhononModel.Model.Wire
open PhononModel PhononModel.Wire

def showC (x : CRat) : String :=
  match x.val with
  | some r => showRat r
  | none => "divzero"

def toTet (a : Array Rat) : Fin 24 → Fin 4 → CRat := fun t k => CRat.ok (a.getD (t.1 * 4 + k.1) 0)

def readEps (c : Cur) : Option (Option CRat × Cur) := do
  let (t, c) ← c.str?
  if t == "none" then pure (none, c) else
  let r ← parseRat? t
  pure (some (CRat.ok r), c)

def readFun (c : Cur) : Option (Bool × Cur) := do
  let (t, c) ← c.str?
  if t == "I" then pure (true, c) else if t == "J" then pure (false, c) else none

def showTable4 (t : List (List (List (List Int)))) : String :=
  " ".intercalate (t.flatten.flatten.flatten.map toString)

def handle (line : String) : String :=
  let c : Cur := { toks := (tokens line).toArray }
  let r : Option String := do
    let (op, c) ← c.str?
    match op with
    | "cw" =>
      -- translated C: thm_get_integration_weight at several omegas
      let (isI, c) ← readFun c
      let (eps, c) ← readEps c
      let (nw, c) ← c.nat?
      let (ws, c) ← c.rats? nw
      let (t, c) ← c.rats? 96
      if !c.atEnd then none
      let tet := toTet t
      pure (" ".intercalate (ws.toList.map fun w =>
        showC (TetraC.thm_get_integration_weight eps (CRat.ok w) tet (if isI then 'I' else 'J'))))
    | "pw" =>
      -- Python model
      let (isI, c) ← readFun c
      let (cl, c) ← c.nat?
      let (nw, c) ← c.nat?
      let (ws, c) ← c.rats? nw
      let (t, c) ← c.rats? 96
      let (ce, c) ← c.nats? 24
      if !c.atEnd then none
      if cl > 1 then none
      let ce ← allFin? 4 ce
      let tet := toTet t
      let central : Fin 24 → Fin 4 := fun k => ce.getD k.1 0
      pure (" ".intercalate (ws.toList.map fun w =>
        showC (TetraPy.integrationWeight isI (cl == 1) (CRat.ok w) tet central)))
    | "sort" =>
      let (v, c) ← c.rats? 4
      if !c.atEnd then none
      let (i, s) := TetraC.sort_omegas (none : Option Rat) (fun k : Fin 4 => v.getD k.1 0)
      pure (toString i ++ " " ++ showRats #[s 0, s 1, s 2, s 3])
    | "argsort" =>
      let (v, c) ← c.rats? 4
      if !c.atEnd then none
      pure (" ".intercalate ((TetraPy.argsort (fun k : Fin 4 => v.getD k.1 0)).map fun k => toString k.1))
    | "diag" =>
      -- diag P(9, row major) mesh(3): chosen main diagonal and the four squared lengths of the microzone diagonals
      let (pv, c) ← c.rats? 9
      let (m, c) ← c.rats? 3
      if !c.atEnd then none
      if m.any (· == 0) then none
      let L : Fin 3 → Fin 3 → Rat := TetraPy.microzone (fun i j => pv.getD (i.1 * 3 + j.1) 0) (fun j => m.getD j.1 1)
      let l := TetraPy.diagLens L
      pure (toString (TetraPy.mainDiagonal L).1 ++ " " ++ showRats #[l 0, l 1, l 2, l 3])
    | "smear" =>
      -- smear normal|cauchy sigma n x...  : the smearing function in binary64 (exp, sqrt, pi of the Lean runtime)
      let (kind, c) ← c.str?
      let (sg, c) ← c.rat?
      let (n, c) ← c.nat?
      let (xs, c) ← c.rats? n
      if !c.atEnd then none
      let toF : Rat → Float := fun r => Float.ofInt r.num / Float.ofNat r.den
      let pi : Float := 3.141592653589793
      let f : Float → Float ← match kind with
        | "normal" => some (Dos.normalDist Float.exp (Float.sqrt (2 * pi)) (toF sg))
        | "cauchy" => some (Dos.cauchyDist pi (toF sg))
        | _ => none
      pure (" ".intercalate (xs.toList.map fun x => toString (f (toF x)).toBits))
    | "fpts" =>
      -- fpts lo hi sigma|none fmin|none fmax|none pitch|none : sigma in use, then the frequency points
      let (lo, c) ← c.rat?
      let (hi, c) ← c.rat?
      let opt : Cur → Option (Option Rat × Cur) := fun c => do
        let (t, c) ← c.str?
        if t == "none" then pure (none, c) else
        let r ← parseRat? t
        pure (some r, c)
      let (sg, c) ← opt c
      let (fmin, c) ← opt c
      let (fmax, c) ← opt c
      let (pitch, c) ← opt c
      if !c.atEnd then none
      let (s, pts) := Dos.frequencyPoints lo hi sg fmin fmax pitch
      pure (showRat s ++ " | " ++ " ".intercalate (pts.map showRat))
    | "nbr" =>
      -- nbr m0 m1 m2 ax ay az d : the 96 neighbour indices of table d around address a (C lookup)
      let (m, c) ← c.nats? 3
      let (a, c) ← c.ints? 3
      let (d, c) ← c.nat?
      if !c.atEnd then none
      let d ← finOf? 4 d
      if m.any (· == 0) then none
      let mesh : Grid.V3 Nat := ⟨m[0]!, m[1]!, m[2]!⟩
      let addr : Grid.IV := ⟨a[0]!, a[1]!, a[2]!⟩
      pure (" ".intercalate (((TetraMesh.tableOf d).flatMap id).map fun rel => toString (TetraMesh.neighbourIndex mesh addr rel)))
    | "gp2ir" =>
      -- gp2ir n tab : C loop (gp2ir | ir points | weights) and the Python dictionary lookup
      let (n, c) ← c.nat?
      let (t, c) ← c.nats? n
      if !c.atEnd then none
      let st := TetraMesh.gp2irBuild t.toList
      pure (showNats st.gp2ir.toArray ++ " | " ++ showNats st.irgp.toArray ++ " | " ++ showNats st.weights.toArray ++ " | " ++
        showNats (TetraMesh.gp2irPy t.toList st.irgp).toArray)
    | "tables" =>
      if !c.atEnd then none
      pure (" ".intercalate (TetraC.main_diagonals.flatten.map toString) ++ " | " ++ showTable4 TetraC.db_relative_grid_address)
    | _ => none
  r.getD "bad-op"

def main : IO Unit := serve handle
