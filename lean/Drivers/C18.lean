import PhononModel.Model.Settings
import PhononModel.Gen.SettingsTable
import PhononModel.Model.SettingsKeys
import PhononModel.Model.Wire
open PhononModel PhononModel.Wire PhononModel.Settings

/-!
Line protocol for C18 (one request line → one answer line, malformed → `bad-op`):

* `run D n (attr val)ⁿ K n (str raw)ⁿ F p n (tag raw)ⁿ A p n (dest argval)ⁿ`
    default overrides, conf values of the constant strings used by `read_options`, the file
    (`p` = 1 present / 0 absent) and the argument namespace (dests not listed are absent)
    → `ok v₀ … v_{nattr-1} | tag …` (final settings by attribute id, keys of the final confs) or `keyerror`
* `opts D n (attr val)ⁿ K n … A 1 n …`  → the conf keys written by `read_options`, `tag:kind` in dict order
* `wf`                                  → `guarded=… numericNotTruthy=… truthyNumeric=<dest ids> nonIsolated=<tag ids>`
* `names tag|key|attr|dest|str|fn|flag` → the generated name list, `,`-separated
* `main b₁…b₈ mode b₁…b₇`               → actions of `mainActions`
* `fccalc fc fcsym load`                → `fcCalculator` (`fc`: `-` absent, `?` unknown, or id)
* `key <dim|mesh|band|pa|pdos|float|int|frac|bool|centring> <hex of the value | ->` → the per-key parser of
  Model/SettingsKeys.lean: `ok …` | `exit` (setting_error) | `exc` (uncaught exception)

values: `N` `T` `F` `I<int>` `S<id>` `L` `K<id>,<truthy>,<len>`; output adds `A<fn>(<val>)`.
raw: `t` | `f` | `o n (key val)ⁿ`.  argval: `n` | `bT` | `bF` | `v<truthy><inRange> raw`.
-/

def parseVal? (s : String) : Option Val :=
  if s == "N" then some .none
  else if s == "T" then some (.bool true)
  else if s == "F" then some (.bool false)
  else if s == "L" then some .nil
  else if s.startsWith "I" then (s.drop 1).toInt?.map Val.num
  else if s.startsWith "S" then (s.drop 1).toNat?.map Val.str
  else if s.startsWith "K" then
    match (s.drop 1).toString.splitOn "," with
    | [a, b, c] => do
      let id ← a.toNat?
      let t ← (if b == "1" then some true else if b == "0" then some false else none)
      let l ← c.toNat?
      pure (.tok id t l)
    | _ => none
  else none

partial def showVal : Val → String
  | .none => "N"
  | .bool true => "T"
  | .bool false => "F"
  | .num n => "I" ++ toString n
  | .str s => "S" ++ toString s
  | .nil => "L"
  | .tok id t l => "K" ++ toString id ++ "," ++ (if t then "1" else "0") ++ "," ++ toString l
  | .app f v => "A" ++ toString f ++ "(" ++ showVal v ++ ")"

def Cur.val? (c : Cur) : Option (Val × Cur) := do
  let (t, c) ← c.str?
  let v ← parseVal? t
  pure (v, c)

def Cur.pairs? (c : Cur) (n : Nat) : Option (List (Nat × Val) × Cur) := do
  let mut c := c
  let mut out : Array (Nat × Val) := #[]
  for _ in [0:n] do
    let (k, c1) ← c.nat?
    let (v, c2) ← Cur.val? c1
    out := out.push (k, v)
    c := c2
  pure (out.toList, c)

def Cur.raw? (c : Cur) : Option (Raw × Cur) := do
  let (t, c) ← c.str?
  if t == "t" then pure (Raw.t, c)
  else if t == "f" then pure (Raw.f, c)
  else if t == "o" then
    let (n, c) ← c.nat?
    let (o, c) ← Cur.pairs? c n
    pure (Raw.other o, c)
  else none

def Cur.entries? (c : Cur) (n : Nat) : Option (List (Nat × Raw) × Cur) := do
  let mut c := c
  let mut out : Array (Nat × Raw) := #[]
  for _ in [0:n] do
    let (k, c1) ← c.nat?
    let (r, c2) ← Cur.raw? c1
    out := out.push (k, r)
    c := c2
  pure (out.toList, c)

def Cur.argval? (c : Cur) : Option (ArgVal × Cur) := do
  let (t, c) ← c.str?
  if t == "n" then pure (ArgVal.none, c)
  else if t == "bT" then pure (ArgVal.flag true, c)
  else if t == "bF" then pure (ArgVal.flag false, c)
  else if t == "v00" || t == "v01" || t == "v10" || t == "v11" then
    let (r, c) ← Cur.raw? c
    pure (ArgVal.val (t == "v10" || t == "v11") (t == "v01" || t == "v11") r, c)
  else none

def Cur.args? (c : Cur) (n : Nat) : Option (List (Nat × ArgVal) × Cur) := do
  let mut c := c
  let mut out : Array (Nat × ArgVal) := #[]
  for _ in [0:n] do
    let (k, c1) ← c.nat?
    let (a, c2) ← Cur.argval? c1
    out := out.push (k, a)
    c := c2
  pure (out.toList, c)

def Cur.expect? (c : Cur) (s : String) : Option Cur := do
  let (t, c) ← c.str?
  if t == s then pure c else none

def Cur.bool? (c : Cur) : Option (Bool × Cur) := do
  let (t, c) ← c.str?
  if t == "1" then pure (true, c) else if t == "0" then pure (false, c) else none

def lookupArg (l : List (Nat × ArgVal)) (d : Nat) : ArgVal :=
  match l with
  | [] => .absent
  | (d', a) :: r => if d' = d then a else lookupArg r d

def lookupRaw (l : List (Nat × Raw)) (d : Nat) : Raw :=
  match l with
  | [] => .other []
  | (d', a) :: r => if d' = d then a else lookupRaw r d

def showRawKind : Raw → String
  | .t => "t"
  | .f => "f"
  | .other _ => "o"

def parseMode? (s : String) : Option Mode :=
  match s with
  | "none" => some .none | "band" => some .band | "mesh" => some .mesh | "band_mesh" => some .bandMesh
  | "anime" => some .anime | "modulation" => some .modulation | "irreps" => some .irreps | "qpoints" => some .qpoints
  | _ => none

def showAction : Action → String
  | .createForceSets => "createForceSets" | .createForceConstants => "createForceConstants"
  | .symmetryInfo => "symmetryInfo" | .displacements => "displacements"
  | .randomDisplacementsAtT => "randomDisplacementsAtT" | .forceConstants => "forceConstants"
  | .qpoints => "qpoints" | .band => "band" | .mesh => "mesh" | .meshIter => "meshIter"
  | .thermalProperties => "thermalProperties" | .thermalDisplacements => "thermalDisplacements"
  | .thermalDisplacementMatrices => "thermalDisplacementMatrices" | .pdos => "pdos" | .dos => "dos" | .moment => "moment"
  | .anime => "anime" | .modulation => "modulation" | .irreps => "irreps" | .finalize => "finalize"

def readHeader (c : Cur) : Option (List (Nat × Val) × List (Nat × Raw) × Cur) := do
  let c ← Cur.expect? c "D"
  let (nd, c) ← c.nat?
  let (ov, c) ← Cur.pairs? c nd
  let c ← Cur.expect? c "K"
  let (nk, c) ← c.nat?
  let (ks, c) ← Cur.entries? c nk
  pure (ov, ks, c)

def hexVal (c : Char) : Option Nat :=
  if '0' ≤ c ∧ c ≤ '9' then some (c.toNat - 48) else if 'a' ≤ c ∧ c ≤ 'f' then some (c.toNat - 87) else none

def unhex : List Char → Option (List Char)
  | [] => some []
  | a :: b :: r => do
    let x ← hexVal a
    let y ← hexVal b
    let rest ← unhex r
    pure (Char.ofNat (16 * x + y) :: rest)
  | _ => none

open PhononModel.SettingsKeys in
def showR {α : Type} (f : α → String) : R α → String
  | .ok v => "ok " ++ f v
  | .error .exit => "exit"
  | .error .exc => "exc"

def ratsStr (l : List Rat) : String := " ".intercalate (l.map showRat)
def intsStr (l : List Int) : String := " ".intercalate (l.map toString)

open PhononModel.SettingsKeys in
def keyOp (name : String) (v : List Char) : Option String :=
  match name with
  | "dim" => some (showR intsStr (parseDim v))
  | "mesh" => some (showR (fun m => match m with
      | .length r => "L " ++ showRat r
      | .three l => "3 " ++ intsStr l
      | .nine l => "9 " ++ intsStr l) (parseMesh v))
  | "band" => some (showR (fun b => match b with
      | .auto => "auto"
      | .paths p => "P " ++ " | ".intercalate (p.map (fun sec => ratsStr sec.flatten))) (parseBand v))
  | "pa" => some (showR (fun b => match b with
      | .auto => "auto"
      | .letter c => "letter " ++ String.singleton c
      | .matrix m => "M " ++ ratsStr m) (parsePA v))
  | "pdos" => some (showR (fun b => match b with
      | .auto => "auto"
      | .groups g => "G " ++ " | ".intercalate (g.map intsStr)) (parsePdos v))
  | "float" => some (showR showRat (pyFloat v))
  | "int" => some (showR toString (pyInt v))
  | "frac" => some (showR showRat (fracval v))
  | "bool" => some (match parseBool v with | some true => "ok T" | some false => "ok F" | none => "ok unset")
  | "centring" => some (match v with
      | [c] => (match centring c with | some m => "ok " ++ ratsStr m | none => "ok none")
      | _ => "ok none")
  | _ => none

def handle (line : String) : String :=
  let c : Cur := { toks := (tokens line).toArray }
  let r : Option String := do
    let (op, c) ← c.str?
    match op with
    | "run" =>
      let (ov, ks, c) ← readHeader c
      let c ← Cur.expect? c "F"
      let (fp, c) ← Cur.bool? c
      let (nf, c) ← c.nat?
      let (fl, c) ← Cur.entries? c nf
      let c ← Cur.expect? c "A"
      let (ap, c) ← Cur.bool? c
      let (na, c) ← c.nat?
      let (al, c) ← Cur.args? c na
      if !c.atEnd then none
      if !fp && nf != 0 then none
      if !ap && na != 0 then none
      let T := Gen.table
      let D := T.defaultSettings ov
      let κ := lookupRaw ks
      let file := if fp then some fl else none
      let args := if ap then some (lookupArg al) else none
      match T.confParser D κ file args with
      | none => pure "keyerror"
      | some S =>
        let vals := (List.range Gen.attrNames.length).map (fun a => showVal (S a))
        let confs := (T.finalConfs D κ file args).map (fun e => toString e.1)
        pure ("ok " ++ " ".intercalate vals ++ " | " ++ " ".intercalate confs)
    | "opts" =>
      let (ov, ks, c) ← readHeader c
      let c ← Cur.expect? c "A"
      let (ap, c) ← Cur.bool? c
      let (na, c) ← c.nat?
      let (al, c) ← Cur.args? c na
      if !c.atEnd || !ap then none
      let T := Gen.table
      let D := T.defaultSettings ov
      let confs := T.readOptions D (lookupRaw ks) (lookupArg al)
      pure ("ok " ++ " ".intercalate (confs.map (fun e => toString e.1 ++ ":" ++ showRawKind e.2)))
    | "key" =>
      let (name, c) ← c.str?
      let (hx, c) ← c.str?
      if !c.atEnd then none
      let v ← unhex (if hx == "-" then [] else hx.toList)
      keyOp name v
    | "wf" =>
      if !c.atEnd then none
      let T := Gen.table
      let bad := (T.optRules.filter (fun r => r.numeric && r.act != Act.notNone)).map (fun r => toString r.dest)
      let nonIso := (Gen.codeTags.filter (fun t => !T.tagIsolated t)).map toString
      pure ("guarded=" ++ toString T.progGuarded ++ " numericNotTruthy=" ++ toString T.numericNotTruthy ++
        " truthyNumeric=" ++ ",".intercalate bad ++ " nonIsolated=" ++ ",".intercalate nonIso)
    | "names" =>
      let (which, c) ← c.str?
      if !c.atEnd then none
      match which with
      | "tag" => pure (",".intercalate Gen.tagNames)
      | "key" => pure (",".intercalate Gen.keyNames)
      | "attr" => pure (",".intercalate Gen.attrNames)
      | "dest" => pure (",".intercalate Gen.destNames)
      | "str" => pure (",".intercalate Gen.strNames)
      | "fn" => pure (",".intercalate Gen.fnNames)
      | "flag" => pure (",".intercalate Gen.flagNames)
      | _ => none
    | "main" =>
      let (b1, c) ← Cur.bool? c
      let (b2, c) ← Cur.bool? c
      let (b3, c) ← Cur.bool? c
      let (b4, c) ← Cur.bool? c
      let (b5, c) ← Cur.bool? c
      let (b6, c) ← Cur.bool? c
      let (b7, c) ← Cur.bool? c
      let (b8, c) ← Cur.bool? c
      let (ms, c) ← c.str?
      let mode ← parseMode? ms
      let (m1, c) ← Cur.bool? c
      let (m2, c) ← Cur.bool? c
      let (m3, c) ← Cur.bool? c
      let (m4, c) ← Cur.bool? c
      let (m5, c) ← Cur.bool? c
      let (m6, c) ← Cur.bool? c
      let (m7, c) ← Cur.bool? c
      if !c.atEnd then none
      let acts := mainActions ⟨b1, b2, b3, b4, b5, b6, b7, b8⟩ mode ⟨m1, m2, m3, m4, m5, m6, m7⟩
      pure ("ok " ++ " ".intercalate (acts.map showAction))
    | "fccalc" =>
      let (fs, c) ← c.str?
      let (sym, c) ← Cur.bool? c
      let (load, c) ← Cur.bool? c
      if !c.atEnd then none
      let fc : Option (Option (Option Nat)) :=
        if fs == "-" then some none else if fs == "?" then some (some none) else (fs.toNat?.map (fun n => some (some n)))
      let fc ← fc
      match fcCalculator fc sym load with
      | none => pure "ok none"
      | some i => pure ("ok " ++ toString i)
    | _ => none
  r.getD "bad-op"

def main : IO Unit := serve handle
