import PhononModel.Model.RandomDisp
import PhononModel.Model.ThermalDisp
import PhononModel.Model.Wire
open PhononModel PhononModel.Wire PhononModel.CP PhononModel.C19

def getR (v : Array Rat) (k : Nat) : Rat := v.getD k 0
def getC (v : Array Rat) (k : Nat) : Cx Rat := ⟨v.getD (2 * k) 0, v.getD (2 * k + 1) 0⟩

def unitZ {n nb : Nat} (q0 : Fin n) (ν0 : Fin nb) : Fin n → Fin nb → Rat := fun q ν => if q = q0 ∧ ν = ν0 then 1 else 0
def zeroZ {n nb : Nat} : Fin n → Fin nb → Rat := fun _ _ => 0

def showList (l : List Rat) : String := " ".intercalate (l.map showRat)

def handle (line : String) : String :=
  let c : Cur := { toks := (tokens line).toArray }
  let r : Option String := do
    let (op, c) ← c.str?
    match op with
    | "rd" =>
      let (np, c) ← c.nat?
      let (ns, c) ← c.nat?
      let (nii, c) ← c.nat?
      let (nij, c) ← c.nat?
      let nb := np * 3
      let (cutoff, c) ← c.rat?
      let (s2pp, c) ← c.nats? ns
      let s2pp ← allFin? np s2pp
      let (eii, c) ← c.rats? (nii * nb * nb)
      let (cosii, c) ← c.rats? (nii * ns)
      let (eij, c) ← c.rats? (nij * nb * nb * 2)
      let (phij, c) ← c.rats? (nij * ns * 2)
      let (fii, c) ← c.rats? (nii * nb)
      let (sii, c) ← c.rats? (nii * nb)
      let (fij, c) ← c.rats? (nij * nb)
      let (sij, c) ← c.rats? (nij * nb)
      let (rm, c) ← c.rats? ns
      let (r2, c) ← c.rat?
      if !c.atEnd then none
      if h : s2pp.size = ns then
        let I : RDIn np ns nii nij Rat :=
          { s2pp := fun k => s2pp[k.1]'(by omega)
            eii := fun q r ν => getR eii ((q.1 * nb + r.1) * nb + ν.1)
            cosii := fun q k => getR cosii (q.1 * ns + k.1)
            eij := fun q r ν => getC eij ((q.1 * nb + r.1) * nb + ν.1)
            phij := fun q k => getC phij (q.1 * ns + k.1)
            sigii := fun q ν => maskSigma cutoff (getR fii (q.1 * nb + ν.1)) (getR sii (q.1 * nb + ν.1))
            sigij := fun q ν => maskSigma cutoff (getR fij (q.1 * nb + ν.1)) (getR sij (q.1 * nb + ν.1))
            rm := fun k => getR rm k.1
            r2 := r2 }
        -- the linear map, column by column, through the literal `displ`
        let rows : List (Fin ns × Fin 3) := (List.finRange ns).flatMap fun k => (List.finRange 3).map fun a => (k, a)
        let colsII : List (Fin nii × Fin nb) := (List.finRange nii).flatMap fun q => (List.finRange nb).map fun ν => (q, ν)
        let colsIJ : List (Fin nij × Fin nb) := (List.finRange nij).flatMap fun q => (List.finRange nb).map fun ν => (q, ν)
        let A : List Rat := rows.flatMap fun (k, a) =>
          (colsII.map fun (q, ν) => displ I (unitZ q ν) zeroZ zeroZ k a)
          ++ (List.finRange nij).flatMap (fun q =>
                ((List.finRange nb).map fun ν => displ I zeroZ (unitZ q ν) zeroZ k a)
                ++ ((List.finRange nb).map fun ν => displ I zeroZ zeroZ (unitZ q ν) k a))
        -- the same entries from the coefficient definitions (must be identical)
        let A' : List Rat := rows.flatMap fun (k, a) =>
          (colsII.map fun (q, ν) => Aii I k a q ν)
          ++ (List.finRange nij).flatMap (fun q =>
                ((List.finRange nb).map fun ν => A1 I k a q ν) ++ ((List.finRange nb).map fun ν => A2 I k a q ν))
        let _ := colsIJ
        let C : List Rat := rows.flatMap fun (k, a) => rows.map fun (k', b) => cov I k a k' b
        -- full uu_inv in closed form, weights a2inv(cutoff, f, masked sigma)
        let gii : Fin nii → Fin nb → Rat := fun q ν => a2inv cutoff (getR fii (q.1 * nb + ν.1)) (I.sigii q ν)
        let gij : Fin nij → Fin nb → Rat := fun q ν => a2inv cutoff (getR fij (q.1 * nb + ν.1)) (I.sigij q ν)
        let V : List Rat := rows.flatMap fun (k, a) => rows.map fun (k', b) => covInv I gii gij k a k' b
        pure ((if A == A' then "same " else "differ ") ++ showList A ++ " | " ++ showList C ++ " | " ++ showList V)
      else none
    | "corr" | "d2f" =>
      let (np, c) ← c.nat?
      let (ns, c) ← c.nat?
      let (nii, c) ← c.nat?
      let (nij, c) ← c.nat?
      let nb := np * 3
      let (cutoff, c) ← c.rat?
      let (s2pp, c) ← c.nats? ns
      let s2pp ← allFin? np s2pp
      let (eii, c) ← c.rats? (nii * nb * nb)
      let (vd, c) ← c.rats? (nii * np * 2)
      let (eij, c) ← c.rats? (nij * nb * nb * 2)
      let (pii, c) ← c.rats? (nii * ns * np * 2)
      let (pij, c) ← c.rats? (nij * ns * np * 2)
      let (pnij, c) ← c.rats? (nij * ns * np * 2)
      let (ms, c) ← c.rats? (np * np)
      let (pmass, c) ← c.rats? np
      let (smass, c) ← c.rats? ns
      let (fii, c) ← c.rats? (nii * nb)
      let (sii, c) ← c.rats? (nii * nb)
      let (fij, c) ← c.rats? (nij * nb)
      let (sij, c) ← c.rats? (nij * nb)
      if !c.atEnd then none
      if h : s2pp.size = ns then
        let J : D2FIn np ns nii nij Rat :=
          { s2pp := fun k => s2pp[k.1]'(by omega)
            eii := fun q r ν => getR eii ((q.1 * nb + r.1) * nb + ν.1)
            vd := fun q p => getC vd (q.1 * np + p.1)
            eij := fun q r ν => getC eij ((q.1 * nb + r.1) * nb + ν.1)
            pii := fun q k i => getC pii ((q.1 * ns + k.1) * np + i.1)
            pij := fun q k i => getC pij ((q.1 * ns + k.1) * np + i.1)
            pnij := fun q k i => getC pnij ((q.1 * ns + k.1) * np + i.1)
            ms := fun i j => getR ms (i.1 * np + j.1)
            pmass := fun i => getR pmass i.1
            smass := fun k => getR smass k.1 }
        let fiiF : Fin nii → Fin nb → Rat := fun q ν => getR fii (q.1 * nb + ν.1)
        let fijF : Fin nij → Fin nb → Rat := fun q ν => getR fij (q.1 * nb + ν.1)
        let idx : List (Fin np × Fin ns × Fin 3 × Fin 3) := (List.finRange np).flatMap fun i => (List.finRange ns).flatMap fun j =>
          (List.finRange 3).flatMap fun l => (List.finRange 3).map fun m => (i, j, l, m)
        if op == "corr" then
          -- sii/sij are the unmasked sigmas; the mask is applied here as `_get_sigma` does
          let aii : Fin nii → Fin nb → Rat := fun q ν => maskSigma cutoff (fiiF q ν) (getR sii (q.1 * nb + ν.1))
          let aij : Fin nij → Fin nb → Rat := fun q ν => maskSigma cutoff (fijF q ν) (getR sij (q.1 * nb + ν.1))
          let U := idx.map fun (i, j, l, m) => uuRow J aii aij i j l m
          let V := idx.map fun (i, j, l, m) => uuInvRow J cutoff fiiF fijF aii aij i j l m
          pure (showList U ++ " | " ++ showList V)
        else
          -- sii/sij carry the eigenvalues handed to create_dynamical_matrices
          let vii : Fin nii → Fin nb → Rat := fun q ν => getR sii (q.1 * nb + ν.1)
          let vij : Fin nij → Fin nb → Rat := fun q ν => getR sij (q.1 * nb + ν.1)
          pure (showList (idx.map fun (i, j, l, m) => d2fRow J vii vij i j l m))
      else none
    | "part" =>
      let (N, c) ← c.nat?
      let (p, c) ← c.ints? (N * 3)
      let (nii, c) ← c.nat?
      let (ii, c) ← c.nats? nii
      let (nij, c) ← c.nat?
      let (ij, c) ← c.nats? nij
      if !c.atEnd then none
      let pts : Array (Fin 3 → Int) := Array.ofFn fun (k : Fin N) => fun x => p.getD (k.1 * 3 + x.1) 0
      pure (toString (partitionOk pts ii ij))
    | "tdm" =>
      let (np, c) ← c.nat?
      let (nq, c) ← c.nat?
      let nb := np * 3
      let (unit, c) ← c.rat?
      let (w, c) ← c.rat?
      let (tguard, c) ← c.rat?
      let (T, c) ← c.rat?
      let (fmin, c) ← c.rat?
      let (hasmax, c) ← c.nat?
      let (fmaxv, c) ← c.rat?
      let (tol, c) ← c.rat?
      let (f, c) ← c.rats? (nq * nb)
      let (e, c) ← c.rats? (nq * nb * nb * 2)
      let (mass, c) ← c.rats? np
      let (nbe, c) ← c.rats? (nq * nb)
      let (an, c) ← c.rats? 9
      let (dir, c) ← c.rats? 3
      if !c.atEnd then none
      if hasmax > 1 then none
      let fF : Fin nq → Fin nb → Rat := fun q ν => getR f (q.1 * nb + ν.1)
      let I : TDIn np nq Rat :=
        { f := fF
          e := fun q r ν => getC e ((q.1 * nb + r.1) * nb + ν.1)
          mass := fun i => getR mass i.1
          q2 := fun q ν => q2 unit w tguard T (fF q ν) (getR nbe (q.1 * nb + ν.1))
          fmin := fmin
          fmax := if hasmax = 1 then some fmaxv else none }
      match tdmChecked I tol with
      | none => pure "assert-imag"
      | some U =>
        let Uf := freeze1 fun (i : Fin np) => freeze2 (U i)
        let Ut : Fin np → Fin 3 → Fin 3 → Rat := fun i => thaw2 ((thaw1 Uf #[] : Fin np → Array (Array Rat)) i) 0
        let ANinv : Fin 3 → Fin 3 → Rat := fun x y => getR an (x.1 * 3 + y.1)
        let i3 : List (Fin np × Fin 3 × Fin 3) := (List.finRange np).flatMap fun i => (List.finRange 3).flatMap fun a =>
          (List.finRange 3).map fun b => (i, a, b)
        let o1 := i3.map fun (i, a, b) => Ut i a b
        let o2 := i3.map fun (i, a, b) => cifOf ANinv (Ut i) a b
        let o3 := (List.finRange np).flatMap fun i => (List.finRange 3).map fun a => msd I i a
        let o4 := (List.finRange np).map fun i => msdProj I (fun a => getR dir a.1) i
        pure (showList o1 ++ " | " ++ showList o2 ++ " | " ++ showList o3 ++ " | " ++ showList o4)
    | _ => none
  r.getD "bad-op"

def main : IO Unit := serve handle
