import PhononModel.Model.Symmetrize
import PhononModel.Model.Wire
import PhononModel.Model.GroupAverage
import PhononModel.Model.SymmetrizeLoop
open PhononModel PhononModel.Wire

/-- flat `[a][b][3][3]` array ↦ function -/
def toFC (a b : Nat) (v : Array Rat) : Fin a → Fin b → Fin 3 → Fin 3 → Rat :=
  fun i j k l => v.getD (i.1 * b * 9 + j.1 * 9 + k.1 * 3 + l.1) 0

def ofFC (a b : Nat) (Φ : Fin a → Fin b → Fin 3 → Fin 3 → Rat) : Array Rat := Id.run do
  let mut out := Array.mkEmpty (a * b * 9)
  for i in List.finRange a do
    for j in List.finRange b do
      for k in List.finRange 3 do
        for l in List.finRange 3 do
          out := out.push (Φ i j k l)
  pure out

def readTables (c : Cur) : Option ((np : Nat) × (ns : Nat) × (nt : Nat) × CTables np ns nt × Cur) := do
  let (np, c) ← c.nat?
  let (ns, c) ← c.nat?
  let (nt, c) ← c.nat?
  let (p2s, c) ← c.nats? np
  let (s2pp, c) ← c.nats? ns
  let (nsym, c) ← c.nats? ns
  let (perms, c) ← c.nats? (nt * ns)
  let p2s ← allFin? ns p2s
  let s2pp ← allFin? np s2pp
  let nsym ← allFin? nt nsym
  let perms ← allFin? ns perms
  if h1 : p2s.size = np ∧ s2pp.size = ns ∧ nsym.size = ns ∧ perms.size = nt * ns then
    let T : CTables np ns nt :=
      { p2s := fun i => p2s[i.1]'(by omega)
        s2pp := fun i => s2pp[i.1]'(by omega)
        nsym := fun i => nsym[i.1]'(by omega)
        perms := fun t i => perms[t.1 * ns + i.1]'(by
          have := t.2; have := i.2
          calc t.1 * ns + i.1 < t.1 * ns + ns := by omega
            _ = (t.1 + 1) * ns := by rw [Nat.add_mul, Nat.one_mul]
            _ ≤ nt * ns := Nat.mul_le_mul_right _ (by omega)
            _ = perms.size := by omega) }
    pure ⟨np, ns, nt, T, c⟩
  else none

def handle (line : String) : String :=
  let c : Cur := { toks := (tokens line).toArray }
  let r : Option String := do
    let (op, c) ← c.str?
    match op with
    | "fullsym" | "pyfullsym" | "permsym" | "transdiag" | "permsymloop" | "fullsymloop" =>
      let (L, c) ← c.nat?
      let (n, c) ← c.nat?
      let (v, c) ← c.rats? (n * n * 9)
      if !c.atEnd then none
      let A : Frozen4 Rat := freeze4 (toFC n n v)
      let out : Frozen4 Rat := match op with
        | "fullsym" => fullSymF n L A
        | "pyfullsym" => pyFullSymF n L A
        | "permsym" => stage4 (permSym (n := n)) A
        | "permsymloop" => stage4 (permSymLoop (n := n)) A
        | "fullsymloop" => fullSymLoopF n L A
        | _ => stage4 (transDiag (n := n)) A
      pure (showRats (ofFC n n (thaw4 out)))
    | "wf" =>
      let ⟨_, _, _, T, c⟩ ← readTables c
      if !c.atEnd then none
      pure (toString T.wf)
    | "mktables" =>
      -- np ns nt  p2s[np]  s2p[ns]  perms[nt*ns]  ↦  cert defined [s2pp[ns] nsym[ns]]
      let (np, c) ← c.nat?
      let (ns, c) ← c.nat?
      let (nt, c) ← c.nat?
      let (p2s, c) ← c.nats? np
      let (s2p, c) ← c.nats? ns
      let (perms, c) ← c.nats? (nt * ns)
      if !c.atEnd then none
      let p2s ← allFin? ns p2s
      let s2p ← allFin? ns s2p
      let perms ← allFin? ns perms
      if hnp : 0 < np then
        if hnt : 0 < nt then
          if hns : 0 < ns then
            let p2sF : Fin np → Fin ns := fun i => (p2s[i.1]?).getD ⟨0, hns⟩
            let s2pF : Fin ns → Fin ns := fun i => (s2p[i.1]?).getD ⟨0, hns⟩
            let permsF : Fin nt → Fin ns → Fin ns := fun t i => (perms[t.1 * ns + i.1]?).getD ⟨0, hns⟩
            let cert := transGroupCert p2sF s2pF permsF
            let dfn := tablesDefined p2sF s2pF permsF
            if dfn then
              let T := mkTables hnp hnt p2sF s2pF permsF
              let a := (List.finRange ns).map (fun i => toString (T.s2pp i).1)
              let b := (List.finRange ns).map (fun i => toString (T.nsym i).1)
              pure (s!"{cert} {dfn} " ++ " ".intercalate (a ++ b))
            else pure s!"{cert} {dfn}"
          else none
        else none
      else none
    | "compactsym" | "transposec" | "permsymc" | "expand" | "transposeloop" | "transposelooppinned" =>
      let (L, c) ← c.nat?
      let ⟨np, ns, _, T, c⟩ ← readTables c
      let (v, c) ← c.rats? (np * ns * 9)
      if !c.atEnd then none
      let Φc := toFC np ns v
      match op with
      | "compactsym" => pure (showRats (ofFC np ns (thaw4 (compactSymF T L (freeze4 Φc)))))
      | "transposec" => pure (showRats (ofFC np ns (transposeC T Φc)))
      | "transposeloop" => pure (showRats (ofFC np ns (transposeLoop T Φc)))
      | "transposelooppinned" => pure (showRats (ofFC np ns (transposeLoopPinned T Φc)))
      | "permsymc" => pure (showRats (ofFC np ns (permSymC T Φc)))
      | _ => pure (showRats (ofFC ns ns (expand T Φc)))
    | "pj" | "pjwf" =>
      -- N n  perm[N*n]  C[N*9]  Ci[N*9]  (pj: Φ[n*n*9] | pjwf: mul[N*N])
      let (N, c) ← c.nat?
      let (n, c) ← c.nat?
      let (perm, c) ← c.nats? (N * n)
      let (C, c) ← c.rats? (N * 9)
      let (Ci, c) ← c.rats? (N * 9)
      let perm ← allFin? n perm
      let permF : Fin N → Fin n → Fin n := fun g x => (perm[g.1 * n + x.1]?).getD x
      let CF : Fin N → Fin 3 → Fin 3 → Rat := fun g k l => C.getD (g.1 * 9 + k.1 * 3 + l.1) 0
      let CiF : Fin N → Fin 3 → Fin 3 → Rat := fun g k l => Ci.getD (g.1 * 9 + k.1 * 3 + l.1) 0
      if op == "pj" then
        let (v, c) ← c.rats? (n * n * 9)
        if !c.atEnd then none
        pure (showRats (ofFC n n (pjAverage permF CF CiF (toFC n n v))))
      else
        let (mul, c) ← c.nats? (N * N)
        if !c.atEnd then none
        let mul ← allFin? N mul
        if hN : 0 < N then
          let mulF : Fin N → Fin N → Fin N := fun g h => (mul[g.1 * N + h.1]?).getD ⟨0, hN⟩
          pure (toString (pjWf permF CF CiF mulF))
        else none
    | _ => none
  r.getD "bad-op"

def main : IO Unit := serve handle
