import PhononModel.Model.ApiState
import PhononModel.Model.Wire
open PhononModel PhononModel.Wire PhononModel.Api

/-!
Driver for C15.  One request line = one history:

  `run <masses|-> ; <op> ; <op> ; …`   (`runfsf …`: the object was constructed with the deprecated
  `frequency_scale_factor`)

ops (`$k` = the array created / handed out by step `k` of this history, 0-based):
  `new fc|nac|ds <v> <own 0|1>` · `setfc $k` · `produce` · `producec` (compact) · `generate <k>` · `setforces <f>` · `setenergies <e>` · `producewith <f>` · `sym <l>` · `symsg` · `cut <r>` ·
  `setnac $k|-` · `setmasses <m>` · `setds $k|-` · `copy` · `mut $k <v>` · `mutfc $k <j>` · `q freq|gv|fc|nac|masses|ds|disps|mesh|band|tp|dos|getmesh|getband|gettp|getdos`

answer: for every step `<out> @ <flag> <digest>` joined by ` | `, where `<flag>` is `D` when the
step is a caller mutation of an array the object can reach (`MutatesReachable`), else `.`.

The numerical routines are instantiated by a free term encoding (injective on the values used,
levels and radii < 4), which the harness decodes and evaluates with the real routines:
  leaf k ↦ 7k · sym l v ↦ 7(4v+l)+1 · symSG v ↦ 7v+2 · cut r v ↦ 7(4v+r)+3 · produce c v ↦ 7(2v+c)+4 ·
  symNac v ↦ 7v+5 · scale v ↦ 7v+6 ; datasets: leaf k ↦ 7k · setF f v ↦ 7(8v+f)+1 · setE e v ↦ 7(8v+e)+2 ·
  dispOf v ↦ 7v+3 ; a NAC leaf k is Wang iff k is odd.
-/

/-- a dataset term has forces: pool leaves `k < 100` have, generated ones (`k ≥ 100`) have not -/
def hasForcesT : Nat → Nat → Bool
  | 0, _ => false
  | fuel + 1, t =>
    match t % 7 with
    | 0 => t / 7 < 100
    | 1 => true
    | 2 => hasForcesT fuel (t / 7 / 8)
    | _ => false

/-- a force-constant term is in the compact layout: pool leaves `k ≥ 50`, `produce` with the compact flag -/
def isCompactT : Nat → Nat → Bool
  | 0, _ => false
  | fuel + 1, t =>
    match t % 7 with
    | 0 => 50 ≤ t / 7
    | 1 => isCompactT fuel (t / 7 / 4)
    | 2 => isCompactT fuel (t / 7)
    | 3 => isCompactT fuel (t / 7 / 4)
    | 4 => (t / 7) % 2 == 1
    | 6 => isCompactT fuel (t / 7)
    | _ => false

def Fterm : Fns :=
  { sym := fun l v => 7 * (4 * v + l % 4) + 1
    symSG := fun v => 7 * v + 2
    cut := fun r v => 7 * (4 * v + r % 4) + 3
    produce := fun c v => 7 * (2 * v + (if c then 1 else 0)) + 4
    gen := fun k => 7 * (100 + k)
    hasForces := fun t => hasForcesT 64 t
    isCompact := fun t => isCompactT 64 t
    symNac := fun v => 7 * v + 5
    isWang := fun v => v % 7 == 0 && (v / 7) % 2 == 1
    scale := fun v => 7 * v + 6
    setF := fun f v => 7 * (8 * v + f % 8) + 1
    setE := fun e v => 7 * (8 * v + e % 8) + 2
    dispOf := fun v => 7 * v + 3 }

def so (x : Option Nat) : String := match x with | none => "-" | some v => toString v

def showCls : DMClass → String
  | .plain => "plain" | .wang => "wang" | .gl => "gl"

def showPh (p : Phonons) : String :=
  showCls p.cls ++ ":" ++ toString p.fc ++ ":" ++ so p.nac ++ ":" ++ toString p.masses

def showErr : Err → String
  | .noFc => "noFc" | .noMasses => "noMasses" | .noDataset => "noDataset" | .noDM => "noDM" | .badRef => "badRef"
  | .noMesh => "noMesh" | .noForces => "noForces" | .notFull => "notFull"

def showOut : Out → String
  | .ok => "ok"
  | .err e => "err:" ++ showErr e
  | .newRef a => "new:" ++ toString a
  | .ref a v => "ref:" ++ so a ++ ":" ++ so v
  | .val v => "val:" ++ so v
  | .phonons r => "ph:" ++ showPh r.ph ++ (match r.gv with | none => "" | some g => "/" ++ showPh g)
  | .snap none => "snap:-"
  | .snap (some p) => "snap:" ++ showPh p
  | .copied c => "copied:" ++ so c.masses

/-- the reference carried by an output, if any -/
def outRef : Out → Option ArrRef
  | .newRef a => some a
  | .ref (some a) _ => some a
  | _ => none

def parseHandle (t : String) (outs : Array Out) : Option (Option ArrRef) :=
  -- `$k` ↦ some (ref of step k, if it has one) ; anything else is malformed
  if t.startsWith "$" then
    match (t.drop 1).toNat? with
    | some k => match outs[k]? with
      | some o => some (outRef o)
      | none => none
    | none => none
  else none

/-- parse one op; `none` = malformed; `some none` = handle without array (skipped as `badRef`) -/
def parseOp (toks : List String) (outs : Array Out) : Option (Option Op) :=
  match toks with
  | ["new", k, v, own] => do
    let kind ← (match k with | "fc" => some Kind.fc | "nac" => some Kind.nac | "ds" => some Kind.ds | _ => none)
    let v ← v.toNat?
    let own ← (match own with | "0" => some false | "1" => some true | _ => none)
    pure (some (.newArr v own kind))
  | ["setfc", h] => do let r ← parseHandle h outs; pure (r.map .setFc)
  | ["produce"] => some (some (.produceFc false))
  | ["producec"] => some (some (.produceFc true))
  | ["generate", k] => do let k ← k.toNat?; if k < 8 then pure (some (.generate k)) else none
  | ["setforces", f] => do let f ← f.toNat?; if f < 8 then pure (some (.setForces f)) else none
  | ["setenergies", e] => do let e ← e.toNat?; if e < 8 then pure (some (.setEnergies e)) else none
  | ["producewith", f] => do let f ← f.toNat?; if f < 8 then pure (some (.produceFcWith f)) else none
  | ["sym", l] => do let l ← l.toNat?; if l < 4 then pure (some (.symmetrizeFc l)) else none
  | ["symsg"] => some (some .symmetrizeFcSpaceGroup)
  | ["cut", r] => do let r ← r.toNat?; if r < 4 then pure (some (.cutoff r)) else none
  | ["setnac", "-"] => some (some (.setNac none))
  | ["setnac", h] => do let r ← parseHandle h outs; pure (r.map fun a => .setNac (some a))
  | ["setmasses", m] => do let m ← m.toNat?; pure (some (.setMasses m))
  | ["setds", "-"] => some (some (.setDataset none))
  | ["setds", h] => do let r ← parseHandle h outs; pure (r.map fun a => .setDataset (some a))
  | ["copy"] => some (some .copy)
  | ["mut", h, v] => do let r ← parseHandle h outs; let v ← v.toNat?; pure (r.map fun a => .callerMutates a v)
  | ["q", "freq"] => some (some (.query .freq))
  | ["q", "gv"] => some (some (.query .freqGV))
  | ["q", "fc"] => some (some (.query .getFc))
  | ["q", "nac"] => some (some (.query .getNac))
  | ["q", "masses"] => some (some (.query .getMasses))
  | ["q", "ds"] => some (some (.query .getDataset))
  | ["q", "disps"] => some (some (.query .getDisps))
  | ["q", "mesh"] => some (some (.query (.run .mesh)))
  | ["q", "band"] => some (some (.query (.run .band)))
  | ["q", "tp"] => some (some (.query (.run .tp)))
  | ["q", "dos"] => some (some (.query (.run .dos)))
  | ["q", "getmesh"] => some (some (.query (.get .mesh)))
  | ["q", "getband"] => some (some (.query (.get .band)))
  | ["q", "gettp"] => some (some (.query (.get .tp)))
  | ["q", "getdos"] => some (some (.query (.get .dos)))
  | _ => none

def mutatesReachable (s : St) : Op → Bool
  | .callerMutates a _ => s.o.refs.contains a
  | _ => false

/-- `mutfc $k j`: the caller overwrites a force-constant array with pool entry `j` of the array's own
layout (a full array cannot be overwritten in place with compact content) -/
def resolveMutFc (s : St) (toks : List String) (outs : Array Out) : Option (Option Op) :=
  match toks with
  | ["mutfc", h, j] => do
    let r ← parseHandle h outs
    let j ← j.toNat?
    pure (r.map fun a => .callerMutates a (if Fterm.isCompact (s.h.cells a) then 7 * (50 + j % 3) else 7 * j))
  | _ => none

def handle (line : String) : String :=
  let parts := (line.splitOn ";").map fun p => tokens p
  let r : Option String := do
    let head ← parts.head?
    -- `rungv …`: constructed with `group_velocity_delta_q` (token 1)
    let gvq : Option Val := (match head with | "rungv" :: _ => some 1 | _ => none)
    let head := (match head with | "rungv" :: rest => "run" :: rest | h => h)
    let (m, fsf) ← (match head with
      | ["run", "-"] => some ((none : Option Val), false)
      | ["run", m] => m.toNat?.map fun v => (some v, false)
      | ["runfsf", "-"] => some ((none : Option Val), true)
      | ["runfsf", m] => m.toNat?.map fun v => (some v, true)
      | _ => none)
    let mut s := St.init m fsf gvq
    let mut outs : Array Out := #[]
    let mut answers : Array String := #[]
    for toks in parts.drop 1 do
      let op? ← (match toks with | "mutfc" :: _ => resolveMutFc s toks outs | _ => parseOp toks outs)
      match op? with
      | none =>
        outs := outs.push (.err .badRef)
        answers := answers.push ("err:badRef @ . " ++ s.digest)
      | some op =>
        let flag := if mutatesReachable s op then "D" else "."
        let (s', o) := step Fterm s op
        s := s'
        outs := outs.push o
        answers := answers.push (showOut o ++ " @ " ++ flag ++ " " ++ s.digest)
    pure (" | ".intercalate answers.toList)
  r.getD "bad-op"

def main : IO Unit := serve handle
