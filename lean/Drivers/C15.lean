import PhononModel.Model.ApiState
import PhononModel.Model.Wire
open PhononModel PhononModel.Wire PhononModel.Api

/-!
Driver for C15.  One request line = one history:

  `run <masses|-> ; <op> ; <op> ; …`   (`runfsf …`: the object was constructed with the deprecated
  `frequency_scale_factor`)

ops (`$k` = the array created / handed out by step `k` of this history, 0-based):
  `new fc|nac|ds <v> <own 0|1>` · `setfc $k` · `produce` · `setforces <f>` · `setenergies <e>` · `producewith <f>` · `sym <l>` · `symsg` · `cut <r>` ·
  `setnac $k|-` · `setmasses <m>` · `setds $k|-` · `copy` · `mut $k <v>` · `q freq|gv|fc|nac|masses|ds|disps`

answer: for every step `<out> @ <flag> <digest>` joined by ` | `, where `<flag>` is `D` when the
step is a caller mutation of an array the object can reach (`MutatesReachable`), else `.`.

The numerical routines are instantiated by a free term encoding (injective on the values used,
levels and radii < 4), which the harness decodes and evaluates with the real routines:
  leaf k ↦ 7k · sym l v ↦ 7(4v+l)+1 · symSG v ↦ 7v+2 · cut r v ↦ 7(4v+r)+3 · produce v ↦ 7v+4 ·
  symNac v ↦ 7v+5 · scale v ↦ 7v+6 ; datasets: leaf k ↦ 7k · setF f v ↦ 7(8v+f)+1 · setE e v ↦ 7(8v+e)+2 ·
  dispOf v ↦ 7v+3 ; a NAC leaf k is Wang iff k is odd.
-/

def Fterm : Fns :=
  { sym := fun l v => 7 * (4 * v + l % 4) + 1
    symSG := fun v => 7 * v + 2
    cut := fun r v => 7 * (4 * v + r % 4) + 3
    produce := fun v => 7 * v + 4
    symNac := fun v => 7 * v + 5
    isWang := fun v => v % 7 == 0 && (v / 7) % 2 == 1
    scale := fun v => 7 * v + 6
    setF := fun f v => 7 * (8 * v + f % 8) + 1
    setE := fun e v => 7 * (8 * v + e % 8) + 2
    dispOf := fun v => 7 * v + 3 }

def so (x : Option Nat) : String := match x with | none => "-" | some v => toString v

def showCls : DMClass → String
  | .plain => "plain" | .wang => "wang" | .gl => "gl"

def showPh (p : Phonons) : String :=
  showCls p.cls ++ ":" ++ toString p.fc ++ ":" ++ so p.nac ++ ":" ++ toString p.masses

def showErr : Err → String
  | .noFc => "noFc" | .noMasses => "noMasses" | .noDataset => "noDataset" | .noDM => "noDM" | .badRef => "badRef"

def showOut : Out → String
  | .ok => "ok"
  | .err e => "err:" ++ showErr e
  | .newRef a => "new:" ++ toString a
  | .ref a v => "ref:" ++ so a ++ ":" ++ so v
  | .val v => "val:" ++ so v
  | .phonons r => "ph:" ++ showPh r.ph ++ (match r.gv with | none => "" | some g => "/" ++ showPh g)
  | .copied c => "copied:" ++ so c.masses

/-- the reference carried by an output, if any -/
def outRef : Out → Option ArrRef
  | .newRef a => some a
  | .ref (some a) _ => some a
  | _ => none

def parseHandle (t : String) (outs : Array Out) : Option (Option ArrRef) :=
  -- `$k` ↦ some (ref of step k, if it has one) ; anything else is malformed
  if t.startsWith "$" then
    match (t.drop 1).toNat? with
    | some k => match outs[k]? with
      | some o => some (outRef o)
      | none => none
    | none => none
  else none

/-- parse one op; `none` = malformed; `some none` = handle without array (skipped as `badRef`) -/
def parseOp (toks : List String) (outs : Array Out) : Option (Option Op) :=
  match toks with
  | ["new", k, v, own] => do
    let kind ← (match k with | "fc" => some Kind.fc | "nac" => some Kind.nac | "ds" => some Kind.ds | _ => none)
    let v ← v.toNat?
    let own ← (match own with | "0" => some false | "1" => some true | _ => none)
    pure (some (.newArr v own kind))
  | ["setfc", h] => do let r ← parseHandle h outs; pure (r.map .setFc)
  | ["produce"] => some (some .produceFc)
  | ["setforces", f] => do let f ← f.toNat?; if f < 8 then pure (some (.setForces f)) else none
  | ["setenergies", e] => do let e ← e.toNat?; if e < 8 then pure (some (.setEnergies e)) else none
  | ["producewith", f] => do let f ← f.toNat?; if f < 8 then pure (some (.produceFcWith f)) else none
  | ["sym", l] => do let l ← l.toNat?; if l < 4 then pure (some (.symmetrizeFc l)) else none
  | ["symsg"] => some (some .symmetrizeFcSpaceGroup)
  | ["cut", r] => do let r ← r.toNat?; if r < 4 then pure (some (.cutoff r)) else none
  | ["setnac", "-"] => some (some (.setNac none))
  | ["setnac", h] => do let r ← parseHandle h outs; pure (r.map fun a => .setNac (some a))
  | ["setmasses", m] => do let m ← m.toNat?; pure (some (.setMasses m))
  | ["setds", "-"] => some (some (.setDataset none))
  | ["setds", h] => do let r ← parseHandle h outs; pure (r.map fun a => .setDataset (some a))
  | ["copy"] => some (some .copy)
  | ["mut", h, v] => do let r ← parseHandle h outs; let v ← v.toNat?; pure (r.map fun a => .callerMutates a v)
  | ["q", "freq"] => some (some (.query .freq))
  | ["q", "gv"] => some (some (.query .freqGV))
  | ["q", "fc"] => some (some (.query .getFc))
  | ["q", "nac"] => some (some (.query .getNac))
  | ["q", "masses"] => some (some (.query .getMasses))
  | ["q", "ds"] => some (some (.query .getDataset))
  | ["q", "disps"] => some (some (.query .getDisps))
  | _ => none

def mutatesReachable (s : St) : Op → Bool
  | .callerMutates a _ => s.o.refs.contains a
  | _ => false

def handle (line : String) : String :=
  let parts := (line.splitOn ";").map fun p => tokens p
  let r : Option String := do
    let head ← parts.head?
    let (m, fsf) ← (match head with
      | ["run", "-"] => some ((none : Option Val), false)
      | ["run", m] => m.toNat?.map fun v => (some v, false)
      | ["runfsf", "-"] => some ((none : Option Val), true)
      | ["runfsf", m] => m.toNat?.map fun v => (some v, true)
      | _ => none)
    let mut s := St.init m fsf
    let mut outs : Array Out := #[]
    let mut answers : Array String := #[]
    for toks in parts.drop 1 do
      let op? ← parseOp toks outs
      match op? with
      | none =>
        outs := outs.push (.err .badRef)
        answers := answers.push ("err:badRef @ . " ++ s.digest)
      | some op =>
        let flag := if mutatesReachable s op then "D" else "."
        let (s', o) := step Fterm s op
        s := s'
        outs := outs.push o
        answers := answers.push (showOut o ++ " @ " ++ flag ++ " " ++ s.digest)
    pure (" | ".intercalate answers.toList)
  r.getD "bad-op"

def main : IO Unit := serve handle
