import PhononModel.Model.EOS
import PhononModel.Model.QHA
import PhononModel.Gen.ThermalUnits
import PhononModel.Model.Wire
open PhononModel PhononModel.Wire PhononModel.EOS PhononModel.QHA

/-!
Driver for C20 (binary64; floats travel as IEEE bit patterns, decimal `UInt64`).

requests
  consts                                              → EVAngstromToGPa EvTokJmol
  eos  name E0 B0 Bp V0 n v[n]                        → E(v_1) … E(v_n)
  fe   hasP P shape(0: (V), 1: (T,V)) nt nv vol[nv] el[nv | nt·nv] fph[nt·nv]   → nt·nv energies (eV)
  fd   hastmax tmax nt T[nt] n V[n] G[n] B[n] cvAtV[n]
       → num_elems len  beta[len] cp[len] gamma[len]      (rejects if n ≠ num_elems)
  cpfit n T[n] V[n] cvcoef[n·5] scoef[n·5]           → len  cp_polyfit[len] dsdv[len]     (n = num_elems fitted points)
  bulkgpa n B0[n]                                     → B0·EVAngstromToGPa
-/

def fl? (c : Cur) : Option (Float × Cur) := do
  let (n, c) ← c.nat?
  if n < 2 ^ 64 then pure (Float.ofBits (UInt64.ofNat n), c) else none

def fls? (c : Cur) (n : Nat) : Option (Array Float × Cur) := do
  let mut c := c
  let mut out := Array.mkEmpty n
  for _ in [0:n] do
    let (v, c') ← fl? c
    out := out.push v
    c := c'
  pure (out, c)

def showF (x : Float) : String := toString x.toBits.toNat
def showFs (a : Array Float) : String := " ".intercalate (a.toList.map showF)

def bool? (c : Cur) : Option (Bool × Cur) := do
  let (n, c) ← c.nat?
  if n = 0 then pure (false, c) else if n = 1 then pure (true, c) else none

def handle (line : String) : String :=
  let c : Cur := { toks := (tokens line).toArray }
  let r : Option String := do
    let (op, c) ← c.str?
    match op with
    | "consts" =>
      if !c.atEnd then none
      pure (showFs #[ThermalC.EVAngstromToGPa_f, ThermalC.EvTokJmol_f])
    | "eos" =>
      let (name, c) ← c.str?
      let (e0, c) ← fl? c
      let (b0, c) ← fl? c
      let (bp, c) ← fl? c
      let (v0, c) ← fl? c
      let (n, c) ← c.nat?
      let (vs, c) ← fls? c n
      if !c.atEnd then none
      let P : EosParams Float := ⟨e0, b0, bp, v0⟩
      pure (showFs (vs.map (eval floatEnv (getEos name) P)))
    | "fe" =>
      let (hasP, c) ← bool? c
      let (p, c) ← fl? c
      let (shape, c) ← bool? c
      let (nt, c) ← c.nat?
      let (nv, c) ← c.nat?
      let (vol, c) ← fls? c nv
      let (el, c) ← fls? c (if shape then nt * nv else nv)
      let (fph, c) ← fls? c (nt * nv)
      if !c.atEnd then none
      let volf : Fin nv → Float := fun j => vol.getD j.1 0
      let elE : Electronic Float nt nv :=
        if shape then .perT (fun i j => el.getD (i.1 * nv + j.1) 0) else .static (fun j => el.getD j.1 0)
      let fphf : Fin nt → Fin nv → Float := fun i j => fph.getD (i.1 * nv + j.1) 0
      let mut out : Array Float := Array.mkEmpty (nt * nv)
      for i in List.finRange nt do
        for j in List.finRange nv do
          out := out.push (freeEnergy ThermalC.EvTokJmol_f ThermalC.EVAngstromToGPa_f volf
            (if hasP then some p else none) elE fphf i j)
      pure (showFs out)
    | "fd" =>
      let (hast, c) ← bool? c
      let (tmax, c) ← fl? c
      let (nt, c) ← c.nat?
      let (ts, c) ← fls? c nt
      let (n, c) ← c.nat?
      let (vs, c) ← fls? c n
      let (gs, c) ← fls? c n
      let (bs, c) ← fls? c n
      let (cvs, c) ← fls? c n
      if !c.atEnd then none
      let num := numElems ts.toList (if hast then some tmax else none)
      if num ≠ n then none
      let len := outLen num
      let T : Nat → Float := fun k => ts.getD k 0
      let V : Nat → Float := fun k => vs.getD k 0
      let G : Nat → Float := fun k => gs.getD k 0
      let beta : Array Float := Array.ofFn (n := len) fun i => thermalExpansion T V i.1
      let cp : Array Float := Array.ofFn (n := len) fun i =>
        cpNumerical ThermalC.EvTokJmol_f 1000.0 T G i.1
      let gam : Array Float := Array.ofFn (n := len) fun i =>
        gruneisen ThermalC.EvTokJmol_f ThermalC.EVAngstromToGPa_f 1000.0 1e-10 i.1
          (beta.getD i.1 0) (bs.getD i.1 0) (cvs.getD i.1 0) (V i.1)
      pure (toString num ++ " " ++ toString len ++ " " ++ showFs (beta ++ cp ++ gam))
    | "cpfit" =>
      let (n, c) ← c.nat?
      let (ts, c) ← fls? c n
      let (vs, c) ← fls? c n
      let (cvc, c) ← fls? c (n * 5)
      let (sc, c) ← fls? c (n * 5)
      if !c.atEnd then none
      let len := outLen n
      let T : Nat → Float := fun k => ts.getD k 0
      let V : Nat → Float := fun k => vs.getD k 0
      let cvf : Nat → Fin 5 → Float := fun j m => cvc.getD (j * 5 + m.1) 0
      let scf : Nat → Fin 5 → Float := fun j m => sc.getD (j * 5 + m.1) 0
      let cp : Array Float := Array.ofFn (n := len) fun i => cpPolyfit T V cvf scf i.1
      let ds : Array Float := Array.ofFn (n := len) fun i => dsdv V scf i.1
      pure (toString len ++ " " ++ showFs (cp ++ ds))
    | "bulkgpa" =>
      let (n, c) ← c.nat?
      let (bs, c) ← fls? c n
      if !c.atEnd then none
      pure (showFs (bs.map (bulkGPa ThermalC.EVAngstromToGPa_f)))
    | _ => none
  r.getD "bad-op"

def main : IO Unit := serve handle
