import PhononModel.Model.AccessPaths
import PhononModel.Model.Wire
open PhononModel PhononModel.Wire PhononModel.Access

partial def showVal : Val → String
  | .D q => s!"D{q}"
  | .vecs v => s!"V({showVal v})"
  | .freqs v => s!"F({showVal v})"
  | .gv q => s!"G{q}"
  | .perm o v => s!"P[{",".intercalate (o.map toString)}]({showVal v})"
  | .zero => "Z"

def showOpt : Option Val → String
  | none => "none"
  | some v => showVal v

def showRow (r : RowOut) : String :=
  s!"freqs={showVal r.freqs} eigvecs={showOpt r.eigvecs} dm={showOpt r.dm} gv={showOpt r.gv}"

def bool? (n : Nat) : Option Bool := if n = 0 then some false else if n = 1 then some true else none

def path? : String → Option Path
  | "qpoints" => some .qpoints
  | "band" => some .band
  | "mesh" => some .mesh
  | "itermesh" => some .iterMesh
  | "direct" => some .direct
  | _ => none

def readBool (c : Cur) : Option (Bool × Cur) := do
  let (n, c) ← c.nat?
  let b ← bool? n
  pure (b, c)

def readRev (c : Cur) : Option (Rev × Cur) := do
  let (a, c) ← readBool c
  let (b, c) ← readBool c
  let (d, c) ← readBool c
  pure (⟨a, b, d⟩, c)

def readOpts (c : Cur) : Option (Opts × Cur) := do
  let (e, c) ← readBool c
  let (g, c) ← readBool c
  let (d, c) ← readBool c
  let (k, c) ← readBool c
  pure (⟨e, g, d, k⟩, c)

def handle (line : String) : String :=
  let c : Cur := { toks := (tokens line).toArray }
  let r : Option String := do
    let (op, c) ← c.str?
    match op with
    | "row" =>
      -- row f1 f12 iter path omp e g d c q nord ord…
      let (rev, c) ← readRev c
      let (ps, c) ← c.str?
      let p ← path? ps
      let (omp, c) ← readBool c
      let (o, c) ← readOpts c
      let (q, c) ← c.nat?
      let (n, c) ← c.nat?
      let (ord, c) ← c.nats? n
      if !c.atEnd then none
      match runRow rev p omp o ord.toList q with
      | .ok r => pure (showRow r)
      | .error _ => pure "error=unbound"
    | "spec" =>
      let (ps, c) ← c.str?
      let p ← path? ps
      let (o, c) ← readOpts c
      let (q, c) ← c.nat?
      let (n, c) ← c.nat?
      let (ord, c) ← c.nats? n
      if !c.atEnd then none
      pure (showRow (specRow p o ord.toList q))
    | "gamma" =>
      let (rev, c) ← readRev c
      let (a, c) ← readBool c
      let (b, c) ← readBool c
      let (u, c) ← readBool c
      if !c.atEnd then none
      pure (toString (initMeshGamma rev a b u))
    | "gvseq" =>
      -- gvseq k p1 … pk (0 = no perturbation, 1 = user direction): direction each call computes with
      let (k, c) ← c.nat?
      let (v, c) ← c.nats? k
      if !c.atEnd then none
      let calls := v.toList.map fun x => if x = 0 then GammaDir.none else GammaDir.user
      let sh : GammaDir → String := fun g => match g with | .none => "none" | .user => "user" | .segment => "segment"
      pure (" ".intercalate ((gvSequence calls ⟨GammaDir.none⟩).map sh))
    | "gammadir" =>
      -- gammadir <path> <userDirGiven> <segThroughGamma>
      let (ps, c) ← c.str?
      let p ← path? ps
      let (u, c) ← readBool c
      let (sg, c) ← readBool c
      if !c.atEnd then none
      let sh : GammaDir → String := fun g => match g with | .none => "none" | .user => "user" | .segment => "segment"
      pure (s!"freq={sh (freqGammaDir p u sg)} gv={sh (gvPerturbation p u)} sym={gvSymmetrized p u} offers_gv={offersGv p}")
    | "written" =>
      -- written <writer> e g d c
      let (ws, c) ← c.str?
      let w ← (match ws with
        | "qpoints_yaml" => some Writer.qpointsYaml | "qpoints_hdf5" => some Writer.qpointsHdf5
        | "mesh_yaml" => some Writer.meshYaml | "mesh_hdf5" => some Writer.meshHdf5
        | "band_yaml" => some Writer.bandYaml | "band_hdf5" => some Writer.bandHdf5 | _ => none)
      let (o, c) ← readOpts c
      if !c.atEnd then none
      let sh : Field → String := fun f => match f with
        | .frequency => "frequency" | .eigenvector => "eigenvector" | .groupVelocity => "group_velocity" | .dynamicalMatrix => "dynamical_matrix"
      pure (" ".intercalate ((written w o).map sh))
    | "banddirs" =>
      -- banddirs k (throughGamma npts)*k : per segment, per point the direction label (s<k> or none)
      let (k, c) ← c.nat?
      let (v, c) ← c.nats? (2 * k)
      if !c.atEnd then none
      let segs : List Seg := (List.range k).map fun i => ⟨v.getD (2 * i) 0 != 0, v.getD (2 * i + 1) 0⟩
      let show1 : Option Nat → String := fun o => match o with | none => "none" | some n => s!"s{n}"
      pure (" ; ".intercalate ((bandDirs segs).map fun l => " ".intercalate (l.map show1)))
    | "conn" =>
      -- conn <repaired 0/1> n <n*n overlaps, row major> <prev band order, n entries>
      let (rp, c) ← readBool c
      let (n, c) ← c.nat?
      let (m, c) ← c.rats? (n * n)
      let (prev, c) ← c.nats? n
      if !c.atEnd then none
      let metric : List (List Rat) := (List.range n).map fun i => (List.range n).map fun j => m.getD (i * n + j) 0
      match connOrderRev rp metric with
      | none => pure "unbound"
      | some co =>
        let bo := bandOrder co prev.toList
        pure (s!"conn {showNats co.toArray} order {showNats bo.toArray} perm {isPermB co n} {isPermB bo n}")
    | "round" =>
      let (k, c) ← c.nat?
      let (x, c) ← c.rat?
      if !c.atEnd then none
      pure (showRat (writeK k x))
    | _ => none
  r.getD "bad-op"

def main : IO Unit := serve handle
