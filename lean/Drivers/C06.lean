import PhononModel.Model.DynmatToFc
import PhononModel.Model.Wire
open PhononModel PhononModel.Wire PhononModel.C06

def readP3 (c : Cur) : Option (P3 × Cur) := do
  let (a, c) ← c.int?
  let (b, c) ← c.int?
  let (d, c) ← c.int?
  pure ((a, b, d), c)

def readMat3 (c : Cur) : Option (Mat3 × Cur) := do
  let (r0, c) ← readP3 c
  let (r1, c) ← readP3 c
  let (r2, c) ← readP3 c
  pure ((r0, r1, r2), c)

def readP3s (c : Cur) (n : Nat) : Option (Array P3 × Cur) := do
  let mut c := c
  let mut out := Array.mkEmpty n
  for _ in [0:n] do
    let (p, c') ← readP3 c
    out := out.push p
    c := c'
  pure (out, c)

def showP3s (l : List P3) : String :=
  " ".intercalate (l.map fun p => s!"{p.1} {p.2.1} {p.2.2}")

/-- `cnt` lists of complex numbers, each encoded as `m re im re im …` -/
def readPhases (c : Cur) (cnt : Nat) : Option (Array (List (Cx Rat)) × Cur) := do
  let mut c := c
  let mut out := Array.mkEmpty cnt
  for _ in [0:cnt] do
    let (m, c1) ← c.nat?
    let (v, c2) ← c1.rats? (2 * m)
    let l := (List.range m).map fun t => (⟨v.getD (2 * t) 0, v.getD (2 * t + 1) 0⟩ : Cx Rat)
    out := out.push l
    c := c2
  pure (out, c)

def toCFC (a b : Nat) (v : Array Rat) : Fin a → Fin b → Fin 3 → Fin 3 → Rat :=
  fun i j k l => v.getD (i.1 * b * 9 + j.1 * 9 + k.1 * 3 + l.1) 0

def ofCFC (a b : Nat) (Φ : Fin a → Fin b → Fin 3 → Fin 3 → Rat) : Array Rat := Id.run do
  let mut out := Array.mkEmpty (a * b * 9)
  for i in List.finRange a do
    for j in List.finRange b do
      for k in List.finRange 3 do
        for l in List.finRange 3 do
          out := out.push (Φ i j k l)
  pure out

/-- flat `[np][3][np][3][2]` ↦ `DM` -/
def toDM (np : Nat) (v : Array Rat) (off : Nat) : DM np Rat :=
  fun i a j b =>
    let adr := off + 2 * (((i.1 * 3 + a.1) * np + j.1) * 3 + b.1)
    ⟨v.getD adr 0, v.getD (adr + 1) 0⟩

def ofDM (np : Nat) (D : DM np Rat) : Array Rat := Id.run do
  let mut out := Array.mkEmpty (np * np * 18)
  for i in List.finRange np do
    for a in List.finRange 3 do
      for j in List.finRange np do
        for b in List.finRange 3 do
          let z := D i a j b
          out := out.push z.re
          out := out.push z.im
  pure out

def readCTables (c : Cur) : Option ((np : Nat) × (ns : Nat) × (nt : Nat) × CTables np ns nt × Cur) := do
  let (np, c) ← c.nat?
  let (ns, c) ← c.nat?
  let (nt, c) ← c.nat?
  let (p2s, c) ← c.nats? np
  let (s2pp, c) ← c.nats? ns
  let (nsym, c) ← c.nats? ns
  let (perms, c) ← c.nats? (nt * ns)
  let p2s ← allFin? ns p2s
  let s2pp ← allFin? np s2pp
  let nsym ← allFin? nt nsym
  let perms ← allFin? ns perms
  if h1 : p2s.size = np ∧ s2pp.size = ns ∧ nsym.size = ns ∧ perms.size = nt * ns then
    let T : CTables np ns nt :=
      { p2s := fun i => p2s[i.1]'(by omega)
        s2pp := fun i => s2pp[i.1]'(by omega)
        nsym := fun i => nsym[i.1]'(by omega)
        perms := fun t i => perms[t.1 * ns + i.1]'(by
          have := t.2; have := i.2
          calc t.1 * ns + i.1 < t.1 * ns + ns := by omega
            _ = (t.1 + 1) * ns := by rw [Nat.add_mul, Nat.one_mul]
            _ ≤ nt * ns := Nat.mul_le_mul_right _ (by omega)
            _ = perms.size := by omega) }
    pure ⟨np, ns, nt, T, c⟩
  else none

def handle (line : String) : String :=
  let c : Cur := { toks := (tokens line).toArray }
  let r : Option String := do
    let (op, c) ← c.str?
    match op with
    | "comm" =>
      let (S, c) ← readMat3 c
      if !c.atEnd then none
      if 0 < det3 S then
        pure (s!"{det3 S} " ++ showP3s (commPointsK S))
      else pure "none"
    | "snfwf" =>
      let (S, c) ← readMat3 c
      let (d, c) ← readP3 c
      let (P, c) ← readMat3 c
      let (Q, c) ← readMat3 c
      if !c.atEnd then none
      pure (toString (snfWf S d P Q))
    | "commint" =>
      let (d, c) ← readP3 c
      let (Q, c) ← readMat3 c
      if !c.atEnd then none
      pure (showP3s (commPointsInt d Q))
    | "categorize" =>
      let (n, c) ← c.nat?
      let (pts, c) ← readP3s c n
      if !c.atEnd then none
      match categorize pts.toList with
      | none => pure "none"
      | some (ii, ij) => pure (s!"{ii.length} " ++ " ".intercalate ((ii ++ ij).map toString))
    | "latwf" =>
      let (np, c) ← c.nat?
      let (ns, c) ← c.nat?
      let (N, c) ← c.nat?
      let (Nd, c) ← c.int?
      let (s2pp, c) ← c.nats? ns
      let s2pp ← allFin? np s2pp
      let (base, c) ← c.nats? np
      let base ← allFin? ns base
      let (kq, c) ← readP3s c N
      let (R, c) ← readP3s c ns
      if !c.atEnd then none
      if h : s2pp.size = ns ∧ base.size = np then
        let L : Lat np ns N := { s2pp := fun k => s2pp[k.1]'(by omega)
                                 base := fun j => base[j.1]'(by omega)
                                 kq := fun q => kq.getD q.1 (0, 0, 0)
                                 R := fun k => R.getD k.1 (0, 0, 0)
                                 Nd := Nd }
        pure (toString L.wf)
      else none
    | "d2f" | "d2fpy" | "d2ffull" =>
      let ⟨np, ns, _, T, c⟩ ← readCTables c
      let (N, c) ← c.nat?
      if N * np != ns || N != ns / np then none
      let (ms, c) ← c.rats? (np * np)
      let (dm, c) ← c.rats? (N * np * np * 18)
      let (ph, c) ← readPhases c (N * ns * np)
      if !c.atEnd then none
      let msf : Fin np → Fin np → Rat := fun i j => ms.getD (i.1 * np + j.1) 0
      let dmf : Fin N → DM np Rat := fun q => toDM np dm (q.1 * np * np * 18)
      let phf : Fin N → Phases np ns Rat := fun q k i => ph.getD ((q.1 * ns + k.1) * np + i.1) []
      match op with
      | "d2f" => pure (showRats (ofCFC np ns (dynmatToFc T.s2pp dmf msf phf)))
      | "d2fpy" => pure (showRats (ofCFC np ns (dynmatToFcPy T.s2pp dmf msf phf)))
      | _ =>
        let comp := thaw4 (freeze4 (dynmatToFc T.s2pp dmf msf phf))
        pure (showRats (ofCFC ns ns (expand T comp)))
    | "dynmat" | "dynmatraw" =>
      let (np, c) ← c.nat?
      let (ns, c) ← c.nat?
      let (nr, c) ← c.nat?
      let (p2s, c) ← c.nats? np
      let p2s ← allFin? nr p2s
      let (s2p, c) ← c.nats? ns
      let (fc, c) ← c.rats? (nr * ns * 9)
      let (ms, c) ← c.rats? (np * np)
      let (ph, c) ← readPhases c (ns * np)
      if !c.atEnd then none
      if h : p2s.size = np then
        let T : FTables np ns nr := { p2s := fun i => p2s[i.1]'(by omega), s2p := fun k => s2p.getD k.1 0 }
        let msf : Fin np → Fin np → Rat := fun i j => ms.getD (i.1 * np + j.1) 0
        let phf : Phases np ns Rat := fun k i => ph.getD (k.1 * np + i.1) []
        match op with
        | "dynmatraw" => pure (showRats (ofDM np (dynmatRaw T (toCFC nr ns fc) msf phf)))
        | _ =>
          let v := ofDM np (dynmatRaw T (toCFC nr ns fc) msf phf)
          pure (showRats (ofDM np (hermitize (toDM np v 0))))
      else none
    | _ => none
  r.getD "bad-op"

def main : IO Unit := serve handle
