import PhononModel.Model.DerivDynMat
import PhononModel.Model.Gruneisen
import PhononModel.Model.GroupVelocity
import PhononModel.Model.Wire
open PhononModel PhononModel.Wire PhononModel.CP PhononModel.C12

def showMat (d : Nat) (M : Mat d Rat) : String :=
  " ".intercalate ((List.finRange d).flatMap fun r => (List.finRange d).flatMap fun c =>
    [showRat (M r c).re, showRat (M r c).im])

def readCxMat (c : Cur) (d : Nat) : Option (FMat Rat × Cur) := do
  let (v, c) ← c.rats? (d * d * 2)
  let M : Mat d Rat := fun r cc => ⟨v.getD ((r.1 * d + cc.1) * 2) 0, v.getD ((r.1 * d + cc.1) * 2 + 1) 0⟩
  pure (freeze2 M, c)

def readCxVec (c : Cur) (d : Nat) : Option ((Fin d → Cx Rat) × Cur) := do
  let (v, c) ← c.rats? (d * 2)
  pure (fun r => ⟨v.getD (r.1 * 2) 0, v.getD (r.1 * 2 + 1) 0⟩, c)

/-- `np ns nv p2s[np] s2p[ns] (count start)[ns*np]`; every selected svecs row must exist -/
def readTabs (c : Cur) : Option ((np : Nat) × (ns : Nat) × (nv : Nat) × Tabs np ns nv × Cur) := do
  let (np, c) ← c.nat?
  let (ns, c) ← c.nat?
  let (nv, c) ← c.nat?
  let (p2s, c) ← c.nats? np
  let (s2p, c) ← c.nats? ns
  let (mu, c) ← c.nats? (ns * np * 2)
  let p2s ← allFin? ns p2s
  let s2p ← allFin? ns s2p
  -- every multi entry: count ≥ 1 and start + count ≤ nv
  let okm := (List.range (ns * np)).all fun t => 1 ≤ mu.getD (2 * t) 0 ∧ mu.getD (2 * t + 1) 0 + mu.getD (2 * t) 0 ≤ nv
  if h : p2s.size = np ∧ s2p.size = ns ∧ okm = true then
    let img : Fin ns → Fin np → List (Fin nv) := fun k i =>
      let cnt := mu.getD (2 * (k.1 * np + i.1)) 0
      let st := mu.getD (2 * (k.1 * np + i.1) + 1) 0
      (List.range cnt).filterMap fun t => finOf? nv (st + t)
    let T : Tabs np ns nv :=
      { p2s := fun i => p2s[i.1]'(by omega)
        s2p := fun k => s2p[k.1]'(by omega)
        img := img }
    pure ⟨np, ns, nv, T, c⟩
  else none

def showList (l : List Rat) : String := " ".intercalate (l.map showRat)

def handle (line : String) : String :=
  let c : Cur := { toks := (tokens line).toArray }
  let r : Option String := do
    let (op, c) ← c.str?
    match op with
    | "ddmall" =>
      -- loop bounds as parsed from the C source
      let (jsIsDir, c) ← c.nat?
      let (kFromJ, c) ← c.nat?
      let ⟨np, ns, nv, T, c⟩ ← readTabs c
      let (fcv, c) ← c.rats? (ns * ns * 9)
      let (msv, c) ← c.rats? (np * np)
      let (cv, c) ← c.rats? nv
      let (sv, c) ← c.rats? nv
      let (svv, c) ← c.rats? (nv * 3)
      let (latv, c) ← c.rats? 9
      let (tp, c) ← c.rat?
      let (isnac, c) ← c.nat?
      let (nac, c) ← (if isnac = 1 then do
          let (bv, c) ← c.rats? (np * 9)
          let (ev, c) ← c.rats? 9
          let (qv, c) ← c.rats? 3
          let (f, c) ← c.rat?
          let N : Nac np Rat :=
            { born := fun i x a => bv.getD (i.1 * 9 + x.1 * 3 + a.1) 0
              eps := fun x y => ev.getD (x.1 * 3 + y.1) 0
              qc := fun x => qv.getD x.1 0
              factor := f }
          pure (some N, c)
        else if isnac = 0 then pure (none, c) else none : Option (Option (Nac np Rat) × Cur))
      if !c.atEnd then none
      if jsIsDir > 1 || kFromJ > 1 then none
      let L : LoopSpec := ⟨jsIsDir == 1, kFromJ == 1⟩
      let G : Geo np ns nv Rat :=
        { fc := fun i j k l => fcv.getD (i.1 * ns * 9 + j.1 * 9 + k.1 * 3 + l.1) 0
          ms := fun i j => msv.getD (i.1 * np + j.1) 0
          c := fun l => cv.getD l.1 0
          s := fun l => sv.getD l.1 0 }
      let svf : Fin nv → Fin 3 → Rat := fun l n => svv.getD (l.1 * 3 + n.1) 0
      let lat : Fin 3 → Fin 3 → Rat := fun m n => latv.getD (m.1 * 3 + n.1) 0
      -- coefficients are materialised once (they are inputs of the kernels)
      let cC := freeze2 (coefC tp lat svf)
      let cP := freeze2 (coefPy tp lat svf)
      let coefc : Fin nv → Fin 3 → Rat := thaw2 cC 0
      let coefp : Fin nv → Fin 3 → Rat := thaw2 cP 0
      let d := np * 3
      let outC := (List.finRange 3).map fun n =>
        showMat d (thaw2 (hermLoopF d (L.js n) L.kFromJ (freeze2 (rawC T G coefc nac n))) 0)
      let outCc := (List.finRange 3).map fun n =>
        showMat d (thaw2 (stageM (d := d) (hermClosed (L.js n) L.kFromJ) (freeze2 (rawC T G coefc nac n))) 0)
      let outP := (List.finRange 3).map fun n =>
        showMat d (thaw2 (stageM (d := d) herm (freeze2 (rawPy T G coefp nac n))) 0)
      let outD := showMat d (thaw2 (stageM (d := d) herm (freeze2 (rawD T G nac))) 0)
      pure (" ".intercalate (outC ++ outCc ++ outP ++ [outD]))
    | "grun" =>
      let (d, c) ← c.nat?
      let (V, c) ← c.rat?
      let (Vp, c) ← c.rat?
      let (Vm, c) ← c.rat?
      let (lam, c) ← c.rat?
      let (e, c) ← readCxVec c d
      let (Dm, c) ← readCxMat c d
      let (Dp, c) ← readCxMat c d
      if !c.atEnd then none
      if V = 0 || Vp = Vm || lam = 0 then none
      pure (showRat (gruneisen V Vp Vm lam e (thaw2 Dm 0 : Mat d Rat) (thaw2 Dp 0 : Mat d Rat)))
    | "gv" =>
      let (d, c) ← c.nat?
      let (factor, c) ← c.rat?
      let (cutoff, c) ← c.rat?
      let (f, c) ← c.rat?
      let (e, c) ← readCxVec c d
      let (M, c) ← readCxMat c d
      if !c.atEnd then none
      if f = 0 then none
      pure (showRat (gvMode factor cutoff f e (thaw2 M 0 : Mat d Rat)))
    | "fdd" =>
      let (d, c) ← c.nat?
      let (h, c) ← c.rat?
      let (Dp, c) ← readCxMat c d
      let (Dm, c) ← readCxMat c d
      if !c.atEnd then none
      if h = 0 then none
      pure (showMat d (fdD (thaw2 Dp 0 : Mat d Rat) (thaw2 Dm 0 : Mat d Rat) h))
    | "lgcert" =>
      let (n, c) ← c.nat?
      let (o, c) ← c.ints? (n * 9)
      let (t, c) ← c.nats? (n * n)
      if !c.atEnd then none
      let ops : Array (Fin 3 → Fin 3 → Int) := Array.ofFn fun (k : Fin n) => fun i j => o.getD (k.1 * 9 + i.1 * 3 + j.1) 0
      let tab : Array (Array Nat) := Array.ofFn fun (s : Fin n) => Array.ofFn fun (u : Fin n) => t.getD (s.1 * n + u.1) n
      pure (toString (groupTableOk ops tab))
    | "gvfull" =>
      let (d, c) ← c.nat?
      -- frequencies first: the model groups the bands itself, on the frequency array, with the documented tolerance
      let (fr, c) ← c.rats? d
      let (degcut, c) ← c.rat?
      let sets := degenerateSets fr degcut
      let sizes : Array Nat := (sets.map List.length).toArray
      let idx : Array Nat := (sets.flatMap id).toArray
      if idx.size != d then none
      -- the harness hands over one `eigh` result per set of *its* grouping: the shapes must be the model's
      let (nsets, c) ← c.nat?
      let (sizesIn, c) ← c.nats? nsets
      if sizesIn != sizes then none
      let (uflat, c) ← c.rats? ((sizes.foldl (fun acc m => acc + m * m) 0) * 2)
      let (ev, c) ← c.rats? (d * d * 2)
      let (dd, c) ← c.rats? (3 * d * d * 2)
      let (factor, c) ← c.rat?
      let (cutoff, c) ← c.rat?
      let (sym, c) ← c.nat?
      let E : Fin d → Fin d → Cx Rat := fun r ν => ⟨ev.getD ((r.1 * d + ν.1) * 2) 0, ev.getD ((r.1 * d + ν.1) * 2 + 1) 0⟩
      let ddm : Fin 3 → Mat d Rat := fun k r cc =>
        ⟨dd.getD (((k.1 * d + r.1) * d + cc.1) * 2) 0, dd.getD (((k.1 * d + r.1) * d + cc.1) * 2 + 1) 0⟩
      -- the three Cartesian directions as `_get_dD_analytical` forms them
      let unitv : Fin 3 → Fin 3 → Rat := fun k j => if k = j then 1 else 0
      let ddk : Fin 3 → FMat Rat := fun k => freeze2 (ddmDir (unitv k) ddm)
      let ddF := freeze1 ddk
      -- raw group velocities, set by set
      let rec go (sets : List Nat) (pos upos : Nat) (acc : List (List Rat)) : Option (List (List Rat)) :=
        match sets with
        | [] => some acc.reverse
        | m :: rest =>
          if m = 0 then none else
          let cols : Fin m → Nat := fun a => idx.getD (pos + a.1) d
          if (List.finRange m).any (fun a => cols a ≥ d) then none else
          let Es : Fin d → Fin m → Cx Rat := fun r a => if h : cols a < d then E r ⟨cols a, h⟩ else 0
          let U : Fin m → Fin m → Cx Rat := fun a ν =>
            ⟨uflat.getD ((upos + a.1 * m + ν.1) * 2) 0, uflat.getD ((upos + a.1 * m + ν.1) * 2 + 1) 0⟩
          let rowsOut : List (List Rat) := (List.finRange m).map fun ν =>
            (List.finRange 3).map fun k => gvDeg Es U (thaw2 ((thaw1 ddF #[] : Fin 3 → FMat Rat) k) 0 : Mat d Rat) ν
          go rest (pos + m) (upos + m * m) (rowsOut.reverse ++ acc)
      let raw ← go sizes.toList 0 0 []
      if raw.length != d then none
      let scaled : List (List Rat) := (raw.zip (List.range d)).map fun (row, nu) =>
        row.map fun x => gvScale factor cutoff (fr.getD nu 0) x
      if sym = 0 then
        if !c.atEnd then none
        pure (showList (scaled.flatMap id) ++ " | 0")
      else if sym = 1 then
        let (nops, c) ← c.nat?
        let (o, c) ← c.ints? (nops * 9)
        let (bv, c) ← c.rats? 9
        let (biv, c) ← c.rats? 9
        let (qb, c) ← c.rats? 3
        let (tol, c) ← c.rat?
        if !c.atEnd then none
        let ops : List (Fin 3 → Fin 3 → Int) := (List.range nops).map fun k => fun i j => o.getD (k * 9 + i.1 * 3 + j.1) 0
        let B : M3 Rat := fun i j => bv.getD (i.1 * 3 + j.1) 0
        let Binv : M3 Rat := fun i j => biv.getD (i.1 * 3 + j.1) 0
        let qbz : Fin 3 → Rat := fun x => qb.getD x.1 0
        let nsel := (littleGroup ops qbz tol).length
        if nsel = 0 then none
        let out := scaled.flatMap fun row =>
          let v : Fin 3 → Rat := fun x => row.getD x.1 0
          (List.finRange 3).map fun x => symmetrizeGv ops B Binv qbz tol v x
        pure (showList out ++ " | " ++ toString nsel)
      else none
    | "meshsum" =>
      let (n, c) ← c.nat?
      let (w, c) ← c.nats? n
      let (g, c) ← c.rats? n
      if !c.atEnd then none
      pure (showRat (meshSum (fun j : Fin n => w.getD j.1 0) (fun j => g.getD j.1 0)))
    | _ => none
  r.getD "bad-op"

def main : IO Unit := serve handle
