import PhononModel.Model.Supercell
import PhononModel.Model.CellTables
import PhononModel.Model.Wire
open PhononModel PhononModel.Wire PhononModel.SNF PhononModel.Supercell PhononModel.CellTables

def readM3Int (c : Cur) : Option (M3 Int × Cur) := do
  let (v, c) ← c.ints? 9
  pure (⟨v[0]!, v[1]!, v[2]!, v[3]!, v[4]!, v[5]!, v[6]!, v[7]!, v[8]!⟩, c)

def readM3Rat (c : Cur) : Option (M3 Rat × Cur) := do
  let (v, c) ← c.rats? 9
  pure (⟨v[0]!, v[1]!, v[2]!, v[3]!, v[4]!, v[5]!, v[6]!, v[7]!, v[8]!⟩, c)

def readV3Rats (c : Cur) (n : Nat) : Option (Array (V3 Rat) × Cur) := do
  let (v, c) ← c.rats? (3 * n)
  pure ((Array.range n).map (fun i => ⟨v[3*i]!, v[3*i+1]!, v[3*i+2]!⟩), c)

def readV3Ints (c : Cur) (n : Nat) : Option (Array (V3 Int) × Cur) := do
  let (v, c) ← c.ints? (3 * n)
  pure ((Array.range n).map (fun i => ⟨v[3*i]!, v[3*i+1]!, v[3*i+2]!⟩), c)

def showM3Int (m : M3 Int) : String := " ".intercalate (m.toList.map toString)
def showM3Rat (m : M3 Rat) : String := " ".intercalate (m.toList.map showRat)
def showV3Rat (v : V3 Rat) : String := " ".intercalate (v.toList.map showRat)
def showV3Int (v : V3 Int) : String := " ".intercalate (v.toList.map toString)
def showB (b : Bool) : String := if b then "1" else "0"

def errName : CErr → String
  | .snf _ => "detZero"
  | .snfNotFinished => "snfNotFinished"
  | .pinvNotUnimodular => "pinvNotUnimodular"
  | .singular => "singular"
  | .trimFailed => "trimFailed"
  | .creationFailed => "creationFailed"
  | .symbolMismatch => "symbolMismatch"
  | .mapNotUnique => "mapNotUnique"
  | .overlapNotUnique => "overlapNotUnique"
  | .permNotFound => "permNotFound"

def readSTables (c : Cur) : Option ((nu : Nat) × (ns : Nat) × STables nu ns × Cur) := do
  let (nu, c) ← c.nat?
  let (ns, c) ← c.nat?
  let (N, c) ← c.nat?
  let (s2u, c) ← c.nats? ns
  let (u2s, c) ← c.nats? nu
  let s2u ← allFin? ns s2u
  let u2s ← allFin? ns u2s
  if h : s2u.size = ns ∧ u2s.size = nu then
    pure ⟨nu, ns, { s2u := fun i => s2u[i.1]'(by omega), u2s := fun i => u2s[i.1]'(by omega), N := N }, c⟩
  else none

def readPTables (c : Cur) : Option ((np : Nat) × (ns : Nat) × (nt : Nat) × PTables np ns nt × Cur) := do
  let (np, c) ← c.nat?
  let (ns, c) ← c.nat?
  let (nt, c) ← c.nat?
  let (p2s, c) ← c.nats? np
  let (s2p, c) ← c.nats? ns
  let (perms, c) ← c.nats? (nt * ns)
  let p2s ← allFin? ns p2s
  let s2p ← allFin? ns s2p
  let perms ← allFin? ns perms
  if h : p2s.size = np ∧ s2p.size = ns ∧ perms.size = nt * ns then
    pure ⟨np, ns, nt,
      { p2s := fun i => p2s[i.1]'(by omega)
        s2p := fun i => s2p[i.1]'(by omega)
        perms := fun t i => perms[t.1 * ns + i.1]'(by
          have := t.2; have := i.2
          calc t.1 * ns + i.1 < t.1 * ns + ns := by omega
            _ = (t.1 + 1) * ns := by rw [Nat.add_mul, Nat.one_mul]
            _ ≤ nt * ns := Nat.mul_le_mul_right _ (by omega)
            _ = perms.size := by omega) }, c⟩
  else none

def handle (line : String) : String :=
  let c : Cur := { toks := (tokens line).toArray }
  let r : Option String := do
    let (op, c) ← c.str?
    match op with
    | "xgcd" =>
      let (a, c) ← c.int?
      let (b, c) ← c.int?
      if !c.atEnd then none
      let x := xgcd a b
      pure s!"{x.r} {x.s} {x.t} {showB x.done}"
    | "snf" =>
      let (A, c) ← readM3Int c
      if !c.atEnd then none
      match SNF.run snfFuel A with
      | .error _ => pure "err detZero"
      | .ok o =>
        pure s!"ok {showM3Int o.D} {showM3Int o.P} {showM3Int o.Q} {showB o.finished} {showB o.xok} {showB o.finOk} {o.attempts} {showB (isSNF A o)} {showB (hasChain o)}"
    | "supercell" =>
      let (old, c) ← c.nat?
      let (L, c) ← readM3Rat c
      let (S, c) ← readM3Int c
      let (nu, c) ← c.nat?
      let (upos, c) ← readV3Rats c nu
      if !c.atEnd then none
      match supercell L upos S (old == 1) with
      | .error e => pure ("err " ++ errName e)
      | .ok o =>
        let atoms := " ".intercalate (o.atoms.toList.map fun a => s!"{a.u} {showV3Int a.lp} {showV3Rat a.pos}")
        pure s!"ok {o.N} {o.atoms.size} {showM3Rat o.lattice} {showNats o.s2u} {showNats o.u2s} {atoms}"
    | "primitive" =>
      let (ns, c) ← c.nat?
      let (spos, c) ← readV3Rats c ns
      let (sym, c) ← c.nats? ns
      let (pmat, c) ← readM3Rat c
      if !c.atEnd then none
      match primitive spos sym pmat with
      | .error e => pure ("err " ++ errName e)
      | .ok o =>
        let perms := " ".intercalate (o.perms.toList.map showNats)
        let ppos := " ".intercalate (o.pos.toList.map showV3Rat)
        pure s!"ok {o.p2s.size} {showNats o.p2s} {showNats o.s2p} {showNats o.mapping} {o.perms.size} {perms} {ppos}"
    | "crs" =>
      let (S, c) ← readM3Int c
      let (D, c) ← readM3Int c
      let (P, c) ← readM3Int c
      let (Pinv, c) ← readM3Int c
      let (Q, c) ← readM3Int c
      let (Qinv, c) ← readM3Int c
      let (n, c) ← c.nat?
      let (pts, c) ← readV3Ints c n
      if !c.atEnd then none
      pure (showB (isCompleteResidueSystem S ⟨D, P, Pinv, Q, Qinv⟩ pts.toList))
    | "centring" =>
      let (name, c) ← c.str?
      if !c.atEnd then none
      match centringMatrix name with
      | none => pure "none"
      | some m => pure (showM3Rat m)
    | "framecheck" =>
      let (S, c) ← readM3Int c
      let (D, c) ← readM3Int c
      let (P, c) ← readM3Int c
      let (Pinv, c) ← readM3Int c
      let (Q, c) ← readM3Int c
      let (Qinv, c) ← readM3Int c
      if !c.atEnd then none
      pure (showB (frameComplete S ⟨D, P, Pinv, Q, Qinv⟩))
    | "stables" =>
      let ⟨_, _, T, c⟩ ← readSTables c
      if !c.atEnd then none
      pure (showB T.wf)
    | "ptables" =>
      let ⟨_, _, _, T, c⟩ ← readPTables c
      if !c.atEnd then none
      pure (showB T.wf ++ showB T.wfSmall)
    | "frame" =>
      let (S, c) ← readM3Int c
      if !c.atEnd then none
      pure (showV3Int (surroundingFrame S))
    | _ => none
  r.getD "bad-op"

def main : IO Unit := serve handle
