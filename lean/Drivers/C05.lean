import PhononModel.Model.ShortestPairs
import PhononModel.Lemmas.ShortestPairsConvert
import PhononModel.Model.Wire
open PhononModel PhononModel.Wire PhononModel.ShortestPairs

def readM3Int (c : Cur) : Option (M3 Int × Cur) := do
  let (v, c) ← c.ints? 9
  pure (⟨v[0]!, v[1]!, v[2]!, v[3]!, v[4]!, v[5]!, v[6]!, v[7]!, v[8]!⟩, c)

def readM3Rat (c : Cur) : Option (M3 Rat × Cur) := do
  let (v, c) ← c.rats? 9
  pure (⟨v[0]!, v[1]!, v[2]!, v[3]!, v[4]!, v[5]!, v[6]!, v[7]!, v[8]!⟩, c)

def readV3Rats (c : Cur) (n : Nat) : Option (List (V3 Rat) × Cur) := do
  let (v, c) ← c.rats? (3 * n)
  pure ((List.range n).map (fun i => ⟨v[3*i]!, v[3*i+1]!, v[3*i+2]!⟩), c)

def readV3Ints (c : Cur) (n : Nat) : Option (List (V3 Int) × Cur) := do
  let (v, c) ← c.ints? (3 * n)
  pure ((List.range n).map (fun i => ⟨v[3*i]!, v[3*i+1]!, v[3*i+2]!⟩), c)

def showV3Rat (v : V3 Rat) : String := " ".intercalate (v.toList.map showRat)
def showV3Int (v : V3 Int) : String := " ".intercalate (v.toList.map toString)
def showB (b : Bool) : String := if b then "1" else "0"

def handle (line : String) : String :=
  let c : Cur := { toks := (tokens line).toArray }
  let r : Option String := do
    let (op, c) ← c.str?
    match op with
    | "window" =>
      if !c.atEnd then none
      pure (" ".intercalate (window65.map showV3Int))
    | "pd" =>
      let (G, c) ← readM3Rat c
      if !c.atEnd then none
      pure (showB (isSymm G && isPD G))
    | "svecs" =>
      -- svecs G T npts pts nto nfrom pto pfrom
      let (G, c) ← readM3Rat c
      let (T, c) ← readM3Int c
      let (np, c) ← c.nat?
      let (pts, c) ← readV3Ints c np
      let (nto, c) ← c.nat?
      let (nfrom, c) ← c.nat?
      let (pto, c) ← readV3Rats c nto
      let (pfrom, c) ← readV3Rats c nfrom
      if !c.atEnd then none
      let D := denseRun G T pts pto pfrom
      let multi := " ".intercalate (D.multi.map fun (m, a) => s!"{m} {a}")
      let vecs := " ".intercalate (D.svecs.map showV3Rat)
      let sp := match sparseRun G T pts pto pfrom with
        | .error _ => "err"
        | .ok s => if denseToSparse D == s && sparseToDense s == D then "same" else "differ"
      pure s!"{D.svecs.length} {multi} {sp} {vecs}"
    | "d2s" =>
      -- d2s nvec vecs npair (count address)* : `dense_to_sparse_svecs` of an ARBITRARY dense table; per pair the count and the
      -- 27 slots.  `notwf` when a count exceeds 27 or an address range leaves the vector array (the model has no value there)
      let (nv, c) ← c.nat?
      let (vecs, c) ← readV3Rats c nv
      let (npair, c) ← c.nat?
      let (ma, c) ← c.nats? (2 * npair)
      if !c.atEnd then none
      let d : Dense := { svecs := vecs, multi := (List.range npair).map fun i => (ma[2*i]!, ma[2*i+1]!) }
      if !(d.multi.all fun (m, a) => decide (m ≤ 27) && decide (a + m ≤ d.svecs.length)) then pure "notwf" else
      let s := denseToSparse d
      let back := sparseToDense s
      let rt := showB ((List.range npair).all fun k => back.read k == d.read k)
      pure (rt ++ " " ++ " ".intercalate (s.cells.map fun (slots, m) => s!"{m} " ++ " ".intercalate (slots.map showV3Rat)))
    | "wincert" =>
      -- wincert cap G : per-lattice certificate of window completeness; `skip n` when the box has more than cap points
      let (cap, c) ← c.nat?
      let (G, c) ← readM3Rat c
      if !c.atEnd then none
      if !(isSymm G && isPD G) then pure "notpd" else
      let nbox := (cubeBox G).length
      let wr := showB (wellReduced G)
      if nbox > cap then pure s!"skip {nbox} {wr}" else
      pure s!"{showB (windowCert G window65)} {nbox} {wr}"
    | "svecstol" =>
      -- svecstol tol G T npts pts nto nfrom pto pfrom : per pair `count v...` with the tolerance rule in length
      let (tol, c) ← c.rat?
      let (G, c) ← readM3Rat c
      let (T, c) ← readM3Int c
      let (np, c) ← c.nat?
      let (pts, c) ← readV3Ints c np
      let (nto, c) ← c.nat?
      let (nfrom, c) ← c.nat?
      let (pto, c) ← readV3Rats c nto
      let (pfrom, c) ← readV3Rats c nfrom
      if !c.atEnd then none
      let cells := (pairs pto pfrom).map fun (a, b) => implShortestTol tol G T pts a b
      let counts := " ".intercalate (cells.map fun v => toString v.length)
      let vecs := " ".intercalate (cells.flatten.map showV3Rat)
      pure s!"{counts} {vecs}"
    | "spec" =>
      -- spec G d : lattice translations of the global minimum images
      let (G, c) ← readM3Rat c
      let (d, c) ← c.rats? 3
      if !c.atEnd then none
      if !(isSymm G && isPD G) then pure "notpd" else
      let pts := specShortestPoints G ⟨d[0]!, d[1]!, d[2]!⟩
      pure (s!"{pts.length} {(boxPoints G ⟨d[0]!, d[1]!, d[2]!⟩).length} " ++ " ".intercalate (pts.map showV3Int))
    | _ => none
  r.getD "bad-op"

def main : IO Unit := serve handle
