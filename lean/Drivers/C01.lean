import PhononModel.Model.Displacement
import PhononModel.Model.FDSolver
import PhononModel.Model.FDSolverLit
import PhononModel.Model.SymBook
import PhononModel.Model.Wire
open PhononModel PhononModel.Wire PhononModel.Disp PhononModel.FD

/-! Line protocol of the C01 model (see harness/props/c01.py for the requests). -/

def pairIdx {a b : Nat} (i : Fin a) (j : Fin b) : Fin (a * b) :=
  ⟨i.1 * b + j.1, by
    have := i.2; have := j.2
    calc i.1 * b + j.1 < i.1 * b + b := by omega
      _ = (i.1 + 1) * b := by rw [Nat.add_mul, Nat.one_mul]
      _ ≤ a * b := Nat.mul_le_mul_right _ (by omega)⟩

/-- flat `[a][b]` table of `Fin`-valued entries ↦ function (no default value: the size is checked) -/
def fn2 {β : Type} (a b : Nat) (arr : Array β) (h : arr.size = a * b) : Fin a → Fin b → β :=
  fun i j => arr[(pairIdx i j).1]'(by rw [h]; exact (pairIdx i j).2)

def fn1 {β : Type} (a : Nat) (arr : Array β) (h : arr.size = a) : Fin a → β :=
  fun i => arr[i.1]'(by rw [h]; exact i.2)

/-- flat rational arrays (sizes are checked by the reader) -/
def mats (v : Array Rat) {m : Nat} : Fin m → Mat3 Rat := fun s a b => v.getD (s.1 * 9 + a.1 * 3 + b.1) 0
def vecs (v : Array Rat) {m : Nat} : Fin m → Vec3 Rat := fun k a => v.getD (k.1 * 3 + a.1) 0
def vecs2 (v : Array Rat) {nd : Nat} (n : Nat) : Fin nd → Fin n → Vec3 Rat :=
  fun k j a => v.getD (k.1 * n * 3 + j.1 * 3 + a.1) 0

def readV3s (c : Cur) (k : Nat) : Option (List V3 × Cur) := do
  let (v, c) ← c.ints? (3 * k)
  pure ((List.range k).map (fun i => ⟨v.getD (3 * i) 0, v.getD (3 * i + 1) 0, v.getD (3 * i + 2) 0⟩), c)

def readM3s (c : Cur) (k : Nat) : Option (List M3 × Cur) := do
  let (v, c) ← c.ints? (9 * k)
  let g (i : Nat) : Int := v.getD i 0
  pure ((List.range k).map (fun i => ⟨⟨g (9*i), g (9*i+1), g (9*i+2)⟩, ⟨g (9*i+3), g (9*i+4), g (9*i+5)⟩,
    ⟨g (9*i+6), g (9*i+7), g (9*i+8)⟩⟩), c)

def showV3 (v : V3) : String := s!"{v.x},{v.y},{v.z}"
def showV3s (l : List V3) : String := if l.isEmpty then "-" else ";".intercalate (l.map showV3)

def flat3 {n : Nat} (A : Tab3 n 3 3 Rat) : Array Rat := Id.run do
  let mut out := Array.mkEmpty (n * 9)
  for i in List.finRange n do
    for a in List.finRange 3 do
      for b in List.finRange 3 do
        out := out.push (A.read i a b)
  pure out

def flat4 {M n : Nat} (A : Tab4 M n 3 3 Rat) : Array Rat := Id.run do
  let mut out := Array.mkEmpty (M * n * 9)
  for r in List.finRange M do
    for i in List.finRange n do
      for a in List.finRange 3 do
        for b in List.finRange 3 do
          out := out.push (A.read r i a b)
  pure out

/-- one record of the data set: `atom nd m R[9m] rho[m·n] u[3nd] F[nd·n·3] ops[m]` -/
def readAtomData (n nrot : Nat) (c : Cur) : Option ((D : AtomData n Rat) × (Fin D.m → Fin nrot) × Cur) := do
  let (atom, c) ← c.nat?
  let atom ← finOf? n atom
  let (nd, c) ← c.nat?
  let (m, c) ← c.nat?
  let (R, c) ← c.rats? (9 * m)
  let (rho, c) ← c.nats? (m * n)
  let rho ← allFin? n rho
  let (u, c) ← c.rats? (3 * nd)
  let (F, c) ← c.rats? (nd * n * 3)
  let (ops, c) ← c.nats? m
  let ops ← allFin? nrot ops
  if h : rho.size = m * n ∧ ops.size = m then
    let D : AtomData n Rat := { atom := atom, nd := nd, m := m, R := mats R, rho := fn2 m n rho h.1, u := vecs u, F := vecs2 F n }
    pure ⟨D, fn1 m ops h.2, c⟩
  else none

def readData (n nrot : Nat) : Nat → Cur → Option (List ((D : AtomData n Rat) × (Fin D.m → Fin nrot)) × Cur)
  | 0, c => some ([], c)
  | k + 1, c => do
    let ⟨D, ops, c⟩ ← readAtomData n nrot c
    let (rest, c) ← readData n nrot k c
    pure (⟨D, ops⟩ :: rest, c)

def readPerms (n : Nat) (c : Cur) : Option ((nrot : Nat) × (Fin nrot → Fin n → Fin n) × (Fin nrot → Mat3 Rat) × Cur) := do
  let (nrot, c) ← c.nat?
  let (p, c) ← c.nats? (nrot * n)
  let p ← allFin? n p
  let (R, c) ← c.rats? (9 * nrot)
  if h : p.size = nrot * n then pure ⟨nrot, fn2 nrot n p h, mats R, c⟩ else none

def showMs {n nrot : Nat} (perms : Fin nrot → Fin n → Fin n) (done : List (Fin n)) : String :=
  match symMappings perms done with
  | some ms => if n = 0 then "-" else ",".intercalate ((List.finRange n).map fun a => toString (ms a).1)
  | none => "none"

def showM3 (r : M3) : String :=
  s!"{r.r0.x},{r.r0.y},{r.r0.z},{r.r1.x},{r.r1.y},{r.r1.z},{r.r2.x},{r.r2.y},{r.r2.z}"

def optsOf (pm : Nat) (isDiag isTrig : Nat) : Option Options := do
  let p ← match pm with | 0 => some PlusMinus.auto | 1 => some PlusMinus.on | 2 => some PlusMinus.off | _ => none
  if isDiag > 1 || isTrig > 1 then none
  pure { plusminus := p, isDiagonal := isDiag == 1, isTrigonal := isTrig == 1 }

def handle (line : String) : String :=
  let c : Cur := { toks := (tokens line).toArray }
  let r : Option String := do
    let (op, c) ← c.str?
    match op with
    | "disp" =>
      let (isDiag, c) ← c.nat?
      let (isTrig, c) ← c.nat?
      let (pm, c) ← c.nat?
      let o ← optsOf pm isDiag isTrig
      let (nS, c) ← c.nat?
      let (S, c) ← readM3s c nS
      if !c.atEnd then none
      let dirs := if o.isDiagonal then directionsDiag else directionsAxis
      let one := match displacementOne S dirs with
        | some (i, d) => s!"{i}:{showV3 d}"
        | none => "none"
      let two := match displacementTwo S dirs with
        | some (i, _, d, d2) => s!"{i}:{showV3 d}:{showV3 d2}"
        | none => "none"
      let D := match getDisplacement S dirs o.isTrigonal with
        | some D => showV3s D
        | none => "error"
      let L := match leastDisplacements S o with
        | some L => showV3s L
        | none => "error"
      pure s!"one={one} two={two} D={D} L={L}"
    | "dispg" =>
      let (isTrig, c) ← c.nat?
      if isTrig > 1 then none
      let (nD, c) ← c.nat?
      let (dirs, c) ← readV3s c nD
      let (nS, c) ← c.nat?
      let (S, c) ← readM3s c nS
      if !c.atEnd then none
      let minus := "".intercalate (dirs.map fun d => if needsMinus d S then "1" else "0")
      match getDisplacement S dirs (isTrig == 1) with
      | some D => pure s!"D={showV3s D} minus={minus}"
      | none => pure s!"D=error minus={minus}"
    | "tables" =>
      if !c.atEnd then none
      pure s!"axis={showV3s directionsAxis} diag={showV3s directionsDiag}"
    | "symm" =>
      let (n, c) ← c.nat?
      let (nrot, c) ← c.nat?
      let (p, c) ← c.nats? (nrot * n)
      let p ← allFin? n p
      let (rv, c) ← readM3s c nrot
      let (m, c) ← c.nats? n
      let m ← allFin? n m
      let (pm, c) ← c.nat?
      let (isDiag, c) ← c.nat?
      let (isTrig, c) ← c.nat?
      let o ← optsOf pm isDiag isTrig
      if !c.atEnd then none
      let rva := rv.toArray
      if h : p.size = nrot * n ∧ m.size = n ∧ rva.size = nrot then
        let perms := fn2 nrot n p h.1
        let mapAtoms := fn1 n m h.2.1
        let rots := fn1 nrot rva h.2.2
        let indep := ",".intercalate ((independentAtoms mapAtoms).map fun a => toString a.1)
        let cert := equivCert perms mapAtoms && identityCert rots perms
        let mapops := ",".intercalate ((List.finRange n).map fun i =>
          match mapOperation perms mapAtoms i with | some g => toString g.1 | none => "none")
        let site := "|".intercalate ((List.finRange n).map fun a => ";".intercalate ((siteSymmetry rots perms a).map showM3))
        let dirs := match generateDirections rots perms mapAtoms o with
          | some L => if L.isEmpty then "-" else ";".intercalate (L.map fun (p : Fin n × V3) => s!"{p.1.1}:{showV3 p.2}")
          | none => "error"
        pure s!"indep={indep} cert={cert} mapops={mapops} site={site} dirs={dirs}"
      else none
    | "dataset" =>
      let (lat, c) ← c.rats? 9
      let (dist, c) ← c.rat?
      let (nd, c) ← c.nat?
      let rec rd (k : Nat) (c : Cur) (acc : Array Rat) : Option (Array Rat × Cur) :=
        match k with
        | 0 => some (acc, c)
        | k + 1 => do
          let (v, c) ← c.ints? 3
          let (nrm, c) ← c.rat?
          let d : V3 := ⟨v.getD 0 0, v.getD 1 0, v.getD 2 0⟩
          let lattice : Mat3 Rat := fun a b => lat.getD (a.1 * 3 + b.1) 0
          if nrm = 0 then none
          let u := datasetVector lattice dist nrm d
          rd k c (((acc.push (u 0)).push (u 1)).push (u 2))
      let (out, c) ← rd nd c #[]
      if !c.atEnd then none
      pure (if out.isEmpty then "-" else showRats out)
    | "solve" =>
      let (n, c) ← c.nat?
      let ⟨D, _, c⟩ ← readAtomData n 1 c
      if !c.atEnd then none
      match solveRowsT D.R D.rho D.u D.F with
      | some rows => pure (showRats (flat3 rows))
      | none => pure "underdetermined"
    | "run" =>
      let (mode, c) ← c.str?
      let (n, c) ← c.nat?
      let (M, c) ← c.nat?
      let (al, c) ← c.nats? M
      let al ← allFin? n al
      let ⟨nrot, perms, R, c⟩ ← readPerms n c
      if hal : al.size = M then
        let atomList := fn1 M al hal
        match mode with
        | "direct" =>
          let (nd, c) ← c.nat?
          let (data, c) ← readData n nrot nd c
          if !c.atEnd then none
          let cert := doneCert perms (data.map (·.1.atom)) && data.all fun ⟨D, ops⟩ => siteCert R perms D ops
          let ms := showMs perms (data.map (·.1.atom))
          match runDirectT atomList R perms (data.map (·.1)) with
          | some fc => pure s!"cert={cert} ms={ms} fc {showRats (flat4 fc)}"
          | none => pure s!"cert={cert} ms={ms} none"
        | "directlit" =>
          let (nd, c) ← c.nat?
          let (data, c) ← readData n nrot nd c
          if !c.atEnd then none
          match runDirectLitT atomList R perms (data.map (·.1)) with
          | some fc => pure s!"fc {showRats (flat4 fc)}"
          | none => pure "none"
        | "twostage" =>
          let ⟨_, permsT, RT, c⟩ ← readPerms n c
          let (nd, c) ← c.nat?
          let (data, c) ← readData n nrot nd c
          if !c.atEnd then none
          let cert := doneCert perms (data.map (·.1.atom)) && doneCert permsT ((List.finRange M).map atomList) && data.all fun ⟨D, ops⟩ => siteCert R perms D ops
          let ms := showMs perms (data.map (·.1.atom)) ++ "|" ++ showMs permsT ((List.finRange M).map atomList)
          match runTwoStageT atomList R perms RT permsT (data.map (·.1)) with
          | some fc => pure s!"cert={cert} ms={ms} fc {showRats (flat4 fc)}"
          | none => pure s!"cert={cert} ms={ms} none"
        | _ => none
      else none
    | _ => none
  r.getD "bad-op"

def main : IO Unit := serve handle
