import PhononModel.Model.UnitAlgebra
import PhononModel.Model.CrystalEquiv
import PhononModel.Gen.Units
import PhononModel.Model.UnitSpec
import PhononModel.Model.Wire
open PhononModel PhononModel.Wire PhononModel.Units PhononModel.Crystal
open PhononModel.Gen.Units PhononModel.UnitSpec

/-! Line protocol of the C17 driver.

* `syms`                      → `id:name:n:e10 …` (symbol table of the generated file; `-` for π's value)
* `norm <name>`               → normal form of a `units.py` definition: `k^q k^q …` | `1` | `none`
* `calc <name>`               → `factorOK nacOK convOK ; factor ; nac ; nacSpec ; distToA ; forceToEVperA ; dispDistance`
* `table`                     → `tableOK ; row ; row …` (normal forms of `factor_to_eVperA2`)
* `equiv|same <cell> <cell>`  → `true|false`   (cell = 9 lattice rationals, n, n × (species nm m… x y z))
* `equivg <9 Gram rationals> <cell₁> <atoms₂>` → `true|false`
* `sgroup n s₁ … sₙ`          → `perm… ; counts…`
-/

def showNorm (e : UExpr) : String :=
  match norm e with
  | some m => Mono.show m
  | none => "none"

def showOpt (e : Option UExpr) : String :=
  match e with
  | some x => showNorm x
  | none => "None"

def readMat (c : Cur) : Option (Mat3 × Cur) := do
  let (v, c) ← c.rats? 9
  if h : v.size = 9 then
    pure ((fun i j => v[i.1 * 3 + j.1]'(by have := i.2; have := j.2; omega)), c)
  else none

def readAtoms (c : Cur) : Option (List Atom × Cur) := do
  let (n, c) ← c.nat?
  let mut c := c
  let mut out : Array Atom := #[]
  for _ in [0:n] do
    let (sp, c1) ← c.nat?
    let (nm, c2) ← c1.nat?
    let (ms, c3) ← c2.rats? nm
    let (x, c4) ← c3.rat?
    let (y, c5) ← c4.rat?
    let (z, c6) ← c5.rat?
    out := out.push { species := sp, moment := ms.toList, pos := (x, y, z) }
    c := c6
  pure (out.toList, c)

def readCell (c : Cur) : Option (Cell × Cur) := do
  let (L, c) ← readMat c
  let (a, c) ← readAtoms c
  pure ({ lattice := L, atoms := a }, c)

def handle (line : String) : String :=
  let c : Cur := { toks := (tokens line).toArray }
  let r : Option String := do
    let (op, c) ← c.str?
    match op with
    | "syms" =>
      if !c.atEnd then none
      pure (" ".intercalate (symTable.map fun (k, nm, v) =>
        match v with
        | some (n, e) => s!"{k}:{nm}:{n}:{e}"
        | none => s!"{k}:{nm}:-:-"))
    | "norm" =>
      let (name, c) ← c.str?
      if !c.atEnd then none
      let e ← allDefs.lookup name
      pure (showNorm e)
    | "calc" =>
      let (name, c) ← c.str?
      if !c.atEnd then none
      let cc ← Calc.all.find? (fun x => x.name == name)
      let u := units cc
      let spec := match u.fcUnit, u.lenUnit with
        | some fc, some len => showNorm (nacSpec K fc len)
        | _, _ => "None"
      pure (s!"{factorOK K u} {nacOK K u} {convOK K fcConversionTable u} ; {showOpt u.factor} ; {showOpt u.nac} ; "
        ++ s!"{spec} ; {showOpt u.distToA} ; {showOpt u.forceToEVperA} ; {showNorm (dispDistance cc)}")
    | "default" =>
      if !c.atEnd then none
      let u := unitsDefault
      pure s!"{factorOK K u} {nacOK K u} {convOK K fcConversionTable u} ; {showOpt u.factor} ; {showOpt u.nac}"
    | "calcs" =>
      if !c.atEnd then none
      pure (" ".intercalate (Calc.all.map Calc.name))
    | "table" =>
      if !c.atEnd then none
      pure (s!"{tableOK K fcConversionTable} ; " ++ " ; ".intercalate (fcConversionTable.map fun p => showNorm p.2))
    | "equiv" | "same" =>
      let (c₁, c) ← readCell c
      let (c₂, c) ← readCell c
      if !c.atEnd then none
      pure (toString (if op == "same" then checkSame c₁ c₂ else checkEquiv c₁ c₂))
    | "equivg" =>
      let (G, c) ← readMat c
      let (c₁, c) ← readCell c
      let (a₂, c) ← readAtoms c
      if !c.atEnd then none
      pure (toString (checkEquivWith G c₁ a₂))
    | "sgroup" =>
      let (n, c) ← c.nat?
      let (s, c) ← c.nats? n
      if !c.atEnd then none
      pure (showNats (stablePerm s.toList).toArray ++ " ; " ++ showNats (countsList s.toList).toArray)
    | _ => none
  r.getD "bad-op"

def main : IO Unit := serve handle
