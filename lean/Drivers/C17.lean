import PhononModel.Model.UnitAlgebra
import PhononModel.Model.CrystalEquiv
import PhononModel.Model.ForcePairing
import PhononModel.Gen.WriterFormats
import PhononModel.Gen.Units
import PhononModel.Model.UnitSpec
import PhononModel.Model.Wire
open PhononModel PhononModel.Wire PhononModel.Units PhononModel.Crystal
open PhononModel.Gen.Units PhononModel.UnitSpec

/-! Line protocol of the C17 driver.

* `syms`                      → `id:name:n:e10 …` (symbol table of the generated file; `-` for π's value)
* `norm <name>`               → normal form of a `units.py` definition: `k^q k^q …` | `1` | `none`
* `calc <name>`               → `factorOK nacOK convOK ; factor ; nac ; nacSpec ; distToA ; forceToEVperA ; dispDistance`
* `table`                     → `tableOK ; row ; row …` (normal forms of `factor_to_eVperA2`)
* `equiv|same <cell> <cell>`  → `true|false`   (cell = 9 lattice rationals, n, n × (species nm m… x y z))
* `equivg <9 Gram rationals> <cell₁> <atoms₂>` → `true|false`
* `sgroup n s₁ … sₙ`          → `perm… ; counts…`
* `formats`                   → `name latW latD latSep latKind latticeKind posW posD posSep posKind cart wraps reader ; …`
* `render d x`                → the characters of `"%.{d}f" % x`
* `line w d sep n x₁ … xₙ`    → the tokens a free-format reader sees, separated by `|`
* `fpair u natom <9 L> tol2 <n scpos rows> nd (n disp rows)ᵈ nf (nrows (force row, printed row)ʳ)ᶠ` → `ok|count|natom i|position i`
-/

def showNorm (e : UExpr) : String :=
  match norm e with
  | some m => Mono.show m
  | none => "none"

def showOpt (e : Option UExpr) : String :=
  match e with
  | some x => showNorm x
  | none => "None"

def readMat (c : Cur) : Option (Mat3 × Cur) := do
  let (v, c) ← c.rats? 9
  if h : v.size = 9 then
    pure ((fun i j => v[i.1 * 3 + j.1]'(by have := i.2; have := j.2; omega)), c)
  else none

def readAtoms (c : Cur) : Option (List Atom × Cur) := do
  let (n, c) ← c.nat?
  let mut c := c
  let mut out : Array Atom := #[]
  for _ in [0:n] do
    let (sp, c1) ← c.nat?
    let (nm, c2) ← c1.nat?
    let (ms, c3) ← c2.rats? nm
    let (x, c4) ← c3.rat?
    let (y, c5) ← c4.rat?
    let (z, c6) ← c5.rat?
    out := out.push { species := sp, moment := ms.toList, pos := (x, y, z) }
    c := c6
  pure (out.toList, c)

def readCell (c : Cur) : Option (Cell × Cur) := do
  let (L, c) ← readMat c
  let (a, c) ← readAtoms c
  pure ({ lattice := L, atoms := a }, c)

def readV3s (c : Cur) (n : Nat) : Option (List ForcePairing.V3 × Cur) := do
  let (v, c) ← c.rats? (3 * n)
  pure ((List.range n).map (fun i => (v.getD (3 * i) 0, v.getD (3 * i + 1) 0, v.getD (3 * i + 2) 0)), c)

def readOutputs (c : Cur) (nf : Nat) : Option (List ForcePairing.Output × Cur) := do
  let mut c := c
  let mut out : Array ForcePairing.Output := #[]
  for _ in [0:nf] do
    let (nr, c1) ← c.nat?
    let (v, c2) ← c1.rats? (6 * nr)
    let fs := (List.range nr).map (fun i => (v.getD (6 * i) 0, v.getD (6 * i + 1) 0, v.getD (6 * i + 2) 0))
    let ps := (List.range nr).map (fun i => (v.getD (6 * i + 3) 0, v.getD (6 * i + 4) 0, v.getD (6 * i + 5) 0))
    out := out.push { forces := fs, printed := ps }
    c := c2
  pure (out.toList, c)

def handle (line : String) : String :=
  let c : Cur := { toks := (tokens line).toArray }
  let r : Option String := do
    let (op, c) ← c.str?
    match op with
    | "syms" =>
      if !c.atEnd then none
      pure (" ".intercalate (symTable.map fun (k, nm, v) =>
        match v with
        | some (n, e) => s!"{k}:{nm}:{n}:{e}"
        | none => s!"{k}:{nm}:-:-"))
    | "norm" =>
      let (name, c) ← c.str?
      if !c.atEnd then none
      let e ← allDefs.lookup name
      pure (showNorm e)
    | "calc" =>
      let (name, c) ← c.str?
      if !c.atEnd then none
      let cc ← Calc.all.find? (fun x => x.name == name)
      let u := units cc
      let spec := match u.fcUnit, u.lenUnit with
        | some fc, some len => showNorm (nacSpec K fc len)
        | _, _ => "None"
      pure (s!"{factorOK K u} {nacOK K u} {convOK K fcConversionTable u} ; {showOpt u.factor} ; {showOpt u.nac} ; "
        ++ s!"{spec} ; {showOpt u.distToA} ; {showOpt u.forceToEVperA} ; {showNorm (dispDistance cc)}")
    | "default" =>
      if !c.atEnd then none
      let u := unitsDefault
      pure s!"{factorOK K u} {nacOK K u} {convOK K fcConversionTable u} ; {showOpt u.factor} ; {showOpt u.nac}"
    | "calcs" =>
      if !c.atEnd then none
      pure (" ".intercalate (Calc.all.map Calc.name))
    | "table" =>
      if !c.atEnd then none
      pure (s!"{tableOK K fcConversionTable} ; " ++ " ; ".intercalate (fcConversionTable.map fun p => showNorm p.2))
    | "equiv" | "same" =>
      let (c₁, c) ← readCell c
      let (c₂, c) ← readCell c
      if !c.atEnd then none
      pure (toString (if op == "same" then checkSame c₁ c₂ else checkEquiv c₁ c₂))
    | "equivg" =>
      let (G, c) ← readMat c
      let (c₁, c) ← readCell c
      let (a₂, c) ← readAtoms c
      if !c.atEnd then none
      pure (toString (checkEquivWith G c₁ a₂))
    | "fpair" =>
      let (u, c) ← c.nat?
      let (natom, c) ← c.nat?
      let (L, c) ← readMat c
      let (tol2, c) ← c.rat?
      let (np, c) ← c.nat?
      let (scpos, c) ← readV3s c np
      let (nd, c) ← c.nat?
      let mut c := c
      let mut disps : Array (List ForcePairing.V3) := #[]
      for _ in [0:nd] do
        let (d, c') ← readV3s c np
        disps := disps.push d
        c := c'
      let (nf, c') ← c.nat?
      let (outs, c'') ← readOutputs c' nf
      if !c''.atEnd then none
      pure (match ForcePairing.collect (u != 0) natom L tol2 scpos disps.toList outs with
        | .ok _ => "ok"
        | .error .countMismatch => "count"
        | .error (.natomMismatch i) => s!"natom {i}"
        | .error (.positionMismatch i) => s!"position {i}")
    | "formats" =>
      if !c.atEnd then none
      let b (x : Bool) : String := if x then "1" else "0"
      let k (x : WriterFormat.FmtKind) : String := match x with | .fixed => "fixed" | .repr => "repr"
      pure (" ; ".intercalate (Gen.WriterFormats.writerFormats.map fun w =>
        s!"{w.name} {w.lattice.width} {w.lattice.decimals} {b w.lattice.sep} {k w.lattice.kind} " ++
        (match w.latticeKind with | .vectors => "vectors" | .cellpar => "cellpar" | .triangular => "triangular") ++
        s!" {w.position.width} {w.position.decimals} {b w.position.sep} {k w.position.kind} {b w.cartesian} {b w.wraps} " ++
        (match w.reader with | .free => "free" | .columns => "columns")))
    | "render" =>
      let (d, c) ← c.nat?
      let (x, c) ← c.rat?
      if !c.atEnd then none
      pure (String.ofList (WriterFormat.render d x))
    | "line" =>
      let (w, c) ← c.nat?
      let (d, c) ← c.nat?
      let (sp, c) ← c.nat?
      let (n, c) ← c.nat?
      let (xs, c) ← c.rats? n
      if !c.atEnd then none
      let f : WriterFormat.FieldFmt := { width := w, decimals := d, sep := sp != 0, kind := .fixed }
      pure ("|".intercalate ((WriterFormat.tokens (WriterFormat.line f xs.toList)).map String.ofList))
    | "sgroup" =>
      let (n, c) ← c.nat?
      let (s, c) ← c.nats? n
      if !c.atEnd then none
      pure (showNats (stablePerm s.toList).toArray ++ " ; " ++ showNats (countsList s.toList).toArray)
    | _ => none
  r.getD "bad-op"

def main : IO Unit := serve handle
