import PhononModel.Model.Thermal
import PhononModel.Model.Wire
open PhononModel PhononModel.Wire PhononModel.Thermal

/-!
Driver for C10 (binary64).  Floats travel as their IEEE bit patterns (decimal `UInt64`), so the model
sees the very numbers the implementation saw and answers with the very numbers it computed.

requests
  consts
  mode  cl T f                         → C: F S Cv | Py: F S Cv ZPE | fixed forms: S' Cv'
  mesh  cl pretend hascut cut nq nb ns bi[ns] w[nq] fr[nq·nb] nt T[nt]
        → zpe(thr=0) zpe(thr=cut) num_modes num_integrated_modes then per T: pyF pyS pyS' pyCv pyCv' cF(zpe thr 0) cF(zpe thr cut) cS cCv   (kJ/mol, kJ/K/mol)
  proj  cl pretend hascut cut nq nr nb ns bi[ns] w[nq] fr[nq·nb] e2[nq·nr·ns] nt T[nt]      (e2 = |eigvecs[:, :, bi]|²)
        → per T, per component j < nr: F S S' Cv Cv'
  keeptemps nt T[nt]
  temprange hasmin tmin hasmax tmax hasstep tstep   → "n" followed by the temperature grid
  cloop cl cut nt nq nb T[nt] freqs[nq·nb] weights[nq]     (the generated loop nest of phpy_get_thermal_properties,
        → 3·nt values of thermal_props (eV units)           started from zeros, uninitialised objects = NaN)
-/

def fl? (c : Cur) : Option (Float × Cur) := do
  let (n, c) ← c.nat?
  if n < 2 ^ 64 then pure (Float.ofBits (UInt64.ofNat n), c) else none

def fls? (c : Cur) (n : Nat) : Option (Array Float × Cur) := do
  let mut c := c
  let mut out := Array.mkEmpty n
  for _ in [0:n] do
    let (v, c') ← fl? c
    out := out.push v
    c := c'
  pure (out, c)

def showF (x : Float) : String := toString x.toBits.toNat
def showFs (a : Array Float) : String := " ".intercalate (a.toList.map showF)

def bool? (c : Cur) : Option (Bool × Cur) := do
  let (n, c) ← c.nat?
  if n = 0 then pure (false, c) else if n = 1 then pure (true, c) else none

def E : ThermalEnv Float := floatEnv ThermalC.KB_f
def EPy : ThermalEnv Float := floatEnv ThermalC.Kb_f

def handle (line : String) : String :=
  let c : Cur := { toks := (tokens line).toArray }
  let r : Option String := do
    let (op, c) ← c.str?
    match op with
    | "consts" =>
      if !c.atEnd then none
      pure (showFs #[ThermalC.KB_f, ThermalC.Kb_f, ThermalC.THzToEv_f, ThermalC.EvTokJmol_f,
        ThermalC.EVAngstromToGPa_f, ThermalC.kb_J_f, ThermalC.EV_f, ThermalC.Avogadro_f, ThermalC.PlanckConstant_f])
    | "mode" =>
      let (cl, c) ← bool? c
      let (t, c) ← fl? c
      let (f, c) ← fl? c
      if !c.atEnd then none
      let ci := clInt cl
      pure (showFs #[ThermalC.get_free_energy E t f ci, ThermalC.get_entropy E t f ci,
        ThermalC.get_heat_capacity E t f ci,
        modeF EPy t f cl, modeS EPy t f cl, modeCv EPy t f cl, modeZPE EPy t f cl,
        modeS' EPy t f cl, modeCv' EPy t f cl])
    | "mesh" =>
      let (cl, c) ← bool? c
      let (pretend, c) ← bool? c
      let (hascut, c) ← bool? c
      let (cutTHz, c) ← fl? c
      let (nq, c) ← c.nat?
      let (nb, c) ← c.nat?
      let (ns, c) ← c.nat?
      let (bi, c) ← c.nats? ns
      let bi ← allFin? nb bi
      let (w, c) ← fls? c nq
      let (fr, c) ← fls? c (nq * nb)
      let (nt, c) ← c.nat?
      let (ts, c) ← fls? c nt
      if !c.atEnd then none
      if h : bi.size = ns then
        let bsel : Fin ns → Fin nb := fun j => bi[j.1]'(by omega)
        let wf : Fin nq → Float := fun q => w.getD q.1 0
        let frf : Fin nq → Fin nb → Float := fun q j => fr.getD (q.1 * nb + j.1) 0
        let thz := ThermalC.THzToEv_f
        let conv := ThermalC.EvTokJmol_f
        let frs : Array Float := Id.run do
          let mut out := Array.mkEmpty (nq * ns)
          for q in List.finRange nq do
            for j in List.finRange ns do
              out := out.push (prepFreqs thz pretend bsel frf q j)
          pure out
        let fe : Fin nq → Fin ns → Float := fun q j => frs.getD (q.1 * ns + j.1) 0
        let cut := cutoffEv thz (if hascut then some cutTHz else none)
        let z0 := zpe conv cl wf fe 0
        let zc := zpe conv cl wf fe cut
        let mut out : Array Float := #[z0, zc, numModes ns wf, numIntegrated wf fe cut]
        for t in ts do
          out := out ++ #[pyF EPy conv cl wf fe cut t,
            pyS modeS EPy conv cl wf fe cut t * 1000, pyS modeS' EPy conv cl wf fe cut t * 1000,
            pyCv modeCv EPy conv cl wf fe cut t * 1000, pyCv modeCv' EPy conv cl wf fe cut t * 1000,
            cF E conv cl wf fe cut 0 t, cF E conv cl wf fe cut cut t,
            cS E conv cl wf fe cut t * 1000, cCv E conv cl wf fe cut t * 1000]
        pure (showFs out)
      else none
    | "proj" =>
      let (cl, c) ← bool? c
      let (pretend, c) ← bool? c
      let (hascut, c) ← bool? c
      let (cutTHz, c) ← fl? c
      let (nq, c) ← c.nat?
      let (nr, c) ← c.nat?
      let (nb, c) ← c.nat?
      let (ns, c) ← c.nat?
      let (bi, c) ← c.nats? ns
      let bi ← allFin? nb bi
      let (w, c) ← fls? c nq
      let (fr, c) ← fls? c (nq * nb)
      let (e2, c) ← fls? c (nq * nr * ns)
      let (nt, c) ← c.nat?
      let (ts, c) ← fls? c nt
      if !c.atEnd then none
      if h : bi.size = ns then
        let bsel : Fin ns → Fin nb := fun j => bi[j.1]'(by omega)
        let wf : Fin nq → Float := fun q => w.getD q.1 0
        let thz := ThermalC.THzToEv_f
        let conv := ThermalC.EvTokJmol_f
        let frf : Fin nq → Fin nb → Float := fun q j => fr.getD (q.1 * nb + j.1) 0
        let frs : Array Float := Id.run do
          let mut out := Array.mkEmpty (nq * ns)
          for q in List.finRange nq do
            for j in List.finRange ns do
              out := out.push (prepFreqs thz pretend bsel frf q j)
          pure out
        let fe : Fin nq → Fin ns → Float := fun q j => frs.getD (q.1 * ns + j.1) 0
        let e2f : Fin nq → Fin nr → Fin ns → Float := fun q j ν => e2.getD ((q.1 * nr + j.1) * ns + ν.1) 0
        let cut := cutoffEv thz (if hascut then some cutTHz else none)
        let mut out : Array Float := #[]
        for t in ts do
          for j in List.finRange nr do
            out := out ++ #[
              pyProj (fun f => modeF EPy t f cl) (fun f => modeZPE EPy t f cl) conv wf fe e2f cut t j,
              pyProj (fun f => modeS EPy t f cl) (fun f => modeZero EPy t f cl) conv wf fe e2f cut t j * 1000,
              pyProj (fun f => modeS' EPy t f cl) (fun f => modeZero EPy t f cl) conv wf fe e2f cut t j * 1000,
              pyProj (fun f => modeCv EPy t f cl) (fun f => modeZero EPy t f cl) conv wf fe e2f cut t j * 1000,
              pyProj (fun f => modeCv' EPy t f cl) (fun f => modeZero EPy t f cl) conv wf fe e2f cut t j * 1000]
        pure (showFs out)
      else none
    | "cloop" =>
      let (cl, c) ← bool? c
      let (cut, c) ← fl? c
      let (nt, c) ← c.nat?
      let (nq, c) ← c.nat?
      let (nb, c) ← c.nat?
      let (ts, c) ← fls? c nt
      let (fr, c) ← fls? c (nq * nb)
      let (w, c) ← fls? c nq
      if !c.atEnd then none
      let nan : Float := 0.0 / 0.0
      let res := ThermalC.phpy_get_thermal_properties E (fun _ => 0.0) (fun k => ts.getD k nan)
        (fun k => fr.getD k nan) (fun k => w.getD k nan) nt nq nb cut (clInt cl) (fun _ => nan)
      pure (showFs (Array.ofFn (n := nt * 3) fun i => res i.1))
    | "temprange" =>
      let (h0, c) ← bool? c
      let (t0, c) ← fl? c
      let (h1, c) ← bool? c
      let (t1, c) ← fl? c
      let (h2, c) ← bool? c
      let (dt, c) ← fl? c
      if !c.atEnd then none
      let l := tempRange floatGrid (if h0 then some t0 else none) (if h1 then some t1 else none) (if h2 then some dt else none)
      if l.length > 100000 then none
      pure ("n " ++ showFs l.toArray)
    | "keeptemps" =>
      let (nt, c) ← c.nat?
      let (ts, c) ← fls? c nt
      if !c.atEnd then none
      pure (showFs (keepTemps ts.toList).toArray)
    | _ => none
  r.getD "bad-op"

def main : IO Unit := serve handle
