import PhononModel.Model.Dataset
import PhononModel.Model.LoadPriority
import PhononModel.Model.Precision
import PhononModel.Model.YamlAst
import PhononModel.Model.Wire
open PhononModel PhononModel.Wire PhononModel.DS PhononModel.LP PhononModel.Prec PhononModel.YA

/-!
Driver for C16.  Requests (numbers exact: integers or `n/d`):

* `t2 <n> <m> { <number> <d0> <d1> <d2> <hasF 0|1> [<n*3 forces>] }*m`
    ↦ `<m*n*3 displacements> | <hasForces 0|1> [<m*n*3 forces>]`      (`toType2`)
* `fid1 <n> <m> …same entries…`  ↦ `true|false`                        (`forcesInDataset`, type 1)
* `fid2 <hasForces 0|1>` ↦ `true|false` ; `fid0` ↦ `false`
* `t1 <n> <m> <m*n*3 displacements> <hasF 0|1> [<m*n*3 forces>]`
    ↦ `none` | entries in the encoding of `t2`                         (`toType1`)
* `yaml1 <n> <m> {entry hasE [e]}*m` ↦ yaml items `|` reader(writer(d)) ; `yaml2 …` ; `ypoint …`   (`toYaml…`, `ofYaml…`)
* `load <20 fields>` ↦ `calculator factor nac nacFactor dataset datasetForces fc docFc`   (`load`, `docFcSource`)
* `recompute <20 fields> <isCompactFc symmetrizeFc fcCalculator yamlFcCompact argFcCompact fileFcCompact hdf5Compact datasetType2>`
    ↦ `layout converted produced symmetrized solver raises`                          (`recompute`)
* `save <5 settings> <5 obj fields>` ↦ `nac nacHasFactor dataset fc calculator`  (`save`)
* `reload <5 settings> <5 obj fields>` ↦ obj fields                   (`reload`)
* `print <k> <x>` ↦ the integer `printK k x` ; `len <k> <x>` ↦ `printedLen k x` ; `fits <W> <k> <x>`
-/

def readEntry (n : Nat) (c : Cur) : Option (Entry n Rat × Cur) := do
  let (num, c) ← c.nat?
  let num ← finOf? n num
  let (d, c) ← c.rats? 3
  let (hf, c) ← c.nat?
  if hf = 0 then
    pure ({ number := num, displacement := fun k => d.getD k.1 0, forces := none }, c)
  else if hf = 1 then
    let (f, c) ← c.rats? (n * 3)
    pure ({ number := num, displacement := fun k => d.getD k.1 0, forces := some fun i k => f.getD (i.1 * 3 + k.1) 0 }, c)
  else none

def readEntries (n m : Nat) (c : Cur) : Option (List (Entry n Rat) × Cur) := do
  let mut c := c
  let mut out : Array (Entry n Rat) := #[]
  for _ in [0:m] do
    let (e, c') ← readEntry n c
    out := out.push e
    c := c'
  pure (out.toList, c)

def flatField {n : Nat} (u : Field3 n Rat) : List Rat :=
  (List.finRange n).flatMap fun i => (List.finRange 3).map fun k => u i k

def showField {n : Nat} (us : List (Field3 n Rat)) : String :=
  " ".intercalate ((us.flatMap flatField).map showRat)

def showEntry {n : Nat} (e : Entry n Rat) : String :=
  toString e.number.1 ++ " " ++ " ".intercalate ((List.finRange 3).map fun k => showRat (e.displacement k)) ++
    (match e.forces with
      | none => " 0"
      | some f => " 1 " ++ " ".intercalate ((flatField f).map showRat))

def readFields (n m : Nat) (c : Cur) : Option (List (Field3 n Rat) × Cur) := do
  let (v, c) ← c.rats? (m * n * 3)
  let us : List (Field3 n Rat) := (List.range m).map fun s => fun i k => v.getD (s * n * 3 + i.1 * 3 + k.1) 0
  pure (us, c)

def readBool (c : Cur) : Option (Bool × Cur) := do
  let (v, c) ← c.nat?
  if v = 0 then pure (false, c) else if v = 1 then pure (true, c) else none

def readCalc (c : Cur) : Option (Option Calc × Cur) := do
  let (t, c) ← c.str?
  match t with
  | "-" => pure (none, c)
  | "vasp" => pure (some .vasp, c)
  | "qe" => pure (some .qe, c)
  | "other" => pure (some .other, c)
  | _ => none

def readDS (c : Cur) : Option (LP.DS × Cur) := do
  let (t, c) ← c.str?
  match t with
  | "absent" => pure (.absent, c)
  | "disp" => pure (.dispOnly, c)
  | "forces" => pure (.withForces, c)
  | _ => none

def showCalc : Option Calc → String
  | none => "-" | some .vasp => "vasp" | some .qe => "qe" | some .other => "other"
def showDS : LP.DS → String
  | .absent => "absent" | .dispOnly => "disp" | .withForces => "forces"
def showFc : FcSrc → String
  | .none => "none" | .yaml => "yaml" | .arg => "arg" | .fileText => "FORCE_CONSTANTS" | .fileHdf5 => "hdf5" | .produced => "produced"
def showNac : NacSrc → String
  | .none => "none" | .bornArg => "born-arg" | .arg => "arg" | .yaml => "yaml" | .bornFile => "BORN"
def showDsSrc : DsSrc → String
  | .none => "none" | .yaml => "yaml" | .arg => "arg" | .file => "FORCE_SETS"
def showB (b : Bool) : String := if b then "1" else "0"

def readPresent (c : Cur) : Option (Present × Cur) := do
  let (argNac, c) ← readBool c
  let (argNacHasFactor, c) ← readBool c
  let (argBornFile, c) ← readBool c
  let (argBornFileHasFactor, c) ← readBool c
  let (argForceSets, c) ← readBool c
  let (argFcFile, c) ← readBool c
  let (argCalculator, c) ← readCalc c
  let (argFactor, c) ← readBool c
  let (isNac, c) ← readBool c
  let (produceFc, c) ← readBool c
  let (yamlNac, c) ← readBool c
  let (yamlNacHasFactor, c) ← readBool c
  let (yamlDataset, c) ← readDS c
  let (yamlFc, c) ← readBool c
  let (yamlCalculator, c) ← readCalc c
  let (fileForceSets, c) ← readBool c
  let (fileForceConstants, c) ← readBool c
  let (fileHdf5, c) ← readBool c
  let (fileBorn, c) ← readBool c
  let (fileBornHasFactor, c) ← readBool c
  pure ({ argNac, argNacHasFactor, argBornFile, argBornFileHasFactor, argForceSets, argFcFile, argCalculator,
          argFactor, isNac, produceFc, yamlNac, yamlNacHasFactor, yamlDataset, yamlFc, yamlCalculator,
          fileForceSets, fileForceConstants, fileHdf5, fileBorn, fileBornHasFactor }, c)

def readSolver (c : Cur) : Option (Option Solver × Cur) := do
  let (t, c) ← c.str?
  match t with
  | "-" => pure (none, c)
  | "traditional" => pure (some .traditional, c)
  | "symfc" => pure (some .symfc, c)
  | "alm" => pure (some .alm, c)
  | _ => none

def readOpts (c : Cur) : Option (Opts × Cur) := do
  let (isCompactFc, c) ← readBool c
  let (symmetrizeFc, c) ← readBool c
  let (fcCalculator, c) ← readSolver c
  let (yamlFcCompact, c) ← readBool c
  let (argFcCompact, c) ← readBool c
  let (fileFcCompact, c) ← readBool c
  let (hdf5Compact, c) ← readBool c
  let (datasetType2, c) ← readBool c
  pure ({ isCompactFc, symmetrizeFc, fcCalculator, yamlFcCompact, argFcCompact, fileFcCompact, hdf5Compact, datasetType2 }, c)

def showOB : Option Bool → String
  | none => "-" | some true => "compact" | some false => "full"
def showSolver : Option Solver → String
  | none => "-" | some .traditional => "traditional" | some .symfc => "symfc" | some .alm => "alm"

def readSettings (c : Cur) : Option (Settings × Cur) := do
  let (forceSets, c) ← readBool c
  let (displacements, c) ← readBool c
  let (t, c) ← c.str?
  let forceConstants ← (match t with | "-" => some none | "0" => some (some false) | "1" => some (some true) | _ => none)
  let (born, c) ← readBool c
  let (dielectric, c) ← readBool c
  pure ({ forceSets, displacements, forceConstants, born, dielectric }, c)

def readObj (c : Cur) : Option (Obj × Cur) := do
  let (dataset, c) ← readDS c
  let (fc, c) ← readBool c
  let (nac, c) ← readBool c
  let (nacHasFactor, c) ← readBool c
  let (calculator, c) ← readCalc c
  pure ({ dataset, fc, nac, nacHasFactor, calculator }, c)

def showObj (o : Obj) : String :=
  showDS o.dataset ++ " " ++ showB o.fc ++ " " ++ showB o.nac ++ " " ++ showB o.nacHasFactor ++ " " ++ showCalc o.calculator

def showL (l : List Rat) : String := "[" ++ ",".intercalate (l.map showRat) ++ "]"
def showLL (l : List (List Rat)) : String := "[" ++ ",".intercalate (l.map showL) ++ "]"
def showO {β : Type} (f : β → String) : Option β → String
  | none => "-" | some v => f v

def readEntry1 (n : Nat) (c : Cur) : Option (Entry1 n Rat × Cur) := do
  let (e, c) ← readEntry n c
  let (he, c) ← readBool c
  if he then
    let (v, c) ← c.rat?
    pure (⟨e, some v⟩, c)
  else pure (⟨e, none⟩, c)

def readEntries1 (n m : Nat) (c : Cur) : Option (List (Entry1 n Rat) × Cur) := do
  let mut c := c
  let mut out : Array (Entry1 n Rat) := #[]
  for _ in [0:m] do
    let (e, c') ← readEntry1 n c
    out := out.push e
    c := c'
  pure (out.toList, c)

def showYEntry (y : YEntry Rat) : String :=
  "atom=" ++ toString y.atom ++ " displacement=" ++ showL y.displacement ++ " forces=" ++ showO showLL y.forces ++
    " supercell_energy=" ++ showO showRat y.supercell_energy

def showEntry1 {n : Nat} (x : Entry1 n Rat) : String :=
  showEntry x.e ++ (match x.energy with | none => " 0" | some v => " 1 " ++ showRat v)

def handle (line : String) : String :=
  let c : Cur := { toks := (tokens line).toArray }
  let r : Option String := do
    let (op, c) ← c.str?
    match op with
    | "t2" | "fid1" =>
      let (n, c) ← c.nat?
      let (m, c) ← c.nat?
      let (es, c) ← readEntries n m c
      if !c.atEnd then none
      let d : Type1 n Rat := ⟨es⟩
      if op == "fid1" then pure (toString (forcesInDataset (some (Dataset.t1 d))))
      else
        let t := toType2 d
        pure (showField t.displacements ++ " | " ++
          (match t.forces with | none => "0" | some fs => "1 " ++ showField fs))
    | "fid2" =>
      let (hf, c) ← readBool c
      if !c.atEnd then none
      let d : Type2 1 Rat := { displacements := [], forces := if hf then some [] else none }
      pure (toString (forcesInDataset (some (Dataset.t2 d))))
    | "fid0" =>
      if !c.atEnd then none
      pure (toString (forcesInDataset (none : Option (Dataset 1 Rat))))
    | "t1" =>
      let (n, c) ← c.nat?
      let (m, c) ← c.nat?
      let (us, c) ← readFields n m c
      let (hf, c) ← readBool c
      let (fs, c) ← (if hf then (readFields n m c).map fun p => (some p.1, p.2) else some (none, c))
      if !c.atEnd then none
      match toType1 ({ displacements := us, forces := fs } : Type2 n Rat) with
      | none => pure "none"
      | some d => pure (" ; ".intercalate (d.first_atoms.map showEntry))
    | "yaml1" =>
      -- n m { number d0 d1 d2 hasF [forces] hasE [energy] }*m  ↦  yaml items | reader(writer(d))
      let (n, c) ← c.nat?
      let (m, c) ← c.nat?
      let (es, c) ← readEntries1 n m c
      if !c.atEnd then none
      let y := toYaml1 es
      pure (" ; ".intercalate (y.map showYEntry) ++ " | " ++
        (match ofYaml1 n y with | none => "none" | some d => " ; ".intercalate (d.map showEntry1)))
    | "yaml2" =>
      -- n m <m*n*3 displacements> hasF [<m*n*3 forces>] hasE [<m energies>]
      let (n, c) ← c.nat?
      let (m, c) ← c.nat?
      let (us, c) ← readFields n m c
      let (hf, c) ← readBool c
      let (fs, c) ← (if hf then (readFields n m c).map fun p => (some p.1, p.2) else some (none, c))
      let (he, c) ← readBool c
      let (en, c) ← (if he then (c.rats? m).map fun p => (some p.1.toList, p.2) else some (none, c))
      if !c.atEnd then none
      let y := toYaml2 (⟨⟨us, fs⟩, en⟩ : Data2 n Rat)
      pure ("displacements=" ++ "[" ++ ",".intercalate (y.displacements.map showLL) ++ "]" ++ " forces=" ++
        showO (fun f => "[" ++ ",".intercalate (f.map showLL) ++ "]") y.forces ++ " supercell_energies=" ++ showO showL y.supercell_energies ++
        " | " ++ (match ofYaml2 n y with
          | none => "none"
          | some d => showField d.d.displacements ++ " / " ++ showO showField d.d.forces ++ " / " ++ showO showL d.energies))
    | "ypoint" =>
      -- symbol formal c0 c1 c2 hasMass [mass] moment(0 none | 1 m | 3 m0 m1 m2)
      let (sym, c) ← c.str?
      let (formal, c) ← c.str?
      let (co, c) ← c.rats? 3
      let (hm, c) ← readBool c
      let (mass, c) ← (if hm then c.rat?.map fun p => (some p.1, p.2) else some (none, c))
      let (mk, c) ← c.nat?
      let (mom, c) ← (match mk with
        | 0 => some ((none : Option (Moment Rat)), c)
        | 1 => c.rat?.map fun p => (some (Moment.collinear p.1), p.2)
        | 3 => (c.rats? 3).map fun p => (some (Moment.vector fun k => p.1.getD k.1 0), p.2)
        | _ => none)
      if !c.atEnd then none
      let a : Atom Rat := { symbol := sym, formal := formal, coordinates := fun k => co.getD k.1 0, mass := mass, moment := mom }
      let y := toYamlPoint a
      let back := match ofYamlPoint y with
        | none => "none"
        | some b => b.symbol ++ " " ++ b.formal
      pure ("symbol=" ++ y.symbol ++ " extended_symbol=" ++ showO id y.extended_symbol ++ " coordinates=" ++ showL y.coordinates ++
        " mass=" ++ showO showRat y.mass ++ " magnetic_moment=" ++
        (match y.magnetic_moment with | none => "-" | some (.scalar m) => showRat m | some (.seq l) => showL l) ++ " | " ++ back)
    | "load" =>
      let (p, c) ← readPresent c
      if !c.atEnd then none
      let l := load p
      pure (showCalc l.calculator ++ " " ++ (match l.factor with | .arg => "arg" | .calculatorDefault => "default") ++ " " ++
        showNac l.nac ++ " " ++ (match l.nacFactor with | .na => "na" | .inParams => "params" | .calculatorDefault => "default") ++ " " ++
        showDsSrc l.dataset ++ " " ++ showB l.datasetForces ++ " " ++ showFc l.fc ++ " " ++ showFc (docFcSource p))
    | "recompute" =>
      let (p, c) ← readPresent c
      let (o, c) ← readOpts c
      if !c.atEnd then none
      let r := recompute p o
      pure (showOB r.fcCompact ++ " " ++ showB r.converted ++ " " ++ showB r.produced ++ " " ++ showB r.symmetrized ++ " " ++
        showSolver r.solver ++ " " ++ showB r.raises)
    | "save" =>
      let (st, c) ← readSettings c
      let (o, c) ← readObj c
      if !c.atEnd then none
      let y := save st o
      pure (showB y.nac ++ " " ++ showB y.nacHasFactor ++ " " ++ showDS y.dataset ++ " " ++ showB y.fc ++ " " ++ showCalc y.calculator)
    | "reload" =>
      let (st, c) ← readSettings c
      let (o, c) ← readObj c
      if !c.atEnd then none
      pure (showObj (reload st o) ++ " " ++ showFc (load (presentOf (save st o))).fc)
    | "print" =>
      let (k, c) ← c.nat?
      let (x, c) ← c.rat?
      if !c.atEnd then none
      pure (toString (printK k x))
    | "len" =>
      let (k, c) ← c.nat?
      let (x, c) ← c.rat?
      if !c.atEnd then none
      pure (toString (printedLen k x))
    | "fits" =>
      let (w, c) ← c.nat?
      let (k, c) ← c.nat?
      let (x, c) ← c.rat?
      if !c.atEnd then none
      pure (toString (fits w k x))
    | _ => none
  r.getD "bad-op"

def main : IO Unit := serve handle
