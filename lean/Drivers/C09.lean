import PhononModel.Model.Grid
import PhononModel.Model.GridBZ
import PhononModel.Model.Wire
open PhononModel PhononModel.Wire PhononModel.Grid

def readBool (c : Cur) : Option (Bool × Cur) := do
  let (n, c) ← c.nat?
  if n = 0 then pure (false, c) else if n = 1 then pure (true, c) else none

def readV3Nat (c : Cur) : Option (V3 Nat × Cur) := do
  let (a, c) ← c.nats? 3
  pure (⟨a[0]!, a[1]!, a[2]!⟩, c)

def readV3Rat (c : Cur) : Option (V3 Rat × Cur) := do
  let (a, c) ← c.rats? 3
  pure (⟨a[0]!, a[1]!, a[2]!⟩, c)

def readV3Bool (c : Cur) : Option (V3 Bool × Cur) := do
  let (x, c) ← readBool c
  let (y, c) ← readBool c
  let (z, c) ← readBool c
  pure (⟨x, y, z⟩, c)

def readMats (c : Cur) : Option (List M3 × Cur) := do
  let (n, c) ← c.nat?
  let (a, c) ← c.ints? (9 * n)
  let ms := (List.range n).map fun k =>
    (⟨⟨a[9*k]!, a[9*k+1]!, a[9*k+2]!⟩, ⟨a[9*k+3]!, a[9*k+4]!, a[9*k+5]!⟩, ⟨a[9*k+6]!, a[9*k+7]!, a[9*k+8]!⟩⟩ : M3)
  pure (ms, c)

def readOptMats (c : Cur) : Option (Option (List M3) × Cur) := do
  let (h, c) ← readBool c
  if h then
    let (ms, c) ← readMats c
    pure (some ms, c)
  else pure (none, c)

def showB (b : Bool) : String := if b then "1" else "0"
def showNatL (l : List Nat) : String := " ".intercalate (l.map toString)
def showQ (l : List (V3 Rat)) : String :=
  " ".intercalate (l.map fun q => showRat q.x ++ " " ++ showRat q.y ++ " " ++ showRat q.z)

def showResult : Except GridErr GridResult → String
  | .error .zeroMesh => "err zeroMesh"
  | .error .badTable => "err badTable"
  | .ok r => "ok " ++ showB r.isShift.x ++ " " ++ showB r.isShift.y ++ " " ++ showB r.isShift.z ++ " | " ++
      showNatL r.table ++ " | " ++ showNatL r.ir ++ " | " ++ showNatL r.weights ++ " | " ++ showQ r.qpoints

def handle (line : String) : String :=
  let c : Cur := { toks := (tokens line).toArray }
  let r : Option String := do
    let (op, c) ← c.str?
    match op with
    | "grid" | "gridfix" =>
      let (mesh, c) ← readV3Nat c
      let (hs, c) ← readBool c
      let (sh, c) ← if hs then (readV3Rat c).map (fun (v, c) => (some v, c)) else some (none, c)
      let (gamma, c) ← readBool c
      let (tr, c) ← readBool c
      let (sym, c) ← readBool c
      let (rots, c) ← readOptMats c
      if !c.atEnd then none
      if op == "grid" then pure (showResult (gridPoints mesh sh gamma tr rots sym))
      else pure (showResult (gridPointsFixed mesh sh gamma tr rots sym))
    | "map" =>
      let (mesh, c) ← readV3Nat c
      let (s, c) ← readV3Bool c
      let (tr, c) ← readBool c
      let (rots, c) ← readMats c
      if !c.atEnd then none
      pure (showResult (setIrQpoints mesh s rots tr))
    | "s2b" =>
      let (mesh, c) ← readV3Nat c
      let (hs, c) ← readBool c
      let (sh, c) ← if hs then (readV3Rat c).map (fun (v, c) => (some v, c)) else some (none, c)
      let (gamma, c) ← readBool c
      if !c.atEnd then none
      match shift2boolean mesh sh gamma with
      | none => pure "none"
      | some b => pure (showB b.x ++ " " ++ showB b.y ++ " " ++ showB b.z)
    | "l2m" =>
      let (p, c) ← readV3Rat c
      let (rots, c) ← readOptMats c
      if !c.atEnd then none
      let m := length2mesh p rots
      pure (toString m.x ++ " " ++ toString m.y ++ " " ++ toString m.z)
    | "extract" =>
      let (n, c) ← c.nat?
      let (t, c) ← c.nats? n
      if !c.atEnd then none
      match extractIr t.toList with
      | none => pure "none"
      | some (ir, w) => pure (showNatL ir ++ " | " ++ showNatL w)
    | "bz" =>
      -- bz L(9, row major) T(9) tolf n q(3n)  ->  per q: point shift dmin tol nshort, separated by ';'
      let (l, c) ← c.rats? 9
      let (t, c) ← c.ints? 9
      let (tolf, c) ← c.rat?
      let (n, c) ← c.nat?
      let (qs, c) ← c.rats? (3 * n)
      if !c.atEnd then none
      let L : Q33 := ⟨⟨l[0]!, l[1]!, l[2]!⟩, ⟨l[3]!, l[4]!, l[5]!⟩, ⟨l[6]!, l[7]!, l[8]!⟩⟩
      let T : M3 := ⟨⟨t[0]!, t[1]!, t[2]!⟩, ⟨t[3]!, t[4]!, t[5]!⟩, ⟨t[6]!, t[7]!, t[8]!⟩⟩
      let outs := (List.range n).map fun k =>
        match bzRelocate L T tolf ⟨qs[3*k]!, qs[3*k+1]!, qs[3*k+2]!⟩ with
        | .error .notUnimodular => "err-not-unimodular"
        | .error .empty => "err-empty"
        | .ok r => showRat r.point.x ++ " " ++ showRat r.point.y ++ " " ++ showRat r.point.z ++ " " ++
            toString r.shift.x ++ " " ++ toString r.shift.y ++ " " ++ toString r.shift.z ++ " " ++
            showRat r.dmin ++ " " ++ showRat r.tol ++ " " ++ toString r.nshort
      pure (" ; ".intercalate outs)
    | "moment" =>
      -- moment order nq nb fmin fmax w(nq) freqs(nq*nb)
      let (order, c) ← c.nat?
      let (nq, c) ← c.nat?
      let (nb, c) ← c.nat?
      let (fmin, c) ← c.rat?
      let (fmax, c) ← c.rat?
      let (w, c) ← c.nats? nq
      let (fr, c) ← c.rats? (nq * nb)
      if !c.atEnd then none
      let freqs : List (List Rat) := (List.range nq).map fun q => (List.range nb).map fun b => fr.getD (q * nb + b) 0
      let den := weightedSum w.toList (freqs.map (powerSum 0 fmin fmax))
      if den = 0 then pure "empty-window" else
      pure (showRat (moment order fmin fmax w.toList freqs))
    | "wsum" =>
      let (n, c) ← c.nat?
      let (w, c) ← c.nats? n
      let (v, c) ← c.rats? n
      if !c.atEnd then none
      pure (showRat (weightedSum w.toList v.toList))
    | _ => none
  r.getD "bad-op"

def main : IO Unit := serve handle
