import PhononModel.Model.KernelReads
import PhononModel.Model.Wire
open PhononModel PhononModel.Wire PhononModel.Footprint

/-- sorted, de-duplicated index list as half-open ranges `a:b` -/
def showRanges (l : List Nat) : String := Id.run do
  let a := l.toArray.qsort (· < ·)
  if a.size = 0 then return "empty"
  let mut out : Array String := #[]
  let mut lo := a[0]!
  let mut hi := a[0]! + 1
  for x in a do
    if x < hi then continue
    else if x = hi then hi := hi + 1
    else
      out := out.push (toString lo ++ ":" ++ toString hi)
      lo := x
      hi := x + 1
  out := out.push (toString lo ++ ":" ++ toString hi)
  return " ".intercalate out.toList

def tab (a : Array Nat) : Nat → Nat := fun i => a.getD i 0

def loopOf (name : String) (p : Array Nat) : Option PLoop :=
  match name, p.toList with
  | "ddm", [np] => some (ddmLoop np)
  | "dmq", [nq, np] => some (dmQLoop nq np)
  | "dynmat_ij", [np] => some (dynmatIJLoop np)
  | "dd_kk", [nG] => some (ddKKLoop nG)
  | "borns", [np] => some (bornsLoop np)
  | "tetra_freq", [ngp, nb, i] => some (tetraFreqLoop ngp nb i)
  | "dos", [nir, nb, nf, nc] => some (dosLoop nir nb nf nc)
  | "thermal", [nq, nt] => some (thermalLoop nq nt)
  | "iw", [n] => some (iwLoop n)
  | _, _ => none

def handle (line : String) : String :=
  let c : Cur := { toks := (tokens line).toArray }
  let r : Option String := do
    let (op, c) ← c.str?
    match op with
    | "inventory" =>
      if !c.atEnd then none
      pure (" ## ".intercalate inventory)
    | "mallocs" =>
      if !c.atEnd then none
      pure (" ## ".intercalate mallocInventory)
    | "temp" =>
      -- temp <name> <params…> : allocated size, in-bounds flag, accessed cells
      let (name, c) ← c.str?
      let t : Option (Temp × Cur) := match name with
        | "atom_list_reverse" => do
          let (npos, c) ← c.nat?
          let (len, c) ← c.nat?
          let (al, c) ← c.nats? len
          let (nm, c) ← c.nat?
          let (ma, c) ← c.nats? nm
          pure (tAtomListReverse npos len (tab al) (tab ma), c)
        | "done" => do
          let (ns, c) ← c.nat?
          let (np, c) ← c.nat?
          let (s2pp, c) ← c.nats? ns
          let (it, c) ← c.nats? (ns * np)
          pure (tDone ns np (tab s2pp) (fun j ip => it.getD (j * np + ip) 0), c)
        | "gp2ir" => do
          let (ngp, c) ← c.nat?
          let (gmt, c) ← c.nats? ngp
          pure (tGp2ir ngp (tab gmt) [], c)
        | "ir_grid_points" => do
          let (nir, c) ← c.nat?
          let (ngp, c) ← c.nat?
          let (gmt, c) ← c.nats? ngp
          pure (tIrGridPoints nir ngp (tab gmt), c)
        | "charge_sum" => do let (n, c) ← c.nat?; pure (tChargeSum n, c)
        | "q_born" => do let (n, c) ← c.nat?; pure (tQBorn n, c)
        | "dnac" => do let (n, c) ← c.nat?; pure (tDnac n, c)
        | "ddnac" => do let (n, c) ← c.nat?; pure (tDdnac n, c)
        | "dd_tmp" => do let (n, c) ← c.nat?; pure (tDdTmp n, c)
        | "kk" => do let (n, c) ← c.nat?; pure (tKK n, c)
        | "tp" => do let (a, c) ← c.nat?; let (b, c) ← c.nat?; pure (tTp a b, c)
        | "gsv_vec" => do let (n, c) ← c.nat?; pure (tGsvVec n, c)
        | _ => none
      let (t, c) ← t
      if !c.atEnd then none
      pure (s!"{t.size} {t.inBoundsB} {showRanges t.accesses}")
    | "reads" =>
      -- reads <kernel> <shape parameters> <tables…> : certificate, brute-force bounds, per array `name:size:max+1`
      let (k, c) ← c.str?
      let showT : String → Temp → String := fun n t => s!"{n}:{t.size}:{(t.accesses.foldl max 0) + (if t.accesses.isEmpty then 0 else 1)}:{t.inBoundsB}"
      let res : Option (Bool × List (String × Temp) × Cur) := match k with
        | "dynmat" => do
          let (np, c) ← c.nat?
          let (ns, c) ← c.nat?
          let (nfc, c) ← c.nat?
          let (nsv, c) ← c.nat?
          let (p2s, c) ← c.nats? np
          let (s2p, c) ← c.nats? ns
          let (mu, c) ← c.nats? (ns * np * 2)
          let S : DynShape := ⟨np, ns, nfc, nsv⟩
          let T : DynTabs := ⟨tab p2s, tab s2p, fun p => mu.getD (2 * p) 0, fun p => mu.getD (2 * p + 1) 0⟩
          pure (dynCert S T, [("fc", rDynFc S T), ("multi", rDynMulti S), ("svecs", rDynSvecs S T)], c)
        | "d2f" => do
          let (np, c) ← c.nat?
          let (ns, c) ← c.nat?
          let (ncomm, c) ← c.nat?
          let (s2pp, c) ← c.nats? ns
          let S : D2fShape := ⟨np, ns, ncomm⟩
          pure (d2fCert S (tab s2pp), [("dm", rD2fDm S (tab s2pp)), ("masses", rD2fMasses S (tab s2pp))], c)
        | "tetra_freqs" => do
          let (ngpIn, c) ← c.nat?
          let (nb, c) ← c.nat?
          let (ngrid, c) ← c.nat?
          let (nir, c) ← c.nat?
          let (nmap, c) ← c.nat?
          let (mprod, c) ← c.nat?
          let (gps, c) ← c.nats? ngpIn
          let (gpir, c) ← c.nats? nmap
          let S : TfShape := ⟨ngpIn, nb, ngrid, nir, nmap, mprod⟩
          pure (tfCert S (tab gps) (tab gpir), [("grid_address", rTfGridAddress S (tab gps)), ("gp_ir_index", rTfGpIr S), ("frequencies", rTfFreqs S (tab gpir))], c)
        | "dos" => do
          let (ngp, c) ← c.nat?
          let (nir, c) ← c.nat?
          let (nb, c) ← c.nat?
          let (nf, c) ← c.nat?
          let (nc, c) ← c.nat?
          let (nml, c) ← c.nat?
          let (mprod, c) ← c.nat?
          let (gmt, c) ← c.nats? nml
          let S : DosShape := ⟨ngp, nir, nb, nf, nc, nml, mprod⟩
          pure (dosCert S (tab gmt), [("frequencies", rDosFreqs S (tab gmt)), ("coef", rDosCoef S), ("grid_mapping_table", rDosGmt S)], c)
        | "distribute_fc2" => do
          let (npos, c) ← c.nat?
          let (nrot, c) ← c.nat?
          let (len, c) ← c.nat?
          let (nrows, c) ← c.nat?
          let (al, c) ← c.nats? len
          let (fi, c) ← c.nats? len
          let (ma, c) ← c.nats? npos
          let (ms, c) ← c.nats? npos
          let (pm, c) ← c.nats? (nrot * npos)
          let S : DfcShape := ⟨npos, nrot, len, nrows⟩
          let T : DfcTabs := ⟨tab al, tab fi, tab ma, tab ms, fun r a => pm.getD (r * npos + a) 0⟩
          pure (dfcCert S T, [("permutations", rDfcPerms S T), ("fc2", rDfcFc S T), ("map_atoms", rDfcMaps S T)], c)
        | "compact" => do
          let (np, c) ← c.nat?
          let (ns, c) ← c.nat?
          let (nt, c) ← c.nat?
          let (p2s, c) ← c.nats? np
          let (s2pp, c) ← c.nats? ns
          let (nsym, c) ← c.nats? ns
          let (pm, c) ← c.nats? (nt * ns)
          let S : CsShape := ⟨np, ns, nt⟩
          let T : CsTabs := ⟨tab p2s, tab s2pp, tab nsym, fun t a => pm.getD (t * ns + a) 0⟩
          pure (csCert S T, [("permutations", rCsPerms S T), ("fc", rCsFc S T)], c)
        | "thermal" => do
          let (nq, c) ← c.nat?
          let (nb, c) ← c.nat?
          pure (true, [("frequencies", rThermalFreqs nq nb)], c)
        | _ => none
      let (cert, ts, c) ← res
      if !c.atEnd then none
      pure (s!"cert={cert} " ++ " ".intercalate (ts.map fun (n, t) => showT n t))
    | "loop" =>
      -- loop <name> <k> <params…> : iters, size, brute-force disjointness / bounds, union of writes
      let (name, c) ← c.str?
      let (k, c) ← c.nat?
      let (p, c) ← c.nats? k
      if !c.atEnd then none
      let L ← loopOf name p
      pure (s!"{L.iters} {L.size} {L.disjointB} {L.inBoundsB} {showRanges L.all}")
    | "loopfc" =>
      -- loopfc np ns nfc fim[np]
      let (np, c) ← c.nat?
      let (ns, c) ← c.nat?
      let (nfc, c) ← c.nat?
      let (fim, c) ← c.nats? np
      if !c.atEnd then none
      let L := dynmatToFcLoop np ns nfc (tab fim)
      pure (s!"{L.iters} {L.size} {L.disjointB} {L.inBoundsB} {showRanges L.all}")
    | "ws" =>
      let (k, c) ← c.str?
      match k with
      | "dynmat_to_fc" =>
        let (np, c) ← c.nat?
        let (ns, c) ← c.nat?
        let (nfc, c) ← c.nat?
        let (fim, c) ← c.nats? np
        if !c.atEnd then none
        pure (showRanges (kDynmatToFc np ns nfc (tab fim)))
      | "sym_fc" =>
        let (n, c) ← c.nat?
        let (lv, c) ← c.nat?
        if !c.atEnd then none
        pure (showRanges (kSymFc n lv))
      | "sym_compact_fc" =>
        let (np, c) ← c.nat?
        let (ns, c) ← c.nat?
        let (lv, c) ← c.nat?
        let (p2s, c) ← c.nats? np
        if !c.atEnd then none
        pure (showRanges (kSymCompactFc np ns lv (tab p2s)))
      | "transpose_compact_fc" =>
        let (np, c) ← c.nat?
        let (ns, c) ← c.nat?
        if !c.atEnd then none
        pure (showRanges (kTransposeCompactFc np ns))
      | "dynmats" =>
        let (nq, c) ← c.nat?
        let (np, c) ← c.nat?
        if !c.atEnd then none
        pure (showRanges (kDynmats nq np))
      | "recip_dd" =>
        let (np, c) ← c.nat?
        if !c.atEnd then none
        pure (showRanges (kRecipDD np))
      | "recip_dd_q0" =>
        let (np, c) ← c.nat?
        if !c.atEnd then none
        pure (showRanges (kRecipDDq0 np))
      | "deriv_dynmat" =>
        let (np, c) ← c.nat?
        if !c.atEnd then none
        pure (showRanges (kDerivDynmat np))
      | "thermal" =>
        let (nt, c) ← c.nat?
        if !c.atEnd then none
        pure (showRanges (kThermal nt))
      | "distribute_fc2" =>
        let (npos, c) ← c.nat?
        let (len, c) ← c.nat?
        let (al, c) ← c.nats? len
        let (fi, c) ← c.nats? len
        let (nm, c) ← c.nat?
        let (ma, c) ← c.nats? nm
        if !c.atEnd then none
        pure (showRanges (kDistributeFc2 npos al.toList fi.toList ma.toList))
      | "compute_permutation" =>
        let (n, c) ← c.nat?
        if !c.atEnd then none
        pure (showRanges (kComputePermutation n))
      | "gsv_sparse_vecs" =>
        let (n, c) ← c.nat?
        let (m, c) ← c.nats? n
        if !c.atEnd then none
        pure (showRanges (kGsvSparseVecs m.toList))
      | "gsv_sparse_mult" =>
        let (n, c) ← c.nat?
        if !c.atEnd then none
        pure (showRanges (kGsvSparseMult n))
      | "gsv_dense_vecs" =>
        let (ini, c) ← c.nat?
        let (n, c) ← c.nat?
        let (m, c) ← c.nats? n
        if !c.atEnd then none
        pure (showRanges (kGsvDenseVecs ini m.toList))
      | "gsv_dense_mult" =>
        let (ini, c) ← c.nat?
        let (n, c) ← c.nat?
        if !c.atEnd then none
        pure (showRanges (kGsvDenseMult ini n))
      | "rel_grid" => if !c.atEnd then none else pure (showRanges kRelGridAddress)
      | "all_rel_grid" => if !c.atEnd then none else pure (showRanges kAllRelGridAddress)
      | "iw_at_omegas" =>
        let (n, c) ← c.nat?
        if !c.atEnd then none
        pure (showRanges (kIwAtOmegas n))
      | "tetra_freqs" =>
        let (ngp, c) ← c.nat?
        let (nb, c) ← c.nat?
        if !c.atEnd then none
        pure (showRanges (kTetraFreqs ngp nb))
      | "dos" =>
        let (nir, c) ← c.nat?
        let (nb, c) ← c.nat?
        let (nf, c) ← c.nat?
        let (nc, c) ← c.nat?
        if !c.atEnd then none
        pure (showRanges (kDos nir nb nf nc))
      | _ => none
    | _ => none
  r.getD "bad-op"

def main : IO Unit := serve handle
