import PhononModel.Model.NAC
import PhononModel.Model.Wire
open PhononModel PhononModel.Wire PhononModel.C06 PhononModel.C08
attribute [local instance] PhononModel.C08.cxZero

def readPhases8 (c : Cur) (cnt : Nat) : Option (Array (List (Cx Rat)) × Cur) := do
  let mut c := c
  let mut out := Array.mkEmpty cnt
  for _ in [0:cnt] do
    let (m, c1) ← c.nat?
    let (v, c2) ← c1.rats? (2 * m)
    let l := (List.range m).map fun t => (⟨v.getD (2 * t) 0, v.getD (2 * t + 1) 0⟩ : Cx Rat)
    out := out.push l
    c := c2
  pure (out, c)

def toCFC8 (a b : Nat) (v : Array Rat) : Fin a → Fin b → Fin 3 → Fin 3 → Rat :=
  fun i j k l => v.getD (i.1 * b * 9 + j.1 * 9 + k.1 * 3 + l.1) 0

def ofDM8 (np : Nat) (D : DM np Rat) : Array Rat := Id.run do
  let mut out := Array.mkEmpty (np * np * 18)
  for i in List.finRange np do
    for a in List.finRange 3 do
      for j in List.finRange np do
        for b in List.finRange 3 do
          let z := D i a j b
          out := out.push z.re
          out := out.push z.im
  pure out

def toV3 (v : Array Rat) (off : Nat) : V3 Rat := fun i => v.getD (off + i.1) 0
def toT3 (v : Array Rat) (off : Nat) : T3 Rat := fun i j => v.getD (off + i.1 * 3 + j.1) 0

def ofT3s (n : Nat) (Z : Fin n → T3 Rat) : Array Rat := Id.run do
  let mut out := Array.mkEmpty (n * 9)
  for i in List.finRange n do
    for a in List.finRange 3 do
      for b in List.finRange 3 do
        out := out.push (Z i a b)
  pure out

/-- common prefix of the dynamical-matrix requests:
`np ns nr p2s s2p fc ms phases` -/
structure DynIn where
  np : Nat
  ns : Nat
  nr : Nat
  T : FTables np ns nr
  fc : Fin nr → Fin ns → Fin 3 → Fin 3 → Rat
  ms : Fin np → Fin np → Rat
  ph : Phases np ns Rat

def readDynIn (c : Cur) : Option (DynIn × Cur) := do
  let (np, c) ← c.nat?
  let (ns, c) ← c.nat?
  let (nr, c) ← c.nat?
  let (p2s, c) ← c.nats? np
  let p2s ← allFin? nr p2s
  let (s2p, c) ← c.nats? ns
  let (fc, c) ← c.rats? (nr * ns * 9)
  let (ms, c) ← c.rats? (np * np)
  let (ph, c) ← readPhases8 c (ns * np)
  if h : p2s.size = np then
    pure ({ np := np, ns := ns, nr := nr
            T := { p2s := fun i => p2s[i.1]'(by omega), s2p := fun k => s2p.getD k.1 0 }
            fc := toCFC8 nr ns fc
            ms := fun i j => ms.getD (i.1 * np + j.1) 0
            ph := fun k i => ph.getD (k.1 * np + i.1) [] }, c)
  else none

/-- `qc(3) hasdir dir(3) tolSq eps(9) born(np*9)` -/
def readNacIn (c : Cur) (np : Nat) : Option ((V3 Rat × Option (V3 Rat) × Rat × T3 Rat × (Fin np → T3 Rat)) × Cur) := do
  let (qc, c) ← c.rats? 3
  let (hd, c) ← c.nat?
  let (dir, c) ← c.rats? 3
  let (tolSq, c) ← c.rat?
  let (eps, c) ← c.rats? 9
  let (born, c) ← c.rats? (np * 9)
  if hd > 1 then none
  pure ((toV3 qc 0, (if hd = 1 then some (toV3 dir 0) else none), tolSq, toT3 eps 0,
         fun i => toT3 born (i.1 * 9)), c)

/-- `nG G(3nG) expv(nG) phG(nG*np*np*2)` -/
def readGIn (c : Cur) (np : Nat) :
    Option (((nG : Nat) × (Fin nG → V3 Rat) × (Fin nG → Rat) × (Fin nG → Fin np → Fin np → Cx Rat)) × Cur) := do
  let (nG, c) ← c.nat?
  let (G, c) ← c.rats? (3 * nG)
  let (expv, c) ← c.rats? nG
  let (phG, c) ← c.rats? (nG * np * np * 2)
  pure (⟨nG, fun g => toV3 G (3 * g.1), fun g => expv.getD g.1 0,
         fun g i j => ⟨phG.getD (2 * ((g.1 * np + i.1) * np + j.1)) 0, phG.getD (2 * ((g.1 * np + i.1) * np + j.1) + 1) 0⟩⟩, c)

def handle (line : String) : String :=
  let c : Cur := { toks := (tokens line).toArray }
  let r : Option String := do
    let (op, c) ← c.str?
    match op with
    | "latwf" =>
      let (np, c) ← c.nat?
      let (ns, c) ← c.nat?
      let (N, c) ← c.nat?
      let (Nd, c) ← c.int?
      let (s2pp, c) ← c.nats? ns
      let s2pp ← allFin? np s2pp
      let (base, c) ← c.nats? np
      let base ← allFin? ns base
      let (kq, c) ← c.ints? (3 * N)
      let (R, c) ← c.ints? (3 * ns)
      if !c.atEnd then none
      if h : s2pp.size = ns ∧ base.size = np then
        let L : Lat np ns N := { s2pp := fun k => s2pp[k.1]'(by omega)
                                 base := fun j => base[j.1]'(by omega)
                                 kq := fun q => (kq.getD (3 * q.1) 0, kq.getD (3 * q.1 + 1) 0, kq.getD (3 * q.1 + 2) 0)
                                 R := fun k => (R.getD (3 * k.1) 0, R.getD (3 * k.1 + 1) 0, R.getD (3 * k.1 + 2) 0)
                                 Nd := Nd }
        pure (toString L.wf)
      else none
    | "glistwf" =>
      let (nG, c) ← c.nat?
      let (G, c) ← c.rats? (3 * nG)
      let (nu, c) ← c.nats? nG
      let nu ← allFin? nG nu
      if !c.atEnd then none
      if h : nu.size = nG then
        pure (toString (gListWf (nG := nG) (fun g => toV3 G (3 * g.1)) (fun g => nu[g.1]'(by omega))))
      else none
    | "glist" =>
      -- rec(9) cell(9) cutoffSq r : the list for radius r, preceded by the two modelled radii
      let (rec, c) ← c.rats? 9
      let (cell, c) ← c.rats? 9
      let (cut, c) ← c.rat?
      let (r, c) ← c.nat?
      if !c.atEnd then none
      let l := gList (toT3 rec 0) cut r
      pure (s!"{minGRad (toT3 rec 0) cut 100} {safeGRad (toT3 cell 0) cut 100} {l.length} " ++
        " ".intercalate (l.map fun n => s!"{n.1} {n.2.1} {n.2.2}"))
    | "nacvec" =>
      let (qc, c) ← c.rats? 3
      let (hd, c) ← c.nat?
      let (dir, c) ← c.rats? 3
      let (tolSq, c) ← c.rat?
      if !c.atEnd || hd > 1 then none
      match nacVector (toV3 qc 0) (if hd = 1 then some (toV3 dir 0) else none) tolSq with
      | none => pure "none"
      | some v => pure (showRats #[v 0, v 1, v 2])
    | "wang" =>
      let (d, c) ← readDynIn c
      let (f, c) ← c.rat?
      let ((qc, dir, tolSq, eps, born), c) ← readNacIn c d.np
      if !c.atEnd then none
      pure (showRats (ofDM8 d.np (wangDynmat d.T d.fc d.ms d.ph f qc dir tolSq eps born)))
    | "gl" =>
      let (d, c) ← readDynIn c
      let ((qc, dir, tolSq, eps, born), c) ← readNacIn c d.np
      let (⟨_, G, expv, phG⟩, c) ← readGIn c d.np
      let (q0, c) ← c.rats? (d.np * 18)
      let (factor, c) ← c.rat?
      if !c.atEnd then none
      let ddq0 : Fin d.np → Fin 3 → Fin 3 → Cx Rat := fun i a b =>
        ⟨q0.getD (2 * (i.1 * 9 + a.1 * 3 + b.1)) 0, q0.getD (2 * (i.1 * 9 + a.1 * 3 + b.1) + 1) 0⟩
      pure (showRats (ofDM8 d.np (thaw4 (glDynmatF d.T d.fc d.ms d.ph G qc dir eps born tolSq expv phG ddq0 factor))))
    | "ddq0" =>
      let (np, c) ← c.nat?
      let (tolSq, c) ← c.rat?
      let (eps, c) ← c.rats? 9
      let (born, c) ← c.rats? (np * 9)
      let (⟨_, G, expv, phG⟩, c) ← readGIn c np
      if !c.atEnd then none
      let zf : Fin np → Fin 3 → Fin 3 → Fin 1 → Cx Rat := thaw4 (ddQ0F G (toT3 eps 0) (fun i => toT3 born (i.1 * 9)) tolSq expv phG)
      let z : Fin np → Fin 3 → Fin 3 → Cx Rat := fun i a b => zf i a b 0
      let out : Array Rat := Id.run do
        let mut out := Array.mkEmpty (np * 18)
        for i in List.finRange np do
          for a in List.finRange 3 do
            for b in List.finRange 3 do
              out := out.push (z i a b).re
              out := out.push (z i a b).im
        pure out
      pure (showRats out)
    | "symborns" =>
      let (n, c) ← c.nat?
      let (ng, c) ← c.nat?
      let (R, c) ← c.rats? (ng * 9)
      let (Ri, c) ← c.rats? (ng * 9)
      let (perm, c) ← c.nats? (ng * n)
      let perm ← allFin? n perm
      let (Z, c) ← c.rats? (n * 9)
      if !c.atEnd then none
      if h : perm.size = ng * n then
        let pf : Fin ng → Fin n → Fin n := fun g i => perm[g.1 * n + i.1]'(by
          have := g.2; have := i.2
          calc g.1 * n + i.1 < g.1 * n + n := by omega
            _ = (g.1 + 1) * n := by rw [Nat.add_mul, Nat.one_mul]
            _ ≤ ng * n := Nat.mul_le_mul_right _ (by omega)
            _ = perm.size := by omega)
        pure (showRats (ofT3s n (symBorns (ng := ng) (fun g => toT3 R (g.1 * 9)) (fun g => toT3 Ri (g.1 * 9)) pf (fun i => toT3 Z (i.1 * 9)))))
      else none
    | "symeps" =>
      let (ng, c) ← c.nat?
      let (R, c) ← c.rats? (ng * 9)
      let (Ri, c) ← c.rats? (ng * 9)
      let (E, c) ← c.rats? 9
      if !c.atEnd then none
      pure (showRats (ofT3s 1 (fun _ => symTensor (ng := ng) (fun g => toT3 R (g.1 * 9)) (fun g => toT3 Ri (g.1 * 9)) (toT3 E 0))))
    | "groupwf" =>
      let (n, c) ← c.nat?
      let (ng, c) ← c.nat?
      let (r, c) ← c.ints? (ng * 9)
      let (perm, c) ← c.nats? (ng * n)
      let perm ← allFin? n perm
      let (mul, c) ← c.nats? (ng * ng)
      let mul ← allFin? ng mul
      if !c.atEnd then none
      if h : perm.size = ng * n ∧ mul.size = ng * ng then
        let pf : Fin ng → Fin n → Fin n := fun g i => perm[g.1 * n + i.1]'(by
          have := g.2; have := i.2
          calc g.1 * n + i.1 < g.1 * n + n := by omega
            _ = (g.1 + 1) * n := by rw [Nat.add_mul, Nat.one_mul]
            _ ≤ ng * n := Nat.mul_le_mul_right _ (by omega)
            _ = perm.size := by omega)
        let mf : Fin ng → Fin ng → Fin ng := fun g i => mul[g.1 * ng + i.1]'(by
          have := g.2; have := i.2
          calc g.1 * ng + i.1 < g.1 * ng + ng := by omega
            _ = (g.1 + 1) * ng := by rw [Nat.add_mul, Nat.one_mul]
            _ ≤ ng * ng := Nat.mul_le_mul_right _ (by omega)
            _ = mul.size := by omega)
        let rf : Fin ng → Mat3 := fun g =>
          let e := fun k => r.getD (g.1 * 9 + k) 0
          ((e 0, e 1, e 2), (e 3, e 4, e 5), (e 6, e 7, e 8))
        pure (toString (groupWf rf pf mf))
      else none
    | _ => none
  r.getD "bad-op"

def main : IO Unit := serve handle
