import PhononModel.Model.DynMatWire
import PhononModel.Model.Wire
/-! Driver of the dynamical-matrix model (protocol: `PhononModel/Model/DynMatWire.lean`). -/
def main : IO Unit := PhononModel.Wire.serve PhononModel.DynMatWire.handle
