import PhononModel.Model.ThermalDisp
import PhononModel.Lemmas.CxPair
import PhononModel.Lemmas.RandomDisp
import Mathlib.Algebra.BigOperators.Fin
import Mathlib.Algebra.BigOperators.Field
import Mathlib.Algebra.BigOperators.Group.Finset.Sigma
import Mathlib.Algebra.Order.BigOperators.Ring.Finset
import Mathlib.Algebra.Order.Field.Basic
import Mathlib.Data.Fintype.Sum
import Mathlib.LinearAlgebra.Matrix.NonsingularInverse
import Mathlib.Tactic.FinCases
import Mathlib.Tactic.NormNum
import Mathlib.Tactic.FieldSimp
import Mathlib.Tactic.Positivity
import Mathlib.Analysis.Real.Sqrt
/-!
# C19 — thermal and random displacements follow harmonic canonical statistics

Theorems are about `Model/RandomDisp.lean` and `Model/ThermalDisp.lean`, over every field
(ordered where positivity is stated).  `./check C19` ties the models to
`phonon/random_displacements.py`, `harmonic/dynmat_to_fc.py`, `c/dynmat.c`,
`phonon/thermal_displacement.py` by running both on the implementation's own eigen-solutions.
No measure theory: the sampler is the linear map `A`, its covariance for independent unit variates is `A·Aᵀ`.
-/
set_option linter.unusedSectionVars false
set_option linter.unusedVariables false
namespace PhononModel.C19
open PhononModel PhononModel.CP Finset

section sampler
variable {K : Type} [Field K] {np ns nii nij : Nat}

/-- **pair variance, core identity**: two independent unit variates `z₁, z₂` enter a conjugate pair as
`√2(z₁ Re w − z₂ Im w)`; the product of the coefficient rows is `w_a w̄_b + w̄_a w_b`. -/
theorem pair_variance_core (r2 : K) (hr2 : r2 * r2 = 2) (w w' : Cx K) :
    (r2 * w.re) * (r2 * w'.re) + (-(r2 * w.im)) * (-(r2 * w'.im))
      = (w * Cx.conj w' + Cx.conj w * w').re ∧ (w * Cx.conj w' + Cx.conj w * w').im = 0 := by
  constructor
  · simp only [Cx.add_re, Cx.mul_re, Cx.conj_re, Cx.conj_im]
    linear_combination (w.re * w'.re + w.im * w'.im) * hr2
  · simp only [Cx.add_im, Cx.mul_im, Cx.conj_re, Cx.conj_im]; ring

/-- **pair variance** for the model's coefficient matrix (entries of `A·Aᵀ` contributed by one mode of a pair). -/
theorem pair_variance (I : RDIn np ns nii nij K) (hr2 : I.r2 * I.r2 = 2) (κ κ' : Fin ns) (a b : Fin 3)
    (q : Fin nij) (ν : Fin (np * 3)) :
    A1 I κ a q ν * A1 I κ' b q ν + A2 I κ a q ν * A2 I κ' b q ν
      = I.sigij q ν * I.sigij q ν
          * (wij I q ν κ a * Cx.conj (wij I q ν κ' b) + Cx.conj (wij I q ν κ a) * wij I q ν κ' b).re
          / (I.rm κ * I.rm κ') := by
  unfold A1 A2
  simp only [Cx.add_re, Cx.mul_re, Cx.conj_re, Cx.conj_im]
  linear_combination (I.sigij q ν * I.sigij q ν * ((wij I q ν κ a).re * (wij I q ν κ' b).re
    + (wij I q ν κ a).im * (wij I q ν κ' b).im) / (I.rm κ * I.rm κ')) * hr2

/-- the displacement is the linear image `A z` of the variates (what "reading `A` column by column" means) -/
theorem displ_linear (I : RDIn np ns nii nij K) (z : Fin nii → Fin (np * 3) → K) (z1 z2 : Fin nij → Fin (np * 3) → K)
    (κ : Fin ns) (a : Fin 3) :
    displ I z z1 z2 κ a = (∑ q, ∑ ν, z q ν * Aii I κ a q ν) + (∑ q, ∑ ν, (z1 q ν * A1 I κ a q ν + z2 q ν * A2 I κ a q ν)) := by
  unfold displ uII uIJ
  simp only [sumFin_eq]
  have hre : ∀ (zz : Fin nij → Fin (np * 3) → K) (q : Fin nij), (uRed I zz q κ a * I.phij q κ).re
      = ∑ ν, zz q ν * I.sigij q ν * (wij I q ν κ a).re := by
    intro zz q
    unfold uRed wij
    simp only [sumFin_eq, Finset.sum_mul, Cx.sum_re]
    apply Finset.sum_congr rfl; intro ν _
    simp only [Cx.mul_re, Cx.smul_re, Cx.smul_im]; ring
  have him : ∀ (zz : Fin nij → Fin (np * 3) → K) (q : Fin nij), (uRed I zz q κ a * I.phij q κ).im
      = ∑ ν, zz q ν * I.sigij q ν * (wij I q ν κ a).im := by
    intro zz q
    unfold uRed wij
    simp only [sumFin_eq, Finset.sum_mul, Cx.sum_im]
    apply Finset.sum_congr rfl; intro ν _
    simp only [Cx.mul_im, Cx.smul_re, Cx.smul_im]; ring
  simp only [hre, him, A1, A2, Aii]
  rw [add_div]
  congr 1
  · rw [Finset.sum_div]
    apply Finset.sum_congr rfl; intro q _
    rw [Finset.sum_mul, Finset.sum_div]
    apply Finset.sum_congr rfl; intro ν _; ring
  · rw [Finset.sum_mul, Finset.sum_div]
    apply Finset.sum_congr rfl; intro q _
    rw [← Finset.sum_sub_distrib, Finset.sum_mul, Finset.sum_div]
    apply Finset.sum_congr rfl; intro ν _; ring

/-- canonical data on the three classes of commensurate points: `q = −q` (real pattern `e·cos`),
a representative `q` of a conjugate pair (`w = e·phase`), and its partner `−q` (`w̄`, same σ). -/
def WcOf (I : RDIn np ns nii nij K) : Fin nii ⊕ (Fin nij ⊕ Fin nij) → Fin (np * 3) → Fin ns → Fin 3 → Cx K
  | .inl q, ν, κ, a => Cx.ofRe (I.eii q (row (I.s2pp κ) a) ν * I.cosii q κ)
  | .inr (.inl q), ν, κ, a => wij I q ν κ a
  | .inr (.inr q), ν, κ, a => Cx.conj (wij I q ν κ a)

def sOf (I : RDIn np ns nii nij K) : Fin nii ⊕ (Fin nij ⊕ Fin nij) → Fin (np * 3) → K
  | .inl q, ν => I.sigii q ν
  | .inr (.inl q), ν => I.sigij q ν
  | .inr (.inr q), ν => I.sigij q ν

/-- **`cov_eq_canonical`**: `A·Aᵀ = (1/N) Σ_q Σ_ν σ²_{qν} Re[w_{qν} w_{qν}†]/(s_κ s_κ')`, the sum running over *all*
commensurate points (each conjugate pair contributing both members), `s_κ = √m_κ`, `rm = s·√N`. -/
theorem cov_eq_canonical (I : RDIn np ns nii nij K) (hr2 : I.r2 * I.r2 = 2) (s : Fin ns → K) (rN : K)
    (hrm : ∀ κ, I.rm κ = s κ * rN) (hN : rN * rN = ((nii + 2 * nij : Nat) : K)) (κ κ' : Fin ns) (a b : Fin 3) :
    cov I κ a κ' b
      = (∑ x : Fin nii ⊕ (Fin nij ⊕ Fin nij), ∑ ν, sOf I x ν * sOf I x ν
            * (WcOf I x ν κ a * Cx.conj (WcOf I x ν κ' b)).re)
          / ((nii + 2 * nij : Nat) : K) / (s κ * s κ') := by
  have hden : I.rm κ * I.rm κ' = ((nii + 2 * nij : Nat) : K) * (s κ * s κ') := by
    rw [hrm, hrm, ← hN]; ring
  rw [Fintype.sum_sum_type, Fintype.sum_sum_type, div_div, ← hden]
  unfold cov
  simp only [sumFin_eq, WcOf, sOf]
  rw [add_div, Finset.sum_div, ← Finset.sum_add_distrib, Finset.sum_div]
  congr 1
  · apply Finset.sum_congr rfl; intro q _
    rw [Finset.sum_div]
    apply Finset.sum_congr rfl; intro ν _
    unfold Aii
    simp only [Cx.mul_re, Cx.ofRe_re, Cx.ofRe_im, Cx.conj_re, Cx.conj_im]; ring
  · apply Finset.sum_congr rfl; intro q _
    rw [← Finset.sum_add_distrib, Finset.sum_div]
    apply Finset.sum_congr rfl; intro ν _
    rw [pair_variance I hr2]
    simp only [Cx.add_re, Cx.mul_re, Cx.conj_re, Cx.conj_im]; ring

/-- the same with the commensurate points indexed by any finite type, the ii/ij partition given as a bijection
(the certificate `partitionOk` evaluated on the implementation's tables) -/
theorem cov_eq_canonical_of_partition {Q : Type} [Fintype Q] (φ : Q ≃ Fin nii ⊕ (Fin nij ⊕ Fin nij))
    (I : RDIn np ns nii nij K) (hr2 : I.r2 * I.r2 = 2) (s : Fin ns → K) (rN : K)
    (hrm : ∀ κ, I.rm κ = s κ * rN) (hN : rN * rN = ((nii + 2 * nij : Nat) : K)) (κ κ' : Fin ns) (a b : Fin 3) :
    cov I κ a κ' b
      = (∑ Qp : Q, ∑ ν, sOf I (φ Qp) ν * sOf I (φ Qp) ν * (WcOf I (φ Qp) ν κ a * Cx.conj (WcOf I (φ Qp) ν κ' b)).re)
          / ((nii + 2 * nij : Nat) : K) / (s κ * s κ') := by
  rw [cov_eq_canonical I hr2 s rN hrm hN]
  congr 2
  exact (Equiv.sum_comp φ _).symm

/-- the covariance is symmetric -/
theorem cov_symm (I : RDIn np ns nii nij K) (κ κ' : Fin ns) (a b : Fin 3) : cov I κ a κ' b = cov I κ' b κ a := by
  unfold cov
  simp only [sumFin_eq]
  congr 1 <;> (apply Finset.sum_congr rfl; intro q _; apply Finset.sum_congr rfl; intro ν _; ring)

end sampler

section thermal
variable {K : Type} [Field K] [LinearOrder K] [IsStrictOrderedRing K] {np nq : Nat}

/-- `Σ_ab x_a x_b Re(v_a v̄_b) = (Σ x Re v)² + (Σ x Im v)²` -/
theorem quad_re (x : Fin 3 → K) (v : Fin 3 → Cx K) :
    (∑ a, ∑ b, x a * x b * (v a * Cx.conj (v b)).re)
      = (∑ a, x a * (v a).re) * (∑ a, x a * (v a).re) + (∑ a, x a * (v a).im) * (∑ a, x a * (v a).im) := by
  simp only [Fin.sum_univ_three, Cx.mul_re, Cx.conj_re, Cx.conj_im]; ring

/-- unfolding of one matrix entry -/
theorem tdm_eq (I : TDIn np nq K) (i : Fin np) (a b : Fin 3) :
    tdm I i a b = (∑ q, ∑ ν, if valid I.fmin I.fmax (I.f q ν) = true then
        I.q2 q ν * ((I.e q (row i a) ν * Cx.conj (I.e q (row i b) ν)).re / I.mass i) else 0) / (nq : K) := by
  unfold tdm tdmC
  simp only [Cx.sdiv_re, sumFin_eq, Cx.sum_re]
  congr 1
  apply Finset.sum_congr rfl; intro q _
  apply Finset.sum_congr rfl; intro ν _
  split <;> simp

/-- **symmetric** -/
theorem msd_symmetric (I : TDIn np nq K) (i : Fin np) (a b : Fin 3) : tdm I i a b = tdm I i b a := by
  rw [tdm_eq, tdm_eq]
  congr 1
  apply Finset.sum_congr rfl; intro q _
  apply Finset.sum_congr rfl; intro ν _
  split
  · simp only [Cx.mul_re, Cx.conj_re, Cx.conj_im]; ring
  · rfl

/-- the quadratic form of a mean-square displacement matrix, mode by mode -/
theorem tdm_quadform (I : TDIn np nq K) (i : Fin np) (x : Fin 3 → K) :
    (∑ a, ∑ b, x a * x b * tdm I i a b)
      = (∑ q, ∑ ν, if valid I.fmin I.fmax (I.f q ν) = true then
          I.q2 q ν * (((∑ a, x a * (I.e q (row i a) ν).re) * (∑ a, x a * (I.e q (row i a) ν).re)
            + (∑ a, x a * (I.e q (row i a) ν).im) * (∑ a, x a * (I.e q (row i a) ν).im)) / I.mass i) else 0) / (nq : K) := by
  simp only [tdm_eq]
  simp only [Fin.sum_univ_three, mul_div_assoc', ← add_div, Finset.mul_sum, ← Finset.sum_add_distrib]
  congr 1
  apply Finset.sum_congr rfl; intro q _
  apply Finset.sum_congr rfl; intro ν _
  split_ifs
  · simp only [Cx.mul_re, Cx.conj_re, Cx.conj_im]; ring
  · simp

/-- **positive semi-definite** (non-negative `Q2 = ħ(n+½)/ω` on the sampled modes, positive masses) -/
theorem msd_psd (I : TDIn np nq K) (i : Fin np) (hm : 0 < I.mass i)
    (hq : ∀ q ν, valid I.fmin I.fmax (I.f q ν) = true → 0 ≤ I.q2 q ν) (x : Fin 3 → K) :
    0 ≤ ∑ a, ∑ b, x a * x b * tdm I i a b := by
  rw [tdm_quadform]
  apply div_nonneg _ (Nat.cast_nonneg nq)
  apply Finset.sum_nonneg; intro q _
  apply Finset.sum_nonneg; intro ν _
  split
  · next h =>
    apply mul_nonneg (hq q ν h)
    apply div_nonneg _ hm.le
    exact add_nonneg (mul_self_nonneg _) (mul_self_nonneg _)
  · exact le_refl _

/-- `msd_psd_symmetric` -/
theorem msd_psd_symmetric (I : TDIn np nq K) (i : Fin np) (hm : 0 < I.mass i)
    (hq : ∀ q ν, valid I.fmin I.fmax (I.f q ν) = true → 0 ≤ I.q2 q ν) :
    (∀ a b, tdm I i a b = tdm I i b a) ∧ ∀ x : Fin 3 → K, 0 ≤ ∑ a, ∑ b, x a * x b * tdm I i a b :=
  ⟨msd_symmetric I i, msd_psd I i hm hq⟩

/-- **the mean-square displacements are the Cartesian diagonal** -/
theorem msd_diag (I : TDIn np nq K) (i : Fin np) (a : Fin 3) : tdm I i a a = msd I i a := by
  rw [tdm_eq]
  unfold msd
  simp only [sumFin_eq]
  congr 1
  apply Finset.sum_congr rfl; intro q _
  apply Finset.sum_congr rfl; intro ν _
  split
  · simp only [Cx.mul_re, Cx.conj_re, Cx.conj_im]; ring
  · rfl

/-- projected mean-square displacement `= nᵀ U n` -/
theorem msd_projection (I : TDIn np nq K) (i : Fin np) (n : Fin 3 → K) :
    (∑ a, ∑ b, n a * n b * tdm I i a b) = msdProj I n i := by
  rw [tdm_quadform]
  unfold msdProj proj
  simp only [sumFin_eq, Cx.sum_re, Cx.sum_im, Cx.smul_re, Cx.smul_im]

/-- **CIF convention**: `U_cif = (A·N)⁻¹ U (A·N)⁻ᵀ`, i.e. `U_cart = (A·N) U_cif (A·N)ᵀ` -/
theorem cif_transform (AN ANinv U : Matrix (Fin 3) (Fin 3) K) (h : ANinv * AN = 1) :
    AN * (Matrix.of (cifOf (fun x y => ANinv x y) (fun x y => U x y))) * AN.transpose = U := by
  have h' : AN * ANinv = 1 := mul_eq_one_comm.1 h
  have hc : Matrix.of (cifOf (fun x y => ANinv x y) (fun x y => U x y)) = ANinv * U * ANinv.transpose := by
    ext x y
    simp only [Matrix.of_apply, cifOf, sumFin_eq, Matrix.mul_apply, Matrix.transpose_apply, Finset.sum_mul]
    rw [Finset.sum_comm]
  rw [hc]
  have ht : ANinv.transpose * AN.transpose = 1 := by rw [← Matrix.transpose_mul, h', Matrix.transpose_one]
  calc AN * (ANinv * U * ANinv.transpose) * AN.transpose
      = (AN * ANinv) * U * (ANinv.transpose * AN.transpose) := by simp only [Matrix.mul_assoc]
    _ = U := by rw [h', ht, Matrix.one_mul, Matrix.mul_one]

/-! ### frequency window, mesh normalisation, trace -/

/-- **window = restriction of the sum**: the frequency window only selects which modes enter -/
theorem tdm_window_restrict (I : TDIn np nq K) (i : Fin np) (a b : Fin 3) :
    tdm I i a b = (∑ c ∈ (Finset.univ : Finset (Fin nq × Fin (np * 3))).filter (fun c => valid I.fmin I.fmax (I.f c.1 c.2) = true),
        I.q2 c.1 c.2 * ((I.e c.1 (row i a) c.2 * Cx.conj (I.e c.1 (row i b) c.2)).re / I.mass i)) / (nq : K) := by
  rw [tdm_eq, Finset.sum_filter, Fintype.sum_prod_type]

/-- adjacent windows add up (the windows are open: no sampled frequency may sit on the common edge) -/
theorem tdm_window_additive (I : TDIn np nq K) (fmid fmax : K) (hlo : I.fmin ≤ fmid) (hhi : fmid ≤ fmax)
    (hedge : ∀ q ν, I.f q ν ≠ fmid) (i : Fin np) (a b : Fin 3) :
    tdm { I with fmax := some fmax } i a b
      = tdm { I with fmax := some fmid } i a b + tdm { I with fmin := fmid, fmax := some fmax } i a b := by
  simp only [tdm_eq]
  rw [← add_div, ← Finset.sum_add_distrib]
  congr 1
  apply Finset.sum_congr rfl; intro q _
  rw [← Finset.sum_add_distrib]
  apply Finset.sum_congr rfl; intro ν _
  have hne := hedge q ν
  simp only [valid, Bool.and_eq_true, decide_eq_true_eq]
  by_cases h1 : I.f q ν < fmid
  · have h2 : I.f q ν < fmax := lt_of_lt_of_le h1 hhi
    have h3 : ¬ fmid < I.f q ν := not_lt.2 h1.le
    by_cases h0 : I.fmin < I.f q ν <;> simp [h0, h1, h2, h3]
  · have h3 : fmid < I.f q ν := lt_of_le_of_ne (not_lt.1 h1) (Ne.symm hne)
    have h0 : I.fmin < I.f q ν := lt_of_le_of_lt hlo h3
    by_cases h2 : I.f q ν < fmax <;> simp [h0, h1, h2, h3]

/-- **normalisation over the mesh**: if every q-point carries the same data the average is the single-point value -/
theorem tdm_normalisation (I : TDIn np nq K) (hnq : 0 < nq) (q0 : Fin nq)
    (hf : ∀ q ν, I.f q ν = I.f q0 ν) (he : ∀ q r ν, I.e q r ν = I.e q0 r ν) (hq : ∀ q ν, I.q2 q ν = I.q2 q0 ν)
    (i : Fin np) (a b : Fin 3) :
    tdm I i a b = ∑ ν, if valid I.fmin I.fmax (I.f q0 ν) = true then
        I.q2 q0 ν * ((I.e q0 (row i a) ν * Cx.conj (I.e q0 (row i b) ν)).re / I.mass i) else 0 := by
  rw [tdm_eq]
  simp only [hf, he, hq]
  rw [Finset.sum_const, Finset.card_univ, Fintype.card_fin, nsmul_eq_mul]
  have : (nq : K) ≠ 0 := Nat.cast_ne_zero.2 hnq.ne'
  field_simp

/-- **mass-weighted trace**: for normalised eigenvectors `Σ_i m_i tr U_i = (1/N_q) Σ_{sampled modes} Q2` -/
theorem msd_mass_trace (I : TDIn np nq K) (hm : ∀ i, I.mass i ≠ 0)
    (hnorm : ∀ q ν, (∑ r, ((I.e q r ν).re * (I.e q r ν).re + (I.e q r ν).im * (I.e q r ν).im)) = 1) :
    (∑ i, I.mass i * ∑ a, msd I i a)
      = (∑ q, ∑ ν, if valid I.fmin I.fmax (I.f q ν) = true then I.q2 q ν else 0) / (nq : K) := by
  let G : Fin (np * 3) → K := fun r => ∑ q, ∑ ν, if valid I.fmin I.fmax (I.f q ν) = true then
      I.q2 q ν * ((I.e q r ν).re * (I.e q r ν).re + (I.e q r ν).im * (I.e q r ν).im) else 0
  have h1 : ∀ i a, I.mass i * msd I i a = G (row i a) / (nq : K) := by
    intro i a
    unfold msd
    simp only [sumFin_eq, G]
    rw [← mul_div_assoc, Finset.mul_sum]
    congr 1
    apply Finset.sum_congr rfl; intro q _
    rw [Finset.mul_sum]
    apply Finset.sum_congr rfl; intro ν _
    have := hm i
    split
    · field_simp
    · simp
  simp only [Finset.mul_sum, h1]
  rw [sum_row (fun r => G r / (nq : K)), ← Finset.sum_div]
  congr 1
  simp only [G]
  rw [Finset.sum_comm]
  apply Finset.sum_congr rfl; intro q _
  rw [Finset.sum_comm]
  apply Finset.sum_congr rfl; intro ν _
  split
  · rw [← Finset.mul_sum, hnorm, mul_one]
  · simp

/-! ### the Bose factor and the guard temperature (finding F13) -/

/-- above the guard the code's `Q2` is the canonical `ħ(n + ½)/ω` -/
theorem q2_canonical_above_guard (unit w tguard T f n : K) (h : tguard < T) :
    q2 unit w tguard T f n = unit * ((n + 1 / 2) / (f * w)) := by
  unfold q2 population; rw [if_pos h]

/-- at or below the guard the occupation is dropped: `Q2` is the zero-point value whatever `n` -/
theorem q2_below_guard (unit w tguard T f n : K) (h : ¬ tguard < T) :
    q2 unit w tguard T f n = unit * ((1 / 2) / (f * w)) := by
  unfold q2 population; rw [if_neg h, zero_add]

/-- **F13**: with the guard `T > 1` of `/repo`, at `T = 1` and an occupation `n = 1` (hν ≈ 0.69 kT) the modelled
`Q2` is a third of the canonical one. -/
theorem population_dropped_witness :
    q2 (1 : ℚ) 1 1 1 1 1 ≠ (1 : ℚ) * ((1 + 1 / 2) / (1 * 1)) := by
  unfold q2 population; norm_num

/-- with guard `0` (the proposed repair) every positive temperature gets the canonical value -/
theorem q2_canonical_guard_zero (unit w T f n : K) (h : 0 < T) :
    q2 unit w 0 T f n = unit * ((n + 1 / 2) / (f * w)) := q2_canonical_above_guard unit w 0 T f n h

end thermal

section correlation
variable {K : Type} [Field K] {np ns nii nij nb : Nat}

theorem dmOf_eq (E : Fin nb → Fin nb → Cx K) (v : Fin nb → K) (r c : Fin nb) :
    dmOf E v r c = ∑ ν, (⟨v ν, 0⟩ : Cx K) * E r ν * Cx.conj (E c ν) := by
  simp only [dmOf, sumFin_eq, Cx.smul_eq_mul]

/-- spectral calculus at one commensurate point: for orthonormal eigenvectors,
`(E·diag(v)·E†)(E·diag(v')·E†) = E·diag(v·v')·E†`. -/
theorem dmOf_mul (E : Fin nb → Fin nb → Cx K) (v v' : Fin nb → K)
    (horth : ∀ ν ν', (∑ m, Cx.conj (E m ν) * E m ν') = if ν = ν' then 1 else 0) (r c : Fin nb) :
    (∑ m, dmOf E v r m * dmOf E v' m c) = dmOf E (fun ν => v ν * v' ν) r c := by
  simp only [dmOf_eq, Finset.sum_mul_sum]
  rw [Finset.sum_comm]
  have : ∀ ν, (∑ m, ∑ ν', (⟨v ν, 0⟩ : Cx K) * E r ν * Cx.conj (E m ν) * ((⟨v' ν', 0⟩ : Cx K) * E m ν' * Cx.conj (E c ν')))
      = (⟨v ν * v' ν, 0⟩ : Cx K) * E r ν * Cx.conj (E c ν) := by
    intro ν
    rw [Finset.sum_comm]
    have h2 : ∀ ν', (∑ m, (⟨v ν, 0⟩ : Cx K) * E r ν * Cx.conj (E m ν) * ((⟨v' ν', 0⟩ : Cx K) * E m ν' * Cx.conj (E c ν')))
        = (⟨v ν, 0⟩ : Cx K) * E r ν * (⟨v' ν', 0⟩ : Cx K) * Cx.conj (E c ν') * (if ν = ν' then 1 else 0) := by
      intro ν'
      rw [← horth ν ν', Finset.mul_sum]
      apply Finset.sum_congr rfl; intro m _; ring
    simp only [h2, mul_ite, mul_one, mul_zero, Finset.sum_ite_eq, Finset.mem_univ, if_true]
    have : (⟨v ν * v' ν, 0⟩ : Cx K) = ⟨v ν, 0⟩ * ⟨v' ν, 0⟩ := by apply Cx.ext' <;> simp
    rw [this]; ring
  simp only [this]

/-- masked inverse of the masked σ²: `a²·a2inv = 1` on the unmasked modes, `0` on the masked ones -/
theorem a2_mul_a2inv [LinearOrder K] (cutoff f sraw : K) (h : cutoff < f → sraw ≠ 0) :
    (maskSigma cutoff f sraw * maskSigma cutoff f sraw) * a2inv cutoff f (maskSigma cutoff f sraw)
      = if cutoff < f then 1 else 0 := by
  unfold maskSigma a2inv
  by_cases hc : cutoff < f
  · simp only [if_pos hc]; have := h hc; field_simp
  · simp only [if_neg hc]; ring

/-- **`uu_inv_is_inverse_partial`**: at every commensurate point the matrix handed to d2f for `uu_inv`
is the inverse of the one handed over for `uu` on the span of the unmasked modes:
`(E σ² E†)(E σ⁻² E†) = E·1_{unmasked}·E†` (the spectral projector).  The supercell statement is `uu_inv_is_inverse` below. -/
theorem uu_inv_is_inverse_partial [LinearOrder K] (E : Fin nb → Fin nb → Cx K)
    (horth : ∀ ν ν', (∑ m, Cx.conj (E m ν) * E m ν') = if ν = ν' then 1 else 0)
    (cutoff : K) (f sraw : Fin nb → K) (hs : ∀ ν, cutoff < f ν → sraw ν ≠ 0) (r c : Fin nb) :
    (∑ m, dmOf E (fun ν => maskSigma cutoff (f ν) (sraw ν) * maskSigma cutoff (f ν) (sraw ν)) r m
        * dmOf E (fun ν => a2inv cutoff (f ν) (maskSigma cutoff (f ν) (sraw ν))) m c)
      = dmOf E (fun ν => if cutoff < f ν then 1 else 0) r c := by
  rw [dmOf_mul E _ _ horth]
  congr 1
  funext ν
  exact a2_mul_a2inv cutoff (f ν) (sraw ν) (hs ν)

/-! ### `run_d2f` on unmodified eigen-solutions: rebuilt matrices -/

/-- conjugated eigenvectors rebuild the conjugated matrix (the `−q` copies of `_collect_eigensolutions`) -/
theorem dmOf_conj (E : Fin nb → Fin nb → Cx K) (v : Fin nb → K) (r c : Fin nb) :
    dmOf (conjE E) v r c = Cx.conj (dmOf E v r c) := by
  simp only [dmOf_eq, conjE, Cx.conj_sum]
  apply Finset.sum_congr rfl; intro ν _
  rw [Cx.conj_mul, Cx.conj_mul, Cx.conj_conj]
  congr 2
  apply Cx.ext' <;> simp

/-- D-type → C-type: `Σ λ (Vd e)(Vd e)† = Vd_r·conj(Vd_c)·(Σ λ e eᵀ)` -/
theorem dmOf_eC (vd : Fin np → Cx K) (e : Fin (np * 3) → Fin (np * 3) → K) (v : Fin (np * 3) → K) (r c : Fin (np * 3)) :
    dmOf (eC vd e) v r c = vd ⟨r.1 / 3, by have := r.2; omega⟩ * Cx.conj (vd ⟨c.1 / 3, by have := c.2; omega⟩)
      * Cx.ofRe (∑ ν, v ν * e r ν * e c ν) := by
  simp only [dmOf_eq, eC]
  have : (Cx.ofRe (∑ ν, v ν * e r ν * e c ν) : Cx K) = ∑ ν, (⟨v ν * e r ν * e c ν, 0⟩ : Cx K) := by
    apply Cx.ext'
    · simp [Cx.sum_re]
    · simp [Cx.sum_im]
  rw [this, Finset.mul_sum]
  apply Finset.sum_congr rfl; intro ν _
  apply Cx.ext' <;> simp <;> ring

/-! ### `uu` is the sampler's covariance -/

theorem row_div (i : Fin np) (l : Fin 3) : (⟨(row i l).1 / 3, by have := (row i l).2; omega⟩ : Fin np) = i := by
  apply Fin.ext
  simp only [row]
  have := l.2
  omega

/-- **`uu_eq_cov`**: the correlation matrix `run_correlation_matrix` builds through `DynmatToForceConstants`
(rows of primitive atoms) equals `A·Aᵀ` of the sampler, given that both are fed the same eigen-solutions and that the
d2f phase factors are those of the sampler (`exp(−2πi q·(x_j − x_i))` = `phase_i·conj(phase_j)`; for `q = −q` the
D-type/C-type change `Vd` and the real phases `cos`), and `sqrt(m_i m_j)/(N m_i m_j) = 1/(rm_i rm_j)`. -/
theorem uu_eq_cov (I : RDIn np ns nii nij K) (J : D2FIn np ns nii nij K) (p2s : Fin np → Fin ns)
    (hr2 : I.r2 * I.r2 = 2)
    (hs2pp : J.s2pp = I.s2pp) (hp2s : ∀ i, I.s2pp (p2s i) = i) (heii : J.eii = I.eii) (heij : J.eij = I.eij)
    (hpii : ∀ q i j, J.vd q i * Cx.conj (J.vd q (I.s2pp j)) * J.pii q j i = Cx.ofRe (I.cosii q (p2s i) * I.cosii q j))
    (hpij : ∀ q i j, J.pij q j i = I.phij q (p2s i) * Cx.conj (I.phij q j))
    (hpnij : ∀ q i j, J.pnij q j i = Cx.conj (J.pij q j i))
    (hmass : ∀ i j, J.ms i (I.s2pp j) / ((nii + 2 * nij : Nat) : K) / (J.pmass i * J.smass j) = 1 / (I.rm (p2s i) * I.rm j))
    (i : Fin np) (j : Fin ns) (l m : Fin 3) :
    uuRow J I.sigii I.sigij i j l m = cov I (p2s i) l j m := by
  unfold uuRow d2fRow
  rw [hs2pp, heii, heij]
  have hk : ∀ S : K, S * (J.ms i (I.s2pp j) / ((nii + 2 * nij : Nat) : K)) / (J.pmass i * J.smass j)
      = S * (1 / (I.rm (p2s i) * I.rm j)) := by
    intro S; rw [← hmass i j]; ring
  rw [hk]
  unfold cov
  simp only [sumFin_eq]
  rw [add_mul, add_mul, Finset.sum_mul, Finset.sum_mul, Finset.sum_mul, add_assoc, ← Finset.sum_add_distrib]
  congr 1
  · apply Finset.sum_congr rfl; intro q _
    unfold d2fEntry
    rw [dmOf_eC, row_div, row_div]
    have h := hpii q i j
    have e1 : J.vd q i * Cx.conj (J.vd q (I.s2pp j))
          * Cx.ofRe (∑ ν, I.sigii q ν * I.sigii q ν * I.eii q (row i l) ν * I.eii q (row (I.s2pp j) m) ν) * J.pii q j i
        = Cx.ofRe (I.cosii q (p2s i) * I.cosii q j)
          * Cx.ofRe (∑ ν, I.sigii q ν * I.sigii q ν * I.eii q (row i l) ν * I.eii q (row (I.s2pp j) m) ν) := by
      rw [← h]; ring
    rw [e1]
    simp only [Cx.mul_re, Cx.ofRe_re, Cx.ofRe_im, mul_zero, sub_zero]
    rw [Finset.mul_sum, Finset.sum_mul]
    apply Finset.sum_congr rfl; intro ν _
    unfold Aii
    rw [hp2s]; ring
  · apply Finset.sum_congr rfl; intro q _
    unfold d2fEntry
    rw [dmOf_conj, hpnij, ← Cx.conj_mul]
    simp only [Cx.conj_re]
    rw [← two_mul, dmOf_eq, hpij, Finset.sum_mul, Cx.sum_re, Finset.sum_mul, Finset.mul_sum]
    apply Finset.sum_congr rfl; intro ν _
    rw [pair_variance I hr2]
    unfold wij
    rw [hp2s]
    simp only [Cx.add_re, Cx.mul_re, Cx.mul_im, Cx.conj_re, Cx.conj_im]
    ring

/-- inverse lattice Fourier transform of the forward transform, over any finite set `P` of points:
given character orthogonality of the phase table, `d2f(fwd(Φ)) = Φ`. -/
theorem d2f_fwd {P : Type} [Fintype P] (s2pp : Fin ns → Fin np) (fc : Fin np → Fin ns → Fin 3 → Fin 3 → K)
    (ms : Fin np → Fin np → K) (pd : P → Fin ns → Fin np → Cx K)
    (DM : P → Fin (np * 3) → Fin (np * 3) → Cx K) (N : K)
    (hDM : ∀ k i p l m, DM k (row i l) (row p m)
        = ∑ j', if s2pp j' = p then Cx.smul (fc i j' l m / ms i p) (Cx.conj (pd k j' i)) else 0)
    (horth : ∀ i j j', s2pp j' = s2pp j → (∑ k, Cx.conj (pd k j' i) * pd k j i) = if j' = j then (⟨N, 0⟩ : Cx K) else 0)
    (hms : ∀ i p, ms i p ≠ 0) (hN : N ≠ 0) (i : Fin np) (j : Fin ns) (l m : Fin 3) :
    (∑ k, d2fEntry s2pp (DM k) (pd k) i j l m) * (ms i (s2pp j) / N) = fc i j l m := by
  have this : ∀ j', (∑ k, ((if s2pp j' = s2pp j then Cx.smul (fc i j' l m / ms i (s2pp j)) (Cx.conj (pd k j' i)) else 0) * pd k j i).re)
      = if j' = j then fc i j' l m / ms i (s2pp j) * N else 0 := by
    intro j'
    by_cases h : s2pp j' = s2pp j
    · simp only [if_pos h, Cx.smul_eq_mul]
      have := congrArg Cx.re (horth i j j' h)
      rw [Cx.sum_re] at this
      rw [← Cx.sum_re]
      have h3 : (∑ k, (⟨fc i j' l m / ms i (s2pp j), 0⟩ : Cx K) * Cx.conj (pd k j' i) * pd k j i)
          = ⟨fc i j' l m / ms i (s2pp j), 0⟩ * ∑ k, Cx.conj (pd k j' i) * pd k j i := by
        rw [Finset.mul_sum]; apply Finset.sum_congr rfl; intro k _; ring
      rw [h3, horth i j j' h]
      by_cases hj : j' = j
      · simp [hj]
      · simp [hj]
    · have hj : j' ≠ j := fun hj => h (by rw [hj])
      simp [h, hj]
  have key : (∑ k, d2fEntry s2pp (DM k) (pd k) i j l m) = fc i j l m / ms i (s2pp j) * N := by
    unfold d2fEntry
    simp only [hDM, Finset.sum_mul, Cx.sum_re]
    rw [Finset.sum_comm]
    simp only [this, Finset.sum_ite_eq', Finset.mem_univ, if_true]
  rw [key]
  have := hms i (s2pp j)
  field_simp

/-- **`d2f_identity`**: `run_d2f` on unmodified eigen-solutions returns the original force constants (rows of
primitive atoms).  Hypotheses: `eigh` is exact at every collected point (`recon`: the rebuilt matrices are the
dynamical matrices, which by `dmOf_eC`/`dmOf_conj` amounts to `E Λ E† = D`, reality of the D-type matrix at `q = −q`
and `D(−q) = conj D(q)`), the dynamical matrices are the lattice Fourier sums of the force constants in the phase
convention of d2f (`hDM`), and character orthogonality of the commensurate points (`horth`; C06). -/
theorem d2f_identity (J : D2FIn np ns nii nij K) (lii : Fin nii → Fin (np * 3) → K) (lij : Fin nij → Fin (np * 3) → K)
    (fc : Fin np → Fin ns → Fin 3 → Fin 3 → K)
    (DM : Fin nii ⊕ (Fin nij ⊕ Fin nij) → Fin (np * 3) → Fin (np * 3) → Cx K)
    (recon_ii : ∀ q, dmOf (eC (J.vd q) (J.eii q)) (lii q) = DM (.inl q))
    (recon_ij : ∀ q, dmOf (J.eij q) (lij q) = DM (.inr (.inl q)))
    (recon_nij : ∀ q, dmOf (conjE (J.eij q)) (lij q) = DM (.inr (.inr q)))
    (hDM : ∀ k i p l m, DM k (row i l) (row p m)
        = ∑ j', if J.s2pp j' = p then Cx.smul (fc i j' l m / J.ms i p)
            (Cx.conj (Sum.elim (J.pii) (Sum.elim J.pij J.pnij) k j' i)) else 0)
    (horth : ∀ i j j', J.s2pp j' = J.s2pp j →
        (∑ k, Cx.conj (Sum.elim (J.pii) (Sum.elim J.pij J.pnij) k j' i) * Sum.elim (J.pii) (Sum.elim J.pij J.pnij) k j i)
          = if j' = j then (⟨((nii + 2 * nij : Nat) : K), 0⟩ : Cx K) else 0)
    (hms : ∀ i p, J.ms i p ≠ 0) (hN : ((nii + 2 * nij : Nat) : K) ≠ 0) (i : Fin np) (j : Fin ns) (l m : Fin 3) :
    d2fRow J lii lij i j l m = fc i j l m := by
  rw [← d2f_fwd J.s2pp fc J.ms (Sum.elim (J.pii) (Sum.elim J.pij J.pnij)) DM _ hDM horth hms hN i j l m]
  unfold d2fRow
  simp only [sumFin_eq, recon_ii, recon_ij, recon_nij, Fintype.sum_sum_type, Sum.elim_inl, Sum.elim_inr, add_assoc]

end correlation

section supercell
variable {K : Type} [Field K] {np ns nii nij : Nat}

/-- index of a commensurate point: self-conjugate, pair representative, partner -/
abbrev Pt (nii nij : Nat) := Fin nii ⊕ (Fin nij ⊕ Fin nij)

def ExOf (I : RDIn np ns nii nij K) : Pt nii nij → Fin (np * 3) → Fin (np * 3) → Cx K
  | .inl q, r, ν => Cx.ofRe (I.eii q r ν)
  | .inr (.inl q), r, ν => I.eij q r ν
  | .inr (.inr q), r, ν => Cx.conj (I.eij q r ν)

def phOf (I : RDIn np ns nii nij K) : Pt nii nij → Fin ns → Cx K
  | .inl q, κ => Cx.ofRe (I.cosii q κ)
  | .inr (.inl q), κ => I.phij q κ
  | .inr (.inr q), κ => Cx.conj (I.phij q κ)

theorem WcOf_eq (I : RDIn np ns nii nij K) (x : Pt nii nij) (ν : Fin (np * 3)) (κ : Fin ns) (a : Fin 3) :
    WcOf I x ν κ a = ExOf I x (row (I.s2pp κ) a) ν * phOf I x κ := by
  rcases x with q | q | q
  · simp only [WcOf, ExOf, phOf, Cx.ofRe_mul]
  · rfl
  · simp only [WcOf, ExOf, phOf, wij, Cx.conj_mul]

/-- certificate on the eigen-solutions and the phase tables: orthonormal eigenvectors at every sampled point, and
character orthogonality of the phase factors over each sublattice of the supercell (`N` cells) for all commensurate points -/
structure ModesOrthonormal (I : RDIn np ns nii nij K) : Prop where
  eii : ∀ q ν ν', (∑ r, I.eii q r ν * I.eii q r ν') = if ν = ν' then 1 else 0
  eij : ∀ q ν ν', (∑ r, Cx.conj (I.eij q r ν) * I.eij q r ν') = if ν = ν' then 1 else 0
  char : ∀ p x y, (∑ κ, if I.s2pp κ = p then Cx.conj (phOf I x κ) * phOf I y κ else 0)
      = if x = y then (⟨((nii + 2 * nij : Nat) : K), 0⟩ : Cx K) else 0

theorem ExOf_orth (I : RDIn np ns nii nij K) (h : ModesOrthonormal I) (x : Pt nii nij) (ν ν' : Fin (np * 3)) :
    (∑ r, Cx.conj (ExOf I x r ν) * ExOf I x r ν') = if ν = ν' then 1 else 0 := by
  rcases x with q | q | q
  · simp only [ExOf]
    have := h.eii q ν ν'
    have e : (∑ r, Cx.conj (Cx.ofRe (I.eii q r ν)) * Cx.ofRe (I.eii q r ν')) = Cx.ofRe (∑ r, I.eii q r ν * I.eii q r ν') := by
      rw [Cx.ofRe_sum]; apply Finset.sum_congr rfl; intro r _; apply Cx.ext' <;> simp
    rw [e, this]; split <;> rfl
  · exact h.eij q ν ν'
  · simp only [ExOf, Cx.conj_conj]
    have := congrArg Cx.conj (h.eij q ν ν')
    rw [Cx.conj_sum] at this
    have e : (∑ r, I.eij q r ν * Cx.conj (I.eij q r ν')) = ∑ r, Cx.conj (Cx.conj (I.eij q r ν) * I.eij q r ν') := by
      apply Finset.sum_congr rfl; intro r _; rw [Cx.conj_mul, Cx.conj_conj]
    rw [e, this]
    split
    · apply Cx.ext' <;> simp
    · exact Cx.conj_zero

/-- **orthogonality of the displacement patterns of all commensurate points over the supercell** -/
theorem W_orth (I : RDIn np ns nii nij K) (h : ModesOrthonormal I) (x y : Pt nii nij) (ν ν' : Fin (np * 3)) :
    (∑ κ, ∑ a, Cx.conj (WcOf I x ν κ a) * WcOf I y ν' κ a)
      = if x = y ∧ ν = ν' then (⟨((nii + 2 * nij : Nat) : K), 0⟩ : Cx K) else 0 := by
  simp only [WcOf_eq]
  let F : Fin np → Fin ns → Cx K := fun p κ =>
    (∑ a, Cx.conj (ExOf I x (row p a) ν) * ExOf I y (row p a) ν') * (Cx.conj (phOf I x κ) * phOf I y κ)
  have h1 : (∑ κ, ∑ a, Cx.conj (ExOf I x (row (I.s2pp κ) a) ν * phOf I x κ) * (ExOf I y (row (I.s2pp κ) a) ν' * phOf I y κ))
      = ∑ κ, F (I.s2pp κ) κ := by
    apply Finset.sum_congr rfl; intro κ _
    simp only [F, Finset.sum_mul]
    apply Finset.sum_congr rfl; intro a _
    rw [Cx.conj_mul]; ring
  rw [h1, sum_by_sublattice I.s2pp F]
  simp only [F]
  have h2 : ∀ p, (∑ κ, if I.s2pp κ = p then (∑ a, Cx.conj (ExOf I x (row p a) ν) * ExOf I y (row p a) ν') * (Cx.conj (phOf I x κ) * phOf I y κ) else 0)
      = (∑ a, Cx.conj (ExOf I x (row p a) ν) * ExOf I y (row p a) ν') * (if x = y then (⟨((nii + 2 * nij : Nat) : K), 0⟩ : Cx K) else 0) := by
    intro p
    rw [← h.char p x y, Finset.mul_sum]
    apply Finset.sum_congr rfl; intro κ _
    split <;> simp
  simp only [h2]
  by_cases hxy : x = y
  · subst hxy
    simp only [if_true, true_and, ← Finset.sum_mul]
    rw [sum_row (fun r => Cx.conj (ExOf I x r ν) * ExOf I x r ν'), ExOf_orth I h]
    split <;> simp
  · simp [hxy]

/-- the un-normalised spectral sum over the real normal modes of the supercell with weights `(wii, wij)` -/
def modeSum (I : RDIn np ns nii nij K) (gii : Fin nii → Fin (np * 3) → K) (gij : Fin nij → Fin (np * 3) → K)
    (κ : Fin ns) (a : Fin 3) (κ' : Fin ns) (b : Fin 3) : K :=
  (∑ q, ∑ ν, gii q ν * (I.eii q (row (I.s2pp κ) a) ν * I.cosii q κ) * (I.eii q (row (I.s2pp κ') b) ν * I.cosii q κ'))
  + (∑ q, ∑ ν, gij q ν * (wij I q ν κ a * Cx.conj (wij I q ν κ' b) + Cx.conj (wij I q ν κ a) * wij I q ν κ' b).re)

/-- weights on all commensurate points: a conjugate pair shares its weight -/
def wOf (wii : Fin nii → Fin (np * 3) → K) (wij : Fin nij → Fin (np * 3) → K) : Pt nii nij × Fin (np * 3) → K
  | (.inl q, ν) => wii q ν
  | (.inr (.inl q), ν) => wij q ν
  | (.inr (.inr q), ν) => wij q ν

/-- the patterns as a family of vectors over (atom, direction) -/
def psi (I : RDIn np ns nii nij K) : Pt nii nij × Fin (np * 3) → Fin ns × Fin 3 → Cx K :=
  fun c r => WcOf I c.1 c.2 r.1 r.2

theorem psi_orth (I : RDIn np ns nii nij K) (h : ModesOrthonormal I) (c c' : Pt nii nij × Fin (np * 3)) :
    (∑ r, Cx.conj (psi I c r) * psi I c' r) = if c = c' then (⟨((nii + 2 * nij : Nat) : K), 0⟩ : Cx K) else 0 := by
  rw [Fintype.sum_prod_type]
  simp only [psi]
  rw [W_orth I h]
  have : (c = c') ↔ (c.1 = c'.1 ∧ c.2 = c'.2) := Prod.ext_iff
  simp only [this]

theorem specM_modes (I : RDIn np ns nii nij K) (N : K) (gii : Fin nii → Fin (np * 3) → K) (gij : Fin nij → Fin (np * 3) → K)
    (κ : Fin ns) (a : Fin 3) (κ' : Fin ns) (b : Fin 3) :
    specM (psi I) N (wOf gii gij) (κ, a) (κ', b) = Cx.ofRe (modeSum I gii gij κ a κ' b / N) := by
  unfold specM modeSum
  rw [Fintype.sum_prod_type, Fintype.sum_sum_type, Fintype.sum_sum_type]
  simp only [psi, wOf, WcOf]
  rw [add_div, Cx.ofRe_add, Finset.sum_div, Finset.sum_div, Cx.ofRe_sum, Cx.ofRe_sum, ← Finset.sum_add_distrib]
  congr 1
  · apply Finset.sum_congr rfl; intro q _
    rw [Finset.sum_div, Cx.ofRe_sum]
    apply Finset.sum_congr rfl; intro ν _
    apply Cx.ext' <;> simp <;> ring
  · apply Finset.sum_congr rfl; intro q _
    rw [Finset.sum_div, Cx.ofRe_sum, ← Finset.sum_add_distrib]
    apply Finset.sum_congr rfl; intro ν _
    apply Cx.ext' <;> simp <;> ring

/-- the sampler's covariance in spectral form -/
theorem cov_spectral (I : RDIn np ns nii nij K) (hr2 : I.r2 * I.r2 = 2) (κ κ' : Fin ns) (a b : Fin 3) :
    cov I κ a κ' b = modeSum I (fun q ν => I.sigii q ν * I.sigii q ν) (fun q ν => I.sigij q ν * I.sigij q ν) κ a κ' b
      / (I.rm κ * I.rm κ') := by
  unfold cov modeSum
  simp only [sumFin_eq]
  rw [add_div, Finset.sum_div, Finset.sum_div]
  congr 1
  · apply Finset.sum_congr rfl; intro q _
    rw [Finset.sum_div]
    apply Finset.sum_congr rfl; intro ν _
    unfold Aii; ring
  · apply Finset.sum_congr rfl; intro q _
    rw [Finset.sum_div]
    apply Finset.sum_congr rfl; intro ν _
    rw [pair_variance I hr2]

theorem covInv_spectral (I : RDIn np ns nii nij K) (gii : Fin nii → Fin (np * 3) → K) (gij : Fin nij → Fin (np * 3) → K)
    (κ κ' : Fin ns) (a b : Fin 3) :
    covInv I gii gij κ a κ' b = modeSum I gii gij κ a κ' b * (I.rm κ * I.rm κ')
      / (((nii + 2 * nij : Nat) : K) * ((nii + 2 * nij : Nat) : K)) := by
  unfold covInv modeSum
  simp only [sumFin_eq]

theorem wOf_mul (u v : Fin nii → Fin (np * 3) → K) (u' v' : Fin nij → Fin (np * 3) → K) :
    (fun c => wOf u u' c * wOf v v' c) = wOf (fun q ν => u q ν * v q ν) (fun q ν => u' q ν * v' q ν) := by
  funext c
  rcases c with ⟨q | q | q, ν⟩ <;> rfl

/-- product of three spectral sums over the supercell -/
theorem modeSum_triple (I : RDIn np ns nii nij K) (h : ModesOrthonormal I) (hN : ((nii + 2 * nij : Nat) : K) ≠ 0)
    (u v w : Fin nii → Fin (np * 3) → K) (u' v' w' : Fin nij → Fin (np * 3) → K) (κ κ' : Fin ns) (a b : Fin 3) :
    (∑ r1 : Fin ns × Fin 3, ∑ r2 : Fin ns × Fin 3,
        modeSum I u u' κ a r1.1 r1.2 * modeSum I v v' r1.1 r1.2 r2.1 r2.2 * modeSum I w w' r2.1 r2.2 κ' b)
      = ((nii + 2 * nij : Nat) : K) * ((nii + 2 * nij : Nat) : K)
        * modeSum I (fun q ν => u q ν * v q ν * w q ν) (fun q ν => u' q ν * v' q ν * w' q ν) κ a κ' b := by
  set N : K := ((nii + 2 * nij : Nat) : K) with hNdef
  have ho := psi_orth I h
  have e1 : ∀ r1 : Fin ns × Fin 3, (∑ r2 : Fin ns × Fin 3, specM (psi I) N (wOf v v') r1 r2 * specM (psi I) N (wOf w w') r2 (κ', b))
      = specM (psi I) N (wOf (fun q ν => v q ν * w q ν) (fun q ν => v' q ν * w' q ν)) r1 (κ', b) := by
    intro r1; rw [specM_mul (psi I) N hN ho, wOf_mul]
  have e2 : (∑ r1 : Fin ns × Fin 3, specM (psi I) N (wOf u u') (κ, a) r1
        * specM (psi I) N (wOf (fun q ν => v q ν * w q ν) (fun q ν => v' q ν * w' q ν)) r1 (κ', b))
      = specM (psi I) N (wOf (fun q ν => u q ν * (v q ν * w q ν)) (fun q ν => u' q ν * (v' q ν * w' q ν))) (κ, a) (κ', b) := by
    rw [specM_mul (psi I) N hN ho, wOf_mul]
  have e3 : (∑ r1 : Fin ns × Fin 3, ∑ r2 : Fin ns × Fin 3,
        specM (psi I) N (wOf u u') (κ, a) r1 * (specM (psi I) N (wOf v v') r1 r2 * specM (psi I) N (wOf w w') r2 (κ', b)))
      = specM (psi I) N (wOf (fun q ν => u q ν * (v q ν * w q ν)) (fun q ν => u' q ν * (v' q ν * w' q ν))) (κ, a) (κ', b) := by
    rw [← e2]
    apply Finset.sum_congr rfl; intro r1 _
    rw [← Finset.mul_sum, e1]
  have e4 : ∀ r1 r2 : Fin ns × Fin 3, specM (psi I) N (wOf u u') (κ, a) r1 * (specM (psi I) N (wOf v v') r1 r2 * specM (psi I) N (wOf w w') r2 (κ', b))
      = Cx.ofRe (modeSum I u u' κ a r1.1 r1.2 * modeSum I v v' r1.1 r1.2 r2.1 r2.2 * modeSum I w w' r2.1 r2.2 κ' b / (N * N * N)) := by
    intro r1 r2
    rw [show r1 = (r1.1, r1.2) from rfl, show r2 = (r2.1, r2.2) from rfl, specM_modes, specM_modes, specM_modes,
      ← Cx.ofRe_mul, ← Cx.ofRe_mul]
    congr 1; field_simp
  simp only [e4] at e3
  rw [specM_modes] at e3
  simp only [← Cx.ofRe_sum] at e3
  have e5 := Cx.ofRe_inj e3
  simp only [← Finset.sum_div] at e5
  have hm : ∀ q ν, u q ν * (v q ν * w q ν) = u q ν * v q ν * w q ν := fun q ν => (mul_assoc _ _ _).symm
  have hm' : ∀ q ν, u' q ν * (v' q ν * w' q ν) = u' q ν * v' q ν * w' q ν := fun q ν => (mul_assoc _ _ _).symm
  simp only [hm, hm'] at e5
  field_simp at e5
  linear_combination e5

/-- mask algebra: with `a = maskSigma` and `g = a2inv`, `a²·g·a² = a²` and `g·a²·g = g` -/
theorem mask_algebra [LinearOrder K] (cutoff f sraw : K) (h : cutoff < f → sraw ≠ 0) :
    let a := maskSigma cutoff f sraw
    let g := a2inv cutoff f a
    a * a * g * (a * a) = a * a ∧ g * (a * a) * g = g := by
  intro a g
  simp only [a, g]
  unfold maskSigma a2inv
  by_cases hc : cutoff < f
  · simp only [if_pos hc]; have := h hc; constructor <;> field_simp
  · simp only [if_neg hc]; constructor <;> ring

/-- **`uu_inv_is_inverse`** (supercell level): with `U = cov` (= `uu`) and `V = covInv` (= `uu_inv`), `U·V·U = U`. -/
theorem uu_inv_is_inverse (I : RDIn np ns nii nij K) (hr2 : I.r2 * I.r2 = 2) (h : ModesOrthonormal I)
    (hN : ((nii + 2 * nij : Nat) : K) ≠ 0) (hrm : ∀ κ, I.rm κ ≠ 0)
    (gii : Fin nii → Fin (np * 3) → K) (gij : Fin nij → Fin (np * 3) → K)
    (hgii : ∀ q ν, I.sigii q ν * I.sigii q ν * gii q ν * (I.sigii q ν * I.sigii q ν) = I.sigii q ν * I.sigii q ν)
    (hgij : ∀ q ν, I.sigij q ν * I.sigij q ν * gij q ν * (I.sigij q ν * I.sigij q ν) = I.sigij q ν * I.sigij q ν)
    (κ κ' : Fin ns) (a b : Fin 3) :
    (∑ r1 : Fin ns × Fin 3, ∑ r2 : Fin ns × Fin 3,
        cov I κ a r1.1 r1.2 * covInv I gii gij r1.1 r1.2 r2.1 r2.2 * cov I r2.1 r2.2 κ' b) = cov I κ a κ' b := by
  have ht := modeSum_triple I h hN (fun q ν => I.sigii q ν * I.sigii q ν) gii (fun q ν => I.sigii q ν * I.sigii q ν)
    (fun q ν => I.sigij q ν * I.sigij q ν) gij (fun q ν => I.sigij q ν * I.sigij q ν) κ κ' a b
  simp only [hgii, hgij] at ht
  simp only [cov_spectral I hr2, covInv_spectral]
  have e : ∀ r1 r2 : Fin ns × Fin 3,
      modeSum I (fun q ν => I.sigii q ν * I.sigii q ν) (fun q ν => I.sigij q ν * I.sigij q ν) κ a r1.1 r1.2 / (I.rm κ * I.rm r1.1)
        * (modeSum I gii gij r1.1 r1.2 r2.1 r2.2 * (I.rm r1.1 * I.rm r2.1) / (((nii + 2 * nij : Nat) : K) * ((nii + 2 * nij : Nat) : K)))
        * (modeSum I (fun q ν => I.sigii q ν * I.sigii q ν) (fun q ν => I.sigij q ν * I.sigij q ν) r2.1 r2.2 κ' b / (I.rm r2.1 * I.rm κ'))
      = modeSum I (fun q ν => I.sigii q ν * I.sigii q ν) (fun q ν => I.sigij q ν * I.sigij q ν) κ a r1.1 r1.2
          * modeSum I gii gij r1.1 r1.2 r2.1 r2.2
          * modeSum I (fun q ν => I.sigii q ν * I.sigii q ν) (fun q ν => I.sigij q ν * I.sigij q ν) r2.1 r2.2 κ' b
          / (((nii + 2 * nij : Nat) : K) * ((nii + 2 * nij : Nat) : K) * (I.rm κ * I.rm κ')) := by
    intro r1 r2
    have h1 := hrm r1.1; have h2 := hrm r2.1; have h3 := hrm κ; have h4 := hrm κ'
    field_simp
  simp only [e, ← Finset.sum_div]
  rw [ht]
  have h3 := hrm κ; have h4 := hrm κ'
  field_simp

/-- … and `V·U·V = V`. -/
theorem uu_inv_is_inverse_vuv (I : RDIn np ns nii nij K) (hr2 : I.r2 * I.r2 = 2) (h : ModesOrthonormal I)
    (hN : ((nii + 2 * nij : Nat) : K) ≠ 0) (hrm : ∀ κ, I.rm κ ≠ 0)
    (gii : Fin nii → Fin (np * 3) → K) (gij : Fin nij → Fin (np * 3) → K)
    (hgii : ∀ q ν, gii q ν * (I.sigii q ν * I.sigii q ν) * gii q ν = gii q ν)
    (hgij : ∀ q ν, gij q ν * (I.sigij q ν * I.sigij q ν) * gij q ν = gij q ν)
    (κ κ' : Fin ns) (a b : Fin 3) :
    (∑ r1 : Fin ns × Fin 3, ∑ r2 : Fin ns × Fin 3,
        covInv I gii gij κ a r1.1 r1.2 * cov I r1.1 r1.2 r2.1 r2.2 * covInv I gii gij r2.1 r2.2 κ' b)
      = covInv I gii gij κ a κ' b := by
  have ht := modeSum_triple I h hN gii (fun q ν => I.sigii q ν * I.sigii q ν) gii
    gij (fun q ν => I.sigij q ν * I.sigij q ν) gij κ κ' a b
  simp only [hgii, hgij] at ht
  simp only [cov_spectral I hr2, covInv_spectral]
  have e : ∀ r1 r2 : Fin ns × Fin 3,
      modeSum I gii gij κ a r1.1 r1.2 * (I.rm κ * I.rm r1.1) / (((nii + 2 * nij : Nat) : K) * ((nii + 2 * nij : Nat) : K))
        * (modeSum I (fun q ν => I.sigii q ν * I.sigii q ν) (fun q ν => I.sigij q ν * I.sigij q ν) r1.1 r1.2 r2.1 r2.2 / (I.rm r1.1 * I.rm r2.1))
        * (modeSum I gii gij r2.1 r2.2 κ' b * (I.rm r2.1 * I.rm κ') / (((nii + 2 * nij : Nat) : K) * ((nii + 2 * nij : Nat) : K)))
      = modeSum I gii gij κ a r1.1 r1.2
          * modeSum I (fun q ν => I.sigii q ν * I.sigii q ν) (fun q ν => I.sigij q ν * I.sigij q ν) r1.1 r1.2 r2.1 r2.2
          * modeSum I gii gij r2.1 r2.2 κ' b
          * (I.rm κ * I.rm κ') / (((nii + 2 * nij : Nat) : K) * ((nii + 2 * nij : Nat) : K) * (((nii + 2 * nij : Nat) : K) * ((nii + 2 * nij : Nat) : K))) := by
    intro r1 r2
    have h1 := hrm r1.1; have h2 := hrm r2.1
    field_simp
  simp only [e, ← Finset.sum_div, ← Finset.sum_mul]
  rw [ht]
  field_simp

theorem covInv_symm (I : RDIn np ns nii nij K) (gii : Fin nii → Fin (np * 3) → K) (gij : Fin nij → Fin (np * 3) → K)
    (κ κ' : Fin ns) (a b : Fin 3) : covInv I gii gij κ a κ' b = covInv I gii gij κ' b κ a := by
  rw [covInv_spectral, covInv_spectral]
  unfold modeSum
  have : ∀ q ν, (wij I q ν κ a * Cx.conj (wij I q ν κ' b) + Cx.conj (wij I q ν κ a) * wij I q ν κ' b).re
      = (wij I q ν κ' b * Cx.conj (wij I q ν κ a) + Cx.conj (wij I q ν κ' b) * wij I q ν κ a).re := by
    intro q ν; simp only [Cx.add_re, Cx.mul_re, Cx.conj_re, Cx.conj_im]; ring
  simp only [this]
  congr 2
  · congr 1
    · apply Finset.sum_congr rfl; intro q _; apply Finset.sum_congr rfl; intro ν _; ring
  · ring

/-- rows of primitive atoms produced by d2f, for arbitrary per-mode weights, in spectral form -/
theorem d2fRow_spectral (I : RDIn np ns nii nij K) (J : D2FIn np ns nii nij K) (p2s : Fin np → Fin ns)
    (hs2pp : J.s2pp = I.s2pp) (hp2s : ∀ i, I.s2pp (p2s i) = i) (heii : J.eii = I.eii) (heij : J.eij = I.eij)
    (hpii : ∀ q i j, J.vd q i * Cx.conj (J.vd q (I.s2pp j)) * J.pii q j i = Cx.ofRe (I.cosii q (p2s i) * I.cosii q j))
    (hpij : ∀ q i j, J.pij q j i = I.phij q (p2s i) * Cx.conj (I.phij q j))
    (hpnij : ∀ q i j, J.pnij q j i = Cx.conj (J.pij q j i))
    (vii : Fin nii → Fin (np * 3) → K) (vij : Fin nij → Fin (np * 3) → K)
    (i : Fin np) (j : Fin ns) (l m : Fin 3) :
    d2fRow J vii vij i j l m
      = modeSum I vii vij (p2s i) l j m * (J.ms i (I.s2pp j) / ((nii + 2 * nij : Nat) : K)) := by
  unfold d2fRow modeSum
  rw [hs2pp, heii, heij]
  simp only [sumFin_eq]
  congr 1
  rw [add_assoc, ← Finset.sum_add_distrib]
  congr 1
  · apply Finset.sum_congr rfl; intro q _
    unfold d2fEntry
    rw [dmOf_eC, row_div, row_div]
    have h := hpii q i j
    have e1 : J.vd q i * Cx.conj (J.vd q (I.s2pp j))
          * Cx.ofRe (∑ ν, vii q ν * I.eii q (row i l) ν * I.eii q (row (I.s2pp j) m) ν) * J.pii q j i
        = Cx.ofRe (I.cosii q (p2s i) * I.cosii q j)
          * Cx.ofRe (∑ ν, vii q ν * I.eii q (row i l) ν * I.eii q (row (I.s2pp j) m) ν) := by
      rw [← h]; ring
    rw [e1]
    simp only [Cx.mul_re, Cx.ofRe_re, Cx.ofRe_im, mul_zero, sub_zero]
    rw [Finset.mul_sum]
    apply Finset.sum_congr rfl; intro ν _
    rw [hp2s]; ring
  · apply Finset.sum_congr rfl; intro q _
    unfold d2fEntry
    rw [dmOf_conj, hpnij, ← Cx.conj_mul]
    simp only [Cx.conj_re]
    rw [← two_mul, dmOf_eq, hpij, Finset.sum_mul, Cx.sum_re, Finset.mul_sum]
    apply Finset.sum_congr rfl; intro ν _
    unfold wij
    rw [hp2s]
    simp only [Cx.add_re, Cx.mul_re, Cx.mul_im, Cx.conj_re, Cx.conj_im]
    ring

/-- **`uuinv_eq_covInv`**: the rows of primitive atoms of `uu_inv` as the code computes them are the rows of the closed form -/
theorem uuinv_eq_covInv [LinearOrder K] (I : RDIn np ns nii nij K) (J : D2FIn np ns nii nij K) (p2s : Fin np → Fin ns)
    (hs2pp : J.s2pp = I.s2pp) (hp2s : ∀ i, I.s2pp (p2s i) = i) (heii : J.eii = I.eii) (heij : J.eij = I.eij)
    (hpii : ∀ q i j, J.vd q i * Cx.conj (J.vd q (I.s2pp j)) * J.pii q j i = Cx.ofRe (I.cosii q (p2s i) * I.cosii q j))
    (hpij : ∀ q i j, J.pij q j i = I.phij q (p2s i) * Cx.conj (I.phij q j))
    (hpnij : ∀ q i j, J.pnij q j i = Cx.conj (J.pij q j i))
    (hmass : ∀ i j, J.ms i (I.s2pp j) / ((nii + 2 * nij : Nat) : K)
        = I.rm (p2s i) * I.rm j / (((nii + 2 * nij : Nat) : K) * ((nii + 2 * nij : Nat) : K)))
    (cutoff : K) (fii : Fin nii → Fin (np * 3) → K) (fij : Fin nij → Fin (np * 3) → K)
    (i : Fin np) (j : Fin ns) (l m : Fin 3) :
    uuInvRow J cutoff fii fij I.sigii I.sigij i j l m
      = covInv I (fun q ν => a2inv cutoff (fii q ν) (I.sigii q ν)) (fun q ν => a2inv cutoff (fij q ν) (I.sigij q ν)) (p2s i) l j m := by
  unfold uuInvRow
  rw [d2fRow_spectral I J p2s hs2pp hp2s heii heij hpii hpij hpnij, covInv_spectral, hmass]
  ring

/-- the supercell statement with the code's own masks: `σ = maskSigma(cutoff, f, σ_raw)`, `g = a2inv(cutoff, f, σ)` -/
theorem uu_inv_is_inverse_masked [LinearOrder K] (I : RDIn np ns nii nij K) (hr2 : I.r2 * I.r2 = 2) (h : ModesOrthonormal I)
    (hN : ((nii + 2 * nij : Nat) : K) ≠ 0) (hrm : ∀ κ, I.rm κ ≠ 0)
    (cutoff : K) (fii srawii : Fin nii → Fin (np * 3) → K) (fij srawij : Fin nij → Fin (np * 3) → K)
    (hsii : ∀ q ν, I.sigii q ν = maskSigma cutoff (fii q ν) (srawii q ν))
    (hsij : ∀ q ν, I.sigij q ν = maskSigma cutoff (fij q ν) (srawij q ν))
    (hnzii : ∀ q ν, cutoff < fii q ν → srawii q ν ≠ 0) (hnzij : ∀ q ν, cutoff < fij q ν → srawij q ν ≠ 0)
    (κ κ' : Fin ns) (a b : Fin 3) :
    let V := covInv I (fun q ν => a2inv cutoff (fii q ν) (I.sigii q ν)) (fun q ν => a2inv cutoff (fij q ν) (I.sigij q ν))
    (∑ r1 : Fin ns × Fin 3, ∑ r2 : Fin ns × Fin 3, cov I κ a r1.1 r1.2 * V r1.1 r1.2 r2.1 r2.2 * cov I r2.1 r2.2 κ' b) = cov I κ a κ' b
    ∧ (∑ r1 : Fin ns × Fin 3, ∑ r2 : Fin ns × Fin 3, V κ a r1.1 r1.2 * cov I r1.1 r1.2 r2.1 r2.2 * V r2.1 r2.2 κ' b) = V κ a κ' b := by
  intro V
  constructor
  · apply uu_inv_is_inverse I hr2 h hN hrm
    · intro q ν; rw [hsii]; exact (mask_algebra cutoff (fii q ν) (srawii q ν) (hnzii q ν)).1
    · intro q ν; rw [hsij]; exact (mask_algebra cutoff (fij q ν) (srawij q ν) (hnzij q ν)).1
  · apply uu_inv_is_inverse_vuv I hr2 h hN hrm
    · intro q ν; rw [hsii]; exact (mask_algebra cutoff (fii q ν) (srawii q ν) (hnzii q ν)).2
    · intro q ν; rw [hsij]; exact (mask_algebra cutoff (fij q ν) (srawij q ν) (hnzij q ν)).2

end supercell

/-! ### non-vacuity of the hypotheses -/

/-- the certificate is satisfiable: one atom, two cells (`Γ` and the zone-boundary point, both self-conjugate) -/
def Iex : RDIn 1 2 2 0 ℚ :=
  { s2pp := fun _ => 0
    eii := fun _ r ν => if r = ν then 1 else 0
    cosii := fun q κ => if q = 1 ∧ κ = 1 then -1 else 1
    eij := fun q => q.elim0
    phij := fun q => q.elim0
    sigii := fun _ _ => 1
    sigij := fun q => q.elim0
    rm := fun _ => 1
    r2 := 1 }
example : ModesOrthonormal Iex where
  eii := by decide +kernel
  eij := fun q => q.elim0
  char := by decide +kernel



/-- `√2` exists in ℝ (hypothesis `r2·r2 = 2` of `pair_variance`, `cov_eq_canonical`) -/
example : ∃ r2 : ℝ, r2 * r2 = 2 := ⟨Real.sqrt 2, Real.mul_self_sqrt (by norm_num)⟩
/-- `rm = s·√N` with `√N·√N = N` -/
example (N : ℕ) : ∃ rN : ℝ, rN * rN = (N : ℝ) := ⟨Real.sqrt N, Real.mul_self_sqrt (Nat.cast_nonneg N)⟩

/-- a unitary eigenvector matrix with complex entries over ℚ(i): `[[3/5, 4i/5], [4i/5, 3/5]]` -/
def Eex : Fin 2 → Fin 2 → Cx ℚ := fun r ν => if r = ν then ⟨3/5, 0⟩ else ⟨0, 4/5⟩
example : ∀ ν ν', (∑ m, Cx.conj (Eex m ν) * Eex m ν') = if ν = ν' then 1 else 0 := by decide +kernel
/-- on it the spectral projector statement is not trivial: one masked, one unmasked mode -/
example : dmOf Eex (fun ν => if (1:ℚ) < (if ν = 0 then 0 else 2) then 1 else 0) 0 0 = ⟨16/25, 0⟩ := by decide +kernel

end PhononModel.C19

#print axioms PhononModel.C19.pair_variance_core
#print axioms PhononModel.C19.pair_variance
#print axioms PhononModel.C19.displ_linear
#print axioms PhononModel.C19.cov_eq_canonical
#print axioms PhononModel.C19.cov_eq_canonical_of_partition
#print axioms PhononModel.C19.cov_symm
#print axioms PhononModel.C19.msd_psd_symmetric
#print axioms PhononModel.C19.msd_diag
#print axioms PhononModel.C19.msd_projection
#print axioms PhononModel.C19.cif_transform
#print axioms PhononModel.C19.tdm_window_restrict
#print axioms PhononModel.C19.tdm_window_additive
#print axioms PhononModel.C19.tdm_normalisation
#print axioms PhononModel.C19.msd_mass_trace
#print axioms PhononModel.C19.q2_canonical_above_guard
#print axioms PhononModel.C19.q2_below_guard
#print axioms PhononModel.C19.population_dropped_witness
#print axioms PhononModel.C19.q2_canonical_guard_zero
#print axioms PhononModel.C19.dmOf_mul
#print axioms PhononModel.C19.uu_inv_is_inverse_partial
#print axioms PhononModel.C19.W_orth
#print axioms PhononModel.C19.modeSum_triple
#print axioms PhononModel.C19.uu_inv_is_inverse
#print axioms PhononModel.C19.uu_inv_is_inverse_vuv
#print axioms PhononModel.C19.uu_inv_is_inverse_masked
#print axioms PhononModel.C19.covInv_symm
#print axioms PhononModel.C19.d2fRow_spectral
#print axioms PhononModel.C19.uuinv_eq_covInv
#print axioms PhononModel.C19.uu_eq_cov
#print axioms PhononModel.C19.dmOf_conj
#print axioms PhononModel.C19.dmOf_eC
#print axioms PhononModel.C19.d2f_fwd
#print axioms PhononModel.C19.d2f_identity
