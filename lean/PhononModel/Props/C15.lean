import PhononModel.Lemmas.ApiState
/-!
# C15 — a Phonopy object answers from its current state, whatever its history

Theorems are about `PhononModel/Model/ApiState.lean` (the state machine of `Phonopy`
in `api_phonopy.py`), for every instantiation `F : Fns` of the numerical routines, every
state and every history.  `./check C15` ties the model to the real `Phonopy` object by
replaying the same histories on both.
-/
namespace PhononModel.C15
open PhononModel.Api

/-- the only property of the numerical routines the theorems need: the setters of forces and
energies leave the displacements of a dataset as they are -/
structure Lawful (F : Fns) : Prop where
  dispOf_setF : ∀ f v, F.dispOf (F.setF f v) = F.dispOf v
  dispOf_setE : ∀ e v, F.dispOf (F.setE e v) = F.dispOf v

/-- the one way to break coherence: the caller mutates an array the object can reach
(the force-constant array kept by the setter or handed out by the getter, the NAC dict
kept by the setter, the dataset dict handed out by the getter) -/
def MutatesReachable (s : St) : Op → Prop
  | .callerMutates a _ => a ∈ s.o.refs
  | _ => False

instance (s : St) (op : Op) : Decidable (MutatesReachable s op) := by
  unfold MutatesReachable; split <;> infer_instance

theorem coherent_init (F : Fns) (m : Option Val) (fsf : Bool := false) : Coherent F (St.init m fsf) := by
  constructor <;> simp [St.init, Obj.init]

/-- the forces / energies setters write into the object's own dataset -/
theorem coherent_write_ds (F : Fns) (s : St) (ds : ArrRef) (w : Val) (hc : Coherent F s)
    (hds : s.o.dataset = some ds) (hw : F.dispOf w = F.dispOf (s.h.cells ds)) :
    Coherent F ⟨s.h.write ds w, s.o⟩ := by
  have hk := hc.kindDs ds hds
  have hne : ∀ r k, s.h.kind r = k → k ≠ .ds → (s.h.write ds w).cells r = s.h.cells r := by
    intro r k hr hk'
    have : r ≠ ds := by intro e; rw [e, hk] at hr; exact hk' hr.symm
    simp [Heap.write, this]
  have hnacv : s.o.nac.map (s.h.write ds w).cells = s.o.nac.map s.h.cells :=
    map_cells_congr s.o.nac (fun r hr => hne r _ (hc.kindNac r hr) (by decide))
  obtain ⟨c1, c2, c3, c4, c5, c6, c7, c8, c9, c10⟩ := hc
  refine ⟨c1, c2, c3, c4, c5, c6, c7, ?_, c9, ?_⟩
  · intro a m h1 h2
    obtain ⟨d, d1, d2, d3, d4, d5⟩ := c8 a m h1 h2
    refine ⟨d, d1, d2, ?_, ?_, ?_⟩
    · simp only; rw [hnacv]; exact d3
    · simp only; rw [hnacv]; exact d4
    · simp only; rw [hne a _ (c4 a h1) (by decide)]; exact d5
  · intro v hv
    obtain ⟨r, r1, r2⟩ := c10 v hv
    have : r = ds := by rw [hds] at r1; exact (Option.some.inj r1).symm
    subst this
    exact ⟨r, r1, by simp only [Heap.write, if_true]; rw [hw]; exact r2⟩

/-- **coherence is preserved by every operation** except a caller's mutation of an array
the object can reach (see `coherent_step_counterexample`). -/
theorem coherent_step_partial (F : Fns) (hF : Lawful F) (s : St) (op : Op) (hc : Coherent F s)
    (hs : ¬ MutatesReachable s op) : Coherent F (step F s op).1 := by
  cases op with
  | setForces f =>
    simp only [step]
    cases hds : s.o.dataset with
    | none => exact hc
    | some ds => exact coherent_write_ds F s ds _ hc hds (hF.dispOf_setF _ _)
  | setEnergies e =>
    simp only [step]
    cases hds : s.o.dataset with
    | none => exact hc
    | some ds => exact coherent_write_ds F s ds _ hc hds (hF.dispOf_setE _ _)
  | produceFcWith f =>
    simp only [step]
    cases hds : s.o.dataset with
    | none => exact hc
    | some ds =>
      simp only
      have hc1 := coherent_write_ds F s ds _ hc hds (hF.dispOf_setF f _)
      apply setDMIfMasses_coherent
      · refine ⟨?_, ?_, ?_, ?_, ?_, ?_, ?_, ?_⟩
        · intro a' h'; simp only [Option.some.injEq] at h'; subst h'; simp [Heap.alloc]
        · intro a' h'; exact Nat.lt_succ_of_lt (hc1.allocNac a' h')
        · intro a' h'; exact Nat.lt_succ_of_lt (hc1.allocDs a' (hds.trans h'))
        · intro a' h'; simp only [Option.some.injEq] at h'; subst h'; simp [Heap.alloc]
        · intro a' h'; exact (alloc_kind_old (hc1.allocNac a' h')).trans (hc1.kindNac a' h')
        · intro a' h'; exact (alloc_kind_old (hc1.allocDs a' (hds.trans h'))).trans (hc1.kindDs a' (hds.trans h'))
        · intro h'; exact ⟨by simp, (hc1.gv_imp h').2⟩
        · intro v hv
          obtain ⟨r, r1, r2⟩ := hc1.disps v hv
          exact ⟨r, hds.symm.trans r1, by rw [r2]; exact congrArg F.dispOf (alloc_cells_old (hc1.allocDs r r1)).symm⟩
      · intro hm; exact hc1.dmNone (Or.inr hm)
  | newArr v own k =>
    exact hc.heap_congr (Nat.le_succ _)
      (fun a ha => ⟨alloc_cells_old (hc.allocFc a ha), alloc_kind_old (hc.allocFc a ha)⟩)
      (fun a ha => ⟨alloc_cells_old (hc.allocNac a ha), alloc_kind_old (hc.allocNac a ha)⟩)
      (fun a ha => ⟨alloc_cells_old (hc.allocDs a ha), alloc_kind_old (hc.allocDs a ha)⟩)
  | setFc a =>
    simp only [step]
    split
    · next hg =>
      apply setDMIfMasses_coherent
      · refine ⟨?_, hc.allocNac, hc.allocDs, ?_, hc.kindNac, hc.kindDs, ?_, hc.disps⟩
        · intro a' h'; simp only [Option.some.injEq] at h'; subst h'; exact hg.1
        · intro a' h'; simp only [Option.some.injEq] at h'; subst h'; exact hg.2
        · intro h'; exact ⟨by simp, (hc.gv_imp h').2⟩
      · intro hm; exact hc.dmNone (Or.inr hm)
    · exact hc
  | generate k =>
    simp only [step]
    have hc' : Coherent F ⟨s.h, { s.o with dataset := none, disps := none }⟩ := by
      obtain ⟨c1, c2, c3, c4, c5, c6, c7, c8, c9, c10⟩ := hc
      exact ⟨c1, c2, by simp, c4, c5, by simp, c7, c8, c9, by simp⟩
    have h2 := hc'.heap_congr (h' := s.h.alloc (F.gen k) true .ds) (Nat.le_succ _)
      (fun a ha => ⟨alloc_cells_old (hc.allocFc a ha), alloc_kind_old (hc.allocFc a ha)⟩)
      (fun a ha => ⟨alloc_cells_old (hc.allocNac a ha), alloc_kind_old (hc.allocNac a ha)⟩)
      (by simp)
    obtain ⟨c1, c2, c3, c4, c5, c6, c7, c8, c9, c10⟩ := h2
    refine ⟨c1, c2, ?_, c4, c5, ?_, c7, c8, c9, by simp⟩
    · intro a' h'; simp only [Option.some.injEq] at h'; subst h'; simp [Heap.alloc]
    · intro a' h'; simp only [Option.some.injEq] at h'; subst h'; simp [Heap.alloc]
  | produceFc c =>
    simp only [step]
    cases hds : s.o.dataset with
    | none => exact hc
    | some ds =>
      simp only
      split
      case isFalse => exact hc
      apply setDMIfMasses_coherent
      · refine ⟨?_, ?_, ?_, ?_, ?_, ?_, ?_, ?_⟩
        · intro a' h'; simp only [Option.some.injEq] at h'; subst h'; simp [Heap.alloc]
        · intro a' h'; exact Nat.lt_succ_of_lt (hc.allocNac a' h')
        · intro a' h'; exact Nat.lt_succ_of_lt (hc.allocDs a' (hds.trans h'))
        · intro a' h'; simp only [Option.some.injEq] at h'; subst h'; simp [Heap.alloc]
        · intro a' h'; exact (alloc_kind_old (hc.allocNac a' h')).trans (hc.kindNac a' h')
        · intro a' h'; exact (alloc_kind_old (hc.allocDs a' (hds.trans h'))).trans (hc.kindDs a' (hds.trans h'))
        · intro h'; exact ⟨by simp, (hc.gv_imp h').2⟩
        · intro v hv
          obtain ⟨r, r1, r2⟩ := hc.disps v hv
          exact ⟨r, hds.symm.trans r1, by rw [r2]; exact congrArg F.dispOf (alloc_cells_old (hc.allocDs r r1)).symm⟩
      · intro hm; exact hc.dmNone (Or.inr hm)
  | symmetrizeFc level => exact inPlace_coherent F s _ hc
  | symmetrizeFcSpaceGroup =>
    simp only [step]
    split
    · exact hc
    · split
      · exact hc
      · exact inPlace_coherent F s _ hc
  | cutoff r => exact inPlace_coherent F s _ hc
  | setNac a =>
    simp only [step]
    cases a with
    | none =>
      simp only
      apply setDMIfFc_coherent
      · exact ⟨hc.allocFc, by simp, hc.allocDs, hc.kindFc, by simp, hc.kindDs, hc.gv_imp, hc.disps⟩
      · intro hm; exact hc.dmNone (Or.inl hm)
    | some r =>
      simp only
      split
      · next hg =>
        apply setDMIfFc_coherent
        · refine ⟨hc.allocFc, ?_, hc.allocDs, hc.kindFc, ?_, hc.kindDs, hc.gv_imp, hc.disps⟩
          · intro a' h'; simp only [Option.some.injEq] at h'; subst h'; exact hg.1
          · intro a' h'; simp only [Option.some.injEq] at h'; subst h'; exact hg.2
        · intro hm; exact hc.dmNone (Or.inl hm)
      · exact hc
  | setMasses m =>
    simp only [step]
    apply setDMIfFc_coherent
    · refine ⟨hc.allocFc, hc.allocNac, hc.allocDs, hc.kindFc, hc.kindNac, hc.kindDs, ?_, hc.disps⟩
      intro h'; exact ⟨(hc.gv_imp h').1, by simp⟩
    · intro hm; exact hc.dmNone (Or.inl hm)
  | setDataset a =>
    simp only [step]
    cases a with
    | none =>
      simp only
      obtain ⟨c1, c2, c3, c4, c5, c6, c7, c8, c9, c10⟩ := hc
      exact ⟨c1, c2, by simp, c4, c5, by simp, c7, c8, c9, by simp⟩
    | some r =>
      simp only
      split
      · next hg =>
        have hc' : Coherent F ⟨s.h, { s.o with dataset := none, disps := none }⟩ := by
          obtain ⟨c1, c2, c3, c4, c5, c6, c7, c8, c9, c10⟩ := hc
          exact ⟨c1, c2, by simp, c4, c5, by simp, c7, c8, c9, by simp⟩
        have h2 := hc'.heap_congr (h' := s.h.alloc (s.h.cells r) true .ds) (Nat.le_succ _)
          (fun a ha => ⟨alloc_cells_old (hc.allocFc a ha), alloc_kind_old (hc.allocFc a ha)⟩)
          (fun a ha => ⟨alloc_cells_old (hc.allocNac a ha), alloc_kind_old (hc.allocNac a ha)⟩)
          (by simp)
        obtain ⟨c1, c2, c3, c4, c5, c6, c7, c8, c9, c10⟩ := h2
        refine ⟨c1, c2, ?_, c4, c5, ?_, c7, c8, c9, by simp⟩
        · intro a' h'; simp only [Option.some.injEq] at h'; subst h'; simp [Heap.alloc]
        · intro a' h'; simp only [Option.some.injEq] at h'; subst h'; simp [Heap.alloc]
      · exact hc
  | copy => exact hc
  | callerMutates a v =>
    simp only [step]
    split
    · have hs' : a ∉ s.o.refs := hs
      have hw : ∀ r, r ≠ a → (s.h.write a v).cells r = s.h.cells r ∧ (s.h.write a v).kind r = s.h.kind r := by
        intro r hr; simp [Heap.write, hr]
      refine hc.heap_congr (Nat.le_refl _) (fun r hr => hw r ?_) (fun r hr => hw r ?_) (fun r hr => hw r ?_)
      · intro e; subst e; exact hs' (by simp [Obj.refs, hr])
      · intro e; subst e; exact hs' (by simp [Obj.refs, hr])
      · intro e; subst e; exact hs' (by simp [Obj.refs, hr])
    · exact hc
  | query q =>
    cases q with
    | freq =>
      simp only [step]
      split
      · next d m hd hm => exact coherent_touch F s d hc hd (fun g hg => sync_gv_coherent hc hd g hg)
      · exact hc
    | run dv =>
      cases dv with
      | mesh =>
        simp only [step]
        split
        · next d m hd hm =>
          exact (coherent_touch F s d hc hd (fun g hg => sync_gv_coherent hc hd g hg)).of_fields rfl rfl rfl rfl rfl rfl rfl
        · exact hc
      | band =>
        simp only [step]
        split
        · next d m hd hm =>
          exact (coherent_touch F s d hc hd (fun g hg => sync_gv_coherent hc hd g hg)).of_fields rfl rfl rfl rfl rfl rfl rfl
        · exact hc
      | tp => simp only [step]; split <;> first | exact hc | exact hc.of_fields rfl rfl rfl rfl rfl rfl rfl
      | dos => simp only [step]; split <;> first | exact hc | exact hc.of_fields rfl rfl rfl rfl rfl rfl rfl
    | get dv => exact hc
    | freqGV =>
      simp only [step]
      split
      · next d m hd hm =>
        cases hgv : s.o.gv with
        | none =>
          simp only [gvOr, if_true]
          apply coherent_touch F s d hc hd
          intro g hg; simp only [Option.some.injEq] at hg; subst hg; rfl
        | some g =>
          have := hc.gv g hgv
          rw [hd] at this
          have : g.dm = d := (Option.some.inj this).symm
          subst this
          simp only [gvOr, if_true]
          apply coherent_touch F s g.dm hc hd
          intro g' hg; simp only [Option.some.injEq] at hg; subst hg; rfl
      · exact hc
    | getFc => exact hc
    | getNac => exact hc
    | getMasses => exact hc
    | getDataset => exact hc
    | getDisps =>
      simp only [step]
      cases hds : s.o.dataset with
      | none => exact hc
      | some ds =>
        simp only
        cases hdp : s.o.disps with
        | some v => exact hc
        | none =>
          simp only
          obtain ⟨c1, c2, c3, c4, c5, c6, c7, c8, c9, c10⟩ := hc
          refine ⟨c1, c2, fun a ha => c3 a (hds.trans ha), c4, c5, fun a ha => c6 a (hds.trans ha), c7, c8, c9, ?_⟩
          intro v hv
          simp only [Option.some.injEq] at hv
          exact ⟨ds, rfl, hv.symm⟩


/-- sharper: a mutation through the force-constant alias is itself harmless — the
dynamical-matrix object reads the live array — *unless* Gonze–Lee short-range constants have
already been derived from the old values. -/
theorem coherent_mutate_fc_alias_partial (F : Fns) (s : St) (a : ArrRef) (v : Val) (hc : Coherent F s)
    (hfc : s.o.fc = some a) (hg : ∀ d, s.o.dm = some d → d.gonze = none) :
    Coherent F (step F s (.callerMutates a v)).1 := by
  simp only [step, hc.allocFc a hfc, if_true]
  have hk := hc.kindFc a hfc
  have hne : ∀ r k, s.h.kind r = k → k ≠ .fc → (s.h.write a v).cells r = s.h.cells r := by
    intro r k hr hk'
    have : r ≠ a := by intro e; rw [e, hk] at hr; exact hk' hr.symm
    simp [Heap.write, this]
  have hnacv : s.o.nac.map (s.h.write a v).cells = s.o.nac.map s.h.cells :=
    map_cells_congr s.o.nac (fun r hr => hne r _ (hc.kindNac r hr) (by decide))
  obtain ⟨c1, c2, c3, c4, c5, c6, c7, c8, c9, c10⟩ := hc
  refine ⟨c1, c2, c3, c4, c5, c6, c7, ?_, c9, ?_⟩
  · intro a' m h1 h2
    obtain ⟨d, d1, d2, d3, d4, _⟩ := c8 a' m h1 h2
    refine ⟨d, d1, d2, ?_, ?_, Or.inl (hg d d1)⟩
    · simp only; rw [hnacv]; exact d3
    · simp only; rw [hnacv]; exact d4
  · intro w hw
    obtain ⟨r, r1, r2⟩ := c10 w hw
    exact ⟨r, r1, by simp only; rw [hne r _ (c6 r r1) (by decide)]; exact r2⟩

/-- a history in which the caller never mutates an array the object can reach at that time -/
def Disciplined (F : Fns) : St → List Op → Prop
  | _, [] => True
  | s, op :: ops => ¬ MutatesReachable s op ∧ Disciplined F (step F s op).1 ops

instance decDisciplined (F : Fns) : ∀ (ops : List Op) (s : St), Decidable (Disciplined F s ops)
  | [], _ => isTrue trivial
  | op :: ops, s => by
    unfold Disciplined
    exact @instDecidableAnd _ _ _ (decDisciplined F ops _)

theorem coherent_run_partial (F : Fns) (hF : Lawful F) (ops : List Op) : ∀ (s : St), Coherent F s →
    Disciplined F s ops → Coherent F (run F s ops) := by
  induction ops with
  | nil => intro s hc _; exact hc
  | cons op ops ih =>
    intro s hc hd
    exact ih _ (coherent_step_partial F hF s op hc hd.1) hd.2

/-- every state reachable by a disciplined history — of any length — is coherent -/
theorem coherent_reachable_partial (F : Fns) (hF : Lawful F) (m : Option Val) (ops : List Op)
    (hd : Disciplined F (St.init m) ops) : Coherent F (run F (St.init m) ops) :=
  coherent_run_partial F hF ops _ (coherent_init F m) hd

/-- every stored result object (`mesh`, `band_structure`, `thermal_properties`, `total_dos`) was
computed from the *current* parameters -/
def DerivedCurrent (F : Fns) (s : St) : Prop :=
  ∀ d p, s.o.derivedGet d = some p →
    ∃ a m, s.o.fc = some a ∧ s.o.masses = some m ∧ p = specPhonons F false (s.h.cells a) (s.o.nac.map s.h.cells) m

/-- in a coherent state every query is answered from the *current* parameters (the values the
object shows through its getters) — whatever the constructor options -/
theorem answers_from_state (F : Fns) (s : St) (q : Query) (hc : Coherent F s)
    (hdc : q.readsDerived = true → DerivedCurrent F s) :
    (step F s (.query q)).2.obs = specQuery F { abs s with fsf := false } q := by
  have base : (s.o.dm = none ∧ (s.o.fc = none ∨ s.o.masses = none)) ∨
      ∃ a m d, s.o.fc = some a ∧ s.o.masses = some m ∧ s.o.dm = some d ∧
        phononsOf s.h (touchGonze s.h d) m = specPhonons F false (s.h.cells a) (s.o.nac.map s.h.cells) m := by
    cases hfc : s.o.fc with
    | none => exact Or.inl ⟨hc.dmNone (Or.inl hfc), Or.inl rfl⟩
    | some a =>
      cases hm : s.o.masses with
      | none => exact Or.inl ⟨hc.dmNone (Or.inr hm), Or.inr rfl⟩
      | some m =>
        obtain ⟨d, hd, _⟩ := hc.dmSome a m hfc hm
        exact Or.inr ⟨a, m, d, rfl, rfl, hd, phonons_eq_spec F s hc a m d hfc hm hd⟩
  cases q with
  | run dv =>
    cases dv with
    | mesh =>
      rcases base with ⟨hd, hn | hn⟩ | ⟨a, m, d, hfc, hm, hd, he⟩
      · simp [step, specQuery, abs, hd, hn, Out.obs]
      · simp [step, specQuery, abs, hd, hn, Out.obs]
      · simp [step, specQuery, abs, hd, hfc, hm, he, Out.obs]
    | band =>
      rcases base with ⟨hd, hn | hn⟩ | ⟨a, m, d, hfc, hm, hd, he⟩
      · simp [step, specQuery, abs, hd, hn, Out.obs]
      · simp [step, specQuery, abs, hd, hn, Out.obs]
      · simp [step, specQuery, abs, hd, hfc, hm, he, Out.obs]
    | tp =>
      simp only [step, specQuery, abs, Obj.derivedGet]
      cases hme : s.o.mesh with
      | none => simp [Out.obs]
      | some p =>
        obtain ⟨a, m, h1, h2, h3⟩ := hdc rfl .mesh p hme
        simp [Out.obs, h1, h2, h3]
    | dos =>
      simp only [step, specQuery, abs, Obj.derivedGet]
      cases hme : s.o.mesh with
      | none => simp [Out.obs]
      | some p =>
        obtain ⟨a, m, h1, h2, h3⟩ := hdc rfl .mesh p hme
        simp [Out.obs, h1, h2, h3]
  | get dv =>
    simp only [step, specQuery, abs]
    cases hme : s.o.derivedGet dv with
    | none => simp [Out.obs]
    | some p =>
      obtain ⟨a, m, h1, h2, h3⟩ := hdc rfl dv p hme
      simp [Out.obs, h1, h2, h3]
  | freq =>
    simp only [step, specQuery, abs]
    cases hfc : s.o.fc with
    | none => have := hc.dmNone (Or.inl hfc); simp [this, Out.obs]
    | some a =>
      cases hm : s.o.masses with
      | none => have := hc.dmNone (Or.inr hm); simp [this, Out.obs]
      | some m =>
        obtain ⟨d, hd, _⟩ := hc.dmSome a m hfc hm
        simp only [hd, Out.obs, Option.map_some]
        rw [phonons_eq_spec F s hc a m d hfc hm hd]
  | freqGV =>
    simp only [step, specQuery, abs]
    cases hfc : s.o.fc with
    | none => have := hc.dmNone (Or.inl hfc); simp [this, Out.obs]
    | some a =>
      cases hm : s.o.masses with
      | none => have := hc.dmNone (Or.inr hm); simp [this, Out.obs]
      | some m =>
        obtain ⟨d, hd, _⟩ := hc.dmSome a m hfc hm
        have hg : (gvOr s.o.gv d s.o.gvDeltaQ).dm = d := by
          cases hgv : s.o.gv with
          | none => rfl
          | some g => have := hc.gv g hgv; rw [hd] at this; exact (Option.some.inj this).symm
        simp only [hd, Out.obs, Option.map_some, hg, if_true]
        rw [phonons_eq_spec F s hc a m d hfc hm hd]
  | getFc => simp [step, specQuery, abs, Out.obs]
  | getNac => simp [step, specQuery, abs, Out.obs]
  | getMasses => simp [step, specQuery, abs, Out.obs]
  | getDataset => simp [step, specQuery, abs, Out.obs]
  | getDisps =>
    simp only [step, specQuery, abs]
    cases hds : s.o.dataset with
    | none => simp [Out.obs]
    | some ds =>
      cases hdp : s.o.disps with
      | none => simp [Out.obs]
      | some v =>
        obtain ⟨a, a1, a2⟩ := hc.disps v hdp
        rw [hds] at a1
        have : ds = a := Option.some.inj a1
        simp [Out.obs, a2, this]

/-- **refinement**: in a coherent state every query answers exactly as a freshly constructed
object given the current force constants, NAC parameters, masses and dataset (constructor
options as documented, i.e. the deprecated `frequency_scale_factor` unset — see
`refinement_fsf_counterexample`). -/
theorem refinement (F : Fns) (s : St) (q : Query) (hc : Coherent F s) (hfsf : s.o.fsf = false)
    (hdc : q.readsDerived = true → DerivedCurrent F s) :
    (step F s (.query q)).2.obs = specQuery F (abs s) q := by
  rw [answers_from_state F s q hc hdc]
  congr 1
  simp [abs, hfsf]

/-- **history independence**: two coherent states with the same current parameters answer
every query alike — whatever their histories. -/
theorem history_independent (F : Fns) (s₁ s₂ : St) (q : Query) (h₁ : Coherent F s₁) (h₂ : Coherent F s₂)
    (d₁ : q.readsDerived = true → DerivedCurrent F s₁) (d₂ : q.readsDerived = true → DerivedCurrent F s₂)
    (he : abs s₁ = abs s₂) : (step F s₁ (.query q)).2.obs = (step F s₂ (.query q)).2.obs := by
  rw [answers_from_state F s₁ q h₁ d₁, answers_from_state F s₂ q h₂ d₂, he]

/-- … in particular any two disciplined histories (of any lengths) ending in the same parameters -/
theorem history_independent_runs (F : Fns) (hF : Lawful F) (m₁ m₂ : Option Val) (ops₁ ops₂ : List Op) (q : Query)
    (hq : q.readsDerived = false)
    (d₁ : Disciplined F (St.init m₁) ops₁) (d₂ : Disciplined F (St.init m₂) ops₂)
    (he : abs (run F (St.init m₁) ops₁) = abs (run F (St.init m₂) ops₂)) :
    (step F (run F (St.init m₁) ops₁) (.query q)).2.obs = (step F (run F (St.init m₂) ops₂) (.query q)).2.obs :=
  history_independent F _ _ q (coherent_reachable_partial F hF m₁ ops₁ d₁) (coherent_reachable_partial F hF m₂ ops₂ d₂)
    (fun h => by rw [hq] at h; cases h) (fun h => by rw [hq] at h; cases h) he


/-! ### stored result objects (`mesh`, `band_structure`, `thermal_properties`, `total_dos`)

`api_phonopy.py` never resets them: after `ph.masses = …` the object still hands out the mesh
computed with the old masses, and `run_thermal_properties` computes from that stored mesh. -/

/-- operations that change the parameters the phonons depend on -/
def changesParams : Op → Bool
  | .setFc _ | .produceFc _ | .produceFcWith _ | .symmetrizeFc _ | .symmetrizeFcSpaceGroup | .cutoff _
  | .setNac _ | .setMasses _ => true
  | _ => false

/-- **which result objects are invalidated: none.**  Every operation other than `run_<d>` itself
leaves the stored result object `d` exactly as it was. -/
theorem derived_never_invalidated (F : Fns) (s : St) (op : Op) (d : Derived) (hop : op ≠ .query (.run d)) :
    (step F s op).1.o.derivedGet d = s.o.derivedGet d :=
  step_derived F s op d hop

theorem params_unchanged (F : Fns) (s : St) (op : Op) (hc : Coherent F s) (hs : ¬ MutatesReachable s op)
    (hp : changesParams op = false) :
    (step F s op).1.o.fc = s.o.fc ∧ (step F s op).1.o.masses = s.o.masses ∧
    (step F s op).1.o.fc.map (step F s op).1.h.cells = s.o.fc.map s.h.cells ∧
    (step F s op).1.o.nac.map (step F s op).1.h.cells = s.o.nac.map s.h.cells := by
  have alloc : ∀ (v : Val) (b : Bool) (k : Kind),
      s.o.fc.map (s.h.alloc v b k).cells = s.o.fc.map s.h.cells ∧
      s.o.nac.map (s.h.alloc v b k).cells = s.o.nac.map s.h.cells := fun v b k =>
    ⟨map_cells_congr s.o.fc (fun a ha => alloc_cells_old (hc.allocFc a ha)),
     map_cells_congr s.o.nac (fun a ha => alloc_cells_old (hc.allocNac a ha))⟩
  have wds : ∀ (ds : ArrRef) (w : Val), s.o.dataset = some ds →
      s.o.fc.map (s.h.write ds w).cells = s.o.fc.map s.h.cells ∧
      s.o.nac.map (s.h.write ds w).cells = s.o.nac.map s.h.cells := by
    intro ds w hds
    have hk := hc.kindDs ds hds
    have hne : ∀ r k, s.h.kind r = k → k ≠ .ds → (s.h.write ds w).cells r = s.h.cells r := by
      intro r k hr hk'
      have : r ≠ ds := by intro e; rw [e, hk] at hr; exact hk' hr.symm
      simp [Heap.write, this]
    exact ⟨map_cells_congr s.o.fc (fun r hr => hne r _ (hc.kindFc r hr) (by decide)),
      map_cells_congr s.o.nac (fun r hr => hne r _ (hc.kindNac r hr) (by decide))⟩
  cases op with
  | setFc a => cases hp
  | produceFc c => cases hp
  | produceFcWith f => cases hp
  | symmetrizeFc l => cases hp
  | symmetrizeFcSpaceGroup => cases hp
  | cutoff r => cases hp
  | setNac a => cases hp
  | setMasses m => cases hp
  | newArr v own k => exact ⟨rfl, rfl, (alloc v own k).1, (alloc v own k).2⟩
  | generate k => exact ⟨rfl, rfl, (alloc _ _ _).1, (alloc _ _ _).2⟩
  | setForces f =>
    simp only [step]; split
    · exact ⟨rfl, rfl, rfl, rfl⟩
    · next ds hds => exact ⟨rfl, rfl, (wds ds _ hds).1, (wds ds _ hds).2⟩
  | setEnergies f =>
    simp only [step]; split
    · exact ⟨rfl, rfl, rfl, rfl⟩
    · next ds hds => exact ⟨rfl, rfl, (wds ds _ hds).1, (wds ds _ hds).2⟩
  | setDataset a =>
    simp only [step]; split
    · exact ⟨rfl, rfl, rfl, rfl⟩
    · split
      · exact ⟨rfl, rfl, (alloc _ _ _).1, (alloc _ _ _).2⟩
      · exact ⟨rfl, rfl, rfl, rfl⟩
  | copy => exact ⟨rfl, rfl, rfl, rfl⟩
  | callerMutates a v =>
    simp only [step]; split
    · have hs' : a ∉ s.o.refs := hs
      have hw : ∀ r, r ≠ a → (s.h.write a v).cells r = s.h.cells r := by
        intro r hr; simp [Heap.write, hr]
      refine ⟨rfl, rfl, map_cells_congr s.o.fc (fun r hr => hw r ?_), map_cells_congr s.o.nac (fun r hr => hw r ?_)⟩
      · intro e; subst e; exact hs' (by simp [Obj.refs, hr])
      · intro e; subst e; exact hs' (by simp [Obj.refs, hr])
    · exact ⟨rfl, rfl, rfl, rfl⟩
  | query q =>
    obtain ⟨q1, q2, q3, _, _⟩ := query_params F s q
    rw [query_heap, q1, q2, q3]
    exact ⟨rfl, rfl, rfl, rfl⟩

/-- **every stored result object that is kept was computed from the current state** — as long as
no parameter-changing operation happened since (any number of other operations in between:
queries, dataset operations, `run_*`, `copy`, unrelated caller activity). -/
theorem derived_current_step_partial (F : Fns) (s : St) (op : Op) (hc : Coherent F s) (hdc : DerivedCurrent F s)
    (hs : ¬ MutatesReachable s op) (hp : changesParams op = false) : DerivedCurrent F (step F s op).1 := by
  obtain ⟨p1, p2, p3, p4⟩ := params_unchanged F s op hc hs hp
  -- what is current w.r.t. the old state is current w.r.t. the new one
  have transfer : ∀ p, (∃ a m, s.o.fc = some a ∧ s.o.masses = some m ∧
        p = specPhonons F false (s.h.cells a) (s.o.nac.map s.h.cells) m) →
      ∃ a m, (step F s op).1.o.fc = some a ∧ (step F s op).1.o.masses = some m ∧
        p = specPhonons F false ((step F s op).1.h.cells a) ((step F s op).1.o.nac.map (step F s op).1.h.cells) m := by
    intro p ⟨a, m, h1, h2, h3⟩
    refine ⟨a, m, p1.trans h1, p2.trans h2, ?_⟩
    have : (step F s op).1.o.fc.map (step F s op).1.h.cells = some (s.h.cells a) := by rw [p3, h1]; rfl
    rw [p1, h1] at this
    simp only [Option.map_some, Option.some.injEq] at this
    rw [this, p4]; exact h3
  -- the snapshot `run_mesh` / `run_band_structure` stores
  have fresh : ∀ d0 m, s.o.dm = some d0 → s.o.masses = some m →
      ∃ a m', s.o.fc = some a ∧ s.o.masses = some m' ∧
        phononsOf s.h (touchGonze s.h d0) m = specPhonons F false (s.h.cells a) (s.o.nac.map s.h.cells) m' := by
    intro d0 m hd hm
    rcases Option.eq_none_or_eq_some s.o.fc with hfc | ⟨a, hfc⟩
    · have := hc.dmNone (Or.inl hfc); rw [hd] at this; cases this
    · exact ⟨a, m, hfc, hm, phonons_eq_spec F s hc a m d0 hfc hm hd⟩
  intro d p hget
  apply transfer
  by_cases hop : op = .query (.run d)
  · subst hop
    rw [run_snapshot] at hget
    cases d with
    | mesh =>
      simp only at hget
      rcases Option.eq_none_or_eq_some s.o.dm with hdm | ⟨d0, hdm⟩
      · rw [hdm] at hget; exact hdc .mesh p hget
      · rcases Option.eq_none_or_eq_some s.o.masses with hm | ⟨m, hm⟩
        · rw [hdm, hm] at hget; exact hdc .mesh p hget
        · rw [hdm, hm] at hget; cases hget; exact fresh d0 m hdm hm
    | band =>
      simp only at hget
      rcases Option.eq_none_or_eq_some s.o.dm with hdm | ⟨d0, hdm⟩
      · rw [hdm] at hget; exact hdc .band p hget
      · rcases Option.eq_none_or_eq_some s.o.masses with hm | ⟨m, hm⟩
        · rw [hdm, hm] at hget; exact hdc .band p hget
        · rw [hdm, hm] at hget; cases hget; exact fresh d0 m hdm hm
    | tp =>
      simp only at hget
      rcases Option.eq_none_or_eq_some s.o.mesh with hme | ⟨pm, hme⟩
      · rw [hme] at hget; exact hdc .tp p hget
      · rw [hme] at hget; simp only [Option.some.injEq] at hget; rw [← hget]; exact hdc .mesh pm hme
    | dos =>
      simp only at hget
      rcases Option.eq_none_or_eq_some s.o.mesh with hme | ⟨pm, hme⟩
      · rw [hme] at hget; exact hdc .dos p hget
      · rw [hme] at hget; simp only [Option.some.injEq] at hget; rw [← hget]; exact hdc .mesh pm hme
  · rw [step_derived F s op d hop] at hget
    exact hdc d p hget

theorem derived_current_init (F : Fns) (m : Option Val) (fsf : Bool := false) : DerivedCurrent F (St.init m fsf) := by
  intro d p h; cases d <;> simp [St.init, Obj.init, Obj.derivedGet] at h

/-- result objects stay current along any disciplined history without parameter changes -/
theorem derived_current_run_partial (F : Fns) (hF : Lawful F) (ops : List Op) : ∀ (s : St), Coherent F s →
    DerivedCurrent F s → Disciplined F s ops → (∀ op ∈ ops, changesParams op = false) →
    Coherent F (run F s ops) ∧ DerivedCurrent F (run F s ops) := by
  induction ops with
  | nil => intro s hc hdc _ _; exact ⟨hc, hdc⟩
  | cons op ops ih =>
    intro s hc hdc hd hp
    exact ih _ (coherent_step_partial F hF s op hc hd.1)
      (derived_current_step_partial F s op hc hdc hd.1 (hp op List.mem_cons_self)) hd.2
      (fun op' h' => hp op' (List.mem_cons_of_mem _ h'))

/-! ### the full statements, and where the current code refutes them

The model of the current code keeps the caller's force-constant array (no copy for an own,
C-contiguous double ndarray), hands out its live arrays, and keeps the caller's NAC dict.
A caller who mutates such an array afterwards changes the object's parameters behind its back;
for Gonze–Lee NAC the short-range constants built earlier are then stale.  The witnesses below
are replayed on the real `Phonopy` object by `./check C15` (known findings). -/

/-- concrete routines for the witnesses -/
def Fex : Fns :=
  { sym := fun l v => v + 1000 * (l + 1), symSG := fun v => v + 7, cut := fun r v => v + 13 * r + 1,
    produce := fun c v => v + 500 + (if c then 50 else 0), symNac := fun v => v + 3, isWang := fun v => v % 2 == 1,
    gen := fun k => 500 + k, hasForces := fun v => v % 1000 < 500 || 1000 ≤ v % 1000000,
    isCompact := fun v => (v % 100) / 10 == 5,
    scale := fun v => 2 * v, setF := fun f v => v + 1000 * (f + 1), setE := fun e v => v + 1000000 * (e + 1),
    dispOf := fun v => v % 1000 }

theorem Fex_lawful : Lawful Fex :=
  ⟨fun f v => Nat.add_mul_mod_self_left v 1000 (f + 1), fun e v => by
    show (v + 1000000 * (e + 1)) % 1000 = v % 1000
    have : 1000000 * (e + 1) = 1000 * (1000 * (e + 1)) := by rw [← Nat.mul_assoc]
    rw [this]; exact Nat.add_mul_mod_self_left v 1000 _⟩

/-- `a = array(5.)`; `ph.force_constants = a`; `ph.nac_params = {gonze}`; `run_qpoints`; `a[...] = 7.` -/
def exStale : List Op :=
  [.newArr 5 true .fc, .setFc 0, .newArr 2 true .nac, .setNac (some 1), .query .freq, .callerMutates 0 7]

def FullRefinement : Prop := ∀ (F : Fns) (m : Option Val) (ops : List Op) (q : Query),
  (step F (run F (St.init m) ops) (.query q)).2.obs = specQuery F (abs (run F (St.init m) ops)) q

def FullCoherentStep : Prop := ∀ (F : Fns) (s : St) (op : Op), Coherent F s → Coherent F (step F s op).1

/-- after the aliased mutation the object shows force constants 7 but computes with the
short-range constants derived from 5 -/
theorem refinement_counterexample : ¬ FullRefinement := fun h =>
  absurd (h Fex (some 1) exStale .freq) (by decide)

theorem coherent_step_counterexample : ¬ FullCoherentStep := by
  intro h
  have hr : ∀ (ops : List Op) (s : St), Coherent Fex s → Coherent Fex (run Fex s ops) := by
    intro ops
    induction ops with
    | nil => intro s hc; exact hc
    | cons op ops ih => intro s hc; exact ih _ (h Fex s op hc)
  have hc := hr exStale _ (coherent_init Fex (some 1))
  exact absurd (refinement Fex _ .freq hc (by decide) (fun h => by cases h)) (by decide)

/-- the witness is excluded by the discipline hypothesis of the `_partial` theorems, and only by it -/
example : ¬ Disciplined Fex (St.init (some 1)) exStale := by decide
example : Disciplined Fex (St.init (some 1)) (exStale.take 5) := by decide

/-! #### the deprecated constructor option `frequency_scale_factor`

`get_dynamical_matrix` multiplies the force constants by `frequency_scale_factor**2` and
`_set_dynamical_matrix` stores the *scaled* array back as `Phonopy.force_constants`; every
rebuild of the dynamical matrix therefore scales once more. -/

/-- setting the masses to the value they already have changes no answer (option unset) -/
theorem same_masses_noop (F : Fns) (hF : Lawful F) (s : St) (m : Val) (q : Query) (hc : Coherent F s)
    (hm : s.o.masses = some m) (hfsf : s.o.fsf = false) (hq : q.readsDerived = false) :
    (step F (step F s (.setMasses m)).1 (.query q)).2.obs = (step F s (.query q)).2.obs := by
  have hc' := coherent_step_partial F hF s (.setMasses m) hc (by simp [MutatesReachable])
  apply history_independent F _ _ q hc' hc (fun h => by rw [hq] at h; cases h) (fun h => by rw [hq] at h; cases h)
  simp only [step, setDMIfFc, fin]
  have ho : ({ s.o with masses := some m } : Obj) = s.o := by
    cases hso : s.o with
    | mk fc nac ms ds dp dm gv fsf me ba tp dos =>
      rw [hso] at hm
      cases hm; rfl
  rw [ho]
  split
  · rfl
  · exact setDM_abs F s.h s.o hfsf hc.allocFc hc.allocNac hc.allocDs

def FullSameMassesNoop : Prop := ∀ (F : Fns) (s : St) (m : Val) (q : Query), Coherent F s → s.o.masses = some m →
  q.readsDerived = false →
  (step F (step F s (.setMasses m)).1 (.query q)).2.obs = (step F s (.query q)).2.obs

/-- `Phonopy(…, frequency_scale_factor=f)`; `ph.force_constants = A`; `ph.masses = ph.masses`
scales the force constants a second time -/
theorem same_masses_noop_fsf_counterexample : ¬ FullSameMassesNoop := by
  intro h
  have hc := coherent_run_partial Fex Fex_lawful [.newArr 5 true .fc, .setFc 0] _ (coherent_init Fex (some 1) true) (by decide)
  exact absurd (h Fex _ 1 .freq hc (by decide) rfl) (by decide)

def FullRefinementAnyOption : Prop := ∀ (F : Fns) (s : St) (q : Query), Coherent F s →
  (step F s (.query q)).2.obs = specQuery F (abs s) q

/-- with the option set, `ph.force_constants` hands out the already scaled array: a fresh object
given it scales again -/
theorem refinement_fsf_counterexample : ¬ FullRefinementAnyOption := by
  intro h
  have hc := coherent_run_partial Fex Fex_lawful [.newArr 5 true .fc, .setFc 0] _ (coherent_init Fex (some 1) true) (by decide)
  exact absurd (h Fex _ .freq hc) (by decide)

/-! #### stored result objects after a setter -/

/-- `ph.force_constants = A; ph.run_mesh(); ph.masses = m2` -/
def exStaleMesh : List Op := [.newArr 5 true .fc, .setFc 0, .query (.run .mesh), .setMasses 2]

/-- full statement: along every disciplined history (no aliasing involved, documented constructor
options) every query — including those on stored result objects — answers as a fresh object on
which the same `run_*` were executed -/
def FullRefinementDerived : Prop := ∀ (F : Fns) (m : Option Val) (ops : List Op) (q : Query),
  Disciplined F (St.init m) ops →
    (step F (run F (St.init m) ops) (.query q)).2.obs = specQuery F (abs (run F (St.init m) ops)) q

/-- after the setter the stored mesh still reports the phonons of the old masses … -/
theorem derived_stale_counterexample : ¬ FullRefinementDerived := fun h =>
  absurd (h Fex (some 1) exStaleMesh (.get .mesh) (by decide)) (by decide)

/-- … and `run_thermal_properties` computes from that stale mesh -/
theorem thermal_properties_stale_counterexample :
    Disciplined Fex (St.init (some 1)) exStaleMesh ∧
    (step Fex (run Fex (St.init (some 1)) exStaleMesh) (.query (.run .tp))).2.obs
      = .phonons { ph := ⟨.plain, 5, none, 1⟩, gv := none } ∧
    specQuery Fex (abs (run Fex (St.init (some 1)) exStaleMesh)) (.run .tp)
      = .phonons { ph := ⟨.plain, 5, none, 2⟩, gv := none } := by decide

/-- re-running the mesh first makes both current again -/
example : (step Fex (run Fex (St.init (some 1)) (exStaleMesh ++ [.query (.run .mesh)])) (.query (.run .tp))).2.obs
    = specQuery Fex (abs (run Fex (St.init (some 1)) (exStaleMesh ++ [.query (.run .mesh)]))) (.run .tp) := by decide

/-! #### the hidden configuration of group velocities

`Phonopy._gv_delta_q` is a constructor option; `GroupVelocity(dm, q_length=self._gv_delta_q)` uses
the analytical derivative of the dynamical matrix unless `q_length` is given or the dynamical
matrix is Gonze–Lee. -/

/-- no operation of the API writes `_gv_delta_q` -/
theorem gv_delta_q_constant (F : Fns) (s : St) (ops : List Op) : (run F s ops).o.gvDeltaQ = s.o.gvDeltaQ := by
  induction ops generalizing s with
  | nil => rfl
  | cons op ops ih => exact (ih _).trans (step_gvdq F s op)

/-- in every reachable state — any history, aliasing or not — the group-velocity object was
constructed with the option the object was constructed with: a fresh object constructed the same
way differentiates the same way (analytically iff no `group_velocity_delta_q` and not Gonze–Lee) -/
theorem gv_config_reachable (F : Fns) (m : Option Val) (fsf : Bool) (q : Option Val) (ops : List Op) :
    ∀ g, (run F (St.init m fsf q) ops).o.gv = some g → g.qLength = q := by
  have h : ∀ (ops : List Op) (s : St), GvConfigO s.o → GvConfigO (run F s ops).o := by
    intro ops
    induction ops with
    | nil => intro s hs; exact hs
    | cons op ops ih => intro s hs; exact ih _ (step_gvconfig F s op hs)
  intro g hg
  have h0 : GvConfigO (St.init m fsf q).o := by intro g hg; simp [St.init, Obj.init] at hg
  rw [h ops _ h0 g hg, gv_delta_q_constant]
  rfl

/-- `copy()` carries the option -/
example : (step Fex (run Fex (St.init (some 1) false (some 9)) [.newArr 5 true .fc, .setFc 0, .query .freqGV]) .copy).2
    = .copied (Obj.init (some 1) false (some 9)) := by decide

/-! #### arrays handed in by the caller are not modified -/

/-- full statement: no API call changes an array the caller created -/
def NoAliasIn : Prop := ∀ (F : Fns) (m : Option Val) (ops : List Op) (op : Op) (a : ArrRef),
  Out.newRef a ∈ outs F (St.init m) ops → (∀ v, op ≠ .callerMutates a v) →
    (step F (run F (St.init m) ops) op).1.h.cells a = (run F (St.init m) ops).h.cells a

/-- `a = array(5.)`; `ph.force_constants = a`; `ph.symmetrize_force_constants()` overwrites `a` -/
theorem no_alias_in_counterexample : ¬ NoAliasIn := fun h =>
  absurd (h Fex (some 1) [.newArr 5 true .fc, .setFc 0] (.symmetrizeFc 1) 0 (by decide) (by intro v; exact Op.noConfusion))
    (by decide)

/-- what does hold: the only pre-existing cells an operation writes are the object's current
force-constant array and its own dataset; a pre-existing array becomes the force-constant array
only by being handed to the force-constant setter (which keeps it instead of copying); the
stored dataset is never an object of the caller (the setter deep-copies). -/
theorem no_alias_in_partial (F : Fns) (s : St) (op : Op) (a : ArrRef) (ha : a < s.h.next)
    (hop : ∀ v, op ≠ .callerMutates a v) :
    (s.o.fc ≠ some a → s.o.dataset ≠ some a → (step F s op).1.h.cells a = s.h.cells a) ∧
      ((step F s op).1.o.fc = some a → s.o.fc = some a ∨ op = .setFc a) ∧
      ((step F s op).1.o.dataset = some a → s.o.dataset = some a) := by
  refine ⟨fun hfc hds => step_writes_only_fc F s op a ha hfc hds hop, fun hfc => ?_, fun hds => ?_⟩
  · rcases step_fc F s op a hfc with h | h | h
    · exact Or.inl h
    · exact Or.inr h
    · exact absurd ha (Nat.not_lt.mpr h)
  · rcases step_ds F s op a hds with h | h
    · exact h
    · exact absurd ha (Nat.not_lt.mpr h)

/-- a history without caller mutations is disciplined -/
theorem disciplined_of_no_mutation (F : Fns) (ops : List Op) (h : ∀ op ∈ ops, ∀ a v, op ≠ .callerMutates a v) :
    ∀ s, Disciplined F s ops := by
  induction ops with
  | nil => intro s; trivial
  | cons op ops ih =>
    intro s
    refine ⟨?_, ih (fun op' h' => h op' (List.mem_cons_of_mem _ h')) _⟩
    have := h op List.mem_cons_self
    cases op <;> simp [MutatesReachable]
    next a v => exact absurd rfl (this a v)

/-! #### arrays handed out do not alias mutable internal state -/

def NoAliasOut : Prop := ∀ (F : Fns) (s : St) (q : Query) (a : ArrRef) (v : Option Val), Coherent F s →
  (step F s (.query q)).2 = .ref (some a) v → a ∉ (step F s (.query q)).1.o.refs

/-- `ph.force_constants = [[5.]]` (copied); `ph.force_constants` returns the internal array itself -/
theorem no_alias_out_counterexample : ¬ NoAliasOut := by
  intro h
  have hc := coherent_reachable_partial Fex Fex_lawful (some 1) [.newArr 5 false .fc, .setFc 0] (by decide)
  exact absurd (h Fex _ .getFc 1 (some 5) hc (by decide)) (by decide)

/-- what does hold: only the three documented getters (`force_constants`, `nac_params`,
`dataset`) hand out a reference; masses, displaced supercells and phonon results are values. -/
theorem no_alias_out_partial (F : Fns) (s : St) (q : Query) (h1 : q ≠ .getFc) (h2 : q ≠ .getNac)
    (h3 : q ≠ .getDataset) (a : Option ArrRef) (v : Option Val) : (step F s (.query q)).2 ≠ .ref a v := by
  cases q with
  | freq => simp only [step]; split <;> exact Out.noConfusion
  | freqGV => simp only [step]; split <;> exact Out.noConfusion
  | getFc => exact absurd rfl h1
  | getNac => exact absurd rfl h2
  | getMasses => exact Out.noConfusion
  | getDataset => exact absurd rfl h3
  | getDisps => simp only [step]; (repeat' split) <;> exact Out.noConfusion
  | run d => cases d <;> simp only [step] <;> (repeat' split) <;> exact Out.noConfusion
  | get d => exact Out.noConfusion

/-! #### copy() yields an independent object -/

/-- two objects over one heap that reach disjoint arrays do not interfere: whatever is done to
object 1 (short of the caller naming an array of object 2) leaves every query on object 2
unchanged.  -/
theorem separate_objects_independent (F : Fns) (h : Heap) (o₁ o₂ : Obj) (ops : List Op) (q : Query)
    (hc₂ : Coherent F ⟨h, o₂⟩) (hsep : ∀ r, Reach o₂ r → ¬ Reach o₁ r)
    (hnamed : ∀ op ∈ ops, ∀ a ∈ op.named, ¬ Reach o₂ a) :
    (step F ⟨(run F ⟨h, o₁⟩ ops).h, o₂⟩ (.query q)).2.obs = (step F ⟨h, o₂⟩ (.query q)).2.obs := by
  have hfr := frame_run F o₂.refs h.next (fun r hr => hc₂.reach_lt (mem_refs.mp hr)) ops ⟨h, o₁⟩ (Nat.le_refl _)
    (fun r hr => hsep r (mem_refs.mp hr)) (fun op hop a ha hr => hnamed op hop a ha (mem_refs.mp hr))
  have hcell : ∀ r, Reach o₂ r → (run F ⟨h, o₁⟩ ops).h.cells r = h.cells r ∧ (run F ⟨h, o₁⟩ ops).h.kind r = h.kind r :=
    fun r hr => hfr.1 r (mem_refs.mpr hr)
  have hc₂' : Coherent F ⟨(run F ⟨h, o₁⟩ ops).h, o₂⟩ :=
    hc₂.heap_congr hfr.2 (fun a ha => hcell a (Or.inl ha)) (fun a ha => hcell a (Or.inr (Or.inl ha)))
      (fun a ha => hcell a (Or.inr (Or.inr (Or.inl ha))))
  cases hq : q.readsDerived with
  | true =>
    -- stored result objects are read from the object alone
    cases q with
    | run d =>
      cases d with
      | mesh => simp [Query.readsDerived] at hq
      | band => simp [Query.readsDerived] at hq
      | tp => simp only [step]; cases o₂.mesh <;> rfl
      | dos => simp only [step]; cases o₂.mesh <;> rfl
    | get d => rfl
    | _ => simp [Query.readsDerived] at hq
  | false =>
    rw [answers_from_state F _ q hc₂' (fun h => by rw [hq] at h; cases h),
      answers_from_state F _ q hc₂ (fun h => by rw [hq] at h; cases h)]
    congr 1
    simp only [abs]
    rw [map_cells_congr o₂.fc (fun a ha => (hcell a (Or.inl ha)).1),
      map_cells_congr o₂.nac (fun a ha => (hcell a (Or.inr (Or.inl ha))).1),
      map_cells_congr o₂.dataset (fun a ha => (hcell a (Or.inr (Or.inr (Or.inl ha)))).1)]

/-- **copy() yields an independent object**: the copy reaches no array at all (it carries the
structure and the masses only), so using the copy never changes an answer of the original, and
using the original never changes an answer of the copy. -/
theorem copy_independent (F : Fns) (s : St) (c : Obj) (hc : Coherent F s)
    (hcopy : (step F s .copy).2 = .copied c) :
    c.refs = [] ∧ (step F s .copy).1 = s ∧
    (∀ ops q, (∀ op ∈ ops, ∀ a ∈ op.named, ¬ Reach s.o a) →
      (step F ⟨(run F ⟨s.h, c⟩ ops).h, s.o⟩ (.query q)).2.obs = (step F s (.query q)).2.obs) ∧
    (∀ ops q, (step F ⟨(run F s ops).h, c⟩ (.query q)).2.obs = (step F ⟨s.h, c⟩ (.query q)).2.obs) := by
  have hcq : c = Obj.init s.o.masses s.o.fsf s.o.gvDeltaQ := by
    simp only [step, Out.copied.injEq] at hcopy; exact hcopy.symm
  have hnone : ∀ r, ¬ Reach c r := by
    intro r hr; rw [hcq] at hr; simp [Reach, Obj.init] at hr
  refine ⟨by rw [hcq]; rfl, rfl, ?_, ?_⟩
  · intro ops q hn
    exact separate_objects_independent F s.h c s.o ops q hc (fun r _ => hnone r) hn
  · intro ops q
    have hcc : Coherent F ⟨s.h, c⟩ := by
      rw [hcq]; constructor <;> simp [Obj.init]
    exact separate_objects_independent F s.h s.o c ops q hcc (fun r hr => absurd hr (hnone r))
      (fun op _ a _ hr => hnone a hr)

/-! ### non-vacuity -/

/-- a disciplined history through all three dynamical-matrix classes with in-place
symmetrisation, cutoff, a group-velocity object and the lazily built short-range constants;
its final state is coherent, has a Gonze–Lee object with the cache built, and answers as the
specification says. -/
def exHist : List Op :=
  [.newArr 5 true .fc, .setFc 0, .query .freqGV, .symmetrizeFc 1, .newArr 3 true .nac, .setNac (some 1),
   .query .freq, .setMasses 9, .cutoff 2, .newArr 2 true .nac, .setNac (some 2), .query .freqGV,
   .newArr 4 true .ds, .setDataset (some 3), .query .getDisps, .produceFc false, .symmetrizeFcSpaceGroup, .query .freq]

example : Disciplined Fex (St.init (some 1)) exHist := by decide
example : (run Fex (St.init (some 1)) exHist).o.dm.map (fun d => (d.cls, d.gonze)) = some (.gl, some 511) := by decide
example : (step Fex (run Fex (St.init (some 1)) exHist) (.query .freqGV)).2.obs
    = .phonons { ph := ⟨.gl, 511, some 5, 9⟩, gv := some ⟨.gl, 511, some 5, 9⟩ } := by decide
/-- the forces setter writes into the object's own copy: the caller's dataset (cell 0) keeps its
value, the object's dataset changes, the displaced supercells do not -/
def exForces : List Op := [.newArr 4 true .ds, .setDataset (some 0), .query .getDisps, .setForces 2, .produceFcWith 1]
example : Disciplined Fex (St.init (some 1)) exForces := by decide
example : (run Fex (St.init (some 1)) exForces).h.cells 0 = 4 ∧
    (step Fex (run Fex (St.init (some 1)) exForces) (.query .getDataset)).2.obs = .val (some 5004) ∧
    (step Fex (run Fex (St.init (some 1)) exForces) (.query .getDisps)).2.obs = .val (some 4) := by decide
/-- `generate_displacements` gives a dataset without forces; compact force constants cannot be
symmetrised by the space group -/
example : (step Fex (run Fex (St.init (some 1)) [.generate 1]) (.produceFc false)).2 = .err .noForces ∧
    (step Fex (run Fex (St.init (some 1)) [.generate 1, .setForces 0, .produceFc true]) .symmetrizeFcSpaceGroup).2
      = .err .notFull ∧
    (step Fex (run Fex (St.init (some 1)) [.generate 1, .setForces 0, .produceFc true, .symmetrizeFc 1, .cutoff 1])
      (.query .freq)).2.obs = .phonons { ph := ⟨.plain, 4065, none, 1⟩, gv := none } := by decide
/-- masses unknown (e.g. Tc): no dynamical matrix until masses are set -/
example : (step Fex (run Fex (St.init none) [.newArr 5 true .fc, .setFc 0]) (.query .freq)).2 = .err .noDM := by decide
example : (step Fex (run Fex (St.init none) [.newArr 5 true .fc, .setFc 0, .setMasses 3]) (.query .freq)).2.obs
    = .phonons { ph := ⟨.plain, 5, none, 3⟩, gv := none } := by decide

end PhononModel.C15

#print axioms PhononModel.C15.Fex_lawful
#print axioms PhononModel.C15.coherent_init
#print axioms PhononModel.C15.coherent_step_partial
#print axioms PhononModel.C15.coherent_reachable_partial
#print axioms PhononModel.C15.coherent_mutate_fc_alias_partial
#print axioms PhononModel.C15.disciplined_of_no_mutation
#print axioms PhononModel.C15.answers_from_state
#print axioms PhononModel.C15.refinement
#print axioms PhononModel.C15.history_independent
#print axioms PhononModel.C15.history_independent_runs
#print axioms PhononModel.C15.refinement_counterexample
#print axioms PhononModel.C15.coherent_step_counterexample
#print axioms PhononModel.C15.same_masses_noop
#print axioms PhononModel.C15.same_masses_noop_fsf_counterexample
#print axioms PhononModel.C15.refinement_fsf_counterexample
#print axioms PhononModel.C15.derived_never_invalidated
#print axioms PhononModel.C15.derived_current_step_partial
#print axioms PhononModel.C15.derived_current_run_partial
#print axioms PhononModel.C15.derived_stale_counterexample
#print axioms PhononModel.C15.thermal_properties_stale_counterexample
#print axioms PhononModel.C15.gv_delta_q_constant
#print axioms PhononModel.C15.gv_config_reachable
#print axioms PhononModel.C15.no_alias_in_counterexample
#print axioms PhononModel.C15.no_alias_in_partial
#print axioms PhononModel.C15.no_alias_out_counterexample
#print axioms PhononModel.C15.no_alias_out_partial
#print axioms PhononModel.C15.separate_objects_independent
#print axioms PhononModel.C15.copy_independent
