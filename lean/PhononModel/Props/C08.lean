import PhononModel.Model.NAC
import PhononModel.Lemmas.Basic
namespace PhononModel.C08
theorem placeholder : (1 : Nat) = 1 := rfl
end PhononModel.C08
#print axioms PhononModel.C08.placeholder
