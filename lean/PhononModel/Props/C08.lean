import PhononModel.Lemmas.NAC
import PhononModel.Lemmas.GList
import Mathlib.Tactic.FinCases
import Mathlib.Tactic.NormNum
/-!
# C08 — the non-analytical term correction has the right limits

Theorems are about `PhononModel/Model/NAC.lean` (Wang's method and the reciprocal part of the
Gonze–Lee method, symmetrisation of Born charges), over every ordered field (ℚ — the driver's
scalars — and ℝ), for all force constants, masses, Born charges, dielectric tensors, directions,
factors.  `exp(−K·ε·K/4Λ²)` and the phase factors are parameters.  The commensurate statements use
the structural description of the phases of C06 (`Lat.wf` certificate, evaluated by `./check C06`
on the implementation's tables).
-/
set_option linter.unusedSectionVars false
namespace PhononModel.C08
open PhononModel PhononModel.C06 Finset

variable {K : Type} [Field K] [LinearOrder K] [IsStrictOrderedRing K]
variable {np ns nr : Nat}

/-! ## zero Born charges -/

/-- (1a) Wang: `Z = 0` ⇒ the corrected matrix is the uncorrected one, at every q, with or
without direction. -/
theorem zero_born_noop (T : FTables np ns nr) (fc : Fin nr → Fin ns → Fin 3 → Fin 3 → K)
    (ms : Fin np → Fin np → K) (ph : Phases np ns K) (f : K) (qc : V3 K) (dir : Option (V3 K))
    (tolSq : K) (eps : T3 K) :
    wangDynmat T fc ms ph f qc dir tolSq eps (fun _ _ _ => 0) = dynmat T fc ms ph := by
  unfold wangDynmat
  split
  · rfl
  · simp only [wangChargeSum, chargeSum_zero_born, dynmatRawCS_zero, dynmat]

/-- (1b) Gonze–Lee: `Z = 0` ⇒ `dd_q0 = 0` and the reciprocal dipole–dipole term vanishes: the
matrix is the one of the short-range force constants (which by C06 `roundtrip_fc` are the input
force constants, nothing having been subtracted). -/
theorem zero_born_noop_gl {nG : Nat} (T : FTables np ns nr) (fcSR : Fin nr → Fin ns → Fin 3 → Fin 3 → K)
    (ms : Fin np → Fin np → K) (ph : Phases np ns K) (G : Fin nG → V3 K) (qc : V3 K) (dir : Option (V3 K))
    (eps : T3 K) (tolSq : K) (expv : Fin nG → K) (phG : Fin nG → Fin np → Fin np → Cx K) (factor : K) :
    (ddQ0 G eps (fun (_ : Fin np) _ _ => (0 : K)) tolSq expv phG = fun _ _ _ => ⟨0, 0⟩) ∧
    glDynmat T fcSR ms ph G qc dir eps (fun _ _ _ => 0) tolSq expv phG
        (ddQ0 G eps (fun _ _ _ => 0) tolSq expv phG) factor = dynmat T fcSR ms ph := by
  have h0 : ddQ0 G eps (fun (_ : Fin np) _ _ => (0 : K)) tolSq expv phG = fun _ _ _ => ⟨0, 0⟩ := by
    funext i a b
    simp [ddQ0, ddQ0Of, multiplyBorns_zero_born, sumFin_eq]
  refine ⟨h0, ?_⟩
  rw [h0]
  funext i a j b
  simp only [glDynmat, addDD, recipDD, recipDDOf, multiplyBorns_zero_born]
  split <;> simp

/-! ## Wang's method -/

/-- (2) the direction enters only through its direction: `n ↦ c·n`, `c ≠ 0`, changes nothing. -/
theorem wang_direction_scale_invariant (T : FTables np ns nr) (fc : Fin nr → Fin ns → Fin 3 → Fin 3 → K)
    (ms : Fin np → Fin np → K) (ph : Phases np ns K) (f : K) (qc n : V3 K) (c : K) (hc : c ≠ 0)
    (tolSq : K) (eps : T3 K) (born : Fin np → T3 K) :
    wangDynmat T fc ms ph f qc (some fun i => c * n i) tolSq eps born =
      wangDynmat T fc ms ph f qc (some n) tolSq eps born := by
  unfold wangDynmat nacVector
  by_cases hq : normSq qc < tolSq
  · simp only [if_pos hq, wangChargeSum_smul f (ns / np) c hc]
  · simp only [if_neg hq]

/-- (3) **Γ-limit, closed form**: at the zone centre (all phase factors 1, `n = ns/np` atoms per
sublattice) approached along `n` the matrix is the uncorrected one plus
`f (n·Z_j)_a (n·Z_j')_b / (n·ε·n) / sqrt(m_j m_j')` (`f = 4π/V · unit factor`). -/
theorem wang_gamma_limit (T : FTables np ns nr) (fc : Fin nr → Fin ns → Fin 3 → Fin 3 → K)
    (ms : Fin np → Fin np → K) (ph : Phases np ns K) (f : K) (qc n : V3 K) (tolSq : K) (eps : T3 K)
    (born : Fin np → T3 K) (hq : normSq qc < tolSq)
    (hph : ∀ k i, avgDivEach (ph k i) = ⟨1, 0⟩)
    (hcount : ∀ j, (Finset.univ.filter fun k => T.s2p k = (T.p2s j).1).card = ns / np)
    (hn : 0 < ns / np) (hd : dielectricPart n eps ≠ 0) (hms : ∀ i j, ms i j ≠ 0)
    (hsym : ∀ i j, ms j i = ms i j) :
    wangDynmat T fc ms ph f qc (some n) tolSq eps born =
      fun i a j b => ⟨(dynmat T fc ms ph i a j b).re
                        + f * qBorn n born i a * qBorn n born j b / dielectricPart n eps / ms i j,
                      (dynmat T fc ms ph i a j b).im⟩ := by
  have hn' : ((ns / np : ℕ) : K) ≠ 0 := Nat.cast_ne_zero.mpr (Nat.pos_iff_ne_zero.mp hn)
  unfold wangDynmat nacVector
  rw [if_pos hq]
  simp only []
  have e : dynmatRawCS T fc ms ph (wangChargeSum f (ns / np) n eps born) =
      fun i a j b => ⟨(dynmatRaw T fc ms ph i a j b).re
                        + f * qBorn n born i a * qBorn n born j b / dielectricPart n eps / ms i j,
                      (dynmatRaw T fc ms ph i a j b).im⟩ := by
    funext i a j b
    rw [dynmatRawCS_eq]
    have h1 : (phaseSum T ph i j).re = ((ns / np : ℕ) : K) := by
      simp only [phaseSum, hph, Finset.sum_boole, hcount]
    have h2 : (phaseSum T ph i j).im = 0 := by
      simp [phaseSum, hph]
    rw [h1, h2]
    have := hms i j
    congr 1
    · simp only [wangChargeSum, chargeSum]; field_simp
    · simp
  rw [e, hermitize_add_real_sym _ (fun i a j b => f * qBorn n born i a * qBorn n born j b / dielectricPart n eps / ms i j)]
  · rfl
  · intro i a j b; rw [hsym]; ring

/-- (4) **no-op at commensurate points**: at a q commensurate with the supercell that is not a
reciprocal lattice point the phases of every sublattice sum to zero (character orthogonality over
the lattice points of the supercell), so the constant added to every block contributes exactly
nothing — for every Born charge, dielectric tensor, factor and direction. -/
theorem wang_commensurate_noop {N : Nat} (L : Lat np ns N) (hwf : L.wf = true) (Z : Zeta K L.Nd)
    (ψ : Fin N → Fin np → Fin np → Cx K) (mult : Fin ns → Fin np → Nat) (hm : ∀ k i, 0 < mult k i)
    (q q0 : Fin N) (hq0 : P3.Dvd L.Nd (L.kq q0)) (hq : q ≠ q0)
    (Φ : CFC np ns K) (ms : Fin np → Fin np → K) (f : K) (qc : V3 K) (dir : Option (V3 K)) (tolSq : K)
    (eps : T3 K) (born : Fin np → T3 K) :
    wangDynmat (cT L) Φ ms (phF L Z ψ mult q) f qc dir tolSq eps born = dynmat (cT L) Φ ms (phF L Z ψ mult q) := by
  unfold wangDynmat
  split
  · rfl
  · unfold dynmat
    congr 1
    funext i a j b
    rw [dynmatRawCS_eq, phaseSum_commensurate (L.wf_sound hwf) Z ψ mult hm q q0 hq0 hq]
    simp

/-! ## Gonze–Lee, reciprocal part -/

/-- (5) **Γ-limit**: at `q = 0` the only term of the reciprocal sum that depends on the direction
is `G = 0`; with direction `d` it adds `factor · (d·Z_i)_a (d·Z_j)_b / (d·ε·d)` — the same closed
form as Wang's (before the division by `sqrt(m_i m_j)` done by `addDD`). -/
theorem gl_gamma_limit {nG : Nat} (G : Fin nG → V3 K) (d : V3 K) (eps : T3 K) (born : Fin np → T3 K)
    (tolSq : K) (expv : Fin nG → K) (phG : Fin nG → Fin np → Fin np → Cx K)
    (ddq0 : Fin np → Fin 3 → Fin 3 → Cx K) (factor : K) (g0 : Fin nG)
    (hg0 : normSq (fun i => G g0 i + 0) < tolSq) (hother : ∀ g, g ≠ g0 → ¬ normSq (fun i => G g i + 0) < tolSq)
    (hph : ∀ i j, phG g0 i j = ⟨1, 0⟩) (i : Fin np) (a : Fin 3) (j : Fin np) (b : Fin 3) :
    recipDD G (fun _ => 0) (some d) eps born tolSq expv phG ddq0 factor i a j b =
      ⟨(recipDD G (fun _ => 0) none eps born tolSq expv phG ddq0 factor i a j b).re
          + factor * (qBorn d born i a * qBorn d born j b / dielectricPart d eps),
       (recipDD G (fun _ => 0) none eps born tolSq expv phG ddq0 factor i a j b).im⟩ := by
  have hkk : ∀ g a b, kkTensor (G g) (fun _ => 0) (some d) eps tolSq (expv g) a b =
      kkTensor (G g) (fun _ => 0) none eps tolSq (expv g) a b + if g = g0 then d a * d b / dielectricPart d eps else 0 := by
    intro g a b
    have hg0' : normSq (fun i => G g0 i) < tolSq := by simpa using hg0
    by_cases hg : g = g0
    · subst hg; simp [kkTensor, hg0']
    · have hn : ¬ normSq (fun i => G g i) < tolSq := by simpa using hother g hg
      simp [kkTensor, hn, hg]
  have hdd : getDD G (fun _ => 0) (some d) eps tolSq expv phG =
      fun i a j b => ⟨(getDD G (fun _ => 0) none eps tolSq expv phG i a j b).re + d a * d b / dielectricPart d eps,
                      (getDD G (fun _ => 0) none eps tolSq expv phG i a j b).im⟩ := by
    funext i a j b
    simp only [getDD, getDDOf, sumFin_eq, hkk, add_mul, Finset.sum_add_distrib, ite_mul, zero_mul,
      Finset.sum_ite_eq', Finset.mem_univ, if_true, hph]
    simp
  simp only [recipDD, recipDDOf]
  rw [hdd]
  simp only [multiplyBorns_add_real, rank_one_born]
  split <;> (congr 1; ring)

/-- (6) **commensurate points of the first zone** (`gl_commensurate_partial`): the short-range
force constants are the inverse transform of `D(q) − dd(q)/sqrt(mm')` at the commensurate points
(`make_Gonze_nac_dataset`); adding the same `dd(q)` back (same `G` list, same `Λ`, same
representative of q) returns `D(q)` exactly.  Hypotheses: the subtracted family is Hermitian and
has the time-reversal structure up to the zone factor (C06 `roundtrip_dm`).  For representatives of q outside the first
zone `dd` differs by the truncation of the reciprocal sum — not covered (oracle only). -/
theorem gl_commensurate_partial {N : Nat} (L : Lat np ns N) (hwf : L.wf = true) (hN : 0 < N) (Z : Zeta K L.Nd)
    (ψ : Fin N → Fin np → Fin np → Cx K) (hψ : ∀ q j i, (ψ q j i).conj * ψ q j i = 1)
    (mult : Fin ns → Fin np → Nat) (hm : ∀ k i, 0 < mult k i)
    (ms : Fin np → Fin np → K) (hms : ∀ i j, ms i j ≠ 0) (D dd : Fin N → DM np K)
    (hH : ∀ q, IsHermitian (fun i a j b => (⟨(D q i a j b).re - (dd q i a j b).re / ms i j,
                                              (D q i a j b).im - (dd q i a j b).im / ms i j⟩ : Cx K)))
    (hTR : ∀ q q', P3.Dvd L.Nd ((L.kq q).add (L.kq q')) → ∀ i a j b,
      (⟨(D q' i a j b).re - (dd q' i a j b).re / ms i j, (D q' i a j b).im - (dd q' i a j b).im / ms i j⟩ : Cx K)
        = (ψ q' j i * ψ q j i) *
          (⟨(D q i a j b).re - (dd q i a j b).re / ms i j, (D q i a j b).im - (dd q i a j b).im / ms i j⟩ : Cx K).conj)
    (q' : Fin N) :
    addDD (dynmat (cT L)
        (dynmatToFc L.s2pp (fun q i a j b => ⟨(D q i a j b).re - (dd q i a j b).re / ms i j,
                                              (D q i a j b).im - (dd q i a j b).im / ms i j⟩) ms (phI L Z ψ mult))
        ms (phF L Z ψ mult q')) (dd q') ms = D q' := by
  unfold dynmat
  rw [roundtrip_dm_raw (L.wf_sound hwf) hN Z ψ hψ mult hm ms hms _ q' (fun q hd => hTR q q' hd), hermitize_of_hermitian _ (hH q')]
  funext i a j b
  ext <;> simp [addDD]

/-! ## Hermiticity, time reversal, and the list of reciprocal vectors -/

theorem gListWf_sound {nG : Nat} {G : Fin nG → V3 K} {nu : Fin nG → Fin nG} (h : gListWf G nu = true) :
    ∃ ν : Fin nG ≃ Fin nG, (∀ g, ν g = nu g) ∧ GSym G ν := by
  have hinv : ∀ g, nu (nu g) = g ∧ ∀ i, G (nu g) i = -G g i := by
    intro g
    simp only [gListWf, List.all_eq_true, List.mem_finRange, forall_const, Bool.and_eq_true, beq_iff_eq] at h
    exact h g
  exact ⟨⟨nu, nu, fun g => (hinv g).1, fun g => (hinv g).1⟩, fun _ => rfl, ⟨fun g i => (hinv g).2 i⟩⟩

/-- (8a) the Gonze–Lee matrix is Hermitian (phases of `(j,i)` conjugate to those of `(i,j)`,
Hermitian `dd_q0` blocks, symmetric `sqrt(m_i m_j)`), for every list of reciprocal vectors. -/
theorem gl_hermitian {nG : Nat} (T : FTables np ns nr) (fcSR : Fin nr → Fin ns → Fin 3 → Fin 3 → K)
    (ms : Fin np → Fin np → K) (ph : Phases np ns K) (G : Fin nG → V3 K) (qc : V3 K) (dir : Option (V3 K))
    (eps : T3 K) (born : Fin np → T3 K) (tolSq : K) (expv : Fin nG → K) (phG : Fin nG → Fin np → Fin np → Cx K)
    (ddq0 : Fin np → Fin 3 → Fin 3 → Cx K) (factor : K)
    (hph : ∀ g i j, phG g j i = (phG g i j).conj) (hq0 : ∀ i a b, ddq0 i b a = (ddq0 i a b).conj)
    (hsym : ∀ i j, ms j i = ms i j) :
    IsHermitian (glDynmat T fcSR ms ph G qc dir eps born tolSq expv phG ddq0 factor) :=
  glDynmat_isHermitian T fcSR ms ph G qc dir eps born tolSq expv phG ddq0 factor hph hq0 hsym

/-- (8b) **`D_GL(−q) = conj D_GL(q)`** when the list of reciprocal vectors passes the certificate
`gListWf` (symmetric under `G ↦ −G`; evaluated on the implementation's `G_list`) and `dd_q0` is
real.  `−q` is the Cartesian vector `−q_cart` itself; for the representative `−q + G₀` of another
zone the truncated sum runs over a shifted set and the identity holds only up to the neglected tail. -/
theorem gl_time_reversal {nG : Nat} (T : FTables np ns nr) (fcSR : Fin nr → Fin ns → Fin 3 → Fin 3 → K)
    (ms : Fin np → Fin np → K) (ph : Phases np ns K) (G : Fin nG → V3 K) (nu : Fin nG → Fin nG)
    (hG : gListWf G nu = true) (qc : V3 K) (dir : Option (V3 K)) (eps : T3 K) (born : Fin np → T3 K) (tolSq : K)
    (expv expv' : Fin nG → K) (phG : Fin nG → Fin np → Fin np → Cx K) (ddq0 : Fin np → Fin 3 → Fin 3 → Cx K)
    (factor : K) (he : ∀ g, expv' (nu g) = expv g) (hp : ∀ g i j, phG (nu g) i j = (phG g i j).conj)
    (hreal : ∀ i a b, (ddq0 i a b).im = 0) :
    glDynmat T fcSR ms (conjPh ph) G (fun i => -qc i) dir eps born tolSq expv' phG ddq0 factor =
      conjDM (glDynmat T fcSR ms ph G qc dir eps born tolSq expv phG ddq0 factor) := by
  obtain ⟨ν, hν1, hν⟩ := gListWf_sound hG
  exact glDynmat_time_reversal T fcSR ms ph G ν hν qc dir eps born tolSq expv expv' phG ddq0 factor
    (fun g => by rw [hν1]; exact he g) (fun g i j => by rw [hν1]; exact hp g i j) hreal

/-- (8c) `dd_q0` as the model computes it: every 3×3 block is Hermitian, and real when the list is
`G ↦ −G` symmetric — hence real symmetric. -/
theorem dd_q0_hermitian_real {nG : Nat} (G : Fin nG → V3 K) (nu : Fin nG → Fin nG) (hG : gListWf G nu = true)
    (eps : T3 K) (born : Fin np → T3 K) (tolSq : K) (expv : Fin nG → K) (phG : Fin nG → Fin np → Fin np → Cx K)
    (he : ∀ g, expv (nu g) = expv g) (hp : ∀ g i j, phG (nu g) i j = (phG g i j).conj) (i : Fin np) (a b : Fin 3) :
    ddQ0 G eps born tolSq expv phG i b a = (ddQ0 G eps born tolSq expv phG i a b).conj ∧
    (ddQ0 G eps born tolSq expv phG i a b).im = 0 := by
  obtain ⟨ν, hν1, hν⟩ := gListWf_sound hG
  exact ⟨ddQ0Of_hermitian _ i a b,
    ddQ0_real G ν hν eps born tolSq expv phG (fun g => by rw [hν1]; exact he g) (fun g i j => by rw [hν1]; exact hp g i j) i a b⟩

/-- (8d) the modelled `_get_G_list` is symmetric under `G ↦ −G` for every index radius … -/
theorem g_list_symmetric (rec : T3 K) (cutoffSq : K) (r : Nat) (n : I3) (h : n ∈ gList rec cutoffSq r) :
    n.neg ∈ gList rec cutoffSq r :=
  gList_neg_closed rec cutoffSq r n h

/-- … and it is the complete set `{G : |G|² < G_cutoff²}` whenever the index radius `r` satisfies
`|a_i|² G_cutoff² ≤ (r+1)²` for the three real lattice vectors `a_i` (rows of `cell = rec⁻¹`). -/
theorem g_list_complete (rec cell : T3 K) (cutoffSq : K) (r : Nat)
    (hinv : ∀ i j, cell i 0 * rec 0 j + cell i 1 * rec 1 j + cell i 2 * rec 2 j = if i = j then 1 else 0)
    (hr : ∀ i, (cell i 0 * cell i 0 + cell i 1 * cell i 1 + cell i 2 * cell i 2) * cutoffSq ≤ ((r : K) + 1) ^ 2)
    (n : I3) : n ∈ gList rec cutoffSq r ↔ normSq (gVec rec n) < cutoffSq :=
  gList_complete rec cutoffSq r (gList_radius_sufficient rec cell cutoffSq r hinv hr) n

/-- … in particular for the radius `safeGRad` (`⌊G_cutoff·max|a_i|⌋ + 1`, the proposed fix), when it is
found below the cap. -/
theorem g_list_complete_safe (rec cell : T3 K) (cutoffSq : K) (cap : Nat)
    (hinv : ∀ i j, cell i 0 * rec 0 j + cell i 1 * rec 1 j + cell i 2 * rec 2 j = if i = j then 1 else 0)
    (hfound : ∃ k, ((List.range cap).map fun (k : Nat) => k + 1).find? (fun (k : Nat) =>
      (List.finRange 3).all fun i => decide (normSq (cell i) * cutoffSq < (k : K) * (k : K))) = some k)
    (n : I3) : n ∈ gList rec cutoffSq (safeGRad cell cutoffSq cap) ↔ normSq (gVec rec n) < cutoffSq := by
  obtain ⟨k, hk⟩ := hfound
  have hs : safeGRad cell cutoffSq cap = k := by simp only [safeGRad, hk]
  rw [hs]
  have hp := List.find?_some hk
  simp only [List.all_eq_true, List.mem_finRange, forall_const, decide_eq_true_eq] at hp
  apply g_list_complete rec cell cutoffSq k hinv
  intro i
  have h1 := hp i
  have e : normSq (cell i) = cell i 0 * cell i 0 + cell i 1 * cell i 1 + cell i 2 * cell i 2 := by
    simp only [normSq, sumFin_eq, Fin.sum_univ_three]
  rw [e] at h1
  have : (k : K) * (k : K) ≤ ((k : K) + 1) ^ 2 := by nlinarith [Nat.cast_nonneg (α := K) k]
  linarith

/-- a skewed basis: real lattice `a₁ = (1,2,0), a₂ = (0,1,0), a₃ = (0,0,1)` -/
def recSkew : T3 ℚ := fun i j => if i = 0 ∧ j = 0 then 1 else if i = 0 ∧ j = 1 then -2 else if i = j then 1 else 0

/-- (8e) **the index radius chosen by `_get_minimum_g_rad` is not sufficient for skewed bases**
(finding): for `recSkew` and `G_cutoff² = 5` it returns 3, but `G = rec·(4,2,0) = (0,2,0)` has
`|G|² = 4 < 5` and index 4 — the vector is missing from the list. -/
theorem minGRad_insufficient :
    minGRad recSkew 5 10 = 3 ∧ normSq (gVec recSkew (4, 2, 0)) < 5 ∧
      (4, 2, 0) ∉ gList recSkew 5 (minGRad recSkew 5 10) := by
  have h1 : minGRad recSkew 5 10 = 3 := by decide +kernel
  refine ⟨h1, by decide +kernel, ?_⟩
  rw [h1, mem_gList]
  intro h
  have := mem_gIndices.mp h.1
  omega

/-! ## symmetrisation of Born charges and dielectric tensor -/

def one3 : T3 K := fun a b => if a = b then 1 else 0

theorem groupWf_sound {n ng : Nat} {r : Fin ng → C06.Mat3} {perm : Fin ng → Fin n → Fin n}
    {mul : Fin ng → Fin ng → Fin ng} (h : groupWf r perm mul = true) :
    0 < ng ∧ (∀ h g i, perm (mul h g) i = perm g (perm h i)) ∧ (∀ h, Function.Injective (mul h)) := by
  simp only [groupWf, Bool.and_eq_true, List.all_eq_true, List.mem_finRange, forall_const, decide_eq_true_eq,
    beq_iff_eq, Bool.or_eq_true, bne_iff_ne, ne_eq] at h
  obtain ⟨⟨⟨h1, h2⟩, h3⟩, _⟩ := h
  refine ⟨h1, fun h g i => (h2 h g).2 i, ?_⟩
  intro h g g' e
  rcases h3 h g g' with h' | h'
  · exact absurd e h'
  · exact h'

/-- (7) **group average + sum rule is a projection** (`symmetrize_borns_and_epsilon` on the Born
charges): for operations whose tables pass `groupWf` and whose Cartesian rotations are a
representation (`R(hg) = R(h)R(g)`, `R R⁻¹ = 1`, checked numerically per case). -/
theorem born_symmetrize_projection {n ng : Nat} (r : Fin ng → C06.Mat3) (perm : Fin ng → Fin n → Fin n)
    (mul : Fin ng → Fin ng → Fin ng) (hwf : groupWf r perm mul = true) (hn : 0 < n)
    (R Rinv : Fin ng → T3 K) (hR : ∀ h g, R (mul h g) = matMul3 (R h) (R g))
    (hinv : ∀ g, matMul3 (R g) (Rinv g) = one3 ∧ matMul3 (Rinv g) (R g) = one3) (Z : Fin n → T3 K) :
    symBorns R Rinv perm (symBorns R Rinv perm Z) = symBorns R Rinv perm Z := by
  obtain ⟨hng, hperm, hinj⟩ := groupWf_sound hwf
  have hone : (Matrix.of (one3 : T3 K) : M3 K) = 1 := by
    ext a b; simp [one3, Matrix.one_apply]
  have G : GroupRep (fun g => (Matrix.of (R g) : M3 K)) (fun g => Matrix.of (Rinv g)) perm mul := by
    refine ⟨?_, ?_, hperm, hinj⟩
    · intro h g; simp only [hR, matMul3_eq]
    · intro g
      constructor
      · rw [← matMul3_eq, (hinv g).1, hone]
      · rw [← matMul3_eq, (hinv g).2, hone]
  have key : ∀ Z : Fin n → T3 K, (fun i => (Matrix.of (symBorns R Rinv perm Z i) : M3 K)) =
      fun i => avgM (fun g => (Matrix.of (R g) : M3 K)) (fun g => Matrix.of (Rinv g)) perm (fun i => Matrix.of (Z i)) i
        - ((n : K)⁻¹) • ∑ j, avgM (fun g => (Matrix.of (R g) : M3 K)) (fun g => Matrix.of (Rinv g)) perm (fun i => Matrix.of (Z i)) j := by
    intro Z
    unfold symBorns
    rw [sumRule_eq]
    have := avgBorns_eq R Rinv perm Z
    funext i
    rw [congrFun this i]
    congr 2
    apply Finset.sum_congr rfl
    intro j _
    exact congrFun this j
  have h2 := key (symBorns R Rinv perm Z)
  have h1 := key Z
  have e : (fun i => (Matrix.of (symBorns R Rinv perm Z i) : M3 K)) = fun i => (Matrix.of (symBorns R Rinv perm Z i) : M3 K) := rfl
  have hid := G.sym_idem hng hn (fun i => (Matrix.of (Z i) : M3 K))
  simp only at hid
  rw [← h1] at hid
  rw [hid] at h2
  funext i
  have := congrFun h2 i
  exact Matrix.of.injective this

/-- the dielectric tensor: the plain group average is a projection. -/
theorem epsilon_symmetrize_projection {ng : Nat} (r : Fin ng → C06.Mat3) (perm : Fin ng → Fin 1 → Fin 1)
    (mul : Fin ng → Fin ng → Fin ng) (hwf : groupWf r perm mul = true)
    (R Rinv : Fin ng → T3 K) (hR : ∀ h g, R (mul h g) = matMul3 (R h) (R g))
    (hinv : ∀ g, matMul3 (R g) (Rinv g) = one3 ∧ matMul3 (Rinv g) (R g) = one3) (E : T3 K) :
    symTensor R Rinv (symTensor R Rinv E) = symTensor R Rinv E := by
  obtain ⟨hng, hperm, hinj⟩ := groupWf_sound hwf
  have hone : (Matrix.of (one3 : T3 K) : M3 K) = 1 := by
    ext a b; simp [one3, Matrix.one_apply]
  have hp : ∀ g i, perm g i = i := fun g i => Subsingleton.elim _ _
  have G : GroupRep (fun g => (Matrix.of (R g) : M3 K)) (fun g => Matrix.of (Rinv g)) perm mul := by
    refine ⟨?_, ?_, hperm, hinj⟩
    · intro h g; simp only [hR, matMul3_eq]
    · intro g
      constructor
      · rw [← matMul3_eq, (hinv g).1, hone]
      · rw [← matMul3_eq, (hinv g).2, hone]
  have key : ∀ E : T3 K, (Matrix.of (symTensor R Rinv E) : M3 K) =
      avgM (fun g => (Matrix.of (R g) : M3 K)) (fun g => Matrix.of (Rinv g)) perm (fun _ => Matrix.of E) 0 := by
    intro E
    ext a b
    simp only [symTensor, avgM, sumFin_eq, Matrix.of_apply, Matrix.smul_apply, Matrix.sum_apply, smul_eq_mul,
      ← similarity_eq]
    rw [div_eq_inv_mul]
  apply Matrix.of.injective
  rw [key (symTensor R Rinv E)]
  have h1 := key E
  have hc : (fun (_ : Fin 1) => (Matrix.of (symTensor R Rinv E) : M3 K)) =
      avgM (fun g => (Matrix.of (R g) : M3 K)) (fun g => Matrix.of (Rinv g)) perm (fun _ => Matrix.of E) := by
    funext i
    rw [h1]; congr 1; exact Subsingleton.elim _ _
  rw [hc, G.avg_idem hng, ← h1]

/-! ## the driver's staged evaluators compute exactly the model -/

attribute [local instance] cxZero

theorem glDynmatF_spec {nG : Nat} (T : FTables np ns nr) (fcSR : Fin nr → Fin ns → Fin 3 → Fin 3 → K)
    (ms : Fin np → Fin np → K) (ph : Phases np ns K) (G : Fin nG → V3 K) (qc : V3 K) (dir : Option (V3 K))
    (eps : T3 K) (born : Fin np → T3 K) (tolSq : K) (expv : Fin nG → K) (phG : Fin nG → Fin np → Fin np → Cx K)
    (ddq0 : Fin np → Fin 3 → Fin 3 → Cx K) (factor : K) :
    thaw4 (glDynmatF T fcSR ms ph G qc dir eps born tolSq expv phG ddq0 factor) =
      glDynmat T fcSR ms ph G qc dir eps born tolSq expv phG ddq0 factor := by
  simp only [glDynmatF, recipDDF, thaw4_freeze4, glDynmat, recipDD, getDD, dynmat]

theorem ddQ0F_spec {nG : Nat} (G : Fin nG → V3 K) (eps : T3 K) (born : Fin np → T3 K) (tolSq : K)
    (expv : Fin nG → K) (phG : Fin nG → Fin np → Fin np → Cx K) (i : Fin np) (a b : Fin 3) :
    thaw4 (d := 1) (ddQ0F G eps born tolSq expv phG) i a b 0 = ddQ0 G eps born tolSq expv phG i a b := by
  simp only [ddQ0F, thaw4_freeze4, ddQ0, getDD]

/-! ## non-vacuity -/

/-- the point group `{1, −1}` acting on one atom: a table set passing the certificate -/
example : groupWf (n := 1) (ng := 2)
    (fun g => if g = 0 then ((1, 0, 0), (0, 1, 0), (0, 0, 1)) else ((-1, 0, 0), (0, -1, 0), (0, 0, -1)))
    (fun _ i => i) (fun h g => h + g) = true := by decide

/-- hypotheses of `wang_commensurate_noop` are satisfiable: `Lex` (two cells), `ζ = −1`, the point
`q = 1/2` is not the zero point -/
example : Lex.wf = true ∧ P3.Dvd Lex.Nd (Lex.kq 0) ∧ (1 : Fin 2) ≠ 0 := ⟨Lex_wf, by decide, by decide⟩

/-- hypotheses of `born_symmetrize_projection` are satisfiable: identity and inversion, `R = ±1` -/
example : ∃ (R Rinv : Fin 2 → T3 ℚ), (∀ h g : Fin 2, R (h + g) = matMul3 (R h) (R g)) ∧
    (∀ g, matMul3 (R g) (Rinv g) = one3 ∧ matMul3 (Rinv g) (R g) = one3) := by
  refine ⟨fun g a b => if a = b then (if g = 0 then 1 else -1) else 0,
          fun g a b => if a = b then (if g = 0 then 1 else -1) else 0, ?_, ?_⟩
  · intro h g; funext a b
    fin_cases h <;> fin_cases g <;> fin_cases a <;> fin_cases b <;> simp [matMul3, sumFin_eq, Fin.sum_univ_three]
  · intro g
    constructor <;> funext a b <;> fin_cases g <;> fin_cases a <;> fin_cases b <;>
      simp [matMul3, one3, sumFin_eq, Fin.sum_univ_three]

/-- hypotheses of `wang_gamma_limit` are satisfiable: one atom, one cell, unit phase -/
example : (∀ j : Fin 1, (Finset.univ.filter fun k : Fin 1 => (fun _ => 0 : Fin 1 → Nat) k = ((fun _ => 0 : Fin 1 → Fin 1) j).1).card = 1 / 1) := by
  decide

end PhononModel.C08

#print axioms PhononModel.C08.zero_born_noop
#print axioms PhononModel.C08.zero_born_noop_gl
#print axioms PhononModel.C08.wang_direction_scale_invariant
#print axioms PhononModel.C08.wang_gamma_limit
#print axioms PhononModel.C08.wang_commensurate_noop
#print axioms PhononModel.C08.gl_gamma_limit
#print axioms PhononModel.C08.gl_commensurate_partial
#print axioms PhononModel.C08.gl_hermitian
#print axioms PhononModel.C08.gl_time_reversal
#print axioms PhononModel.C08.dd_q0_hermitian_real
#print axioms PhononModel.C08.g_list_symmetric
#print axioms PhononModel.C08.g_list_complete
#print axioms PhononModel.C08.g_list_complete_safe
#print axioms PhononModel.C08.minGRad_insufficient
#print axioms PhononModel.C08.born_symmetrize_projection
#print axioms PhononModel.C08.epsilon_symmetrize_projection
#print axioms PhononModel.C08.glDynmatF_spec
#print axioms PhononModel.C08.ddQ0F_spec
