import PhononModel.Lemmas.TetraAnalysis
import PhononModel.Lemmas.TetraTop
import PhononModel.Model.Dos
import PhononModel.Lemmas.Basic
import Mathlib.Algebra.BigOperators.Ring.Finset
/-!
# C11 — densities of states: non-negative, normalised, additive; tetrahedron weights

`Gen/TetraC.lean` is regenerated from `c/tetrahedron_method.c` on every run (`tools/tetra2lean.py`);
`Model/TetraPy.lean` is the hand-written model of `phonopy/structure/tetrahedron_method.py`;
`Model/Dos.lean` the weighted double sum of `phonon/dos.py` / `phpy_tetrahedron_method_dos`.
`./check C11` compares both models with the compiled C and the Python class on rational frequency fields.
-/
set_option linter.unusedSectionVars false
namespace PhononModel.C11
open PhononModel PhononModel.TetraLemmas Finset

variable {K : Type} [Field K] [LinearOrder K] [IsStrictOrderedRing K]

/-! ### sum rules: the four vertex weights of a tetrahedron add up to `n_i(ω)` resp. `g_i(ω)` -/

/-- `Σ_ci J i ci = 1` in each of the three inner intervals (Python model) -/
theorem J_sum (ω : K) (v : Fin 4 → K) (hd : Distinct v) (i : Fin 5)
    (h2 : i = 2 → TetraPy.n_2 ω v ≠ 0) (h3 : i = 3 → TetraPy.n_3 ω v ≠ 0) (hi : i = 1 ∨ i = 2 ∨ i = 3) :
    ∑ ci : Fin 4, TetraPy.J ω v i ci = 1 := by
  rw [Fin.sum_univ_four]
  rcases hi with rfl | rfl | rfl
  · exact J_sum_1 ω v hd
  · exact J_sum_2 ω v hd (h2 rfl)
  · exact J_sum_3 ω v hd (h3 rfl)

theorem I_sum (ω : K) (v : Fin 4 → K) (hd : Distinct v) (i : Fin 5)
    (h2 : i = 2 → TetraPy.gden ω v ≠ 0) (hi : i = 1 ∨ i = 2 ∨ i = 3) :
    ∑ ci : Fin 4, TetraPy.I ω v i ci = 1 := by
  rw [Fin.sum_univ_four]
  rcases hi with rfl | rfl | rfl
  · exact I_sum_1 ω v hd
  · exact I_sum_2 ω v hd (h2 rfl)
  · exact I_sum_3 ω v hd

/-- outside the spectrum: weights 0 below, `¼` each above (cumulative), 0 (density) -/
theorem J_I_outside (ω : K) (v : Fin 4 → K) (ci : Fin 4) :
    TetraPy.J ω v 0 ci = 0 ∧ TetraPy.J ω v 4 ci = 1 / 4 ∧ TetraPy.I ω v 0 ci = 0 ∧ TetraPy.I ω v 4 ci = 0 ∧
    TetraPy.n ω v 0 = 0 ∧ TetraPy.n ω v 4 = 1 ∧ TetraPy.g ω v 0 = 0 ∧ TetraPy.g ω v 4 = 0 := by
  simp [TetraPy.J, TetraPy.I, TetraPy.n, TetraPy.g, TetraPy.J_0, TetraPy.J_4, TetraPy.I_0, TetraPy.I_4, TetraPy.n_0,
    TetraPy.n_4, TetraPy.g_0, TetraPy.g_4]

/-- the same sum rules for the translated C (build without THM_EPSILON) -/
theorem J_sum_c (ω : K) (v : Fin 4 → K) (hs : Sorted v) :
    (v 0 < ω → ω < v 1 → ∑ ci : Fin 4, TetraC.J none 1 ci.1 ω v = 1) ∧
    (v 1 < ω → ω < v 2 → ∑ ci : Fin 4, TetraC.J none 2 ci.1 ω v = 1) ∧
    (v 2 < ω → ω < v 3 → ∑ ci : Fin 4, TetraC.J none 3 ci.1 ω v = 1) := by
  refine ⟨fun _ _ => ?_, fun h1 h2 => ?_, fun h2 h3 => ?_⟩
  · exact (Finset.sum_congr rfl (fun ci _ => c_J ω v 1 ci)).trans
      (J_sum ω v hs.distinct 1 (fun h => absurd h (by decide)) (fun h => absurd h (by decide)) (Or.inl rfl))
  · exact (Finset.sum_congr rfl (fun ci _ => c_J ω v 2 ci)).trans
      (J_sum ω v hs.distinct 2 (fun _ => ne_of_gt (n_2_range hs h1 h2).1) (fun h => absurd h (by decide))
        (Or.inr (Or.inl rfl)))
  · exact (Finset.sum_congr rfl (fun ci _ => c_J ω v 3 ci)).trans
      (J_sum ω v hs.distinct 3 (fun h => absurd h (by decide)) (fun _ => ne_of_gt (n_3_range hs h2 h3).1)
        (Or.inr (Or.inr rfl)))

theorem I_sum_c (ω : K) (v : Fin 4 → K) (hs : Sorted v) :
    (v 0 < ω → ω < v 1 → ∑ ci : Fin 4, TetraC.I none 1 ci.1 ω v = 1) ∧
    (v 1 < ω → ω < v 2 → ∑ ci : Fin 4, TetraC.I none 2 ci.1 ω v = 1) ∧
    (v 2 < ω → ω < v 3 → ∑ ci : Fin 4, TetraC.I none 3 ci.1 ω v = 1) := by
  refine ⟨fun _ _ => ?_, fun h1 h2 => ?_, fun _ _ => ?_⟩
  · exact (Finset.sum_congr rfl (fun ci _ => c_I ω v 1 ci)).trans
      (I_sum ω v hs.distinct 1 (fun h => absurd h (by decide)) (Or.inl rfl))
  · exact (Finset.sum_congr rfl (fun ci _ => c_I ω v 2 ci)).trans
      (I_sum ω v hs.distinct 2 (fun _ => ne_of_gt (gden_pos hs h1 h2)) (Or.inr (Or.inl rfl)))
  · exact (Finset.sum_congr rfl (fun ci _ => c_I ω v 3 ci)).trans
      (I_sum ω v hs.distinct 3 (fun h => absurd h (by decide)) (Or.inr (Or.inr rfl)))

/-! ### ranges on strictly ordered vertices, ω strictly inside an interval -/

/-- `0 < n_i(ω) < 1` -/
theorem n_range (ω : K) (v : Fin 4 → K) (hs : Sorted v) :
    (v 0 < ω → ω < v 1 → 0 < TetraPy.n ω v 1 ∧ TetraPy.n ω v 1 < 1) ∧
    (v 1 < ω → ω < v 2 → 0 < TetraPy.n ω v 2 ∧ TetraPy.n ω v 2 < 1) ∧
    (v 2 < ω → ω < v 3 → 0 < TetraPy.n ω v 3 ∧ TetraPy.n ω v 3 < 1) :=
  ⟨fun a b => n_1_range hs a b, fun a b => n_2_range hs a b, fun a b => n_3_range hs a b⟩

theorem g_nonneg (ω : K) (v : Fin 4 → K) (hs : Sorted v) :
    (v 0 < ω → ω < v 1 → 0 < TetraPy.g ω v 1) ∧ (v 1 < ω → ω < v 2 → 0 < TetraPy.g ω v 2) ∧
    (v 2 < ω → ω < v 3 → 0 < TetraPy.g ω v 3) :=
  ⟨fun a b => g_1_pos hs a b, fun a b => g_2_pos hs a b, fun a b => g_3_pos hs a b⟩

theorem J_nonneg (ω : K) (v : Fin 4 → K) (hs : Sorted v) (ci : Fin 4) :
    (v 0 < ω → ω < v 1 → 0 < TetraPy.J ω v 1 ci) ∧ (v 1 < ω → ω < v 2 → 0 < TetraPy.J ω v 2 ci) ∧
    (v 2 < ω → ω < v 3 → 0 < TetraPy.J ω v 3 ci) := by
  refine ⟨fun a b => ?_, fun a b => ?_, fun a b => ?_⟩
  · obtain ⟨h0, h1, h2, h3⟩ := J_1_pos hs a b; fin_cases ci <;> assumption
  · obtain ⟨h0, h1, h2, h3⟩ := J_2_pos hs a b; fin_cases ci <;> assumption
  · obtain ⟨h0, h1, h2, h3⟩ := J_3_pos hs a b; fin_cases ci <;> assumption

theorem I_nonneg (ω : K) (v : Fin 4 → K) (hs : Sorted v) (ci : Fin 4) :
    (v 0 < ω → ω < v 1 → 0 < TetraPy.I ω v 1 ci) ∧ (v 1 < ω → ω < v 2 → 0 < TetraPy.I ω v 2 ci) ∧
    (v 2 < ω → ω < v 3 → 0 < TetraPy.I ω v 3 ci) := by
  refine ⟨fun a b => ?_, fun a b => ?_, fun a b => ?_⟩
  · obtain ⟨h0, h1, h2, h3⟩ := I_1_pos hs a b; fin_cases ci <;> assumption
  · obtain ⟨h0, h1, h2, h3⟩ := I_2_pos hs a b; fin_cases ci <;> assumption
  · obtain ⟨h0, h1, h2, h3⟩ := I_3_pos hs a b; fin_cases ci <;> assumption

/-- each vertex weight `J·n` of the cumulative function lies in `[0, 1]` (in fact in `(0, 1)`) -/
theorem weight_J_range (ω : K) (v : Fin 4 → K) (hs : Sorted v) (i : Fin 5) (ci : Fin 4)
    (hi : (i = 1 ∧ v 0 < ω ∧ ω < v 1) ∨ (i = 2 ∧ v 1 < ω ∧ ω < v 2) ∨ (i = 3 ∧ v 2 < ω ∧ ω < v 3)) :
    0 < TetraPy.J ω v i ci * TetraPy.n ω v i ∧ TetraPy.J ω v i ci * TetraPy.n ω v i < 1 := by
  have key : ∀ i : Fin 5, (∑ c : Fin 4, TetraPy.J ω v i c = 1) → (∀ c, 0 < TetraPy.J ω v i c) →
      0 < TetraPy.n ω v i → TetraPy.n ω v i < 1 →
      0 < TetraPy.J ω v i ci * TetraPy.n ω v i ∧ TetraPy.J ω v i ci * TetraPy.n ω v i < 1 := by
    intro i hsum hpos hn0 hn1
    have hle : TetraPy.J ω v i ci ≤ 1 := by
      rw [← hsum]
      exact Finset.single_le_sum (fun c _ => le_of_lt (hpos c)) (Finset.mem_univ ci)
    refine ⟨mul_pos (hpos ci) hn0, ?_⟩
    calc TetraPy.J ω v i ci * TetraPy.n ω v i ≤ 1 * TetraPy.n ω v i :=
          mul_le_mul_of_nonneg_right hle (le_of_lt hn0)
      _ < 1 := by rw [one_mul]; exact hn1
  rcases hi with ⟨rfl, a, b⟩ | ⟨rfl, a, b⟩ | ⟨rfl, a, b⟩
  · exact key 1 (J_sum ω v hs.distinct 1 (fun h => absurd h (by decide)) (fun h => absurd h (by decide)) (Or.inl rfl)) (fun c => (J_nonneg ω v hs c).1 a b)
      (n_1_range hs a b).1 (n_1_range hs a b).2
  · exact key 2 (J_sum ω v hs.distinct 2 (fun _ => ne_of_gt (n_2_range hs a b).1) (fun h => absurd h (by decide)) (Or.inr (Or.inl rfl)))
      (fun c => (J_nonneg ω v hs c).2.1 a b) (n_2_range hs a b).1 (n_2_range hs a b).2
  · exact key 3 (J_sum ω v hs.distinct 3 (fun h => absurd h (by decide)) (fun _ => ne_of_gt (n_3_range hs a b).1) (Or.inr (Or.inr rfl)))
      (fun c => (J_nonneg ω v hs c).2.2 a b) (n_3_range hs a b).1 (n_3_range hs a b).2

/-! ### continuity, derivative, monotonicity -/

/-- the cumulative fraction and the density are continuous across the vertex values -/
theorem n_continuous_at_breakpoints (v : Fin 4 → K) (hd : Distinct v) :
    (TetraPy.n (v 0) v 1 = TetraPy.n (v 0) v 0 ∧ TetraPy.n (v 1) v 1 = TetraPy.n (v 1) v 2 ∧
      TetraPy.n (v 2) v 2 = TetraPy.n (v 2) v 3 ∧ TetraPy.n (v 3) v 3 = TetraPy.n (v 3) v 4) ∧
    (TetraPy.g (v 0) v 1 = TetraPy.g (v 0) v 0 ∧ TetraPy.g (v 1) v 1 = TetraPy.g (v 1) v 2 ∧
      TetraPy.g (v 2) v 2 = TetraPy.g (v 2) v 3 ∧ TetraPy.g (v 3) v 3 = TetraPy.g (v 3) v 4) :=
  ⟨n_breakpoints v hd, g_breakpoints v hd⟩

/-- the density is the derivative of the cumulative fraction (each interval formula, every ω) -/
theorem hasDerivAt_n (v : Fin 4 → ℝ) (hd : Distinct v) (ω : ℝ) (i : Fin 5) :
    HasDerivAt (fun x => TetraPy.n x v i) (TetraPy.g ω v i) ω := by
  fin_cases i
  · simpa [TetraPy.n, TetraPy.g, TetraPy.n_0, TetraPy.g_0] using hasDerivAt_const ω (0 : ℝ)
  · exact hasDerivAt_n_1 v hd ω
  · exact hasDerivAt_n_2 v hd ω
  · exact hasDerivAt_n_3 v hd ω
  · simpa [TetraPy.n, TetraPy.g, TetraPy.n_4, TetraPy.g_4] using hasDerivAt_const ω (1 : ℝ)

/-- with the closed-below interval selection (`TetraPy.interval true`, the repaired code) the cumulative fraction
of a tetrahedron is non-decreasing on the whole frequency axis -/
theorem n_mono (v : Fin 4 → ℝ) (hs : Sorted v) : Monotone (nTot v) := nTot_monotone hs

/-- the statement the pinned selection (`v[i] < ω ∧ ω < v[i+1]`, both strict) would have to satisfy -/
def FullStatementCumulativeMonotone (closed : Bool) : Prop :=
  ∀ (v : Fin 4 → Rat) (c : Fin 4) (ω₁ ω₂ : Rat), ω₁ ≤ ω₂ →
    TetraPy.tetraContribution false closed ω₁ v c ≤ TetraPy.tetraContribution false closed ω₂ v c

/-- F16: with both comparisons strict a frequency equal to a vertex value selects no interval; the tetrahedron
(0,1,2,3) contributes 1/96·… at ω = 1/2 and 0 at ω = 1 -/
theorem cumulative_not_monotone_pinned : ¬ FullStatementCumulativeMonotone false := by
  intro h
  have := h (fun k => (k.1 : Rat)) 0 (1 / 2) 1 (by decide +kernel)
  revert this
  decide +kernel

/-- on open intervals the two selections agree, so every theorem above applies to both code versions -/
theorem interval_open_agree (ω : K) (s : Fin 4 → K) (h : ω ≠ s 0 ∧ ω ≠ s 1 ∧ ω ≠ s 2 ∧ ω ≠ s 3) :
    TetraPy.interval true ω s = TetraPy.interval false ω s := by
  obtain ⟨h0, h1, h2, h3⟩ := h
  have e : ∀ k : Fin 4, ω ≠ s k → (¬ (ω < s k) ↔ s k < ω) := fun k hk =>
    ⟨fun hn => lt_of_le_of_ne (not_lt.mp hn) (Ne.symm hk), fun hl => not_lt.mpr (le_of_lt hl)⟩
  unfold TetraPy.interval
  simp only [if_true, Bool.false_eq_true, if_false, e 1 h1, e 2 h2, e 3 h3]
  by_cases hlt : ω < s 0
  · simp [hlt, not_lt.mpr (le_of_lt hlt)]
  · simp [hlt, (e 0 h0).mp hlt]

/-! ### translated C ≡ Python model -/

/-- every branch: the translated C (no THM_EPSILON) and the Python model are the same rational functions -/
theorem tetra_py_eq_c (ω : K) (v : Fin 4 → K) (i : Fin 5) (ci : Fin 4) :
    TetraC.J none i.1 ci.1 ω v = TetraPy.J ω v i ci ∧ TetraC.I none i.1 ci.1 ω v = TetraPy.I ω v i ci ∧
    TetraC.n none i.1 ω v = TetraPy.n ω v i ∧ TetraC.g none i.1 ω v = TetraPy.g ω v i :=
  ⟨c_J ω v i ci, c_I ω v i ci, c_n ω v i, c_g ω v i⟩

/-- with `-DTHM_EPSILON=e`, as long as no guard fires (vertex gaps and guarded denominators ≥ e) -/
theorem tetra_py_eq_c_eps {e ω : K} {v : Fin 4 → K} (h : NoGuard e ω v) :
    TetraC.J_20 (some e) ω v = TetraPy.J_20 ω v ∧ TetraC.J_21 (some e) ω v = TetraPy.J_21 ω v ∧
    TetraC.J_22 (some e) ω v = TetraPy.J_22 ω v ∧ TetraC.J_23 (some e) ω v = TetraPy.J_23 ω v ∧
    TetraC.J_30 (some e) ω v = TetraPy.J_30 ω v ∧ TetraC.J_31 (some e) ω v = TetraPy.J_31 ω v ∧
    TetraC.J_32 (some e) ω v = TetraPy.J_32 ω v ∧ TetraC.J_33 (some e) ω v = TetraPy.J_33 ω v ∧
    TetraC.J_10 (some e) ω v = TetraPy.J_10 ω v ∧ TetraC.J_11 (some e) ω v = TetraPy.J_11 ω v ∧
    TetraC.J_12 (some e) ω v = TetraPy.J_12 ω v ∧ TetraC.J_13 (some e) ω v = TetraPy.J_13 ω v ∧
    TetraC.I_10 (some e) ω v = TetraPy.I_10 ω v ∧ TetraC.I_11 (some e) ω v = TetraPy.I_11 ω v ∧
    TetraC.I_12 (some e) ω v = TetraPy.I_12 ω v ∧ TetraC.I_13 (some e) ω v = TetraPy.I_13 ω v ∧
    TetraC.I_20 (some e) ω v = TetraPy.I_20 ω v ∧ TetraC.I_21 (some e) ω v = TetraPy.I_21 ω v ∧
    TetraC.I_22 (some e) ω v = TetraPy.I_22 ω v ∧ TetraC.I_23 (some e) ω v = TetraPy.I_23 ω v ∧
    TetraC.I_30 (some e) ω v = TetraPy.I_30 ω v ∧ TetraC.I_31 (some e) ω v = TetraPy.I_31 ω v ∧
    TetraC.I_32 (some e) ω v = TetraPy.I_32 ω v ∧ TetraC.I_33 (some e) ω v = TetraPy.I_33 ω v ∧
    TetraC.n_1 (some e) ω v = TetraPy.n_1 ω v ∧ TetraC.n_2 (some e) ω v = TetraPy.n_2 ω v ∧
    TetraC.n_3 (some e) ω v = TetraPy.n_3 ω v ∧ TetraC.g_1 (some e) ω v = TetraPy.g_1 ω v ∧
    TetraC.g_2 (some e) ω v = TetraPy.g_2 ω v ∧ TetraC.g_3 (some e) ω v = TetraPy.g_3 ω v :=
  ⟨c_J_20_eps h, c_J_21_eps h, c_J_22_eps h, c_J_23_eps h, c_J_30_eps h, c_J_31_eps h, c_J_32_eps h, c_J_33_eps h,
   c_J_10_eps h, c_J_11_eps h, c_J_12_eps h, c_J_13_eps h, c_I_10_eps h, c_I_11_eps h, c_I_12_eps h, c_I_13_eps h,
   c_I_20_eps h, c_I_21_eps h, c_I_22_eps h, c_I_23_eps h, c_I_30_eps h, c_I_31_eps h, c_I_32_eps h, c_I_33_eps h,
   c_n_1_eps h, c_n_2_eps h, c_n_3_eps h, c_g_1_eps h, c_g_2_eps h, c_g_3_eps h⟩

/-! ### ordering -/

/-- `sort_omegas` (translated C): the output is non-decreasing, consists of the input values (same multiset) and
the returned index is a position of the original vertex 0 — every input, ties included. -/
theorem sort_omegas_sorted (v : Fin 4 → K) :
    let r := TetraC.sort_omegas (none : Option K) v
    (r.2 0 ≤ r.2 1 ∧ r.2 1 ≤ r.2 2 ∧ r.2 2 ≤ r.2 3) ∧
    [r.2 0, r.2 1, r.2 2, r.2 3].Perm [v 0, v 1, v 2, v 3] ∧
    ∃ h : r.1 < 4, r.2 ⟨r.1, h⟩ = v 0 :=
  sort_omegas_spec v

/-! ### projected DOS add up to the total DOS -/

/-- `Σ_atoms c = 1` (normalised eigenvector columns) ⇒ the projected DOS sum to the total DOS at the frequency
point — for the tetrahedron method and for smearing alike (both are this weighted double sum). -/
theorem pdos_sum_total {K : Type} [Field K] (nq nb na : Nat) (W : Fin nq → Fin nb → K)
    (c : Fin nq → Fin na → Fin nb → K) (hc : ∀ q b, ∑ a, c q a b = 1) :
    ∑ a, Dos.projectedDos nq nb na W c a = Dos.totalDos nq nb W := by
  unfold Dos.projectedDos Dos.totalDos
  simp only [sumFin_eq]
  rw [Finset.sum_comm]
  apply Finset.sum_congr rfl
  intro q _
  rw [Finset.sum_comm]
  apply Finset.sum_congr rfl
  intro b _
  rw [← Finset.mul_sum, hc, mul_one]

/-- non-negative weights give a non-negative density -/
theorem dos_nonneg (nq nb : Nat) (W : Fin nq → Fin nb → K) (hW : ∀ q b, 0 ≤ W q b) :
    0 ≤ Dos.totalDos nq nb W := by
  unfold Dos.totalDos
  simp only [sumFin_eq]
  exact Finset.sum_nonneg fun q _ => Finset.sum_nonneg fun b _ => hW q b

/-! ### above the spectrum the cumulative weight of a grid point is exactly 1 -/

/-- Python model: ω above all 24×4 vertex values ⇒ weight `24 · ¼ / 6 = 1` (both interval conventions) -/
theorem cumulative_above_top (closed : Bool) (ω : K) (tet : Fin 24 → Fin 4 → K) (central : Fin 24 → Fin 4)
    (h : ∀ t k, tet t k < ω) : TetraPy.integrationWeight false closed ω tet central = 1 :=
  integrationWeight_above_top closed ω tet central h

/-- translated C (with or without THM_EPSILON, whichever interval convention the source has) -/
theorem cumulative_above_top_c (eps : Option K) (ω : K) (tet : Fin 24 → Fin 4 → K) (h : ∀ t k, tet t k < ω) :
    TetraC.thm_get_integration_weight eps ω tet 'J' = 1 :=
  c_weight_above_top eps ω tet h

/-! ### non-vacuity -/

example : Sorted (fun k : Fin 4 => (k.1 : ℚ)) := by
  refine ⟨?_, ?_, ?_⟩ <;> norm_num
example : TetraPy.tetraContribution false false (1 / 2 : Rat) (fun k => (k.1 : Rat)) 0 ≤ 37 / 2304 ∧ 37 / 2304 ≤ TetraPy.tetraContribution false false (1 / 2 : Rat) (fun k => (k.1 : Rat)) 0 := by decide +kernel
example : TetraPy.tetraContribution false false (1 : Rat) (fun k => (k.1 : Rat)) 0 ≤ 0 ∧ 0 ≤ TetraPy.tetraContribution false false (1 : Rat) (fun k => (k.1 : Rat)) 0 := by decide +kernel
example : TetraPy.tetraContribution false true (1 : Rat) (fun k => (k.1 : Rat)) 0 ≤ 13 / 144 ∧ 13 / 144 ≤ TetraPy.tetraContribution false true (1 : Rat) (fun k => (k.1 : Rat)) 0 := by decide +kernel
example : TetraPy.n_2 (3 / 2 : Rat) (fun k => (k.1 : Rat)) ≤ 1 / 2 ∧ 1 / 2 ≤ TetraPy.n_2 (3 / 2 : Rat) (fun k => (k.1 : Rat)) := by decide +kernel
example : (TetraC.sort_omegas (none : Option Rat) (fun k => if k = 0 then 3 else if k = 1 then 1 else if k = 2 then 2 else 0)).1 = 3 := by
  decide +kernel

end PhononModel.C11

#print axioms PhononModel.C11.J_sum
#print axioms PhononModel.C11.I_sum
#print axioms PhononModel.C11.J_I_outside
#print axioms PhononModel.C11.J_sum_c
#print axioms PhononModel.C11.I_sum_c
#print axioms PhononModel.C11.n_range
#print axioms PhononModel.C11.g_nonneg
#print axioms PhononModel.C11.J_nonneg
#print axioms PhononModel.C11.I_nonneg
#print axioms PhononModel.C11.weight_J_range
#print axioms PhononModel.C11.n_continuous_at_breakpoints
#print axioms PhononModel.C11.hasDerivAt_n
#print axioms PhononModel.C11.n_mono
#print axioms PhononModel.C11.cumulative_not_monotone_pinned
#print axioms PhononModel.C11.interval_open_agree
#print axioms PhononModel.C11.tetra_py_eq_c
#print axioms PhononModel.C11.tetra_py_eq_c_eps
#print axioms PhononModel.C11.sort_omegas_sorted
#print axioms PhononModel.C11.pdos_sum_total
#print axioms PhononModel.C11.dos_nonneg
#print axioms PhononModel.C11.cumulative_above_top
#print axioms PhononModel.C11.cumulative_above_top_c
