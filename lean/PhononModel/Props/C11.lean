import PhononModel.Lemmas.TetraAnalysis
import PhononModel.Lemmas.TetraTop
import PhononModel.Model.Dos
import PhononModel.Lemmas.DosSmearing
import PhononModel.Lemmas.DosCoef
import PhononModel.Lemmas.TetraMesh
import PhononModel.Lemmas.Basic
import Mathlib.Algebra.BigOperators.Ring.Finset
/-!
# C11 — densities of states: non-negative, normalised, additive; tetrahedron weights

`Gen/TetraC.lean` is regenerated from `c/tetrahedron_method.c` on every run (`tools/tetra2lean.py`);
`Model/TetraPy.lean` is the hand-written model of `phonopy/structure/tetrahedron_method.py`;
`Model/Dos.lean` the weighted double sum of `phonon/dos.py` / `phpy_tetrahedron_method_dos`.
`./check C11` compares both models with the compiled C and the Python class on rational frequency fields.
-/
set_option linter.unusedSectionVars false
namespace PhononModel.C11
open PhononModel PhononModel.TetraLemmas Finset

variable {K : Type} [Field K] [LinearOrder K] [IsStrictOrderedRing K]

/-! ### sum rules: the four vertex weights of a tetrahedron add up to `n_i(ω)` resp. `g_i(ω)` -/

/-- `Σ_ci J i ci = 1` in each of the three inner intervals (Python model) -/
theorem J_sum (ω : K) (v : Fin 4 → K) (hd : Distinct v) (i : Fin 5)
    (h2 : i = 2 → TetraPy.n_2 ω v ≠ 0) (h3 : i = 3 → TetraPy.n_3 ω v ≠ 0) (hi : i = 1 ∨ i = 2 ∨ i = 3) :
    ∑ ci : Fin 4, TetraPy.J ω v i ci = 1 := by
  rw [Fin.sum_univ_four]
  rcases hi with rfl | rfl | rfl
  · exact J_sum_1 ω v hd
  · exact J_sum_2 ω v hd (h2 rfl)
  · exact J_sum_3 ω v hd (h3 rfl)

theorem I_sum (ω : K) (v : Fin 4 → K) (hd : Distinct v) (i : Fin 5)
    (h2 : i = 2 → TetraPy.gden ω v ≠ 0) (hi : i = 1 ∨ i = 2 ∨ i = 3) :
    ∑ ci : Fin 4, TetraPy.I ω v i ci = 1 := by
  rw [Fin.sum_univ_four]
  rcases hi with rfl | rfl | rfl
  · exact I_sum_1 ω v hd
  · exact I_sum_2 ω v hd (h2 rfl)
  · exact I_sum_3 ω v hd

/-- outside the spectrum: weights 0 below, `¼` each above (cumulative), 0 (density) -/
theorem J_I_outside (ω : K) (v : Fin 4 → K) (ci : Fin 4) :
    TetraPy.J ω v 0 ci = 0 ∧ TetraPy.J ω v 4 ci = 1 / 4 ∧ TetraPy.I ω v 0 ci = 0 ∧ TetraPy.I ω v 4 ci = 0 ∧
    TetraPy.n ω v 0 = 0 ∧ TetraPy.n ω v 4 = 1 ∧ TetraPy.g ω v 0 = 0 ∧ TetraPy.g ω v 4 = 0 := by
  simp [TetraPy.J, TetraPy.I, TetraPy.n, TetraPy.g, TetraPy.J_0, TetraPy.J_4, TetraPy.I_0, TetraPy.I_4, TetraPy.n_0,
    TetraPy.n_4, TetraPy.g_0, TetraPy.g_4]

/-- the same sum rules for the translated C (build without THM_EPSILON) -/
theorem J_sum_c (ω : K) (v : Fin 4 → K) (hs : Sorted v) :
    (v 0 < ω → ω < v 1 → ∑ ci : Fin 4, TetraC.J none 1 ci.1 ω v = 1) ∧
    (v 1 < ω → ω < v 2 → ∑ ci : Fin 4, TetraC.J none 2 ci.1 ω v = 1) ∧
    (v 2 < ω → ω < v 3 → ∑ ci : Fin 4, TetraC.J none 3 ci.1 ω v = 1) := by
  refine ⟨fun _ _ => ?_, fun h1 h2 => ?_, fun h2 h3 => ?_⟩
  · exact (Finset.sum_congr rfl (fun ci _ => c_J ω v 1 ci)).trans
      (J_sum ω v hs.distinct 1 (fun h => absurd h (by decide)) (fun h => absurd h (by decide)) (Or.inl rfl))
  · exact (Finset.sum_congr rfl (fun ci _ => c_J ω v 2 ci)).trans
      (J_sum ω v hs.distinct 2 (fun _ => ne_of_gt (n_2_range hs h1 h2).1) (fun h => absurd h (by decide))
        (Or.inr (Or.inl rfl)))
  · exact (Finset.sum_congr rfl (fun ci _ => c_J ω v 3 ci)).trans
      (J_sum ω v hs.distinct 3 (fun h => absurd h (by decide)) (fun _ => ne_of_gt (n_3_range hs h2 h3).1)
        (Or.inr (Or.inr rfl)))

theorem I_sum_c (ω : K) (v : Fin 4 → K) (hs : Sorted v) :
    (v 0 < ω → ω < v 1 → ∑ ci : Fin 4, TetraC.I none 1 ci.1 ω v = 1) ∧
    (v 1 < ω → ω < v 2 → ∑ ci : Fin 4, TetraC.I none 2 ci.1 ω v = 1) ∧
    (v 2 < ω → ω < v 3 → ∑ ci : Fin 4, TetraC.I none 3 ci.1 ω v = 1) := by
  refine ⟨fun _ _ => ?_, fun h1 h2 => ?_, fun _ _ => ?_⟩
  · exact (Finset.sum_congr rfl (fun ci _ => c_I ω v 1 ci)).trans
      (I_sum ω v hs.distinct 1 (fun h => absurd h (by decide)) (Or.inl rfl))
  · exact (Finset.sum_congr rfl (fun ci _ => c_I ω v 2 ci)).trans
      (I_sum ω v hs.distinct 2 (fun _ => ne_of_gt (gden_pos hs h1 h2)) (Or.inr (Or.inl rfl)))
  · exact (Finset.sum_congr rfl (fun ci _ => c_I ω v 3 ci)).trans
      (I_sum ω v hs.distinct 3 (fun h => absurd h (by decide)) (Or.inr (Or.inr rfl)))

/-! ### ranges on strictly ordered vertices, ω strictly inside an interval -/

/-- `0 < n_i(ω) < 1` -/
theorem n_range (ω : K) (v : Fin 4 → K) (hs : Sorted v) :
    (v 0 < ω → ω < v 1 → 0 < TetraPy.n ω v 1 ∧ TetraPy.n ω v 1 < 1) ∧
    (v 1 < ω → ω < v 2 → 0 < TetraPy.n ω v 2 ∧ TetraPy.n ω v 2 < 1) ∧
    (v 2 < ω → ω < v 3 → 0 < TetraPy.n ω v 3 ∧ TetraPy.n ω v 3 < 1) :=
  ⟨fun a b => n_1_range hs a b, fun a b => n_2_range hs a b, fun a b => n_3_range hs a b⟩

theorem g_nonneg (ω : K) (v : Fin 4 → K) (hs : Sorted v) :
    (v 0 < ω → ω < v 1 → 0 < TetraPy.g ω v 1) ∧ (v 1 < ω → ω < v 2 → 0 < TetraPy.g ω v 2) ∧
    (v 2 < ω → ω < v 3 → 0 < TetraPy.g ω v 3) :=
  ⟨fun a b => g_1_pos hs a b, fun a b => g_2_pos hs a b, fun a b => g_3_pos hs a b⟩

theorem J_nonneg (ω : K) (v : Fin 4 → K) (hs : Sorted v) (ci : Fin 4) :
    (v 0 < ω → ω < v 1 → 0 < TetraPy.J ω v 1 ci) ∧ (v 1 < ω → ω < v 2 → 0 < TetraPy.J ω v 2 ci) ∧
    (v 2 < ω → ω < v 3 → 0 < TetraPy.J ω v 3 ci) := by
  refine ⟨fun a b => ?_, fun a b => ?_, fun a b => ?_⟩
  · obtain ⟨h0, h1, h2, h3⟩ := J_1_pos hs a b; fin_cases ci <;> assumption
  · obtain ⟨h0, h1, h2, h3⟩ := J_2_pos hs a b; fin_cases ci <;> assumption
  · obtain ⟨h0, h1, h2, h3⟩ := J_3_pos hs a b; fin_cases ci <;> assumption

theorem I_nonneg (ω : K) (v : Fin 4 → K) (hs : Sorted v) (ci : Fin 4) :
    (v 0 < ω → ω < v 1 → 0 < TetraPy.I ω v 1 ci) ∧ (v 1 < ω → ω < v 2 → 0 < TetraPy.I ω v 2 ci) ∧
    (v 2 < ω → ω < v 3 → 0 < TetraPy.I ω v 3 ci) := by
  refine ⟨fun a b => ?_, fun a b => ?_, fun a b => ?_⟩
  · obtain ⟨h0, h1, h2, h3⟩ := I_1_pos hs a b; fin_cases ci <;> assumption
  · obtain ⟨h0, h1, h2, h3⟩ := I_2_pos hs a b; fin_cases ci <;> assumption
  · obtain ⟨h0, h1, h2, h3⟩ := I_3_pos hs a b; fin_cases ci <;> assumption

/-- each vertex weight `J·n` of the cumulative function lies in `[0, 1]` (in fact in `(0, 1)`) -/
theorem weight_J_range (ω : K) (v : Fin 4 → K) (hs : Sorted v) (i : Fin 5) (ci : Fin 4)
    (hi : (i = 1 ∧ v 0 < ω ∧ ω < v 1) ∨ (i = 2 ∧ v 1 < ω ∧ ω < v 2) ∨ (i = 3 ∧ v 2 < ω ∧ ω < v 3)) :
    0 < TetraPy.J ω v i ci * TetraPy.n ω v i ∧ TetraPy.J ω v i ci * TetraPy.n ω v i < 1 := by
  have key : ∀ i : Fin 5, (∑ c : Fin 4, TetraPy.J ω v i c = 1) → (∀ c, 0 < TetraPy.J ω v i c) →
      0 < TetraPy.n ω v i → TetraPy.n ω v i < 1 →
      0 < TetraPy.J ω v i ci * TetraPy.n ω v i ∧ TetraPy.J ω v i ci * TetraPy.n ω v i < 1 := by
    intro i hsum hpos hn0 hn1
    have hle : TetraPy.J ω v i ci ≤ 1 := by
      rw [← hsum]
      exact Finset.single_le_sum (fun c _ => le_of_lt (hpos c)) (Finset.mem_univ ci)
    refine ⟨mul_pos (hpos ci) hn0, ?_⟩
    calc TetraPy.J ω v i ci * TetraPy.n ω v i ≤ 1 * TetraPy.n ω v i :=
          mul_le_mul_of_nonneg_right hle (le_of_lt hn0)
      _ < 1 := by rw [one_mul]; exact hn1
  rcases hi with ⟨rfl, a, b⟩ | ⟨rfl, a, b⟩ | ⟨rfl, a, b⟩
  · exact key 1 (J_sum ω v hs.distinct 1 (fun h => absurd h (by decide)) (fun h => absurd h (by decide)) (Or.inl rfl)) (fun c => (J_nonneg ω v hs c).1 a b)
      (n_1_range hs a b).1 (n_1_range hs a b).2
  · exact key 2 (J_sum ω v hs.distinct 2 (fun _ => ne_of_gt (n_2_range hs a b).1) (fun h => absurd h (by decide)) (Or.inr (Or.inl rfl)))
      (fun c => (J_nonneg ω v hs c).2.1 a b) (n_2_range hs a b).1 (n_2_range hs a b).2
  · exact key 3 (J_sum ω v hs.distinct 3 (fun h => absurd h (by decide)) (fun _ => ne_of_gt (n_3_range hs a b).1) (Or.inr (Or.inr rfl)))
      (fun c => (J_nonneg ω v hs c).2.2 a b) (n_3_range hs a b).1 (n_3_range hs a b).2

/-! ### continuity, derivative, monotonicity -/

/-- the cumulative fraction and the density are continuous across the vertex values -/
theorem n_continuous_at_breakpoints (v : Fin 4 → K) (hd : Distinct v) :
    (TetraPy.n (v 0) v 1 = TetraPy.n (v 0) v 0 ∧ TetraPy.n (v 1) v 1 = TetraPy.n (v 1) v 2 ∧
      TetraPy.n (v 2) v 2 = TetraPy.n (v 2) v 3 ∧ TetraPy.n (v 3) v 3 = TetraPy.n (v 3) v 4) ∧
    (TetraPy.g (v 0) v 1 = TetraPy.g (v 0) v 0 ∧ TetraPy.g (v 1) v 1 = TetraPy.g (v 1) v 2 ∧
      TetraPy.g (v 2) v 2 = TetraPy.g (v 2) v 3 ∧ TetraPy.g (v 3) v 3 = TetraPy.g (v 3) v 4) :=
  ⟨n_breakpoints v hd, g_breakpoints v hd⟩

/-- the density is the derivative of the cumulative fraction (each interval formula, every ω) -/
theorem hasDerivAt_n (v : Fin 4 → ℝ) (hd : Distinct v) (ω : ℝ) (i : Fin 5) :
    HasDerivAt (fun x => TetraPy.n x v i) (TetraPy.g ω v i) ω := by
  fin_cases i
  · simpa [TetraPy.n, TetraPy.g, TetraPy.n_0, TetraPy.g_0] using hasDerivAt_const ω (0 : ℝ)
  · exact hasDerivAt_n_1 v hd ω
  · exact hasDerivAt_n_2 v hd ω
  · exact hasDerivAt_n_3 v hd ω
  · simpa [TetraPy.n, TetraPy.g, TetraPy.n_4, TetraPy.g_4] using hasDerivAt_const ω (1 : ℝ)

/-- with the closed-below interval selection (`TetraPy.interval true`, the repaired code) the cumulative fraction
of a tetrahedron is non-decreasing on the whole frequency axis -/
theorem n_mono (v : Fin 4 → ℝ) (hs : Sorted v) : Monotone (nTot v) := nTot_monotone hs

/-- the statement the pinned selection (`v[i] < ω ∧ ω < v[i+1]`, both strict) would have to satisfy -/
def FullStatementCumulativeMonotone (closed : Bool) : Prop :=
  ∀ (v : Fin 4 → Rat) (c : Fin 4) (ω₁ ω₂ : Rat), ω₁ ≤ ω₂ →
    TetraPy.tetraContribution false closed ω₁ v c ≤ TetraPy.tetraContribution false closed ω₂ v c

/-- F16: with both comparisons strict a frequency equal to a vertex value selects no interval; the tetrahedron
(0,1,2,3) contributes 1/96·… at ω = 1/2 and 0 at ω = 1 -/
theorem cumulative_not_monotone_pinned : ¬ FullStatementCumulativeMonotone false := by
  intro h
  have := h (fun k => (k.1 : Rat)) 0 (1 / 2) 1 (by decide +kernel)
  revert this
  decide +kernel

/-- on open intervals the two selections agree, so every theorem above applies to both code versions -/
theorem interval_open_agree (ω : K) (s : Fin 4 → K) (h : ω ≠ s 0 ∧ ω ≠ s 1 ∧ ω ≠ s 2 ∧ ω ≠ s 3) :
    TetraPy.interval true ω s = TetraPy.interval false ω s := by
  obtain ⟨h0, h1, h2, h3⟩ := h
  have e : ∀ k : Fin 4, ω ≠ s k → (¬ (ω < s k) ↔ s k < ω) := fun k hk =>
    ⟨fun hn => lt_of_le_of_ne (not_lt.mp hn) (Ne.symm hk), fun hl => not_lt.mpr (le_of_lt hl)⟩
  unfold TetraPy.interval
  simp only [if_true, Bool.false_eq_true, if_false, e 1 h1, e 2 h2, e 3 h3]
  by_cases hlt : ω < s 0
  · simp [hlt, not_lt.mpr (le_of_lt hlt)]
  · simp [hlt, (e 0 h0).mp hlt]

/-! ### translated C ≡ Python model -/

/-- every branch: the translated C (no THM_EPSILON) and the Python model are the same rational functions -/
theorem tetra_py_eq_c (ω : K) (v : Fin 4 → K) (i : Fin 5) (ci : Fin 4) :
    TetraC.J none i.1 ci.1 ω v = TetraPy.J ω v i ci ∧ TetraC.I none i.1 ci.1 ω v = TetraPy.I ω v i ci ∧
    TetraC.n none i.1 ω v = TetraPy.n ω v i ∧ TetraC.g none i.1 ω v = TetraPy.g ω v i :=
  ⟨c_J ω v i ci, c_I ω v i ci, c_n ω v i, c_g ω v i⟩

/-- with `-DTHM_EPSILON=e`, as long as no guard fires (vertex gaps and guarded denominators ≥ e) -/
theorem tetra_py_eq_c_eps {e ω : K} {v : Fin 4 → K} (h : NoGuard e ω v) :
    TetraC.J_20 (some e) ω v = TetraPy.J_20 ω v ∧ TetraC.J_21 (some e) ω v = TetraPy.J_21 ω v ∧
    TetraC.J_22 (some e) ω v = TetraPy.J_22 ω v ∧ TetraC.J_23 (some e) ω v = TetraPy.J_23 ω v ∧
    TetraC.J_30 (some e) ω v = TetraPy.J_30 ω v ∧ TetraC.J_31 (some e) ω v = TetraPy.J_31 ω v ∧
    TetraC.J_32 (some e) ω v = TetraPy.J_32 ω v ∧ TetraC.J_33 (some e) ω v = TetraPy.J_33 ω v ∧
    TetraC.J_10 (some e) ω v = TetraPy.J_10 ω v ∧ TetraC.J_11 (some e) ω v = TetraPy.J_11 ω v ∧
    TetraC.J_12 (some e) ω v = TetraPy.J_12 ω v ∧ TetraC.J_13 (some e) ω v = TetraPy.J_13 ω v ∧
    TetraC.I_10 (some e) ω v = TetraPy.I_10 ω v ∧ TetraC.I_11 (some e) ω v = TetraPy.I_11 ω v ∧
    TetraC.I_12 (some e) ω v = TetraPy.I_12 ω v ∧ TetraC.I_13 (some e) ω v = TetraPy.I_13 ω v ∧
    TetraC.I_20 (some e) ω v = TetraPy.I_20 ω v ∧ TetraC.I_21 (some e) ω v = TetraPy.I_21 ω v ∧
    TetraC.I_22 (some e) ω v = TetraPy.I_22 ω v ∧ TetraC.I_23 (some e) ω v = TetraPy.I_23 ω v ∧
    TetraC.I_30 (some e) ω v = TetraPy.I_30 ω v ∧ TetraC.I_31 (some e) ω v = TetraPy.I_31 ω v ∧
    TetraC.I_32 (some e) ω v = TetraPy.I_32 ω v ∧ TetraC.I_33 (some e) ω v = TetraPy.I_33 ω v ∧
    TetraC.n_1 (some e) ω v = TetraPy.n_1 ω v ∧ TetraC.n_2 (some e) ω v = TetraPy.n_2 ω v ∧
    TetraC.n_3 (some e) ω v = TetraPy.n_3 ω v ∧ TetraC.g_1 (some e) ω v = TetraPy.g_1 ω v ∧
    TetraC.g_2 (some e) ω v = TetraPy.g_2 ω v ∧ TetraC.g_3 (some e) ω v = TetraPy.g_3 ω v :=
  ⟨c_J_20_eps h, c_J_21_eps h, c_J_22_eps h, c_J_23_eps h, c_J_30_eps h, c_J_31_eps h, c_J_32_eps h, c_J_33_eps h,
   c_J_10_eps h, c_J_11_eps h, c_J_12_eps h, c_J_13_eps h, c_I_10_eps h, c_I_11_eps h, c_I_12_eps h, c_I_13_eps h,
   c_I_20_eps h, c_I_21_eps h, c_I_22_eps h, c_I_23_eps h, c_I_30_eps h, c_I_31_eps h, c_I_32_eps h, c_I_33_eps h,
   c_n_1_eps h, c_n_2_eps h, c_n_3_eps h, c_g_1_eps h, c_g_2_eps h, c_g_3_eps h⟩

/-! ### ordering -/

/-- `sort_omegas` (translated C): the output is non-decreasing, consists of the input values (same multiset) and
the returned index is a position of the original vertex 0 — every input, ties included. -/
theorem sort_omegas_sorted (v : Fin 4 → K) :
    let r := TetraC.sort_omegas (none : Option K) v
    (r.2 0 ≤ r.2 1 ∧ r.2 1 ≤ r.2 2 ∧ r.2 2 ≤ r.2 3) ∧
    [r.2 0, r.2 1, r.2 2, r.2 3].Perm [v 0, v 1, v 2, v 3] ∧
    ∃ h : r.1 < 4, r.2 ⟨r.1, h⟩ = v 0 :=
  sort_omegas_spec v

/-! ### projected DOS add up to the total DOS -/

/-- `Σ_atoms c = 1` (normalised eigenvector columns) ⇒ the projected DOS sum to the total DOS at the frequency
point — for the tetrahedron method and for smearing alike (both are this weighted double sum). -/
theorem pdos_sum_total {K : Type} [Field K] (nq nb na : Nat) (W : Fin nq → Fin nb → K)
    (c : Fin nq → Fin na → Fin nb → K) (hc : ∀ q b, ∑ a, c q a b = 1) :
    ∑ a, Dos.projectedDos nq nb na W c a = Dos.totalDos nq nb W := by
  unfold Dos.projectedDos Dos.totalDos
  simp only [sumFin_eq]
  rw [Finset.sum_comm]
  apply Finset.sum_congr rfl
  intro q _
  rw [Finset.sum_comm]
  apply Finset.sum_congr rfl
  intro b _
  rw [← Finset.mul_sum, hc, mul_one]

/-- non-negative weights give a non-negative density -/
theorem dos_nonneg (nq nb : Nat) (W : Fin nq → Fin nb → K) (hW : ∀ q b, 0 ≤ W q b) :
    0 ≤ Dos.totalDos nq nb W := by
  unfold Dos.totalDos
  simp only [sumFin_eq]
  exact Finset.sum_nonneg fun q _ => Finset.sum_nonneg fun b _ => hW q b

/-- projected DOS per atom (`ProjectedDos` default): with normalised eigenvectors they add up to the total DOS.
Eigenvector components are Cartesian, so the lattice (orthogonal or not) does not enter. -/
theorem pdos_atom_sum_total (nq nb n : Nat) (W : Fin nq → Fin nb → K) (e : Fin nq → Fin nb → Fin n → Fin 3 → K × K)
    (hnorm : ∀ q b, ∑ a, ∑ x, Dos.abs2 (e q b a x) = 1) :
    ∑ a, Dos.projectedDos nq nb n W (fun q a b => Dos.coefAtom (e q b) a) a = Dos.totalDos nq nb W := by
  apply pdos_sum_total
  intro q b
  rw [← hnorm q b]
  apply Finset.sum_congr rfl
  intro a _
  exact DosLemmas.coefAtom_eq_sum (e q b) a

/-- projected DOS on the 3N Cartesian components (`xyz_projection=True`) add up to the total DOS -/
theorem pdos_xyz_sum_total (nq nb n : Nat) (W : Fin nq → Fin nb → K) (e : Fin nq → Fin nb → Fin n → Fin 3 → K × K)
    (hnorm : ∀ q b, ∑ a, ∑ x, Dos.abs2 (e q b a x) = 1) :
    ∑ a, ∑ x : Fin 3, Dos.projectedDos nq nb n W (fun q a b => Dos.coefXyz (e q b) a x) a = Dos.totalDos nq nb W := by
  rw [← pdos_atom_sum_total nq nb n W e hnorm]
  apply Finset.sum_congr rfl
  intro a _
  unfold Dos.projectedDos
  simp only [sumFin_eq, DosLemmas.coefAtom_eq_sum]
  rw [Finset.sum_comm]
  apply Finset.sum_congr rfl
  intro q _
  rw [Finset.sum_comm]
  apply Finset.sum_congr rfl
  intro b _
  rw [Finset.mul_sum]

/-- a projection on a direction never exceeds the atom's weight: direction-projected DOS ≤ atom-projected DOS -/
theorem pdos_direction_le_atom (nq nb n : Nat) (W : Fin nq → Fin nb → K) (hW : ∀ q b, 0 ≤ W q b)
    (e : Fin nq → Fin nb → Fin n → Fin 3 → K × K) (d : Fin 3 → K) (hd : d 0 * d 0 + d 1 * d 1 + d 2 * d 2 = 1) (a : Fin n) :
    Dos.projectedDos nq nb n W (fun q a b => Dos.coefDir (e q b) d a) a ≤
      Dos.projectedDos nq nb n W (fun q a b => Dos.coefAtom (e q b) a) a := by
  unfold Dos.projectedDos
  simp only [sumFin_eq]
  exact Finset.sum_le_sum fun q _ => Finset.sum_le_sum fun b _ =>
    mul_le_mul_of_nonneg_left (DosLemmas.coefDir_le_coefAtom (e q b) d hd a) (hW q b)

/-- projections on an orthonormal triple of Cartesian directions add up to the atom-projected DOS -/
theorem pdos_direction_triple_eq_atom (nq nb n : Nat) (W : Fin nq → Fin nb → K) (e : Fin nq → Fin nb → Fin n → Fin 3 → K × K)
    (d : Fin 3 → Fin 3 → K) (hd : ∀ k l, ∑ x, d k x * d l x = if k = l then 1 else 0) (a : Fin n) :
    ∑ k, Dos.projectedDos nq nb n W (fun q a b => Dos.coefDir (e q b) (d k) a) a =
      Dos.projectedDos nq nb n W (fun q a b => Dos.coefAtom (e q b) a) a := by
  unfold Dos.projectedDos
  simp only [sumFin_eq]
  rw [Finset.sum_comm]
  apply Finset.sum_congr rfl
  intro q _
  rw [Finset.sum_comm]
  apply Finset.sum_congr rfl
  intro b _
  rw [← Finset.mul_sum, DosLemmas.coefDir_triple (e q b) d hd a]

/-! ### smearing: unit integral of the smearing functions, normalisation of the smearing DOS over ℝ -/

/-- `NormalDistribution.calc` (σ > 0) and `CauchyDistribution.calc` (γ > 0) are non-negative, integrable and
integrate to 1 over the whole axis -/
theorem smearing_functions_normalised {s : ℝ} (hs : 0 < s) :
    (∀ x, 0 ≤ DosLemmas.normalR s x) ∧ MeasureTheory.Integrable (DosLemmas.normalR s) ∧ ∫ x, DosLemmas.normalR s x = 1 ∧
    (∀ x, 0 ≤ DosLemmas.cauchyR s x) ∧ MeasureTheory.Integrable (DosLemmas.cauchyR s) ∧ ∫ x, DosLemmas.cauchyR s x = 1 :=
  ⟨DosLemmas.normal_nonneg hs, DosLemmas.normal_integrable hs, DosLemmas.normal_integral hs,
   DosLemmas.cauchy_nonneg hs, DosLemmas.cauchy_integrable hs, DosLemmas.cauchy_integral hs⟩

/-- the smearing total DOS integrates to the number of bands per primitive cell (both smearing functions; the
finite frequency grid of the code leaves a quadrature remainder that the check bounds numerically) -/
theorem smearing_dos_integrates_to_bands (nq nb : Nat) (w : Fin nq → ℝ) (hw : ∑ q, w q ≠ 0) (ν : Fin nq → Fin nb → ℝ)
    {s : ℝ} (hs : 0 < s) :
    ∫ ω, Dos.smearingDos nq nb w ν (DosLemmas.normalR s) ω = nb ∧
    ∫ ω, Dos.smearingDos nq nb w ν (DosLemmas.cauchyR s) ω = nb :=
  ⟨DosLemmas.smearingDos_integral nq nb w hw ν _ (DosLemmas.normal_integrable hs) (DosLemmas.normal_integral hs),
   DosLemmas.smearingDos_integral nq nb w hw ν _ (DosLemmas.cauchy_integrable hs) (DosLemmas.cauchy_integral hs)⟩

/-- the frequency points of `Dos.set_draw_area`: equally spaced from `f_min`, all below `f_max + pitch/10`, and the
next point would pass it — so `f_max` itself is covered -/
theorem frequency_points_spec (lo hi : ℚ) (sigma freqMin freqMax pitch : Option ℚ) (fmin fmax δ : ℚ)
    (h1 : fmin = freqMin.getD (lo - sigma.getD ((hi - lo) / 100) * 10))
    (h2 : fmax = freqMax.getD (hi + sigma.getD ((hi - lo) / 100) * 10))
    (h3 : δ = pitch.getD ((fmax - fmin) / 200)) (hδ : 0 < δ) :
    let pts := (Dos.frequencyPoints lo hi sigma freqMin freqMax pitch).2
    (∀ x ∈ pts, fmin ≤ x ∧ x < fmax + δ / 10) ∧ fmax + δ / 10 ≤ fmin + (pts.length : ℚ) * δ ∧
    ∀ i (hi : i < pts.length), pts[i] = fmin + (i : ℚ) * δ := by
  intro pts
  have hp : pts = Dos.arange fmin (fmax + δ * (1 / 10)) δ := by
    simp only [pts, Dos.frequencyPoints]; rw [← h1, ← h2, ← h3]
  obtain ⟨a, b⟩ := DosLemmas.arange_spec fmin (fmax + δ * (1 / 10)) δ hδ
  have e : fmax + δ * (1 / 10) = fmax + δ / 10 := by ring
  rw [hp]
  refine ⟨fun x hx => by rw [← e]; exact a x hx, by rw [← e]; exact b, ?_⟩
  intro i hi
  simp [Dos.arange]

/-! ### the tetrahedron method on the mesh: lookups in range, the cell is tiled -/

/-- neighbour lookup of `phpy_tetrahedron_method_dos` / `phpy_get_tetrahedra_frequenies` (`c/rgrid.c`): the vertex
is a grid point of the mesh and sits at `address + relative address` modulo the mesh numbers, negative offsets
included — and it is the index the Python `_get_tetrahedra_frequencies_Py` computes. -/
theorem tetrahedron_vertex_in_range (mesh : Grid.V3 Nat) (s : Grid.V3 Bool) (hx : 0 < mesh.x) (hy : 0 < mesh.y)
    (hz : 0 < mesh.z) (addr rel : Grid.IV) :
    TetraMesh.neighbourIndex mesh addr rel = (⟨mesh, s⟩ : Grid.Mesh).index (TetraMesh.addV addr rel) ∧
    TetraMesh.neighbourIndex mesh addr rel < mesh.x * mesh.y * mesh.z ∧
    ∃ t : Grid.IV,
      ((⟨mesh, s⟩ : Grid.Mesh).addr (TetraMesh.neighbourIndex mesh addr rel)).x = addr.x + rel.x + (mesh.x : Int) * t.x ∧
      ((⟨mesh, s⟩ : Grid.Mesh).addr (TetraMesh.neighbourIndex mesh addr rel)).y = addr.y + rel.y + (mesh.y : Int) * t.y ∧
      ((⟨mesh, s⟩ : Grid.Mesh).addr (TetraMesh.neighbourIndex mesh addr rel)).z = addr.z + rel.z + (mesh.z : Int) * t.z :=
  ⟨TetraMesh.neighbourIndex_eq mesh s hx hy hz addr rel, TetraMesh.neighbour_in_range mesh s hx hy hz addr rel⟩

/-- the `gp2ir` loop: every grid point is sent to a valid row of the ir-frequency array, that row belongs to its
representative, the ir points are the fixed points of the table in increasing order, and `TetrahedronMesh._prepare`
(dictionary lookup) yields the same indices — for every table with `tab[i] ≤ i`, `tab[tab[i]] = tab[i]`. -/
theorem gp2ir_in_range (tab : List Nat) (hle : ∀ i, tab.getD i i ≤ i)
    (hid : ∀ i, tab.getD (tab.getD i i) (tab.getD i i) = tab.getD i i) :
    let st := TetraMesh.gp2irBuild tab
    st.gp2ir.length = tab.length ∧ st.irgp = (List.range tab.length).filter (fun i => tab.getD i i = i) ∧
    (∀ i, i < tab.length → st.gp2ir.getD i 0 < st.irgp.length ∧ st.irgp.getD (st.gp2ir.getD i 0) 0 = tab.getD i i) ∧
    TetraMesh.gp2irPy tab st.irgp = st.gp2ir :=
  TetraMesh.gp2ir_spec tab hle hid

/-- certificate on the GENERATED tables (`db_relative_grid_address` of the C source), all four main diagonals: 24
tetrahedra each, central vertex first, unimodular (volume 1/6 of the cell), and as a set they are exactly the
translates `T - v` (`v` a vertex of `T`) of the six tetrahedra `sixOf d` of the cell. -/
theorem tables_are_star_of_six :
    ∀ d : Fin 4, (TetraMesh.tableOf d).length = 24 ∧
      ((TetraMesh.tableOf d).all fun t => t.length == 4 && t.getD 0 ⟨9, 9, 9⟩ == (⟨0, 0, 0⟩ : Grid.IV) &&
        (TetraMesh.det4 t == 1 || TetraMesh.det4 t == -1)) = true ∧
      TetraMesh.normTable (TetraMesh.tableOf d) = TetraMesh.normTable (TetraMesh.starOf (TetraMesh.sixOf d)) := by
  decide +kernel

/-- the six tetrahedra of the cell (any main diagonal) tile it: they cover the closed cell and their interiors are
pairwise disjoint; each has volume 1/6 (`det = ±1`). -/
theorem six_tetrahedra_tile_cell (d : Fin 4) :
    (∀ x : Grid.V3 K, TetraMesh.InCube x → ∃ t ∈ TetraMesh.sixOf d, TetraMesh.InTetra t x) ∧
    (∀ (x : Grid.V3 K) (t t' : List Grid.IV), t ∈ TetraMesh.sixOf d → t' ∈ TetraMesh.sixOf d →
      TetraMesh.InInterior t x → TetraMesh.InInterior t' x → t = t') ∧
    ((TetraMesh.sixOf d).all fun t => TetraMesh.det4 t == 1 || TetraMesh.det4 t == -1) = true ∧
    (TetraMesh.sixOf d).length = 6 :=
  ⟨fun x hx => TetraMesh.six_cover d hx, fun x t t' ht ht' h h' => TetraMesh.six_interiors_disjoint d ht ht' h h',
   by fin_cases d <;> decide, by fin_cases d <;> decide⟩

/-- the frequency-point loop of the compiled DOS driver (`c/phonopy.c: phpy_tetrahedron_method_dos`, control
structure translated on every run): the loop body runs for **every** requested frequency point — no `continue`, no
early `break` — so the value stored for a point is `visit` of that point alone, whatever the other points and their
order (ascending, descending, unsorted). -/
theorem dos_kernel_visits_every_frequency {β : Type} (fmin fmax : K) (visit : K → β) (fp : List K) :
    TetraC.dos_freq_loop fmin fmax visit fp = fp.map (fun w => some (visit w)) := by
  induction fp with
  | nil => rfl
  | cons w rest ih => simp [TetraC.dos_freq_loop, ih]

/-- consequence: reordering the requested frequencies reorders the results in the same way -/
theorem dos_kernel_order_independent {β : Type} (fmin fmax : K) (visit : K → β) {fp fp' : List K} (h : fp.Perm fp') :
    (TetraC.dos_freq_loop fmin fmax visit fp).Perm (TetraC.dos_freq_loop fmin fmax visit fp') := by
  rw [dos_kernel_visits_every_frequency, dos_kernel_visits_every_frequency]
  exact h.map _

/-! ### above the spectrum the cumulative weight of a grid point is exactly 1 -/

/-- Python model: ω above all 24×4 vertex values ⇒ weight `24 · ¼ / 6 = 1` (both interval conventions) -/
theorem cumulative_above_top (closed : Bool) (ω : K) (tet : Fin 24 → Fin 4 → K) (central : Fin 24 → Fin 4)
    (h : ∀ t k, tet t k < ω) : TetraPy.integrationWeight false closed ω tet central = 1 :=
  integrationWeight_above_top closed ω tet central h

/-- translated C (with or without THM_EPSILON, whichever interval convention the source has) -/
theorem cumulative_above_top_c (eps : Option K) (ω : K) (tet : Fin 24 → Fin 4 → K) (h : ∀ t k, tet t k < ω) :
    TetraC.thm_get_integration_weight eps ω tet 'J' = 1 :=
  c_weight_above_top eps ω tet h

/-! ### non-vacuity -/

example : Sorted (fun k : Fin 4 => (k.1 : ℚ)) := by
  refine ⟨?_, ?_, ?_⟩ <;> norm_num
example : TetraPy.tetraContribution false false (1 / 2 : Rat) (fun k => (k.1 : Rat)) 0 ≤ 37 / 2304 ∧ 37 / 2304 ≤ TetraPy.tetraContribution false false (1 / 2 : Rat) (fun k => (k.1 : Rat)) 0 := by decide +kernel
example : TetraPy.tetraContribution false false (1 : Rat) (fun k => (k.1 : Rat)) 0 ≤ 0 ∧ 0 ≤ TetraPy.tetraContribution false false (1 : Rat) (fun k => (k.1 : Rat)) 0 := by decide +kernel
example : TetraPy.tetraContribution false true (1 : Rat) (fun k => (k.1 : Rat)) 0 ≤ 13 / 144 ∧ 13 / 144 ≤ TetraPy.tetraContribution false true (1 : Rat) (fun k => (k.1 : Rat)) 0 := by decide +kernel
example : TetraPy.n_2 (3 / 2 : Rat) (fun k => (k.1 : Rat)) ≤ 1 / 2 ∧ 1 / 2 ≤ TetraPy.n_2 (3 / 2 : Rat) (fun k => (k.1 : Rat)) := by decide +kernel
example : (TetraC.sort_omegas (none : Option Rat) (fun k => if k = 0 then 3 else if k = 1 then 1 else if k = 2 then 2 else 0)).1 = 3 := by
  decide +kernel

end PhononModel.C11

#print axioms PhononModel.C11.J_sum
#print axioms PhononModel.C11.I_sum
#print axioms PhononModel.C11.J_I_outside
#print axioms PhononModel.C11.J_sum_c
#print axioms PhononModel.C11.I_sum_c
#print axioms PhononModel.C11.n_range
#print axioms PhononModel.C11.g_nonneg
#print axioms PhononModel.C11.J_nonneg
#print axioms PhononModel.C11.I_nonneg
#print axioms PhononModel.C11.weight_J_range
#print axioms PhononModel.C11.n_continuous_at_breakpoints
#print axioms PhononModel.C11.hasDerivAt_n
#print axioms PhononModel.C11.n_mono
#print axioms PhononModel.C11.cumulative_not_monotone_pinned
#print axioms PhononModel.C11.interval_open_agree
#print axioms PhononModel.C11.tetra_py_eq_c
#print axioms PhononModel.C11.tetra_py_eq_c_eps
#print axioms PhononModel.C11.sort_omegas_sorted
#print axioms PhononModel.C11.pdos_sum_total
#print axioms PhononModel.C11.dos_nonneg
#print axioms PhononModel.C11.pdos_atom_sum_total
#print axioms PhononModel.C11.pdos_xyz_sum_total
#print axioms PhononModel.C11.pdos_direction_le_atom
#print axioms PhononModel.C11.pdos_direction_triple_eq_atom
#print axioms PhononModel.C11.smearing_functions_normalised
#print axioms PhononModel.C11.smearing_dos_integrates_to_bands
#print axioms PhononModel.C11.frequency_points_spec
#print axioms PhononModel.C11.tetrahedron_vertex_in_range
#print axioms PhononModel.C11.gp2ir_in_range
#print axioms PhononModel.C11.tables_are_star_of_six
#print axioms PhononModel.C11.six_tetrahedra_tile_cell
#print axioms PhononModel.C11.dos_kernel_visits_every_frequency
#print axioms PhononModel.C11.dos_kernel_order_independent
#print axioms PhononModel.C11.cumulative_above_top
#print axioms PhononModel.C11.cumulative_above_top_c
