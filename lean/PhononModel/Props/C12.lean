import PhononModel.Lemmas.DerivDynMat
import PhononModel.Model.Gruneisen
import Mathlib.Algebra.BigOperators.Fin
import Mathlib.Algebra.BigOperators.Group.Finset.Basic
import Mathlib.Tactic.FinCases
import Mathlib.Tactic.NormNum
import Mathlib.Analysis.Calculus.Deriv.Add
import Mathlib.Analysis.Calculus.Deriv.Mul
import Mathlib.Analysis.SpecialFunctions.Sqrt
import Mathlib.Analysis.SpecialFunctions.Trigonometric.Deriv
/-!
# C12 — group velocities and Grüneisen parameters are true derivatives of the spectrum

Theorems are about `Model/DerivDynMat.lean` and `Model/Gruneisen.lean`; algebraic statements hold
over every field (characteristic ≠ 2 where a Hermitian average occurs), the derivative statements
over ℝ (entrywise `HasDerivAt` of real and imaginary parts).  `./check C12` ties the models to
`c/derivative_dynmat.c`, `harmonic/derivative_dynmat.py`, `c/dynmat.c`, `gruneisen/core.py`,
`phonon/group_velocity.py` by running both on the same inputs.
-/
set_option linter.unusedSectionVars false
set_option linter.unusedVariables false
namespace PhononModel.C12
open PhononModel PhononModel.CP Finset

section algebra
variable {K : Type} [Field K]
variable {np ns nv : Nat}

theorem coefC_eq_coefPy (tp : K) (lat : Fin 3 → Fin 3 → K) (sv : Fin nv → Fin 3 → K)
    (l : Fin nv) (m : Fin 3) : coefC tp lat sv l m = coefPy tp lat sv l m := by
  simp only [coefC, coefPy, sumFin_eq, Finset.mul_sum]
  apply Finset.sum_congr rfl; intros; ring

theorem sumList_re {ι : Type} (l : List ι) (f : ι → Cx K) : (sumList l f).re = sumList l fun i => (f i).re := by
  induction l with
  | nil => rfl
  | cons a l ih => simp only [sumList, List.map_cons, List.foldr_cons, Cx.add_re] at ih ⊢; rw [ih]

theorem sumList_im {ι : Type} (l : List ι) (f : ι → Cx K) : (sumList l f).im = sumList l fun i => (f i).im := by
  induction l with
  | nil => rfl
  | cons a l ih => simp only [sumList, List.map_cons, List.foldr_cons, Cx.add_im] at ih ⊢; rw [ih]

theorem sumFin_re (n : Nat) (f : Fin n → Cx K) : (sumFin n f).re = sumFin n fun i => (f i).re :=
  sumList_re (List.finRange n) f
theorem sumFin_im (n : Nat) (f : Fin n → Cx K) : (sumFin n f).im = sumFin n fun i => (f i).im :=
  sumList_im (List.finRange n) f

theorem sumList_congr {ι α : Type} [Add α] [OfNat α 0] (l : List ι) (f g : ι → α) (h : ∀ i, f i = g i) :
    sumList l f = sumList l g := by
  have : f = g := funext h
  rw [this]

/-- for a symmetric dielectric tensor the C derivative of `q·ε·q` is the Python one -/
theorem getdC_eq_dBPy (N : Nac np K) (hε : ∀ x y, N.eps x y = N.eps y x) (k : Fin 3) :
    getdC N k = dBPy N k := by
  have h10 := hε 1 0; have h20 := hε 2 0; have h21 := hε 2 1
  fin_cases k <;> simp [getdC, dBPy, sumFin_eq, Fin.sum_univ_three, h10, h20, h21] <;> ring

/-- **the two implementations build the same array before Hermitisation** (no NAC / Wang NAC with a
symmetric dielectric tensor). -/
theorem rawPy_eq_rawC (T : Tabs np ns nv) (G : Geo np ns nv K) (coef : Fin nv → Fin 3 → K)
    (nac : Option (Nac np K)) (hε : ∀ N, nac = some N → ∀ x y, N.eps x y = N.eps y x) (n : Fin 3) :
    rawPy T G coef nac n = rawC T G coef nac n := by
  funext r c
  cases nac with
  | none =>
    apply Cx.ext'
    · simp only [rawPy, rawC, sumFin_re]
      apply sumList_congr; intro k
      by_cases h : T.s2p k = T.p2s (atomOf c)
      · rw [if_pos h, if_pos h.symm]
        simp only [Cx.sdiv_re, Cx.smul_re, coefPhaseSum, sumList_re, Cx.mul_re, realCoef]
        have : (sumList (T.img k (atomOf r)) fun l => (0:K) * G.c l - coef l n * G.s l)
            = sumList (T.img k (atomOf r)) fun l => -(coef l n * G.s l) := by
          apply sumList_congr; intro l; ring
        rw [this]; ring
      · rw [if_neg h, if_neg (fun h' => h h'.symm)]; rfl
    · simp only [rawPy, rawC, sumFin_im]
      apply sumList_congr; intro k
      by_cases h : T.s2p k = T.p2s (atomOf c)
      · rw [if_pos h, if_pos h.symm]
        simp only [Cx.sdiv_im, Cx.smul_im, coefPhaseSum, sumList_im, Cx.mul_im, imagCoef]
        have : (sumList (T.img k (atomOf r)) fun l => (0:K) * G.s l + coef l n * G.c l)
            = sumList (T.img k (atomOf r)) fun l => coef l n * G.c l := by
          apply sumList_congr; intro l; ring
        rw [this]; ring
      · rw [if_neg h, if_neg (fun h' => h h'.symm)]; rfl
  | some N =>
    have hd := getdC_eq_dBPy N (hε N rfl) n
    apply Cx.ext'
    · simp only [rawPy, rawC, sumFin_re]
      apply sumList_congr; intro k
      by_cases h : T.s2p k = T.p2s (atomOf c)
      · rw [if_pos h, if_pos h.symm]
        simp only [Cx.sdiv_re, Cx.smul_re, Cx.add_re, coefPhaseSum, phaseSum, sumList_re, Cx.mul_re, realCoef,
          realPhase, dnacC, ddnacC, fcNacPy, dNacPy, hd]
        have : (sumList (T.img k (atomOf r)) fun l => (0:K) * G.c l - coef l n * G.s l)
            = sumList (T.img k (atomOf r)) fun l => -(coef l n * G.s l) := by
          apply sumList_congr; intro l; ring
        rw [this]; ring
      · rw [if_neg h, if_neg (fun h' => h h'.symm)]; rfl
    · simp only [rawPy, rawC, sumFin_im]
      apply sumList_congr; intro k
      by_cases h : T.s2p k = T.p2s (atomOf c)
      · rw [if_pos h, if_pos h.symm]
        simp only [Cx.sdiv_im, Cx.smul_im, Cx.add_im, coefPhaseSum, phaseSum, sumList_im, Cx.mul_im, imagCoef,
          imagPhase, dnacC, ddnacC, fcNacPy, dNacPy, hd]
        have : (sumList (T.img k (atomOf r)) fun l => (0:K) * G.s l + coef l n * G.c l)
            = sumList (T.img k (atomOf r)) fun l => coef l n * G.c l := by
          apply sumList_congr; intro l; ring
        rw [this]; ring
      · rw [if_neg h, if_neg (fun h' => h h'.symm)]; rfl

/-! ### compiled path vs Python path -/

variable {d : Nat}

/-- Hermitian on the leading `js × js` block (the part the loop of `/repo` never visits) -/
def LeadingHermitian (js : Nat) (M : Mat d K) : Prop :=
  ∀ r c : Fin d, r.1 < js → c.1 < js → M r c = Cx.conj (M c r)

theorem hermClosed_eq_herm_of_leading (h2 : (2 : K) ≠ 0) (js : Nat) (M : Mat d K)
    (hL : LeadingHermitian js M) : hermClosed js false M = herm M := by
  funext r c
  unfold hermClosed herm
  by_cases ht : touched js false r c = true
  · rw [if_pos ht]
  · rw [if_neg ht]
    have hlt : r.1 < js ∧ c.1 < js := by
      simp only [touched, Bool.false_eq_true, if_false, Bool.or_eq_true, decide_eq_true_eq, not_or, not_le] at ht
      exact ht
    have h := hL r c hlt.1 hlt.2
    have hre : (M r c).re = (M c r).re := by rw [h]; rfl
    have him : (M r c).im = -(M c r).im := by rw [h]; rfl
    apply Cx.ext'
    · simp only; rw [← hre]; field_simp; ring
    · simp only; rw [him]; field_simp; ring

theorem hermClosed_fixed_eq_herm (M : Mat d K) : hermClosed 0 true M = herm M := by
  funext r c
  unfold hermClosed herm
  have ht : touched 0 true r c = true := by
    simp only [touched, if_true, Nat.zero_le, decide_true, Bool.true_and, Bool.or_eq_true, decide_eq_true_eq]
    exact le_total _ _
  rw [if_pos ht]

/-- **with the repaired loop bounds (`j = 0`, `k = j`) the compiled routine equals the Python one for
every force-constant array** (Wang NAC: symmetric dielectric tensor). -/
theorem ddmC_fixed_eq_py (h2 : (2 : K) ≠ 0) (T : Tabs np ns nv) (G : Geo np ns nv K) (coef : Fin nv → Fin 3 → K)
    (nac : Option (Nac np K)) (hε : ∀ N, nac = some N → ∀ x y, N.eps x y = N.eps y x) (n : Fin 3) :
    ddmC asFixed T G coef nac n = ddmPy T G coef nac n := by
  unfold ddmC ddmPy
  rw [hermLoop_eq_closed h2, rawPy_eq_rawC T G coef nac hε]
  exact hermClosed_fixed_eq_herm _

/-- the loop as written in `/repo` (`j = i`): equal to Python as soon as the array is Hermitian on
the block the loop skips. -/
theorem py_eq_c_of_leading (h2 : (2 : K) ≠ 0) (T : Tabs np ns nv) (G : Geo np ns nv K) (coef : Fin nv → Fin 3 → K)
    (nac : Option (Nac np K)) (hε : ∀ N, nac = some N → ∀ x y, N.eps x y = N.eps y x) (n : Fin 3)
    (hL : LeadingHermitian n.1 (rawC T G coef nac n)) :
    ddmC asWritten T G coef nac n = ddmPy T G coef nac n := by
  unfold ddmC ddmPy
  rw [hermLoop_eq_closed h2, rawPy_eq_rawC T G coef nac hε]
  exact hermClosed_eq_herm_of_leading h2 _ _ hL

/-- Index-permutation symmetry of lattice-periodic force constants, seen through the primitive-cell
tables: for atoms `i, j` the map `τ i j` pairs the image `k` of `j` (seen from `i`) with the image of `i`
(seen from `j`) at the opposite vector; the block is transposed, the phase data conjugated. -/
structure PermSymmetric (T : Tabs np ns nv) (G : Geo np ns nv K) (coef : Fin nv → Fin 3 → K)
    (τ : Fin np → Fin np → Fin ns ≃ Fin ns) : Prop where
  img : ∀ i j k, T.s2p (τ i j k) = T.p2s i ↔ T.s2p k = T.p2s j
  fc : ∀ i j k a b, T.s2p k = T.p2s j → G.fc (T.p2s i) k a b = G.fc (T.p2s j) (τ i j k) b a
  re : ∀ i j k n, T.s2p k = T.p2s j → realCoef T G coef (τ i j k) j n = realCoef T G coef k i n
  im : ∀ i j k n, T.s2p k = T.p2s j → imagCoef T G coef (τ i j k) j n = -imagCoef T G coef k i n
  ms : ∀ i j, G.ms i j = G.ms j i

theorem rawC_hermitian_of_symmetric (T : Tabs np ns nv) (G : Geo np ns nv K) (coef : Fin nv → Fin 3 → K)
    (τ : Fin np → Fin np → Fin ns ≃ Fin ns) (hS : PermSymmetric T G coef τ) (n : Fin 3) (r c : Fin (np * 3)) :
    rawC T G coef none n r c = Cx.conj (rawC T G coef none n c r) := by
  apply Cx.ext'
  · simp only [rawC, Cx.conj_re, sumFin_eq]
    apply Fintype.sum_equiv (τ (atomOf r) (atomOf c))
    intro k
    by_cases h : T.s2p k = T.p2s (atomOf c)
    · rw [if_pos h, if_pos ((hS.img _ _ k).2 h), ← hS.fc _ _ k _ _ h, hS.re _ _ k n h, hS.ms]
    · rw [if_neg h, if_neg (fun h' => h ((hS.img _ _ k).1 h'))]
  · simp only [rawC, Cx.conj_im, sumFin_eq]
    rw [← Finset.sum_neg_distrib]
    apply Fintype.sum_equiv (τ (atomOf r) (atomOf c))
    intro k
    by_cases h : T.s2p k = T.p2s (atomOf c)
    · rw [if_pos h, if_pos ((hS.img _ _ k).2 h), ← hS.fc _ _ k _ _ h, hS.im _ _ k n h, hS.ms]; ring
    · rw [if_neg h, if_neg (fun h' => h ((hS.img _ _ k).1 h')), neg_zero]

/-- **C and Python agree on index-permutation symmetric force constants** (loop as written). -/
theorem py_eq_c_on_symmetric (h2 : (2 : K) ≠ 0) (T : Tabs np ns nv) (G : Geo np ns nv K) (coef : Fin nv → Fin 3 → K)
    (τ : Fin np → Fin np → Fin ns ≃ Fin ns) (hS : PermSymmetric T G coef τ) (n : Fin 3) :
    ddmC asWritten T G coef none n = ddmPy T G coef none n :=
  py_eq_c_of_leading h2 T G coef none (fun _ h => by cases h) n
    (fun r c _ _ => rawC_hermitian_of_symmetric T G coef τ hS n r c)

/-- the driver's staged loop is the model's loop -/
theorem ddmC_staged (L : LoopSpec) (T : Tabs np ns nv) (G : Geo np ns nv K) (coef : Fin nv → Fin 3 → K)
    (nac : Option (Nac np K)) (n : Fin 3) :
    thaw2 (hermLoopF (np * 3) (L.js n) L.kFromJ (freeze2 (rawC T G coef nac n))) 0 = ddmC L T G coef nac n := by
  rw [hermLoopF_spec, thaw2_freeze2]; rfl

/-! ### non-vacuity and the counterexample for the loop as written

A chain of three cells, one atom per cell (`np = 1`, `ns = 3`), rational phases `(3/5, ±4/5)`. -/

def Tw : Tabs 1 3 3 := { p2s := fun _ => 0, s2p := fun _ => 0, img := fun k _ => [k] }
def coefw : Fin 3 → Fin 3 → ℚ := fun l _ => if l = 0 then 0 else if l = 1 then 1 else -1
/-- force constants that are *not* index-permutation symmetric: `Φ(0,1)_xx = 1`, `Φ(0,2)_xx = 0` -/
def Gw : Geo 1 3 3 ℚ :=
  { fc := fun i j a b => if i = 0 ∧ j = 1 ∧ a = 0 ∧ b = 0 then 1 else 0
    ms := fun _ _ => 1
    c := fun l => if l = 0 then 1 else 3/5
    s := fun l => if l = 0 then 0 else if l = 1 then 4/5 else -4/5 }
/-- symmetric force constants on the same geometry: `Φ(0,1) = Φ(0,2)ᵀ` -/
def Gs : Geo 1 3 3 ℚ := { Gw with fc := fun i j a b => if i = 0 ∧ (j = 1 ∨ j = 2) ∧ a = 0 ∧ b = 0 then 1 else 0 }
def r0 : Fin (1 * 3) := ⟨0, by decide⟩

/-- **F15**: with the loop as written in `/repo` the compiled result differs from the Python result
on force constants without index-permutation symmetry (y-derivative, element (0,0): the imaginary part
3/5 is never removed). Evaluated on the literal in-place loop. -/
theorem c_ne_py_witness :
    (ddmC asWritten Tw Gw coefw none 1 r0 r0).im ≠ (ddmPy Tw Gw coefw none 1 r0 r0).im := by
  decide +kernel

/-- the hypotheses of `py_eq_c_on_symmetric` are satisfiable by non-zero data -/
example : PermSymmetric Tw Gs coefw (fun _ _ => Equiv.swap 1 2) where
  img := by decide +kernel
  fc := by decide +kernel
  re := by decide +kernel
  im := by decide +kernel
  ms := by decide +kernel
example : (ddmC asWritten Tw Gs coefw none 1 r0 r0).im = 0 ∧ (ddmC asWritten Tw Gs coefw none 0 r0 r0).re ≠ 0 := by
  decide +kernel

/-! ### Grüneisen parameters -/

theorem smul_eq_mul (s : K) (z : Cx K) : Cx.smul s z = (⟨s, 0⟩ : Cx K) * z := by
  apply Cx.ext' <;> simp

/-- **uniform scaling**: if `D(V±) = s±·D(V₀)` (force constants scaled by `(V/V₀)^(−2g)`, same
geometry in reduced coordinates) then every mode — whatever its eigenvector — gets the same value,
the finite-difference quotient of the scale factors: `γ = −(s₊ − s₋)·V₀ / (2(V₊ − V₋))`. -/
theorem gruneisen_uniform_scaling (V Vp Vm sp sm lam : K) (e : Fin d → Cx K) (D : Fin d → Fin d → Cx K)
    (heig : ∀ r, matVec D e r = Cx.smul lam (e r))
    (hnorm : (sumFin d fun r => Cx.conj (e r) * e r) = 1)
    (hlam : lam ≠ 0) (hV : V ≠ 0) (hdV : Vp - Vm ≠ 0) (h2 : (2 : K) ≠ 0) :
    gruneisen V Vp Vm lam e (fun r c => Cx.smul sm (D r c)) (fun r c => Cx.smul sp (D r c))
      = -(sp - sm) * V / (2 * (Vp - Vm)) := by
  have hq : quadForm e (matSub (fun r c => Cx.smul sp (D r c)) (fun r c => Cx.smul sm (D r c)))
      = (⟨(sp - sm) * lam, 0⟩ : Cx K) := by
    unfold quadForm
    have hmv : ∀ r, matVec (matSub (fun r c => Cx.smul sp (D r c)) (fun r c => Cx.smul sm (D r c))) e r
        = (⟨(sp - sm) * lam, 0⟩ : Cx K) * e r := by
      intro r
      have h1 := heig r
      simp only [matVec, sumFin_eq, matSub, smul_eq_mul] at h1 ⊢
      have : ∀ c, ((⟨sp, 0⟩ : Cx K) * D r c - ⟨sm, 0⟩ * D r c) * e c = (⟨sp - sm, 0⟩ : Cx K) * (D r c * e c) := by
        intro c; apply Cx.ext' <;> simp <;> ring
      simp only [this, ← Finset.mul_sum, h1]
      apply Cx.ext' <;> simp <;> ring
    simp only [hmv, sumFin_eq] at hnorm ⊢
    have : ∀ r, Cx.conj (e r) * ((⟨(sp - sm) * lam, 0⟩ : Cx K) * e r) = ⟨(sp - sm) * lam, 0⟩ * (Cx.conj (e r) * e r) := by
      intro r; ring
    simp only [this, ← Finset.mul_sum, hnorm, mul_one]
  unfold gruneisen expect deltaStrain
  rw [hq]
  simp only
  field_simp

/-- **symmetry-reduced mesh = full mesh** (fibre-sum lemma): if `π` sends every point of the full mesh to
its irreducible representative, the weights are the fibre sizes and the summand is constant on fibres,
the weighted sum over irreducible points is the plain sum over the full mesh. -/
theorem gruneisen_reduced_eq_full {nf nr : Nat} (π : Fin nf → Fin nr) (w : Fin nr → Nat)
    (hw : ∀ j, w j = (Finset.univ.filter fun i => π i = j).card)
    (gfull : Fin nf → K) (gred : Fin nr → K) (hinv : ∀ i, gfull i = gred (π i)) :
    meshSum w gred = sumFin nf gfull := by
  unfold meshSum
  rw [sumFin_eq, sumFin_eq, ← Finset.sum_fiberwise (s := Finset.univ) (g := π) (f := gfull)]
  apply Finset.sum_congr rfl; intro j _
  rw [hw j]
  have : ∀ i ∈ Finset.univ.filter (fun i => π i = j), gfull i = gred j := by
    intro i hi
    rw [hinv i, (Finset.mem_filter.1 hi).2]
  rw [Finset.sum_congr rfl this, Finset.sum_const, nsmul_eq_mul]

end algebra

section analysis
variable {np ns nv d : Nat}

/-! ### the analytic derivative is the derivative -/

theorem sumList_cons {ι α : Type} [Add α] [OfNat α 0] (a : ι) (l : List ι) (f : ι → α) :
    sumList (a :: l) f = f a + sumList l f := rfl

theorem sumList_div {ι : Type} (l : List ι) (f : ι → ℝ) (a : ℝ) :
    sumList l (fun i => f i / a) = sumList l f / a := by
  induction l with
  | nil => simp [sumList]
  | cons b l ih => rw [sumList_cons, sumList_cons, ih]; ring

/-- the derivative of a finite (fold) sum is the fold sum of the derivatives -/
theorem hasDerivAt_sumList {ι : Type} (l : List ι) (f : ι → ℝ → ℝ) (f' : ι → ℝ) (t : ℝ)
    (h : ∀ i, HasDerivAt (f i) (f' i) t) :
    HasDerivAt (fun x => sumList l fun i => f i x) (sumList l f') t := by
  induction l with
  | nil => simpa [sumList] using hasDerivAt_const t (0 : ℝ)
  | cons a l ih =>
    simp only [sumList_cons]
    exact (h a).add ih

theorem hasDerivAt_ite (p : Prop) [Decidable p] (f : ℝ → ℝ) (f' t : ℝ) (h : HasDerivAt f f' t) :
    HasDerivAt (fun x => if p then f x else 0) (if p then f' else 0) t := by
  by_cases hp : p
  · simpa only [if_pos hp] using h
  · simpa only [if_neg hp] using hasDerivAt_const t (0 : ℝ)

/-- the phase table as a function of the family parameter -/
def geoAt (fc : FC ns ℝ) (ms : Fin np → Fin np → ℝ) (c s : ℝ → Fin nv → ℝ) (x : ℝ) : Geo np ns nv ℝ :=
  { fc := fc, ms := ms, c := c x, s := s x }

theorem rawD_re_eq (T : Tabs np ns nv) (G : Geo np ns nv ℝ) (r c : Fin (np * 3)) :
    (rawD T G none r c).re = sumFin ns fun k => if T.s2p k = T.p2s (atomOf c) then
      G.fc (T.p2s (atomOf r)) k (compOf r) (compOf c) / G.ms (atomOf r) (atomOf c)
        * ((sumList (T.img k (atomOf r)) fun l => G.c l) / mpair T k (atomOf r)) else 0 := by
  simp only [rawD, cosPhase, sumFin]
  rw [← sumList, ← sumList, ← sumList_div]
  apply sumList_congr; intro k
  by_cases h : T.s2p k = T.p2s (atomOf c)
  · rw [if_pos h, if_pos h, sumList_div]; ring
  · rw [if_neg h, if_neg h, zero_div]

theorem rawD_im_eq (T : Tabs np ns nv) (G : Geo np ns nv ℝ) (r c : Fin (np * 3)) :
    (rawD T G none r c).im = sumFin ns fun k => if T.s2p k = T.p2s (atomOf c) then
      G.fc (T.p2s (atomOf r)) k (compOf r) (compOf c) / G.ms (atomOf r) (atomOf c)
        * ((sumList (T.img k (atomOf r)) fun l => G.s l) / mpair T k (atomOf r)) else 0 := by
  simp only [rawD, sinPhase, sumFin]
  rw [← sumList, ← sumList, ← sumList_div]
  apply sumList_congr; intro k
  by_cases h : T.s2p k = T.p2s (atomOf c)
  · rw [if_pos h, if_pos h, sumList_div]; ring
  · rw [if_neg h, if_neg h, zero_div]

/-- `∂/∂q_n` of the un-Hermitised dynamical matrix is the un-Hermitised kernel output. -/
theorem hasDerivAt_rawD (T : Tabs np ns nv) (fc : FC ns ℝ) (ms : Fin np → Fin np → ℝ)
    (coef : Fin nv → Fin 3 → ℝ) (n : Fin 3) (c s : ℝ → Fin nv → ℝ) (t : ℝ)
    (hc : ∀ l, HasDerivAt (fun x => c x l) (-(coef l n * s t l)) t)
    (hs : ∀ l, HasDerivAt (fun x => s x l) (coef l n * c t l) t) (r c' : Fin (np * 3)) :
    HasDerivAt (fun x => (rawD T (geoAt fc ms c s x) none r c').re) (rawC T (geoAt fc ms c s t) coef none n r c').re t ∧
    HasDerivAt (fun x => (rawD T (geoAt fc ms c s x) none r c').im) (rawC T (geoAt fc ms c s t) coef none n r c').im t := by
  constructor
  · simp only [rawD_re_eq, rawC, realCoef, geoAt]
    unfold sumFin
    rw [← sumList]
    apply hasDerivAt_sumList
    intro k
    apply hasDerivAt_ite
    apply HasDerivAt.const_mul
    apply HasDerivAt.div_const
    exact hasDerivAt_sumList _ (fun l x => c x l) _ t hc
  · simp only [rawD_im_eq, rawC, imagCoef, geoAt]
    unfold sumFin
    rw [← sumList]
    apply hasDerivAt_sumList
    intro k
    apply hasDerivAt_ite
    apply HasDerivAt.const_mul
    apply HasDerivAt.div_const
    exact hasDerivAt_sumList _ (fun l x => s x l) _ t hs

/-- **`deriv_dynmat_is_derivative`** (no NAC; `HasDerivAt` over ℝ, entrywise for real and imaginary part).
Let the phase table move with a parameter `x` such that `d/dx (c + i s)_l = i·coef(l,n)·(c + i s)_l` — what
`exp(2πi q·svec_l)` does when the Cartesian component `q_n` grows at unit speed, `coef(l,n) = 2π (lattice·svec_l)_n`.
Then the array returned for direction `n` is the derivative of the model's dynamical matrix. -/
theorem deriv_dynmat_is_derivative (T : Tabs np ns nv) (fc : FC ns ℝ) (ms : Fin np → Fin np → ℝ)
    (coef : Fin nv → Fin 3 → ℝ) (n : Fin 3) (c s : ℝ → Fin nv → ℝ) (t : ℝ)
    (hc : ∀ l, HasDerivAt (fun x => c x l) (-(coef l n * s t l)) t)
    (hs : ∀ l, HasDerivAt (fun x => s x l) (coef l n * c t l) t) (r c' : Fin (np * 3)) :
    HasDerivAt (fun x => (dynmat T (geoAt fc ms c s x) none r c').re) (ddmPy T (geoAt fc ms c s t) coef none n r c').re t ∧
    HasDerivAt (fun x => (dynmat T (geoAt fc ms c s x) none r c').im) (ddmPy T (geoAt fc ms c s t) coef none n r c').im t := by
  have h1 := hasDerivAt_rawD T fc ms coef n c s t hc hs r c'
  have h2 := hasDerivAt_rawD T fc ms coef n c s t hc hs c' r
  unfold dynmat ddmPy
  rw [rawPy_eq_rawC T _ coef none (fun _ h => by cases h)]
  exact ⟨(h1.1.add h2.1).div_const 2, (h1.2.sub h2.2).div_const 2⟩

/-- the same for the compiled routine: with the repaired loop bounds for every force-constant array … -/
theorem deriv_dynmat_is_derivative_C_fixed (T : Tabs np ns nv) (fc : FC ns ℝ) (ms : Fin np → Fin np → ℝ)
    (coef : Fin nv → Fin 3 → ℝ) (n : Fin 3) (c s : ℝ → Fin nv → ℝ) (t : ℝ)
    (hc : ∀ l, HasDerivAt (fun x => c x l) (-(coef l n * s t l)) t)
    (hs : ∀ l, HasDerivAt (fun x => s x l) (coef l n * c t l) t) (r c' : Fin (np * 3)) :
    HasDerivAt (fun x => (dynmat T (geoAt fc ms c s x) none r c').re) (ddmC asFixed T (geoAt fc ms c s t) coef none n r c').re t ∧
    HasDerivAt (fun x => (dynmat T (geoAt fc ms c s x) none r c').im) (ddmC asFixed T (geoAt fc ms c s t) coef none n r c').im t := by
  rw [ddmC_fixed_eq_py two_ne_zero T _ coef none (fun _ h => by cases h)]
  exact deriv_dynmat_is_derivative T fc ms coef n c s t hc hs r c'

/-- … and with the loop as written in `/repo` for index-permutation symmetric force constants. -/
theorem deriv_dynmat_is_derivative_C_symmetric (T : Tabs np ns nv) (fc : FC ns ℝ) (ms : Fin np → Fin np → ℝ)
    (coef : Fin nv → Fin 3 → ℝ) (n : Fin 3) (c s : ℝ → Fin nv → ℝ) (t : ℝ)
    (hc : ∀ l, HasDerivAt (fun x => c x l) (-(coef l n * s t l)) t)
    (hs : ∀ l, HasDerivAt (fun x => s x l) (coef l n * c t l) t)
    (τ : Fin np → Fin np → Fin ns ≃ Fin ns) (hS : PermSymmetric T (geoAt fc ms c s t) coef τ) (r c' : Fin (np * 3)) :
    HasDerivAt (fun x => (dynmat T (geoAt fc ms c s x) none r c').re) (ddmC asWritten T (geoAt fc ms c s t) coef none n r c').re t ∧
    HasDerivAt (fun x => (dynmat T (geoAt fc ms c s x) none r c').im) (ddmC asWritten T (geoAt fc ms c s t) coef none n r c').im t := by
  rw [py_eq_c_on_symmetric two_ne_zero T _ coef τ hS]
  exact deriv_dynmat_is_derivative T fc ms coef n c s t hc hs r c'

/-- the hypotheses on the family are those of `exp`: `c = cos(θ_l + x·κ_l)`, `s = sin(θ_l + x·κ_l)`. -/
example (θ κ : Fin nv → ℝ) (l : Fin nv) (t : ℝ) :
    HasDerivAt (fun x => Real.cos (θ l + x * κ l)) (-(κ l * Real.sin (θ l + t * κ l))) t ∧
    HasDerivAt (fun x => Real.sin (θ l + x * κ l)) (κ l * Real.cos (θ l + t * κ l)) t := by
  have h : HasDerivAt (fun x => θ l + x * κ l) (κ l) t := by
    simpa using ((hasDerivAt_id t).mul_const (κ l)).const_add (θ l)
  constructor
  · have := h.cos; convert this using 1; ring
  · have := h.sin; convert this using 1; ring

/-! ### group velocity = gradient of the frequency (Hellmann–Feynman assumed) -/

/-- Given the Hellmann–Feynman derivative `λ'(t) = ⟨e|∂D|e⟩` of the eigenvalue branch (hypothesis — eigen-perturbation
theory is not re-derived), the reported group-velocity component is the derivative of the frequency
`f = factor·√λ` of that branch, for a mode above the cutoff. -/
theorem gv_eq_grad_freq_partial (factor cutoff : ℝ) (lam : ℝ → ℝ) (t : ℝ) (e : Fin d → Cx ℝ) (ddm : Mat d ℝ)
    (hHF : HasDerivAt lam (expect e ddm) t) (hpos : 0 < lam t) (hfac : factor ≠ 0)
    (hcut : cutoff < factor * Real.sqrt (lam t)) :
    HasDerivAt (fun x => factor * Real.sqrt (lam x)) (gvMode factor cutoff (factor * Real.sqrt (lam t)) e ddm) t := by
  have h := (hHF.sqrt hpos.ne').const_mul factor
  have hs0 : Real.sqrt (lam t) ≠ 0 := (Real.sqrt_pos.2 hpos).ne'
  have hval : gvMode factor cutoff (factor * Real.sqrt (lam t)) e ddm
      = factor * (expect e ddm / (2 * Real.sqrt (lam t))) := by
    unfold gvMode
    rw [if_pos hcut]
    field_simp
  rw [hval]
  exact h

/-- The full statement (not proved): for a differentiable Hermitian family with a simple eigenvalue at `t`
there is a differentiable eigenvalue branch through it whose frequency has the reported group velocity as
derivative.  `gv_eq_grad_freq_partial` assumes the existence and the Hellmann–Feynman derivative of the branch. -/
def FullStatement_gv_eq_grad_freq : Prop :=
  ∀ (d : Nat) (D : ℝ → Mat d ℝ) (D' : Mat d ℝ) (t : ℝ) (e : Fin d → Cx ℝ) (lam0 factor cutoff : ℝ),
    (∀ r c, HasDerivAt (fun x => (D x r c).re) (D' r c).re t ∧ HasDerivAt (fun x => (D x r c).im) (D' r c).im t) →
    (∀ x r c, D x r c = Cx.conj (D x c r)) →
    (∀ r, matVec (D t) e r = Cx.smul lam0 (e r)) → (sumFin d fun r => Cx.conj (e r) * e r) = 1 →
    (∀ e' : Fin d → Cx ℝ, (∀ r, matVec (D t) e' r = Cx.smul lam0 (e' r)) → ∃ z : Cx ℝ, ∀ r, e' r = z * e r) →
    0 < lam0 → factor ≠ 0 → cutoff < factor * Real.sqrt lam0 →
    ∃ lam : ℝ → ℝ, lam t = lam0 ∧
      (∀ᶠ x in nhds t, ∃ ex : Fin d → Cx ℝ, (∃ r, ex r ≠ 0) ∧ ∀ r, matVec (D x) ex r = Cx.smul (lam x) (ex r)) ∧
      HasDerivAt (fun x => factor * Real.sqrt (lam x)) (gvMode factor cutoff (factor * Real.sqrt lam0) e D') t

end analysis

end PhononModel.C12

#print axioms PhononModel.C12.coefC_eq_coefPy
#print axioms PhononModel.C12.rawPy_eq_rawC
#print axioms PhononModel.C12.hermLoop_eq_closed
#print axioms PhononModel.C12.ddmC_fixed_eq_py
#print axioms PhononModel.C12.py_eq_c_of_leading
#print axioms PhononModel.C12.rawC_hermitian_of_symmetric
#print axioms PhononModel.C12.py_eq_c_on_symmetric
#print axioms PhononModel.C12.ddmC_staged
#print axioms PhononModel.C12.c_ne_py_witness
#print axioms PhononModel.C12.gruneisen_uniform_scaling
#print axioms PhononModel.C12.gruneisen_reduced_eq_full
#print axioms PhononModel.C12.deriv_dynmat_is_derivative
#print axioms PhononModel.C12.deriv_dynmat_is_derivative_C_fixed
#print axioms PhononModel.C12.deriv_dynmat_is_derivative_C_symmetric
#print axioms PhononModel.C12.gv_eq_grad_freq_partial
