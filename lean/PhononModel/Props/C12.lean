import PhononModel.Lemmas.DerivDynMat
import PhononModel.Model.Gruneisen
import PhononModel.Model.GroupVelocity
import Mathlib.Algebra.BigOperators.Field
import Mathlib.Algebra.Order.Field.Basic
import Mathlib.Algebra.Order.AbsoluteValue.Basic
import Mathlib.Algebra.BigOperators.Fin
import Mathlib.Algebra.BigOperators.Group.Finset.Basic
import Mathlib.Tactic.FinCases
import Mathlib.Tactic.NormNum
import Mathlib.Analysis.Calculus.Deriv.Add
import Mathlib.Analysis.Calculus.Deriv.Mul
import Mathlib.Analysis.SpecialFunctions.Sqrt
import Mathlib.Analysis.Calculus.Deriv.Slope
import Mathlib.Analysis.SpecialFunctions.Trigonometric.Deriv
/-!
# C12 — group velocities and Grüneisen parameters are true derivatives of the spectrum

Theorems are about `Model/DerivDynMat.lean` and `Model/Gruneisen.lean`; algebraic statements hold
over every field (characteristic ≠ 2 where a Hermitian average occurs), the derivative statements
over ℝ (entrywise `HasDerivAt` of real and imaginary parts).  `./check C12` ties the models to
`c/derivative_dynmat.c`, `harmonic/derivative_dynmat.py`, `c/dynmat.c`, `gruneisen/core.py`,
`phonon/group_velocity.py` by running both on the same inputs.
-/
set_option linter.unusedSectionVars false
set_option linter.unusedVariables false
namespace PhononModel.C12
open PhononModel PhononModel.CP Finset Filter Topology

section algebra
variable {K : Type} [Field K]
variable {np ns nv : Nat}

theorem coefC_eq_coefPy (tp : K) (lat : Fin 3 → Fin 3 → K) (sv : Fin nv → Fin 3 → K)
    (l : Fin nv) (m : Fin 3) : coefC tp lat sv l m = coefPy tp lat sv l m := by
  simp only [coefC, coefPy, sumFin_eq, Finset.mul_sum]
  apply Finset.sum_congr rfl; intros; ring

theorem sumList_re {ι : Type} (l : List ι) (f : ι → Cx K) : (sumList l f).re = sumList l fun i => (f i).re := by
  induction l with
  | nil => rfl
  | cons a l ih => simp only [sumList, List.map_cons, List.foldr_cons, Cx.add_re] at ih ⊢; rw [ih]

theorem sumList_im {ι : Type} (l : List ι) (f : ι → Cx K) : (sumList l f).im = sumList l fun i => (f i).im := by
  induction l with
  | nil => rfl
  | cons a l ih => simp only [sumList, List.map_cons, List.foldr_cons, Cx.add_im] at ih ⊢; rw [ih]

theorem sumFin_re (n : Nat) (f : Fin n → Cx K) : (sumFin n f).re = sumFin n fun i => (f i).re :=
  sumList_re (List.finRange n) f
theorem sumFin_im (n : Nat) (f : Fin n → Cx K) : (sumFin n f).im = sumFin n fun i => (f i).im :=
  sumList_im (List.finRange n) f

theorem sumList_congr {ι α : Type} [Add α] [OfNat α 0] (l : List ι) (f g : ι → α) (h : ∀ i, f i = g i) :
    sumList l f = sumList l g := by
  have : f = g := funext h
  rw [this]

/-- for a symmetric dielectric tensor the C derivative of `q·ε·q` is the Python one -/
theorem getdC_eq_dBPy (N : Nac np K) (hε : ∀ x y, N.eps x y = N.eps y x) (k : Fin 3) :
    getdC N k = dBPy N k := by
  have h10 := hε 1 0; have h20 := hε 2 0; have h21 := hε 2 1
  fin_cases k <;> simp [getdC, dBPy, sumFin_eq, Fin.sum_univ_three, h10, h20, h21] <;> ring

/-- **the two implementations build the same array before Hermitisation** (no NAC / Wang NAC with a
symmetric dielectric tensor). -/
theorem rawPy_eq_rawC (T : Tabs np ns nv) (G : Geo np ns nv K) (coef : Fin nv → Fin 3 → K)
    (nac : Option (Nac np K)) (hε : ∀ N, nac = some N → ∀ x y, N.eps x y = N.eps y x) (n : Fin 3) :
    rawPy T G coef nac n = rawC T G coef nac n := by
  funext r c
  cases nac with
  | none =>
    apply Cx.ext'
    · simp only [rawPy, rawC, sumFin_re]
      apply sumList_congr; intro k
      by_cases h : T.s2p k = T.p2s (atomOf c)
      · rw [if_pos h, if_pos h.symm]
        simp only [Cx.sdiv_re, Cx.smul_re, coefPhaseSum, sumList_re, Cx.mul_re, realCoef]
        have : (sumList (T.img k (atomOf r)) fun l => (0:K) * G.c l - coef l n * G.s l)
            = sumList (T.img k (atomOf r)) fun l => -(coef l n * G.s l) := by
          apply sumList_congr; intro l; ring
        rw [this]; ring
      · rw [if_neg h, if_neg (fun h' => h h'.symm)]; rfl
    · simp only [rawPy, rawC, sumFin_im]
      apply sumList_congr; intro k
      by_cases h : T.s2p k = T.p2s (atomOf c)
      · rw [if_pos h, if_pos h.symm]
        simp only [Cx.sdiv_im, Cx.smul_im, coefPhaseSum, sumList_im, Cx.mul_im, imagCoef]
        have : (sumList (T.img k (atomOf r)) fun l => (0:K) * G.s l + coef l n * G.c l)
            = sumList (T.img k (atomOf r)) fun l => coef l n * G.c l := by
          apply sumList_congr; intro l; ring
        rw [this]; ring
      · rw [if_neg h, if_neg (fun h' => h h'.symm)]; rfl
  | some N =>
    have hd := getdC_eq_dBPy N (hε N rfl) n
    apply Cx.ext'
    · simp only [rawPy, rawC, sumFin_re]
      apply sumList_congr; intro k
      by_cases h : T.s2p k = T.p2s (atomOf c)
      · rw [if_pos h, if_pos h.symm]
        simp only [Cx.sdiv_re, Cx.smul_re, Cx.add_re, coefPhaseSum, phaseSum, sumList_re, Cx.mul_re, realCoef,
          realPhase, dnacC, ddnacC, fcNacPy, dNacPy, hd]
        have : (sumList (T.img k (atomOf r)) fun l => (0:K) * G.c l - coef l n * G.s l)
            = sumList (T.img k (atomOf r)) fun l => -(coef l n * G.s l) := by
          apply sumList_congr; intro l; ring
        rw [this]; ring
      · rw [if_neg h, if_neg (fun h' => h h'.symm)]; rfl
    · simp only [rawPy, rawC, sumFin_im]
      apply sumList_congr; intro k
      by_cases h : T.s2p k = T.p2s (atomOf c)
      · rw [if_pos h, if_pos h.symm]
        simp only [Cx.sdiv_im, Cx.smul_im, Cx.add_im, coefPhaseSum, phaseSum, sumList_im, Cx.mul_im, imagCoef,
          imagPhase, dnacC, ddnacC, fcNacPy, dNacPy, hd]
        have : (sumList (T.img k (atomOf r)) fun l => (0:K) * G.s l + coef l n * G.c l)
            = sumList (T.img k (atomOf r)) fun l => coef l n * G.c l := by
          apply sumList_congr; intro l; ring
        rw [this]; ring
      · rw [if_neg h, if_neg (fun h' => h h'.symm)]; rfl

/-! ### compiled path vs Python path -/

variable {d : Nat}

/-- Hermitian on the leading `js × js` block (the part the loop of `/repo` never visits) -/
def LeadingHermitian (js : Nat) (M : Mat d K) : Prop :=
  ∀ r c : Fin d, r.1 < js → c.1 < js → M r c = Cx.conj (M c r)

theorem hermClosed_eq_herm_of_leading (h2 : (2 : K) ≠ 0) (js : Nat) (M : Mat d K)
    (hL : LeadingHermitian js M) : hermClosed js false M = herm M := by
  funext r c
  unfold hermClosed herm
  by_cases ht : touched js false r c = true
  · rw [if_pos ht]
  · rw [if_neg ht]
    have hlt : r.1 < js ∧ c.1 < js := by
      simp only [touched, Bool.false_eq_true, if_false, Bool.or_eq_true, decide_eq_true_eq, not_or, not_le] at ht
      exact ht
    have h := hL r c hlt.1 hlt.2
    have hre : (M r c).re = (M c r).re := by rw [h]; rfl
    have him : (M r c).im = -(M c r).im := by rw [h]; rfl
    apply Cx.ext'
    · simp only; rw [← hre]; field_simp; ring
    · simp only; rw [him]; field_simp; ring

theorem hermClosed_fixed_eq_herm (M : Mat d K) : hermClosed 0 true M = herm M := by
  funext r c
  unfold hermClosed herm
  have ht : touched 0 true r c = true := by
    simp only [touched, if_true, Nat.zero_le, decide_true, Bool.true_and, Bool.or_eq_true, decide_eq_true_eq]
    exact le_total _ _
  rw [if_pos ht]

/-- **with the repaired loop bounds (`j = 0`, `k = j`) the compiled routine equals the Python one for
every force-constant array** (Wang NAC: symmetric dielectric tensor). -/
theorem ddmC_fixed_eq_py (h2 : (2 : K) ≠ 0) (T : Tabs np ns nv) (G : Geo np ns nv K) (coef : Fin nv → Fin 3 → K)
    (nac : Option (Nac np K)) (hε : ∀ N, nac = some N → ∀ x y, N.eps x y = N.eps y x) (n : Fin 3) :
    ddmC asFixed T G coef nac n = ddmPy T G coef nac n := by
  unfold ddmC ddmPy
  rw [hermLoop_eq_closed h2, rawPy_eq_rawC T G coef nac hε]
  exact hermClosed_fixed_eq_herm _

/-- the loop as written in `/repo` (`j = i`): equal to Python as soon as the array is Hermitian on
the block the loop skips. -/
theorem py_eq_c_of_leading (h2 : (2 : K) ≠ 0) (T : Tabs np ns nv) (G : Geo np ns nv K) (coef : Fin nv → Fin 3 → K)
    (nac : Option (Nac np K)) (hε : ∀ N, nac = some N → ∀ x y, N.eps x y = N.eps y x) (n : Fin 3)
    (hL : LeadingHermitian n.1 (rawC T G coef nac n)) :
    ddmC asWritten T G coef nac n = ddmPy T G coef nac n := by
  unfold ddmC ddmPy
  rw [hermLoop_eq_closed h2, rawPy_eq_rawC T G coef nac hε]
  exact hermClosed_eq_herm_of_leading h2 _ _ hL

/-- Index-permutation symmetry of lattice-periodic force constants, seen through the primitive-cell
tables: for atoms `i, j` the map `τ i j` pairs the image `k` of `j` (seen from `i`) with the image of `i`
(seen from `j`) at the opposite vector; the block is transposed, the phase data conjugated. -/
structure PermSymmetric (T : Tabs np ns nv) (G : Geo np ns nv K) (coef : Fin nv → Fin 3 → K)
    (τ : Fin np → Fin np → Fin ns ≃ Fin ns) : Prop where
  img : ∀ i j k, T.s2p (τ i j k) = T.p2s i ↔ T.s2p k = T.p2s j
  fc : ∀ i j k a b, T.s2p k = T.p2s j → G.fc (T.p2s i) k a b = G.fc (T.p2s j) (τ i j k) b a
  re : ∀ i j k n, T.s2p k = T.p2s j → realCoef T G coef (τ i j k) j n = realCoef T G coef k i n
  im : ∀ i j k n, T.s2p k = T.p2s j → imagCoef T G coef (τ i j k) j n = -imagCoef T G coef k i n
  ms : ∀ i j, G.ms i j = G.ms j i

theorem rawC_hermitian_of_symmetric (T : Tabs np ns nv) (G : Geo np ns nv K) (coef : Fin nv → Fin 3 → K)
    (τ : Fin np → Fin np → Fin ns ≃ Fin ns) (hS : PermSymmetric T G coef τ) (n : Fin 3) (r c : Fin (np * 3)) :
    rawC T G coef none n r c = Cx.conj (rawC T G coef none n c r) := by
  apply Cx.ext'
  · simp only [rawC, Cx.conj_re, sumFin_eq]
    apply Fintype.sum_equiv (τ (atomOf r) (atomOf c))
    intro k
    by_cases h : T.s2p k = T.p2s (atomOf c)
    · rw [if_pos h, if_pos ((hS.img _ _ k).2 h), ← hS.fc _ _ k _ _ h, hS.re _ _ k n h, hS.ms]
    · rw [if_neg h, if_neg (fun h' => h ((hS.img _ _ k).1 h'))]
  · simp only [rawC, Cx.conj_im, sumFin_eq]
    rw [← Finset.sum_neg_distrib]
    apply Fintype.sum_equiv (τ (atomOf r) (atomOf c))
    intro k
    by_cases h : T.s2p k = T.p2s (atomOf c)
    · rw [if_pos h, if_pos ((hS.img _ _ k).2 h), ← hS.fc _ _ k _ _ h, hS.im _ _ k n h, hS.ms]; ring
    · rw [if_neg h, if_neg (fun h' => h ((hS.img _ _ k).1 h')), neg_zero]

/-- **C and Python agree on index-permutation symmetric force constants** (loop as written). -/
theorem py_eq_c_on_symmetric (h2 : (2 : K) ≠ 0) (T : Tabs np ns nv) (G : Geo np ns nv K) (coef : Fin nv → Fin 3 → K)
    (τ : Fin np → Fin np → Fin ns ≃ Fin ns) (hS : PermSymmetric T G coef τ) (n : Fin 3) :
    ddmC asWritten T G coef none n = ddmPy T G coef none n :=
  py_eq_c_of_leading h2 T G coef none (fun _ h => by cases h) n
    (fun r c _ _ => rawC_hermitian_of_symmetric T G coef τ hS n r c)

/-- the driver's staged loop is the model's loop -/
theorem ddmC_staged (L : LoopSpec) (T : Tabs np ns nv) (G : Geo np ns nv K) (coef : Fin nv → Fin 3 → K)
    (nac : Option (Nac np K)) (n : Fin 3) :
    thaw2 (hermLoopF (np * 3) (L.js n) L.kFromJ (freeze2 (rawC T G coef nac n))) 0 = ddmC L T G coef nac n := by
  rw [hermLoopF_spec, thaw2_freeze2]; rfl

/-! ### non-vacuity and the counterexample for the loop as written

A chain of three cells, one atom per cell (`np = 1`, `ns = 3`), rational phases `(3/5, ±4/5)`. -/

def Tw : Tabs 1 3 3 := { p2s := fun _ => 0, s2p := fun _ => 0, img := fun k _ => [k] }
def coefw : Fin 3 → Fin 3 → ℚ := fun l _ => if l = 0 then 0 else if l = 1 then 1 else -1
/-- force constants that are *not* index-permutation symmetric: `Φ(0,1)_xx = 1`, `Φ(0,2)_xx = 0` -/
def Gw : Geo 1 3 3 ℚ :=
  { fc := fun i j a b => if i = 0 ∧ j = 1 ∧ a = 0 ∧ b = 0 then 1 else 0
    ms := fun _ _ => 1
    c := fun l => if l = 0 then 1 else 3/5
    s := fun l => if l = 0 then 0 else if l = 1 then 4/5 else -4/5 }
/-- symmetric force constants on the same geometry: `Φ(0,1) = Φ(0,2)ᵀ` -/
def Gs : Geo 1 3 3 ℚ := { Gw with fc := fun i j a b => if i = 0 ∧ (j = 1 ∨ j = 2) ∧ a = 0 ∧ b = 0 then 1 else 0 }
def r0 : Fin (1 * 3) := ⟨0, by decide⟩

/-- **F15**: with the loop as written in `/repo` the compiled result differs from the Python result
on force constants without index-permutation symmetry (y-derivative, element (0,0): the imaginary part
3/5 is never removed). Evaluated on the literal in-place loop. -/
theorem c_ne_py_witness :
    (ddmC asWritten Tw Gw coefw none 1 r0 r0).im ≠ (ddmPy Tw Gw coefw none 1 r0 r0).im := by
  decide +kernel

/-- the hypotheses of `py_eq_c_on_symmetric` are satisfiable by non-zero data -/
example : PermSymmetric Tw Gs coefw (fun _ _ => Equiv.swap 1 2) where
  img := by decide +kernel
  fc := by decide +kernel
  re := by decide +kernel
  im := by decide +kernel
  ms := by decide +kernel
example : (ddmC asWritten Tw Gs coefw none 1 r0 r0).im = 0 ∧ (ddmC asWritten Tw Gs coefw none 0 r0 r0).re ≠ 0 := by
  decide +kernel

/-! ### Grüneisen parameters -/

theorem smul_eq_mul (s : K) (z : Cx K) : Cx.smul s z = (⟨s, 0⟩ : Cx K) * z := by
  apply Cx.ext' <;> simp

/-- **uniform scaling**: if `D(V±) = s±·D(V₀)` (force constants scaled by `(V/V₀)^(−2g)`, same
geometry in reduced coordinates) then every mode — whatever its eigenvector — gets the same value,
the finite-difference quotient of the scale factors: `γ = −(s₊ − s₋)·V₀ / (2(V₊ − V₋))`. -/
theorem gruneisen_uniform_scaling (V Vp Vm sp sm lam : K) (e : Fin d → Cx K) (D : Fin d → Fin d → Cx K)
    (heig : ∀ r, matVec D e r = Cx.smul lam (e r))
    (hnorm : (sumFin d fun r => Cx.conj (e r) * e r) = 1)
    (hlam : lam ≠ 0) (hV : V ≠ 0) (hdV : Vp - Vm ≠ 0) (h2 : (2 : K) ≠ 0) :
    gruneisen V Vp Vm lam e (fun r c => Cx.smul sm (D r c)) (fun r c => Cx.smul sp (D r c))
      = -(sp - sm) * V / (2 * (Vp - Vm)) := by
  have hq : quadForm e (matSub (fun r c => Cx.smul sp (D r c)) (fun r c => Cx.smul sm (D r c)))
      = (⟨(sp - sm) * lam, 0⟩ : Cx K) := by
    unfold quadForm
    have hmv : ∀ r, matVec (matSub (fun r c => Cx.smul sp (D r c)) (fun r c => Cx.smul sm (D r c))) e r
        = (⟨(sp - sm) * lam, 0⟩ : Cx K) * e r := by
      intro r
      have h1 := heig r
      simp only [matVec, sumFin_eq, matSub, smul_eq_mul] at h1 ⊢
      have : ∀ c, ((⟨sp, 0⟩ : Cx K) * D r c - ⟨sm, 0⟩ * D r c) * e c = (⟨sp - sm, 0⟩ : Cx K) * (D r c * e c) := by
        intro c; apply Cx.ext' <;> simp <;> ring
      simp only [this, ← Finset.mul_sum, h1]
      apply Cx.ext' <;> simp <;> ring
    simp only [hmv, sumFin_eq] at hnorm ⊢
    have : ∀ r, Cx.conj (e r) * ((⟨(sp - sm) * lam, 0⟩ : Cx K) * e r) = ⟨(sp - sm) * lam, 0⟩ * (Cx.conj (e r) * e r) := by
      intro r; ring
    simp only [this, ← Finset.mul_sum, hnorm, mul_one]
  unfold gruneisen expect deltaStrain
  rw [hq]
  simp only
  field_simp

/-- **symmetry-reduced mesh = full mesh** (fibre-sum lemma): if `π` sends every point of the full mesh to
its irreducible representative, the weights are the fibre sizes and the summand is constant on fibres,
the weighted sum over irreducible points is the plain sum over the full mesh. -/
theorem gruneisen_reduced_eq_full {nf nr : Nat} (π : Fin nf → Fin nr) (w : Fin nr → Nat)
    (hw : ∀ j, w j = (Finset.univ.filter fun i => π i = j).card)
    (gfull : Fin nf → K) (gred : Fin nr → K) (hinv : ∀ i, gfull i = gred (π i)) :
    meshSum w gred = sumFin nf gfull := by
  unfold meshSum
  rw [sumFin_eq, sumFin_eq, ← Finset.sum_fiberwise (s := Finset.univ) (g := π) (f := gfull)]
  apply Finset.sum_congr rfl; intro j _
  rw [hw j]
  have : ∀ i ∈ Finset.univ.filter (fun i => π i = j), gfull i = gred j := by
    intro i hi
    rw [hinv i, (Finset.mem_filter.1 hi).2]
  rw [Finset.sum_congr rfl this, Finset.sum_const, nsmul_eq_mul]

end algebra

section analysis
variable {np ns nv d : Nat}

/-! ### the analytic derivative is the derivative -/

theorem sumList_cons {ι α : Type} [Add α] [OfNat α 0] (a : ι) (l : List ι) (f : ι → α) :
    sumList (a :: l) f = f a + sumList l f := rfl

theorem sumList_div {ι : Type} (l : List ι) (f : ι → ℝ) (a : ℝ) :
    sumList l (fun i => f i / a) = sumList l f / a := by
  induction l with
  | nil => simp [sumList]
  | cons b l ih => rw [sumList_cons, sumList_cons, ih]; ring

/-- the derivative of a finite (fold) sum is the fold sum of the derivatives -/
theorem hasDerivAt_sumList {ι : Type} (l : List ι) (f : ι → ℝ → ℝ) (f' : ι → ℝ) (t : ℝ)
    (h : ∀ i, HasDerivAt (f i) (f' i) t) :
    HasDerivAt (fun x => sumList l fun i => f i x) (sumList l f') t := by
  induction l with
  | nil => simpa [sumList] using hasDerivAt_const t (0 : ℝ)
  | cons a l ih =>
    simp only [sumList_cons]
    exact (h a).add ih

theorem hasDerivAt_ite (p : Prop) [Decidable p] (f : ℝ → ℝ) (f' t : ℝ) (h : HasDerivAt f f' t) :
    HasDerivAt (fun x => if p then f x else 0) (if p then f' else 0) t := by
  by_cases hp : p
  · simpa only [if_pos hp] using h
  · simpa only [if_neg hp] using hasDerivAt_const t (0 : ℝ)

/-- the phase table as a function of the family parameter -/
def geoAt (fc : FC ns ℝ) (ms : Fin np → Fin np → ℝ) (c s : ℝ → Fin nv → ℝ) (x : ℝ) : Geo np ns nv ℝ :=
  { fc := fc, ms := ms, c := c x, s := s x }

theorem rawD_re_eq (T : Tabs np ns nv) (G : Geo np ns nv ℝ) (r c : Fin (np * 3)) :
    (rawD T G none r c).re = sumFin ns fun k => if T.s2p k = T.p2s (atomOf c) then
      G.fc (T.p2s (atomOf r)) k (compOf r) (compOf c) / G.ms (atomOf r) (atomOf c)
        * ((sumList (T.img k (atomOf r)) fun l => G.c l) / mpair T k (atomOf r)) else 0 := by
  simp only [rawD, cosPhase, sumFin]
  rw [← sumList, ← sumList, ← sumList_div]
  apply sumList_congr; intro k
  by_cases h : T.s2p k = T.p2s (atomOf c)
  · rw [if_pos h, if_pos h, sumList_div]; ring
  · rw [if_neg h, if_neg h, zero_div]

theorem rawD_im_eq (T : Tabs np ns nv) (G : Geo np ns nv ℝ) (r c : Fin (np * 3)) :
    (rawD T G none r c).im = sumFin ns fun k => if T.s2p k = T.p2s (atomOf c) then
      G.fc (T.p2s (atomOf r)) k (compOf r) (compOf c) / G.ms (atomOf r) (atomOf c)
        * ((sumList (T.img k (atomOf r)) fun l => G.s l) / mpair T k (atomOf r)) else 0 := by
  simp only [rawD, sinPhase, sumFin]
  rw [← sumList, ← sumList, ← sumList_div]
  apply sumList_congr; intro k
  by_cases h : T.s2p k = T.p2s (atomOf c)
  · rw [if_pos h, if_pos h, sumList_div]; ring
  · rw [if_neg h, if_neg h, zero_div]

/-- `∂/∂q_n` of the un-Hermitised dynamical matrix is the un-Hermitised kernel output. -/
theorem hasDerivAt_rawD (T : Tabs np ns nv) (fc : FC ns ℝ) (ms : Fin np → Fin np → ℝ)
    (coef : Fin nv → Fin 3 → ℝ) (n : Fin 3) (c s : ℝ → Fin nv → ℝ) (t : ℝ)
    (hc : ∀ l, HasDerivAt (fun x => c x l) (-(coef l n * s t l)) t)
    (hs : ∀ l, HasDerivAt (fun x => s x l) (coef l n * c t l) t) (r c' : Fin (np * 3)) :
    HasDerivAt (fun x => (rawD T (geoAt fc ms c s x) none r c').re) (rawC T (geoAt fc ms c s t) coef none n r c').re t ∧
    HasDerivAt (fun x => (rawD T (geoAt fc ms c s x) none r c').im) (rawC T (geoAt fc ms c s t) coef none n r c').im t := by
  constructor
  · simp only [rawD_re_eq, rawC, realCoef, geoAt]
    unfold sumFin
    rw [← sumList]
    apply hasDerivAt_sumList
    intro k
    apply hasDerivAt_ite
    apply HasDerivAt.const_mul
    apply HasDerivAt.div_const
    exact hasDerivAt_sumList _ (fun l x => c x l) _ t hc
  · simp only [rawD_im_eq, rawC, imagCoef, geoAt]
    unfold sumFin
    rw [← sumList]
    apply hasDerivAt_sumList
    intro k
    apply hasDerivAt_ite
    apply HasDerivAt.const_mul
    apply HasDerivAt.div_const
    exact hasDerivAt_sumList _ (fun l x => s x l) _ t hs

/-- **`deriv_dynmat_is_derivative`** (no NAC; `HasDerivAt` over ℝ, entrywise for real and imaginary part).
Let the phase table move with a parameter `x` such that `d/dx (c + i s)_l = i·coef(l,n)·(c + i s)_l` — what
`exp(2πi q·svec_l)` does when the Cartesian component `q_n` grows at unit speed, `coef(l,n) = 2π (lattice·svec_l)_n`.
Then the array returned for direction `n` is the derivative of the model's dynamical matrix. -/
theorem deriv_dynmat_is_derivative (T : Tabs np ns nv) (fc : FC ns ℝ) (ms : Fin np → Fin np → ℝ)
    (coef : Fin nv → Fin 3 → ℝ) (n : Fin 3) (c s : ℝ → Fin nv → ℝ) (t : ℝ)
    (hc : ∀ l, HasDerivAt (fun x => c x l) (-(coef l n * s t l)) t)
    (hs : ∀ l, HasDerivAt (fun x => s x l) (coef l n * c t l) t) (r c' : Fin (np * 3)) :
    HasDerivAt (fun x => (dynmat T (geoAt fc ms c s x) none r c').re) (ddmPy T (geoAt fc ms c s t) coef none n r c').re t ∧
    HasDerivAt (fun x => (dynmat T (geoAt fc ms c s x) none r c').im) (ddmPy T (geoAt fc ms c s t) coef none n r c').im t := by
  have h1 := hasDerivAt_rawD T fc ms coef n c s t hc hs r c'
  have h2 := hasDerivAt_rawD T fc ms coef n c s t hc hs c' r
  unfold dynmat ddmPy
  rw [rawPy_eq_rawC T _ coef none (fun _ h => by cases h)]
  exact ⟨(h1.1.add h2.1).div_const 2, (h1.2.sub h2.2).div_const 2⟩

/-- the same for the compiled routine: with the repaired loop bounds for every force-constant array … -/
theorem deriv_dynmat_is_derivative_C_fixed (T : Tabs np ns nv) (fc : FC ns ℝ) (ms : Fin np → Fin np → ℝ)
    (coef : Fin nv → Fin 3 → ℝ) (n : Fin 3) (c s : ℝ → Fin nv → ℝ) (t : ℝ)
    (hc : ∀ l, HasDerivAt (fun x => c x l) (-(coef l n * s t l)) t)
    (hs : ∀ l, HasDerivAt (fun x => s x l) (coef l n * c t l) t) (r c' : Fin (np * 3)) :
    HasDerivAt (fun x => (dynmat T (geoAt fc ms c s x) none r c').re) (ddmC asFixed T (geoAt fc ms c s t) coef none n r c').re t ∧
    HasDerivAt (fun x => (dynmat T (geoAt fc ms c s x) none r c').im) (ddmC asFixed T (geoAt fc ms c s t) coef none n r c').im t := by
  rw [ddmC_fixed_eq_py two_ne_zero T _ coef none (fun _ h => by cases h)]
  exact deriv_dynmat_is_derivative T fc ms coef n c s t hc hs r c'

/-- … and with the loop as written in `/repo` for index-permutation symmetric force constants. -/
theorem deriv_dynmat_is_derivative_C_symmetric (T : Tabs np ns nv) (fc : FC ns ℝ) (ms : Fin np → Fin np → ℝ)
    (coef : Fin nv → Fin 3 → ℝ) (n : Fin 3) (c s : ℝ → Fin nv → ℝ) (t : ℝ)
    (hc : ∀ l, HasDerivAt (fun x => c x l) (-(coef l n * s t l)) t)
    (hs : ∀ l, HasDerivAt (fun x => s x l) (coef l n * c t l) t)
    (τ : Fin np → Fin np → Fin ns ≃ Fin ns) (hS : PermSymmetric T (geoAt fc ms c s t) coef τ) (r c' : Fin (np * 3)) :
    HasDerivAt (fun x => (dynmat T (geoAt fc ms c s x) none r c').re) (ddmC asWritten T (geoAt fc ms c s t) coef none n r c').re t ∧
    HasDerivAt (fun x => (dynmat T (geoAt fc ms c s x) none r c').im) (ddmC asWritten T (geoAt fc ms c s t) coef none n r c').im t := by
  rw [py_eq_c_on_symmetric two_ne_zero T _ coef τ hS]
  exact deriv_dynmat_is_derivative T fc ms coef n c s t hc hs r c'

/-! #### any direction: `GroupVelocity._get_dD_analytical` contracts the three arrays with `dq` -/

theorem sumList_add {ι : Type} (l : List ι) (f g : ι → ℝ) :
    sumList l (fun i => f i + g i) = sumList l f + sumList l g := by
  induction l with
  | nil => simp [sumList]
  | cons b l ih => rw [sumList_cons, sumList_cons, sumList_cons, ih]; ring

theorem sumList_mul_left {ι : Type} (l : List ι) (f : ι → ℝ) (a : ℝ) :
    sumList l (fun i => a * f i) = a * sumList l f := by
  induction l with
  | nil => simp [sumList]
  | cons b l ih => rw [sumList_cons, sumList_cons, ih]; ring

theorem sumFin_eq_sumList {α : Type} [Add α] [OfNat α 0] (n : Nat) (f : Fin n → α) :
    sumFin n f = sumList (List.finRange n) f := rfl

theorem sumFin3 (f : Fin 3 → ℝ) : sumFin 3 f = f 0 + f 1 + f 2 := by
  rw [sumFin_eq, Fin.sum_univ_three]

/-- coefficient table of the direction `dq`: `κ_l = Σ_n dq_n·coef(l,n)` in every column -/
def coefDir (dq : Fin 3 → ℝ) (coef : Fin nv → Fin 3 → ℝ) : Fin nv → Fin 3 → ℝ :=
  fun l _ => sumFin 3 fun n => dq n * coef l n

theorem realCoef_dir (T : Tabs np ns nv) (G : Geo np ns nv ℝ) (coef : Fin nv → Fin 3 → ℝ) (dq : Fin 3 → ℝ)
    (k : Fin ns) (i : Fin np) (m : Fin 3) :
    realCoef T G (coefDir dq coef) k i m = sumFin 3 fun n => dq n * realCoef T G coef k i n := by
  simp only [realCoef, coefDir, sumFin3]
  have : (sumList (T.img k i) fun l => -((dq 0 * coef l 0 + dq 1 * coef l 1 + dq 2 * coef l 2) * G.s l))
      = sumList (T.img k i) fun l => dq 0 * -(coef l 0 * G.s l) + dq 1 * -(coef l 1 * G.s l) + dq 2 * -(coef l 2 * G.s l) := by
    apply sumList_congr; intro l; ring
  rw [this, sumList_add, sumList_add, sumList_mul_left, sumList_mul_left, sumList_mul_left]; ring

theorem imagCoef_dir (T : Tabs np ns nv) (G : Geo np ns nv ℝ) (coef : Fin nv → Fin 3 → ℝ) (dq : Fin 3 → ℝ)
    (k : Fin ns) (i : Fin np) (m : Fin 3) :
    imagCoef T G (coefDir dq coef) k i m = sumFin 3 fun n => dq n * imagCoef T G coef k i n := by
  simp only [imagCoef, coefDir, sumFin3]
  have : (sumList (T.img k i) fun l => (dq 0 * coef l 0 + dq 1 * coef l 1 + dq 2 * coef l 2) * G.c l)
      = sumList (T.img k i) fun l => dq 0 * (coef l 0 * G.c l) + dq 1 * (coef l 1 * G.c l) + dq 2 * (coef l 2 * G.c l) := by
    apply sumList_congr; intro l; ring
  rw [this, sumList_add, sumList_add, sumList_mul_left, sumList_mul_left, sumList_mul_left]; ring

/-- the kernel output is linear in the coefficient table -/
theorem rawC_dir (T : Tabs np ns nv) (G : Geo np ns nv ℝ) (coef : Fin nv → Fin 3 → ℝ) (dq : Fin 3 → ℝ)
    (m : Fin 3) (r c : Fin (np * 3)) :
    rawC T G (coefDir dq coef) none m r c = ddmDir dq (fun n => rawC T G coef none n) r c := by
  apply Cx.ext'
  · simp only [rawC, ddmDir, realCoef_dir, sumFin3]
    simp only [sumFin_eq_sumList]
    have : (sumList (List.finRange ns) fun k => if T.s2p k = T.p2s (atomOf c) then
          G.fc (T.p2s (atomOf r)) k (compOf r) (compOf c) / G.ms (atomOf r) (atomOf c)
            * (dq 0 * realCoef T G coef k (atomOf r) 0 + dq 1 * realCoef T G coef k (atomOf r) 1 + dq 2 * realCoef T G coef k (atomOf r) 2) else 0)
        = sumList (List.finRange ns) fun k =>
            dq 0 * (if T.s2p k = T.p2s (atomOf c) then G.fc (T.p2s (atomOf r)) k (compOf r) (compOf c) / G.ms (atomOf r) (atomOf c) * realCoef T G coef k (atomOf r) 0 else 0)
          + dq 1 * (if T.s2p k = T.p2s (atomOf c) then G.fc (T.p2s (atomOf r)) k (compOf r) (compOf c) / G.ms (atomOf r) (atomOf c) * realCoef T G coef k (atomOf r) 1 else 0)
          + dq 2 * (if T.s2p k = T.p2s (atomOf c) then G.fc (T.p2s (atomOf r)) k (compOf r) (compOf c) / G.ms (atomOf r) (atomOf c) * realCoef T G coef k (atomOf r) 2 else 0) := by
      apply sumList_congr; intro k
      split <;> ring
    rw [this, sumList_add, sumList_add, sumList_mul_left, sumList_mul_left, sumList_mul_left]
  · simp only [rawC, ddmDir, imagCoef_dir, sumFin3]
    simp only [sumFin_eq_sumList]
    have : (sumList (List.finRange ns) fun k => if T.s2p k = T.p2s (atomOf c) then
          G.fc (T.p2s (atomOf r)) k (compOf r) (compOf c) / G.ms (atomOf r) (atomOf c)
            * (dq 0 * imagCoef T G coef k (atomOf r) 0 + dq 1 * imagCoef T G coef k (atomOf r) 1 + dq 2 * imagCoef T G coef k (atomOf r) 2) else 0)
        = sumList (List.finRange ns) fun k =>
            dq 0 * (if T.s2p k = T.p2s (atomOf c) then G.fc (T.p2s (atomOf r)) k (compOf r) (compOf c) / G.ms (atomOf r) (atomOf c) * imagCoef T G coef k (atomOf r) 0 else 0)
          + dq 1 * (if T.s2p k = T.p2s (atomOf c) then G.fc (T.p2s (atomOf r)) k (compOf r) (compOf c) / G.ms (atomOf r) (atomOf c) * imagCoef T G coef k (atomOf r) 1 else 0)
          + dq 2 * (if T.s2p k = T.p2s (atomOf c) then G.fc (T.p2s (atomOf r)) k (compOf r) (compOf c) / G.ms (atomOf r) (atomOf c) * imagCoef T G coef k (atomOf r) 2 else 0) := by
      apply sumList_congr; intro k
      split <;> ring
    rw [this, sumList_add, sumList_add, sumList_mul_left, sumList_mul_left, sumList_mul_left]

theorem ddmPy_dir (T : Tabs np ns nv) (G : Geo np ns nv ℝ) (coef : Fin nv → Fin 3 → ℝ) (dq : Fin 3 → ℝ)
    (m : Fin 3) (r c : Fin (np * 3)) :
    ddmPy T G (coefDir dq coef) none m r c = ddmDir dq (fun n => ddmPy T G coef none n) r c := by
  unfold ddmPy
  simp only [rawPy_eq_rawC T G _ none (fun _ h => by cases h)]
  apply Cx.ext'
  · simp only [herm, rawC_dir, ddmDir, sumFin3]; ring
  · simp only [herm, rawC_dir, ddmDir, sumFin3]; ring

/-- **directional form**: if the phases move as `exp(2πi (q + x·dq)·svec)` — `d/dx (c + i s)_l = i κ_l (c + i s)_l`,
`κ_l = Σ_n dq_n·coef(l,n)` — the derivative of the dynamical matrix is the contraction
`Σ_n dq_n·ddm[n]` that `GroupVelocity._get_dD_analytical` forms. -/
theorem deriv_dynmat_directional (T : Tabs np ns nv) (fc : FC ns ℝ) (ms : Fin np → Fin np → ℝ)
    (coef : Fin nv → Fin 3 → ℝ) (dq : Fin 3 → ℝ) (c s : ℝ → Fin nv → ℝ) (t : ℝ)
    (hc : ∀ l, HasDerivAt (fun x => c x l) (-((sumFin 3 fun n => dq n * coef l n) * s t l)) t)
    (hs : ∀ l, HasDerivAt (fun x => s x l) ((sumFin 3 fun n => dq n * coef l n) * c t l) t) (r c' : Fin (np * 3)) :
    HasDerivAt (fun x => (dynmat T (geoAt fc ms c s x) none r c').re)
      (ddmDir dq (fun n => ddmPy T (geoAt fc ms c s t) coef none n) r c').re t ∧
    HasDerivAt (fun x => (dynmat T (geoAt fc ms c s x) none r c').im)
      (ddmDir dq (fun n => ddmPy T (geoAt fc ms c s t) coef none n) r c').im t := by
  rw [← ddmPy_dir T _ coef dq 0]
  exact deriv_dynmat_is_derivative T fc ms (coefDir dq coef) 0 c s t hc hs r c'


/-- the NAC data when the Cartesian component `q_n` has moved by `x` -/
def nacAt (N : Nac np ℝ) (n : Fin 3) (x : ℝ) : Nac np ℝ :=
  { N with qc := fun y => N.qc y + x * (if y = n then 1 else 0) }

@[simp] theorem nacAt_factor (N : Nac np ℝ) (n : Fin 3) (x : ℝ) : (nacAt N n x).factor = N.factor := rfl
@[simp] theorem getdA_nacAt (N : Nac np ℝ) (n : Fin 3) (x : ℝ) (i : Fin np) (a k : Fin 3) :
    getdA (nacAt N n x) i a k = getdA N i a k := rfl

theorem hasDerivAt_lin (a e b t : ℝ) : HasDerivAt (fun x => (a + x * e) * b) (e * b) t := by
  have h := (((hasDerivAt_id t).mul_const e).const_add a).mul_const b
  simpa using h

theorem hasDerivAt_getA (N : Nac np ℝ) (n : Fin 3) (i : Fin np) (l : Fin 3) (t : ℝ) :
    HasDerivAt (fun x => getA (nacAt N n x) i l) (getdA N i l n) t := by
  simp only [getA, nacAt, sumFin3]
  have h := ((hasDerivAt_lin (N.qc 0) (if (0:Fin 3) = n then 1 else 0) (N.born i 0 l) t).add
    (hasDerivAt_lin (N.qc 1) (if (1:Fin 3) = n then 1 else 0) (N.born i 1 l) t)).add
    (hasDerivAt_lin (N.qc 2) (if (2:Fin 3) = n then 1 else 0) (N.born i 2 l) t)
  refine h.congr_deriv ?_
  unfold getdA
  fin_cases n <;> simp

theorem hasDerivAt_quad (a e b a' e' t : ℝ) :
    HasDerivAt (fun x => (a + x * e) * b * (a' + x * e')) (e * b * (a' + t * e') + (a + t * e) * b * e') t := by
  have h1 : HasDerivAt (fun x => (a + x * e) * b) (e * b) t := hasDerivAt_lin a e b t
  have h2 : HasDerivAt (fun x => a' + x * e') e' t := by
    simpa using ((hasDerivAt_id t).mul_const e').const_add a'
  exact h1.mul h2

theorem hasDerivAt_getC (N : Nac np ℝ) (n : Fin 3) (t : ℝ) :
    HasDerivAt (fun x => getC (nacAt N n x)) (getdC (nacAt N n t) n) t := by
  simp only [getC, nacAt, sumFin3]
  have h : ∀ y z : Fin 3, HasDerivAt (fun x => (N.qc y + x * (if y = n then 1 else 0)) * N.eps y z * (N.qc z + x * (if z = n then 1 else 0))) _ t :=
    fun y z => hasDerivAt_quad _ _ _ _ _ t
  have hh := ((((h 0 0).add (h 0 1)).add (h 0 2)).add (((h 1 0).add (h 1 1)).add (h 1 2))).add (((h 2 0).add (h 2 1)).add (h 2 2))
  refine hh.congr_deriv ?_
  unfold getdC
  fin_cases n <;> simp <;> ring


theorem hasDerivAt_chargeSum (N : Nac np ℝ) (n : Fin 3) (i j : Fin np) (a b : Fin 3) (t : ℝ)
    (hC : getC (nacAt N n t) ≠ 0) :
    HasDerivAt (fun x => chargeSum (nacAt N n x) i j a b)
      ((getdA N i a n * getA (nacAt N n t) j b + getA (nacAt N n t) i a * getdA N j b n) * (N.factor / getC (nacAt N n t))
        + getA (nacAt N n t) i a * getA (nacAt N n t) j b
          * ((0 * getC (nacAt N n t) - N.factor * getdC (nacAt N n t) n) / getC (nacAt N n t) ^ 2)) t := by
  unfold chargeSum
  have hf : (fun x => (nacAt N n x).factor) = fun _ => N.factor := rfl
  have h1 := (hasDerivAt_getA N n i a t).mul (hasDerivAt_getA N n j b t)
  have h2 := (hasDerivAt_const t N.factor).div (hasDerivAt_getC N n t) hC
  exact h1.mul h2

/-- with the Wang term: `∂/∂q_n` of the un-Hermitised dynamical matrix is the un-Hermitised kernel output -/
theorem hasDerivAt_rawD_nac (T : Tabs np ns nv) (fc : FC ns ℝ) (ms : Fin np → Fin np → ℝ)
    (coef : Fin nv → Fin 3 → ℝ) (n : Fin 3) (c s : ℝ → Fin nv → ℝ) (N : Nac np ℝ) (t : ℝ)
    (hc : ∀ l, HasDerivAt (fun x => c x l) (-(coef l n * s t l)) t)
    (hs : ∀ l, HasDerivAt (fun x => s x l) (coef l n * c t l) t)
    (hC : getC (nacAt N n t) ≠ 0) (r c' : Fin (np * 3)) :
    HasDerivAt (fun x => (rawD T (geoAt fc ms c s x) (some (nacAt N n x)) r c').re)
      (rawC T (geoAt fc ms c s t) coef (some (nacAt N n t)) n r c').re t ∧
    HasDerivAt (fun x => (rawD T (geoAt fc ms c s x) (some (nacAt N n x)) r c').im)
      (rawC T (geoAt fc ms c s t) coef (some (nacAt N n t)) n r c').im t := by
  have hcs := hasDerivAt_chargeSum N n (atomOf r) (atomOf c') (compOf r) (compOf c') t hC
  constructor
  · have hcos : ∀ k, HasDerivAt (fun x => cosPhase T (geoAt fc ms c s x) k (atomOf r))
        (sumList (T.img k (atomOf r)) fun l => -(coef l n * s t l) / mpair T k (atomOf r)) t := by
      intro k
      unfold cosPhase
      simp only [geoAt]
      exact hasDerivAt_sumList _ (fun l x => c x l / mpair T k (atomOf r)) _ t (fun l => (hc l).div_const _)
    have hterm : ∀ k, HasDerivAt (fun x => if T.s2p k = T.p2s (atomOf c') then
          (fc (T.p2s (atomOf r)) k (compOf r) (compOf c') + chargeSum (nacAt N n x) (atomOf r) (atomOf c') (compOf r) (compOf c'))
            * cosPhase T (geoAt fc ms c s x) k (atomOf r) else 0) _ t :=
      fun k => hasDerivAt_ite _ _ _ t ((hcs.const_add _).mul (hcos k))
    have hsum := (hasDerivAt_sumList (List.finRange ns) _ _ t hterm).div_const (ms (atomOf r) (atomOf c'))
    simp only [rawD, geoAt, sumFin_eq_sumList] at hsum ⊢
    refine hsum.congr_deriv ?_
    simp only [rawC, sumFin_eq_sumList, geoAt]
    rw [← sumList_div]
    apply sumList_congr; intro k
    split
    · simp only [realCoef, realPhase, cosPhase, dnacC, ddnacC, chargeSum, sumList_div, nacAt_factor, getdA_nacAt]
      ring
    · simp
  · have hsin : ∀ k, HasDerivAt (fun x => sinPhase T (geoAt fc ms c s x) k (atomOf r))
        (sumList (T.img k (atomOf r)) fun l => (coef l n * c t l) / mpair T k (atomOf r)) t := by
      intro k
      unfold sinPhase
      simp only [geoAt]
      exact hasDerivAt_sumList _ (fun l x => s x l / mpair T k (atomOf r)) _ t (fun l => (hs l).div_const _)
    have hterm : ∀ k, HasDerivAt (fun x => if T.s2p k = T.p2s (atomOf c') then
          (fc (T.p2s (atomOf r)) k (compOf r) (compOf c') + chargeSum (nacAt N n x) (atomOf r) (atomOf c') (compOf r) (compOf c'))
            * sinPhase T (geoAt fc ms c s x) k (atomOf r) else 0) _ t :=
      fun k => hasDerivAt_ite _ _ _ t ((hcs.const_add _).mul (hsin k))
    have hsum := (hasDerivAt_sumList (List.finRange ns) _ _ t hterm).div_const (ms (atomOf r) (atomOf c'))
    simp only [rawD, geoAt, sumFin_eq_sumList] at hsum ⊢
    refine hsum.congr_deriv ?_
    simp only [rawC, sumFin_eq_sumList, geoAt]
    rw [← sumList_div]
    apply sumList_congr; intro k
    split
    · simp only [imagCoef, imagPhase, sinPhase, dnacC, ddnacC, chargeSum, sumList_div, nacAt_factor, getdA_nacAt]
      ring
    · simp

/-- **`deriv_dynmat_is_derivative`, Wang NAC**: the Cartesian component `q_n` moves at unit speed; the phases move
as before and the non-analytical term `A_i⊗A_j·factor/(q·ε·q)` is evaluated at `q_c + x·e_n`.  For a symmetric dielectric
tensor and `q·ε·q ≠ 0` the array returned for direction `n` is the derivative of the model's Wang dynamical matrix. -/
theorem deriv_dynmat_is_derivative_nac (T : Tabs np ns nv) (fc : FC ns ℝ) (ms : Fin np → Fin np → ℝ)
    (coef : Fin nv → Fin 3 → ℝ) (n : Fin 3) (c s : ℝ → Fin nv → ℝ) (N : Nac np ℝ) (t : ℝ)
    (hc : ∀ l, HasDerivAt (fun x => c x l) (-(coef l n * s t l)) t)
    (hs : ∀ l, HasDerivAt (fun x => s x l) (coef l n * c t l) t)
    (hε : ∀ x y, N.eps x y = N.eps y x) (hC : getC (nacAt N n t) ≠ 0) (r c' : Fin (np * 3)) :
    HasDerivAt (fun x => (dynmat T (geoAt fc ms c s x) (some (nacAt N n x)) r c').re)
      (ddmPy T (geoAt fc ms c s t) coef (some (nacAt N n t)) n r c').re t ∧
    HasDerivAt (fun x => (dynmat T (geoAt fc ms c s x) (some (nacAt N n x)) r c').im)
      (ddmPy T (geoAt fc ms c s t) coef (some (nacAt N n t)) n r c').im t := by
  have h1 := hasDerivAt_rawD_nac T fc ms coef n c s N t hc hs hC r c'
  have h2 := hasDerivAt_rawD_nac T fc ms coef n c s N t hc hs hC c' r
  unfold dynmat ddmPy
  rw [rawPy_eq_rawC T _ coef (some (nacAt N n t)) (fun N' h => by cases h; exact hε)]
  exact ⟨(h1.1.add h2.1).div_const 2, (h1.2.sub h2.2).div_const 2⟩

/-- the hypotheses on the family are those of `exp`: `c = cos(θ_l + x·κ_l)`, `s = sin(θ_l + x·κ_l)`. -/
example (θ κ : Fin nv → ℝ) (l : Fin nv) (t : ℝ) :
    HasDerivAt (fun x => Real.cos (θ l + x * κ l)) (-(κ l * Real.sin (θ l + t * κ l))) t ∧
    HasDerivAt (fun x => Real.sin (θ l + x * κ l)) (κ l * Real.cos (θ l + t * κ l)) t := by
  have h : HasDerivAt (fun x => θ l + x * κ l) (κ l) t := by
    simpa using ((hasDerivAt_id t).mul_const (κ l)).const_add (θ l)
  constructor
  · have := h.cos; convert this using 1; ring
  · have := h.sin; convert this using 1; ring

/-! ### group velocity = gradient of the frequency (Hellmann–Feynman assumed) -/

/-- Given the Hellmann–Feynman derivative `λ'(t) = ⟨e|∂D|e⟩` of the eigenvalue branch (hypothesis — eigen-perturbation
theory is not re-derived), the reported group-velocity component is the derivative of the frequency
`f = factor·√λ` of that branch, for a mode above the cutoff. -/
theorem gv_eq_grad_freq_partial (factor cutoff : ℝ) (lam : ℝ → ℝ) (t : ℝ) (e : Fin d → Cx ℝ) (ddm : Mat d ℝ)
    (hHF : HasDerivAt lam (expect e ddm) t) (hpos : 0 < lam t) (hfac : factor ≠ 0)
    (hcut : cutoff < factor * Real.sqrt (lam t)) :
    HasDerivAt (fun x => factor * Real.sqrt (lam x)) (gvMode factor cutoff (factor * Real.sqrt (lam t)) e ddm) t := by
  have h := (hHF.sqrt hpos.ne').const_mul factor
  have hs0 : Real.sqrt (lam t) ≠ 0 := (Real.sqrt_pos.2 hpos).ne'
  have hval : gvMode factor cutoff (factor * Real.sqrt (lam t)) e ddm
      = factor * (expect e ddm / (2 * Real.sqrt (lam t))) := by
    unfold gvMode
    rw [if_pos hcut]
    field_simp
  rw [hval]
  exact h



/-- `⟨a| M |v⟩ = Σ_r conj(a_r)·Σ_c M_rc v_c` -/
def bra (a : Fin d → Cx ℝ) (M : Mat d ℝ) (v : Fin d → Cx ℝ) : Cx ℝ :=
  ∑ r, Cx.conj (a r) * ∑ c, M r c * v c

def inner' (a v : Fin d → Cx ℝ) : Cx ℝ := ∑ r, Cx.conj (a r) * v r

theorem quadForm_eq_bra (e : Fin d → Cx ℝ) (M : Mat d ℝ) : quadForm e M = bra e M e := by
  simp only [quadForm, bra, matVec, sumFin_eq]

theorem bra_re (a : Fin d → Cx ℝ) (M : Mat d ℝ) (v : Fin d → Cx ℝ) :
    (bra a M v).re = ∑ r, ∑ c, ((a r).re * ((M r c).re * (v c).re - (M r c).im * (v c).im)
      + (a r).im * ((M r c).re * (v c).im + (M r c).im * (v c).re)) := by
  simp only [bra, Cx.sum_re, Finset.mul_sum]
  apply Finset.sum_congr rfl; intro r _
  apply Finset.sum_congr rfl; intro c _
  simp only [Cx.mul_re, Cx.mul_im, Cx.conj_re, Cx.conj_im]; ring

/-- eigen-equation at `t` plus Hermiticity: `⟨e_t| D_t |v⟩ = λ_t ⟨e_t|v⟩` -/
theorem bra_eigen_left (D : Mat d ℝ) (e v : Fin d → Cx ℝ) (lam : ℝ)
    (hherm : ∀ r c, D r c = Cx.conj (D c r))
    (heig : ∀ r, (∑ c, D r c * e c) = (⟨lam, 0⟩ : Cx ℝ) * e r) :
    bra e D v = (⟨lam, 0⟩ : Cx ℝ) * inner' e v := by
  unfold bra inner'
  simp only [Finset.mul_sum]
  rw [Finset.sum_comm]
  apply Finset.sum_congr rfl; intro c _
  have : (∑ r, Cx.conj (e r) * (D r c * v c)) = Cx.conj (∑ r, D c r * e r) * v c := by
    rw [Cx.conj_sum, Finset.sum_mul]
    apply Finset.sum_congr rfl; intro r _
    rw [Cx.conj_mul, ← hherm r c]; ring
  rw [this, heig c, Cx.conj_mul]
  have : Cx.conj (⟨lam, 0⟩ : Cx ℝ) = ⟨lam, 0⟩ := by apply Cx.ext' <;> simp
  rw [this]; ring

theorem bra_eigen_right (D : Mat d ℝ) (a e : Fin d → Cx ℝ) (lam : ℝ)
    (heig : ∀ r, (∑ c, D r c * e c) = (⟨lam, 0⟩ : Cx ℝ) * e r) :
    bra a D e = (⟨lam, 0⟩ : Cx ℝ) * inner' a e := by
  unfold bra inner'
  simp only [heig, Finset.mul_sum]
  apply Finset.sum_congr rfl; intro r _; ring


theorem inner_re (a v : Fin d → Cx ℝ) : (inner' a v).re = ∑ r, ((a r).re * (v r).re + (a r).im * (v r).im) := by
  simp only [inner', Cx.sum_re]
  apply Finset.sum_congr rfl; intro r _
  simp only [Cx.mul_re, Cx.conj_re, Cx.conj_im]; ring

/-- **Hellmann–Feynman** for a Hermitian family with a *continuous* normalised eigenvector branch and an eigenvalue
function: `λ'(t) = ⟨e_t| D'(t) |e_t⟩`.  (No differentiability of the eigenpair is assumed; existence of the branch is.) -/
theorem hellmann_feynman (D : ℝ → Mat d ℝ) (D' : Mat d ℝ) (e : ℝ → Fin d → Cx ℝ) (lam : ℝ → ℝ) (t : ℝ)
    (hD : ∀ r c, HasDerivAt (fun x => (D x r c).re) (D' r c).re t ∧ HasDerivAt (fun x => (D x r c).im) (D' r c).im t)
    (hherm : ∀ r c, D t r c = Cx.conj (D t c r))
    (heig : ∀ x r, matVec (D x) (e x) r = Cx.smul (lam x) (e x r))
    (hnorm : (sumFin d fun r => Cx.conj (e t r) * e t r) = 1)
    (hcont : ∀ r, ContinuousAt (fun x => (e x r).re) t ∧ ContinuousAt (fun x => (e x r).im) t) :
    HasDerivAt lam (expect (e t) D') t := by
  have heig' : ∀ x r, (∑ c, D x r c * e x c) = (⟨lam x, 0⟩ : Cx ℝ) * e x r := by
    intro x r
    have := heig x r
    simpa only [matVec, sumFin_eq, Cx.smul_eq_mul] using this
  -- the difference quotient of the matrix entries
  let Sre : ℝ → Fin d → Fin d → ℝ := fun x r c => slope (fun y => (D y r c).re) t x
  let Sim : ℝ → Fin d → Fin d → ℝ := fun x r c => slope (fun y => (D y r c).im) t x
  let R : ℝ → ℝ := fun x => ∑ r, ∑ c, ((e t r).re * (Sre x r c * (e x c).re - Sim x r c * (e x c).im)
      + (e t r).im * (Sre x r c * (e x c).im + Sim x r c * (e x c).re))
  let G : ℝ → ℝ := fun x => (inner' (e t) (e x)).re
  have key : ∀ x, x ≠ t → slope lam t x * G x = R x := by
    intro x hx
    have hxt : x - t ≠ 0 := sub_ne_zero.2 hx
    have h1 := congrArg Cx.re (bra_eigen_right (D x) (e t) (e x) (lam x) (heig' x))
    have h2 := congrArg Cx.re (bra_eigen_left (D t) (e t) (e x) (lam t) hherm (heig' t))
    simp only [Cx.mul_re, zero_mul, sub_zero] at h1 h2
    have h3 : (x - t) * R x = (bra (e t) (D x) (e x)).re - (bra (e t) (D t) (e x)).re := by
      rw [bra_re, bra_re, ← Finset.sum_sub_distrib]
      simp only [R, Finset.mul_sum]
      apply Finset.sum_congr rfl; intro r _
      rw [← Finset.sum_sub_distrib]
      apply Finset.sum_congr rfl; intro c _
      simp only [Sre, Sim, slope_def_field]
      field_simp
      ring
    rw [h1, h2] at h3
    simp only [G, slope_def_field]
    field_simp
    linarith
  have hSre : ∀ r c, Tendsto (fun x => Sre x r c) (𝓝[≠] t) (𝓝 (D' r c).re) :=
    fun r c => hasDerivAt_iff_tendsto_slope.1 (hD r c).1
  have hSim : ∀ r c, Tendsto (fun x => Sim x r c) (𝓝[≠] t) (𝓝 (D' r c).im) :=
    fun r c => hasDerivAt_iff_tendsto_slope.1 (hD r c).2
  have here : ∀ c, Tendsto (fun x => (e x c).re) (𝓝[≠] t) (𝓝 (e t c).re) :=
    fun c => ((hcont c).1.tendsto).mono_left nhdsWithin_le_nhds
  have heim : ∀ c, Tendsto (fun x => (e x c).im) (𝓝[≠] t) (𝓝 (e t c).im) :=
    fun c => ((hcont c).2.tendsto).mono_left nhdsWithin_le_nhds
  have hR : Tendsto R (𝓝[≠] t) (𝓝 (expect (e t) D')) := by
    have : expect (e t) D' = ∑ r, ∑ c, ((e t r).re * ((D' r c).re * (e t c).re - (D' r c).im * (e t c).im)
        + (e t r).im * ((D' r c).re * (e t c).im + (D' r c).im * (e t c).re)) := by
      unfold expect; rw [quadForm_eq_bra, bra_re]
    rw [this]
    apply tendsto_finsetSum; intro r _
    apply tendsto_finsetSum; intro c _
    exact ((((hSre r c).mul (here c)).sub ((hSim r c).mul (heim c))).const_mul _).add
      ((((hSre r c).mul (heim c)).add ((hSim r c).mul (here c))).const_mul _)
  have hG : Tendsto G (𝓝[≠] t) (𝓝 1) := by
    have h1 : (inner' (e t) (e t)).re = 1 := by
      have := congrArg Cx.re hnorm
      simpa only [sumFin_eq, inner', Cx.one_re] using this
    rw [← h1]
    simp only [G, inner_re]
    apply tendsto_finsetSum; intro r _
    exact ((here r).const_mul _).add ((heim r).const_mul _)
  rw [hasDerivAt_iff_tendsto_slope]
  have hq := hR.div hG one_ne_zero
  rw [div_one] at hq
  refine hq.congr' ?_
  have hne : ∀ᶠ x in 𝓝[≠] t, G x ≠ 0 := hG.eventually_ne one_ne_zero
  filter_upwards [hne, self_mem_nhdsWithin] with x hx hxt
  simp only [Pi.div_apply]
  rw [← key x hxt]
  field_simp


/-- group velocity = gradient of the frequency along a continuous eigen-branch: the Hellmann–Feynman step is proved
(`hellmann_feynman`), what remains assumed is the *existence* of the continuous normalised eigenvector branch with its
eigenvalue function through the mode (true for a simple eigenvalue; not re-derived). `ddm` is the derivative of the
dynamical matrix along the family (e.g. `ddmDir dq (ddmPy …)` by `deriv_dynmat_directional`). -/
theorem gv_eq_grad_freq_of_branch_partial (factor cutoff : ℝ) (D : ℝ → Mat d ℝ) (ddm : Mat d ℝ)
    (e : ℝ → Fin d → Cx ℝ) (lam : ℝ → ℝ) (t : ℝ)
    (hD : ∀ r c, HasDerivAt (fun x => (D x r c).re) (ddm r c).re t ∧ HasDerivAt (fun x => (D x r c).im) (ddm r c).im t)
    (hherm : ∀ r c, D t r c = Cx.conj (D t c r))
    (heig : ∀ x r, matVec (D x) (e x) r = Cx.smul (lam x) (e x r))
    (hnorm : (sumFin d fun r => Cx.conj (e t r) * e t r) = 1)
    (hcont : ∀ r, ContinuousAt (fun x => (e x r).re) t ∧ ContinuousAt (fun x => (e x r).im) t)
    (hpos : 0 < lam t) (hfac : factor ≠ 0) (hcut : cutoff < factor * Real.sqrt (lam t)) :
    HasDerivAt (fun x => factor * Real.sqrt (lam x)) (gvMode factor cutoff (factor * Real.sqrt (lam t)) (e t) ddm) t :=
  gv_eq_grad_freq_partial factor cutoff lam t (e t) ddm
    (hellmann_feynman D ddm e lam t hD hherm heig hnorm hcont) hpos hfac hcut

/-- The full statement (not proved): for a differentiable Hermitian family with a simple eigenvalue at `t`
there is a differentiable eigenvalue branch through it whose frequency has the reported group velocity as
derivative.  `hellmann_feynman` proves the derivative for a given continuous branch; the `_partial` theorems assume the existence of that branch. -/
def FullStatement_gv_eq_grad_freq : Prop :=
  ∀ (d : Nat) (D : ℝ → Mat d ℝ) (D' : Mat d ℝ) (t : ℝ) (e : Fin d → Cx ℝ) (lam0 factor cutoff : ℝ),
    (∀ r c, HasDerivAt (fun x => (D x r c).re) (D' r c).re t ∧ HasDerivAt (fun x => (D x r c).im) (D' r c).im t) →
    (∀ x r c, D x r c = Cx.conj (D x c r)) →
    (∀ r, matVec (D t) e r = Cx.smul lam0 (e r)) → (sumFin d fun r => Cx.conj (e r) * e r) = 1 →
    (∀ e' : Fin d → Cx ℝ, (∀ r, matVec (D t) e' r = Cx.smul lam0 (e' r)) → ∃ z : Cx ℝ, ∀ r, e' r = z * e r) →
    0 < lam0 → factor ≠ 0 → cutoff < factor * Real.sqrt lam0 →
    ∃ lam : ℝ → ℝ, lam t = lam0 ∧
      (∀ᶠ x in nhds t, ∃ ex : Fin d → Cx ℝ, (∃ r, ex r ≠ 0) ∧ ∀ r, matVec (D x) ex r = Cx.smul (lam x) (ex r)) ∧
      HasDerivAt (fun x => factor * Real.sqrt (lam x)) (gvMode factor cutoff (factor * Real.sqrt lam0) e D') t

end analysis

/-! ### finite-difference option, little-group symmetrisation, degenerate subspaces -/

section fd
variable {K : Type} [Field K] {d : Nat}

/-- **the central difference of a family that is quadratic in the step is exact** -/
theorem fdD_exact_quadratic (A B C : Mat d K) (h : K) (hh : h ≠ 0) (h2 : (2 : K) ≠ 0) :
    fdD (fun r c => (⟨(A r c).re + h * (B r c).re + h * h * (C r c).re, (A r c).im + h * (B r c).im + h * h * (C r c).im⟩ : Cx K))
        (fun r c => (⟨(A r c).re - h * (B r c).re + h * h * (C r c).re, (A r c).im - h * (B r c).im + h * h * (C r c).im⟩ : Cx K)) h
      = B := by
  funext r c
  apply Cx.ext'
  · simp only [fdD]; field_simp; ring
  · simp only [fdD]; field_simp; ring

/-- error-bound form (scalar): a cubic remainder `≤ M·h³` on both sides gives `|FD − b| ≤ M·h²` -/
theorem central_diff_error [LinearOrder K] [IsStrictOrderedRing K] (a b c fp fm M h : K) (hh : 0 < h)
    (hp : |fp - (a + b * h + c * h * h)| ≤ M * h * h * h) (hm : |fm - (a - b * h + c * h * h)| ≤ M * h * h * h) :
    |(fp - fm) / h / 2 - b| ≤ M * h * h := by
  have e : (fp - fm) / h / 2 - b = ((fp - (a + b * h + c * h * h)) - (fm - (a - b * h + c * h * h))) / (2 * h) := by
    field_simp; ring
  rw [e, abs_div, abs_of_pos (by positivity : (0:K) < 2 * h)]
  rw [div_le_iff₀ (by positivity)]
  calc |fp - (a + b * h + c * h * h) - (fm - (a - b * h + c * h * h))|
      ≤ |fp - (a + b * h + c * h * h)| + |fm - (a - b * h + c * h * h)| := abs_sub _ _
    _ ≤ M * h * h * h + M * h * h * h := add_le_add hp hm
    _ = M * h * h * (2 * h) := by ring

/-- entrywise for the finite-difference option of `GroupVelocity` -/
theorem fdD_error_bound [LinearOrder K] [IsStrictOrderedRing K] (A B C Dp Dm : Mat d K) (M h : K) (hh : 0 < h)
    (hp : ∀ r c, |(Dp r c).re - ((A r c).re + (B r c).re * h + (C r c).re * h * h)| ≤ M * h * h * h
               ∧ |(Dp r c).im - ((A r c).im + (B r c).im * h + (C r c).im * h * h)| ≤ M * h * h * h)
    (hm : ∀ r c, |(Dm r c).re - ((A r c).re - (B r c).re * h + (C r c).re * h * h)| ≤ M * h * h * h
               ∧ |(Dm r c).im - ((A r c).im - (B r c).im * h + (C r c).im * h * h)| ≤ M * h * h * h)
    (r c : Fin d) :
    |(fdD Dp Dm h r c).re - (B r c).re| ≤ M * h * h ∧ |(fdD Dp Dm h r c).im - (B r c).im| ≤ M * h * h :=
  ⟨central_diff_error _ _ _ _ _ M h hh (hp r c).1 (hm r c).1, central_diff_error _ _ _ _ _ M h hh (hp r c).2 (hm r c).2⟩
end fd

section sym
variable {K : Type} [Field K] {n : Nat}

theorem sumList_ofFn {β : Type} (f : Fin n → β) (g : β → K) : sumList (List.ofFn f) g = ∑ s, g (f s) := by
  rw [sumList_eq, List.map_ofFn, List.sum_ofFn]; rfl

theorem mul3_eq (A B : M3 K) : mul3 A B = fun i j => ∑ k, A i k * B k j := by
  funext i j; simp only [mul3, sumFin_eq]
theorem mulVec3_eq (A : M3 K) (v : Fin 3 → K) : mulVec3 A v = fun i => ∑ k, A i k * v k := by
  funext i; simp only [mulVec3, sumFin_eq]

theorem mulVec3_mul3 (A B : M3 K) (v : Fin 3 → K) : mulVec3 A (mulVec3 B v) = mulVec3 (mul3 A B) v := by
  funext i
  simp only [mulVec3_eq, mul3_eq, Fin.sum_univ_three]; ring

theorem mul3_assoc (A B C : M3 K) : mul3 (mul3 A B) C = mul3 A (mul3 B C) := by
  funext i j
  simp only [mul3_eq, Fin.sum_univ_three]; ring

def one3 : M3 K := fun i j => if i = j then 1 else 0
theorem mul3_one (A : M3 K) : mul3 A one3 = A := by
  funext i j; simp only [mul3_eq, one3, Fin.sum_univ_three]; fin_cases j <;> simp
theorem one3_mul (A : M3 K) : mul3 one3 A = A := by
  funext i j; simp only [mul3_eq, one3, Fin.sum_univ_three]; fin_cases i <;> simp

theorem gvSym_ofFn (Rc : Fin n → M3 K) (v : Fin 3 → K) (x : Fin 3) :
    gvSym (List.ofFn Rc) v x = (∑ s, mulVec3 (Rc s) v x) / (n : K) := by
  unfold gvSym; rw [sumList_ofFn, List.length_ofFn]

/-- the Cartesian rotations multiply as the integer operations do -/
theorem simTrans_mul (B Binv : M3 K) (hB : mul3 Binv B = one3) (r s u : Fin 3 → Fin 3 → Int)
    (h : ∀ i j, (∑ k, r i k * s k j) = u i j) : mul3 (simTrans B Binv r) (simTrans B Binv s) = simTrans B Binv u := by
  unfold simTrans
  have hc : mul3 (castM3 r) (castM3 s) = (castM3 u : M3 K) := by
    funext i j
    simp only [mul3_eq, castM3, ← h i j]
    push_cast; rfl
  calc mul3 (mul3 B (mul3 (castM3 r) Binv)) (mul3 B (mul3 (castM3 s) Binv))
      = mul3 B (mul3 (castM3 r) (mul3 (mul3 Binv B) (mul3 (castM3 s) Binv))) := by simp only [mul3_assoc]
    _ = mul3 B (mul3 (mul3 (castM3 r) (castM3 s)) Binv) := by rw [hB, one3_mul, mul3_assoc]
    _ = _ := by rw [hc]

/-- (i) a vector fixed by every operation is returned unchanged -/
theorem gv_sym_fixes_invariant (Rc : Fin n → M3 K) (hn : (n : K) ≠ 0) (v : Fin 3 → K)
    (hv : ∀ s, mulVec3 (Rc s) v = v) : gvSym (List.ofFn Rc) v = v := by
  funext x
  rw [gvSym_ofFn]
  simp only [hv, Finset.sum_const, Finset.card_univ, Fintype.card_fin, nsmul_eq_mul]
  field_simp

/-- (ii) the output is fixed by every operation of the list, provided the list is closed under multiplication
(`tab` = its multiplication table, rows without repetition — the certificate `groupTableOk`) -/
theorem gv_sym_output_invariant (Rc : Fin n → M3 K) (tab : Fin n → Fin n → Fin n)
    (hmul : ∀ s t, mul3 (Rc s) (Rc t) = Rc (tab s t)) (hinj : ∀ s, Function.Injective (tab s))
    (v : Fin 3 → K) (s : Fin n) : mulVec3 (Rc s) (gvSym (List.ofFn Rc) v) = gvSym (List.ofFn Rc) v := by
  funext x
  have hw : gvSym (List.ofFn Rc) v = fun y => (∑ t, mulVec3 (Rc t) v y) / (n : K) := by
    funext y; exact gvSym_ofFn Rc v y
  have hlin : mulVec3 (Rc s) (fun y => (∑ t, mulVec3 (Rc t) v y) / (n : K)) x
      = (∑ t, mulVec3 (Rc s) (mulVec3 (Rc t) v) x) / (n : K) := by
    simp only [mulVec3_eq, Fin.sum_univ_three, Finset.sum_add_distrib, ← Finset.mul_sum]; ring
  rw [hw, hlin]
  simp only [mulVec3_mul3, hmul]
  congr 1
  exact Fintype.sum_equiv (Equiv.ofBijective (tab s) (Finite.injective_iff_bijective.1 (hinj s))) _ _ (fun t => rfl)

/-- (iii) `gv_symmetrize_fixed`: symmetrisation is a projection onto the vectors fixed by the little group -/
theorem gv_symmetrize_fixed (Rc : Fin n → M3 K) (hn : (n : K) ≠ 0) (tab : Fin n → Fin n → Fin n)
    (hmul : ∀ s t, mul3 (Rc s) (Rc t) = Rc (tab s t)) (hinj : ∀ s, Function.Injective (tab s)) (v : Fin 3 → K) :
    (∀ s, mulVec3 (Rc s) (gvSym (List.ofFn Rc) v) = gvSym (List.ofFn Rc) v)
    ∧ gvSym (List.ofFn Rc) (gvSym (List.ofFn Rc) v) = gvSym (List.ofFn Rc) v
    ∧ ((∀ s, mulVec3 (Rc s) v = v) → gvSym (List.ofFn Rc) v = v) :=
  ⟨gv_sym_output_invariant Rc tab hmul hinj v,
   gv_sym_fixes_invariant Rc hn _ (gv_sym_output_invariant Rc tab hmul hinj v),
   gv_sym_fixes_invariant Rc hn v⟩

/-- the same for the model's own pipeline: operations selected by `littleGroup`, Cartesian rotations `B·r·B⁻¹` -/
theorem symmetrizeGv_fixed [LinearOrder K] (ops : List (Fin 3 → Fin 3 → Int)) (B Binv : M3 K) (hB : mul3 Binv B = one3)
    (qbz : Fin 3 → K) (tol : K) (rs : Fin n → Fin 3 → Fin 3 → Int) (hrs : littleGroup ops qbz tol = List.ofFn rs)
    (hn : (n : K) ≠ 0) (tab : Fin n → Fin n → Fin n)
    (hmul : ∀ s t i j, (∑ k, rs s i k * rs t k j) = rs (tab s t) i j) (hinj : ∀ s, Function.Injective (tab s))
    (v : Fin 3 → K) :
    (∀ s, mulVec3 (simTrans B Binv (rs s)) (symmetrizeGv ops B Binv qbz tol v) = symmetrizeGv ops B Binv qbz tol v)
    ∧ symmetrizeGv ops B Binv qbz tol (symmetrizeGv ops B Binv qbz tol v) = symmetrizeGv ops B Binv qbz tol v
    ∧ ((∀ s, mulVec3 (simTrans B Binv (rs s)) v = v) → symmetrizeGv ops B Binv qbz tol v = v) := by
  have e : ∀ w, symmetrizeGv ops B Binv qbz tol w = gvSym (List.ofFn fun s => simTrans B Binv (rs s)) w := by
    intro w; unfold symmetrizeGv; rw [hrs, List.map_ofFn]; rfl
  simp only [e]
  exact gv_symmetrize_fixed (fun s => simTrans B Binv (rs s)) hn tab
    (fun s t => simTrans_mul B Binv hB _ _ _ (hmul s t)) hinj v
end sym

section degenerate
variable {K : Type} [Field K] {d m : Nat}

/-- the group velocities of a degenerate set are the diagonal of `U†·(E†·∂D·E)·U`: rotating the eigenvectors
and restricting the derivative commute -/
theorem gvDeg_eq_restrict (E : Fin d → Fin m → Cx K) (U : Fin m → Fin m → Cx K) (ddm : Mat d K) (ν : Fin m) :
    gvDeg E U ddm ν = (∑ a, Cx.conj (U a ν) * ∑ b, restrict E ddm a b * U b ν).re := by
  unfold gvDeg expect quadForm matVec rotated restrict
  simp only [sumFin_eq]
  congr 1
  have h1 : ∀ r, (∑ c, ddm r c * ∑ b, E c b * U b ν) = ∑ b, (∑ c, ddm r c * E c b) * U b ν := by
    intro r
    simp only [Finset.mul_sum, Finset.sum_mul]
    rw [Finset.sum_comm]
    apply Finset.sum_congr rfl; intro b _
    apply Finset.sum_congr rfl; intro c _; ring
  have h2 : ∀ r, Cx.conj (∑ a, E r a * U a ν) = ∑ a, Cx.conj (E r a) * Cx.conj (U a ν) := by
    intro r; rw [Cx.conj_sum]; apply Finset.sum_congr rfl; intro a _; rw [Cx.conj_mul]
  simp only [h1, h2]
  calc (∑ r, (∑ a, Cx.conj (E r a) * Cx.conj (U a ν)) * ∑ b, (∑ c, ddm r c * E c b) * U b ν)
      = ∑ r, ∑ a, Cx.conj (U a ν) * ∑ b, (Cx.conj (E r a) * ∑ c, ddm r c * E c b) * U b ν := by
        apply Finset.sum_congr rfl; intro r _
        rw [Finset.sum_mul]
        apply Finset.sum_congr rfl; intro a _
        rw [Finset.mul_sum, Finset.mul_sum]
        apply Finset.sum_congr rfl; intro b _; ring
    _ = ∑ a, Cx.conj (U a ν) * ∑ r, ∑ b, (Cx.conj (E r a) * ∑ c, ddm r c * E c b) * U b ν := by
        rw [Finset.sum_comm]
        apply Finset.sum_congr rfl; intro a _
        rw [Finset.mul_sum]
    _ = ∑ a, Cx.conj (U a ν) * ∑ b, (∑ r, Cx.conj (E r a) * ∑ c, ddm r c * E c b) * U b ν := by
        apply Finset.sum_congr rfl; intro a _
        congr 1
        rw [Finset.sum_comm]
        apply Finset.sum_congr rfl; intro b _
        rw [Finset.sum_mul]

/-- **the group velocities of a degenerate subspace along the perturbation direction are the spectrum of the
restricted derivative**: if `U` diagonalises `P = E†·ddms[0]·E` (`P U = U diag(μ)`, normalised columns — what `eigh` returns),
`diag(rot†·ddms[0]·rot).real = μ`. -/
theorem perturbD_spectrum (E : Fin d → Fin m → Cx K) (U : Fin m → Fin m → Cx K) (ddm0 : Mat d K) (μ : Fin m → K)
    (heig : ∀ a ν, (∑ b, restrict E ddm0 a b * U b ν) = (⟨μ ν, 0⟩ : Cx K) * U a ν)
    (hnorm : ∀ ν, (∑ a, Cx.conj (U a ν) * U a ν) = 1) (ν : Fin m) :
    gvDeg E U ddm0 ν = μ ν := by
  rw [gvDeg_eq_restrict]
  simp only [heig]
  have : (∑ a, Cx.conj (U a ν) * ((⟨μ ν, 0⟩ : Cx K) * U a ν)) = (⟨μ ν, 0⟩ : Cx K) * ∑ a, Cx.conj (U a ν) * U a ν := by
    rw [Finset.mul_sum]; apply Finset.sum_congr rfl; intro a _; ring
  rw [this, hnorm]
  simp

/-- for a non-degenerate band (`m = 1`, `U = 1`) this is the expectation value used by `gvMode` -/
theorem gvDeg_single (e : Fin d → Cx K) (ddm : Mat d K) :
    gvDeg (fun r (_ : Fin 1) => e r) (fun _ _ => 1) ddm 0 = expect e ddm := by
  unfold gvDeg rotated
  congr 1
  funext r
  simp [sumFin_eq]
end degenerate

end PhononModel.C12

#print axioms PhononModel.C12.coefC_eq_coefPy
#print axioms PhononModel.C12.rawPy_eq_rawC
#print axioms PhononModel.C12.hermLoop_eq_closed
#print axioms PhononModel.C12.ddmC_fixed_eq_py
#print axioms PhononModel.C12.py_eq_c_of_leading
#print axioms PhononModel.C12.rawC_hermitian_of_symmetric
#print axioms PhononModel.C12.py_eq_c_on_symmetric
#print axioms PhononModel.C12.ddmC_staged
#print axioms PhononModel.C12.c_ne_py_witness
#print axioms PhononModel.C12.gruneisen_uniform_scaling
#print axioms PhononModel.C12.gruneisen_reduced_eq_full
#print axioms PhononModel.C12.deriv_dynmat_is_derivative
#print axioms PhononModel.C12.deriv_dynmat_directional
#print axioms PhononModel.C12.deriv_dynmat_is_derivative_nac
#print axioms PhononModel.C12.deriv_dynmat_is_derivative_C_fixed
#print axioms PhononModel.C12.deriv_dynmat_is_derivative_C_symmetric
#print axioms PhononModel.C12.gv_eq_grad_freq_partial
#print axioms PhononModel.C12.hellmann_feynman
#print axioms PhononModel.C12.gv_eq_grad_freq_of_branch_partial
#print axioms PhononModel.C12.fdD_exact_quadratic
#print axioms PhononModel.C12.fdD_error_bound
#print axioms PhononModel.C12.simTrans_mul
#print axioms PhononModel.C12.gv_symmetrize_fixed
#print axioms PhononModel.C12.symmetrizeGv_fixed
#print axioms PhononModel.C12.gvDeg_eq_restrict
#print axioms PhononModel.C12.perturbD_spectrum
#print axioms PhononModel.C12.gvDeg_single
