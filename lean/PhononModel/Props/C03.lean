import PhononModel.Lemmas.DynMatSym
import PhononModel.Lemmas.DynMatFourier
import PhononModel.Lemmas.DynMatRot
import PhononModel.Lemmas.DynMatRotTable
import PhononModel.Lemmas.RecipOps
import PhononModel.Lemmas.DynMatBatch
import PhononModel.Lemmas.DynMatExample
import PhononModel.Lemmas.HermitianSpectrum
import Mathlib.Tactic.FinCases
import Mathlib.Tactic.NormNum
/-!
# C03 — the dynamical matrix is Hermitian, time-reversal symmetric, G-periodic (isospectral),
has the rigid translations in its kernel at Γ, and scales with `s/t`

Theorems are about `PhononModel/Model/DynMat.lean` (`dynmatC` = `c/dynmat.c`
`dym_get_dynamical_matrix_at_q`, `dynmatPy` = `_run_py_dynamical_matrix`), over every field `R`
of characteristic 0 for the real scalars (ℚ — the driver's scalars — and ℝ), complex numbers
`Cx R`, every table size, every real force-constant array and every phase table.
The phase factor is a parameter: `ph l = e (sv l)` for a character `e` of the vector group.
`./check C02` ties the model to the code; `./check C03` evaluates these identities on the code.
-/
set_option linter.unusedSectionVars false
namespace PhononModel.C03
open PhononModel Finset Matrix

variable {R : Type} [Field R] [CharZero R]
variable {np nf ns nsv nt : Nat}

/-! ### Hermiticity — unconditional -/

/-- (1) `D† = D` for the compiled kernel: any tables, any (not necessarily symmetric) real force
constants, any phases (not even of modulus one), any mass factors. -/
theorem dynmat_hermitian (T : DTables np nf ns nsv) (ph : Fin nsv → Cx R) (mm : Fin np → Fin np → R)
    (fc : Fin nf → Fin ns → Fin 3 → Fin 3 → R) :
    (dynmatC T ph mm fc).toMatrix.IsHermitian := by
  apply Matrix.IsHermitian.ext
  intro p q
  exact hermC_hermitian _ p.1 p.2 q.1 q.2

/-- the same for the Python reference implementation -/
theorem dynmatPy_hermitian (T : PyTables np nf ns nsv) (ph : Fin nsv → Cx R) (mm : Fin np → Fin np → R)
    (fc : Fin nf → Fin ns → Fin 3 → Fin 3 → R) :
    (dynmatPy T ph mm fc).toMatrix.IsHermitian := by
  apply Matrix.IsHermitian.ext
  intro p q
  exact hermPy_hermitian _ p.1 p.2 q.1 q.2

/-! ### time reversal -/

/-- (2) `D(−q) = conj D(q)`: conjugating every phase conjugates every entry (Φ, masses real). -/
theorem dynmat_time_reversal (T : DTables np nf ns nsv) (ph : Fin nsv → Cx R) (mm : Fin np → Fin np → R)
    (fc : Fin nf → Fin ns → Fin 3 → Fin 3 → R) (i a j b) :
    dynmatC T (fun l => Cx.conj (ph l)) mm fc i a j b = Cx.conj (dynmatC T ph mm fc i a j b) := by
  unfold dynmatC
  rw [← hermC_conj]
  congr 1
  funext i a j b
  exact dynmatRawC_conj T ph mm fc i a j b

/-- … in terms of a unitary character: the phases of `−q` are `e (−svec)`. -/
theorem dynmat_time_reversal_char {V : Type} [AddCommGroup V] (T : DTables np nf ns nsv) (sv : Fin nsv → V)
    (e : V → Cx R) (he : IsUnitaryChar e) (mm : Fin np → Fin np → R)
    (fc : Fin nf → Fin ns → Fin 3 → Fin 3 → R) (i a j b) :
    dynmatC T (fun l => e (-(sv l))) mm fc i a j b = Cx.conj (dynmatC T (fun l => e (sv l)) mm fc i a j b) := by
  rw [← dynmat_time_reversal]
  congr 1
  funext l; exact (he.2 (sv l)).symm

/-! ### scaling -/

/-- (3) force constants × `c`, masses × `t` (so `sqrt(m_i m_j)` × `t`): the matrix is multiplied by `c/t`. -/
theorem dynmat_scaling (T : DTables np nf ns nsv) (ph : Fin nsv → Cx R) (mm : Fin np → Fin np → R)
    (fc : Fin nf → Fin ns → Fin 3 → Fin 3 → R) (c t : R) (i a j b) :
    dynmatC T ph (fun i j => t * mm i j) (fun i k a b => c * fc i k a b) i a j b
      = Cx.ofR (c / t) * dynmatC T ph mm fc i a j b := by
  unfold dynmatC
  rw [← hermC_smul]
  congr 1
  funext i a j b
  exact dynmatRawC_scale T ph mm fc c t i a j b

/-- `sqrt((t m_i)(t m_j)) = t sqrt(m_i m_j)` expressed through square roots `s` of the masses and
`r` of `t`: the hypothesis `mm' = t * mm` of `dynmat_scaling` is what the mass setter produces. -/
theorem scaled_mass_factor (s : Fin np → R) (r t : R) (hr : r * r = t) (i j : Fin np) :
    (r * s i) * (r * s j) = t * (s i * s j) := by rw [← hr]; ring

/-- hence every eigenpair of `D` is an eigenpair of the scaled matrix with eigenvalue `× c/t`. -/
theorem dynmat_scaling_eigen (T : DTables np nf ns nsv) (ph : Fin nsv → Cx R) (mm : Fin np → Fin np → R)
    (fc : Fin nf → Fin ns → Fin 3 → Fin 3 → R) (c t : R)
    (v : Fin np × Fin 3 → Cx R) (lam : Cx R)
    (hv : (dynmatC T ph mm fc).toMatrix.mulVec v = lam • v) :
    (dynmatC T ph (fun i j => t * mm i j) (fun i k a b => c * fc i k a b)).toMatrix.mulVec v
      = (Cx.ofR (c / t) * lam) • v := by
  have : (dynmatC T ph (fun i j => t * mm i j) (fun i k a b => c * fc i k a b)).toMatrix
      = Cx.ofR (c / t) • (dynmatC T ph mm fc).toMatrix := by
    apply Matrix.ext; intro p q
    simp only [DM.toMatrix, Matrix.smul_apply, smul_eq_mul]
    exact dynmat_scaling T ph mm fc c t p.1 p.2 q.1 q.2
  rw [this, Matrix.smul_mulVec, hv, smul_smul]

/-- … and every frequency `sign(λ)·sqrt|λ|·factor` by `sqrt(c/t)` (square root and eigen-decomposition are
parameters; `c/t > 0`). -/
theorem frequency_under_scaling {K : Type} [Field K] [LinearOrder K] [IsStrictOrderedRing K]
    {sqrt : K → K} (h : IsSqrt sqrt) (factor lam c t : K) (hct : 0 < c / t) :
    frequency sqrt factor (c / t * lam) = sqrt (c / t) * frequency sqrt factor lam :=
  frequency_scaling h factor lam (c / t) hct

/-! ### what Hermiticity buys the user: real diagonal, real spectrum, orthogonal eigenvectors -/

/-- diagonal entries of the compiled kernel's matrix are real -/
theorem dynmat_diag_real (T : DTables np nf ns nsv) (ph : Fin nsv → Cx R) (mm : Fin np → Fin np → R)
    (fc : Fin nf → Fin ns → Fin 3 → Fin 3 → R) (i a) : (dynmatC T ph mm fc i a i a).im = 0 :=
  Cx.herm_diag_im (ι := Fin np × Fin 3) (fun p q => dynmatC T ph mm fc p.1 p.2 q.1 q.2)
    (fun p q => hermC_hermitian _ p.1 p.2 q.1 q.2) (i, a)

/-- **every eigenvalue of the kernel's matrix is real** (real scalars: any ordered field — ℚ, ℝ): if
`D v = λ v` for a non-zero `v` then `Im λ = 0`.  This is what licenses `eigvalsh`/`eigh` on the output and
the definition `frequency = sign(λ) sqrt|λ|`. Any tables, force constants, phases, mass factors. -/
theorem dynmat_eigenvalues_real {K : Type} [Field K] [LinearOrder K] [IsStrictOrderedRing K]
    (T : DTables np nf ns nsv) (ph : Fin nsv → Cx K) (mm : Fin np → Fin np → K)
    (fc : Fin nf → Fin ns → Fin 3 → Fin 3 → K) (v : Fin np × Fin 3 → Cx K) (lam : Cx K)
    (hv : ∃ p, v p ≠ 0)
    (hev : ∀ p, ∑ q, (dynmatC T ph mm fc).toMatrix p q * v q = lam * v p) : lam.im = 0 :=
  Cx.herm_eigenvalue_real (fun p q => (dynmatC T ph mm fc).toMatrix p q)
    (fun p q => hermC_hermitian _ p.1 p.2 q.1 q.2) v lam hv hev

/-- the same for the Python reference implementation -/
theorem dynmatPy_eigenvalues_real {K : Type} [Field K] [LinearOrder K] [IsStrictOrderedRing K]
    (T : PyTables np nf ns nsv) (ph : Fin nsv → Cx K) (mm : Fin np → Fin np → K)
    (fc : Fin nf → Fin ns → Fin 3 → Fin 3 → K) (v : Fin np × Fin 3 → Cx K) (lam : Cx K)
    (hv : ∃ p, v p ≠ 0)
    (hev : ∀ p, ∑ q, (dynmatPy T ph mm fc).toMatrix p q * v q = lam * v p) : lam.im = 0 :=
  Cx.herm_eigenvalue_real (fun p q => (dynmatPy T ph mm fc).toMatrix p q)
    (fun p q => hermPy_hermitian _ p.1 p.2 q.1 q.2) v lam hv hev

/-- eigenvectors of two different eigenvalues are orthogonal (`v† w = 0`) -/
theorem dynmat_eigenvectors_orthogonal {K : Type} [Field K] [LinearOrder K] [IsStrictOrderedRing K]
    (T : DTables np nf ns nsv) (ph : Fin nsv → Cx K) (mm : Fin np → Fin np → K)
    (fc : Fin nf → Fin ns → Fin 3 → Fin 3 → K) (v w : Fin np × Fin 3 → Cx K) (lam mu : Cx K)
    (hv0 : ∃ p, v p ≠ 0)
    (hv : ∀ p, ∑ q, (dynmatC T ph mm fc).toMatrix p q * v q = lam * v p)
    (hw : ∀ p, ∑ q, (dynmatC T ph mm fc).toMatrix p q * w q = mu * w p)
    (hne : lam ≠ mu) : ∑ p, Cx.conj (v p) * w p = 0 :=
  Cx.herm_eigenvectors_orthogonal (fun p q => (dynmatC T ph mm fc).toMatrix p q)
    (fun p q => hermC_hermitian _ p.1 p.2 q.1 q.2) v w lam mu
    (dynmat_eigenvalues_real T ph mm fc v lam hv0 hv) hv hw hne

/-- **real phases ⇒ real symmetric matrix**: where every phase factor is real (Γ, and every q with
`2q` a reciprocal lattice vector of the supercell image set, e.g. zone-boundary points with phases ±1) the
matrix is real and symmetric — from (1) and (2) alone. -/
theorem dynmat_real_at_real_phases (T : DTables np nf ns nsv) (ph : Fin nsv → Cx R) (mm : Fin np → Fin np → R)
    (fc : Fin nf → Fin ns → Fin 3 → Fin 3 → R) (hph : ∀ l, (ph l).im = 0) (i a j b) :
    (dynmatC T ph mm fc i a j b).im = 0 ∧ dynmatC T ph mm fc j b i a = dynmatC T ph mm fc i a j b := by
  have hc : (fun l => Cx.conj (ph l)) = ph := by
    funext l; ext <;> simp [hph l]
  have h := dynmat_time_reversal T ph mm fc
  rw [hc] at h
  have him : ∀ i a j b, (dynmatC T ph mm fc i a j b).im = 0 := by
    intro i a j b
    have h1 := congrArg Cx.im (h i a j b)
    simp only [Cx.conj_im] at h1
    have h2 : (2 : R) * (dynmatC T ph mm fc i a j b).im = 0 := by linear_combination h1
    rcases mul_eq_zero.mp h2 with h3 | h3
    · exact absurd h3 (by norm_num)
    · exact h3
  refine ⟨him i a j b, ?_⟩
  have hh := hermC_hermitian (dynmatRawC T ph mm fc) i a j b
  have e : dynmatC T ph mm fc j b i a = Cx.conj (dynmatC T ph mm fc j b i a) := (h j b i a)
  rw [e]; exact hh

/-! ### acoustic modes at the zone centre -/

/-- (4) **acoustic sum rule ⇒ three zero modes at Γ.**  Full force constants that are periodic under the
stored lattice translations (certified tables `C`, see C07), index-permutation symmetric and obey
`Σ_k Φ(i,k) = 0`; at Γ every phase is 1.  Then the three rigid translations `v_c(j,b) = s_j δ_{bc}`
(`s_j = sqrt m_j`) are annihilated by the dynamical matrix. -/
theorem acoustic_kernel {T : DTables np ns ns nsv} {C : CTables np ns nt} (hl : Linked T C) (hwf : C.wf = true)
    (s : Fin np → R) (hs : ∀ i, s i ≠ 0) (Φ : FC ns R)
    (hper : Periodic C Φ) (hsym : PermSymmetric Φ) (hsum : RowSumZero Φ) (c : Fin 3) :
    (dynmatC T (fun _ => (1 : Cx R)) (fun i j => s i * s j) Φ).toMatrix.mulVec
      (fun p => if p.2 = c then Cx.ofR (s p.1) else 0) = 0 := by
  funext p
  simp only [Matrix.mulVec, dotProduct, DM.toMatrix, Pi.zero_apply, Fintype.sum_prod_type]
  exact acoustic_kernel_lemma hl (C.wf_sound hwf) s hs Φ hper hsym hsum p.1 p.2 c

/-- … and these three vectors are linearly independent (as soon as there is an atom). -/
theorem acoustic_vectors_independent (s : Fin np → R) (hs : ∀ i, s i ≠ 0) (i0 : Fin np) (lam : Fin 3 → Cx R)
    (h0 : ∑ c, lam c • (fun p : Fin np × Fin 3 => if p.2 = c then Cx.ofR (s p.1) else 0) = 0) :
    ∀ c, lam c = 0 := by
  apply PhononModel.acoustic_vectors_independent s hs i0 lam
  intro j b
  have := congrFun h0 (j, b)
  simpa [Finset.sum_apply] using this

/-! ### adding a reciprocal lattice vector -/

/-- (5) **q → q + G.**  `g` is the character of `G` (`g = 1` on the primitive lattice `P`), every stored
vector differs from `x_j − x_i` by a primitive lattice vector (`j` the sublattice of the supercell atom),
the new phases are `ph l · g(sv l)`.  Then `D(q+G) = U† D(q) U` with the unitary diagonal `U = diag g(x_j)`,
and the characteristic polynomials (hence the spectra) agree. -/
theorem dynmat_G_shift {V : Type} [AddCommGroup V] (T : DTables np nf ns nsv) (sv : Fin nsv → V)
    (P : AddSubgroup V) (x : Fin np → V)
    (hsv : ∀ k i j l, T.s2p k = T.p2s j → sv (T.svIdx k i l) - (x j - x i) ∈ P)
    (g : V → Cx R) (hg : IsUnitaryChar g) (hP : ∀ n ∈ P, g n = 1)
    (ph : Fin nsv → Cx R) (mm : Fin np → Fin np → R) (fc : Fin nf → Fin ns → Fin 3 → Fin 3 → R) :
    let D := dynmatC T ph mm fc
    let D' := dynmatC T (fun l => ph l * g (sv l)) mm fc
    let U := phaseDiag (fun j => g (x j))
    D'.toMatrix = Uᴴ * D.toMatrix * U ∧ U * Uᴴ = 1 ∧ D'.toMatrix.charpoly = D.toMatrix.charpoly := by
  intro D D' U
  have hu : ∀ i, g (x i) * Cx.conj (g (x i)) = 1 := by
    intro i; rw [hg.2, ← hg.1.add, add_neg_cancel, hg.1.zero]
  have htw : ∀ i a j b, D' i a j b = Cx.conj (g (x i)) * g (x j) * D i a j b := by
    intro i a j b
    apply dynmatC_twist T ph _ mm fc (fun j => g (x j))
    intro k i j l hk
    congr 1
    rw [hg.1.eq_of_sub_mem P hP (hsv k i j l hk), sub_eq_add_neg, hg.1.add, ← hg.2, mul_comm]
  obtain ⟨h1, h2⟩ := charpoly_of_phase_conj D D' (fun j => g (x j)) hu htw
  refine ⟨h1, ?_, h2⟩
  simp only [U, phaseDiag, Matrix.diagonal_conjTranspose, Matrix.diagonal_mul_diagonal]
  rw [← Matrix.diagonal_one]
  congr 1; funext p; simp [hu]

/-! ### point-group operations -/

/-- (6') **q → Rq from the symmetry of the infinite crystal** (no table certificate) where the computed matrix is
the lattice Fourier sum (C02): interaction range short (`ShortRange`) or both q and Rq commensurate.
`g` is a space-group operation of the infinite crystal (`LatticeModel.Symmetry`: linear part `ρ` on displacement
vectors, sublattice permutation `π`, Cartesian rotation `Q`, `Ψ` and its support invariant), the character of `Rq`
is `e' ∘ ρ = e`, symmetry-equivalent atoms have equal masses.  Then `D(Rq) = Γ D(q) Γᵀ` with the real orthogonal
`Γ = (permute atoms) ⊗ Q`, hence equal characteristic polynomials. -/
theorem dynmat_rotation_fourier {V : Type} [AddCommGroup V] {T : DTables np nf ns nsv}
    (L : LatticeModel V R T) (hL : L.PermSym) (g : L.Symmetry) (e e' : V → Cx R)
    (he : IsUnitaryChar e) (he' : IsUnitaryChar e') (hrot : ∀ r, e' (g.ρ r) = e r)
    (s : Fin np → R) (hs : ∀ i, s (g.π i) = s i)
    (fc : Fin nf → Fin ns → Fin 3 → Fin 3 → R) (hfc : ∀ i k a b, fc (T.p2s i) k a b = L.superFC i k a b)
    (hcond : ShortRange L ∨ ((∀ n ∈ L.S, e n = 1) ∧ (∀ n ∈ L.S, e' n = 1))) :
    let D := dynmatC T (fun l => e (L.sv l)) (fun i j => s i * s j) fc
    let D' := dynmatC T (fun l => e' (L.sv l)) (fun i j => s i * s j) fc
    D'.toMatrix = g.gamma * D.toMatrix * g.gammaᵀ ∧ g.gammaᵀ * g.gamma = 1 ∧
      D'.toMatrix.charpoly = D.toMatrix.charpoly := by
  intro D D'
  have hD : D = L.fourier e s := by
    rcases hcond with h | h
    · exact dynmatC_eq_fourier_short L hL h e he.2 s fc hfc
    · exact dynmatC_eq_fourier_comm L hL e he h.1 s fc hfc
  have hD' : D' = L.fourier e' s := by
    rcases hcond with h | h
    · exact dynmatC_eq_fourier_short L hL h e' he'.2 s fc hfc
    · exact dynmatC_eq_fourier_comm L hL e' he' h.2 s fc hfc
  rw [hD, hD']
  exact ⟨fourier_rotation_matrix L g e e' hrot s hs, g.gamma_orth, fourier_rotation_charpoly L g e e' hrot s hs⟩

/-- (6) **q → Rq, any q, any interaction range — certificate form.**  `M` are the index maps of a space-group
operation that maps the supercell onto itself (`pi`: primitive atoms, `kap i`: supercell atoms after bringing the
image of primitive atom `i` back to primitive atom `pi i`, `sig`: stored shortest vectors); `svecsInvariantOk` is the
executable certificate, evaluated by `./check C02`/`C03` on the implementation's tables for every (crystal, operation),
that the stored vectors of pair `(k,i)` are mapped bijectively onto the stored vectors of pair `(kap i k, pi i)`.
The force constants have the symmetry of the operation (`hfc`, Cartesian rotation `Q` orthogonal), equivalent atoms
have equal masses, and the phase of `Rq` at the image of a stored vector is the phase of `q` at the vector (`hph`).
Then `D(Rq) = Γ D(q) Γᵀ`, `Γ = (permute atoms) ⊗ Q` real orthogonal, hence equal characteristic polynomials. -/
theorem dynmat_rotation (T : DTables np nf ns nsv) (M : SymMaps np ns nsv) (hcert : svecsInvariantOk T M = true)
    (Q : Matrix (Fin 3) (Fin 3) R) (orth : Qᵀ * Q = 1) (fc : Fin nf → Fin ns → Fin 3 → Fin 3 → R)
    (hfc : ∀ i k a b, fc (T.p2s (M.pi i)) (M.kap i k) a b = ∑ a', ∑ b', Q a a' * fc (T.p2s i) k a' b' * Q b b')
    (mm : Fin np → Fin np → R) (hmm : ∀ i j, mm (M.pi i) (M.pi j) = mm i j)
    (ph ph' : Fin nsv → Cx R) (hph : ∀ x, ph' (M.sig x) = ph x) :
    let π := (svecsInvariantOk_sound T M hcert).perm
    let D := dynmatC T ph mm fc
    let D' := dynmatC T ph' mm fc
    D'.toMatrix = rotGamma π Q * D.toMatrix * (rotGamma π Q)ᵀ ∧ (rotGamma π Q)ᵀ * rotGamma π Q = 1 ∧
      D'.toMatrix.charpoly = D.toMatrix.charpoly := by
  intro π D D'
  have hent := fun i a j b => dynmatC_rot (svecsInvariantOk_sound T M hcert) Q fc hfc mm hmm ph ph' hph i a j b
  exact ⟨rot_matrix_of_entries π Q D D' hent, rotGamma_orth π Q orth, rot_charpoly π Q orth D D' hent⟩

/-- … with the phases given by characters: the stored vector with index `sig x` is the image `ρ (sv x)` and
`e' ∘ ρ = e` (`e'` is the character of `Rq`). -/
theorem dynmat_rotation_char {V : Type} (T : DTables np nf ns nsv) (M : SymMaps np ns nsv)
    (hcert : svecsInvariantOk T M = true)
    (Q : Matrix (Fin 3) (Fin 3) R) (orth : Qᵀ * Q = 1) (fc : Fin nf → Fin ns → Fin 3 → Fin 3 → R)
    (hfc : ∀ i k a b, fc (T.p2s (M.pi i)) (M.kap i k) a b = ∑ a', ∑ b', Q a a' * fc (T.p2s i) k a' b' * Q b b')
    (s : Fin np → R) (hs : ∀ i, s (M.pi i) = s i)
    (sv : Fin nsv → V) (ρ : V → V) (hρ : ∀ x, sv (M.sig x) = ρ (sv x))
    (e e' : V → Cx R) (he : ∀ v, e' (ρ v) = e v) :
    (dynmatC T (fun l => e' (sv l)) (fun i j => s i * s j) fc).toMatrix.charpoly
      = (dynmatC T (fun l => e (sv l)) (fun i j => s i * s j) fc).toMatrix.charpoly :=
  (dynmat_rotation T M hcert Q orth fc hfc _ (fun i j => by rw [hs, hs]) _ _
    (fun x => by rw [hρ, he])).2.2

/-! ### the reciprocal operation list (`get_pointgroup_operations`) -/

open RecipOps in
/-- (7) **`reciprocal_operations` is the right set.**  For a rotation list passing the executable group certificate
`isGroupOk` (evaluated on spglib's output for every crystal): the point-group list is the same set without
repetition; the reciprocal list is `{rᵀ} ∪ (time reversal and no inversion: {−rᵀ})`; the set of transposes equals the
set of inverse-transposes (which is how a rotation acts on q); the reciprocal list is closed under products; it
contains `−1` iff time reversal is on or the point group contains the inversion. -/
theorem reciprocal_ops_closed (rots : List M3) (hG : isGroupOk rots = true) (tr : Bool) :
    ((pointgroupOps rots tr).1.Nodup ∧ ∀ x, x ∈ (pointgroupOps rots tr).1 ↔ x ∈ rots) ∧
    (∀ x, x ∈ (pointgroupOps rots tr).2 ↔
      (∃ r ∈ rots, x = M3.transpose r) ∨ (tr = true ∧ M3.negOne ∉ rots ∧ ∃ r ∈ rots, x = M3.neg (M3.transpose r))) ∧
    (∀ x, (∃ r ∈ rots, x = M3.transpose r) ↔
      (∃ r ∈ rots, ∃ r' : M3, M3.mul r r' = M3.one ∧ M3.mul r' r = M3.one ∧ x = M3.transpose r')) ∧
    (∀ x y, x ∈ (pointgroupOps rots tr).2 → y ∈ (pointgroupOps rots tr).2 → M3.mul x y ∈ (pointgroupOps rots tr).2) ∧
    (M3.negOne ∈ (pointgroupOps rots tr).2 ↔ (tr = true ∨ M3.negOne ∈ rots)) := by
  have h := isGroupOk_sound rots hG
  exact ⟨⟨collectUnique_nodup rots, mem_collectUnique rots⟩, mem_recip rots tr,
    transposes_eq_inverse_transposes rots h, recip_closed rots h tr, negOne_mem_recip rots h tr⟩

open RecipOps in
/-- with time reversal, `q` and `−q` are always related by a listed operation -/
theorem reciprocal_ops_neg_closed (rots : List M3) (hG : isGroupOk rots = true) (x : M3)
    (hx : x ∈ (pointgroupOps rots true).2) : M3.neg x ∈ (pointgroupOps rots true).2 :=
  recip_neg_closed rots (isGroupOk_sound rots hG) x hx

/-! ### non-vacuity -/

/-- one atom, supercell of two cells along a line (positions 0 and 1, supercell lattice 2ℤ):
the pair (atom 1, primitive atom 0) has the two equidistant images ±1. -/
def Tex : DTables 1 2 2 3 where
  p2s := fun _ => 0
  s2p := fun _ => 0
  mult := fun k _ => if k = 0 then 1 else 2
  adrs := fun k _ => if k = 0 then 0 else 1
  hpos := by intro k i; fin_cases k <;> simp
  hbnd := by intro k i; fin_cases k <;> simp

/-- the translation tables of that supercell pass the C07 certificate and are linked to `Tex` -/
def Cex : CTables 1 2 2 where
  p2s := fun _ => 0
  s2pp := fun _ => 0
  nsym := fun i => i
  perms := fun t i => t + i
example : Cex.wf = true := by decide
example : Linked Tex Cex := ⟨fun _ => rfl, fun _ => rfl⟩

/-- a periodic, symmetric force-constant array with vanishing row sums that is not zero -/
def Φex : FC 2 ℚ := fun i j k l => if k = l then (if i = j then 1 else -1) else 0
example : Periodic Cex Φex ∧ PermSymmetric Φex ∧ RowSumZero Φex := by
  refine ⟨?_, ?_, ?_⟩
  · intro t i j k l; fin_cases t <;> fin_cases i <;> fin_cases j <;> simp [Φex, Cex]
  · intro i j k l; fin_cases i <;> fin_cases j <;> fin_cases k <;> fin_cases l <;> simp [Φex]
  · intro i k l; fin_cases i <;> fin_cases k <;> fin_cases l <;> simp [Φex, Fin.sum_univ_two]

/-- inversion of the chain as index maps on `Tex`: atoms fixed, the two images `±1` of the pair (1, 0) exchanged;
the certificate holds, and it fails for maps that do not respect the table -/
def Mex : SymMaps 1 2 3 where
  pi := fun i => i
  pinv := fun i => i
  kap := fun _ k => k
  kinv := fun _ k => k
  sig := fun x => if x = 1 then 2 else if x = 2 then 1 else x
  sinv := fun x => if x = 1 then 2 else if x = 2 then 1 else x
example : svecsInvariantOk Tex Mex = true := by decide
example : svecsInvariantOk Tex { Mex with sig := fun x => if x = 0 then 1 else if x = 1 then 0 else x } = false := by decide

/-- the point group `2` (identity and a two-fold axis) passes the group certificate; with time reversal the
reciprocal list has four elements, without it two -/
def rotsEx : List RecipOps.M3 := [RecipOps.M3.one, fun i j => if i = j then (if i = 2 then 1 else -1) else 0]
example : RecipOps.isGroupOk rotsEx = true := by decide
example : (RecipOps.pointgroupOps rotsEx true).2.length = 4 ∧ (RecipOps.pointgroupOps rotsEx false).2.length = 2 := by decide

/-- a unitary character (the zone-boundary point of the chain) and a symmetry operation (inversion) exist -/
example : IsUnitaryChar Chain.eZB := Chain.eZB_spec.1
example : Nonempty Chain.Lch.Symmetry := ⟨Chain.chainInversion⟩
example : Chain.Lch.PermSym := Chain.permSym

end PhononModel.C03

#print axioms PhononModel.C03.dynmat_hermitian
#print axioms PhononModel.C03.dynmatPy_hermitian
#print axioms PhononModel.C03.dynmat_time_reversal
#print axioms PhononModel.C03.dynmat_time_reversal_char
#print axioms PhononModel.C03.dynmat_scaling
#print axioms PhononModel.C03.scaled_mass_factor
#print axioms PhononModel.C03.dynmat_scaling_eigen
#print axioms PhononModel.C03.frequency_under_scaling
#print axioms PhononModel.C03.acoustic_kernel
#print axioms PhononModel.C03.acoustic_vectors_independent
#print axioms PhononModel.C03.dynmat_G_shift
#print axioms PhononModel.C03.dynmat_rotation
#print axioms PhononModel.C03.dynmat_rotation_char
#print axioms PhononModel.C03.dynmat_rotation_fourier
#print axioms PhononModel.C03.reciprocal_ops_closed
#print axioms PhononModel.C03.reciprocal_ops_neg_closed
#print axioms PhononModel.C03.dynmat_diag_real
#print axioms PhononModel.C03.dynmat_eigenvalues_real
#print axioms PhononModel.C03.dynmatPy_eigenvalues_real
#print axioms PhononModel.C03.dynmat_eigenvectors_orthogonal
#print axioms PhononModel.C03.dynmat_real_at_real_phases
