import PhononModel.Lemmas.UnitAlgebra
import PhononModel.Lemmas.CrystalEquiv
import PhononModel.Lemmas.ForcePairing
import PhononModel.Lemmas.WriterFormat
import PhononModel.Gen.WriterFormats
import PhononModel.Gen.Units
import PhononModel.Model.UnitSpec
import Mathlib.Tactic.NormNum
import Mathlib.Tactic.FieldSimp
import Mathlib.Tactic.Linarith
/-!
# C17 — calculator interfaces preserve the crystal and the physical units

**Units.** `Gen/Units.lean` is regenerated on every run from `phonopy/units.py` and
`phonopy/interface/calculator.py`; the statements below are about those generated terms.
Each consistency statement is first a decidable equality of normal forms (closed by
`decide +kernel`) and then, through `norm_sound`, an equality of real numbers that holds for
*every* positive valuation of the fundamental constants (so it does not depend on the CODATA
values typed into `units.py`).

**Crystals.** `checkEquiv` is the oracle the check applies to every (written, read back) pair;
`checkEquiv_sound` says that its verdict `true` implies `Equiv`.  `stableGroup` models
`sort_positions_by_symbols`.
-/
namespace PhononModel.C17
open PhononModel.Units PhononModel.Gen.Units PhononModel.Crystal PhononModel.UnitSpec

/-- `units.py` defines ε₀, the Bohr radius, Hartree and Rydberg as the textbook expressions. -/
theorem units_py_constants :
    normEq Epsilon0 specEps0 = true ∧ normEq Bohr specBohr = true ∧
    normEq Hartree specHartree = true ∧ normEq Rydberg specRydberg = true := by decide +kernel

/-! ### per-calculator consistency on the generated table -/

/-- frequency factor: `factor² = fcUnit/AMU/(2π)²/10²⁴` (THz), for all 16 calculators -/
theorem factor_consistent : ∀ c ∈ Calc.all, factorOK K (units c) = true := by decide +kernel

/-- NAC factor: `nac_factor = e²/4πε₀ = Hartree·Bohr` in (force-constant unit × length unit³).
`dftbp` is excluded: its entry is judged at run time by the driver on the generated term
(finding F6) — see `dftbp_nac_asfound_inconsistent`. `cp2k` has no NAC factor (`None`). -/
theorem nac_consistent : ∀ c ∈ Calc.all, c ≠ .dftbp → nacOK K (units c) = true := by decide +kernel

/-- unit names, `distance_to_A`, `force_to_eVperA` and the table of
`get_force_constant_conversion_factor` agree with each other -/
theorem conversion_consistent :
    (∀ c ∈ Calc.all, convOK K fcConversionTable (units c) = true) ∧
    tableOK K fcConversionTable = true := by decide +kernel

/-- `interface_mode=None` is the VASP unit set -/
theorem default_units_consistent :
    factorOK K unitsDefault = true ∧ nacOK K unitsDefault = true ∧
    convOK K fcConversionTable unitsDefault = true := by decide +kernel

/-- the list really enumerates the generated type -/
theorem calc_all_complete : ∀ c : Calc, c ∈ Calc.all := by
  intro c; cases c <;> decide

/-! ### the same statements as equalities of real numbers -/

variable {ρ : ℕ → ℝ}

theorem K_ev : K.ev = EV := rfl
theorem K_amu : K.amu = AMU := rfl

theorem factorOK_real (h : Admissible ρ) (c : CalcUnits) (hc : factorOK K c = true) :
    ∃ f fc, c.factor = some f ∧ c.fcUnit = some fc ∧
      (f.eval ρ) ^ 2 =
        (fc.meaning K).eval ρ * EV.eval ρ / ((1 * (10 : ℝ) ^ (-10 : ℤ)) ^ (2 : ℤ)) / AMU.eval ρ
          / ((2 * (10 : ℝ) ^ (0 : ℤ) * ρ 0) ^ (2 : ℤ)) / ((1 * (10 : ℝ) ^ (12 : ℤ)) ^ (2 : ℤ)) := by
  unfold factorOK at hc
  split at hc
  · next f fc hf hfc =>
    refine ⟨f, fc, hf, hfc, ?_⟩
    have := normEq_sound h _ _ hc
    simp only [factorSpec, UExpr.eval, UExpr.pi, K_ev, K_amu] at this
    rw [sq]; exact_mod_cast this
  · exact absurd hc (by simp)

/-- `factor_consistent` over ℝ: for every admissible valuation of the constants -/
theorem factor_consistent_real (h : Admissible ρ) : ∀ c ∈ Calc.all,
    ∃ f fc, (units c).factor = some f ∧ (units c).fcUnit = some fc ∧
      (f.eval ρ) ^ 2 =
        (fc.meaning K).eval ρ * EV.eval ρ / ((1 * (10 : ℝ) ^ (-10 : ℤ)) ^ (2 : ℤ)) / AMU.eval ρ
          / ((2 * (10 : ℝ) ^ (0 : ℤ) * ρ 0) ^ (2 : ℤ)) / ((1 * (10 : ℝ) ^ (12 : ℤ)) ^ (2 : ℤ)) :=
  fun c hc => factorOK_real h (units c) (factor_consistent c hc)

/-- what the run-time verdict `nacOK = true` of the driver means, for **any** unit record
(in particular for the `dftbp` entry once it is repaired): the NAC factor is `e²/4πε₀` expressed
in force-constant unit × length unit³, for every admissible valuation. -/
theorem nacOK_real (h : Admissible ρ) (c : CalcUnits) (hok : nacOK K c = true) :
    ∀ x, c.nac = some x → ∃ fc len, c.fcUnit = some fc ∧ c.lenUnit = some len ∧
      x.eval ρ = specHartree.eval ρ * specBohr.eval ρ /
        ((fc.meaning K).eval ρ * ((len.meaning K).eval ρ) ^ (3 : ℤ)) := by
  intro x hx
  unfold nacOK at hok
  rw [hx] at hok
  split at hok
  · next h' => exact absurd h' (by simp)
  · next x' fc len hx' hfc hlen =>
    injection hx' with hx'
    subst hx'
    exact ⟨fc, len, hfc, hlen, by
      have := normEq_sound h _ _ hok
      simpa only [nacSpec, UExpr.eval, K] using this⟩
  · exact absurd hok (by simp)

/-- `nac_consistent` over ℝ -/
theorem nac_consistent_real (h : Admissible ρ) : ∀ c ∈ Calc.all, c ≠ .dftbp →
    ∀ x, (units c).nac = some x → ∃ fc len, (units c).fcUnit = some fc ∧ (units c).lenUnit = some len ∧
      x.eval ρ = specHartree.eval ρ * specBohr.eval ρ /
        ((fc.meaning K).eval ρ * ((len.meaning K).eval ρ) ^ (3 : ℤ)) :=
  fun c hc hne => nacOK_real h (units c) (nac_consistent c hc hne)

/-- **same physics in every unit system**: an eigenvalue `lam` of the mass-weighted dynamical
matrix in eV/(Å²·AMU) becomes `lam / u` in calculator `c`'s units (`u` = value of its
force-constant unit in eV/Å²); the THz frequency `factor·√eigenvalue` is the same. -/
theorem same_physics (h : Admissible ρ) (lam : ℝ) : ∀ c ∈ Calc.all,
    ∃ f fc fv, (units c).factor = some f ∧ (units c).fcUnit = some fc ∧ (units .vasp).factor = some fv ∧
      (f.eval ρ) ^ 2 * (lam / (fc.meaning K).eval ρ) = (fv.eval ρ) ^ 2 * lam := by
  intro c hc
  obtain ⟨f, fc, hf, hfc, hfe⟩ := factor_consistent_real h c hc
  obtain ⟨fv, fcv, hfv, hfcv, hve⟩ := factor_consistent_real h .vasp (by decide)
  refine ⟨f, fc, fv, hf, hfc, hfv, ?_⟩
  have hpos : 0 < (fc.meaning K).eval ρ := by
    have hcv := conversion_consistent.1 c hc
    unfold convOK at hcv
    rw [hfc] at hcv
    split at hcv
    · next fc' len fo d e1 _ _ _ =>
      injection e1 with e1
      subst e1
      simp only [Bool.and_eq_true] at hcv
      exact (normEq_pos h _ _ hcv.2).1
    · exact absurd hcv (by simp)
  have hv1 : (fcv.meaning K).eval ρ = 1 := by
    have : fcv = { top := .eV, bot := [.angstrom, .angstrom] } := by
      have : (units .vasp).fcUnit = some { top := .eV, bot := [.angstrom, .angstrom] } := by decide
      rw [this] at hfcv; injection hfcv with hfcv; exact hfcv.symm
    subst this
    simp [UnitStr.meaning, UAtom.meaning, UExpr.eval, UExpr.one]
  rw [hfe, hve, hv1]
  field_simp

/-! ### finding F6: the `dftbp` NAC factor as found on the pinned tree -/

/-- the `dftbp` record as found (`nac_factor = Hartree*Bohr` with unit hartree/au² and length au) -/
def dftbpAsFound : CalcUnits :=
  { factor := some DftbpToTHz, nac := some (.mul Hartree Bohr), distToA := some Bohr, forceToEVperA := none,
    fcUnit := some { top := .hartree, bot := [.au, .au] },
    lenUnit := some { top := .au, bot := [] },
    forceUnit := some { top := .hartree, bot := [.au] } }

/-- valuation used as witness: all fundamental constants 1 -/
noncomputable def ρ₁ : ℕ → ℝ := fun k => if k = 2 then 2 else if k = 3 then 3 else if k = 5 then 5 else 1

theorem ρ₁_admissible : Admissible ρ₁ :=
  ⟨fun k => by unfold ρ₁; split_ifs <;> norm_num, by simp [ρ₁], by simp [ρ₁], by simp [ρ₁]⟩

/-- the as-found `dftbp` NAC factor is **not** `e²/4πε₀` in hartree/au²·au³: the two normal forms
are `2³·5³·c²·EV` (= Hartree·Bohr in eV·Å) and `1`; they differ as real numbers. -/
theorem dftbp_nac_asfound_inconsistent :
    nacOK K dftbpAsFound = false ∧
    Units.norm (.mul Hartree Bohr) = some [(2, 3), (5, 3), (13, 2), (15, 1)] ∧
    Units.norm (nacSpec K { top := .hartree, bot := [.au, .au] } { top := .au, bot := [] }) = some [] ∧
    ∃ ρ, Admissible ρ ∧ (UExpr.mul Hartree Bohr).eval ρ ≠
      (nacSpec K { top := .hartree, bot := [.au, .au] } { top := .au, bot := [] }).eval ρ := by
  have h1 : Units.norm (.mul Hartree Bohr) = some [(2, 3), (5, 3), (13, 2), (15, 1)] := by decide +kernel
  have h2 : Units.norm (nacSpec K { top := .hartree, bot := [.au, .au] } { top := .au, bot := [] }) = some [] := by
    decide +kernel
  refine ⟨by decide +kernel, h1, h2, ρ₁, ρ₁_admissible, ?_⟩
  rw [norm_sound ρ₁_admissible _ _ h1, norm_sound ρ₁_admissible _ _ h2]
  have e3 : (((3 : ℚ)) : ℝ) = ((3 : ℕ) : ℝ) := by norm_num
  have e2 : (((2 : ℚ)) : ℝ) = ((2 : ℕ) : ℝ) := by norm_num
  simp only [Mono.eval_cons, Mono.eval_nil, ρ₁, e3, e2, Real.rpow_natCast]
  norm_num

/-! ### crystals -/

/-- the oracle's verdict implies equivalence (equal Gram matrices ⇒ an orthogonal `Q` exists) -/
theorem checkEquiv_sound (c₁ c₂ : Cell) (h : checkEquiv c₁ c₂ = true) : Crystal.Equiv c₁ c₂ :=
  Crystal.checkEquiv_sound c₁ c₂ h

/-- variant used for formats that rotate the lattice (LAMMPS, Wien2k): the second lattice enters
through its Gram matrix only -/
theorem checkEquivWith_sound (G₂ : Mat3) (c₁ : Cell) (L₂ : Mat3) (atoms₂ : List Atom)
    (hG : ∀ i j, gram L₂ i j = G₂ i j) (h : checkEquivWith G₂ c₁ atoms₂ = true) :
    Crystal.Equiv c₁ ⟨L₂, atoms₂⟩ :=
  Crystal.checkEquivWith_sound G₂ c₁ L₂ atoms₂ hG h

/-- `sort_positions_by_symbols`: a permutation of the atoms, order kept inside each species,
species blocks in first-occurrence order -/
theorem stableGroup_perm {β : Type} (l : List (Nat × β)) :
    (stableGroup l).Perm l ∧
    (∀ s, (stableGroup l).filter (fun a => a.1 == s) = l.filter (fun a => a.1 == s)) ∧
    (stableGroup l).map (·.1) =
      (firstOccur (l.map (·.1))).flatMap (fun s => List.replicate ((l.map (·.1)).count s) s) :=
  ⟨Crystal.stableGroup_perm l, Crystal.stableGroup_stable l, Crystal.stableGroup_species l⟩

/-! ### create_FORCE_SETS: which atom gets which force row -/

section ForcePairing
open PhononModel.ForcePairing

/-- **accepted ⇒ paired by index**: when `create_FORCE_SETS` writes force sets, displacement `i` of
phonopy_disp.yaml receives exactly the force rows of file `i`, every file has one row per supercell
atom, and row `k` is given to supercell atom `k` (the order assumption of every interface). -/
theorem collect_pairs_by_index (u : Bool) (natom : Nat) (L : ForcePairing.Mat3) (tol2 : Rat) (scpos : List V3)
    (disps : List (List V3)) (outs : List Output) (fs : List (List V3))
    (h : collect u natom L tol2 scpos disps outs = .ok fs) :
    fs = outs.map (·.forces) ∧ fs.length = disps.length ∧ ∀ o ∈ outs, o.forces.length = natom := by
  unfold collect at h
  split at h
  · cases h
  · next hlen =>
    split at h
    · cases h
    · next hb =>
      have hn : ∀ o ∈ outs, o.forces.length = natom := fun o ho => by
        simpa using firstBad_none _ outs 0 hb o ho
      have hlen' : disps.length = outs.length := by simpa using hlen
      split at h
      · split at h
        · cases h
        · injection h with h; subst h; exact ⟨rfl, by simp [hlen'], hn⟩
      · injection h with h; subst h; exact ⟨rfl, by simp [hlen'], hn⟩

/-- **accepted with positions ⇒ the rows really belong to those atoms**: for an interface whose parser
returns the printed positions (VASP), acceptance implies that in every file the k-th printed position
is the displaced position of supercell atom k modulo lattice vectors within the tolerance. -/
theorem collect_checked_rows_match (natom : Nat) (L : ForcePairing.Mat3) (tol2 : Rat) (scpos : List V3)
    (disps : List (List V3)) (outs : List Output) (fs : List (List V3))
    (h : collect true natom L tol2 scpos disps outs = .ok fs) :
    ∀ t ∈ disps.zip outs, RowsMatchAtoms L tol2 scpos t.1 t.2 := by
  unfold collect at h
  split at h
  · cases h
  · split at h
    · cases h
    · simp only [if_true] at h
      split at h
      · cases h
      · next hb =>
        intro t ht
        exact agreeFile_rows L tol2 scpos t.1 t.2 (firstBad_none _ _ 0 hb t ht)

/-- **the guards reject**: a wrong number of files, a file with another number of force rows, and (with
positions) a file whose rows are not in supercell order are all refused. -/
theorem collect_guards_reject (u : Bool) (natom : Nat) (L : ForcePairing.Mat3) (tol2 : Rat) (scpos : List V3)
    (disps : List (List V3)) (outs : List Output) :
    (disps.length ≠ outs.length → collect u natom L tol2 scpos disps outs = .error .countMismatch) ∧
    (disps.length = outs.length → (∃ o ∈ outs, o.forces.length ≠ natom) →
      ∃ i, collect u natom L tol2 scpos disps outs = .error (.natomMismatch i)) ∧
    (disps.length = outs.length → (∀ o ∈ outs, o.forces.length = natom) →
      (∃ t ∈ disps.zip outs, agreeFile L tol2 scpos t.1 t.2.printed = false) →
      ∃ i, collect true natom L tol2 scpos disps outs = .error (.positionMismatch i)) := by
  refine ⟨fun h => by simp [collect, h], fun hl ⟨o, ho, hne⟩ => ?_, fun hl hall hbad => ?_⟩
  · obtain ⟨k, hk⟩ := firstBad_of_bad (fun o : Output => o.forces.length == natom) outs 0 ⟨o, ho, by simpa using hne⟩
    exact ⟨k, by simp [collect, hl, hk]⟩
  · have hnone : firstBad (fun o : Output => o.forces.length == natom) outs 0 = none := by
      cases hfb : firstBad (fun o : Output => o.forces.length == natom) outs 0 with
      | none => rfl
      | some k =>
        obtain ⟨a, ha, hp⟩ := firstBad_some _ outs 0 k hfb
        have := hall a ha
        simp [this] at hp
    obtain ⟨k, hk⟩ := firstBad_of_bad (fun t : List V3 × Output => agreeFile L tol2 scpos t.1 t.2.printed) (disps.zip outs) 0 hbad
    exact ⟨k, by simp [collect, hl, hnone, hk]⟩

/-! Known findings `KF-C17-elk-output-order` / `KF-C17-abacus-output-order` as a witness in the model:
supercell Na, Cl, Na (interleaved); the structure file groups by species (Na, Na, Cl), the program
prints forces and positions in that order. -/
def exL : ForcePairing.Mat3 := fun i j => if i.1 = j.1 then 4 else 0
def exPos : List V3 := [(0, 0, 0), (1 / 2, 1 / 2, 1 / 2), (1 / 4, 0, 0)]
def exDisp : List V3 := [(1 / 100, 0, 0), (0, 0, 0), (0, 0, 0)]
/-- true forces on supercell atoms 0, 1, 2 -/
def exForces : List V3 := [(-3, 0, 0), (2, 0, 0), (1, 0, 0)]
/-- the program's output, rows in the regrouped order 0, 2, 1 -/
def exOut : Output :=
  { forces := [(-3, 0, 0), (1, 0, 0), (2, 0, 0)], printed := [(1 / 100, 0, 0), (1 / 4, 0, 0), (1 / 2, 1 / 2, 1 / 2)] }

/-- a parser that drops the printed positions (elk, abacus, …) accepts the regrouped output and gives
atom 1 (Cl) the force of atom 2 (Na) although the printed positions say otherwise … -/
theorem regrouped_output_counterexample :
    collect false 3 exL (1 / 10 ^ 10) exPos [exDisp] [exOut] = .ok [exOut.forces] ∧
    exOut.forces ≠ exForces ∧ ¬ RowsMatchAtoms exL (1 / 10 ^ 10) exPos exDisp exOut := by
  refine ⟨by decide +kernel, by decide +kernel, ?_⟩
  rintro ⟨_, _, h⟩
  obtain ⟨z, hz⟩ := h ((1 / 2, 1 / 2, 1 / 2), ((0, 0, 0), (1 / 4, 0, 0))) (by decide +kernel)
  -- |(1/4 − z₁, 1/2 − z₂, 1/2 − z₃)·4|² ≥ 4 for integers z
  obtain ⟨z1, z2, z3⟩ := z
  simp only [cartNormSq, vsub, vadd, ofInt, exL] at hz
  norm_num at hz
  have h2 : (0 : ℚ) ≤ (1 / 4 - (z1 : ℚ)) ^ 2 := sq_nonneg _
  have h3 : (1 : ℚ) / 4 ≤ (1 / 2 - (z2 : ℚ)) ^ 2 := by
    have : (2 * (z2 : ℚ) - 1) ^ 2 ≥ 1 := by
      have hz2 : (2 * z2 - 1) ^ 2 ≥ (1 : ℤ) := by
        have : 2 * z2 - 1 ≠ 0 := by omega
        have := Int.one_le_abs this
        nlinarith [abs_mul_abs_self (2 * z2 - 1), abs_nonneg (2 * z2 - 1)]
      exact_mod_cast hz2
    nlinarith
  have h4 : (0 : ℚ) ≤ (1 / 2 - (z3 : ℚ)) ^ 2 := sq_nonneg _
  nlinarith

/-- … whereas with the positions handed over (VASP) the same output is refused. -/
theorem regrouped_output_refused_with_points :
    collect true 3 exL (1 / 10 ^ 10) exPos [exDisp] [exOut] = .error (.positionMismatch 0) := by decide +kernel

/-- and an output in supercell order shifted by lattice vectors is accepted (non-vacuity) -/
example : collect true 3 exL (1 / 10 ^ 10) exPos [exDisp]
    [{ forces := exForces, printed := [(1 / 100, 1, 0), (-1 / 2, 1 / 2, 3 / 2), (1 / 4, 0, -2)] }] = .ok [exForces] := by
  decide +kernel

end ForcePairing

/-! ### numeric formats of the structure writers (table `Gen/WriterFormats.lean`, regenerated every run) -/

section WriterFormats
open PhononModel.WriterFormat PhononModel.Gen.WriterFormats

/-- **with a separator no two fields fuse, for any values**: a line written with a format whose
fields are separated by a blank is split by a free-format reader into exactly the printed fields. -/
theorem separated_fields_never_fuse (f : FieldFmt) (hs : f.sep = true) (xs : List Rat) :
    tokens (line f xs) = xs.map (render f.decimals) := by
  have h := tokens_of_separated (xs.map (fun x => (f.width - (render f.decimals x).length, render f.decimals x)))
    (by
      intro p hp
      obtain ⟨x, _, rfl⟩ := List.mem_map.mp hp
      exact ⟨render_ne_nil _ _, render_noblank _ _⟩)
  simp only [List.map_map] at h
  unfold line
  simp only [hs, if_true]
  have e1 : (fun x => [' '] ++ padLeft f.width (render f.decimals x)) =
      ((fun p : Nat × List Char => ' ' :: (List.replicate p.1 ' ' ++ p.2)) ∘ fun x =>
        (f.width - (render f.decimals x).length, render f.decimals x)) := by
    funext x; simp [padLeft]
  have e2 : render f.decimals =
      ((fun x : Nat × List Char => x.2) ∘ fun x => (f.width - (render f.decimals x).length, render f.decimals x)) := by
    funext x; rfl
  rw [e1, h, ← e2]

/-- **without one they can** — the position format of the CRYSTAL/TURBOMOLE writers as found
(`"%16.12f"*3`), and their lattice format (`"%12.8f"*3`): a coordinate ≤ −10 glues two numbers. -/
theorem unseparated_fields_fuse_counterexample :
    fieldsSurvive ⟨16, 12, false, .fixed⟩ [35625 / 10000, -10125 / 1000, 1] = false ∧
    fieldsSurvive ⟨12, 8, false, .fixed⟩ [20, -21 / 2, 0] = false ∧
    fieldsSurvive ⟨16, 12, true, .fixed⟩ [35625 / 10000, -10125 / 1000, 1] = true := by decide +kernel

/-- **printed precision**: a number printed with `d` decimals comes back within half a unit of the
last place. -/
theorem printed_precision (d : Nat) (x : ℚ) : |x - roundTo d x| ≤ 1 / (2 * 10 ^ d) :=
  roundTo_error d x

/-- **wrapping positions into [0,1) preserves the crystal** (and the checker's canonical form) -/
theorem wrapping_preserves_crystal (c : Cell) :
    Crystal.Equiv c (wrapCell c) ∧ sortedKeys (wrapCell c).atoms = sortedKeys c.atoms :=
  ⟨wrap_equiv c, sortedKeys_wrap c.atoms⟩

/-- on the generated table: every writer keeps ≥ 8 decimals of the positions and ≥ 6 of the lattice;
the writers that wrap positions are exactly those using `get_scaled_positions_lines` and Wien2k. -/
theorem gen_writer_table :
    (∀ w ∈ writerFormats, 8 ≤ w.position.decimals ∧ 6 ≤ w.lattice.decimals) ∧
    (writerFormats.filter (·.wraps)).map (·.name) = ["vasp", "abinit", "qe", "wien2k", "elk"] ∧
    writerFormats.length = 15 := by decide +kernel

/-- **fixed-column readers (Wien2k)**: the writer wraps positions into [0,1) and prints them in a
field of width `decimals + 2`; a number in [0,1) rendered with `d ≥ 1` decimals has exactly `d + 2`
characters, so the columns `parse_wien2k_struct` slices never shift. -/
theorem columns_fit_wrapped_positions :
    (∀ w ∈ writerFormats, w.reader = .columns →
      w.wraps = true ∧ w.position.width = w.position.decimals + 2 ∧ 1 ≤ w.position.decimals) ∧
    ∀ (d : Nat), 1 ≤ d → ∀ x : ℚ, 0 ≤ x → x < 1 → (padLeft (d + 2) (render d x)).length = d + 2 := by
  refine ⟨by decide +kernel, fun d hd x h0 h1 => ?_⟩
  simp [padLeft, render_length_unit d hd x h0 h1]

example : tokens (line ⟨16, 12, true, .fixed⟩ [-10125 / 1000, 1 / 3]) =
    ["-10.125000000000".toList, "0.333333333333".toList] := by decide +kernel

end WriterFormats

/-! ### non-vacuity -/

/-- the docstring example of `sort_positions_by_symbols`: symbols A B A B ↦ perm [0, 2, 1, 3], counts [2, 2] -/
example : stablePerm [7, 9, 7, 9] = [0, 2, 1, 3] ∧ countsList [7, 9, 7, 9] = [2, 2] := by decide

/-- a rotated (x→y→−x), atom-permuted, lattice-translated copy is accepted … -/
def cA : Cell :=
  { lattice := fun i j => if i = j then 2 else if i = 0 ∧ j = 1 then 1 / 2 else 0
    atoms := [⟨11, [], (0, 0, 0)⟩, ⟨17, [1], (1 / 2, 1 / 4, 3 / 4)⟩] }
def cB : Cell :=
  { lattice := fun i j =>
      if i = 0 ∧ j = 0 then -1 / 2 else if i = 0 ∧ j = 1 then 2 else if i = 1 ∧ j = 0 then -2
      else if i = 2 ∧ j = 2 then 2 else 0
    atoms := [⟨17, [1], (-1 / 2, 5 / 4, 3 / 4)⟩, ⟨11, [], (1, 0, -2)⟩] }
example : checkEquiv cA cB = true := by decide +kernel
/-- … and a copy with the species swapped is not -/
def cC : Cell := { cB with atoms := [⟨11, [1], (-1 / 2, 5 / 4, 3 / 4)⟩, ⟨17, [], (1, 0, -2)⟩] }
example : checkEquiv cA cC = false := by decide +kernel

example : Admissible ρ₁ := ρ₁_admissible

end PhononModel.C17

#print axioms PhononModel.C17.units_py_constants
#print axioms PhononModel.C17.factor_consistent
#print axioms PhononModel.C17.nac_consistent
#print axioms PhononModel.C17.conversion_consistent
#print axioms PhononModel.C17.default_units_consistent
#print axioms PhononModel.C17.calc_all_complete
#print axioms PhononModel.C17.factorOK_real
#print axioms PhononModel.C17.nacOK_real
#print axioms PhononModel.C17.factor_consistent_real
#print axioms PhononModel.C17.nac_consistent_real
#print axioms PhononModel.C17.same_physics
#print axioms PhononModel.C17.dftbp_nac_asfound_inconsistent
#print axioms PhononModel.C17.checkEquiv_sound
#print axioms PhononModel.C17.checkEquivWith_sound
#print axioms PhononModel.C17.stableGroup_perm
#print axioms PhononModel.C17.separated_fields_never_fuse
#print axioms PhononModel.C17.unseparated_fields_fuse_counterexample
#print axioms PhononModel.C17.printed_precision
#print axioms PhononModel.C17.wrapping_preserves_crystal
#print axioms PhononModel.C17.gen_writer_table
#print axioms PhononModel.C17.columns_fit_wrapped_positions
#print axioms PhononModel.C17.collect_pairs_by_index
#print axioms PhononModel.C17.collect_checked_rows_match
#print axioms PhononModel.C17.collect_guards_reject
#print axioms PhononModel.C17.regrouped_output_counterexample
#print axioms PhononModel.C17.regrouped_output_refused_with_points
#print axioms PhononModel.Units.norm_sound
#print axioms PhononModel.Units.normEq_sound
