import PhononModel.Lemmas.UnitAlgebra
import PhononModel.Lemmas.CrystalEquiv
import PhononModel.Gen.Units
import PhononModel.Model.UnitSpec
import Mathlib.Tactic.NormNum
import Mathlib.Tactic.FieldSimp
/-!
# C17 — calculator interfaces preserve the crystal and the physical units

**Units.** `Gen/Units.lean` is regenerated on every run from `phonopy/units.py` and
`phonopy/interface/calculator.py`; the statements below are about those generated terms.
Each consistency statement is first a decidable equality of normal forms (closed by
`decide +kernel`) and then, through `norm_sound`, an equality of real numbers that holds for
*every* positive valuation of the fundamental constants (so it does not depend on the CODATA
values typed into `units.py`).

**Crystals.** `checkEquiv` is the oracle the check applies to every (written, read back) pair;
`checkEquiv_sound` says that its verdict `true` implies `Equiv`.  `stableGroup` models
`sort_positions_by_symbols`.
-/
namespace PhononModel.C17
open PhononModel.Units PhononModel.Gen.Units PhononModel.Crystal PhononModel.UnitSpec

/-- `units.py` defines ε₀, the Bohr radius, Hartree and Rydberg as the textbook expressions. -/
theorem units_py_constants :
    normEq Epsilon0 specEps0 = true ∧ normEq Bohr specBohr = true ∧
    normEq Hartree specHartree = true ∧ normEq Rydberg specRydberg = true := by decide +kernel

/-! ### per-calculator consistency on the generated table -/

/-- frequency factor: `factor² = fcUnit/AMU/(2π)²/10²⁴` (THz), for all 16 calculators -/
theorem factor_consistent : ∀ c ∈ Calc.all, factorOK K (units c) = true := by decide +kernel

/-- NAC factor: `nac_factor = e²/4πε₀ = Hartree·Bohr` in (force-constant unit × length unit³).
`dftbp` is excluded: its entry is judged at run time by the driver on the generated term
(finding F6) — see `dftbp_nac_asfound_inconsistent`. `cp2k` has no NAC factor (`None`). -/
theorem nac_consistent : ∀ c ∈ Calc.all, c ≠ .dftbp → nacOK K (units c) = true := by decide +kernel

/-- unit names, `distance_to_A`, `force_to_eVperA` and the table of
`get_force_constant_conversion_factor` agree with each other -/
theorem conversion_consistent :
    (∀ c ∈ Calc.all, convOK K fcConversionTable (units c) = true) ∧
    tableOK K fcConversionTable = true := by decide +kernel

/-- `interface_mode=None` is the VASP unit set -/
theorem default_units_consistent :
    factorOK K unitsDefault = true ∧ nacOK K unitsDefault = true ∧
    convOK K fcConversionTable unitsDefault = true := by decide +kernel

/-- the list really enumerates the generated type -/
theorem calc_all_complete : ∀ c : Calc, c ∈ Calc.all := by
  intro c; cases c <;> decide

/-! ### the same statements as equalities of real numbers -/

variable {ρ : ℕ → ℝ}

theorem K_ev : K.ev = EV := rfl
theorem K_amu : K.amu = AMU := rfl

theorem factorOK_real (h : Admissible ρ) (c : CalcUnits) (hc : factorOK K c = true) :
    ∃ f fc, c.factor = some f ∧ c.fcUnit = some fc ∧
      (f.eval ρ) ^ 2 =
        (fc.meaning K).eval ρ * EV.eval ρ / ((1 * (10 : ℝ) ^ (-10 : ℤ)) ^ (2 : ℤ)) / AMU.eval ρ
          / ((2 * (10 : ℝ) ^ (0 : ℤ) * ρ 0) ^ (2 : ℤ)) / ((1 * (10 : ℝ) ^ (12 : ℤ)) ^ (2 : ℤ)) := by
  unfold factorOK at hc
  split at hc
  · next f fc hf hfc =>
    refine ⟨f, fc, hf, hfc, ?_⟩
    have := normEq_sound h _ _ hc
    simp only [factorSpec, UExpr.eval, UExpr.pi, K_ev, K_amu] at this
    rw [sq]; exact_mod_cast this
  · exact absurd hc (by simp)

/-- `factor_consistent` over ℝ: for every admissible valuation of the constants -/
theorem factor_consistent_real (h : Admissible ρ) : ∀ c ∈ Calc.all,
    ∃ f fc, (units c).factor = some f ∧ (units c).fcUnit = some fc ∧
      (f.eval ρ) ^ 2 =
        (fc.meaning K).eval ρ * EV.eval ρ / ((1 * (10 : ℝ) ^ (-10 : ℤ)) ^ (2 : ℤ)) / AMU.eval ρ
          / ((2 * (10 : ℝ) ^ (0 : ℤ) * ρ 0) ^ (2 : ℤ)) / ((1 * (10 : ℝ) ^ (12 : ℤ)) ^ (2 : ℤ)) :=
  fun c hc => factorOK_real h (units c) (factor_consistent c hc)

/-- what the run-time verdict `nacOK = true` of the driver means, for **any** unit record
(in particular for the `dftbp` entry once it is repaired): the NAC factor is `e²/4πε₀` expressed
in force-constant unit × length unit³, for every admissible valuation. -/
theorem nacOK_real (h : Admissible ρ) (c : CalcUnits) (hok : nacOK K c = true) :
    ∀ x, c.nac = some x → ∃ fc len, c.fcUnit = some fc ∧ c.lenUnit = some len ∧
      x.eval ρ = specHartree.eval ρ * specBohr.eval ρ /
        ((fc.meaning K).eval ρ * ((len.meaning K).eval ρ) ^ (3 : ℤ)) := by
  intro x hx
  unfold nacOK at hok
  rw [hx] at hok
  split at hok
  · next h' => exact absurd h' (by simp)
  · next x' fc len hx' hfc hlen =>
    injection hx' with hx'
    subst hx'
    exact ⟨fc, len, hfc, hlen, by
      have := normEq_sound h _ _ hok
      simpa only [nacSpec, UExpr.eval, K] using this⟩
  · exact absurd hok (by simp)

/-- `nac_consistent` over ℝ -/
theorem nac_consistent_real (h : Admissible ρ) : ∀ c ∈ Calc.all, c ≠ .dftbp →
    ∀ x, (units c).nac = some x → ∃ fc len, (units c).fcUnit = some fc ∧ (units c).lenUnit = some len ∧
      x.eval ρ = specHartree.eval ρ * specBohr.eval ρ /
        ((fc.meaning K).eval ρ * ((len.meaning K).eval ρ) ^ (3 : ℤ)) :=
  fun c hc hne => nacOK_real h (units c) (nac_consistent c hc hne)

/-- **same physics in every unit system**: an eigenvalue `lam` of the mass-weighted dynamical
matrix in eV/(Å²·AMU) becomes `lam / u` in calculator `c`'s units (`u` = value of its
force-constant unit in eV/Å²); the THz frequency `factor·√eigenvalue` is the same. -/
theorem same_physics (h : Admissible ρ) (lam : ℝ) : ∀ c ∈ Calc.all,
    ∃ f fc fv, (units c).factor = some f ∧ (units c).fcUnit = some fc ∧ (units .vasp).factor = some fv ∧
      (f.eval ρ) ^ 2 * (lam / (fc.meaning K).eval ρ) = (fv.eval ρ) ^ 2 * lam := by
  intro c hc
  obtain ⟨f, fc, hf, hfc, hfe⟩ := factor_consistent_real h c hc
  obtain ⟨fv, fcv, hfv, hfcv, hve⟩ := factor_consistent_real h .vasp (by decide)
  refine ⟨f, fc, fv, hf, hfc, hfv, ?_⟩
  have hpos : 0 < (fc.meaning K).eval ρ := by
    have hcv := conversion_consistent.1 c hc
    unfold convOK at hcv
    rw [hfc] at hcv
    split at hcv
    · next fc' len fo d e1 _ _ _ =>
      injection e1 with e1
      subst e1
      simp only [Bool.and_eq_true] at hcv
      exact (normEq_pos h _ _ hcv.2).1
    · exact absurd hcv (by simp)
  have hv1 : (fcv.meaning K).eval ρ = 1 := by
    have : fcv = { top := .eV, bot := [.angstrom, .angstrom] } := by
      have : (units .vasp).fcUnit = some { top := .eV, bot := [.angstrom, .angstrom] } := by decide
      rw [this] at hfcv; injection hfcv with hfcv; exact hfcv.symm
    subst this
    simp [UnitStr.meaning, UAtom.meaning, UExpr.eval, UExpr.one]
  rw [hfe, hve, hv1]
  field_simp

/-! ### finding F6: the `dftbp` NAC factor as found on the pinned tree -/

/-- the `dftbp` record as found (`nac_factor = Hartree*Bohr` with unit hartree/au² and length au) -/
def dftbpAsFound : CalcUnits :=
  { factor := some DftbpToTHz, nac := some (.mul Hartree Bohr), distToA := some Bohr, forceToEVperA := none,
    fcUnit := some { top := .hartree, bot := [.au, .au] },
    lenUnit := some { top := .au, bot := [] },
    forceUnit := some { top := .hartree, bot := [.au] } }

/-- valuation used as witness: all fundamental constants 1 -/
noncomputable def ρ₁ : ℕ → ℝ := fun k => if k = 2 then 2 else if k = 3 then 3 else if k = 5 then 5 else 1

theorem ρ₁_admissible : Admissible ρ₁ :=
  ⟨fun k => by unfold ρ₁; split_ifs <;> norm_num, by simp [ρ₁], by simp [ρ₁], by simp [ρ₁]⟩

/-- the as-found `dftbp` NAC factor is **not** `e²/4πε₀` in hartree/au²·au³: the two normal forms
are `2³·5³·c²·EV` (= Hartree·Bohr in eV·Å) and `1`; they differ as real numbers. -/
theorem dftbp_nac_asfound_inconsistent :
    nacOK K dftbpAsFound = false ∧
    Units.norm (.mul Hartree Bohr) = some [(2, 3), (5, 3), (13, 2), (15, 1)] ∧
    Units.norm (nacSpec K { top := .hartree, bot := [.au, .au] } { top := .au, bot := [] }) = some [] ∧
    ∃ ρ, Admissible ρ ∧ (UExpr.mul Hartree Bohr).eval ρ ≠
      (nacSpec K { top := .hartree, bot := [.au, .au] } { top := .au, bot := [] }).eval ρ := by
  have h1 : Units.norm (.mul Hartree Bohr) = some [(2, 3), (5, 3), (13, 2), (15, 1)] := by decide +kernel
  have h2 : Units.norm (nacSpec K { top := .hartree, bot := [.au, .au] } { top := .au, bot := [] }) = some [] := by
    decide +kernel
  refine ⟨by decide +kernel, h1, h2, ρ₁, ρ₁_admissible, ?_⟩
  rw [norm_sound ρ₁_admissible _ _ h1, norm_sound ρ₁_admissible _ _ h2]
  have e3 : (((3 : ℚ)) : ℝ) = ((3 : ℕ) : ℝ) := by norm_num
  have e2 : (((2 : ℚ)) : ℝ) = ((2 : ℕ) : ℝ) := by norm_num
  simp only [Mono.eval_cons, Mono.eval_nil, ρ₁, e3, e2, Real.rpow_natCast]
  norm_num

/-! ### crystals -/

/-- the oracle's verdict implies equivalence (equal Gram matrices ⇒ an orthogonal `Q` exists) -/
theorem checkEquiv_sound (c₁ c₂ : Cell) (h : checkEquiv c₁ c₂ = true) : Crystal.Equiv c₁ c₂ :=
  Crystal.checkEquiv_sound c₁ c₂ h

/-- variant used for formats that rotate the lattice (LAMMPS, Wien2k): the second lattice enters
through its Gram matrix only -/
theorem checkEquivWith_sound (G₂ : Mat3) (c₁ : Cell) (L₂ : Mat3) (atoms₂ : List Atom)
    (hG : ∀ i j, gram L₂ i j = G₂ i j) (h : checkEquivWith G₂ c₁ atoms₂ = true) :
    Crystal.Equiv c₁ ⟨L₂, atoms₂⟩ :=
  Crystal.checkEquivWith_sound G₂ c₁ L₂ atoms₂ hG h

/-- `sort_positions_by_symbols`: a permutation of the atoms, order kept inside each species,
species blocks in first-occurrence order -/
theorem stableGroup_perm {β : Type} (l : List (Nat × β)) :
    (stableGroup l).Perm l ∧
    (∀ s, (stableGroup l).filter (fun a => a.1 == s) = l.filter (fun a => a.1 == s)) ∧
    (stableGroup l).map (·.1) =
      (firstOccur (l.map (·.1))).flatMap (fun s => List.replicate ((l.map (·.1)).count s) s) :=
  ⟨Crystal.stableGroup_perm l, Crystal.stableGroup_stable l, Crystal.stableGroup_species l⟩

/-! ### non-vacuity -/

/-- the docstring example of `sort_positions_by_symbols`: symbols A B A B ↦ perm [0, 2, 1, 3], counts [2, 2] -/
example : stablePerm [7, 9, 7, 9] = [0, 2, 1, 3] ∧ countsList [7, 9, 7, 9] = [2, 2] := by decide

/-- a rotated (x→y→−x), atom-permuted, lattice-translated copy is accepted … -/
def cA : Cell :=
  { lattice := fun i j => if i = j then 2 else if i = 0 ∧ j = 1 then 1 / 2 else 0
    atoms := [⟨11, [], (0, 0, 0)⟩, ⟨17, [1], (1 / 2, 1 / 4, 3 / 4)⟩] }
def cB : Cell :=
  { lattice := fun i j =>
      if i = 0 ∧ j = 0 then -1 / 2 else if i = 0 ∧ j = 1 then 2 else if i = 1 ∧ j = 0 then -2
      else if i = 2 ∧ j = 2 then 2 else 0
    atoms := [⟨17, [1], (-1 / 2, 5 / 4, 3 / 4)⟩, ⟨11, [], (1, 0, -2)⟩] }
example : checkEquiv cA cB = true := by decide +kernel
/-- … and a copy with the species swapped is not -/
def cC : Cell := { cB with atoms := [⟨11, [1], (-1 / 2, 5 / 4, 3 / 4)⟩, ⟨17, [], (1, 0, -2)⟩] }
example : checkEquiv cA cC = false := by decide +kernel

example : Admissible ρ₁ := ρ₁_admissible

end PhononModel.C17

#print axioms PhononModel.C17.units_py_constants
#print axioms PhononModel.C17.factor_consistent
#print axioms PhononModel.C17.nac_consistent
#print axioms PhononModel.C17.conversion_consistent
#print axioms PhononModel.C17.default_units_consistent
#print axioms PhononModel.C17.calc_all_complete
#print axioms PhononModel.C17.factorOK_real
#print axioms PhononModel.C17.nacOK_real
#print axioms PhononModel.C17.factor_consistent_real
#print axioms PhononModel.C17.nac_consistent_real
#print axioms PhononModel.C17.same_physics
#print axioms PhononModel.C17.dftbp_nac_asfound_inconsistent
#print axioms PhononModel.C17.checkEquiv_sound
#print axioms PhononModel.C17.checkEquivWith_sound
#print axioms PhononModel.C17.stableGroup_perm
#print axioms PhononModel.Units.norm_sound
#print axioms PhononModel.Units.normEq_sound
