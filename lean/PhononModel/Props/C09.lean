import PhononModel.Lemmas.GridList
import PhononModel.Lemmas.GridShift
import PhononModel.Lemmas.GridGeneric
import PhononModel.Lemmas.GridBZ
import PhononModel.Lemmas.GridLength
/-!
# C09 — symmetry-reduced mesh sampling equals full mesh sampling

Theorems are about `PhononModel/Model/Grid.lean`.  `./check C09` ties the model to spglib's
`get_stabilized_reciprocal_mesh` and `phonopy/structure/grid_points.py` by comparing mapping tables,
irreducible points, weights and q-points exactly on every run.
-/
namespace PhononModel.C09
open PhononModel PhononModel.Grid

/-! ### weights: any mapping table -/

/-- the weights add up to the number of grid points — for **any** table `extract_ir_grid_points` accepts. -/
theorem weights_sum {tab ir w : List Nat} (h : extractIr tab = some (ir, w)) : w.sum = tab.length :=
  weights_sum_list h

/-- each weight is the number of grid points mapped to that representative; the representatives are the
distinct table values in increasing order. -/
theorem weights_eq_fibre_card {tab ir w : List Nat} (h : extractIr tab = some (ir, w)) :
    w = ir.map (fibreCard tab) ∧ ir.Pairwise (· < ·) ∧ ∀ u, u ∈ ir ↔ u ∈ tab := by
  obtain ⟨hb, hir, hw⟩ := extractIr_some h
  refine ⟨?_, ?_, ?_⟩
  · rw [hw]; apply List.map_congr_left; intro u _; exact count_eq_fibreCard tab u
  · rw [hir]; exact List.Pairwise.filter _ List.pairwise_lt_range
  · intro u
    rw [hir]
    simp only [List.mem_filter, List.mem_range, List.contains_iff_mem]
    exact ⟨fun h => h.2, fun h => ⟨hb u h, h⟩⟩

/-- `extract_ir_grid_points` accepts every table whose entries are grid indices (no `IndexError`). -/
theorem extractIr_total {tab : List Nat} (hb : ∀ g ∈ tab, g < tab.length) :
    ∃ ir w, extractIr tab = some (ir, w) := by
  unfold extractIr
  have : (tab.all fun g => decide (g < tab.length)) = true := by
    rw [List.all_eq_true]; intro g hg; simpa using hb g hg
  rw [if_pos this]
  exact ⟨_, _, rfl⟩

/-- **the fibre sum**: a quantity that takes the same value on a grid point and on its table entry has the
same full-mesh sum and weighted irreducible sum — any table, any commutative semiring. -/
theorem sum_reduced_eq_full {K : Type} [CommSemiring K] {tab ir w : List Nat}
    (h : extractIr tab = some (ir, w)) (F : Nat → K) (hF : ∀ i, i < tab.length → F i = F (tab.getD i i)) :
    fullSum tab.length F = weightedSum w (ir.map F) :=
  sum_reduced_eq_full_list h F hF

/-! ### the mapping table built from valid images -/

theorem irTable_length (G : Mesh) (ops : List M3) : (G.irTable ops).length = G.N :=
  buildTable_length _ _

theorem irMap_of_ge (G : Mesh) (ops : List M3) {i : Nat} (h : G.N ≤ i) : G.irMap ops i = i := by
  unfold Mesh.irMap
  rw [List.getD_eq_getElem?_getD, List.getElem?_eq_none (by rw [irTable_length]; exact h)]
  rfl

theorem irMap_le (G : Mesh) (ops : List M3) (i : Nat) : G.irMap ops i ≤ i := by
  by_cases h : i < G.N
  · exact (buildTable_inv (G.images ops) G.N i h).1
  · rw [irMap_of_ge G ops (by omega)]

/-- the representative of a representative is itself -/
theorem irMap_idempotent (G : Mesh) (ops : List M3) (i : Nat) :
    G.irMap ops (G.irMap ops i) = G.irMap ops i := by
  by_cases h : i < G.N
  · exact (buildTable_inv (G.images ops) G.N i h).2.1
  · have e := irMap_of_ge G ops (i := i) (by omega)
    rw [e, e]

/-- every grid point is connected to its representative by a chain of operations of the list, each valid at
the point it is applied to (no assumption that the operations form a group or preserve the mesh). -/
theorem irMap_reachable (G : Mesh) (ops : List M3) (i : Nat) :
    Reach (G.images ops) i (G.irMap ops i) := by
  by_cases h : i < G.N
  · exact (buildTable_inv (G.images ops) G.N i h).2.2
  · rw [irMap_of_ge G ops (by omega)]; exact Reach.refl i

/-- the table only contains grid indices, so `extract_ir_grid_points` accepts it -/
theorem irTable_entries_lt (G : Mesh) (ops : List M3) : ∀ g ∈ G.irTable ops, g < (G.irTable ops).length := by
  intro g hg
  obtain ⟨i, hi, rfl⟩ := List.getElem_of_mem hg
  have hi' : i < G.N := by rw [irTable_length] at hi; exact hi
  have := irMap_le G ops i
  unfold Mesh.irMap at this
  rw [List.getD_eq_getElem?_getD, List.getElem?_eq_getElem hi] at this
  simp only [Option.getD_some] at this
  rw [irTable_length]; omega

theorem reach_const {K : Type} {img : Nat → List (Option Nat)} (F : Nat → K)
    (hF : ∀ i g, some g ∈ img i → F g = F i) {i r : Nat} (h : Reach img i r) : F r = F i := by
  induction h with
  | refl i => rfl
  | step hm _ ih => rw [ih]; exact hF _ _ hm

/-- **reduced = full on the mesh**: if `F` does not change along valid images (which is what invariance of a
function of q under the operations and under reciprocal lattice translations gives, see `image_spec`), then the
sum over all grid points equals the weighted sum over the irreducible points computed by the model. -/
theorem mesh_sum_reduced_eq_full {K : Type} [CommSemiring K] (G : Mesh) (ops : List M3) (F : Nat → K)
    (hF : ∀ i g, some g ∈ G.images ops i → F g = F i) :
    ∃ ir w, extractIr (G.irTable ops) = some (ir, w) ∧ w.sum = G.N ∧
      fullSum G.N F = weightedSum w (ir.map F) := by
  obtain ⟨ir, w, h⟩ := extractIr_total (irTable_entries_lt G ops)
  refine ⟨ir, w, h, ?_, ?_⟩
  · rw [weights_sum h, irTable_length]
  · have := sum_reduced_eq_full h F (fun i _ => by
      have := reach_const F hF (irMap_reachable G ops i)
      unfold Mesh.irMap at this
      exact this.symm)
    rw [irTable_length] at this
    exact this

/-- **what a valid image is**: the image grid point is a grid point, and its q-point is the rotated q-point up
to a reciprocal lattice vector — `q(g') = R·q(g) + n`, `n ∈ ℤ³`. -/
theorem valid_image_spec (G : Mesh) (hx : 0 < G.m.x) (hy : 0 < G.m.y) (hz : 0 < G.m.z) (R : M3) (i g : Nat)
    (h : G.image R i = some g) : g < G.N ∧ ∃ n : IV, G.q g = (R.act (G.q i)).addInt n :=
  image_spec G hx hy hz R i g h

/-- **symmetry-reduced = full sampling**: for `f` invariant under every listed operation and under reciprocal
lattice translations, `Σ_g f(q_g) = Σ_ir w·f(q_ir)` with the irreducible points and weights of the model — no
assumption that the operations form a group or are compatible with mesh or shift. -/
theorem reduced_eq_full_of_invariant {K : Type} [CommSemiring K] (G : Mesh) (hx : 0 < G.m.x) (hy : 0 < G.m.y)
    (hz : 0 < G.m.z) (ops : List M3) (f : V3 Rat → K) (hR : ∀ R ∈ ops, ∀ q, f (R.act q) = f q)
    (hT : ∀ q (n : IV), f (q.addInt n) = f q) :
    ∃ ir w, extractIr (G.irTable ops) = some (ir, w) ∧ w.sum = G.N ∧
      fullSum G.N (fun i => f (G.q i)) = weightedSum w (ir.map fun i => f (G.q i)) := by
  apply mesh_sum_reduced_eq_full G ops (fun i => f (G.q i))
  intro i g hg
  unfold Mesh.images at hg
  obtain ⟨R, hRm, hRi⟩ := List.mem_map.mp hg
  obtain ⟨_, n, hn⟩ := image_spec G hx hy hz R i g hRi
  show f (G.q g) = f (G.q i)
  rw [hn, hT, hR R hRm]

/-! ### relocation into the first Brillouin zone (`BrillouinZone.run`, `GridPoints._fit_qpoints_in_BZ`) -/

/-- the relocated q-point differs from the original by a reciprocal lattice vector (for the unimodular change of
basis `T` certified on the implementation's matrix) -/
theorem bz_relocation_is_lattice_translation {L : Q33} {T : M3} {tolf : Rat} {q : V3 Rat} {r : BZResult}
    (h : bzRelocate L T tolf q = .ok r) : ∃ n : IV, r.point = q.addInt n := bz_translate h

/-- it is a shortest representative within the searched window (27 neighbouring lattice points of the reduced
point), up to the tolerance; the window contains the reduced point itself -/
theorem bz_relocation_shortest_in_window {L : Q33} {T : M3} {tolf : Rat} {q : V3 Rat} {r : BZResult}
    (h : bzRelocate L T tolf q = .ok r) :
    (⟨0, 0, 0⟩ : IV) ∈ searchSpace ∧
    ∀ g ∈ searchSpace, norm2 (L.mulVec r.point) < norm2 (L.mulVec (T.act ((reduceQ T q).addInt g))) + r.tol :=
  ⟨by decide, bz_shortest h⟩

/-- the relocation never fails for a unimodular `T` and a positive tolerance -/
theorem bz_relocation_total (L : Q33) (T : M3) (tolf : Rat) (q : V3 Rat) (hT : T.det = 1 ∨ T.det = -1)
    (htol : 0 < tolOf L tolf) : ∃ r, bzRelocate L T tolf q = .ok r := by
  unfold bzRelocate
  rw [if_pos hT]
  simp only
  -- some window point attains the minimum, hence passes the test
  have hex : ∀ (d : Rat) (l : List IV) (f : IV → Rat), listMin d (l.map f) = d ∨ ∃ g ∈ l, listMin d (l.map f) = f g := by
    intro d l f
    induction l generalizing d with
    | nil => exact Or.inl rfl
    | cons a l ih =>
      simp only [List.map_cons, listMin]
      rcases ih (min d (f a)) with h | ⟨g, hg, h⟩
      · rcases min_choice d (f a) with hm | hm
        · left; rw [h, hm]
        · right; exact ⟨a, List.mem_cons_self, by rw [h, hm]⟩
      · right; exact ⟨g, List.mem_cons_of_mem _ hg, h⟩
  have hfind : ∃ g ∈ searchSpace, bzDist L T (reduceQ T q) g <
      listMin (bzDist L T (reduceQ T q) ⟨0, 0, 0⟩) (searchSpace.map (bzDist L T (reduceQ T q))) + tolOf L tolf := by
    rcases hex (bzDist L T (reduceQ T q) ⟨0, 0, 0⟩) searchSpace (bzDist L T (reduceQ T q)) with h | ⟨g, hg, h⟩
    · exact ⟨⟨0, 0, 0⟩, by decide, by rw [h]; linarith⟩
    · exact ⟨g, hg, by rw [h]; linarith⟩
  obtain ⟨g, hg, hlt⟩ := hfind
  cases hf : searchSpace.find? (fun g => decide (bzDist L T (reduceQ T q) g <
      listMin (bzDist L T (reduceQ T q) ⟨0, 0, 0⟩) (searchSpace.map (bzDist L T (reduceQ T q))) + tolOf L tolf)) with
  | some g' => exact ⟨_, rfl⟩
  | none =>
    have := List.find?_eq_none.mp hf g hg
    simp only [decide_eq_true_eq] at this
    exact absurd hlt this

/-- corollary: a periodic function takes the same value on the relocated point, so every weighted sum over
q-points is unchanged by the relocation -/
theorem bz_weighted_sum_unchanged {K : Type} [Add K] [Mul K] [OfNat K 0] [NatCast K] (L : Q33) (T : M3) (tolf : Rat)
    (f : V3 Rat → K) (hT : ∀ q (n : IV), f (q.addInt n) = f q) (w : List Nat) (qs ps : List (V3 Rat))
    (h : List.Forall₂ (fun q p => ∃ r, bzRelocate L T tolf q = .ok r ∧ r.point = p) qs ps) :
    weightedSum w (ps.map f) = weightedSum w (qs.map f) := by
  have : ps.map f = qs.map f := by
    induction h with
    | nil => rfl
    | cons hqp _ ih =>
      obtain ⟨r, hr, rfl⟩ := hqp
      obtain ⟨n, hn⟩ := bz_translate hr
      simp only [List.map_cons, ih, hn, hT]
  rw [this]

/-! ### `length2mesh` (reciprocal basis lengths as parameters) -/

/-- mesh numbers are at least 1 -/
theorem length2mesh_ge_one (ℓ : V3 Rat) (len : Rat) (rots : Option (List M3)) :
    1 ≤ (length2meshOf ℓ len rots).x ∧ 1 ≤ (length2meshOf ℓ len rots).y ∧ 1 ≤ (length2meshOf ℓ len rots).z := by
  unfold length2meshOf length2mesh
  simp only [maxI_eq]
  refine ⟨?_, ?_, ?_⟩ <;> omega

/-- a longer length never gives a smaller mesh number (non-negative reciprocal lengths; equivalence flags of the
rotations transitive, which holds for a group and is evaluated per case by the check) -/
theorem length2mesh_mono (ℓ : V3 Rat) (hℓ : 0 ≤ ℓ.x ∧ 0 ≤ ℓ.y ∧ 0 ≤ ℓ.z) {len len' : Rat} (h : len ≤ len')
    (rots : Option (List M3)) (ht : ∀ rs, rots = some rs → FlagsTransitive (latticeEquiv (rs.map M3.transpose))) :
    (length2meshOf ℓ len rots).x ≤ (length2meshOf ℓ len' rots).x ∧
    (length2meshOf ℓ len rots).y ≤ (length2meshOf ℓ len' rots).y ∧
    (length2meshOf ℓ len rots).z ≤ (length2meshOf ℓ len' rots).z := by
  obtain ⟨hx, hy, hz⟩ := hℓ
  have h0 : IV.le ⟨rint (ℓ.x * len), rint (ℓ.y * len), rint (ℓ.z * len)⟩
      ⟨rint (ℓ.x * len'), rint (ℓ.y * len'), rint (ℓ.z * len')⟩ :=
    ⟨rint_mono (mul_le_mul_of_nonneg_left h hx), rint_mono (mul_le_mul_of_nonneg_left h hy),
     rint_mono (mul_le_mul_of_nonneg_left h hz)⟩
  unfold length2meshOf length2mesh
  cases rots with
  | none =>
    obtain ⟨a, b, c⟩ := h0
    simp only [maxI_eq] at *
    refine ⟨?_, ?_, ?_⟩ <;> omega
  | some rs =>
    obtain ⟨a, b, c⟩ := alignMesh_mono (ht rs rfl) h0
    simp only [maxI_eq] at *
    refine ⟨?_, ?_, ?_⟩ <;> omega

/-- with rotations, mesh numbers agree along symmetry-equivalent axes -/
theorem length2mesh_symmetric (ℓ : V3 Rat) (len : Rat) (rs : List M3)
    (ht : FlagsTransitive (latticeEquiv (rs.map M3.transpose))) :
    let e := latticeEquiv (rs.map M3.transpose)
    let m := length2meshOf ℓ len (some rs)
    (e.x = true → m.y = m.z) ∧ (e.y = true → m.z = m.x) ∧ (e.z = true → m.x = m.y) := by
  intro e m
  obtain ⟨a, b, c⟩ := alignMesh_symmetric ht ⟨rint (ℓ.x * len), rint (ℓ.y * len), rint (ℓ.z * len)⟩
  simp only [m, length2meshOf, length2mesh]
  refine ⟨fun h => ?_, fun h => ?_, fun h => ?_⟩
  · rw [a h]
  · rw [b h]
  · rw [c h]

/-- consequence: the length-specified mesh always has the mesh symmetry `_has_mesh_symmetry` asks for -/
theorem length2mesh_has_mesh_symmetry (ℓ : V3 Rat) (len : Rat) (rs : List M3)
    (ht : FlagsTransitive (latticeEquiv (rs.map M3.transpose))) :
    hasMeshSymmetry (length2meshOf ℓ len (some rs)) (some rs) = true := by
  obtain ⟨a, b, c⟩ := length2mesh_symmetric ℓ len rs ht
  unfold hasMeshSymmetry
  simp only
  cases hx : (latticeEquiv (rs.map M3.transpose)).x <;> cases hy : (latticeEquiv (rs.map M3.transpose)).y <;>
    cases hz : (latticeEquiv (rs.map M3.transpose)).z <;> simp_all

/-! ### phonon state moments -/

theorem weightedSum_ones {K : Type} [CommSemiring K] (l : List K) :
    weightedSum (List.replicate l.length 1) l = l.foldr (· + ·) 0 := by
  unfold weightedSum
  induction l with
  | nil => rfl
  | cons a l ih =>
    simp only [List.length_cons, List.replicate_succ, List.zipWith_cons_cons, List.foldr_cons, Nat.cast_one, one_mul]
    rw [ih]

/-- **moments** (`PhononMoment._get_moment`, any order, any frequency window): if the spectrum is the same on a grid
point and on its table entry (C03), the moment over the full mesh (every point, weight 1) equals the moment over the
irreducible points with their weights — the instance `f = Σ_band ν^k` of the fibre sum, for numerator and norm. -/
theorem moment_reduced_eq_full {K : Type} [Field K] [LinearOrder K] (order : Nat) (fmin fmax : K)
    {tab ir w : List Nat} (h : extractIr tab = some (ir, w)) (ν : Nat → List K)
    (hν : ∀ i, i < tab.length → ν i = ν (tab.getD i i)) :
    moment order fmin fmax (List.replicate tab.length 1) ((List.range tab.length).map ν) =
      moment order fmin fmax w (ir.map ν) := by
  have key : ∀ k : Nat, weightedSum (List.replicate tab.length 1) (((List.range tab.length).map ν).map (powerSum k fmin fmax)) =
      weightedSum w ((ir.map ν).map (powerSum k fmin fmax)) := by
    intro k
    have hl : (((List.range tab.length).map ν).map (powerSum k fmin fmax)).length = tab.length := by simp
    have := weightedSum_ones (((List.range tab.length).map ν).map (powerSum k fmin fmax))
    rw [hl] at this
    rw [this, List.map_map, List.map_map]
    exact sum_reduced_eq_full h (fun i => powerSum k fmin fmax (ν i)) (fun i hi => by show powerSum k fmin fmax (ν i) = powerSum k fmin fmax (ν (tab.getD i i)); rw [← hν i hi])
  unfold moment
  rw [key order, key 0]

/-! ### `_shift2boolean` -/

/-- decision table: integer / half-integer shift components × Γ-centre × parity of the mesh number -/
theorem shift2boolean_cases (mesh : V3 Nat) (n : V3 Int) (half : V3 Bool) (gamma : Bool) :
    shift2boolean mesh (some ⟨(n.x : ℚ) + (if half.x then 1 / 2 else 0), (n.y : ℚ) + (if half.y then 1 / 2 else 0),
        (n.z : ℚ) + (if half.z then 1 / 2 else 0)⟩) gamma =
      some ⟨if gamma then half.x else xor half.x (mesh.x % 2 == 0),
            if gamma then half.y else xor half.y (mesh.y % 2 == 0),
            if gamma then half.z else xor half.z (mesh.z % 2 == 0)⟩ := by
  unfold shift2boolean
  simp only [Option.getD_some, zeroOrHalf_cases, Bool.and_self, if_true, isShift1_cases]

/-- no shift given: Γ-centred ⇒ no half shift; Monkhorst–Pack ⇒ half shift exactly on even mesh numbers -/
theorem shift2boolean_default (mesh : V3 Nat) (gamma : Bool) :
    shift2boolean mesh none gamma =
      some ⟨!gamma && (mesh.x % 2 == 0), !gamma && (mesh.y % 2 == 0), !gamma && (mesh.z % 2 == 0)⟩ := by
  have := shift2boolean_cases mesh ⟨0, 0, 0⟩ ⟨false, false, false⟩ gamma
  simp only [Int.cast_zero, Bool.false_eq_true, if_false, add_zero, Bool.false_xor] at this
  unfold shift2boolean at this ⊢
  simp only [Option.getD_none, Option.getD_some] at this ⊢
  rw [this]
  cases gamma <;> simp

/-- a component further than 1/200 from every multiple of 1/2 sends the constructor to the generic path -/
theorem shift2boolean_generic (mesh : V3 Nat) (δ : V3 ℚ) (gamma : Bool)
    (h : zeroOrHalf δ.x = false ∨ zeroOrHalf δ.y = false ∨ zeroOrHalf δ.z = false) :
    shift2boolean mesh (some δ) gamma = none := by
  unfold shift2boolean
  simp only [Option.getD_some]
  rcases h with h | h | h <;> simp [h]

/-! ### the generic-shift path -/

def baseShift (mesh : V3 Nat) (gamma : Bool) : V3 Bool :=
  ⟨!gamma && (mesh.x % 2 == 0), !gamma && (mesh.y % 2 == 0), !gamma && (mesh.z % 2 == 0)⟩

/-- what a constructor must return for a shift that is not a multiple of 1/2: every grid point of the mesh
with the requested centring, moved by `δ / mesh`, weight 1. -/
def GenericShiftSpec
    (construct : V3 Nat → Option (V3 Rat) → Bool → Bool → Option (List M3) → Bool → Except GridErr GridResult) : Prop :=
  ∀ (mesh : V3 Nat) (δ : V3 Rat) (gamma tr : Bool) (rots : Option (List M3)) (sym : Bool),
    0 < mesh.x → 0 < mesh.y → 0 < mesh.z → shift2boolean mesh (some δ) gamma = none →
    ∃ r, construct mesh (some δ) gamma tr rots sym = .ok r ∧
      r.isShift = baseShift mesh gamma ∧
      r.table = List.range (mesh.x * mesh.y * mesh.z) ∧
      r.ir = List.range (mesh.x * mesh.y * mesh.z) ∧
      r.weights = List.replicate (mesh.x * mesh.y * mesh.z) 1 ∧
      r.qpoints = (List.range (mesh.x * mesh.y * mesh.z)).map
        (fun i => addShift mesh δ ((⟨mesh, baseShift mesh gamma⟩ : Mesh).q i))

/-- the full statement for the constructor as the pinned code has it -/
def FullStatementGenericShift : Prop := GenericShiftSpec gridPoints

/-- F10: with time reversal requested, the pinned constructor halves the *unshifted* mesh and then moves the
representatives: mesh 3×3×3, shift (1/4, 0, 0) returns 14 points with weights 1, 2, 2, … instead of 27. -/
theorem generic_shift_counterexample_time_reversal :
    (gridPoints ⟨3, 3, 3⟩ (some ⟨1 / 4, 0, 0⟩) false true none true).toOption.map (·.weights) =
      some [1, 2, 2, 2, 2, 2, 2, 2, 2, 2, 2, 2, 2, 2] := by
  decide +kernel

/-- F11: the pinned constructor drops `is_gamma_center` on the generic path: mesh 4×4×4, Γ-centred, shift
(1/4, 0, 0), no time reversal returns the Monkhorst–Pack half-shifted base mesh. -/
theorem generic_shift_counterexample_gamma_center :
    (gridPoints ⟨4, 4, 4⟩ (some ⟨1 / 4, 0, 0⟩) true false none true).toOption.map (·.isShift) =
      some ⟨true, true, true⟩ ∧ baseShift ⟨4, 4, 4⟩ true = ⟨false, false, false⟩ := by
  constructor <;> decide +kernel

theorem generic_shift_counterexample : ¬ FullStatementGenericShift := by
  intro h
  obtain ⟨r, h1, _, _, _, h5, _⟩ := h ⟨3, 3, 3⟩ ⟨1 / 4, 0, 0⟩ false true none true (by decide) (by decide) (by decide)
    (by decide +kernel)
  have h2 := generic_shift_counterexample_time_reversal
  rw [h1] at h2
  simp only [Except.toOption, Option.map_some, h5, Option.some.injEq] at h2
  revert h2
  decide

/-- the repaired constructor (`proposed_fixes/c09-generic-shift.diff`) satisfies the full statement -/
theorem generic_shift_spec_fixed : GenericShiftSpec gridPointsFixed := by
  intro mesh δ gamma tr rots sym hx hy hz hs
  unfold gridPointsFixed
  rw [hs]
  simp only [Option.getD_some]
  unfold genericPathFixed
  rw [shift2boolean_default]
  simp only
  unfold setGridPointsFixed
  simp only [Bool.false_and, Bool.false_eq_true, if_false]
  rw [setIrQpoints_identity mesh _ hx hy hz]
  simp only
  exact ⟨_, rfl, rfl, rfl, rfl, rfl, by simp [List.map_map, baseShift]⟩

/-! ### non-vacuity -/

example : extractIr [0, 0, 2, 2, 0] = some ([0, 2], [3, 2]) := by decide
example : (bzRelocate ⟨⟨1, 0, 0⟩, ⟨0, 1, 0⟩, ⟨0, 0, 1⟩⟩ M3.one (1 / 100) ⟨3 / 4, 1 / 2, 0⟩).toOption.map (·.shift) = some ⟨0, 0, 0⟩ := by
  decide +kernel
example : moment 2 (0 : Rat) 10 [1, 3] [[1, 2], [3, 4]] ≤ 10 ∧ 10 ≤ moment 2 (0 : Rat) 10 [1, 3] [[1, 2], [3, 4]] := by decide +kernel
/-- a real reduction: 2×2×2 Γ-centred mesh, operation list {1, x↔y}: 8 points ↦ 6 -/
example : (⟨⟨2, 2, 2⟩, ⟨false, false, false⟩⟩ : Mesh).irTable
    [M3.one, ⟨⟨0, 1, 0⟩, ⟨1, 0, 0⟩, ⟨0, 0, 1⟩⟩] = [0, 1, 1, 3, 4, 5, 5, 7] := by decide +kernel
/-- an operation that is not valid everywhere (3-fold axis on a 2×1×1 mesh) is skipped per point -/
example : (⟨⟨2, 1, 1⟩, ⟨false, false, false⟩⟩ : Mesh).images
    [⟨⟨0, 0, 1⟩, ⟨1, 0, 0⟩, ⟨0, 1, 0⟩⟩] 1 = [none] := by decide +kernel
example : shift2boolean ⟨4, 3, 2⟩ (some ⟨1 / 2, 0, 3 / 2⟩) false = some ⟨false, false, false⟩ := by decide +kernel
example : shift2boolean ⟨4, 3, 2⟩ (some ⟨1 / 4, 0, 0⟩) false = none := by decide +kernel

end PhononModel.C09

#print axioms PhononModel.C09.weights_sum
#print axioms PhononModel.C09.weights_eq_fibre_card
#print axioms PhononModel.C09.extractIr_total
#print axioms PhononModel.C09.sum_reduced_eq_full
#print axioms PhononModel.C09.irMap_le
#print axioms PhononModel.C09.irMap_idempotent
#print axioms PhononModel.C09.irMap_reachable
#print axioms PhononModel.C09.irTable_entries_lt
#print axioms PhononModel.C09.mesh_sum_reduced_eq_full
#print axioms PhononModel.C09.valid_image_spec
#print axioms PhononModel.C09.reduced_eq_full_of_invariant
#print axioms PhononModel.C09.bz_relocation_is_lattice_translation
#print axioms PhononModel.C09.bz_relocation_shortest_in_window
#print axioms PhononModel.C09.bz_relocation_total
#print axioms PhononModel.C09.bz_weighted_sum_unchanged
#print axioms PhononModel.C09.length2mesh_ge_one
#print axioms PhononModel.C09.length2mesh_mono
#print axioms PhononModel.C09.length2mesh_symmetric
#print axioms PhononModel.C09.length2mesh_has_mesh_symmetry
#print axioms PhononModel.C09.moment_reduced_eq_full
#print axioms PhononModel.C09.shift2boolean_cases
#print axioms PhononModel.C09.shift2boolean_default
#print axioms PhononModel.C09.shift2boolean_generic
#print axioms PhononModel.C09.generic_shift_counterexample_time_reversal
#print axioms PhononModel.C09.generic_shift_counterexample_gamma_center
#print axioms PhononModel.C09.generic_shift_counterexample
#print axioms PhononModel.C09.generic_shift_spec_fixed
