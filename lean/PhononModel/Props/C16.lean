import PhononModel.Lemmas.Dataset
import PhononModel.Lemmas.Precision
import PhononModel.Lemmas.YamlAst
import PhononModel.Model.LoadPriority
import PhononModel.Gen.Formats
import Mathlib.Tactic.FieldSimp
import Mathlib.Tactic.Positivity
import Mathlib.Tactic.Ring
import Mathlib.Tactic.NormNum
/-!
# C16 — saving and reloading a calculation reproduces it

What is decided by proof is the *logic* of the round trip: the conversion between the two
dataset types (`Model/Dataset.lean`), the decision table of `phonopy.load` / `Phonopy.save`
(`Model/LoadPriority.lean`) and the algebra of printing with `k` decimals
(`Model/Precision.lean`).  The file formats themselves (PyYAML, h5py, the text grammars) are
covered by the differential round trips of `./check C16`.
-/
set_option linter.unusedSectionVars false
namespace PhononModel.C16
open PhononModel.DS PhononModel.LP PhononModel.Prec PhononModel.YA

section dataset
variable {n : Nat} {α : Type} [OfNat α 0] [DecidableEq α]

/-- well-formed type-1 dataset: every displacement is non-zero, and either all or none of the
entries carry forces -/
def WF (d : Type1 n α) : Prop :=
  (∀ e ∈ d.first_atoms, NonZero e.displacement) ∧
    ((∀ e ∈ d.first_atoms, e.forces.isSome = true) ∨ (∀ e ∈ d.first_atoms, e.forces = none))

theorem type2_of_type1_roundtrip (d : Type1 n α) (h : WF d) : toType1 (toType2 d) = some d := by
  obtain ⟨l⟩ := d
  obtain ⟨hz, hf | hf⟩ := h
  · cases l with
    | nil => rfl
    | cons e es =>
      have hany : (e :: es).any (fun e => e.forces.isSome) = true := by
        simp [hf e List.mem_cons_self]
      have := entries_some (e :: es) (fun x hx => ⟨hz x hx, hf x hx⟩)
      simp only [toType1, toType2, hany, if_true]
      show Option.map _ (entries (List.map spread (e :: es)) (some (List.map getF (e :: es)))) = _
      rw [this]; rfl
  · have hany : l.any (fun e => e.forces.isSome) = false := by
      rw [List.any_eq_false]; intro x hx; simp [hf x hx]
    have := entries_none l (fun x hx => ⟨hz x hx, hf x hx⟩)
    simp only [toType1, toType2, hany]
    show Option.map _ (entries (List.map spread l) none) = _
    rw [this]; rfl

theorem type1_to_type2_injective (d₁ d₂ : Type1 n α) (h₁ : WF d₁) (h₂ : WF d₂)
    (h : toType2 d₁ = toType2 d₂) : d₁ = d₂ := by
  have := type2_of_type1_roundtrip d₁ h₁
  rw [h, type2_of_type1_roundtrip d₂ h₂] at this
  exact (Option.some.inj this).symm

/-- `forces_in_dataset`: a type-1 dataset has forces iff every entry has; a type-2 dataset iff
the key is present; no dataset has none -/
theorem forces_in_dataset_iff (d : Type1 n α) :
    (forcesInDataset (some (Dataset.t1 d)) = true ↔ ∀ e ∈ d.first_atoms, e.forces.isSome = true) ∧
    (∀ d₂ : Type2 n α, forcesInDataset (some (Dataset.t2 d₂)) = true ↔ d₂.forces.isSome = true) ∧
    forcesInDataset (none : Option (Dataset n α)) = false := by
  refine ⟨?_, fun d₂ => ?_, rfl⟩
  · simp [forcesInDataset]
  · simp [forcesInDataset]

/-- the conversion preserves "has forces" on well-formed non-empty datasets -/
theorem forces_in_dataset_convert (d : Type1 n α) (h : WF d) (hne : d.first_atoms ≠ []) :
    forcesInDataset (some (Dataset.t2 (toType2 d))) = forcesInDataset (some (Dataset.t1 d)) := by
  obtain ⟨l⟩ := d
  obtain ⟨_, hf | hf⟩ := h
  · have hany : l.any (fun e => e.forces.isSome) = true := by
      cases l with
      | nil => exact absurd rfl hne
      | cons e es => simp [hf e List.mem_cons_self]
    have hall : l.all (fun e => e.forces.isSome) = true := by
      rw [List.all_eq_true]; exact hf
    simp [forcesInDataset, toType2, hany, hall]
  · have hany : l.any (fun e => e.forces.isSome) = false := by
      rw [List.any_eq_false]; intro x hx; simp [hf x hx]
    have hall : l.all (fun e => e.forces.isSome) = false := by
      cases l with
      | nil => exact absurd rfl hne
      | cons e es => simp [hf e List.mem_cons_self]
    simp [forcesInDataset, toType2, hany, hall]

end dataset

/-! ### the hypotheses are needed: what the conversion loses -/

def FullType1ToType2Injective : Prop :=
  ∀ (d₁ d₂ : Type1 2 Int), toType2 d₁ = toType2 d₂ → d₁ = d₂

/-- a zero displacement loses the index of the displaced atom -/
def z0 : Type1 2 Int := ⟨[{ number := 0, displacement := fun _ => 0, forces := none }]⟩
def z1 : Type1 2 Int := ⟨[{ number := 1, displacement := fun _ => 0, forces := none }]⟩

theorem type1_to_type2_injective_counterexample : ¬ FullType1ToType2Injective := by
  intro h
  have e : toType2 z0 = toType2 z1 := by
    simp only [toType2, z0, z1, List.map_cons, List.map_nil, List.any_cons, List.any_nil, Option.isSome_none]
    congr 2
    funext i k
    simp [spread]
  have := congrArg (fun d => d.first_atoms.map (·.number)) (h z0 z1 e)
  simp [z0, z1] at this

/-- an entry without forces next to one with forces is converted to zero forces:
`forces_in_dataset` says "no forces", the converted dataset has forces -/
def pf : Type1 2 Int :=
  ⟨[{ number := 0, displacement := fun _ => 1, forces := some fun _ _ => 5 },
    { number := 1, displacement := fun _ => 1, forces := none }]⟩

theorem forces_in_dataset_convert_counterexample :
    forcesInDataset (some (Dataset.t1 pf)) = false ∧
      forcesInDataset (some (Dataset.t2 (toType2 pf))) = true := by
  constructor <;> simp [forcesInDataset, toType2, pf]

/-! ### non-vacuity of the dataset theorems -/
def exD : Type1 2 Int :=
  ⟨[{ number := 0, displacement := fun k => if k = 0 then 3 else 0, forces := some fun i _ => if i = 0 then -7 else 7 },
    { number := 1, displacement := fun k => if k = 2 then -3 else 0, forces := some fun _ _ => 2 }]⟩
example : WF exD := by
  refine ⟨?_, Or.inl ?_⟩
  · intro e he; simp [exD] at he
    rcases he with rfl | rfl
    · left; decide
    · right; right; decide
  · intro e he; simp [exD] at he
    rcases he with rfl | rfl <;> rfl


/-! ### the yaml blocks as abstract syntax: writer then reader is the identity

for every dataset of either type — with or without forces, with or without energies — and every
atom record (extended symbol, mass, collinear or vector moment). -/
section yaml
variable {α : Type} {n : Nat}

theorem ofYamlEntry_toYamlEntry (x : Entry1 n α) : ofYamlEntry n (toYamlEntry x) = some x := by
  obtain ⟨⟨num, disp, forces⟩, en⟩ := x
  unfold ofYamlEntry toYamlEntry
  have h : 1 ≤ num.1 + 1 ∧ num.1 + 1 - 1 < n := ⟨by omega, by simp [num.2]⟩
  simp only [h, and_self, dite_true, listToVec_vecToList]
  cases forces with
  | none => simp
  | some f => simp [listToField_fieldToList]

theorem yaml_type1_roundtrip (d : List (Entry1 n α)) : ofYaml1 n (toYaml1 d) = some d := by
  induction d with
  | nil => rfl
  | cons x xs ih =>
    simp only [toYaml1, List.map_cons, ofYaml1, ofYamlEntry_toYamlEntry]
    have : ofYaml1 n (List.map toYamlEntry xs) = some xs := ih
    simp [this]

theorem yaml_type2_roundtrip (x : Data2 n α) : ofYaml2 n (toYaml2 x) = some x := by
  obtain ⟨⟨ds, fs⟩, en⟩ := x
  unfold ofYaml2 toYaml2
  simp only [fieldsOf_map]
  cases fs with
  | none => rfl
  | some fs => simp [fieldsOf_map]

theorem yaml_point_roundtrip (a : Atom α) :
    ofYamlPoint (toYamlPoint a) = some a := by
  obtain ⟨sym, formal, c, mass, mom⟩ := a
  unfold ofYamlPoint toYamlPoint
  simp only [listToVec_vecToList]
  by_cases h : sym = formal
  · subst h
    cases mom with
    | none => simp
    | some m => cases m <;> simp [listToVec_vecToList]
  · cases mom with
    | none => simp [h]
    | some m => cases m <;> simp [h, listToVec_vecToList]

end yaml

/-- non-vacuity: an entry with forces and energy, atom index 2 of 2, survives; the written
`atom:` is 1-based -/
example : (toYamlEntry (n := 2) (α := Int) ⟨⟨1, fun k => if k = 0 then 3 else 0, some fun _ _ => 7⟩, some 5⟩).atom = 2 := rfl
/-- a record whose `atom:` is 0 (not 1-based) is rejected by the reader -/
example : (ofYamlEntry 2 (⟨0, [1, 2, 3], none, none⟩ : YEntry Int)).isNone = true := rfl

/-! ### the decision table of `phonopy.load` -/

theorem load_priority_table (p : Present) :
    -- force constants: yaml content, then the filename argument, then FORCE_CONSTANTS, then
    -- force_constants.hdf5, else produced from a dataset with forces (if produce_fc)
    (p.yamlFc = true → (load p).fc = .yaml) ∧
    (p.yamlFc = false → p.argFcFile = true → (load p).fc = .arg) ∧
    (p.yamlFc = false → p.argFcFile = false → p.fileForceConstants = true → (load p).fc = .fileText) ∧
    (p.yamlFc = false → p.argFcFile = false → p.fileForceConstants = false → p.fileHdf5 = true →
      (load p).fc = .fileHdf5) ∧
    (p.yamlFc = false → p.argFcFile = false → p.fileForceConstants = false → p.fileHdf5 = false →
      (load p).fc = (if p.produceFc && (load p).datasetForces then .produced else .none)) ∧
    -- dataset: yaml forces, then the filename argument, then FORCE_SETS, else yaml displacements
    (p.yamlDataset = .withForces → (load p).dataset = .yaml ∧ (load p).datasetForces = true) ∧
    (p.yamlDataset ≠ .withForces → p.argForceSets = true →
      (load p).dataset = .arg ∧ (load p).datasetForces = true) ∧
    (p.yamlDataset ≠ .withForces → p.argForceSets = false → p.fileForceSets = true →
      (load p).dataset = .file ∧ (load p).datasetForces = true) ∧
    (p.yamlDataset = .dispOnly → p.argForceSets = false → p.fileForceSets = false →
      (load p).dataset = .yaml ∧ (load p).datasetForces = false) ∧
    (p.yamlDataset = .absent → p.argForceSets = false → p.fileForceSets = false →
      (load p).dataset = .none ∧ (load p).datasetForces = false) ∧
    -- NAC: born_filename, then nac_params, then yaml (if is_nac), then BORN (if is_nac)
    (p.argBornFile = true → (load p).nac = .bornArg) ∧
    (p.argBornFile = false → p.argNac = true → (load p).nac = .arg) ∧
    (p.argBornFile = false → p.argNac = false → p.isNac = true → p.yamlNac = true → (load p).nac = .yaml) ∧
    (p.argBornFile = false → p.argNac = false → p.isNac = true → p.yamlNac = false → p.fileBorn = true →
      (load p).nac = .bornFile) ∧
    (p.argBornFile = false → p.argNac = false → p.isNac = true → p.yamlNac = false → p.fileBorn = false →
      (load p).nac = .none) ∧
    (p.argBornFile = false → p.argNac = false → p.isNac = false → (load p).nac = .none) ∧
    -- unit factors and calculator
    ((load p).factor = (if p.argFactor then .arg else .calculatorDefault)) ∧
    ((load p).calculator = (match p.argCalculator with | some c => some c | none => p.yamlCalculator)) ∧
    ((load p).nac = .none → (load p).nacFactor = .na) ∧
    ((load p).nac = .yaml → (load p).nacFactor = (if p.yamlNacHasFactor then .inParams else .calculatorDefault)) ∧
    ((load p).nac = .bornFile → (load p).nacFactor = (if p.fileBornHasFactor then .inParams else .calculatorDefault)) := by
  refine ⟨?_, ?_, ?_, ?_, ?_, ?_, ?_, ?_, ?_, ?_, ?_, ?_, ?_, ?_, ?_, ?_, ?_, ?_, ?_, ?_, ?_⟩
  all_goals simp only [load, fcSource, datasetSource, nacSource, nacFactor, calculator]
  all_goals intros
  all_goals first | rfl | simp_all


/-- **what is recomputed on load**: force constants that are read are converted to the requested
layout and never symmetrised; force constants are produced only when nothing provides them, in
the requested layout, with the requested solver (default: traditional), symmetrised iff
`symmetrize_fc`; a type-2 dataset with the traditional solver makes `load` raise. -/
theorem load_recompute_table (p : Present) (o : Opts) :
    -- read force constants
    ((load p).fc ≠ .none → (load p).fc ≠ .produced →
      (recompute p o).fcCompact = some o.isCompactFc ∧ (recompute p o).produced = false ∧
      (recompute p o).symmetrized = false ∧ (recompute p o).raises = false ∧
      ((recompute p o).converted = true ↔ sourceLayout o (load p).fc ≠ some o.isCompactFc)) ∧
    -- produced force constants
    ((load p).fc = .produced → (o.datasetType2 = false ∨ o.fcCalculator.getD .traditional ≠ .traditional) →
      (recompute p o).produced = true ∧ (recompute p o).fcCompact = some o.isCompactFc ∧
      (recompute p o).symmetrized = o.symmetrizeFc ∧ (recompute p o).converted = false ∧
      (recompute p o).solver = some (o.fcCalculator.getD .traditional) ∧ (recompute p o).raises = false) ∧
    ((load p).fc = .produced → o.datasetType2 = true → o.fcCalculator.getD .traditional = .traditional →
      (recompute p o).raises = true ∧ (recompute p o).produced = false) ∧
    -- nothing to load, nothing to compute
    ((load p).fc = .none → (recompute p o).fcCompact = none ∧ (recompute p o).produced = false ∧ (recompute p o).raises = false) := by
  have hl : (load p).fc = fcSource p := rfl
  rw [hl]
  unfold recompute
  cases h : fcSource p <;> cases hs : o.fcCalculator.getD .traditional <;> cases ht : o.datasetType2 <;>
    simp_all [sourceLayout]

/-- a yaml file that contains force constants makes `force_constants_filename=` a no-op,
whereas the docstring lists the filename argument first -/
def pDoc : Present :=
  { argNac := false, argNacHasFactor := false, argBornFile := false, argBornFileHasFactor := false,
    argForceSets := false, argFcFile := true, argCalculator := none, argFactor := false, isNac := true,
    produceFc := true, yamlNac := false, yamlNacHasFactor := false, yamlDataset := .absent, yamlFc := true,
    yamlCalculator := none, fileForceSets := false, fileForceConstants := false, fileHdf5 := false,
    fileBorn := false, fileBornHasFactor := false }

theorem load_doc_priority_mismatch : fcSource pDoc = .yaml ∧ docFcSource pDoc = .arg := by decide

/-- with default settings: what comes back -/
theorem load_save_default (o : Obj) :
    reload {} o = { dataset := o.dataset, fc := o.fc || (o.dataset == .withForces), nac := o.nac,
                    nacHasFactor := o.nac, calculator := o.calculator } := by
  obtain ⟨ds, fc, nac, nf, c⟩ := o
  cases ds <;> cases fc <;> cases nac <;> cases nf <;> rfl

/-- save ∘ load is idempotent on the decision level, for every combination of settings flags:
a second round trip changes nothing more -/
theorem load_save_fixpoint (st : Settings) (o : Obj) : reload st (reload st o) = reload st o := by
  obtain ⟨a, b, c, d, e⟩ := st
  obtain ⟨ds, fc, nac, nf, cal⟩ := o
  cases a <;> cases b <;> cases d <;> cases e <;> cases ds <;> cases fc <;> cases nac <;> cases nf <;>
    rcases c with _ | _ | _ <;> rfl

/-- where the reloaded force constants come from: the yaml file iff they were written, else
they are re-derived from the forces (and then symmetrised by `load`), else there are none -/
theorem reload_fc_source (st : Settings) (o : Obj) :
    (load (presentOf (save st o))).fc =
      (if (save st o).fc then .yaml else if (save st o).dataset = .withForces then .produced else .none) := by
  obtain ⟨a, b, c, d, e⟩ := st
  obtain ⟨ds, fc, nac, nf, cal⟩ := o
  cases a <;> cases b <;> cases d <;> cases e <;> cases ds <;> cases fc <;> cases nac <;> cases nf <;>
    rcases c with _ | _ | _ <;> rfl

/-- nothing is lost with the default settings; with `force_constants: False` force constants
without forces are lost; with `force_sets: False` forces are lost -/
theorem reload_preserves (st : Settings) (o : Obj) (hb : st.born = true) (hd : st.dielectric = true)
    (hs : st.forceSets = true) (hf : st.forceConstants ≠ some false) :
    (reload st o).dataset = o.dataset ∧ (reload st o).nac = o.nac ∧ (reload st o).calculator = o.calculator ∧
      (o.fc = true → (reload st o).fc = true) := by
  obtain ⟨a, b, c, d, e⟩ := st
  obtain ⟨ds, fc, nac, nf, cal⟩ := o
  simp only at hb hd hs hf
  subst hb hd hs
  cases b <;> cases ds <;> cases fc <;> cases nac <;> cases nf <;>
    rcases c with _ | _ | _ <;>
    first
      | exact absurd rfl hf
      | exact ⟨rfl, rfl, rfl, fun _ => rfl⟩
      | exact ⟨rfl, rfl, rfl, fun h => Bool.noConfusion h⟩

/-! ### printing with `k` decimals -/

theorem print_parse_error (k : Nat) (x : ℚ) : |parseK k (printK k x) - x| ≤ 1 / (2 * 10 ^ k) := by
  have hp : (0 : ℚ) < 10 ^ k := by positivity
  have h := printK_close k x
  unfold parseK
  have e : ((printK k x : ℤ) : ℚ) / 10 ^ k - x = (((printK k x : ℤ) : ℚ) - x * 10 ^ k) / 10 ^ k := by
    field_simp
  rw [e, abs_div, abs_of_pos hp, div_le_div_iff₀ hp (by positivity)]
  calc |((printK k x : ℤ) : ℚ) - x * 10 ^ k| * (2 * 10 ^ k) ≤ 1 / 2 * (2 * 10 ^ k) := by
        apply mul_le_mul_of_nonneg_right h (by positivity)
    _ = 1 * 10 ^ k := by ring
/-- printing a parsed text again reproduces the text: the second save/load round trip is exact -/
theorem print_parse_fixpoint (k : Nat) (m : ℤ) : printK k (parseK k m) = m := by
  have hp : (10 : ℚ) ^ k ≠ 0 := by positivity
  have e : parseK k m * 10 ^ k = (m : ℚ) := by unfold parseK; field_simp
  have hf : Rat.floor (m : ℚ) = m := by
    have h : Rat.floor (m : ℚ) = ⌊(m : ℚ)⌋ := rfl
    rw [h, Int.floor_intCast]
  unfold printK
  simp only [e, hf, sub_self]
  norm_num

example : fits 15 8 (99999 : Rat) = true := by decide +kernel
example : fits 15 8 (123456 : Rat) = false := by decide +kernel
example : fits 15 8 (-12345 : Rat) = false := by decide +kernel
example : fits 22 15 (99999 : Rat) = true := by decide +kernel
example : fits 22 15 (100000 : Rat) = false := by decide +kernel
example : printK 2 (1/8 : Rat) = 12 ∧ printK 2 (3/8 : Rat) = 38 ∧ printK 0 (5/2 : Rat) = 2 := by decide +kernel

/-! ### the formats the writers actually use (`Gen/Formats.lean`, regenerated from the sources) -/

/-- a field of format `f` holding `x` cannot run into its left neighbour: there is a separating
character, or the text leaves a blank in front -/
def Fmt.ok (f : Gen.Fmt) (x : Rat) : Bool := !f.adjacent || fits f.width f.prec x

/-- no writer of `file_IO.py`, `phonopy_yaml.py`, `atoms.py` puts two number fields back to back -/
theorem formats_separated : ∀ f ∈ Gen.formats, f.adjacent = false := by decide

/-- … hence no value, of whatever magnitude, fuses with its neighbour -/
theorem formats_never_fuse (f : Gen.Fmt) (hf : f ∈ Gen.formats) (x : Rat) : Fmt.ok f x = true := by
  simp [Fmt.ok, formats_separated f hf]

/-- the round-trip error of every field of every writer: half a unit of its last decimal -/
theorem formats_print_parse (f : Gen.Fmt) (_hf : f ∈ Gen.formats) (x : ℚ) :
    |parseK f.prec (printK f.prec x) - x| ≤ 1 / (2 * 10 ^ f.prec) :=
  print_parse_error f.prec x

/-- without a separator (the pinned `("%15.8f" * 6)`, `("%22.15f" * 3)`) a field is safe exactly on
a value range: decidable from the printed integer -/
theorem adjacent_ok_iff (f : Gen.Fmt) (x : ℚ) (d : Nat) (ha : f.adjacent = true)
    (hW : f.width = (if x < 0 then 1 else 0) + (d + 1) + 1 + f.prec + 1) :
    Fmt.ok f x = true ↔ (printK f.prec x).natAbs / 10 ^ f.prec < 10 ^ (d + 1) := by
  simp only [Fmt.ok, ha, Bool.not_true, Bool.false_or]
  exact fits_iff f.width f.prec x d hW

/-- the two formats of the fused-fields defect: `%15.8f` holds |x| < 10⁵ (x ≥ 0) resp. 10⁴ (x < 0) -/
example : Fmt.ok ⟨"pinned FORCE_SETS type 2", 0, 15, 8, 6, true⟩ (99999.5 : Rat) = true ∧
    Fmt.ok ⟨"pinned FORCE_SETS type 2", 0, 15, 8, 6, true⟩ (100000 : Rat) = false ∧
    Fmt.ok ⟨"pinned FORCE_SETS type 2", 0, 15, 8, 6, true⟩ (-10000 : Rat) = false ∧
    Fmt.ok ⟨"pinned FORCE_CONSTANTS", 0, 22, 15, 3, true⟩ (-9999.5 : Rat) = true := by decide +kernel

end PhononModel.C16

#print axioms PhononModel.C16.type2_of_type1_roundtrip
#print axioms PhononModel.C16.type1_to_type2_injective
#print axioms PhononModel.C16.type1_to_type2_injective_counterexample
#print axioms PhononModel.C16.forces_in_dataset_iff
#print axioms PhononModel.C16.forces_in_dataset_convert
#print axioms PhononModel.C16.forces_in_dataset_convert_counterexample
#print axioms PhononModel.C16.yaml_type1_roundtrip
#print axioms PhononModel.C16.yaml_type2_roundtrip
#print axioms PhononModel.C16.yaml_point_roundtrip
#print axioms PhononModel.C16.load_priority_table
#print axioms PhononModel.C16.load_recompute_table
#print axioms PhononModel.C16.load_doc_priority_mismatch
#print axioms PhononModel.C16.load_save_default
#print axioms PhononModel.C16.load_save_fixpoint
#print axioms PhononModel.C16.reload_fc_source
#print axioms PhononModel.C16.reload_preserves
#print axioms PhononModel.C16.print_parse_error
#print axioms PhononModel.C16.print_parse_fixpoint
#print axioms PhononModel.C16.formats_separated
#print axioms PhononModel.C16.formats_never_fuse
#print axioms PhononModel.C16.formats_print_parse
#print axioms PhononModel.C16.adjacent_ok_iff
