import PhononModel.Lemmas.DynMatSym
import PhononModel.Lemmas.DynMatFourier
import PhononModel.Lemmas.DynMatExample
import PhononModel.Lemmas.DynMatBatch
import PhononModel.Gen.Units
import PhononModel.Lemmas.UnitAlgebra
import Mathlib.Tactic.FinCases
import Mathlib.Tactic.NormNum
import PhononModel.Lemmas.FrequencyOrder
/-!
# C02 — the computed dynamical matrix is the lattice Fourier sum of the force constants

Theorems are about `PhononModel/Model/DynMat.lean` (`dynmatC` = `c/dynmat.c`
`dym_get_dynamical_matrix_at_q`, `dynmatPy` = `DynamicalMatrix._run_py_dynamical_matrix`),
for every field `R` of characteristic 0 as real scalars (ℚ — what the driver runs — and ℝ), every table
size, every force-constant array, every q (through the character `e`).  The lattice-sum specification is
`LatticeModel.fourier` (`Lemmas/DynMatFourier.lean`): supercell atoms are (sublattice, position modulo the
supercell lattice `S`), supercell force constants are the periodic-image sums of the infinite crystal's `Ψ`.
`./check C02` ties the model to the code on every run and evaluates the property on the code.
-/
set_option linter.unusedSectionVars false
namespace PhononModel.C02
open PhononModel Finset

variable {R : Type} [Field R] [CharZero R] {V : Type} [AddCommGroup V]
variable {np nf ns nsv nt : Nat}

/-! ### the two implementations and the two layouts compute the same matrix -/

/-- (1) **Python reference = compiled kernel**: two loop orders and two placements of the divisions, the same
finite sum.  `selOk` is the executable certificate that `s_j == s2p_map[k]` (Python, full maps) selects the
same supercell atoms as `s2p_map[k] == p2s_map[j]` (C, full or compact maps). -/
theorem py_eq_c (T : PyTables np nf ns nsv) (hsel : T.selOk = true) (ph : Fin nsv → Cx R)
    (mm : Fin np → Fin np → R) (fc : Fin nf → Fin ns → Fin 3 → Fin 3 → R) :
    dynmatPy T ph mm fc = dynmatC T.toDTables ph mm fc := by
  unfold dynmatPy dynmatC
  rw [dynmatRawPy_eq_C T hsel, hermPy_eq_hermC]

/-- (2) **compact = full**: the kernel called with `p2s = arange, s2p = s2pp` on the rows `fc[p2s_map]`
returns what it returns with the full maps on the full array.  `compactOk`: `s2pp k = j ↔ s2p k = p2s j`. -/
theorem compact_eq_full (T : DTables np ns ns nsv) (s2pp : Fin ns → Fin np) (hok : compactOk T s2pp = true)
    (ph : Fin nsv → Cx R) (mm : Fin np → Fin np → R) (fc : FC ns R) :
    dynmatC (compactTables T s2pp) ph mm (compressFC T.p2s fc) = dynmatC T ph mm fc := by
  unfold dynmatC
  rw [dynmatRawC_compact T s2pp hok]

/-! ### sparse → dense shortest-vector storage -/

/-- consecutive pairs occupy consecutive, non-overlapping address ranges -/
theorem denseAdrs_succ (np : Nat) (smulti : Nat → Nat → Nat) (p : Nat) :
    denseAdrsAux np smulti (p + 1) = denseAdrsAux np smulti p + smulti (p / np) (p % np) := rfl

theorem denseAdrs_mono (np : Nat) (smulti : Nat → Nat → Nat) {p p' : Nat} (h : p < p') :
    denseAdrsAux np smulti p + smulti (p / np) (p % np) ≤ denseAdrsAux np smulti p' := by
  induction p' with
  | zero => omega
  | succ n ih =>
    rw [denseAdrs_succ]
    by_cases hpn : p = n
    · subst hpn; exact le_refl _
    · have := ih (by omega); omega

/-- (3) **dense = sparse**: a dense table whose multiplicities and phases are the copies
`sparse_to_dense_svecs` makes gives the same phase sum as reading the sparse table directly. -/
theorem dense_eq_sparse (T : DTables np nf ns nsv) (ph : Fin nsv → Cx R)
    (smulti : Fin ns → Fin np → Nat) (sph : Fin ns → Fin np → Nat → Cx R)
    (hm : ∀ k i, T.mult k i = smulti k i)
    (hph : ∀ k i (l : Fin (T.mult k i)), ph (T.svIdx k i l) = sph k i l.1) (k : Fin ns) (i : Fin np) :
    phaseSum T ph k i = phaseSumSparse smulti sph k i := by
  unfold phaseSum phaseSumSparse
  have : ∀ (m m' : Nat) (h : m = m') (f : Fin m → Cx R) (g : Nat → Cx R), (∀ l, f l = g l.1) →
      sumFin m f = sumFin m' fun l => g l.1 := by
    intro m m' h f g hfg; subst h; congr 1; funext l; exact hfg l
  exact this _ _ (hm k i) _ _ (hph k i)

/-! ### the lattice Fourier sum -/

variable {T : DTables np nf ns nsv}

/-- (4) **commensurate q, any interaction range.**  `e` is a unitary character that is trivial on the
supercell lattice; the supercell force constants are the periodic-image sums of an index-permutation
symmetric infinite crystal.  Then the matrix the kernel returns is
`D(jj',q) = (s_j s_j')⁻¹ Σ_l Φ(j0,j'l) e(r(j'l) − r(j0))`, `s_j = sqrt m_j`. -/
theorem dynmat_eq_fourier_commensurate (L : LatticeModel V R T) (hL : L.PermSym) (e : V → Cx R)
    (he : IsUnitaryChar e) (hcomm : ∀ n ∈ L.S, e n = 1) (s : Fin np → R)
    (fc : Fin nf → Fin ns → Fin 3 → Fin 3 → R) (hfc : ∀ i k a b, fc (T.p2s i) k a b = L.superFC i k a b) :
    dynmatC T (fun l => e (L.sv l)) (fun i j => s i * s j) fc = L.fourier e s := by
  exact dynmatC_eq_fourier_comm L hL e he hcomm s fc hfc

/-- (5) **every q, short range.**  Every displacement carrying a non-zero force constant is the only stored
image of its pair (`ShortRange`; implied by "shorter than half the shortest supercell lattice vector",
`shortRange_of_length` below).  No condition on `e` beyond unitarity. -/
theorem dynmat_eq_fourier_short_range (L : LatticeModel V R T) (hL : L.PermSym) (hshort : ShortRange L)
    (e : V → Cx R) (he : ∀ a, Cx.conj (e a) = e (-a)) (s : Fin np → R)
    (fc : Fin nf → Fin ns → Fin 3 → Fin 3 → R) (hfc : ∀ i k a b, fc (T.p2s i) k a b = L.superFC i k a b) :
    dynmatC T (fun l => e (L.sv l)) (fun i j => s i * s j) fc = L.fourier e s := by
  exact dynmatC_eq_fourier_short L hL hshort e he s fc hfc

/-- "interaction range shorter than half the shortest supercell lattice vector" implies `ShortRange`,
for any length function and a table of minimal-length images. -/
theorem short_range_of_half_cell {Ω : Type} [AddCommGroup Ω] [LinearOrder Ω] [IsOrderedAddMonoid Ω]
    (L : LatticeModel V R T) (N : V → Ω) (hneg : ∀ v, N (-v) = N v) (htri : ∀ a b, N (a + b) ≤ N a + N b)
    (hmin : ∀ k i l, ∀ n ∈ L.S, N (L.sv (T.svIdx k i l)) ≤ N (L.sv (T.svIdx k i l) + n))
    (hrange : ∀ i j r, r ∈ L.supp i j → (∃ a b, L.Ψ i j r a b ≠ 0) → ∀ n ∈ L.S, n ≠ 0 → N r + N r < N n) :
    ShortRange L :=
  shortRange_of_length L N hneg htri hmin hrange

/-- without the Hermitiser and without any symmetry of the crystal: the raw block already is the sum -/
theorem dynmatRaw_eq_fourier_commensurate (L : LatticeModel V R T) (e : V → Cx R) (he : IsChar e)
    (hcomm : ∀ n ∈ L.S, e n = 1) (s : Fin np → R)
    (fc : Fin nf → Fin ns → Fin 3 → Fin 3 → R) (hfc : ∀ i k a b, fc (T.p2s i) k a b = L.superFC i k a b) :
    dynmatRawC T (fun l => e (L.sv l)) (fun i j => s i * s j) fc = L.fourier e s :=
  raw_eq_fourier_commensurate L e he hcomm s fc hfc

/-! ### the Hermitiser is the identity on physical force constants -/

/-- (6) **`make_Hermitian` changes nothing** when the (full) force constants are periodic under the stored
lattice translations (tables `C` certified by `CTables.wf`, C07) and index-permutation symmetric, and the
stored images of the reversed pair are the negated images (bijection `π`); any q, any range. -/
theorem hermitize_fixed {T : DTables np ns ns nsv} {C : CTables np ns nt} (hl : Linked T C) (hwf : C.wf = true)
    (sv : Fin nsv → V) (e : V → Cx R) (he : ∀ a, Cx.conj (e a) = e (-a))
    (hneg : ∀ i k, ∃ π : Fin (T.mult k i) ≃ Fin (T.mult (C.sigma i k) (C.s2pp k)),
      ∀ l, sv (T.svIdx (C.sigma i k) (C.s2pp k) (π l)) = - sv (T.svIdx k i l))
    (s : Fin np → R) (Φ : FC ns R) (hper : Periodic C Φ) (hsym : PermSymmetric Φ) :
    dynmatC T (fun l => e (sv l)) (fun i j => s i * s j) Φ
      = dynmatRawC T (fun l => e (sv l)) (fun i j => s i * s j) Φ := by
  unfold dynmatC
  apply hermC_fixed
  intro i a j b
  apply dynmatRawC_hermitian hl (C.wf_sound hwf) _ _ Φ hper hsym (fun i j => mul_comm _ _)
  intro i k
  obtain ⟨π, hπ⟩ := hneg i k
  exact phaseAvgC_conj_of_neg T sv e he k (C.sigma i k) i (C.s2pp k) π hπ

/-! ### loop forms of the kernel and the q-point batch -/

/-- (7) the OpenMP form `for ij < np²: get_dynmat_ij(ij / np, ij % np)` fills block `(i,j)` in iteration `i·np + j`
with what the serial double loop fills, and every block is written by exactly one iteration. -/
theorem ij_loop_eq_double_loop {T : DTables np nf ns nsv} (ph : Fin nsv → Cx R) (mm : Fin np → Fin np → R)
    (fc : Fin nf → Fin ns → Fin 3 → Fin 3 → R) (hnp : 0 < np) :
    (∀ (i j : Fin np) (a b : Fin 3) (h : i.1 * np + j.1 < np * np),
      rawByIJ T ph mm fc hnp ⟨i.1 * np + j.1, h⟩ a b = dynmatRawC T ph mm fc i a j b) ∧
    Function.Bijective (fun ij : Fin (np * np) =>
      ((⟨ij.1 / np, Nat.div_lt_of_lt_mul ij.2⟩ : Fin np), (⟨ij.1 % np, Nat.mod_lt _ hnp⟩ : Fin np))) :=
  ⟨fun i j a b h => rawByIJ_eq T ph mm fc hnp i j a b h, ij_decode_bijective hnp⟩

/-- (8) **the q-point batch (`dym_dynamical_matrices_with_dd_openmp_over_qpoints`, no NAC) is the map of the single-q
kernel**: the buffer element at `adrs_shift·n + (3i+a)·3np + 3j+b` is entry `(i,a),(j,b)` of the matrix of q-point `n`
computed alone, and distinct (q-point, entry) pairs have distinct addresses (the iterations are independent). -/
theorem batch_eq_map_single {T : DTables np nf ns nsv} {nq : Nat} (phs : Fin nq → Fin nsv → Cx R)
    (mm : Fin np → Fin np → R) (fc : Fin nf → Fin ns → Fin 3 → Fin 3 → R) :
    (∀ (n : Fin nq) (i j : Fin np) (a b : Fin 3),
      dynmatBatchFlat T phs mm fc (flatIdx np n.1 i a j b) = dynmatC T (phs n) mm fc i a j b) ∧
    (∀ (n n' : Nat) (i i' j j' : Fin np) (a a' b b' : Fin 3),
      flatIdx np n i a j b = flatIdx np n' i' a' j' b' → n = n' ∧ i = i' ∧ a = a' ∧ j = j' ∧ b = b') :=
  ⟨fun n i j a b => batch_eq_map T phs mm fc n i j a b,
   fun n n' i i' j j' a a' b b' h => flatIdx_injective np n n' i i' j j' a a' b b' h⟩

/-! ### frequencies: `sign(λ)·sqrt|λ|·factor` (the eigenvalues and the square root are parameters) -/

section frequencies
variable {K : Type} [Field K] [LinearOrder K] [IsStrictOrderedRing K]

/-- (9) imaginary modes are reported as negative frequencies, real modes positive, zero modes zero; and
`frequency² = |λ|·factor²` for `λ ≠ 0`. -/
theorem frequency_sign_convention {sqrt : K → K} (h : IsSqrt sqrt) (factor ev : K) (hf : 0 < factor) :
    (frequency sqrt factor ev < 0 ↔ ev < 0) ∧ (0 < frequency sqrt factor ev ↔ 0 < ev) ∧
      (frequency sqrt factor ev = 0 ↔ ev = 0) ∧
      (ev ≠ 0 → frequency sqrt factor ev * frequency sqrt factor ev = |ev| * (factor * factor)) := by
  obtain ⟨h1, h2, h3⟩ := frequency_sign h factor ev hf
  refine ⟨h1, h2, h3, fun hne => ?_⟩
  rw [frequency_sq h]
  have : signR ev * signR ev = 1 := by
    rw [signR_eq]
    rcases lt_or_gt_of_ne hne with hlt | hgt
    · rw [if_neg (not_lt.mpr hlt.le), if_pos hlt]; ring
    · rw [if_pos hgt]; ring
  rw [this, mul_one]

/-- (10) multiplying the dynamical matrix (hence every eigenvalue) by `c > 0` multiplies every frequency by `sqrt c`. -/
theorem frequency_scales_with_sqrt {sqrt : K → K} (h : IsSqrt sqrt) (factor ev c : K) (hc : 0 < c) :
    frequency sqrt factor (c * ev) = sqrt c * frequency sqrt factor ev :=
  frequency_scaling h factor ev c hc

/-- (10b) **band order is eigenvalue order**: the map eigenvalue ↦ frequency is strictly increasing on the whole
line (imaginary modes below zero modes below real modes, order kept inside each class), hence injective:
sorting, degeneracy detection and band connection done on frequencies agree with the same done on eigenvalues. -/
theorem frequency_strictly_increasing {sqrt : K → K} (h : IsSqrt sqrt) (factor : K) (hf : 0 < factor) :
    StrictMono (frequency sqrt factor) := fun _ _ hab => frequency_strictMono h factor hf hab

theorem frequency_injective {sqrt : K → K} (h : IsSqrt sqrt) (factor : K) (hf : 0 < factor) :
    Function.Injective (frequency sqrt factor) := (frequency_strictly_increasing h factor hf).injective

end frequencies

/-! ### the unit factor (tied to the monomials generated from `phonopy/units.py`, see C17) -/

open PhononModel.Units PhononModel.Gen.Units in
/-- (11) `VaspToTHz² = EV / AMU / Å² / (2π)² / 10²⁴` as an identity of unit monomials … -/
theorem vaspToTHz_sq_monomial :
    normEq (.pow VaspToTHz 2)
      (.div (.div (.div (.div EV AMU) (.pow Angstrom 2)) (.pow (.mul (.num 2 0) UExpr.pi) 2)) (.num 1 24)) = true := by
  decide +kernel

open PhononModel.Units PhononModel.Gen.Units in
/-- … hence an identity of real numbers, whatever the (positive) values of the fundamental constants: the factor
turns `sqrt(eigenvalue of D)` in `sqrt(eV/Å²/amu)` into THz, `ν = ω/2π`. -/
theorem vaspToTHz_sq_real (ρ : ℕ → ℝ) (hρ : Admissible ρ) :
    (UExpr.pow VaspToTHz 2).eval ρ
      = (UExpr.div (.div (.div (.div EV AMU) (.pow Angstrom 2)) (.pow (.mul (.num 2 0) UExpr.pi) 2)) (.num 1 24)).eval ρ :=
  normEq_sound hρ _ _ vaspToTHz_sq_monomial

/-! ### the driver's staged evaluators compute exactly the model -/

theorem dynmatCF_spec (T : DTables np nf ns nsv) (ph : Fin nsv → Cx R) (mm : Fin np → Fin np → R)
    (fc : Fin nf → Fin ns → Fin 3 → Fin 3 → R) :
    thaw4 (dynmatCF T ph mm fc) = dynmatC T ph mm fc := by
  unfold dynmatCF dynmatC
  rw [stage4_spec, thaw4_freeze4]

theorem dynmatPyF_spec (T : PyTables np nf ns nsv) (ph : Fin nsv → Cx R) (mm : Fin np → Fin np → R)
    (fc : Fin nf → Fin ns → Fin 3 → Fin 3 → R) :
    thaw4 (dynmatPyF T ph mm fc) = dynmatPy T ph mm fc := by
  unfold dynmatPyF dynmatPy
  rw [stage4_spec, thaw4_freeze4]

/-! ### non-vacuity: the monatomic chain with a two-cell supercell (`Lemmas/DynMatExample.lean`)

Positions are integers, primitive lattice ℤ, supercell lattice 2ℤ, supercell atoms at 0 and 1; nearest-neighbour
springs.  The pair (atom 1, atom 0) has the two equidistant images `+1` and `−1` — the multiplicity-2 situation. -/

example : Chain.Lch.PermSym := Chain.permSym
/-- the supercell force constant between the two atoms is the sum over both images -/
example : Chain.Lch.superFC 0 1 0 0 = -2 := Chain.superFC_01
/-- a unitary character of ℤ, trivial on 2ℤ but not trivial: the zone-boundary point of the chain -/
example : IsUnitaryChar Chain.eZB ∧ (∀ n ∈ Chain.Lch.S, Chain.eZB n = 1) ∧ Chain.eZB 1 ≠ 1 := Chain.eZB_spec

end PhononModel.C02

#print axioms PhononModel.C02.py_eq_c
#print axioms PhononModel.C02.compact_eq_full
#print axioms PhononModel.C02.denseAdrs_mono
#print axioms PhononModel.C02.dense_eq_sparse
#print axioms PhononModel.C02.dynmat_eq_fourier_commensurate
#print axioms PhononModel.C02.dynmat_eq_fourier_short_range
#print axioms PhononModel.C02.short_range_of_half_cell
#print axioms PhononModel.C02.dynmatRaw_eq_fourier_commensurate
#print axioms PhononModel.C02.hermitize_fixed
#print axioms PhononModel.C02.ij_loop_eq_double_loop
#print axioms PhononModel.C02.batch_eq_map_single
#print axioms PhononModel.C02.frequency_sign_convention
#print axioms PhononModel.C02.frequency_scales_with_sqrt
#print axioms PhononModel.C02.vaspToTHz_sq_monomial
#print axioms PhononModel.C02.vaspToTHz_sq_real
#print axioms PhononModel.C02.dynmatCF_spec
#print axioms PhononModel.C02.dynmatPyF_spec
#print axioms PhononModel.C02.frequency_strictly_increasing
#print axioms PhononModel.C02.frequency_injective
