import PhononModel.Lemmas.KernelFootprint
import PhononModel.Model.GlueWiring
/-!
# C13 — compiled kernels: write footprints of the OpenMP loops

Theorems about `PhononModel/Model/KernelFootprint.lean`, for **all** shape parameters:
* `writes_disjoint_<loop>`  — distinct iterations of the parallel loop write disjoint index sets
  (injectivity of the flat-index maps);
* `writes_in_bounds_<loop>` — every write lies inside the buffer whose size is given by the shape
  relations of the glue `c/_phonopy.cpp` (for index tables: under the stated range hypotheses);
* `schedule_free` / `serial_reduction_order_free` — write-disjoint iterations whose updates read
  only their own cells commute, so the store after the parallel region, and hence the serial
  reduction `thermal_props[j] += tp[i][j]` (any, not necessarily associative, addition), does not
  depend on the order in which iterations are executed.
`./check C13` ties the model to the code: pragma inventory, sentinel/guard footprint runs, bitwise
comparison across thread counts and builds.
-/
namespace PhononModel.C13
open PhononModel.Footprint

theorem pos_of_iters {n m a : Nat} (h : a < n * m) : 0 < n ∧ 0 < m := by
  constructor
  · rcases Nat.eq_zero_or_pos n with h0 | h0
    · subst h0; simp at h
    · exact h0
  · rcases Nat.eq_zero_or_pos m with h0 | h0
    · subst h0; simp at h
    · exact h0

/-! ### c/dynmat.c:268 get_dynmat_ij -/

theorem writes_disjoint_get_dynmat_ij (np : Nat) : (dynmatIJLoop np).Disjoint := by
  intro a b ha _ hab x hxa hxb
  have hnp : 0 < np := (pos_of_iters ha).1
  obtain ⟨i, j, hj, rfl, hdi, hmi⟩ := divmod_decomp hnp a
  obtain ⟨i', j', hj', rfl, hdi', hmi'⟩ := divmod_decomp hnp b
  simp only [dynmatIJLoop, hdi, hmi, hdi', hmi', mem_for2, mem_cplx] at hxa hxb
  obtain ⟨k, hk, l, hl, hx⟩ := hxa
  obtain ⟨k', hk', l', hl', hx'⟩ := hxb
  have hA : (i*3+k)*(np*3) + (j*3+l) = (i'*3+k')*(np*3) + (j'*3+l') := by
    rw [← Nat.mul_assoc, ← Nat.mul_assoc]; omega
  obtain ⟨h1, h2⟩ := radix_inj (by omega) (by omega) hA
  apply hab
  have e1 : i = i' := by omega
  have e2 : j = j' := by omega
  rw [e1, e2]

theorem writes_in_bounds_get_dynmat_ij (np : Nat) : (dynmatIJLoop np).InBounds := by
  intro a ha x hx
  have hnp : 0 < np := (pos_of_iters ha).1
  obtain ⟨i, j, hj, rfl, hdi, hmi⟩ := divmod_decomp hnp a
  have hi : i < np := by rw [← hdi]; exact div_lt_of_lt_mul' ha
  simp only [dynmatIJLoop, hdi, hmi, mem_for2, mem_cplx] at hx
  obtain ⟨k, hk, l, hl, hx⟩ := hx
  have hlt : (i*3+k)*(np*3) + (j*3+l) < (np*3)*(np*3) := radix_lt (by omega) (by omega)
  rw [← Nat.mul_assoc] at hlt
  simp only [dynmatIJLoop]
  omega

/-! ### c/derivative_dynmat.c:88 -/

theorem ddm_adrs (np k i l j m : Nat) :
    k * np * np * 9 + (i * 3 + l) * np * 3 + j * 3 + m
      = k * ((np*3)*(np*3)) + ((i*3+l)*(np*3) + (j*3+m)) := by ring

theorem writes_disjoint_derivative_dynmat (np : Nat) : (ddmLoop np).Disjoint := by
  intro a b ha hb hab x hxa hxb
  have hnp : 0 < np := (pos_of_iters ha).1
  have hia : a / np < np := div_lt_of_lt_mul' ha
  have hib : b / np < np := div_lt_of_lt_mul' hb
  obtain ⟨i, j, hj, rfl, hdi, hmi⟩ := divmod_decomp hnp a
  obtain ⟨i', j', hj', rfl, hdi', hmi'⟩ := divmod_decomp hnp b
  rw [hdi] at hia; rw [hdi'] at hib
  simp only [ddmLoop, hdi, hmi, hdi', hmi', mem_for3, mem_cplx] at hxa hxb
  obtain ⟨k, hk, l, hl, m, hm, hx⟩ := hxa
  obtain ⟨k', hk', l', hl', m', hm', hx'⟩ := hxb
  have hA : k * ((np*3)*(np*3)) + ((i*3+l)*(np*3) + (j*3+m))
      = k' * ((np*3)*(np*3)) + ((i'*3+l')*(np*3) + (j'*3+m')) := by
    rw [← ddm_adrs, ← ddm_adrs]; omega
  have b1 : (i*3+l)*(np*3) + (j*3+m) < (np*3)*(np*3) := radix_lt (by omega) (by omega)
  have b2 : (i'*3+l')*(np*3) + (j'*3+m') < (np*3)*(np*3) := radix_lt (by omega) (by omega)
  obtain ⟨_, h2⟩ := radix_inj b1 b2 hA
  obtain ⟨h3, h4⟩ := radix_inj (by omega) (by omega) h2
  apply hab
  have e1 : i = i' := by omega
  have e2 : j = j' := by omega
  rw [e1, e2]

theorem writes_in_bounds_derivative_dynmat (np : Nat) : (ddmLoop np).InBounds := by
  intro a ha x hx
  have hnp : 0 < np := (pos_of_iters ha).1
  have hia : a / np < np := div_lt_of_lt_mul' ha
  obtain ⟨i, j, hj, rfl, hdi, hmi⟩ := divmod_decomp hnp a
  rw [hdi] at hia
  simp only [ddmLoop, hdi, hmi, mem_for3, mem_cplx] at hx
  obtain ⟨k, hk, l, hl, m, hm, hx⟩ := hx
  have b1 : (i*3+l)*(np*3) + (j*3+m) < (np*3)*(np*3) := radix_lt (by omega) (by omega)
  have b2 : k * ((np*3)*(np*3)) + ((i*3+l)*(np*3) + (j*3+m)) < 3 * ((np*3)*(np*3)) := radix_lt hk b1
  rw [← ddm_adrs] at b2
  have e : 3 * (np * 3) * (np * 3) = 3 * ((np*3)*(np*3)) := by ring
  simp only [ddmLoop, e]
  omega

/-! ### c/dynmat.c:136, :147 — one block per q-point -/

theorem writes_disjoint_dynmats_over_qpoints (nq np : Nat) : (dmQLoop nq np).Disjoint := by
  intro a b _ _ hab x hxa hxb
  simp only [dmQLoop, mem_for1, mem_cplx] at hxa hxb
  obtain ⟨u, hu, hx⟩ := hxa
  obtain ⟨u', hu', hx'⟩ := hxb
  have hA : a * (np*np*9) + u = b * (np*np*9) + u' := by
    rw [Nat.mul_comm a, Nat.mul_comm b]; omega
  exact hab (radix_inj hu hu' hA).1

theorem writes_in_bounds_dynmats_over_qpoints (nq np : Nat) : (dmQLoop nq np).InBounds := by
  intro a ha x hx
  simp only [dmQLoop, mem_for1, mem_cplx] at hx
  obtain ⟨u, hu, hx⟩ := hx
  have hlt : a * (np*np*9) + u < nq * (np*np*9) := radix_lt ha hu
  rw [Nat.mul_comm a] at hlt
  have e : nq * (np * 3) * (np * 3) = nq * (np*np*9) := by ring
  simp only [dmQLoop, e]
  omega

/-! ### c/dynmat.c:484 transform_dynmat_to_fc_ij (index table `fc_index_map`) -/

theorem writes_disjoint_transform_dynmat_to_fc (np ns nfc : Nat) (fim : Nat → Nat)
    (hinj : ∀ i i', i < np → i' < np → fim i = fim i' → i = i') :
    (dynmatToFcLoop np ns nfc fim).Disjoint := by
  intro a b ha hb hab x hxa hxb
  have hns : 0 < ns := (pos_of_iters ha).2
  have hia : a / ns < np := div_lt_of_lt_mul' ha
  have hib : b / ns < np := div_lt_of_lt_mul' hb
  obtain ⟨i, j, hj, rfl, hdi, hmi⟩ := divmod_decomp hns a
  obtain ⟨i', j', hj', rfl, hdi', hmi'⟩ := divmod_decomp hns b
  rw [hdi] at hia; rw [hdi'] at hib
  simp only [dynmatToFcLoop, hdi, hmi, hdi', hmi', mem_for2, List.mem_singleton] at hxa hxb
  obtain ⟨l, hl, m, hm, hx⟩ := hxa
  obtain ⟨l', hl', m', hm', hx'⟩ := hxb
  have hA : fim i * (ns*9) + (j*9 + l*3 + m) = fim i' * (ns*9) + (j'*9 + l'*3 + m') := by
    rw [← Nat.mul_assoc, ← Nat.mul_assoc]; omega
  obtain ⟨h1, h2⟩ := radix_inj (by omega) (by omega) hA
  apply hab
  have e1 : i = i' := hinj i i' hia hib h1
  have e2 : j = j' := by omega
  rw [e1, e2]

theorem writes_in_bounds_transform_dynmat_to_fc (np ns nfc : Nat) (fim : Nat → Nat)
    (hfim : ∀ i, i < np → fim i < nfc) : (dynmatToFcLoop np ns nfc fim).InBounds := by
  intro a ha x hx
  have hns : 0 < ns := (pos_of_iters ha).2
  have hia : a / ns < np := div_lt_of_lt_mul' ha
  obtain ⟨i, j, hj, rfl, hdi, hmi⟩ := divmod_decomp hns a
  rw [hdi] at hia
  simp only [dynmatToFcLoop, hdi, hmi, mem_for2, List.mem_singleton] at hx
  obtain ⟨l, hl, m, hm, hx⟩ := hx
  have hlt : fim i * (ns*9) + (j*9 + l*3 + m) < nfc * (ns*9) := radix_lt (hfim i hia) (by omega)
  rw [← Nat.mul_assoc, ← Nat.mul_assoc] at hlt
  simp only [dynmatToFcLoop]
  omega

/-! ### c/dynmat.c:613 get_dd — table KK -/

theorem writes_disjoint_get_dd (nG : Nat) : (ddKKLoop nG).Disjoint := by
  intro a b _ _ hab x hxa hxb
  simp only [ddKKLoop, mem_for2, List.mem_singleton] at hxa hxb
  obtain ⟨i, hi, j, hj, hx⟩ := hxa
  obtain ⟨i', hi', j', hj', hx'⟩ := hxb
  omega

theorem writes_in_bounds_get_dd (nG : Nat) : (ddKKLoop nG).InBounds := by
  intro a ha x hx
  simp only [ddKKLoop, mem_for2, List.mem_singleton] at hx ha
  obtain ⟨i, hi, j, hj, hx⟩ := hx
  simp only [ddKKLoop]
  omega

/-! ### c/dynmat.c:720 multiply_borns_at_ij -/

theorem borns_adrs (np i k j l : Nat) :
    i * np * 9 + k * np * 3 + j * 3 + l = i * (np*9) + (k*(np*3) + (j*3+l)) := by ring

theorem writes_disjoint_multiply_borns (np : Nat) : (bornsLoop np).Disjoint := by
  intro a b ha _ hab x hxa hxb
  have hnp : 0 < np := (pos_of_iters ha).1
  obtain ⟨i, j, hj, rfl, hdi, hmi⟩ := divmod_decomp hnp a
  obtain ⟨i', j', hj', rfl, hdi', hmi'⟩ := divmod_decomp hnp b
  simp only [bornsLoop, hdi, hmi, hdi', hmi', mem_for2, mem_cplx] at hxa hxb
  obtain ⟨k, hk, l, hl, hx⟩ := hxa
  obtain ⟨k', hk', l', hl', hx'⟩ := hxb
  have hA : i * (np*9) + (k*(np*3) + (j*3+l)) = i' * (np*9) + (k'*(np*3) + (j'*3+l')) := by
    rw [← borns_adrs, ← borns_adrs]; omega
  have b1 : k*(np*3) + (j*3+l) < 3 * (np*3) := radix_lt hk (by omega)
  have b2 : k'*(np*3) + (j'*3+l') < 3 * (np*3) := radix_lt hk' (by omega)
  have e9 : 3 * (np*3) = np*9 := by ring
  rw [e9] at b1 b2
  obtain ⟨h1, h2⟩ := radix_inj b1 b2 hA
  obtain ⟨_, h4⟩ := radix_inj (by omega) (by omega) h2
  apply hab
  have e2 : j = j' := by omega
  rw [h1, e2]

theorem writes_in_bounds_multiply_borns (np : Nat) : (bornsLoop np).InBounds := by
  intro a ha x hx
  have hnp : 0 < np := (pos_of_iters ha).1
  have hia : a / np < np := div_lt_of_lt_mul' ha
  obtain ⟨i, j, hj, rfl, hdi, hmi⟩ := divmod_decomp hnp a
  rw [hdi] at hia
  simp only [bornsLoop, hdi, hmi, mem_for2, mem_cplx] at hx
  obtain ⟨k, hk, l, hl, hx⟩ := hx
  have b1 : k*(np*3) + (j*3+l) < 3 * (np*3) := radix_lt hk (by omega)
  have e9 : 3 * (np*3) = np*9 := by ring
  rw [e9] at b1
  have b2 : i * (np*9) + (k*(np*3) + (j*3+l)) < np * (np*9) := radix_lt hia b1
  rw [← borns_adrs] at b2
  have e : np * np * 9 = np * (np*9) := by ring
  simp only [bornsLoop, e]
  omega

/-! ### c/phonopy.c:181 tetrahedra frequencies (inner loop at fixed grid point `i`) -/

theorem writes_disjoint_tetrahedra_frequencies (ngp nb i : Nat) : (tetraFreqLoop ngp nb i).Disjoint := by
  intro a b _ _ hab x hxa hxb
  simp only [tetraFreqLoop, List.mem_singleton] at hxa hxb
  omega

theorem writes_in_bounds_tetrahedra_frequencies (ngp nb i : Nat) (hi : i < ngp) :
    (tetraFreqLoop ngp nb i).InBounds := by
  intro a ha x hx
  simp only [tetraFreqLoop, List.mem_singleton] at hx ha
  have hlt : i * (nb*96) + a < ngp * (nb*96) := radix_lt hi ha
  rw [← Nat.mul_assoc, ← Nat.mul_assoc] at hlt
  simp only [tetraFreqLoop]
  omega

/-! ### c/phonopy.c:239 tetrahedron_method_dos -/

theorem dos_adrs (nb nf nc i k j m : Nat) :
    i * nb * nf * nc + k * nc * nf + j * nc + m = i * (nb*(nf*nc)) + (k*(nf*nc) + (j*nc + m)) := by ring

theorem writes_disjoint_tetrahedron_method_dos (nir nb nf nc : Nat) : (dosLoop nir nb nf nc).Disjoint := by
  intro a b _ _ hab x hxa hxb
  simp only [dosLoop, mem_for3, List.mem_singleton] at hxa hxb
  obtain ⟨k, hk, j, hj, m, hm, hx⟩ := hxa
  obtain ⟨k', hk', j', hj', m', hm', hx'⟩ := hxb
  rw [dos_adrs] at hx hx'
  have b1 : k*(nf*nc) + (j*nc + m) < nb*(nf*nc) := radix_lt hk (radix_lt hj hm)
  have b2 : k'*(nf*nc) + (j'*nc + m') < nb*(nf*nc) := radix_lt hk' (radix_lt hj' hm')
  exact hab (radix_inj b1 b2 (hx.symm.trans hx')).1

theorem writes_in_bounds_tetrahedron_method_dos (nir nb nf nc : Nat) : (dosLoop nir nb nf nc).InBounds := by
  intro a ha x hx
  simp only [dosLoop, mem_for3, List.mem_singleton] at hx ha
  obtain ⟨k, hk, j, hj, m, hm, hx⟩ := hx
  rw [dos_adrs] at hx
  have b1 : k*(nf*nc) + (j*nc + m) < nb*(nf*nc) := radix_lt hk (radix_lt hj hm)
  have b2 : a * (nb*(nf*nc)) + (k*(nf*nc) + (j*nc + m)) < nir * (nb*(nf*nc)) := radix_lt ha b1
  have e : nir * nb * nf * nc = nir * (nb*(nf*nc)) := by ring
  simp only [dosLoop, e]
  omega

/-! ### c/phonopy.c:299 thermal_properties: per-q rows of `tp` -/

theorem writes_disjoint_thermal_properties (nq nt : Nat) : (thermalLoop nq nt).Disjoint := by
  intro a b _ _ hab x hxa hxb
  simp only [thermalLoop, mem_for2, List.mem_singleton] at hxa hxb
  obtain ⟨j, hj, c, hc, hx⟩ := hxa
  obtain ⟨j', hj', c', hc', hx'⟩ := hxb
  have hA : a * (nt*3) + (j*3+c) = b * (nt*3) + (j'*3+c') := by
    rw [← Nat.mul_assoc, ← Nat.mul_assoc]; omega
  exact hab (radix_inj (by omega) (by omega) hA).1

theorem writes_in_bounds_thermal_properties (nq nt : Nat) : (thermalLoop nq nt).InBounds := by
  intro a ha x hx
  simp only [thermalLoop, mem_for2, List.mem_singleton] at hx ha
  obtain ⟨j, hj, c, hc, hx⟩ := hx
  have hlt : a * (nt*3) + (j*3+c) < nq * (nt*3) := radix_lt ha (by omega)
  rw [← Nat.mul_assoc, ← Nat.mul_assoc] at hlt
  simp only [thermalLoop]
  omega

/-! ### c/_phonopy.cpp:493 integration weights at omegas -/

theorem writes_disjoint_integration_weight_at_omegas (n : Nat) : (iwLoop n).Disjoint := by
  intro a b _ _ hab x hxa hxb
  simp only [iwLoop, List.mem_singleton] at hxa hxb
  omega

theorem writes_in_bounds_integration_weight_at_omegas (n : Nat) : (iwLoop n).InBounds := by
  intro a ha x hx
  simp only [iwLoop, List.mem_singleton] at hx ha ⊢
  omega

/-! ### whole-kernel write sets stay inside the arrays the glue hands over -/

/-- transform_dynmat_to_fc: zero-fill of `np*ns*9` cells + loop, inside `fc[nfc][ns][3][3]`
(`np ≤ nfc`: compact `nfc = np`, full `nfc = ns`) -/
theorem writes_in_bounds_k_transform_dynmat_to_fc (np ns nfc : Nat) (fim : Nat → Nat)
    (hnp : np ≤ nfc) (hfim : ∀ i, i < np → fim i < nfc) :
    ∀ x ∈ kDynmatToFc np ns nfc fim, x < nfc * ns * 9 := by
  intro x hx
  simp only [kDynmatToFc, List.mem_append, mem_whole, PLoop.all, mem_for1] at hx
  rcases hx with h | ⟨a, ha, hxa⟩
  · have : np * ns * 9 ≤ nfc * ns * 9 := Nat.mul_le_mul_right _ (Nat.mul_le_mul_right _ hnp)
    omega
  · exact writes_in_bounds_transform_dynmat_to_fc np ns nfc fim hfim a ha x hxa

/-- derivative_dynmat: loop + Hermitisation sweep, inside `ddm[3][3np][3np]` complex -/
theorem writes_in_bounds_k_derivative_dynmat (np : Nat) :
    ∀ x ∈ kDerivDynmat np, x < 2 * (3 * (np * 3) * (np * 3)) := by
  intro x hx
  simp only [kDerivDynmat, List.mem_append, PLoop.all, mem_for1, mem_for3] at hx
  rcases hx with ⟨a, ha, hxa⟩ | ⟨i, hi, j, hj, k, hk, hx⟩
  · exact writes_in_bounds_derivative_dynmat np a ha x hxa
  · simp only [mem_cplx] at hx
    have e1 : i * np * np * 9 + j * np * 3 + k = i * ((np*3)*(np*3)) + (j*(np*3) + k) := by ring
    have e2 : i * np * np * 9 + k * np * 3 + j = i * ((np*3)*(np*3)) + (k*(np*3) + j) := by ring
    have b1 : i * ((np*3)*(np*3)) + (j*(np*3) + k) < 3 * ((np*3)*(np*3)) := radix_lt hi (radix_lt hj hk)
    have b2 : i * ((np*3)*(np*3)) + (k*(np*3) + j) < 3 * ((np*3)*(np*3)) := radix_lt hi (radix_lt hk hj)
    rw [← e1] at b1; rw [← e2] at b2
    have e : 3 * (np * 3) * (np * 3) = 3 * ((np*3)*(np*3)) := by ring
    rw [e]
    omega

/-- distribute_fc2: rows `fc_indices_of_atom_list[i] < npos` of `fc2[npos][npos][3][3]` -/
theorem writes_in_bounds_k_distribute_fc2 (npos : Nat) (atomList fcIdx mapAtoms : List Nat)
    (hidx : ∀ i, i < atomList.length → fcIdx.getD i 0 < npos) :
    ∀ x ∈ kDistributeFc2 npos atomList fcIdx mapAtoms, x < npos * npos * 9 := by
  intro x hx
  simp only [kDistributeFc2, mem_for1] at hx
  obtain ⟨i, hi, hx⟩ := hx
  split at hx
  · simp at hx
  · simp only [mem_for2, List.mem_singleton] at hx
    obtain ⟨o, ho, e, he, hx⟩ := hx
    have b1 : fcIdx.getD i 0 * npos + o < npos * npos := radix_lt (hidx i hi) ho
    have b2 : (fcIdx.getD i 0 * npos + o) * 9 + e < (npos * npos) * 9 := radix_lt b1 he
    omega

/-- gsv_set_smallest_vectors_sparse: with every multiplicity ≤ 27 the vectors stay inside
`smallest_vectors[npairs][27][3]` -/
theorem writes_in_bounds_k_gsv_sparse (mult : List Nat) (h27 : ∀ p, p < mult.length → mult.getD p 0 ≤ 27) :
    ∀ x ∈ kGsvSparseVecs mult, x < mult.length * 81 := by
  intro x hx
  simp only [kGsvSparseVecs, mem_for1, mem_for2, List.mem_singleton] at hx
  obtain ⟨p, hp, c, hc, l, hl, hx⟩ := hx
  have := h27 p hp
  have b : p * 81 + (c*3 + l) < mult.length * 81 := radix_lt hp (by omega)
  omega

/-- tetrahedra_frequencies: all grid points, inside `freq_tetras[ngp][nb][24][4]` -/
theorem writes_in_bounds_k_tetrahedra_frequencies (ngp nb : Nat) :
    ∀ x ∈ kTetraFreqs ngp nb, x < ngp * nb * 96 := by
  intro x hx
  simp only [kTetraFreqs, PLoop.all, mem_for1] at hx
  obtain ⟨i, hi, a, ha, hx⟩ := hx
  exact writes_in_bounds_tetrahedra_frequencies ngp nb i hi a ha x hx

/-- outer loop of tetrahedra_frequencies (serial, over grid points) × inner parallel loop:
different grid points never collide either -/
theorem writes_disjoint_tetrahedra_frequencies_outer (ngp nb i i' : Nat) (hii : i ≠ i') :
    ∀ x, x ∈ (tetraFreqLoop ngp nb i).all → x ∉ (tetraFreqLoop ngp nb i').all := by
  intro x hx hx'
  simp only [PLoop.all, mem_for1, tetraFreqLoop, List.mem_singleton] at hx hx'
  obtain ⟨j, hj, hx⟩ := hx
  obtain ⟨j', hj', hx'⟩ := hx'
  have hA : i * (nb*96) + j = i' * (nb*96) + j' := by
    rw [← Nat.mul_assoc, ← Nat.mul_assoc]; omega
  exact hii (radix_inj hj hj' hA).1

/-! ### heap temporaries: every access below the allocated element count -/

/-- distribute_fc2: `atom_list_reverse` (allocated with `num_pos` entries) is indexed by supercell atoms -/
theorem temp_in_bounds_atom_list_reverse (npos len : Nat) (atomList mapAtoms : Nat → Nat)
    (hal : ∀ i, i < len → atomList i < npos) (hma : ∀ a, a < npos → mapAtoms a < npos) :
    (tAtomListReverse npos len atomList mapAtoms).InBounds := by
  intro x hx
  simp only [tAtomListReverse, mem_for1, List.mem_singleton] at hx
  obtain ⟨i, hi, rfl⟩ := hx
  exact hma _ (hal i hi)

/-- and `len_atom_list` entries would not do: a done atom can have an index ≥ len(atom_list)
(atom_list = p2s_map = [0, 8] of a 16-atom supercell) -/
theorem temp_atom_list_reverse_needs_num_pos :
    ¬ (∀ x ∈ (tAtomListReverse 16 2 (fun i => 8 * i) id).accesses, x < 2) := by decide

/-- compact symmetriser: the `done` table -/
theorem temp_in_bounds_done (ns np : Nat) (s2pp : Nat → Nat) (itrans : Nat → Nat → Nat)
    (hs : ∀ j, j < ns → s2pp j < np) (ht : ∀ j ip, j < ns → ip < np → itrans j ip < ns) :
    (tDone ns np s2pp itrans).InBounds := by
  intro x hx
  simp only [tDone, mem_for2, List.mem_cons, List.not_mem_nil, or_false] at hx
  obtain ⟨j, hj, ip, hip, hx⟩ := hx
  have b1 : ip * ns + j < np * ns := radix_lt hip hj
  have b2 : s2pp j * ns + itrans j ip < np * ns := radix_lt (hs j hj) (ht j ip hj hip)
  simp only [tDone]
  rw [Nat.mul_comm ns np]
  rcases hx with rfl | rfl <;> assumption

theorem temp_in_bounds_charge_sum (np : Nat) : (tChargeSum np).InBounds := by
  intro x hx
  simp only [tChargeSum, mem_for2, List.mem_singleton] at hx
  obtain ⟨i, hi, j, hj, a, ha, b, hb, rfl⟩ := hx
  have b1 : i * np + j < np * np := radix_lt hi hj
  have b2 : (i * np + j) * 9 + (a * 3 + b) < (np * np) * 9 := radix_lt b1 (by omega)
  simp only [tChargeSum]; omega

theorem temp_in_bounds_q_born (np : Nat) : (tQBorn np).InBounds := by
  intro x hx
  simp only [tQBorn, mem_for2, List.mem_singleton] at hx
  obtain ⟨i, hi, j, hj, rfl⟩ := hx
  simp only [tQBorn]; omega

theorem temp_in_bounds_dnac (np : Nat) : (tDnac np).InBounds := by
  intro x hx
  simp only [tDnac, mem_for2, List.mem_singleton] at hx
  obtain ⟨i, hi, j, hj, l, hl, m, hm, rfl⟩ := hx
  have e : i * 9 * np + j * 9 + l * 3 + m = i * (np * 9) + (j * 9 + (l * 3 + m)) := by ring
  have b1 : j * 9 + (l * 3 + m) < np * 9 := radix_lt hj (by omega)
  have b2 : i * (np * 9) + (j * 9 + (l * 3 + m)) < np * (np * 9) := radix_lt hi b1
  have e2 : np * np * 9 = np * (np * 9) := by ring
  simp only [tDnac, e, e2]; exact b2

theorem temp_in_bounds_ddnac (np : Nat) : (tDdnac np).InBounds := by
  intro x hx
  simp only [tDdnac, mem_for3, mem_for2, List.mem_singleton] at hx
  obtain ⟨k, hk, i, hi, j, hj, l, hl, m, hm, rfl⟩ := hx
  have e : k * np * np * 9 + i * 9 * np + j * 9 + l * 3 + m
      = k * (np * (np * 9)) + (i * (np * 9) + (j * 9 + (l * 3 + m))) := by ring
  have b1 : j * 9 + (l * 3 + m) < np * 9 := radix_lt hj (by omega)
  have b2 : i * (np * 9) + (j * 9 + (l * 3 + m)) < np * (np * 9) := radix_lt hi b1
  have b3 : k * (np * (np * 9)) + (i * (np * 9) + (j * 9 + (l * 3 + m))) < 3 * (np * (np * 9)) := radix_lt hk b2
  have e2 : np * np * 27 = 3 * (np * (np * 9)) := by ring
  simp only [tDdnac, e, e2]; exact b3

theorem temp_in_bounds_dd_tmp (np : Nat) : (tDdTmp np).InBounds := by
  intro x hx
  simp only [tDdTmp, PLoop.all, mem_for1] at hx
  obtain ⟨a, ha, hx⟩ := hx
  exact writes_in_bounds_multiply_borns np a ha x hx

theorem temp_in_bounds_KK (nG : Nat) : (tKK nG).InBounds := by
  intro x hx
  simp only [tKK, PLoop.all, mem_for1] at hx
  obtain ⟨a, ha, hx⟩ := hx
  exact writes_in_bounds_get_dd nG a ha x hx

theorem temp_in_bounds_tp (nq nt : Nat) : (tTp nq nt).InBounds := by
  intro x hx
  simp only [tTp, List.mem_append, PLoop.all, mem_for1, mem_for2, List.mem_singleton] at hx
  rcases hx with ⟨a, ha, hx⟩ | ⟨i, hi, j, hj, rfl⟩
  · exact writes_in_bounds_thermal_properties nq nt a ha x hx
  · have b : i * (nt * 3) + j < nq * (nt * 3) := radix_lt hi hj
    rw [← Nat.mul_assoc, ← Nat.mul_assoc] at b
    exact b

theorem temp_in_bounds_gsv (nlp : Nat) : (tGsvLength nlp).InBounds ∧ (tGsvVec nlp).InBounds := by
  constructor
  · intro x hx; simpa [tGsvLength, mem_whole] using hx
  · intro x hx
    simp only [tGsvVec, mem_for2, List.mem_singleton] at hx
    obtain ⟨k, hk, l, hl, rfl⟩ := hx
    simp only [tGsvVec]; omega

/-- tetrahedron DOS: `gp2ir` under the range facts of the grid tables -/
theorem temp_in_bounds_gp2ir (ngp : Nat) (gmt : Nat → Nat) (neigh : List Nat)
    (hg : ∀ i, i < ngp → gmt i < ngp) (hn : ∀ x ∈ neigh, x < ngp) : (tGp2ir ngp gmt neigh).InBounds := by
  intro x hx
  simp only [tGp2ir, List.mem_append, mem_for1, List.mem_cons, List.not_mem_nil, or_false] at hx
  rcases hx with ⟨i, hi, rfl | rfl⟩ | hx
  · exact hi
  · exact hg i hi
  · exact hn x hx

/-! ### read footprints: table certificate ⇒ every read inside the array -/

theorem reads_in_bounds_dynmat (S : DynShape) (T : DynTabs) (h : dynCert S T = true) :
    (rDynFc S T).InBounds ∧ (rDynMulti S).InBounds ∧ (rDynSvecs S T).InBounds := by
  simp only [dynCert, Bool.and_eq_true, List.all_eq_true, List.mem_range, decide_eq_true_eq] at h
  obtain ⟨hp, hm⟩ := h
  have hp' := allLt_sound hp
  refine ⟨?_, ?_, ?_⟩
  · intro x hx
    simp only [rDynFc, mem_for2, List.mem_singleton] at hx
    obtain ⟨i, hi, k, hk, l, hl, m, hm', rfl⟩ := hx
    have b : T.p2s i * (S.ns * 9) + (k * 9 + l * 3 + m) < S.nfc * (S.ns * 9) := radix_lt (hp' i hi) (by omega)
    rw [← Nat.mul_assoc, ← Nat.mul_assoc] at b
    simp only [rDynFc]; omega
  · intro x hx
    simp only [rDynMulti, mem_for2, List.mem_cons, List.not_mem_nil, or_false] at hx
    obtain ⟨k, hk, i, hi, hx⟩ := hx
    have b : k * S.np + i < S.ns * S.np := radix_lt hk hi
    simp only [rDynMulti]
    rcases hx with rfl | rfl <;> omega
  · intro x hx
    simp only [rDynSvecs, mem_for2, List.mem_singleton] at hx
    obtain ⟨k, hk, i, hi, l, hl, m, hm', rfl⟩ := hx
    have b : k * S.np + i < S.ns * S.np := radix_lt hk hi
    have := hm _ b
    simp only [rDynSvecs]; omega

theorem reads_in_bounds_transform_dynmat_to_fc (S : D2fShape) (s2pp : Nat → Nat) (h : d2fCert S s2pp = true) :
    (rD2fDm S s2pp).InBounds ∧ (rD2fMasses S s2pp).InBounds := by
  simp only [d2fCert, Bool.and_eq_true, decide_eq_true_eq] at h
  obtain ⟨⟨_, hN⟩, hs⟩ := h
  have hs' := allLt_sound hs
  constructor
  · intro x hx
    simp only [rD2fDm, mem_for3, mem_for2, mem_cplx] at hx
    obtain ⟨k, hk, i, hi, j, hj, l, hl, m, hm, hx⟩ := hx
    have e : k * S.np * S.np * 9 + i * S.np * 9 + l * S.np * 3 + s2pp j * 3 + m
        = k * ((S.np*3)*(S.np*3)) + ((i*3+l)*(S.np*3) + (s2pp j*3+m)) := by ring
    have hsj := hs' j hj
    have b1 : (i*3+l)*(S.np*3) + (s2pp j*3+m) < (S.np*3)*(S.np*3) := radix_lt (by omega) (by omega)
    have b2 : k * ((S.np*3)*(S.np*3)) + ((i*3+l)*(S.np*3) + (s2pp j*3+m)) < S.ncomm * ((S.np*3)*(S.np*3)) :=
      radix_lt (by omega) b1
    rw [← e] at b2
    have e2 : S.ncomm * (S.np * 3) * (S.np * 3) = S.ncomm * ((S.np*3)*(S.np*3)) := by ring
    simp only [rD2fDm, e2]
    omega
  · intro x hx
    simp only [rD2fMasses, mem_for1, List.mem_singleton] at hx
    obtain ⟨j, hj, rfl⟩ := hx
    exact hs' j hj

theorem reads_in_bounds_tetrahedra_frequencies (S : TfShape) (gridPoints gpIr : Nat → Nat)
    (h : tfCert S gridPoints gpIr = true) :
    (rTfGridAddress S gridPoints).InBounds ∧ (rTfGpIr S).InBounds ∧ (rTfFreqs S gpIr).InBounds := by
  simp only [tfCert, Bool.and_eq_true, decide_eq_true_eq] at h
  obtain ⟨⟨hg, hm⟩, hi⟩ := h
  have hg' := allLt_sound hg
  have hi' := allLt_sound hi
  refine ⟨?_, ?_, ?_⟩
  · intro x hx
    simp only [rTfGridAddress, mem_for2, List.mem_singleton] at hx
    obtain ⟨i, hi2, k, hk, rfl⟩ := hx
    have := hg' i hi2
    simp only [rTfGridAddress]; omega
  · intro x hx
    simp only [rTfGpIr, mem_whole] at hx ⊢; omega
  · intro x hx
    simp only [rTfFreqs, mem_for2, List.mem_singleton] at hx
    obtain ⟨g, hg2, b, hb, rfl⟩ := hx
    exact radix_lt (hi' g hg2) hb

theorem gp2irOf_lt (S : DosShape) (gmt : Nat → Nat)
    (hfix : ∀ i, i < S.ngp → gmt i ≤ i ∧ gmt (gmt i) = gmt i) (hcount : fixedBefore gmt S.ngp = S.nir)
    (g : Nat) (hg : g < S.ngp) : gp2irOf gmt g < S.nir := by
  unfold gp2irOf
  obtain ⟨h1, h2⟩ := hfix g hg
  rw [← hcount]
  split
  · next hf => exact fixedBefore_lt_of_fixed gmt hg hf
  · exact fixedBefore_lt_of_fixed gmt (by omega) h2

theorem reads_in_bounds_tetrahedron_method_dos (S : DosShape) (gmt : Nat → Nat) (h : dosCert S gmt = true) :
    (rDosFreqs S gmt).InBounds ∧ (rDosCoef S).InBounds ∧ (rDosGmt S).InBounds := by
  simp only [dosCert, Bool.and_eq_true, decide_eq_true_eq, List.all_eq_true, List.mem_range] at h
  obtain ⟨⟨⟨hlen, hmp⟩, hfix⟩, hcount⟩ := h
  refine ⟨?_, ?_, ?_⟩
  · intro x hx
    simp only [rDosFreqs, mem_for2, List.mem_singleton] at hx
    obtain ⟨g, hg, k, hk, rfl⟩ := hx
    exact radix_lt (gp2irOf_lt S gmt hfix hcount g (by omega)) hk
  · intro x hx
    simp only [rDosCoef, mem_for3, List.mem_singleton] at hx
    obtain ⟨i, hi, m, hm, k, hk, rfl⟩ := hx
    have e : i * S.nc * S.nb + m * S.nb + k = i * (S.nc * S.nb) + (m * S.nb + k) := by ring
    have b : i * (S.nc * S.nb) + (m * S.nb + k) < S.nir * (S.nc * S.nb) := radix_lt hi (radix_lt hm hk)
    have e2 : S.nir * S.nc * S.nb = S.nir * (S.nc * S.nb) := by ring
    simp only [rDosCoef, e, e2]; exact b
  · intro x hx
    simp only [rDosGmt, mem_whole] at hx ⊢; omega

theorem reads_in_bounds_thermal_properties (nq nb : Nat) : (rThermalFreqs nq nb).InBounds := by
  intro x hx
  simp only [rThermalFreqs, mem_for2, List.mem_singleton] at hx
  obtain ⟨i, hi, k, hk, rfl⟩ := hx
  exact radix_lt hi hk

theorem revOf_lt (S : DfcShape) (T : DfcTabs) (d r : Nat) (h : revOf S T d = some r) : r < S.len := by
  unfold revOf at h
  have := List.mem_of_find?_eq_some h
  simpa using this

theorem reads_in_bounds_distribute_fc2 (S : DfcShape) (T : DfcTabs) (h : dfcCert S T = true) :
    (rDfcPerms S T).InBounds ∧ (rDfcFc S T).InBounds ∧ (rDfcMaps S T).InBounds := by
  simp only [dfcCert, Bool.and_eq_true, List.all_eq_true, List.mem_range] at h
  obtain ⟨⟨⟨⟨⟨ha, hf⟩, hma⟩, hms⟩, hpm⟩, hrev⟩ := h
  have ha' := allLt_sound ha
  have hf' := allLt_sound hf
  have hms' := allLt_sound hms
  refine ⟨?_, ?_, ?_⟩
  · intro x hx
    simp only [rDfcPerms, mem_for2, List.mem_singleton] at hx
    obtain ⟨i, hi, o, ho, rfl⟩ := hx
    exact radix_lt (hms' _ (ha' i hi)) ho
  · intro x hx
    simp only [rDfcFc, mem_for2] at hx
    obtain ⟨i, hi, o, ho, hx⟩ := hx
    have hsome := hrev i hi
    cases hr : revOf S T (T.mapAtoms (T.atomList i)) with
    | none => rw [hr] at hsome; simp at hsome
    | some r =>
      rw [hr] at hx
      simp only [mem_for1, List.mem_singleton] at hx
      obtain ⟨e, he, rfl⟩ := hx
      have hr' := revOf_lt S T _ r hr
      have hsym := hms' _ (ha' i hi)
      have hp := allLt_sound (hpm _ hsym) o ho
      have b1 : T.fcIdx r * S.npos + T.perm (T.mapSyms (T.atomList i)) o < S.nrows * S.npos := radix_lt (hf' r hr') hp
      have b2 := radix_lt b1 he
      simp only [rDfcFc]; exact b2
  · intro x hx
    simp only [rDfcMaps, mem_for1, List.mem_singleton] at hx
    obtain ⟨i, hi, rfl⟩ := hx
    exact ha' i hi

theorem reads_in_bounds_compact_symmetrizer (S : CsShape) (T : CsTabs) (h : csCert S T = true) :
    (rCsPerms S T).InBounds ∧ (rCsFc S T).InBounds := by
  simp only [csCert, Bool.and_eq_true, List.all_eq_true, List.mem_range] at h
  obtain ⟨⟨⟨hp, hs⟩, hn⟩, hpm⟩ := h
  have hp' := allLt_sound hp
  have hs' := allLt_sound hs
  have hn' := allLt_sound hn
  constructor
  · intro x hx
    simp only [rCsPerms, mem_for2, List.mem_singleton] at hx
    obtain ⟨j, hj, ip, hip, rfl⟩ := hx
    exact radix_lt (hn' j hj) (hp' ip hip)
  · intro x hx
    simp only [rCsFc, mem_for2, mem_for1, List.mem_cons, List.not_mem_nil, or_false] at hx
    obtain ⟨j, hj, ip, hip, e, he, hx⟩ := hx
    have hit := allLt_sound (hpm _ (hn' j hj)) _ (hp' ip hip)
    have key : ∀ a b, a < S.np → b < S.ns → a * S.ns * 9 + b * 9 + e < S.np * S.ns * 9 := by
      intro a b ha hb
      have b1 : a * S.ns + b < S.np * S.ns := radix_lt ha hb
      have b2 : (a * S.ns + b) * 9 + e < (S.np * S.ns) * 9 := radix_lt b1 he
      have e1 : a * S.ns * 9 + b * 9 + e = (a * S.ns + b) * 9 + e := by ring
      rw [e1]; exact b2
    simp only [rCsFc]
    rcases hx with rfl | rfl | rfl
    · exact key ip j hip hj
    · exact key _ _ (hs' j hj) hit
    · exact key ip _ hip (hp' ip hip)

/-- non-vacuity: a concrete table set passes the certificate; an address past `svecs` fails it, and the
brute-force evaluation of the modelled reads agrees -/
example : dynCert ⟨1, 2, 2, 3⟩ ⟨fun _ => 0, fun _ => 0, fun p => p + 1, fun p => p⟩ = true := by decide
example : dynCert ⟨1, 2, 2, 2⟩ ⟨fun _ => 0, fun _ => 0, fun p => p + 1, fun p => p⟩ = false ∧
    (rDynSvecs ⟨1, 2, 2, 2⟩ ⟨fun _ => 0, fun _ => 0, fun p => p + 1, fun p => p⟩).inBoundsB = false := by decide
example : dosCert ⟨4, 2, 1, 1, 1, 4, 4⟩ (fun i => if i < 2 then 0 else 2) = true := by decide
/-- a representative that is not in `atom_list` is rejected (the C code would read an uninitialised cell) -/
example : dfcCert ⟨2, 1, 1, 2⟩ ⟨fun _ => 1, fun _ => 0, fun _ => 0, fun _ => 0, fun _ a => a⟩ = false := by decide

/-! ### the glue's shape wiring (regenerated from c/_phonopy.cpp on every run) is the one the models assume -/

theorem glue_wiring_matches_model : wiringOK = true := by decide +kernel
theorem glue_casts_match_model : castsOK = true := by decide +kernel
theorem glue_nulls_match_model : nullsOK = true := by decide +kernel
theorem glue_calls_positional : callsPositional = true := by decide +kernel

/-- the shape relations the bounds theorems rely on: `num_patom`/`num_satom` of the Fourier kernels come from
`p2s_map`/`s2p_map`, of `transform_dynmat_to_fc` from `multi.shape(1)`/`multi.shape(0)`; the compact layout is
`fc[n_patom][n_satom]`; `distribute_fc2` sizes come from `permutations[num_rot][num_pos]` -/
theorem glue_shape_relations :
    fedBy "transform_dynmat_to_fc" "num_patom" "py_multi" 1 = true ∧
    fedBy "transform_dynmat_to_fc" "num_satom" "py_multi" 0 = true ∧
    fedBy "dynamical_matrices_with_dd_openmp_over_qpoints" "num_patom" "py_p2s_map" 0 = true ∧
    fedBy "dynamical_matrices_with_dd_openmp_over_qpoints" "num_satom" "py_s2p_map" 0 = true ∧
    fedBy "dynamical_matrices_with_dd_openmp_over_qpoints" "n_qpoints" "py_qpoints" 0 = true ∧
    fedBy "derivative_dynmat" "num_patom" "py_p2s_map" 0 = true ∧
    fedBy "derivative_dynmat" "num_satom" "py_s2p_map" 0 = true ∧
    fedBy "perm_trans_symmetrize_compact_fc" "n_patom" "py_force_constants" 0 = true ∧
    fedBy "perm_trans_symmetrize_compact_fc" "n_satom" "py_force_constants" 1 = true ∧
    fedBy "transpose_compact_fc" "n_patom" "py_force_constants" 0 = true ∧
    fedBy "transpose_compact_fc" "n_satom" "py_force_constants" 1 = true ∧
    fedBy "distribute_fc2" "num_rot" "py_permutations" 0 = true ∧
    fedBy "distribute_fc2" "num_pos" "py_permutations" 1 = true ∧
    fedBy "thermal_properties" "num_qpoints" "py_frequencies" 0 = true ∧
    fedBy "thermal_properties" "num_bands" "py_frequencies" 1 = true ∧
    fedBy "tetrahedron_method_dos" "num_ir_gp" "py_frequencies" 0 = true ∧
    fedBy "tetrahedron_method_dos" "num_coef" "py_coef" 1 = true ∧
    fedBy "tetrahedron_method_dos" "num_gp" "py_grid_address" 0 = true ∧
    fedBy "tetrahedra_frequencies" "num_gp_in" "py_grid_points" 0 = true ∧
    fedBy "tetrahedra_frequencies" "num_band" "py_frequencies" 1 = true := by decide +kernel

/-! ### schedules -/

/-- executing write-disjoint, own-cell-local iterations in any order of a permutation of
`0..n-1` leaves the same store -/
theorem schedule_free {α : Type} (n : Nat) (W : Nat → List Nat) (f : Nat → Nat → (Nat → α) → α)
    (hdisj : ∀ a b, a < n → b < n → a ≠ b → ∀ x, x ∈ W a → x ∉ W b) (hloc : LocalUpd W f)
    (σ : List Nat) (hσ : σ.Perm (List.range n)) (s : Nat → α) :
    runSched (iterBody W f) σ s = runSched (iterBody W f) (List.range n) s := by
  unfold runSched
  apply List.Perm.foldl_eq' hσ
  intro i hi j hj z
  have hi' : i < n := List.mem_range.mp (hσ.mem_iff.mp hi)
  have hj' : j < n := List.mem_range.mp (hσ.mem_iff.mp hj)
  by_cases hij : i = j
  · subst hij; rfl
  · exact iterBody_comm W f hloc i j (hdisj i j hi' hj' hij) z

/-- the same for any of the modelled loops -/
theorem PLoop.schedule_free {α : Type} (L : PLoop) (hd : L.Disjoint) (f : Nat → Nat → (Nat → α) → α)
    (hloc : LocalUpd L.writes f) (σ : List Nat) (hσ : σ.Perm (List.range L.iters)) (s : Nat → α) :
    runSched (iterBody L.writes f) σ s = runSched (iterBody L.writes f) (List.range L.iters) s :=
  C13.schedule_free L.iters L.writes f hd hloc σ hσ s

/-- thermal_properties: the table `tp` after the parallel region, and therefore the result of the
serial reduction into `thermal_props` (fixed order `i = 0..nq-1`, arbitrary `add`), is the same
for every execution order of the parallel iterations. -/
theorem serial_reduction_order_free {α : Type} (add : α → α → α) (nq nt : Nat)
    (f : Nat → Nat → (Nat → α) → α) (hloc : LocalUpd (thermalLoop nq nt).writes f)
    (σ : List Nat) (hσ : σ.Perm (List.range nq)) (tp0 out0 : Nat → α) :
    thermalReduce add nq nt (runSched (iterBody (thermalLoop nq nt).writes f) σ tp0) out0
      = thermalReduce add nq nt (runSched (iterBody (thermalLoop nq nt).writes f) (List.range nq) tp0) out0 := by
  rw [PLoop.schedule_free (thermalLoop nq nt) (writes_disjoint_thermal_properties nq nt) f hloc σ hσ tp0]
  rfl

/-! ### non-vacuity: concrete shapes, a concrete non-identity schedule, a concrete local update -/

example : (dynmatIJLoop 2).disjointB = true ∧ (dynmatIJLoop 2).inBoundsB = true := by decide
example : (ddmLoop 1).all.length = 54 := rfl
example : (dynmatToFcLoop 2 4 4 (fun i => 2 * i)).disjointB = true := by decide
/-- a non-injective index table really breaks disjointness (the hypothesis is needed) -/
example : (dynmatToFcLoop 2 2 2 (fun _ => 0)).disjointB = false := by decide
example : [2, 0, 1].Perm (List.range 3) := by decide
/-- the accumulate-in-place update `tp[x] += c` is local -/
example : LocalUpd (thermalLoop 3 2).writes (fun _ x (s : Nat → Int) => s x + 1) := by
  intro i x s s' hx h
  show s x + 1 = s' x + 1
  rw [h x hx]

end PhononModel.C13

#print axioms PhononModel.C13.writes_disjoint_get_dynmat_ij
#print axioms PhononModel.C13.writes_in_bounds_get_dynmat_ij
#print axioms PhononModel.C13.writes_disjoint_derivative_dynmat
#print axioms PhononModel.C13.writes_in_bounds_derivative_dynmat
#print axioms PhononModel.C13.writes_disjoint_dynmats_over_qpoints
#print axioms PhononModel.C13.writes_in_bounds_dynmats_over_qpoints
#print axioms PhononModel.C13.writes_disjoint_transform_dynmat_to_fc
#print axioms PhononModel.C13.writes_in_bounds_transform_dynmat_to_fc
#print axioms PhononModel.C13.writes_disjoint_get_dd
#print axioms PhononModel.C13.writes_in_bounds_get_dd
#print axioms PhononModel.C13.writes_disjoint_multiply_borns
#print axioms PhononModel.C13.writes_in_bounds_multiply_borns
#print axioms PhononModel.C13.writes_disjoint_tetrahedra_frequencies
#print axioms PhononModel.C13.writes_in_bounds_tetrahedra_frequencies
#print axioms PhononModel.C13.writes_disjoint_tetrahedron_method_dos
#print axioms PhononModel.C13.writes_in_bounds_tetrahedron_method_dos
#print axioms PhononModel.C13.writes_disjoint_thermal_properties
#print axioms PhononModel.C13.writes_in_bounds_thermal_properties
#print axioms PhononModel.C13.writes_disjoint_integration_weight_at_omegas
#print axioms PhononModel.C13.writes_in_bounds_integration_weight_at_omegas
#print axioms PhononModel.C13.writes_in_bounds_k_transform_dynmat_to_fc
#print axioms PhononModel.C13.writes_in_bounds_k_derivative_dynmat
#print axioms PhononModel.C13.writes_in_bounds_k_distribute_fc2
#print axioms PhononModel.C13.writes_in_bounds_k_gsv_sparse
#print axioms PhononModel.C13.writes_in_bounds_k_tetrahedra_frequencies
#print axioms PhononModel.C13.writes_disjoint_tetrahedra_frequencies_outer
#print axioms PhononModel.C13.schedule_free
#print axioms PhononModel.C13.PLoop.schedule_free
#print axioms PhononModel.C13.serial_reduction_order_free
#print axioms PhononModel.C13.temp_in_bounds_atom_list_reverse
#print axioms PhononModel.C13.temp_atom_list_reverse_needs_num_pos
#print axioms PhononModel.C13.temp_in_bounds_done
#print axioms PhononModel.C13.temp_in_bounds_charge_sum
#print axioms PhononModel.C13.temp_in_bounds_q_born
#print axioms PhononModel.C13.temp_in_bounds_dnac
#print axioms PhononModel.C13.temp_in_bounds_ddnac
#print axioms PhononModel.C13.temp_in_bounds_dd_tmp
#print axioms PhononModel.C13.temp_in_bounds_KK
#print axioms PhononModel.C13.temp_in_bounds_tp
#print axioms PhononModel.C13.temp_in_bounds_gsv
#print axioms PhononModel.C13.temp_in_bounds_gp2ir
#print axioms PhononModel.C13.reads_in_bounds_dynmat
#print axioms PhononModel.C13.reads_in_bounds_transform_dynmat_to_fc
#print axioms PhononModel.C13.reads_in_bounds_tetrahedra_frequencies
#print axioms PhononModel.C13.reads_in_bounds_tetrahedron_method_dos
#print axioms PhononModel.C13.reads_in_bounds_thermal_properties
#print axioms PhononModel.C13.reads_in_bounds_distribute_fc2
#print axioms PhononModel.C13.reads_in_bounds_compact_symmetrizer
#print axioms PhononModel.C13.glue_wiring_matches_model
#print axioms PhononModel.C13.glue_casts_match_model
#print axioms PhononModel.C13.glue_nulls_match_model
#print axioms PhononModel.C13.glue_calls_positional
#print axioms PhononModel.C13.glue_shape_relations
