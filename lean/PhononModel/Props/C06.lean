import PhononModel.Model.DynmatToFc
import PhononModel.Lemmas.Basic
namespace PhononModel.C06
theorem placeholder : (1 : Nat) = 1 := rfl
end PhononModel.C06
#print axioms PhononModel.C06.placeholder
