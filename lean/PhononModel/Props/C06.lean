import PhononModel.Lemmas.Roundtrip
import PhononModel.Lemmas.CommPointsClassic
import PhononModel.Lemmas.Categorize
import PhononModel.Lemmas.SymmetrizeCompact
import PhononModel.Lemmas.TimeReversal
import Mathlib.Tactic.FinCases
import Mathlib.Tactic.NormNum
/-!
# C06 — force constants ↔ dynamical matrices at commensurate points is lossless

Theorems are about `PhononModel/Model/DynmatToFc.lean`.  The transform theorems hold over every
ordered field (so ℚ — the driver's scalars — and ℝ), for every number of atoms, every array,
every unit phase offset `ψ`, every faithful character `ζ` of `ℤ/Nd` and every table set passing
the executable certificate `Lat.wf` (which `./check C06` evaluates in Lean on the implementation's
own commensurate points and shortest vectors for every generated case).  The point-set theorems are
over all integer matrices (Smith-normal-form route: all certified `D, P, Q`).
-/
set_option linter.unusedSectionVars false
namespace PhononModel.C06
open PhononModel Finset

/-! ## commensurate points -/

/-- (1a) Smith-normal-form route: exactly `|det S|` points. -/
theorem comm_points_card (S : Mat3) (d : P3) (P Q : Mat3) (h : snfWf S d P Q = true) :
    (commPointsInt d Q).length = (det3 S).natAbs :=
  commPointsInt_length S d P Q h

/-- (1b) … pairwise distinct modulo `N` (i.e. the points `p/N` are distinct modulo 1). -/
theorem comm_points_distinct_mod1 (S : Mat3) (d : P3) (P Q : Mat3) (h : snfWf S d P Q = true) :
    (commPointsInt d Q).Nodup ∧
      ∀ p ∈ commPointsInt d Q, 0 ≤ p.1 ∧ p.1 < d.1 * d.2.1 * d.2.2 ∧ 0 ≤ p.2.1 ∧ p.2.1 < d.1 * d.2.1 * d.2.2 ∧
        0 ≤ p.2.2 ∧ p.2.2 < d.1 * d.2.1 * d.2.2 :=
  ⟨commPointsInt_nodup S d P Q h, commPointsInt_range S d P Q h⟩

/-- (1c) … and `Sᵀ q` is integral for `q = p / N`: `N ∣ (Sᵀ p)_i`. -/
theorem comm_points_integral (S : Mat3) (d : P3) (P Q : Mat3) (h : snfWf S d P Q = true) :
    ∀ p ∈ commPointsInt d Q, P3.Dvd (d.1 * d.2.1 * d.2.2) (mulVec S.T p) :=
  commPointsInt_integral S d P Q h

/-- classic route (`get_commensurate_points`): the returned points are pairwise distinct
(as numerators in `[0, det S)`, i.e. distinct modulo 1) … -/
theorem comm_points_classic_distinct_mod1 (S : Mat3) (hS : 0 < det3 S) :
    (commPointsK S).Nodup ∧ ∀ k ∈ commPointsK S,
      0 ≤ k.1 ∧ k.1 < det3 S ∧ 0 ≤ k.2.1 ∧ k.2.1 < det3 S ∧ 0 ≤ k.2.2 ∧ k.2.2 < det3 S :=
  ⟨commPointsK_nodup S, commPointsK_range S hS⟩

/-- … and commensurate: `q S` (= `Sᵀ q`) is integral. -/
theorem comm_points_classic_integral (S : Mat3) :
    ∀ k ∈ commPointsK S, P3.Dvd (det3 S) (vecMul k S) :=
  commPointsK_integral S

/-- (1a') classic route: **exactly `det S` points** — the surrounding frame of the old-style
supercell builder contains a representative of every class of `ℤ³/ℤ³S` (`frame_complete`), and the
classes are counted through the certified Smith normal form. -/
theorem comm_points_classic_card (S : Mat3) (d : P3) (P Q : Mat3) (h : snfWf S d P Q = true) (hS : 0 < det3 S) :
    (commPointsK S).length = (det3 S).natAbs :=
  commPointsK_length S d P Q h hS

/-- both routes return the same set of points modulo 1 (`commInt_eq_comm`) -/
theorem commInt_eq_comm (S : Mat3) (d : P3) (P Q : Mat3) (h : snfWf S d P Q = true) (hS : 0 < det3 S) (k : P3) :
    k ∈ commPointsK S ↔ k ∈ commPointsInt d Q :=
  mem_commPointsK_iff S d P Q h hS k

/-- the frame completeness itself (no certificate needed) -/
theorem frame_completeness (S : Mat3) (hS : 0 < det3 S) (x : P3) :
    ∃ lp ∈ box (frame S), ∃ n : P3, lp = x.add (vecMul n S) :=
  frame_complete S hS x

/-- the error branch: `det S ≤ 0` is rejected -/
theorem comm_points_rejects (S : Mat3) (hS : ¬ 0 < det3 S) : commPoints S = none := by
  simp [commPoints, hS]

/-- (1d) `categorize_commensurate_points` on a duplicate-free list of reduced points closed under
negation modulo `N`: the `assert` holds (`len(ii) + 2·len(ij) = N`), `ii` are exactly the
self-paired points (`q = −q + G`), `ij` the first members of the pairs. -/
theorem categorize_partition (pts : List P3) (h : CatOK pts) :
    categorize pts = some (catII pts, catIJ pts) ∧
    (catII pts).length + (catIJ pts).length * 2 = pts.length ∧
    (∀ i, i ∈ catII pts ↔ i < pts.length ∧ sig pts i = i) ∧
    (∀ i, i ∈ catIJ pts ↔ i < pts.length ∧ i < sig pts i) ∧
    (∀ i, i < pts.length → sig pts i < pts.length ∧ sig pts (sig pts i) = i ∧
      ((pts.getD i (0, 0, 0)).add (pts.getD (sig pts i) (0, 0, 0))).mod (pts.length : Int) = (0, 0, 0)) := by
  refine ⟨categorize_isSome h, categorize_count h, ?_, ?_, ?_⟩
  · intro i
    rw [mem_catII]
    constructor
    · rintro ⟨hi, hp⟩
      rw [partnerIdx_eq h hi] at hp
      exact ⟨hi, by simpa using hp⟩
    · rintro ⟨hi, hs⟩
      exact ⟨hi, by rw [partnerIdx_eq h hi, hs]⟩
  · intro i
    rw [mem_catIJ]
    constructor
    · rintro ⟨hi, j, hp, hlt⟩
      rw [partnerIdx_eq h hi] at hp
      simp only [Option.some.injEq] at hp
      exact ⟨hi, by omega⟩
    · rintro ⟨hi, hs⟩
      exact ⟨hi, sig pts i, partnerIdx_eq h hi, hs⟩
  · intro i hi
    refine ⟨sig_lt h hi, sig_invol h hi, ?_⟩
    have := sig_spec h hi
    simpa [isNeg] using this

/-- … and the points of `get_commensurate_points_in_integers` satisfy these hypotheses: the
assertion never fails there. -/
theorem categorize_comm_points (S : Mat3) (d : P3) (P Q : Mat3) (h : snfWf S d P Q = true) :
    ∃ ii ij, categorize (commPointsInt d Q) = some (ii, ij) :=
  ⟨_, _, categorize_isSome (catOK_commPointsInt S d P Q h)⟩

/-! ## character orthogonality and the round trips -/

variable {K : Type} [Field K] [LinearOrder K] [IsStrictOrderedRing K]
variable {np ns N : Nat}

/-- (2) **character orthogonality** over the commensurate points:
`Σ_q ζ^(κ_q·n) = N·[n orthogonal to every point]`. -/
theorem char_orthogonality (L : Lat np ns N) (hwf : L.wf = true) (Z : Zeta K L.Nd) (n : P3) :
    ∑ q, Z.z ((L.kq q).dot n) = if ∀ q, L.Nd ∣ (L.kq q).dot n then (N : Cx K) else 0 :=
  (L.wf_sound hwf).char_orth Z n

/-- (3) **fc → D(q) at the commensurate points → fc** returns the compact rows, including
pairs with multiplicity `m > 1` (forward and backward average over the `m` images). -/
theorem roundtrip_fc (L : Lat np ns N) (hwf : L.wf = true) (hN : 0 < N) (Z : Zeta K L.Nd)
    (ψ : Fin N → Fin np → Fin np → Cx K) (hψ : ∀ q j i, (ψ q j i).conj * ψ q j i = 1)
    (mult : Fin ns → Fin np → Nat) (hm : ∀ k i, 0 < mult k i)
    (ms : Fin np → Fin np → K) (hms : ∀ i j, ms i j ≠ 0) (Φ : CFC np ns K)
    (hH : ∀ q, IsHermitian (dynmatRaw (cT L) Φ ms (phF L Z ψ mult q))) :
    dynmatToFc L.s2pp (fun q => dynmat (cT L) Φ ms (phF L Z ψ mult q)) ms (phI L Z ψ mult) = Φ := by
  have : (fun q => dynmat (cT L) Φ ms (phF L Z ψ mult q)) = fun q => dynmatRaw (cT L) Φ ms (phF L Z ψ mult q) := by
    funext q; exact hermitize_of_hermitian _ (hH q)
  rw [this]
  exact roundtrip_fc_raw (L.wf_sound hwf) hN Z ψ hψ mult hm ms hms Φ

/-- the same without the Hermitisation step, for every array -/
theorem roundtrip_fc_unhermitised (L : Lat np ns N) (hwf : L.wf = true) (hN : 0 < N) (Z : Zeta K L.Nd)
    (ψ : Fin N → Fin np → Fin np → Cx K) (hψ : ∀ q j i, (ψ q j i).conj * ψ q j i = 1)
    (mult : Fin ns → Fin np → Nat) (hm : ∀ k i, 0 < mult k i)
    (ms : Fin np → Fin np → K) (hms : ∀ i j, ms i j ≠ 0) (Φ : CFC np ns K) :
    dynmatToFc L.s2pp (fun q => dynmatRaw (cT L) Φ ms (phF L Z ψ mult q)) ms (phI L Z ψ mult) = Φ :=
  roundtrip_fc_raw (L.wf_sound hwf) hN Z ψ hψ mult hm ms hms Φ

/-- the index maps of the full layout: `p2s_map`, `s2p_map` -/
def fT {nt : Nat} (T : CTables np ns nt) : FTables np ns ns :=
  { p2s := T.p2s, s2p := fun k => (T.p2s (T.s2pp k)).1 }

theorem dynmatRaw_full_eq_compact {nt : Nat} (T : CTables np ns nt) (hT : T.wf = true)
    (L : Lat np ns N) (hs : L.s2pp = T.s2pp) (Φ : FC ns K) (ms : Fin np → Fin np → K) (ph : Phases np ns K) :
    dynmatRaw (fT T) Φ ms ph = dynmatRaw (cT L) (compress T Φ) ms ph := by
  have hw := T.wf_sound hT
  have inj : ∀ j j', T.p2s j = T.p2s j' → j = j' := by
    intro j j' e
    have := congrArg T.s2pp e
    rwa [hw.sp, hw.sp] at this
  funext i a j b
  simp only [dynmatRaw, fT, cT, compress, hs, id, Fin.val_inj]
  have e : ∀ k, (T.p2s (T.s2pp k) = T.p2s j) = (T.s2pp k = j) := by
    intro k; exact propext ⟨inj _ _, fun e => by rw [e]⟩
  simp only [e]

/-- (3') full layout: a translation-periodic array is returned by
forward transform → inverse transform → distribution by translations. -/
theorem roundtrip_fc_full {nt : Nat} (T : CTables np ns nt) (hT : T.wf = true)
    (L : Lat np ns N) (hwf : L.wf = true) (hs : L.s2pp = T.s2pp) (hN : 0 < N) (Z : Zeta K L.Nd)
    (ψ : Fin N → Fin np → Fin np → Cx K) (hψ : ∀ q j i, (ψ q j i).conj * ψ q j i = 1)
    (mult : Fin ns → Fin np → Nat) (hm : ∀ k i, 0 < mult k i)
    (ms : Fin np → Fin np → K) (hms : ∀ i j, ms i j ≠ 0) (Φ : FC ns K) (hp : Periodic T Φ)
    (hH : ∀ q, IsHermitian (dynmatRaw (fT T) Φ ms (phF L Z ψ mult q))) :
    dynmatToFcFull T (fun q => dynmat (fT T) Φ ms (phF L Z ψ mult q)) ms (phI L Z ψ mult) = Φ := by
  have e : (fun q => dynmat (fT T) Φ ms (phF L Z ψ mult q))
      = fun q => dynmatRaw (cT L) (compress T Φ) ms (phF L Z ψ mult q) := by
    funext q
    rw [← dynmatRaw_full_eq_compact T hT L hs]
    exact hermitize_of_hermitian _ (hH q)
  unfold dynmatToFcFull
  rw [e, ← hs, roundtrip_fc_raw (L.wf_sound hwf) hN Z ψ hψ mult hm ms hms (compress T Φ)]
  exact expand_compress (T.wf_sound hT) Φ hp

/-- the Python path computes the same array as the compiled one -/
theorem py_eq_c (s2pp : Fin ns → Fin np) (D : Fin N → DM np K) (ms : Fin np → Fin np → K)
    (ph : Fin N → Phases np ns K) : dynmatToFcPy s2pp D ms ph = dynmatToFc s2pp D ms ph := by
  funext i j a b
  simp only [dynmatToFcPy, dynmatToFc, sumFin_eq, Finset.sum_mul]

/-- (4) **D(q) → fc → D(q)** at every commensurate point, for Hermitian matrices with the
time-reversal structure of real force constants: for the list's representative `q'` of `−q`,
`D(q')[i,j] = ψ(q',j,i) ψ(q,j,i) · conj D(q)[i,j]` — the unit factor `ψ(q')ψ(q) = exp(2πi G₀·(x_j − x_i))`
is the zone factor of phonopy's matrices for `q' = −q + G₀` (1 for `G₀ = 0` or one atom per cell). -/
theorem roundtrip_dm (L : Lat np ns N) (hwf : L.wf = true) (hN : 0 < N) (Z : Zeta K L.Nd)
    (ψ : Fin N → Fin np → Fin np → Cx K) (hψ : ∀ q j i, (ψ q j i).conj * ψ q j i = 1)
    (mult : Fin ns → Fin np → Nat) (hm : ∀ k i, 0 < mult k i)
    (ms : Fin np → Fin np → K) (hms : ∀ i j, ms i j ≠ 0) (D : Fin N → DM np K)
    (hH : ∀ q, IsHermitian (D q))
    (hTR : ∀ q q', P3.Dvd L.Nd ((L.kq q).add (L.kq q')) → ∀ i a j b,
      D q' i a j b = (ψ q' j i * ψ q j i) * (D q i a j b).conj)
    (q' : Fin N) :
    dynmat (cT L) (dynmatToFc L.s2pp D ms (phI L Z ψ mult)) ms (phF L Z ψ mult q') = D q' := by
  unfold dynmat
  rw [roundtrip_dm_raw (L.wf_sound hwf) hN Z ψ hψ mult hm ms hms D q' (fun q hd => hTR q q' hd)]
  exact hermitize_of_hermitian _ (hH q')

/-- (5) `Phonopy.ph2ph`: the force constants of the target supercell are the inverse transform of
the source object's dynamical matrices `D` at the target's commensurate points (`L` describes the
*target* supercell); the new object reproduces `D` at every one of these points — in particular
at the points commensurate with the original supercell (`emb` is their position in the list). -/
theorem ph2ph_preserves {N0 : Nat} (emb : Fin N0 → Fin N)
    (L : Lat np ns N) (hwf : L.wf = true) (hN : 0 < N) (Z : Zeta K L.Nd)
    (ψ : Fin N → Fin np → Fin np → Cx K) (hψ : ∀ q j i, (ψ q j i).conj * ψ q j i = 1)
    (mult : Fin ns → Fin np → Nat) (hm : ∀ k i, 0 < mult k i)
    (ms : Fin np → Fin np → K) (hms : ∀ i j, ms i j ≠ 0) (D : Fin N → DM np K)
    (hH : ∀ q, IsHermitian (D q))
    (hTR : ∀ q q', P3.Dvd L.Nd ((L.kq q).add (L.kq q')) → ∀ i a j b,
      D q' i a j b = (ψ q' j i * ψ q j i) * (D q i a j b).conj) :
    ∀ q0, dynmat (cT L) (dynmatToFc L.s2pp D ms (phI L Z ψ mult)) ms (phF L Z ψ mult (emb q0)) = D (emb q0) :=
  fun q0 => roundtrip_dm L hwf hN Z ψ hψ mult hm ms hms D hH hTR (emb q0)

/-! ## `Phonopy.ph2ph(with_nac=True)` (`ph2fc`)

The source object computes its matrices *with* the non-analytical correction at the target's
commensurate points, the target force constants are their inverse transform, and the returned
object carries no NAC parameters.  `L` describes the target supercell; `D q` is the source's NAC
matrix at the target's `q`-th point. -/

/-- pointwise form of `roundtrip_dm`: only the matrix at `q'` and at its negative matter. -/
theorem ph2ph_preserves_at (L : Lat np ns N) (hwf : L.wf = true) (hN : 0 < N) (Z : Zeta K L.Nd)
    (ψ : Fin N → Fin np → Fin np → Cx K) (hψ : ∀ q j i, (ψ q j i).conj * ψ q j i = 1)
    (mult : Fin ns → Fin np → Nat) (hm : ∀ k i, 0 < mult k i)
    (ms : Fin np → Fin np → K) (hms : ∀ i j, ms i j ≠ 0) (D : Fin N → DM np K) (q' : Fin N)
    (hH : IsHermitian (D q'))
    (hTR : ∀ q, P3.Dvd L.Nd ((L.kq q).add (L.kq q')) → ∀ i a j b,
      D q' i a j b = (ψ q' j i * ψ q j i) * (D q i a j b).conj) :
    dynmat (cT L) (dynmatToFc L.s2pp D ms (phI L Z ψ mult)) ms (phF L Z ψ mult q') = D q' := by
  unfold dynmat
  rw [roundtrip_dm_raw (L.wf_sound hwf) hN Z ψ hψ mult hm ms hms D q' hTR]
  exact hermitize_of_hermitian _ hH

/-- Wang's matrix is the plain one whenever the phases of every sublattice sum to zero (a q-point
commensurate with the *source* supercell, `wang_commensurate_noop`) or no vector enters the
correction (zone centre without direction). -/
theorem wang_plain {nps nss nrs : Nat} (Ts : FTables nps nss nrs) (fc : Fin nrs → Fin nss → Fin 3 → Fin 3 → K)
    (ms : Fin nps → Fin nps → K) (ph : Phases nps nss K) (f : K) (qc : C08.V3 K) (tolSq : K) (eps : C08.T3 K)
    (born : Fin nps → C08.T3 K)
    (h : (∀ i j, C08.phaseSum Ts ph i j = 0) ∨ C08.normSq qc < tolSq) :
    C08.wangDynmat Ts fc ms ph f qc none tolSq eps born = dynmat Ts fc ms ph := by
  unfold C08.wangDynmat C08.nacVector
  rcases h with h | h
  · split
    · rfl
    · unfold dynmat; congr 1; funext i a j b
      rw [C08.dynmatRawCS_eq, h i j]; simp
  · simp [h]

/-- (5a) **ph2ph with Wang's NAC preserves the matrices at the source-commensurate points**:
at such a point `q'` and at its negative `q'n` the corrected matrix is the plain one
(`wang_plain`), the source phase table of `q'n` is the conjugate one up to the zone factor
`γ j i = ψ(q',j,i) ψ(q'n,j,i)` (`q'n = −q' + G₀`), hence `D(q') = γ · conj D(q'n)` and the target
object reproduces `D(q')` exactly.  (At target points that are *not* commensurate with the
source supercell Wang's constant depends on the representative of q and no such statement holds.) -/
theorem ph2ph_wang_preserves (L : Lat np ns N) (hwf : L.wf = true) (hN : 0 < N) (Z : Zeta K L.Nd)
    (ψ : Fin N → Fin np → Fin np → Cx K) (hψ : ∀ q j i, (ψ q j i).conj * ψ q j i = 1)
    (mult : Fin ns → Fin np → Nat) (hm : ∀ k i, 0 < mult k i)
    (ms : Fin np → Fin np → K) (hms : ∀ i j, ms i j ≠ 0)
    {nss nrs : Nat} (Ts : FTables np nss nrs) (fcS : Fin nrs → Fin nss → Fin 3 → Fin 3 → K)
    (phS : Fin N → Phases np nss K) (f : K) (qc : Fin N → C08.V3 K) (tolSq : K) (eps : C08.T3 K)
    (born : Fin np → C08.T3 K) (q' q'n : Fin N)
    (hneg : P3.Dvd L.Nd ((L.kq q'n).add (L.kq q')))
    (hplain : (∀ i j, C08.phaseSum Ts (phS q') i j = 0) ∨ C08.normSq (qc q') < tolSq)
    (hplainn : (∀ i j, C08.phaseSum Ts (phS q'n) i j = 0) ∨ C08.normSq (qc q'n) < tolSq)
    (hsym : ∀ i j, ms j i = ms i j) (hψs : ∀ q j i, ψ q i j = (ψ q j i).conj)
    (hconj : ∀ k i j, Ts.s2p k = (Ts.p2s j).1 →
      phS q' k i = (phS q'n k i).map fun z => (ψ q' j i * ψ q'n j i) * z.conj) :
    let D : Fin N → DM np K := fun q => C08.wangDynmat Ts fcS ms (phS q) f (qc q) none tolSq eps born
    dynmat (cT L) (dynmatToFc L.s2pp D ms (phI L Z ψ mult)) ms (phF L Z ψ mult q') = D q' := by
  intro D
  have h1 : D q' = dynmat Ts fcS ms (phS q') := wang_plain Ts fcS ms _ f _ tolSq eps born hplain
  have h2 : D q'n = dynmat Ts fcS ms (phS q'n) := wang_plain Ts fcS ms _ f _ tolSq eps born hplainn
  apply ph2ph_preserves_at L hwf hN Z ψ hψ mult hm ms hms D q'
  · rw [h1]; exact C08.dynmat_isHermitian _ _ _ _
  · intro q hd
    have hq : q = q'n := (L.wf_sound hwf).neg_unique (q := q') (by rw [P3.add_comm']; exact hd) (by rw [P3.add_comm']; exact hneg)
    intro i a j b
    rw [hq, h1, h2, C08.dynmat_twist Ts fcS ms hsym (phS q'n) (phS q') (fun j i => ψ q' j i * ψ q'n j i)
      (fun i j => by rw [hψs q' j i, hψs q'n j i, Cx.conj_mul]) hconj]

/-- (5b) **ph2ph with the Gonze–Lee NAC**: the target object reproduces `D_GL(q')` at a target point
`q'` provided the list contains the *exact* negative of `q'` (`q_cart(q'n) = −q_cart(q')`, conjugate
phase tables, the weights of `−K` equal those of `K`) and the `G` list is symmetric under `G ↦ −G`
(certificate `gListWf`, real Hermitian `dd_q0`; then the zone factor `ψ(q')ψ(q'n)` is 1).  **Caveat (first zone):** the implementation
lists the points in `[0,1)³`, where the representative of `−q'` is `−q' + G₀`; for `G₀ ≠ 0` the
truncated reciprocal sum runs over a shifted set of `K = G + q` and `D_GL(−q'+G₀) = conj D_GL(q')`
holds only up to the neglected tail — then preservation is to the reciprocal-sum precision only
(checked by the oracle), exactly as for `gl_commensurate_partial`. -/
theorem ph2ph_gl_preserves (L : Lat np ns N) (hwf : L.wf = true) (hN : 0 < N) (Z : Zeta K L.Nd)
    (ψ : Fin N → Fin np → Fin np → Cx K) (hψ : ∀ q j i, (ψ q j i).conj * ψ q j i = 1)
    (mult : Fin ns → Fin np → Nat) (hm : ∀ k i, 0 < mult k i)
    (ms : Fin np → Fin np → K) (hms : ∀ i j, ms i j ≠ 0) (hsym : ∀ i j, ms j i = ms i j)
    {nss nrs nG : Nat} (Ts : FTables np nss nrs) (fcSR : Fin nrs → Fin nss → Fin 3 → Fin 3 → K)
    (phS : Fin N → Phases np nss K) (G : Fin nG → C08.V3 K) (nu : Fin nG → Fin nG) (hG : C08.gListWf G nu = true)
    (qc : Fin N → C08.V3 K) (eps : C08.T3 K) (born : Fin np → C08.T3 K) (tolSq : K)
    (expv : Fin N → Fin nG → K) (phG : Fin nG → Fin np → Fin np → Cx K)
    (ddq0 : Fin np → Fin 3 → Fin 3 → Cx K) (factor : K)
    (hphG : ∀ g i j, phG g j i = (phG g i j).conj) (hphGn : ∀ g i j, phG (nu g) i j = (phG g i j).conj)
    (hq0 : ∀ i a b, ddq0 i b a = (ddq0 i a b).conj) (hreal : ∀ i a b, (ddq0 i a b).im = 0)
    (q' q'n : Fin N) (hneg : P3.Dvd L.Nd ((L.kq q'n).add (L.kq q')))
    (hqc : qc q'n = fun i => -qc q' i) (hconj : phS q'n = C08.conjPh (phS q'))
    (hψ1 : ∀ j i, ψ q' j i * ψ q'n j i = 1)
    (he : ∀ g, expv q'n (nu g) = expv q' g) :
    let D : Fin N → DM np K := fun q =>
      C08.glDynmat Ts fcSR ms (phS q) G (qc q) none eps born tolSq (expv q) phG ddq0 factor
    dynmat (cT L) (dynmatToFc L.s2pp D ms (phI L Z ψ mult)) ms (phF L Z ψ mult q') = D q' := by
  intro D
  have hinv : ∀ g, nu (nu g) = g ∧ ∀ i, G (nu g) i = -G g i := by
    intro g
    simp only [C08.gListWf, List.all_eq_true, List.mem_finRange, forall_const, Bool.and_eq_true, beq_iff_eq] at hG
    exact hG g
  let ν : Fin nG ≃ Fin nG := ⟨nu, nu, fun g => (hinv g).1, fun g => (hinv g).1⟩
  have hν : C08.GSym G ν := ⟨fun g i => (hinv g).2 i⟩
  apply ph2ph_preserves_at L hwf hN Z ψ hψ mult hm ms hms D q'
  · exact C08.glDynmat_isHermitian Ts fcSR ms _ G _ none eps born tolSq _ phG ddq0 factor hphG hq0 hsym
  · intro q hd
    have hq : q = q'n := (L.wf_sound hwf).neg_unique (q := q') (by rw [P3.add_comm']; exact hd) (by rw [P3.add_comm']; exact hneg)
    have := C08.glDynmat_time_reversal Ts fcSR ms (phS q') G ν hν (qc q') none eps born tolSq (expv q') (expv q'n)
      phG ddq0 factor he hphGn hreal
    have e : D q'n = C08.conjDM (D q') := by
      show C08.glDynmat Ts fcSR ms (phS q'n) G (qc q'n) none eps born tolSq (expv q'n) phG ddq0 factor = _
      rw [hconj, hqc]; exact this
    intro i a j b
    rw [hq, e, hψ1 j i, one_mul]
    simp [C08.conjDM]

/-! ## non-vacuity -/

example : Lex.wf = true := Lex_wf

/-- the hypotheses of the round-trip theorems are satisfiable: `zeta2` is a faithful character of
`ℤ/2` over ℚ, `Lex` passes the certificate, `ψ = 1`, multiplicities 1 or 2. -/
example : ∃ (Z : Zeta ℚ Lex.Nd) (ψ : Fin 2 → Fin 1 → Fin 1 → Cx ℚ), (∀ q j i, (ψ q j i).conj * ψ q j i = 1) ∧
    (∀ q j i, ψ q i j = (ψ q j i).conj) :=
  ⟨zeta2, fun _ _ _ => 1, fun _ _ _ => by simp, fun _ _ _ => by simp⟩

example : snfWf ((2, 1, 0), (0, 1, 0), (-1, 0, 2)) (1, 1, 4) ((0, 1, 0), (-1, 0, 0), (2, 0, 1))
    ((0, 0, 1), (1, 0, -1), (0, 1, 2)) = true := by decide

end PhononModel.C06

#print axioms PhononModel.C06.comm_points_card
#print axioms PhononModel.C06.comm_points_distinct_mod1
#print axioms PhononModel.C06.comm_points_integral
#print axioms PhononModel.C06.comm_points_classic_distinct_mod1
#print axioms PhononModel.C06.comm_points_classic_integral
#print axioms PhononModel.C06.comm_points_classic_card
#print axioms PhononModel.C06.commInt_eq_comm
#print axioms PhononModel.C06.frame_completeness
#print axioms PhononModel.C06.comm_points_rejects
#print axioms PhononModel.C06.categorize_partition
#print axioms PhononModel.C06.categorize_comm_points
#print axioms PhononModel.C06.char_orthogonality
#print axioms PhononModel.C06.roundtrip_fc
#print axioms PhononModel.C06.roundtrip_fc_unhermitised
#print axioms PhononModel.C06.roundtrip_fc_full
#print axioms PhononModel.C06.py_eq_c
#print axioms PhononModel.C06.roundtrip_dm
#print axioms PhononModel.C06.ph2ph_preserves
#print axioms PhononModel.C06.ph2ph_preserves_at
#print axioms PhononModel.C06.wang_plain
#print axioms PhononModel.C06.ph2ph_wang_preserves
#print axioms PhononModel.C06.ph2ph_gl_preserves
