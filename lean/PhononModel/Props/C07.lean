import PhononModel.Lemmas.SymmetrizeCompact
import PhononModel.Lemmas.SymmetrizeTables
import PhononModel.Lemmas.SymmetrizeEquivariance
import PhononModel.Lemmas.GroupAverage
import PhononModel.Lemmas.SymmetrizeLoop
import Mathlib.Tactic.FinCases
import Mathlib.Tactic.NormNum
/-!
# C07 — force-constant symmetrisers are projections; compact and full layouts agree

Theorems are about `PhononModel/Model/Symmetrize.lean`, over every field of
characteristic 0 (so ℚ — the driver's scalars — and ℝ), every number of atoms, every
array, every iteration level.  `./check C07` ties the model to `c/phonopy.c` and
`harmonic/force_constants.py` by running both on the same arrays.
-/
set_option linter.unusedSectionVars false
namespace PhononModel.C07
open PhononModel Finset

variable {K : Type} [Field K] [CharZero K]

/-- the invariances the full-layout routine imposes -/
def Invariant {n : Nat} (Φ : FC n K) : Prop := PermSymmetric Φ ∧ RowSumZero Φ

/-- (1) invariant input is returned unchanged — every level, including 0. -/
theorem fullSym_fixes_invariant {n : Nat} (L : Nat) (Φ : FC n K) (h : Invariant Φ) :
    fullSym L Φ = Φ := by
  unfold fullSym
  rw [iter_fixes symStep Φ (symStep_fixes Φ h.1 h.2) L, transDiag_fixes Φ h.1 h.2]

/-- (2) arbitrary input is mapped to invariant output (level ≥ 1; both sum rules and the
index-permutation symmetry hold exactly). -/
theorem fullSym_output_invariant {n : Nat} (hn : 0 < n) (L : Nat) (Φ : FC n K) :
    Invariant (fullSym (L+1) Φ) ∧ ColSumZero (fullSym (L+1) Φ) := by
  have hP := iter_succ_props (symStep (n := n) (α := K)) (fun Ψ => Invariant Ψ)
    (fun Ψ => symStep_props hn Ψ) (fun Ψ h => symStep_fixes Ψ h.1 h.2) L Φ
  have hfix : fullSym (L+1) Φ = iter symStep (L+1) Φ := by
    unfold fullSym; exact transDiag_fixes _ hP.1.1 hP.1.2
  rw [hfix]
  exact ⟨hP.1, colSumZero_of_perm_row _ hP.1.1 hP.1.2⟩

/-- (3) applying the routine again changes nothing more (levels ≥ 1, any two levels). -/
theorem fullSym_idempotent {n : Nat} (hn : 0 < n) (L L' : Nat) (Φ : FC n K) :
    fullSym L' (fullSym (L+1) Φ) = fullSym (L+1) Φ :=
  fullSym_fixes_invariant L' _ (fullSym_output_invariant hn L Φ).1

/-- level does not matter beyond 1: one iteration already projects. -/
theorem fullSym_level_irrelevant {n : Nat} (hn : 0 < n) (L : Nat) (Φ : FC n K) :
    fullSym (L+1) Φ = fullSym 1 Φ := by
  have hP := iter_succ_props (symStep (n := n) (α := K)) (fun Ψ => Invariant Ψ)
    (fun Ψ => symStep_props hn Ψ) (fun Ψ h => symStep_fixes Ψ h.1 h.2)
  unfold fullSym
  rw [(hP L Φ).2, (hP 0 Φ).2]

/-- level 0 (only the self-term reset) is idempotent as well. -/
theorem fullSym_zero_idempotent {n : Nat} (Φ : FC n K) : fullSym 0 (fullSym 0 Φ) = fullSym 0 Φ := by
  funext i j k l
  simp only [fullSym, iter, transDiag_apply]
  split
  · next h =>
    subst h
    have : ∀ a b : Fin 3, (∑ j', if i = j' then (0:K) else
        (if i = j' then -((∑ j'', if i = j'' then 0 else Φ i j'' a b) + (∑ j'', if i = j'' then 0 else Φ i j'' b a)) / 2
          else Φ i j' a b)) = ∑ j', if i = j' then 0 else Φ i j' a b := by
      intro a b; apply Finset.sum_congr rfl; intro j' _; split <;> rfl
    simp only [this]
  · rfl

/-- the Python fallback imposes the same invariances and fixes the same arrays. -/
theorem pyFullSym_fixes_invariant {n : Nat} (L : Nat) (Φ : FC n K) (h : Invariant Φ) :
    pyFullSym L Φ = Φ := by
  unfold pyFullSym
  have : iter (fun Φ : FC n K => permSym (rowDrift (colDrift Φ))) L Φ = Φ :=
    iter_fixes _ Φ (symStep_fixes Φ h.1 h.2) L
  rw [this, colDrift_fixes Φ (colSumZero_of_perm_row Φ h.1 h.2), rowDrift_fixes Φ h.2]

theorem pyFullSym_eq_fullSym {n : Nat} (hn : 0 < n) (L : Nat) (Φ : FC n K) :
    pyFullSym (L+1) Φ = fullSym (L+1) Φ := by
  have hP := iter_succ_props (symStep (n := n) (α := K)) (fun Ψ => Invariant Ψ)
    (fun Ψ => symStep_props hn Ψ) (fun Ψ h => symStep_fixes Ψ h.1 h.2) L Φ
  have e : pyFullSym (L+1) Φ = rowDrift (colDrift (iter symStep (L+1) Φ)) := rfl
  rw [e, colDrift_fixes _ (colSumZero_of_perm_row _ hP.1.1 hP.1.2), rowDrift_fixes _ hP.1.2]
  unfold fullSym; exact (transDiag_fixes _ hP.1.1 hP.1.2).symm

/-- (4) **compact ≡ full**: for tables passing the executable certificate, the compact
routine acts on the expanded array exactly as the full routine does — every level. -/
theorem compact_eq_full {np ns nt : Nat} (T : CTables np ns nt) (hwf : T.wf = true)
    (L : Nat) (Φc : CFC np ns K) :
    expand T (compactSym T L Φc) = fullSym L (expand T Φc) := by
  have h := T.wf_sound hwf
  unfold compactSym fullSym
  rw [expand_transDiagC h, expand_iter_symStepC h]

/-- transpose mode = transposition of the expanded array (finding F2 was its failure). -/
theorem transpose_compact_spec {np ns nt : Nat} (T : CTables np ns nt) (hwf : T.wf = true)
    (Φc : CFC np ns K) : expand T (transposeC T Φc) = transposeF (expand T Φc) :=
  expand_transposeC (T.wf_sound hwf) Φc

/-- (5) layout round trips. -/
theorem compact_full_compact {np ns nt : Nat} (T : CTables np ns nt) (hwf : T.wf = true)
    (Φc : CFC np ns K) : compress T (expand T Φc) = Φc :=
  compress_expand (T.wf_sound hwf) Φc

theorem full_compact_full {np ns nt : Nat} (T : CTables np ns nt) (hwf : T.wf = true)
    (Φ : FC ns K) (hp : Periodic T Φ) : expand T (compress T Φ) = Φ :=
  expand_compress (T.wf_sound hwf) Φ hp

theorem expanded_is_periodic {np ns nt : Nat} (T : CTables np ns nt) (hwf : T.wf = true)
    (Φc : CFC np ns K) : Periodic T (expand T Φc) :=
  expand_periodic (T.wf_sound hwf) Φc

/-- compact projection laws, inherited through `compact_eq_full` + `compress_expand`. -/
theorem compactSym_idempotent {np ns nt : Nat} (hns : 0 < ns) (T : CTables np ns nt) (hwf : T.wf = true)
    (L L' : Nat) (Φc : CFC np ns K) :
    compactSym T L' (compactSym T (L+1) Φc) = compactSym T (L+1) Φc := by
  have h := T.wf_sound hwf
  rw [← compress_expand h (compactSym T L' (compactSym T (L+1) Φc)), compact_eq_full T hwf,
    compact_eq_full T hwf, fullSym_idempotent hns, ← compact_eq_full T hwf, compress_expand h]

/-! ### the in-place C loop (literal model, source order, `done` table) -/

/-- The repaired loop of `phpy_set_index_permutation_symmetry_compact_fc` (transpose mode)
computes the closed form `transposeC` — for every table set passing the certificate, every
size and every array: the in-place update order and the `done` bookkeeping are correct. -/
theorem transposeLoop_eq {np ns nt : Nat} (T : CTables np ns nt) (hwf : T.wf = true)
    (Φc : CFC np ns K) : transposeLoop T Φc = transposeC T Φc := by
  rw [transposeLoop_eq_transposeC (T.wf_sound hwf)]
  funext ip j k l; simp

/-- The in-place sequential loop of `set_index_permutation_symmetry_fc` (full layout) equals the
closed form `permSym` the other theorems are about — every size, every array. -/
theorem permSymLoop_eq_closed {n : Nat} (Φ : FC n K) : permSymLoop Φ = permSym Φ := permSymLoop_eq Φ

/-- …and therefore acts on the expanded array as the transposition. -/
theorem transposeLoop_spec {np ns nt : Nat} (T : CTables np ns nt) (hwf : T.wf = true)
    (Φc : CFC np ns K) : expand T (transposeLoop T Φc) = transposeF (expand T Φc) := by
  rw [transposeLoop_eq T hwf]; exact expand_transposeC (T.wf_sound hwf) Φc

/-! ### space-group average (`set_tensor_symmetry_PJ`) is a projection -/

section PJ
variable [DecidableEq K]

/-- invariance of a force-constant array under every listed operation -/
def GroupInvariant {N n : Nat} (perm : Fin N → Fin n → Fin n) (C Ci : Fin N → Fin 3 → Fin 3 → K) (Φ : FC n K) : Prop :=
  ∀ g i j k l, (∑ a, ∑ b, C g k a * Φ (perm g i) (perm g j) a b * Ci g b l) = Φ i j k l

/-- output of the group average is invariant under every operation of the (closed) list -/
theorem pj_output_invariant {N n : Nat} (hN : 0 < N) (perm : Fin N → Fin n → Fin n) (C Ci : Fin N → Fin 3 → Fin 3 → K)
    (mul : Fin N → Fin N → Fin N) (hwf : pjWf perm C Ci mul = true) (Φ : FC n K) :
    GroupInvariant perm C Ci (pjAverage perm C Ci Φ) :=
  fun g i j k l => pj_act hN (pjWf_sound perm C Ci mul hwf) Φ g i j k l

/-- invariant input is returned unchanged -/
theorem pj_fixes_invariant {N n : Nat} (hN : 0 < N) (perm : Fin N → Fin n → Fin n) (C Ci : Fin N → Fin 3 → Fin 3 → K)
    (Φ : FC n K) (h : GroupInvariant perm C Ci Φ) : pjAverage perm C Ci Φ = Φ := by
  have hN' : (N : K) ≠ 0 := by exact_mod_cast hN.ne'
  funext i j k l
  rw [pjAverage_apply]
  have : ∀ g : Fin N, (∑ a, ∑ b, C g k a * Φ (perm g i) (perm g j) a b * Ci g b l) = Φ i j k l :=
    fun g => h g i j k l
  rw [Finset.sum_congr rfl (fun g _ => this g)]
  simp only [Finset.sum_const, Finset.card_univ, Fintype.card_fin, nsmul_eq_mul]
  field_simp

/-- applying the average again changes nothing -/
theorem pj_idempotent {N n : Nat} (hN : 0 < N) (perm : Fin N → Fin n → Fin n) (C Ci : Fin N → Fin 3 → Fin 3 → K)
    (mul : Fin N → Fin N → Fin N) (hwf : pjWf perm C Ci mul = true) (Φ : FC n K) :
    pjAverage perm C Ci (pjAverage perm C Ci Φ) = pjAverage perm C Ci Φ :=
  pj_fixes_invariant hN perm C Ci _ (pj_output_invariant hN perm C Ci mul hwf Φ)

end PJ

/-! ### the driver's staged evaluators compute exactly the model -/

theorem iter_stage_spec {β γ : Type} (th : γ → β) (f : β → β) (g : γ → γ) (h : ∀ A, th (g A) = f (th A)) :
    ∀ (L : Nat) (A : γ), th (iter g L A) = iter f L (th A)
  | 0, _ => rfl
  | L+1, A => by simp only [iter]; rw [iter_stage_spec th f g h L, h]

theorem fullSymF_spec (n L : Nat) (A : Frozen4 K) :
    thaw4 (fullSymF n L A) = fullSym L (thaw4 A : FC n K) := by
  unfold fullSymF fullSym
  rw [stage4_spec]
  congr 1
  exact iter_stage_spec (fun A => (thaw4 A : FC n K)) symStep _ (fun A => by
    simp only [stage4_spec]; rfl) L A

theorem pyFullSymF_spec (n L : Nat) (A : Frozen4 K) :
    thaw4 (pyFullSymF n L A) = pyFullSym L (thaw4 A : FC n K) := by
  unfold pyFullSymF pyFullSym
  rw [stage4_spec, stage4_spec]
  congr 2
  exact iter_stage_spec (fun A => (thaw4 A : FC n K)) _ _ (fun A => by
    simp only [stage4_spec]) L A

theorem compactSymF_spec {np ns nt : Nat} (T : CTables np ns nt) (L : Nat) (A : Frozen4 K) :
    thaw4 (compactSymF T L A) = compactSym T L (thaw4 A : CFC np ns K) := by
  unfold compactSymF compactSym
  rw [stage4_spec]
  congr 1
  exact iter_stage_spec (fun A => (thaw4 A : CFC np ns K)) (symStepC T) _ (fun A => by
    simp only [stage4_spec]; rfl) L A

/-- the staged evaluator that runs the literal permutation loop computes `fullSym` as well -/
theorem fullSymLoopF_spec (n L : Nat) (A : Frozen4 K) :
    thaw4 (fullSymLoopF n L A) = fullSym L (thaw4 A : FC n K) := by
  unfold fullSymLoopF fullSym
  rw [stage4_spec]
  congr 1
  exact iter_stage_spec (fun A => (thaw4 A : FC n K)) symStep _ (fun A => by
    simp only [stage4_spec, permSymLoop_eq]; rfl) L A

/-! ### non-vacuity: a concrete table set passes the certificate and has a self-inverse
translation (2 atoms of one sublattice, translation of order 2 — the F2 situation). -/
def T2 : CTables 1 2 2 where
  p2s := fun _ => 0
  s2pp := fun _ => 0
  nsym := fun i => i
  perms := fun t i => t + i

example : T2.wf = true := by decide
example : T2.perms 1 (T2.perms 1 0) = 0 ∧ T2.perms 1 0 ≠ 0 := by decide

/-! ### the index tables are computed (`get_nsym_list_and_s2pp` ↦ `mkTables`) -/

/-- For inputs passing the executable group certificate (`Primitive`'s pure translations form a group acting
freely on the atoms and preserving the sublattice map), `get_nsym_list_and_s2pp` returns (no `KeyError` /
`IndexError`) and the tables it computes satisfy the certificate every compact-layout theorem assumes. -/
theorem computed_tables_wf {np ns nt : Nat} (hnp : 0 < np) (hnt : 0 < nt) (p2s : Fin np → Fin ns)
    (s2p : Fin ns → Fin ns) (perms : Fin nt → Fin ns → Fin ns) (h : transGroupCert p2s s2p perms = true) :
    tablesDefined p2s s2p perms = true ∧ (mkTables hnp hnt p2s s2p perms).wf = true :=
  let G := transGroupCert_sound p2s s2p perms h
  ⟨G.tablesDefined, CTables.wf_complete _ (G.mkTables_WF hnp hnt)⟩

/-- compact ≡ full with the tables computed by the model of `get_nsym_list_and_s2pp` — the only assumption
left is on `Primitive`'s arrays (`transGroupCert`), not on the derived tables. -/
theorem compact_eq_full_computed_tables {np ns nt : Nat} (hnp : 0 < np) (hnt : 0 < nt) (p2s : Fin np → Fin ns)
    (s2p : Fin ns → Fin ns) (perms : Fin nt → Fin ns → Fin ns) (h : transGroupCert p2s s2p perms = true)
    (L : Nat) (Φc : CFC np ns K) :
    expand (mkTables hnp hnt p2s s2p perms) (compactSym (mkTables hnp hnt p2s s2p perms) L Φc)
      = fullSym L (expand (mkTables hnp hnt p2s s2p perms) Φc) :=
  compact_eq_full _ (computed_tables_wf hnp hnt p2s s2p perms h).2 L Φc

/-- "the FIRST matching translation" is immaterial: any translation that carries atom `i` to its
representative acts on every atom as the recorded one does (so `np.where(...)[0][0]` could be any match). -/
theorem nsym_choice_immaterial {np ns nt : Nat} (hnp : 0 < np) (hnt : 0 < nt) (p2s : Fin np → Fin ns)
    (s2p : Fin ns → Fin ns) (perms : Fin nt → Fin ns → Fin ns) (h : transGroupCert p2s s2p perms = true)
    (i : Fin ns) (t : Fin nt) (ht : perms t i = s2p i) (x : Fin ns) :
    perms t x = perms ((mkTables hnp hnt p2s s2p perms).nsym i) x := by
  have G := transGroupCert_sound p2s s2p perms h
  exact G.free _ _ i (by rw [ht, G.nsym_spec hnp hnt i]) x

/-- the certificate is satisfiable: two primitive atoms, two cells (translations: identity and the swap of
the cells); and it REJECTS a table whose second row is not a translation of the sublattices. -/
def p2sEx : Fin 2 → Fin 4 := fun ip => ⟨ip.1, by omega⟩
def s2pEx : Fin 4 → Fin 4 := fun i => ⟨i.1 % 2, by omega⟩
def permsEx : Fin 2 → Fin 4 → Fin 4 := fun t i => if t = 0 then i else ⟨(i.1 + 2) % 4, by omega⟩
def permsBad : Fin 2 → Fin 4 → Fin 4 := fun t i => if t = 0 then i else ⟨(i.1 + 1) % 4, by omega⟩
example : transGroupCert p2sEx s2pEx permsEx = true := by decide +kernel
example : transGroupCert p2sEx s2pEx permsBad = false := by decide +kernel
example : (mkTables (by omega) (by omega) p2sEx s2pEx permsEx).nsym 3 = 1 := by decide +kernel

/-! ### locality of the passes (what a parallel loop over columns / rows / pairs may rely on) -/

/-- the column-drift pass for column `(j,k,l)` reads only that column -/
theorem colDrift_reads_only_its_column {n : Nat} (Φ Ψ : FC n K) (j : Fin n) (k l : Fin 3)
    (h : ∀ i, Φ i j k l = Ψ i j k l) (i : Fin n) : colDrift Φ i j k l = colDrift Ψ i j k l := by
  simp only [colDrift_apply, h]

/-- the row-drift pass for row `(i,k,l)` reads only that row -/
theorem rowDrift_reads_only_its_row {n : Nat} (Φ Ψ : FC n K) (i : Fin n) (k l : Fin 3)
    (h : ∀ j, Φ i j k l = Ψ i j k l) (j : Fin n) : rowDrift Φ i j k l = rowDrift Ψ i j k l := by
  simp only [rowDrift_apply, h]

/-- the permutation average of entry `(i,j,k,l)` reads only that entry and its transposed partner -/
theorem permSym_reads_only_the_pair {n : Nat} (Φ Ψ : FC n K) (i j : Fin n) (k l : Fin 3)
    (h1 : Φ i j k l = Ψ i j k l) (h2 : Φ j i l k = Ψ j i l k) : permSym Φ i j k l = permSym Ψ i j k l := by
  simp only [permSym_apply, h1, h2]

/-- a two-atom array with a single non-zero entry (for the non-vacuity examples) -/
def Φpin2 : FC 2 ℚ := fun i j k l => if i = 0 ∧ j = 1 ∧ k = 0 ∧ l = 1 then 1 else 0
/-! ### description invariance -/

/-- The full-layout symmetriser commutes with every relabelling of the atoms (every level): symmetrising the
relabelled array gives the relabelled symmetrised array. -/
theorem fullSym_relabel_invariant {n : Nat} (σ : Fin n ≃ Fin n) (L : Nat) (Φ : FC n K) :
    fullSym L (relabel σ Φ) = relabel σ (fullSym L Φ) :=
  fullSym_relabel σ L Φ

/-- ... and with every change of the Cartesian frame `Φ(i,j) ↦ C Φ(i,j) Cᵀ` (`C` any 3×3 matrix, not necessarily
orthogonal or right-handed): the result does not depend on the axes the force constants are expressed in. -/
theorem fullSym_frame_invariant {n : Nat} (C : Fin 3 → Fin 3 → K) (L : Nat) (Φ : FC n K) :
    fullSym L (congr3 C Φ) = congr3 C (fullSym L Φ) :=
  fullSym_congr3 C L Φ

/-- non-vacuity: a relabelling and a frame change that actually move a concrete array -/
example : relabel (Equiv.swap (0 : Fin 2) 1) Φpin2 ≠ Φpin2 := by
  intro h
  have := congrFun (congrFun (congrFun (congrFun h 0) 1) 0) 1
  revert this
  decide +kernel

/-- F2 in the model: the loop as it was before the repair leaves a self-paired block
untransposed — on the two-atom table set above the statement `transposeLoop_eq` is false for it. -/
def Φpin : CFC 1 2 ℚ := fun _ j k l => if j = 1 ∧ k = 0 ∧ l = 1 then 1 else 0
theorem transposeLoopPinned_counterexample : transposeLoopPinned T2 Φpin ≠ transposeC T2 Φpin := by
  intro h
  have := congrFun (congrFun (congrFun (congrFun h 0) 1) 1) 0
  revert this
  decide +kernel
example : transposeLoop T2 Φpin 0 1 1 0 = 1 ∧ transposeLoopPinned T2 Φpin 0 1 1 0 = 0 := by decide +kernel

/-- a concrete invariant array (n = 2): hypotheses of `fullSym_fixes_invariant` are satisfiable
by a non-zero array. -/
def Φex : FC 2 ℚ := fun i j k l => if k = l then (if i = j then 1 else -1) else 0
example : Invariant Φex := by
  constructor
  · intro i j k l; fin_cases i <;> fin_cases j <;> fin_cases k <;> fin_cases l <;> simp [Φex]
  · intro i k l; fin_cases i <;> fin_cases k <;> fin_cases l <;> simp [Φex, Fin.sum_univ_two]

end PhononModel.C07

#print axioms PhononModel.C07.fullSym_fixes_invariant
#print axioms PhononModel.C07.fullSym_output_invariant
#print axioms PhononModel.C07.fullSym_idempotent
#print axioms PhononModel.C07.fullSym_level_irrelevant
#print axioms PhononModel.C07.fullSym_zero_idempotent
#print axioms PhononModel.C07.pyFullSym_fixes_invariant
#print axioms PhononModel.C07.pyFullSym_eq_fullSym
#print axioms PhononModel.C07.compact_eq_full
#print axioms PhononModel.C07.transpose_compact_spec
#print axioms PhononModel.C07.compact_full_compact
#print axioms PhononModel.C07.full_compact_full
#print axioms PhononModel.C07.expanded_is_periodic
#print axioms PhononModel.C07.compactSym_idempotent
#print axioms PhononModel.C07.transposeLoop_eq
#print axioms PhononModel.C07.transposeLoop_spec
#print axioms PhononModel.C07.permSymLoop_eq_closed
#print axioms PhononModel.C07.fullSymLoopF_spec
#print axioms PhononModel.C07.transposeLoopPinned_counterexample
#print axioms PhononModel.C07.pj_output_invariant
#print axioms PhononModel.C07.pj_fixes_invariant
#print axioms PhononModel.C07.pj_idempotent
#print axioms PhononModel.C07.fullSymF_spec
#print axioms PhononModel.C07.pyFullSymF_spec
#print axioms PhononModel.C07.compactSymF_spec
#print axioms PhononModel.C07.computed_tables_wf
#print axioms PhononModel.C07.compact_eq_full_computed_tables
#print axioms PhononModel.C07.nsym_choice_immaterial
#print axioms PhononModel.C07.fullSym_relabel_invariant
#print axioms PhononModel.C07.fullSym_frame_invariant
#print axioms PhononModel.C07.colDrift_reads_only_its_column
#print axioms PhononModel.C07.rowDrift_reads_only_its_row
#print axioms PhononModel.C07.permSym_reads_only_the_pair
