import PhononModel.Lemmas.Settings
import PhononModel.Lemmas.SettingsKeys
import PhononModel.Gen.SettingsTable
import Mathlib.Tactic.FinCases
/-!
# C18 — command-line tools are faithful front-ends: merge semantics of the settings parser

Theorems are about `PhononModel/Model/Settings.lean` (hand-written interpreter of the generated
rule tables) and `PhononModel/Gen/SettingsTable.lean` (regenerated from `/repo` on every run).
The generic theorems hold for every table; the `gen_*` / `table_*` theorems are decided on the
generated table, so a change of `settings.py`, `phonopy_argparse.py` or the two doc files changes
the terms they are about.  Hand-written lists (file-only tags, undocumented options, tags with
interactions) are in this file: a new tag or option that fits none of them makes a theorem fail.
-/
set_option linter.unusedSectionVars false
set_option linter.unusedSimpArgs false
namespace PhononModel.C18
open PhononModel.Settings

/-! ## generic theorems (every table, every file, every argument namespace, every value) -/

/-- **option overrides file.** For an attribute that is bound to one conf key through one parameter
key (`isSimple`), if the command line gives the option (its block of `read_options` assigns the conf
key) then the final attribute is the option's parsed value — whatever the configuration file says. -/
theorem option_overrides_file (T : Table) (a k t : Nat) (hs : T.isSimple a k t = true)
    (r : OptRule) (hr : r ∈ T.optRules) (hu : T.uniqueOptTag r = true) (ht : r.tag = t)
    (D : SMap) (κ : Nat → Raw) (file : Option (List (Nat × Raw))) (args : Nat → ArgVal)
    (raw : Raw) (v : Val) (S : SMap)
    (hfire : r.fire D κ (args r.dest) [] = some (t, raw))
    (hv : T.written k t raw = some v)
    (hrun : T.confParser D κ file (some args) = some S) : S a = v := by
  unfold Table.confParser at hrun
  simp only [Option.bind_eq_some_iff] at hrun
  obtain ⟨S1, _, h2⟩ := hrun
  have hl := T.readOptions_lookup D κ args r hr hu
  rw [ht, hfire] at hl
  have := T.pass_simple a k t hs _ (T.nodup_readOptions D κ args) S1 S h2
  rw [this, hl]
  simp [hv]

/-- **absent option keeps file** (one attribute): if no block of `read_options` assigns the conf
key, the attribute is what the file alone gives. -/
theorem absent_option_keeps_file_attr (T : Table) (a k t : Nat) (hs : T.isSimple a k t = true)
    (D : SMap) (κ : Nat → Raw) (file : Option (List (Nat × Raw))) (args : Nat → ArgVal) (S : SMap)
    (habs : dictLookup (T.readOptions D κ args) t = none)
    (hrun : T.confParser D κ file (some args) = some S) :
    ∃ Sf, T.confParser D κ file none = some Sf ∧ S a = Sf a := by
  unfold Table.confParser at hrun ⊢
  simp only [Option.bind_eq_some_iff] at hrun
  obtain ⟨S1, h1, h2⟩ := hrun
  refine ⟨S1, by simp [h1], ?_⟩
  have := T.pass_simple a k t hs _ (T.nodup_readOptions D κ args) S1 S h2
  rw [this, habs]
  rfl

/-- **absent option keeps file** (whole settings object): when no block of `read_options` fires,
the option pass changes nothing. -/
theorem absent_option_keeps_file (T : Table) (hg : T.progGuarded = true)
    (D : SMap) (κ : Nat → Raw) (file : Option (List (Nat × Raw))) (args : Nat → ArgVal)
    (hno : ∀ r ∈ T.optRules, r.fire D κ (args r.dest) [] = none) :
    T.confParser D κ file (some args) = T.confParser D κ file none := by
  unfold Table.confParser
  simp only [T.readOptions_nil D κ args hno]
  congr 1
  funext S1
  have : T.parseConf [] = fun _ => none := rfl
  simp only [Table.pass, this, execList_guarded T.prog S1 hg, Option.map_some]

/-- **merge order free**: the lines of a configuration file with distinct, non-conflicting tags
(no two of them can write the same parameter key) may be permuted. -/
theorem merge_order_free (T : Table) (L L' : List (Nat × Raw)) (hp : L.Perm L')
    (hnd : (L.map Prod.fst).Nodup)
    (hnc : ∀ e ∈ L, ∀ e' ∈ L, e.1 ≠ e'.1 → T.conflict e.1 e'.1 = false)
    (D : SMap) (κ : Nat → Raw) (args : Option (Nat → ArgVal)) :
    T.confParser D κ (some L) args = T.confParser D κ (some L') args := by
  have hnd' : (L'.map Prod.fst).Nodup := (hp.map Prod.fst).nodup_iff.1 hnd
  unfold Table.confParser
  simp only [readFile_nodup L hnd, readFile_nodup L' hnd']
  unfold Table.pass
  rw [T.parseConf_perm L L' hp hnd hnc]

/-- a tag written several times in the file keeps its last value (`read_file` is a dict) -/
theorem file_last_wins (L : List (Nat × Raw)) (t : Nat) : dictLookup (readFile L) t = lastOf t L := by
  have := dictLookup_foldl_insert L [] t
  simpa [readFile, dictLookup] using this

/-- file route alone, simple attribute: the attribute is the parsed last value of its tag, or the default -/
theorem file_tag_sets_attr (T : Table) (a k t : Nat) (hs : T.isSimple a k t = true)
    (D : SMap) (κ : Nat → Raw) (L : List (Nat × Raw)) (S : SMap)
    (hrun : T.confParser D κ (some L) none = some S) :
    S a = ((lastOf t L).bind (T.written k t)).getD (D a) := by
  unfold Table.confParser at hrun
  simp only [Option.bind_eq_some_iff] at hrun
  obtain ⟨S1, h1, h2⟩ := hrun
  simp only [Option.some.injEq] at h2
  subst h2
  rw [T.pass_simple a k t hs _ (nodup_readFile L) D S1 h1, file_last_wins]

/-- **a given numeric option is never dropped** (F14): in a table whose numeric options are tested with
`is not None`, a numeric option given any in-range value — truthy or not, e.g. `0` — assigns its conf key. -/
theorem numeric_option_value_applies (T : Table) (hn : T.numericNotTruthy = true) (r : OptRule)
    (hr : r ∈ T.optRules) (hnum : r.numeric = true) (D : SMap) (κ : Nat → Raw) (tr : Bool) (raw : Raw) (c : Confs) :
    r.fire D κ (.val tr true raw) c = some (r.tag, r.value κ (.val tr true raw)) := by
  simp only [Table.numericNotTruthy, List.all_eq_true, Bool.or_eq_true, Bool.not_eq_true', beq_iff_eq] at hn
  rcases hn r hr with h | h
  · rw [hnum] at h; cases h
  · simp [OptRule.fire, h, ArgVal.isNotNone, ArgVal.inRange]

/-- and the value then reaches the attribute (composition with `option_overrides_file`) -/
theorem numeric_option_reaches_attr (T : Table) (hn : T.numericNotTruthy = true) (a k : Nat)
    (r : OptRule) (hr : r ∈ T.optRules) (hnum : r.numeric = true) (hval : r.val = OptVal.arg)
    (hs : T.isSimple a k r.tag = true) (hu : T.uniqueOptTag r = true)
    (D : SMap) (κ : Nat → Raw) (file : Option (List (Nat × Raw))) (args : Nat → ArgVal)
    (tr : Bool) (raw : Raw) (v : Val) (S : SMap)
    (harg : args r.dest = .val tr true raw) (hv : T.written k r.tag raw = some v)
    (hrun : T.confParser D κ file (some args) = some S) : S a = v := by
  refine option_overrides_file T a k r.tag hs r hr hu rfl D κ file args raw v S ?_ hv hrun
  rw [harg, numeric_option_value_applies T hn r hr hnum]
  simp [OptRule.value, hval, ArgVal.raw]

/-- **an isolated conf key touches nothing but its own attributes**: adding the line `TAG = value` for an
isolated tag (`Table.tagIsolated`) to any configuration changes no attribute outside `boundAttrs`, and does not
change whether the pass raises.  Together with `option_overrides_file` / `file_tag_sets_attr` this is the whole
effect of such a tag, by either route. -/
theorem isolated_tag_frame (T : Table) (t : Nat) (hI : T.tagIsolated t = true)
    (pre post : Confs) (r : Raw) (S : SMap) :
    (T.pass (pre ++ (t, r) :: post) S = none ↔ T.pass (pre ++ post) S = none) ∧
    ∀ S1 S2, T.pass (pre ++ (t, r) :: post) S = some S1 → T.pass (pre ++ post) S = some S2 →
      ∀ a, a ∉ T.boundAttrs t → S1 a = S2 a := by
  simp only [Table.tagIsolated, Bool.and_eq_true] at hI
  have hcb := hI.2
  have hag : Agree (T.targetsOf t) (T.boundAttrs t) ⟨T.parseConf (pre ++ (t, r) :: post), S⟩ ⟨T.parseConf (pre ++ post), S⟩ :=
    ⟨fun k hk => T.parseConf_skip k t hk pre post r, fun _ _ => rfl⟩
  have h := execList_agree _ _ T.prog hcb _ _ hag
  unfold Table.pass
  cases h1 : execList T.prog ⟨T.parseConf (pre ++ (t, r) :: post), S⟩ <;>
    cases h2 : execList T.prog ⟨T.parseConf (pre ++ post), S⟩ <;> rw [h1, h2] at h <;> simp_all [AgreeO]
  intro a ha
  exact h.2 a ha

/-! ## the generated table -/

open Gen

/-- every assignment of `_set_settings` sits under a guard that needs a parameter -/
theorem gen_prog_guarded : Gen.table.progGuarded = true := by decide +kernel

/-! `Gen.table.numericNotTruthy` (finding F14) and the isolation of `QPOINTS_FORMAT` / `MOMENT_ORDER` depend on
whether the proposed fixes are applied to the tree under check; they are therefore not stated as theorems about
the generated table but evaluated by the driver on every run (`wf` request) — a `false` certificate together with
the failing input found on the real parser is the reported violation.  The general theorems above say what a
`true` certificate means; the following as-found witnesses document what a `false` one means. -/

/-- a block of `read_options` as found in the unchanged tree: `if self._args.tmin: confs["tmin"] = …` -/
def tminRuleAsFound : OptRule := { dest := 0, act := .truthy, tag := 0, val := .arg, rangeCheck := false, numeric := true }
/-- the same block with the proposed test `is not None` -/
def tminRuleFixed : OptRule := { tminRuleAsFound with act := .notNone }

/-- as found: `--tmin 0` (a given but falsy value) assigns nothing — the option is silently dropped -/
theorem truthiness_test_drops_zero (D : SMap) (κ : Nat → Raw) (raw : Raw) (c : Confs) :
    tminRuleAsFound.fire D κ (.val false true raw) c = none := by
  simp [OptRule.fire, tminRuleAsFound, ArgVal.isTruthy]

/-- fixed: the same value is assigned -/
theorem not_none_test_keeps_zero (D : SMap) (κ : Nat → Raw) (raw : Raw) (c : Confs) :
    tminRuleFixed.fire D κ (.val false true raw) c = some (0, raw) := by
  simp [OptRule.fire, tminRuleFixed, tminRuleAsFound, ArgVal.isNotNone, ArgVal.inRange, OptRule.value, ArgVal.raw]

/-- a one-row table: conf key 0 ↦ parameter key 0 ↦ attribute 0, option dest 0 -/
def miniTable (r : OptRule) : Table :=
  { parseRules := [{ phase := 0, keys := [0], onTrue := [], onFalse := [], valued := true, targets := [0] }],
    optRules := [r],
    prog := [.ite (.hasParam 0) (.set 0 (.param 0)) .skip],
    defaults := [(0, .num 0)] }

/-- non-vacuity of `option_overrides_file` and the F14 counterexample on the one-row table: the file says
`TMIN = 100` (token 1), the command line `--tmin 0` (token 2, falsy).  As found the file's value survives;
with the `is not None` test the option wins. -/
example :
    ((miniTable tminRuleAsFound).confParser ((miniTable tminRuleAsFound).defaultSettings []) (fun _ => .other [])
      (some [(0, .other [(0, .tok 1 true 0)])])
      (some (fun _ => .val false true (.other [(0, .tok 2 false 0)])))).map (fun S => S 0) = some (.tok 1 true 0) := by decide
example :
    ((miniTable tminRuleFixed).confParser ((miniTable tminRuleFixed).defaultSettings []) (fun _ => .other [])
      (some [(0, .other [(0, .tok 1 true 0)])])
      (some (fun _ => .val false true (.other [(0, .tok 2 false 0)])))).map (fun S => S 0) = some (.tok 2 false 0) := by decide
example : (miniTable tminRuleFixed).isSimple 0 0 0 = true ∧ (miniTable tminRuleFixed).numericNotTruthy = true ∧
    (miniTable tminRuleAsFound).numericNotTruthy = false := by decide

/-- conf keys that are *not* isolated (they set a run mode, switch or read other attributes, share a
parameter key with another conf key, or are converted on the way): for these the merge is tied to the
code by the correspondence run only.  Every other conf key of the code is isolated (`gen_simple_cover`), i.e.
`isolated_tag_frame` and the binding theorems describe its whole effect. -/
def interactingTags : List Nat := [
  Tag.primitive_axis, Tag.primitive_axes, Tag.symmetry, Tag.mesh_symmetry, Tag.eigenvectors,
  Tag.fc_decimals, Tag.dm_decimals, Tag.mesh_numbers, Tag.mp, Tag.mesh, Tag.band, Tag.qpoints, Tag.read_qpoints,
  Tag.fpitch, Tag.force_constants, Tag.read_force_constants, Tag.write_force_constants, Tag.qpoints_format,
  Tag.readfc_format, Tag.writefc_format, Tag.fc_format, Tag.anime_type, Tag.anime, Tag.modulation, Tag.irreps,
  Tag.pdos, Tag.xyz_projection, Tag.dos_range, Tag.fmax, Tag.fmin, Tag.tprop, Tag.ptprop, Tag.tdisp, Tag.tdispmat,
  Tag.tdispmat_cif, Tag.tdistance, Tag.projection_direction, Tag.moment, Tag.moment_order,
  Tag.include_fc, Tag.include_fs, Tag.include_born, Tag.include_nac_params, Tag.include_disp, Tag.include_all]

/-- listed as found in the unchanged tree (their statements are guarded by `run_mode` / `is_moment`, which makes them
depend on the route of *another* setting); the proposed fix c18-dependent-tags removes the guards and isolates them -/
def fixSensitiveTags : List Nat := [Tag.qpoints_format, Tag.moment_order]

/-- every conf key of the code is isolated (its whole effect is a set of simple bindings) or is listed above;
and the list is minimal: a listed key (other than the two fix-sensitive ones) is not isolated -/
theorem gen_simple_cover :
    Gen.codeTags.all (fun t => Gen.table.tagIsolated t || interactingTags.contains t) = true ∧
    interactingTags.all (fun t => !Gen.table.tagIsolated t || fixSensitiveTags.contains t) = true := by
  constructor <;> decide +kernel

/-- membership in the computed list of simple bindings gives the hypothesis of the generic theorems -/
theorem simpleBindings_sound (T : Table) (a k t : Nat) (h : (a, k, t) ∈ T.simpleBindings) : T.isSimple a k t = true := by
  simp only [Table.simpleBindings, List.mem_flatMap] at h
  obtain ⟨s, _, hs⟩ := h
  split at hs
  · next a' k' _ =>
    simp only [List.mem_flatMap] at hs
    obtain ⟨ρ, _, hρ⟩ := hs
    split at hρ
    · next t' _ =>
      split at hρ
      · next hc =>
        simp only [List.mem_singleton, Prod.mk.injEq] at hρ
        obtain ⟨rfl, rfl, rfl⟩ := hρ
        simp only [Bool.and_eq_true] at hc
        exact hc.2
      · simp at hρ
    · simp at hρ
  · simp at hs

/-- **option overrides file / absent option keeps file on the generated table**: for every simple
binding of the real table and every option block that alone writes its conf key. -/
theorem gen_option_overrides_file (a k t : Nat) (hb : (a, k, t) ∈ Gen.table.simpleBindings)
    (r : OptRule) (hr : r ∈ Gen.table.optRules) (hu : Gen.table.uniqueOptTag r = true) (ht : r.tag = t)
    (D : SMap) (κ : Nat → Raw) (file : Option (List (Nat × Raw))) (args : Nat → ArgVal)
    (raw : Raw) (v : Val) (S : SMap)
    (hfire : r.fire D κ (args r.dest) [] = some (t, raw))
    (hv : Gen.table.written k t raw = some v)
    (hrun : Gen.table.confParser D κ file (some args) = some S) : S a = v :=
  option_overrides_file Gen.table a k t (simpleBindings_sound _ a k t hb) r hr hu ht D κ file args raw v S hfire hv hrun

theorem gen_absent_option_keeps_file (D : SMap) (κ : Nat → Raw) (file : Option (List (Nat × Raw))) (args : Nat → ArgVal)
    (hno : ∀ r ∈ Gen.table.optRules, r.fire D κ (args r.dest) [] = none) :
    Gen.table.confParser D κ file (some args) = Gen.table.confParser D κ file none :=
  absent_option_keeps_file Gen.table gen_prog_guarded D κ file args hno

/-- option blocks that share their conf key with another block (the later block wins) -/
def sharedTagDests : List Nat := [
  Dest.calculator, Dest.interface_mode, Dest.fc_calculator, Dest.use_alm, Dest.use_symfc,
  Dest.primitive_axis, Dest.primitive_axes, Dest.rd_temperature, Dest.temperature,
  Dest.supercell_dimension, Dest.is_check_symmetry]

theorem gen_unique_opt_tags :
    Gen.table.optRules.all (fun r => Gen.table.uniqueOptTag r != sharedTagDests.contains r.dest) = true := by
  decide +kernel

/-! ### non-vacuity: concrete rows of the real table -/

example : (Attr.min_temperature, Key.tmin, Tag.tmin) ∈ Gen.table.simpleBindings := by decide +kernel
example : (Attr.random_seed, Key.random_seed, Tag.random_seed) ∈ Gen.table.simpleBindings := by decide +kernel
example : (Attr.cutoff_frequency, Key.cutoff_frequency, Tag.cutoff_frequency) ∈ Gen.table.simpleBindings := by decide +kernel
example : 70 ≤ Gen.table.simpleBindings.length := by decide +kernel

/-- two non-conflicting tags commute, two conflicting ones (`MESH` and `MP`) do not -/
example : Gen.table.conflict Tag.tmin Tag.tmax = false ∧ Gen.table.conflict Tag.mesh Tag.mp = true := by decide +kernel

/-! ## documentation ↔ code table -/

/-- documented tags for which the code has no command-line option at all -/
def fileOnlyTags : List Nat := [Tag.atom_name, Tag.mp_shift, Tag.dos_range, Tag.force_constants, Tag.anime_type]

/-- documented tags that do have an option in the code although doc/command-options.md does not list the equivalence
(`--mass`, `--nodiag`, `--pm`, `--random-seed`) -/
def equivalenceNotListedTags : List Nat := [Tag.mass, Tag.diag, Tag.pm, Tag.random_seed]

/-- headings of doc/setting-tags.md that are not conf keys: a misspelt `MOMENT` and the two
calculator names documented below `FC_CALCULATOR_OPTIONS` -/
def docNotTags : List Nat := [Tag.momemt, Tag.symfc, Tag.alm]

/-- the heading `MOMEMT` documents the conf key `moment` -/
def docTypos : List (Nat × Nat) := [(Tag.momemt, Tag.moment)]

/-- conf keys the code handles that have no heading in doc/setting-tags.md -/
def undocumentedTags : List Nat := [
  Tag.band_indices, Tag.primitive_axis, Tag.displacement_distance_max, Tag.trigonal, Tag.calculator, Tag.fc_decimals,
  Tag.dm_decimals, Tag.band_const_interval, Tag.read_qpoints, Tag.frequency_scale_factor, Tag.num_frequency_points,
  Tag.classical, Tag.tetrahedron, Tag.hdf5_compression, Tag.save_params, Tag.use_pypolymlp, Tag.mlp_params,
  Tag.legacy_plot, Tag.create_force_sets, Tag.create_force_sets_zero, Tag.create_force_constants, Tag.cutoff_radius,
  Tag.time_reversal_symmetry, Tag.fc_spg_symmetry, Tag.ptprop, Tag.tdistance, Tag.lapack_solver,
  Tag.include_born, Tag.include_nac_params, Tag.store_dense_svecs, Tag.sscha_iterations]

/-- blocks of `read_options` whose dest no parser defines (dead code), plus the pseudo dest of `get_interface_mode` -/
def deadOptionDests : List Nat := [
  Dest.calculator, Dest.frequency_scale_factor, Dest.num_frequency_points, Dest.primitive_axis,
  Dest.store_dense_svecs, Dest.lapack_solver, Dest.interface_mode]

/-- options that feed a conf key but are missing from the equivalence list of doc/command-options.md -/
def equivalenceNotListedDests : List Nat := [
  Dest.band_indices, Dest.classical, Dest.displacement_distance_max, Dest.dynamical_matrix_decimals,
  Dest.force_constants_decimals, Dest.hdf5_compression, Dest.is_band_const_interval, Dest.is_nodiag,
  Dest.is_plusminus_displacements, Dest.is_trigonal_displacements, Dest.masses, Dest.mlp_params, Dest.random_seed,
  Dest.save_params, Dest.use_pypolymlp, Dest.create_force_sets, Dest.create_force_sets_zero, Dest.create_force_constants,
  Dest.fc_spg_symmetry, Dest.is_projected_thermal_properties, Dest.fc_format, Dest.is_legacy_plot, Dest.cutoff_radius,
  Dest.temperature, Dest.include_nac_params, Dest.is_check_symmetry, Dest.sscha_iterations]

/-- option names in the headings of doc/command-options.md that no parser defines (`--forces` for `--force-sets`) -/
def docFlagTypos : List Nat := [Flag.forces]

def flagKnown (f : Nat) : Bool := Gen.flags.any (fun fr => fr.flag == f)
def destHasFlag (d : Nat) : Bool := Gen.flags.any (fun fr => fr.dest == d)
/-- the code has an option (a flag of some parser) whose block writes a conf key sharing a parameter key with `t` -/
def tagHasCodeOption (t : Nat) : Bool :=
  Gen.optRules.any (fun r => destHasFlag r.dest && Gen.table.conflict r.tag t)
def tagHasDocOption (t : Nat) : Bool := Gen.docPairs.any (fun p => Gen.table.conflict p.2 t)
def isDocTag (t : Nat) : Bool := Gen.docTags.contains t || docTypos.any (fun p => p.2 == t)

def tableTotal : Bool :=
  -- (1) a documented tag is a conf key of the code (or a listed non-tag heading) …
  Gen.docTags.all (fun t => Gen.codeTags.contains t != docNotTags.contains t) &&
  -- … and exactly one of: an option equivalence is documented / it is file-only / its option is not listed;
  --     the classification agrees with the code (file-only ⇒ no option in any parser, otherwise one exists)
  Gen.docTags.all (fun t => docNotTags.contains t ||
    ((if tagHasDocOption t then 1 else 0) + (if fileOnlyTags.contains t then 1 else 0) +
      (if equivalenceNotListedTags.contains t then 1 else 0) == 1 &&
     (fileOnlyTags.contains t != tagHasCodeOption t))) &&
  -- (2) vice versa: a conf key of the code is documented or listed as undocumented, not both
  Gen.codeTags.all (fun t => isDocTag t != undocumentedTags.contains t) &&
  -- (3) a documented equivalence names a documented tag and a real flag, and the code agrees: the flag's
  --     block writes a conf key that shares a parameter key with the documented tag
  Gen.docPairs.all (fun p => isDocTag p.2 &&
    Gen.flags.any (fun fr => fr.flag == p.1 && Gen.optRules.any (fun r => r.dest == fr.dest && Gen.table.conflict r.tag p.2))) &&
  -- (4) vice versa: a block of `read_options` is reachable by a flag whose equivalence is documented,
  --     or is listed (missing from the doc list / dead)
  Gen.optRules.all (fun r =>
    (if destHasFlag r.dest && Gen.flags.any (fun fr => fr.dest == r.dest && Gen.docPairs.any (fun p => p.1 == fr.flag)) then 1 else 0) +
    (if equivalenceNotListedDests.contains r.dest then 1 else 0) + (if deadOptionDests.contains r.dest then 1 else 0) == 1 &&
    (deadOptionDests.contains r.dest != destHasFlag r.dest)) &&
  -- (5) option names used in the docs exist in a parser, or are listed typos
  (Gen.docPairs.all (fun p => flagKnown p.1)) &&
  Gen.docHeadingFlags.all (fun f => flagKnown f != docFlagTypos.contains f)

/-- **table total**: documentation and code describe the same tag ↔ option table, up to the listed exceptions -/
theorem table_total : tableTotal = true := by decide +kernel

/-! ## run-mode decision of `main` -/

/-- **decision table of `main`'s early exits** (priority order of the `sys.exit` branches) -/
theorem runmode_early_table (s : EarlyIn) :
    (earlyExit s = some .createForceSets ↔ s.forceSets = true) ∧
    (earlyExit s = some .createForceConstants ↔ s.forceSets = false ∧ s.forceConstants = true) ∧
    (earlyExit s = some .symmetryInfo ↔ s.forceSets = false ∧ s.forceConstants = false ∧ s.checkSymmetry = true) ∧
    (earlyExit s = some .displacements ↔ s.forceSets = false ∧ s.forceConstants = false ∧ s.checkSymmetry = false ∧
      (s.createDisp = true ∨ s.randomDisp = true) ∧ s.rdTemperature = false ∧ s.pypolymlp = false) ∧
    (lateExit s = some .randomDisplacementsAtT ↔ s.sscha = false ∧ s.randomDisp = true ∧ s.rdTemperature = true) := by
  obtain ⟨a, b, c, d, e, f, g, h⟩ := s
  revert a b c d e f g h
  decide

set_option synthInstance.maxSize 4096 in
/-- **decision table of `_run_calculation`**: which calculations a run mode triggers, and the priority
chain inside the mesh branch (at most one post-processing, in the order tprop > tdisp > tdm > pdos > dos > moment) -/
theorem runmode_calc_table (mode : Mode) (m : MeshIn) :
    (Action.band ∈ calcActions mode m ↔ mode = .band ∨ mode = .bandMesh) ∧
    ((Action.mesh ∈ calcActions mode m ∨ Action.meshIter ∈ calcActions mode m) ↔ mode = .mesh ∨ mode = .bandMesh) ∧
    (Action.meshIter ∈ calcActions mode m ↔ (mode = .mesh ∨ mode = .bandMesh) ∧ (m.tdisp = true ∨ m.tdm = true)) ∧
    (Action.qpoints ∈ calcActions mode m ↔ mode = .qpoints) ∧
    (Action.anime ∈ calcActions mode m ↔ mode = .anime) ∧
    (Action.modulation ∈ calcActions mode m ↔ mode = .modulation) ∧
    (Action.irreps ∈ calcActions mode m ↔ mode = .irreps) ∧
    (Action.thermalProperties ∈ calcActions mode m ↔ (mode = .mesh ∨ mode = .bandMesh) ∧ m.tprop = true) ∧
    (Action.thermalDisplacements ∈ calcActions mode m ↔ (mode = .mesh ∨ mode = .bandMesh) ∧ m.tprop = false ∧ m.tdisp = true) ∧
    (Action.thermalDisplacementMatrices ∈ calcActions mode m ↔
      (mode = .mesh ∨ mode = .bandMesh) ∧ m.tprop = false ∧ m.tdisp = false ∧ m.tdm = true) ∧
    (Action.pdos ∈ calcActions mode m ↔
      (mode = .mesh ∨ mode = .bandMesh) ∧ m.tprop = false ∧ m.tdisp = false ∧ m.tdm = false ∧ m.pdosSet = true) ∧
    (Action.dos ∈ calcActions mode m ↔
      (mode = .mesh ∨ mode = .bandMesh) ∧ m.tprop = false ∧ m.tdisp = false ∧ m.tdm = false ∧ m.pdosSet = false ∧
      m.dosFlag = true ∧ m.pdosAuto = false) ∧
    (Action.moment ∈ calcActions mode m ↔
      (mode = .mesh ∨ mode = .bandMesh) ∧ m.tprop = false ∧ m.tdisp = false ∧ m.tdm = false ∧ m.pdosSet = false ∧
      (m.dosFlag = false ∨ m.pdosAuto = true) ∧ m.moment = true) ∧
    ((calcActions mode m).length ≤ 3) := by
  obtain ⟨a, b, c, d, e, f, g⟩ := m
  cases mode <;> (revert a b c d e f g; decide)

theorem earlyExit_cases (s : EarlyIn) :
    earlyExit s = none ∨ earlyExit s = some .createForceSets ∨ earlyExit s = some .createForceConstants ∨
    earlyExit s = some .symmetryInfo ∨ earlyExit s = some .displacements := by
  obtain ⟨x1, x2, x3, x4, x5, x6, x7, x8⟩ := s
  revert x1 x2 x3 x4 x5 x6 x7 x8
  decide

theorem lateExit_cases (s : EarlyIn) : lateExit s = none ∨ lateExit s = some .randomDisplacementsAtT := by
  obtain ⟨x1, x2, x3, x4, x5, x6, x7, x8⟩ := s
  revert x1 x2 x3 x4 x5 x6 x7 x8
  decide

set_option synthInstance.maxSize 4096 in
theorem calcActions_no_exit (mode : Mode) (m : MeshIn) :
    Action.createForceSets ∉ calcActions mode m ∧ Action.createForceConstants ∉ calcActions mode m ∧
    Action.symmetryInfo ∉ calcActions mode m ∧ Action.displacements ∉ calcActions mode m ∧
    Action.randomDisplacementsAtT ∉ calcActions mode m ∧ Action.forceConstants ∉ calcActions mode m ∧
    Action.finalize ∉ calcActions mode m := by
  obtain ⟨a, b, c, d, e, f, g⟩ := m
  cases mode <;> (revert a b c d e f g; decide)

/-- **run-mode table of `main`**: an early exit does exactly one thing; otherwise the force constants come
first, finite-temperature random displacements end the run, and only then the run mode is dispatched
and the summary file written last. -/
theorem runmode_table (s : EarlyIn) (mode : Mode) (m : MeshIn) :
    (∀ a, earlyExit s = some a → mainActions s mode m = [a]) ∧
    (earlyExit s = none → ∀ a, lateExit s = some a → mainActions s mode m = [.forceConstants, a]) ∧
    (earlyExit s = none → lateExit s = none →
      mainActions s mode m = .forceConstants :: (calcActions mode m ++ [.finalize])) ∧
    (Action.finalize ∈ mainActions s mode m ↔ earlyExit s = none ∧ lateExit s = none) ∧
    (∀ a ∈ calcActions mode m, a ∈ mainActions s mode m ↔ earlyExit s = none ∧ lateExit s = none) := by
  have hce := calcActions_no_exit mode m
  refine ⟨?_, ?_, ?_, ?_, ?_⟩
  · intro a h; simp [mainActions, h]
  · intro h a h'; simp [mainActions, h, h']
  · intro h h'; simp [mainActions, h, h']
  · rcases earlyExit_cases s with h | h | h | h | h
    · rcases lateExit_cases s with h' | h'
      · simp [mainActions, h, h']
      · simp [mainActions, h, h']
    all_goals simp [mainActions, h]
  · intro a ha
    rcases earlyExit_cases s with h | h | h | h | h
    · rcases lateExit_cases s with h' | h'
      · simp [mainActions, h, h', ha]
      · simp only [mainActions, h, h', List.mem_cons, List.not_mem_nil, or_false, reduceCtorEq, and_false, iff_false, not_or]
        constructor
        · rintro rfl; exact hce.2.2.2.2.2.1 ha
        · rintro rfl; exact hce.2.2.2.2.1 ha
    · simp only [mainActions, h, List.mem_singleton, reduceCtorEq, false_and, iff_false]
      rintro rfl; exact hce.1 ha
    · simp only [mainActions, h, List.mem_singleton, reduceCtorEq, false_and, iff_false]
      rintro rfl; exact hce.2.1 ha
    · simp only [mainActions, h, List.mem_singleton, reduceCtorEq, false_and, iff_false]
      rintro rfl; exact hce.2.2.1 ha
    · simp only [mainActions, h, List.mem_singleton, reduceCtorEq, false_and, iff_false]
      rintro rfl; exact hce.2.2.2.1 ha

/-- **default force-constants calculator**: `symfc` exactly for `phonopy-load` with `fc_symmetry` on
and no calculator chosen; `traditional` otherwise when none is chosen; a chosen known one is kept. -/
theorem fc_calculator_default (fcSymmetry load : Bool) (fc : Option (Option Nat)) :
    (fcCalculator none fcSymmetry load = some 1 ↔ fcSymmetry = true ∧ load = true) ∧
    (fcCalculator none fcSymmetry load = some 0 ↔ ¬ (fcSymmetry = true ∧ load = true)) ∧
    (∀ i, fcCalculator (some (some i)) fcSymmetry load = some i) ∧
    (fcCalculator (some none) fcSymmetry load = none) := by
  cases fcSymmetry <;> cases load <;> simp [fcCalculator]

example : mainActions ⟨false, false, false, true, false, false, false, false⟩ .mesh ⟨true, false, false, false, false, false, false⟩
    = [.displacements] := by decide
example : mainActions ⟨false, false, false, false, false, false, false, false⟩ .bandMesh ⟨true, true, false, false, true, false, false⟩
    = [.forceConstants, .band, .meshIter, .thermalProperties, .finalize] := by decide


/-! ## per-key value parsers (`Model/SettingsKeys.lean`) -/

section Keys
open PhononModel.SettingsKeys

/-- `int()` reads the decimal representation of an integer back (both signs) -/
theorem pyInt_decimal (n : Nat) :
    pyInt (decimal n) = .ok (n : Int) ∧ pyInt ('-' :: decimal n) = .ok (-(n : Int)) ∧ pyInt ('+' :: decimal n) = .ok (n : Int) := by
  refine ⟨?_, ?_, ?_⟩
  · simp [pyInt, signed_decimal, natVal_decimal]
  · simp [pyInt, signed, natVal_decimal]
  · simp [pyInt, signed, natVal_decimal]

/-- `float()` of a plain decimal integer string is that integer -/
theorem pyFloat_decimal (n : Nat) : pyFloat (decimal n) = .ok (n : Rat) := by
  have hplain : ∀ c ∈ decimal n, (c == 'e' || c == 'E') = false ∧ (c == '.') = false := by
    intro c hc
    obtain ⟨d, hd, rfl⟩ := decimal_chars n c hc
    have := digitChar_plain d hd
    simp [this.1, this.2.1, this.2.2.1]
  simp only [pyFloat, signed_decimal]
  rw [breakAt_none _ _ (fun c hc => (hplain c hc).1)]
  simp only [mantissa]
  rw [breakAt_none _ _ (fun c hc => (hplain c hc).2)]
  simp [natVal_decimal]

/-- **the fraction parser returns the exact rational**: `fracval "a/b" = a / b` for `b ≠ 0` -/
theorem fracval_exact (a b : Nat) (hb : b ≠ 0) :
    fracval (decimal a ++ '/' :: decimal b) = .ok ((a : Rat) / (b : Rat)) := by
  have hns : ∀ n, ∀ c ∈ decimal n, c ≠ '/' := by
    intro n c hc
    obtain ⟨d, hd, rfl⟩ := decimal_chars n c hc
    exact (digitChar_plain d hd).2.2.2.1
  have hc : (decimal a ++ '/' :: decimal b).contains '/' = true := by simp
  unfold fracval
  rw [if_pos hc, splitOn_append_sep '/' _ _ (hns a), splitOn_no_sep '/' _ (hns b)]
  have hb' : ((b : Rat) = 0) = False := by simp [hb]
  simp [pyFloat_decimal, hb', bind, Except.bind]

/-- … and a zero denominator is an (uncaught) error, not a value -/
theorem fracval_zero_denominator (a : Nat) : fracval (decimal a ++ '/' :: decimal 0) = .error .exc := by
  have hns : ∀ n, ∀ c ∈ decimal n, c ≠ '/' := by
    intro n c hc
    obtain ⟨d, hd, rfl⟩ := decimal_chars n c hc
    exact (digitChar_plain d hd).2.2.2.1
  have hc : (decimal a ++ '/' :: decimal 0).contains '/' = true := by simp
  unfold fracval
  rw [if_pos hc, splitOn_append_sep '/' _ _ (hns a), splitOn_no_sep '/' _ (hns 0)]
  simp [pyFloat_decimal, bind, Except.bind]

/-- without a slash `fracval` is `float` -/
theorem fracval_no_slash (s : List Char) (h : s.contains '/' = false) : fracval s = pyFloat s := by
  unfold fracval
  rw [if_neg (by rw [h]; simp)]

/-- `DIM` with three integers is the diagonal matrix (rejected unless the determinant is ≥ 1) -/
theorem dim_three (a b c : Int) :
    dimOfInts [a, b, c] = if a * b * c < 1 then .error .exit else .ok [a, 0, 0, 0, b, 0, 0, 0, c] := by
  have : det9 [a, 0, 0, 0, b, 0, 0, 0, c] = a * b * c := by simp [det9]; ring
  simp [dimOfInts, dimShape, diag9, this, bind, Except.bind]

/-- `DIM` with nine integers is the row-major matrix (rejected unless the determinant is ≥ 1) -/
theorem dim_nine (a b c d e f g h i : Int) :
    dimOfInts [a, b, c, d, e, f, g, h, i] =
      if a * (e * i - f * h) - b * (d * i - f * g) + c * (d * h - e * g) < 1 then .error .exit else .ok [a, b, c, d, e, f, g, h, i] := by
  by_cases hd : a * (e * i - f * h) - b * (d * i - f * g) + c * (d * h - e * g) < 1 <;>
    simp [dimOfInts, dimShape, det9, bind, Except.bind, hd]

/-- any other number of integers is rejected with `setting_error` -/
theorem dim_wrong_count (v : List Int) (h3 : v.length ≠ 3) (h9 : v.length ≠ 9) : dimOfInts v = .error .exit := by
  simp [dimOfInts, dimShape, h3, h9, bind, Except.bind]

/-- the string level is the token level: `parseDim` of blank-joined tokens -/
theorem parseDim_tokens (toks : List (List Char)) (h : ∀ t ∈ toks, t ≠ [] ∧ ∀ c ∈ t, isSpace c = false) :
    parseDim (joinSp toks) = (toks.mapM pyInt).bind dimOfInts := by
  unfold parseDim; rw [splitWs_joinSp toks h]

example : parseDim (joinSp [decimal 2, decimal 3, '-' :: decimal 1]) = .error .exit := by decide
example : parseDim ['2', ' ', '2', ' ', '2'] = .ok [2, 0, 0, 0, 2, 0, 0, 0, 2] ∧ parseDim ['0', ' ', '1', ' ', '1', ' ', '1', ' ', '0', ' ', '1', ' ', '1', ' ', '1', ' ', '0'] = .ok [0, 1, 1, 1, 0, 1, 1, 1, 0] ∧
    parseDim ['2', ' ', '2'] = .error .exit ∧ parseDim ['2', ' ', 'x', ' ', '2'] = .error .exc := by decide

/-- `MESH`: one token is a length (`float`), three or nine tokens are integers, 0/2 or any other count is rejected -/
theorem mesh_cases (t : List (List Char)) :
    (t.length = 0 ∨ t.length = 2 → meshOfToks t = .error .exit) ∧
    (t.length = 3 → meshOfToks t = (t.mapM pyInt).map MeshVal.three) ∧
    (t.length = 9 → meshOfToks t = (t.mapM pyInt).map MeshVal.nine) ∧
    (3 < t.length → t.length ≠ 9 → meshOfToks t = .error .exit) ∧
    (∀ x, t = [x] → meshOfToks t = (pyFloat x).map MeshVal.length) := by
  refine ⟨?_, ?_, ?_, ?_, ?_⟩
  · rintro (h | h) <;> simp [meshOfToks, h]
  · intro h; simp [meshOfToks, h]
  · intro h; simp [meshOfToks, h]
  · intro h h9
    have h1 : t.length ≠ 1 := by omega
    have h2 : ¬ t.length < 3 := by omega
    have h3 : t.length ≠ 3 := by omega
    simp [meshOfToks, h1, h2, h3, h9]
  · rintro x rfl
    cases hx : pyFloat x <;> simp [meshOfToks, List.mapM_cons, List.mapM_nil, hx, bind, Except.bind, Except.map, pure, Except.pure]

/-- **count law of `BAND`**: an accepted value has one path per comma-separated section, every path consists of
points with three coordinates, and a section with `3k` numbers (`k ≥ 2`) gives `k` points that list exactly those numbers -/
theorem band_count_law (secs : List (List Char)) (paths : List (List (List Rat))) (h : bandSections secs = .ok paths) :
    paths.length = secs.length := mapM_ok_length bandSection secs paths h

theorem band_section_law (sec : List Char) (pts : List (List Rat)) (h : bandSection sec = .ok pts) :
    ∃ nums, (splitWs sec).mapM fracval = .ok nums ∧ nums.length % 3 = 0 ∧ 6 ≤ nums.length ∧
      pts.length = nums.length / 3 ∧ pts.flatten = nums ∧ ∀ p ∈ pts, p.length = 3 := by
  unfold bandSection at h
  cases hm : (splitWs sec).mapM fracval with
  | error e => rw [hm] at h; cases h
  | ok nums =>
    rw [hm] at h
    simp only [Except.bind] at h
    by_cases hbad : nums.length % 3 ≠ 0 ∨ nums.length < 6
    · simp [hbad] at h
    · simp only [hbad, if_false, Except.ok.injEq] at h
      subst h
      have h3 : nums.length % 3 = 0 := by omega
      exact ⟨nums, rfl, h3, by omega, chunk3_length nums, chunk3_flatten nums h3, chunk3_all3 nums⟩

/-- a section whose number count is not a multiple of three, or below six, is rejected with `setting_error` -/
theorem band_section_rejects (sec : List Char) (nums : List Rat) (hm : (splitWs sec).mapM fracval = .ok nums)
    (hbad : nums.length % 3 ≠ 0 ∨ nums.length < 6) : bandSection sec = .error .exit := by
  simp [bandSection, hm, hbad, bind, Except.bind]

/-- **concatenation law of `BAND`**: the sections are parsed independently and in order -/
theorem band_concat_law (s1 s2 : List (List Char)) :
    bandSections (s1 ++ s2) = (bandSections s1).bind (fun a => (bandSections s2).map (fun b => a ++ b)) := by
  unfold bandSections
  rw [List.mapM_append]
  cases List.mapM bandSection s1 <;> cases List.mapM bandSection s2 <;> rfl

example : parseBand ['0', ' ', '0', ' ', '0', ' ', '1', '/', '2', ' ', '0', ' ', '0', ',', ' ', '1', '/', '2', ' ', '1', '/', '2', ' ', '0', ' ', '0', ' ', '0', ' ', '0', ' ', '0', ' ', '0', ' ', '.', '5'] =
    .ok (.paths [[[0, 0, 0], [1/2, 0, 0]], [[1/2, 1/2, 0], [0, 0, 0], [0, 0, 1/2]]]) := by decide +kernel
example : parseBand [' ', 'A', 'u', 'T', 'o'] = .ok .auto ∧ parseBand ['0', ' ', '0', ' ', '0', ' ', '1', '/', '2'] = .error .exit ∧
    parseBand ['0', ' ', '0', ' ', '0', ' ', '1', '/', '0', ' ', '0', ' ', '0'] = .error .exc := by decide

/-- **the centring letters**: `P F I A C R` are accepted in either case and mean the matrices of
`get_primitive_matrix_by_centring`, whose determinant is one over the number of lattice points of the conventional cell -/
theorem centring_letters :
    (∀ c ∈ centringLetters, parsePA [c] = .ok (.letter c) ∧ parsePA [c.toLower] = .ok (.letter c)) ∧
    (∀ c ∈ centringLetters, ∃ m, centring c = some m ∧ m.length = 9 ∧ det9 m * (latticePoints c : Rat) = 1) := by
  constructor
  · decide
  · intro c hc
    simp only [centringLetters, List.mem_cons, List.mem_nil_iff, or_false] at hc
    rcases hc with rfl | rfl | rfl | rfl | rfl | rfl <;>
      exact ⟨_, rfl, rfl, by norm_num [det9, latticePoints]⟩

/-- other one-letter values fall through to the nine-numbers form and are rejected -/
example : parsePA ['Q'] = .error .exit ∧ parsePA ['P', 'F'] = .error .exit ∧ centring 'Q' = none := by decide

/-- **the boolean spellings**: exactly the strings that lower-case to `.true.` / `.false.` are accepted; every other
value leaves the parameter unset (no error) -/
theorem bool_spellings (s : List Char) :
    (parseBool s = some true ↔ lower s = ".true.".toList) ∧
    (parseBool s = some false ↔ lower s = ".false.".toList) ∧
    (parseBool s = none ↔ lower s ≠ ".true.".toList ∧ lower s ≠ ".false.".toList) ∧
    (∀ t, lower t = lower s → parseBool t = parseBool s) := by
  refine ⟨?_, ?_, ?_, ?_⟩
  · unfold parseBool; split <;> [simp_all; (split <;> simp_all)]
  · unfold parseBool
    split
    · next h => simp [h]
    · split <;> simp_all
  · unfold parseBool; split <;> [simp_all; (split <;> simp_all)]
  · intro t ht; unfold parseBool; rw [ht]

example : [['.', 'T', 'R', 'U', 'E', '.'], ['.', 't', 'r', 'u', 'e', '.'], ['.', 'T', 'r', 'u', 'e', '.'], ['.', 't', 'R', 'u', 'E', '.']].all (fun s => parseBool s == some true) = true ∧
    [['.', 'F', 'A', 'L', 'S', 'E', '.'], ['.', 'f', 'a', 'l', 's', 'e', '.'], ['.', 'f', 'A', 'l', 'S', 'e', '.']].all (fun s => parseBool s == some false) = true ∧
    [['T', 'R', 'U', 'E'], ['.', 'T', '.'], ['t', 'r', 'u', 'e'], ['1'], [], ['.', 't', 'r', 'u', 'e']].all (fun s => parseBool s == none) = true := by decide

/-- **`PDOS`**: one group per comma-separated section, indices shifted from 1-based to 0-based -/
theorem pdos_laws (s : List Char) (g : List (List Int)) (h : parsePdos s = .ok (.groups g)) :
    g.length = (splitOn ',' s).length := by
  unfold parsePdos at h
  split at h
  · cases h
  · cases hm : (splitOn ',' s).mapM pdosGroup with
    | error e => rw [hm] at h; cases h
    | ok w =>
      rw [hm] at h
      simp only [Except.map, Except.ok.injEq, PdosVal.groups.injEq] at h
      subst h
      exact mapM_ok_length pdosGroup _ _ hm

theorem pdos_group_shift (toks : List (List Char)) (v : List Int) (h : ∀ t ∈ toks, t ≠ [] ∧ ∀ c ∈ t, isSpace c = false)
    (hv : toks.mapM pyInt = .ok v) : pdosGroup (joinSp toks) = .ok (v.map (fun i => i - 1)) := by
  unfold pdosGroup; rw [splitWs_joinSp toks h, hv]; rfl

example : parsePdos ['1', ' ', '2', ',', ' ', '3', ' ', '4', ' ', '5'] = .ok (.groups [[0, 1], [2, 3, 4]]) ∧ parsePdos ['A', 'U', 'T', 'O'] = .ok .auto ∧
    parsePdos ['1', ' ', 'x'] = .error .exc := by decide

end Keys

end PhononModel.C18

#print axioms PhononModel.C18.option_overrides_file
#print axioms PhononModel.C18.absent_option_keeps_file_attr
#print axioms PhononModel.C18.absent_option_keeps_file
#print axioms PhononModel.C18.merge_order_free
#print axioms PhononModel.C18.file_last_wins
#print axioms PhononModel.C18.file_tag_sets_attr
#print axioms PhononModel.C18.numeric_option_value_applies
#print axioms PhononModel.C18.numeric_option_reaches_attr
#print axioms PhononModel.C18.isolated_tag_frame
#print axioms PhononModel.C18.gen_prog_guarded
#print axioms PhononModel.C18.truthiness_test_drops_zero
#print axioms PhononModel.C18.not_none_test_keeps_zero
#print axioms PhononModel.C18.gen_simple_cover
#print axioms PhononModel.C18.simpleBindings_sound
#print axioms PhononModel.C18.gen_option_overrides_file
#print axioms PhononModel.C18.gen_absent_option_keeps_file
#print axioms PhononModel.C18.gen_unique_opt_tags
#print axioms PhononModel.C18.table_total
#print axioms PhononModel.C18.runmode_early_table
#print axioms PhononModel.C18.runmode_calc_table
#print axioms PhononModel.C18.runmode_table
#print axioms PhononModel.C18.fc_calculator_default
#print axioms PhononModel.C18.pyInt_decimal
#print axioms PhononModel.C18.pyFloat_decimal
#print axioms PhononModel.C18.fracval_exact
#print axioms PhononModel.C18.fracval_zero_denominator
#print axioms PhononModel.C18.fracval_no_slash
#print axioms PhononModel.C18.dim_three
#print axioms PhononModel.C18.dim_nine
#print axioms PhononModel.C18.dim_wrong_count
#print axioms PhononModel.C18.parseDim_tokens
#print axioms PhononModel.C18.mesh_cases
#print axioms PhononModel.C18.band_count_law
#print axioms PhononModel.C18.band_section_law
#print axioms PhononModel.C18.band_section_rejects
#print axioms PhononModel.C18.band_concat_law
#print axioms PhononModel.C18.centring_letters
#print axioms PhononModel.C18.bool_spellings
#print axioms PhononModel.C18.pdos_laws
#print axioms PhononModel.C18.pdos_group_shift
