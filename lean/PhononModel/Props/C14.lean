import PhononModel.Lemmas.AccessPaths
import Mathlib.Data.List.Perm.Basic
import Mathlib.Data.List.Range
import Mathlib.Data.List.Count
import Mathlib.Algebra.Order.Floor.Ring
import Mathlib.Data.Rat.Floor
import Mathlib.Tactic.Linarith
import Mathlib.Tactic.FieldSimp
import Mathlib.Tactic.Ring
/-!
# C14 — one spectrum through every access path

Theorems about `PhononModel/Model/AccessPaths.lean` (all option combinations, all q-point lists,
both builds).  `Rev.fixed` is the repaired text of the three defect sites, `Rev.pinned` the text of
the pinned tree; `./check C14` establishes on every run which one the code in /repo behaves as and
compares all 16 option combinations × 5 paths × 2 builds with the model at that revision.
-/
namespace PhononModel.C14
open PhononModel.Access

/-! ### paths_agree -/

/-- the full statement: every path, every option set, both builds, every q-point list returns
exactly the fields of the spec spectrum (band connection: re-ordered by the per-q band order) -/
def FullStatementPathsAgree (rev : Rev) : Prop :=
  ∀ (p : Path) (omp : Bool) (o : Opts) (ord : Nat → List Nat) (qs : List Nat),
    runPath rev p omp o ord qs = .ok (specPath p o ord qs)

/-- the option/path combinations on which a revision is *not* claimed to agree -/
def Excluded (rev : Rev) (p : Path) (omp : Bool) (o : Opts) : Prop :=
  (rev.f1 = false ∧ p = Path.qpoints ∧ omp = true ∧ o.eigvecs = true ∧ o.dm = true) ∨
  (rev.iter = false ∧ p = Path.iterMesh ∧ o.eigvecs = false)

instance (rev : Rev) (p : Path) (omp : Bool) (o : Opts) : Decidable (Excluded rev p omp o) := by
  unfold Excluded; infer_instance

theorem runRow_partial (rev : Rev) (p : Path) (omp : Bool) (o : Opts) (ord : List Nat) (q : Nat)
    (h : ¬ Excluded rev p omp o) : runRow rev p omp o ord q = .ok (specRow p o ord q) := by
  obtain ⟨f1, f12, it⟩ := rev
  obtain ⟨e, g, d, c⟩ := o
  cases p <;> cases omp <;> cases f1 <;> cases it <;> cases e <;> cases g <;> cases d <;> cases c <;>
    first
    | rfl
    | (exfalso; apply h; simp [Excluded])

theorem mapM_ok {α β ε : Type} (f : α → Except ε β) (g : α → β) (l : List α)
    (h : ∀ a ∈ l, f a = .ok (g a)) : l.mapM f = .ok (l.map g) := by
  induction l with
  | nil => rfl
  | cons a l ih =>
    have h1 := h a (List.mem_cons_self ..)
    have h2 := ih (fun b hb => h b (List.mem_cons_of_mem _ hb))
    simp [List.mapM_cons, h1, h2, bind, Except.bind, pure, Except.pure]

/-- **paths_agree_partial**: at any revision, outside the excluded combinations -/
theorem paths_agree_partial (rev : Rev) (p : Path) (omp : Bool) (o : Opts) (ord : Nat → List Nat)
    (qs : List Nat) (h : ¬ Excluded rev p omp o) :
    runPath rev p omp o ord qs = .ok (specPath p o ord qs) := by
  unfold runPath specPath
  exact mapM_ok _ _ qs (fun q _ => runRow_partial rev p omp o (ord q) q h)

/-- **paths_agree**: the repaired text agrees on everything -/
theorem paths_agree : FullStatementPathsAgree Rev.fixed := by
  intro p omp o ord qs
  apply paths_agree_partial
  unfold Excluded Rev.fixed
  simp

/-- **qpoints_alias_counterexample** (F1): on the pinned text the full statement is false —
OpenMP build, eigenvectors and dynamical matrices requested together -/
theorem qpoints_alias_counterexample : ¬ FullStatementPathsAgree Rev.pinned := by
  intro h
  have := h Path.qpoints true ⟨true, false, true, false⟩ (fun _ => []) [0]
  revert this
  decide

/-- what the pinned text returns there: the eigenvectors twice -/
theorem qpoints_alias_returns_eigvecs_twice (g c : Bool) (q : Nat) :
    (qpointsRow Rev.pinned true ⟨true, g, true, c⟩ q).dm = some (Val.vecs (Val.D q)) ∧
    (qpointsRow Rev.pinned true ⟨true, g, true, c⟩ q).eigvecs = some (Val.vecs (Val.D q)) := by
  constructor <;> rfl

/-- the exclusion of `paths_agree_partial` is exact: every excluded combination really disagrees -/
theorem excluded_exact (rev : Rev) (p : Path) (omp : Bool) (o : Opts) (ord : List Nat) (q : Nat)
    (h : Excluded rev p omp o) : runRow rev p omp o ord q ≠ .ok (specRow p o ord q) := by
  obtain ⟨f1, f12, it⟩ := rev
  obtain ⟨e, g, d, c⟩ := o
  unfold Excluded at h
  rcases h with ⟨h1, h2, h3, h4, h5⟩ | ⟨h1, h2, h3⟩
  · simp only at h1 h4 h5; subst h1 h2 h3 h4 h5
    intro hh
    simp [runRow, qpointsRow, specRow, Store.write] at hh
  · simp only at h1 h3; subst h1 h2 h3
    intro hh
    simp [runRow, iterMeshRow] at hh

/-- IterMesh without eigenvectors raises on the pinned text -/
theorem iter_mesh_unbound_counterexample (g d c : Bool) (q : Nat) :
    iterMeshRow Rev.pinned ⟨false, g, d, c⟩ q = .error Err.unbound := rfl

/-! ### options_independent -/

/-- the value of each output depends only on its own request flag (and, on band paths, on the band
connection flag which re-orders all outputs) -/
def OptionsIndependent (rev : Rev) (p : Path) (omp : Bool) : Prop :=
  ∀ (o o' : Opts) (ord : List Nat) (q : Nat),
    let r := runRow rev p omp o ord q
    let r' := runRow rev p omp o' ord q
    (o.conn = o'.conn → r.map (·.freqs) = r'.map (·.freqs)) ∧
    (o.conn = o'.conn → o.eigvecs = o'.eigvecs → r.map (·.eigvecs) = r'.map (·.eigvecs)) ∧
    (o.dm = o'.dm → r.map (·.dm) = r'.map (·.dm)) ∧
    (o.conn = o'.conn → o.gv = o'.gv → r.map (·.gv) = r'.map (·.gv))

def FullStatementOptionsIndependent (rev : Rev) : Prop := ∀ p omp, OptionsIndependent rev p omp

theorem options_independent_of_agree (rev : Rev) (p : Path) (omp : Bool)
    (h : ∀ o, ¬ Excluded rev p omp o) : OptionsIndependent rev p omp := by
  intro o o' ord q
  simp only [runRow_partial rev p omp o ord q (h o), runRow_partial rev p omp o' ord q (h o'), Except.map]
  obtain ⟨e, g, d, c⟩ := o
  obtain ⟨e', g', d', c'⟩ := o'
  refine ⟨?_, ?_, ?_, ?_⟩
  · intro h1; simp only at h1; subst h1; rfl
  · intro h1 h2; simp only at h1 h2; subst h1 h2; rfl
  · intro h1; simp only at h1; subst h1; rfl
  · intro h1 h2; simp only at h1 h2; subst h1 h2; rfl

/-- **options_independent**: repaired text, all 2⁴ × 2⁴ option pairs, all paths, both builds -/
theorem options_independent : FullStatementOptionsIndependent Rev.fixed := by
  intro p omp
  apply options_independent_of_agree
  intro o
  unfold Excluded Rev.fixed
  simp

/-- **options_independent_partial**: pinned text, everything except the OpenMP q-point path and IterMesh -/
theorem options_independent_partial (p : Path) (omp : Bool)
    (h : ¬ (p = Path.qpoints ∧ omp = true) ∧ p ≠ Path.iterMesh) : OptionsIndependent Rev.pinned p omp := by
  apply options_independent_of_agree
  intro o
  unfold Excluded Rev.pinned
  obtain ⟨h1, h2⟩ := h
  simp only [true_and, not_or, not_and]
  constructor
  · intro hp ho; exact absurd ⟨hp, ho⟩ h1
  · intro hp; exact absurd hp h2

/-- on the pinned text the returned dynamical matrix depends on whether eigenvectors were requested -/
theorem options_dependent_counterexample : ¬ FullStatementOptionsIndependent Rev.pinned := by
  intro h
  have := (h Path.qpoints true ⟨true, false, true, false⟩ ⟨false, false, true, false⟩ [] 0).2.2.1 rfl
  revert this
  decide

/-! ### init_mesh: stored and iterated meshes sample the same grid -/

def FullStatementSameGrid (rev : Rev) : Prop :=
  ∀ meshIsLength isGammaCenter, initMeshGamma rev meshIsLength isGammaCenter true
    = initMeshGamma rev meshIsLength isGammaCenter false

theorem iter_mesh_same_grid : FullStatementSameGrid Rev.fixed := by
  unfold FullStatementSameGrid; decide

theorem iter_mesh_same_grid_partial (isGammaCenter : Bool) :
    initMeshGamma Rev.pinned false isGammaCenter true = initMeshGamma Rev.pinned false isGammaCenter false := by
  cases isGammaCenter <;> rfl

/-- F12: length-specified mesh, `is_gamma_center=False`: stored mesh Γ-centred, iterated mesh not -/
theorem init_mesh_gamma_counterexample : ¬ FullStatementSameGrid Rev.pinned := by
  unfold FullStatementSameGrid; decide

/-! ### multi-segment band paths: every point is solved with its own segment's direction -/

/-- **band_direction_history_free**: the directions used on a segment (and on everything after it) do not
depend on the segments before it — in particular a first point shared with the previous segment is solved
again, with the new segment's direction -/
theorem band_direction_history_free (pre : List Seg) (s : Seg) (post : List Seg) (k : Nat) :
    bandDirsAux k (pre ++ s :: post)
      = bandDirsAux k pre ++ List.replicate s.npts (segDir (k + pre.length) s) :: bandDirsAux (k + pre.length + 1) post := by
  induction pre generalizing k with
  | nil => simp [bandDirsAux]
  | cons a pre ih =>
    simp only [List.cons_append, bandDirsAux, List.length_cons]
    rw [ih (k + 1)]
    have e1 : k + 1 + pre.length = k + (pre.length + 1) := by omega
    rw [e1]

/-- every point of segment `k` uses `segDir k`: its own direction when the segment passes through Γ, none otherwise -/
theorem band_point_own_direction (segs : List Seg) (k j : Nat) (hk : k < segs.length) (hj : j < (segs[k]).npts) :
    ((bandDirs segs).getD k []).getD j none = segDir k segs[k] := by
  have hsplit : segs = segs.take k ++ segs[k] :: segs.drop (k + 1) := by
    rw [List.getElem_cons_drop, List.take_append_drop]
  have hlen : (segs.take k).length = k := by simp [List.length_take, Nat.min_eq_left (Nat.le_of_lt hk)]
  have auxlen : ∀ (l : List Seg) (n : Nat), (bandDirsAux n l).length = l.length := by
    intro l; induction l with
    | nil => intro n; rfl
    | cons a l ih => intro n; simp [bandDirsAux, ih]
  unfold bandDirs
  conv_lhs => rw [hsplit]
  rw [band_direction_history_free, hlen]
  have hl2 : (bandDirsAux 0 (segs.take k)).length = k := by rw [auxlen, hlen]
  simp only [List.getD_eq_getElem?_getD]
  rw [List.getElem?_append_right (by omega), hl2]
  simp [hj]

/-! ### Γ with NAC, group velocities, writers: decision tables -/

/-- meshes never use an approach direction; q-point lists and the direct object use exactly the caller's;
band paths exactly the segment's; the same in both builds (the model has no build parameter here) -/
theorem gamma_direction_table :
    (∀ u s, freqGammaDir Path.mesh u s = GammaDir.none ∧ freqGammaDir Path.iterMesh u s = GammaDir.none) ∧
    (∀ s, freqGammaDir Path.qpoints true s = GammaDir.user ∧ freqGammaDir Path.qpoints false s = GammaDir.none) ∧
    (∀ s, freqGammaDir Path.direct true s = GammaDir.user ∧ freqGammaDir Path.direct false s = GammaDir.none) ∧
    (∀ u, freqGammaDir Path.band u true = GammaDir.segment ∧ freqGammaDir Path.band u false = GammaDir.none) := by decide

/-- only `run_qpoints` with a `nac_q_direction` perturbs the group-velocity calculation; everywhere else group
velocities are site-symmetry averaged — in particular on band paths, whose *frequencies* at Γ use the segment
direction while the group velocities do not -/
theorem gv_perturbation_table :
    (∀ p u, gvSymmetrized p u = true ↔ ¬ (p = Path.qpoints ∧ u = true)) ∧
    (∀ u, gvPerturbation Path.band u = GammaDir.none ∧ freqGammaDir Path.band u true = GammaDir.segment) := by
  constructor
  · intro p u; cases p <;> cases u <;> decide
  · intro u; cases u <;> exact ⟨rfl, rfl⟩

/-- **gv_call_history_free**: on one `Phonopy` instance every call computes its group velocities with its own
perturbation direction (the default when none is given), whatever calls came before and whatever state the cached
object was left in -/
theorem gv_call_history_free (calls : List GammaDir) (s : GvState) : gvSequence calls s = calls := by
  induction calls generalizing s with
  | nil => rfl
  | cons p rest ih => simp [gvSequence, gvRun, ih]

/-- in particular a call gives the same result after any history as on a fresh object -/
theorem gv_same_as_fresh (hist : List GammaDir) (p : GammaDir) (s : GvState) :
    (gvSequence (hist ++ [p]) s).getLast? = (gvSequence [p] ⟨GammaDir.none⟩).getLast? := by
  rw [gv_call_history_free, gv_call_history_free]; simp

/-- **writers_field_table**: a file contains exactly the optional fields the serialised result has (for the
repaired text: exactly the requested ones), and the yaml and hdf5 writers of one object agree — all 16 option sets -/
theorem writers_field_table :
    (∀ (w : Writer) (omp : Bool) (o : Opts) (ord : List Nat) (q : Nat),
        (runRow Rev.fixed w.path omp o ord q).map rowFields = .ok (written w o)) ∧
    (∀ o, written Writer.qpointsYaml o = written Writer.qpointsHdf5 o ∧ written Writer.meshYaml o = written Writer.meshHdf5 o ∧
          written Writer.bandYaml o = written Writer.bandHdf5 o) := by
  constructor
  · intro w omp o ord q
    obtain ⟨e, g, d, c⟩ := o
    cases w <;> cases omp <;> cases e <;> cases g <;> cases d <;> cases c <;> rfl
  · intro o; exact ⟨rfl, rfl, rfl⟩

/-! ### band connection only re-orders -/

theorem isPermB_sound {l : List Nat} {n : Nat} (h : isPermB l n = true) : l.Perm (List.range n) := by
  simp only [isPermB, Bool.and_eq_true, beq_iff_eq, List.all_eq_true, decide_eq_true_eq, List.mem_range] at h
  obtain ⟨⟨_, hlt⟩, hcnt⟩ := h
  rw [List.perm_iff_count]
  intro a
  by_cases ha : a < n
  · rw [hcnt a ha]
    simp [List.count_range, ha]
  · have h1 : a ∉ l := fun hm => ha (hlt a hm)
    have h2 : a ∉ List.range n := fun hm => ha (List.mem_range.mp hm)
    rw [List.count_eq_zero_of_not_mem h1, List.count_eq_zero_of_not_mem h2]

theorem reorder_range {α : Type} (d : α) (xs : List α) : reorder d (List.range xs.length) xs = xs := by
  unfold reorder
  apply List.ext_getElem
  · simp
  · intro i h1 h2
    simp [List.getD_eq_getElem?_getD, h2]

theorem reorder_perm {α : Type} (d : α) (order : List Nat) (xs : List α)
    (h : order.Perm (List.range xs.length)) : (reorder d order xs).Perm xs := by
  have := h.map (fun i => xs.getD i d)
  rw [show (List.range xs.length).map (fun i => xs.getD i d) = xs from reorder_range d xs] at this
  exact this

/-- **band_connection_perm**: a band order that passes the certificate leaves the per-q multiset of
frequencies unchanged -/
theorem band_connection_perm {α : Type} (d : α) (order : List Nat) (freqs : List α)
    (h : isPermB order freqs.length = true) : (reorder d order freqs).Perm freqs :=
  reorder_perm d order freqs (isPermB_sound h)

/-- composing with the previous band order keeps it a permutation -/
theorem bandOrder_perm {n : Nat} (conn prev : List Nat) (hc : conn.Perm (List.range n))
    (hp : prev.Perm (List.range n)) : (bandOrder conn prev).Perm (List.range n) := by
  unfold bandOrder
  have h1 := hp.map (fun x => conn.getD x 0)
  have hl : conn.length = n := by simpa using hc.length_eq
  have h2 : (List.range n).map (fun x => conn.getD x 0) = conn := by
    rw [← hl]; exact reorder_range 0 conn
  rw [h2] at h1
  exact h1.trans hc

/-- **connOrder_perm_of_pos**: for a square overlap matrix with strictly positive entries (the generic
situation: no eigenvector of one q-point is exactly orthogonal to one of the next) the greedy matching
of `estimate_band_connection` terminates normally and returns a permutation. -/
theorem connOrder_perm_of_pos (n : Nat) (m : List (List Rat)) (hm : m.length = n)
    (hpos : ∀ row ∈ m, row.length = n ∧ ∀ i, i < n → 0 < row.getD i 0) :
    ∃ c, connOrder? m = some c ∧ c.Perm (List.range n) := by
  obtain ⟨c, hc, hnd, hlt, hlen⟩ := connOrderAux_perm 0 n m [] none hpos List.nodup_nil (by simp) (by simpa using hm)
  exact ⟨c, hc, perm_range_of_nodup hnd hlt hlen⟩


/-- **band_connection_perm_fixed**: with the repaired initial value (`maxval = -1`) the greedy matching returns a
permutation for *every* square matrix of non-negative overlaps — exact zeros included -/
theorem band_connection_perm_fixed (n : Nat) (m : List (List Rat)) (hm : m.length = n)
    (hnn : ∀ row ∈ m, row.length = n ∧ ∀ i, i < n → 0 ≤ row.getD i 0) :
    ∃ c, connOrderFixed? m = some c ∧ c.Perm (List.range n) := by
  have hpos : ∀ row ∈ m, row.length = n ∧ ∀ i, i < n → (-1 : Rat) < row.getD i 0 := by
    intro row hr
    refine ⟨(hnn row hr).1, fun i hi => ?_⟩
    have := (hnn row hr).2 i hi
    linarith
  obtain ⟨c, hc, hnd, hlt, hlen⟩ := connOrderAux_perm (-1) n m [] none hpos List.nodup_nil (by simp) (by simpa using hm)
  exact ⟨c, hc, perm_range_of_nodup hnd hlt hlen⟩

/-- on the pinned text (`maxval = 0`) an exact zero overlap can make the matching return a band twice: the overlap
moduli of a 4×4 orthogonal matrix with one zero entry (found by random search, replayed on the code) -/
def zeroOverlapExample : List (List Rat) :=
  [[6049/10000, 2065/10000, 5327/10000, 5547/10000], [1043/10000, 4541/10000, 6651/10000, 5835/10000],
   [4630/10000, 6398/10000, 1562/10000, 5932/10000], [6394/10000, 5846/10000, 4994/10000, 0]]

theorem band_connection_zero_overlap_counterexample :
    connOrder? zeroOverlapExample = some [0, 2, 1, 1] ∧ isPermB [0, 2, 1, 1] 4 = false ∧
    connOrderFixed? zeroOverlapExample = some [0, 2, 1, 3] := by decide +kernel

/-! ### written precision -/

theorem rne_close (y : ℚ) : |((rne y : ℤ) : ℚ) - y| ≤ 1 / 2 := by
  have hf : (y.floor : ℤ) = ⌊y⌋ := rfl
  have h0 : ((⌊y⌋ : ℤ) : ℚ) ≤ y := Int.floor_le y
  have h1 : y < ((⌊y⌋ : ℤ) : ℚ) + 1 := Int.lt_floor_add_one y
  unfold rne
  simp only [hf]
  split_ifs with a b c
  · rw [abs_le]; constructor <;> linarith
  · push_cast; rw [abs_le]; constructor <;> linarith
  · rw [abs_le]; constructor <;> linarith
  · push_cast; rw [abs_le]; constructor <;> linarith

/-- **written_precision**: the number read back from a `%.{k}f` field is within half a unit of the
last printed place of the number written -/
theorem written_precision (k : Nat) (x : ℚ) : |writeK k x - x| ≤ 1 / (2 * 10 ^ k) := by
  have hp : (0 : ℚ) < 10 ^ k := by positivity
  have h := rne_close (x * 10 ^ k)
  unfold writeK
  have e : ((rne (x * 10 ^ k) : ℤ) : ℚ) / 10 ^ k - x = (((rne (x * 10 ^ k) : ℤ) : ℚ) - x * 10 ^ k) / 10 ^ k := by
    field_simp
  rw [e, abs_div, abs_of_pos hp, div_le_div_iff₀ hp (by positivity)]
  calc |((rne (x * 10 ^ k) : ℤ) : ℚ) - x * 10 ^ k| * (2 * 10 ^ k)
      ≤ (1 / 2) * (2 * 10 ^ k) := by apply mul_le_mul_of_nonneg_right h; positivity
    _ = 1 * 10 ^ k := by ring

/-! ### non-vacuity -/

example : runPath Rev.fixed Path.qpoints true ⟨true, true, true, false⟩ (fun _ => []) [3, 5]
    = .ok (specPath Path.qpoints ⟨true, true, true, false⟩ (fun _ => []) [3, 5]) := by decide
example : ¬ Excluded Rev.pinned Path.qpoints false ⟨true, true, true, true⟩ := by decide
example : Excluded Rev.pinned Path.qpoints true ⟨true, false, true, false⟩ := by decide
example : bandDirs [⟨true, 3⟩, ⟨true, 2⟩, ⟨false, 2⟩] = [[some 0, some 0, some 0], [some 1, some 1], [none, none]] := by decide
/-- a concrete overlap matrix: the greedy matching answers the swap, which passes the certificate -/
example : connOrder? [[1/10, 9/10], [9/10, 1/10]] = some [1, 0] := by decide +kernel
example : isPermB [1, 0] 2 = true := by decide
example : reorder (0 : Int) [1, 0] [7, 9] = [9, 7] := by decide
/-- an overlap matrix with a zero row remainder: the pinned greedy loop re-uses a stale index and the
certificate rejects the result (this is why `band_connection_perm` carries the certificate) -/
example : connOrder? [[0, 1], [0, 1]] = some [1, 1] ∧ isPermB [1, 1] 2 = false := by decide +kernel
example : connOrder? [[0, 0], [0, 1]] = none := by decide +kernel
/-- the hypotheses of `connOrder_perm_of_pos` are satisfiable -/
example : ∀ row ∈ [[(1:Rat)/10, 9/10], [9/10, 1/10]], row.length = 2 ∧ ∀ i, i < 2 → 0 < row.getD i 0 := by decide +kernel
example : writeK 2 (1234567 / 100000) = 1235 / 100 := by decide +kernel
example : writeK 0 (5 / 2) = 2 ∧ writeK 0 (7 / 2) = 4 := by decide +kernel

end PhononModel.C14

#print axioms PhononModel.C14.paths_agree
#print axioms PhononModel.C14.paths_agree_partial
#print axioms PhononModel.C14.qpoints_alias_counterexample
#print axioms PhononModel.C14.qpoints_alias_returns_eigvecs_twice
#print axioms PhononModel.C14.excluded_exact
#print axioms PhononModel.C14.iter_mesh_unbound_counterexample
#print axioms PhononModel.C14.options_independent
#print axioms PhononModel.C14.options_independent_partial
#print axioms PhononModel.C14.options_dependent_counterexample
#print axioms PhononModel.C14.iter_mesh_same_grid
#print axioms PhononModel.C14.iter_mesh_same_grid_partial
#print axioms PhononModel.C14.init_mesh_gamma_counterexample
#print axioms PhononModel.C14.band_direction_history_free
#print axioms PhononModel.C14.band_point_own_direction
#print axioms PhononModel.C14.gamma_direction_table
#print axioms PhononModel.C14.gv_perturbation_table
#print axioms PhononModel.C14.gv_call_history_free
#print axioms PhononModel.C14.gv_same_as_fresh
#print axioms PhononModel.C14.writers_field_table
#print axioms PhononModel.C14.isPermB_sound
#print axioms PhononModel.C14.band_connection_perm
#print axioms PhononModel.C14.bandOrder_perm
#print axioms PhononModel.C14.connOrder_perm_of_pos
#print axioms PhononModel.C14.band_connection_perm_fixed
#print axioms PhononModel.C14.band_connection_zero_overlap_counterexample
#print axioms PhononModel.C14.written_precision
