import PhononModel.Lemmas.EOS
import PhononModel.Model.QHA
import PhononModel.Gen.ThermalUnits
import PhononModel.Gen.Units
import Mathlib.Tactic.Ring
/-!
# C20 — equations of state and quasi-harmonic analysis

`EOS.vinet / birchMurnaghan / murnaghan` model `phonopy/qha/eos.py` term by term; here they are
instantiated with `Real.rpow`, `Real.exp`.  `QHA.*` model the bookkeeping of `phonopy/qha/core.py`.
Parameters `p = (E₀, B₀, B₀', V₀)` with `V₀ > 0` (and `B₀' ∉ {0, 1}` where the formula divides by it).
`./check C20` runs the same definitions at `Float` against `phonopy.qha.eos` and `PhonopyQHA`.
-/
set_option linter.unusedSectionVars false
set_option linter.unusedVariables false
namespace PhononModel.C20
open PhononModel PhononModel.EOS PhononModel.QHA Real Filter Topology

/-! ## the three equations of state: meaning of the parameters -/

/-- first / second volume derivative of each EOS as explicit functions -/
noncomputable def E1 (k : Kind) (P : EosParams ℝ) : ℝ → ℝ :=
  match k with
  | .vinet => vinE1 P
  | .birchMurnaghan => bmE1 P
  | .murnaghan => murE1 P

noncomputable def E2 (k : Kind) (P : EosParams ℝ) : ℝ → ℝ :=
  match k with
  | .vinet => vinE2 P
  | .birchMurnaghan => bmE2 P
  | .murnaghan => murE2 P

/-- admissible parameters: `V₀ > 0`, and `B₀' ≠ 0, 1` (Murnaghan divides by `B₀'` and `B₀' - 1`, Vinet by
`ξ = 3/2 (B₀' - 1)`) -/
structure Admissible (P : EosParams ℝ) : Prop where
  V0_pos : 0 < P.V0
  Bp_ne_zero : P.Bp ≠ 0
  Bp_ne_one : P.Bp ≠ 1

variable {P : EosParams ℝ} {v : ℝ}

theorem hasDerivAt_eval (k : Kind) (h : Admissible P) (hv : 0 < v) :
    HasDerivAt (eval envR k P) (E1 k P v) v := by
  cases k
  · exact vinet_hasDerivAt P h.V0_pos hv
  · exact bm_hasDerivAt P h.V0_pos hv
  · exact mur_hasDerivAt P h.V0_pos h.Bp_ne_zero h.Bp_ne_one hv

theorem hasDerivAt_E1 (k : Kind) (h : Admissible P) (hv : 0 < v) :
    HasDerivAt (E1 k P) (E2 k P v) v := by
  cases k
  · exact vinE1_hasDerivAt P h.V0_pos hv
  · exact bmE1_hasDerivAt P h.V0_pos hv
  · exact murE1_hasDerivAt P h.V0_pos h.Bp_ne_zero hv

theorem hasDerivAt_bulk (k : Kind) (h : Admissible P) :
    HasDerivAt (fun y => y * E2 k P y) (-(P.Bp * P.B0 / P.V0)) P.V0 := by
  cases k
  · exact vinet_bulk_hasDerivAt P h.V0_pos h.Bp_ne_one
  · exact bm_bulk_hasDerivAt P h.V0_pos
  · have := mur_bulk_hasDerivAt P h.V0_pos h.V0_pos
    rw [ratio_self h.V0_pos, mul_one] at this
    exact this

theorem E1_V0 (k : Kind) (h : Admissible P) : E1 k P P.V0 = 0 := by
  cases k
  · simp [E1, vinE1, vinPsi1, vinT_V0 P h.V0_pos]
  · simp [E1, bmE1, bmPhi1, bmY_V0 P h.V0_pos]
  · simp [E1, murE1, ratio_self h.V0_pos]

theorem E2_V0 (k : Kind) (h : Admissible P) : E2 k P P.V0 = P.B0 / P.V0 := by
  have hV := h.V0_pos
  have hV' : P.V0 ≠ 0 := ne_of_gt hV
  cases k
  · have hxi : vinXi P ≠ 0 := by
      unfold vinXi; intro h0
      exact h.Bp_ne_one (by linarith)
    simp only [E2, vinE2, vinPsi1, vinPsi2, vinT_V0 P hV, vinX_V0 P hV, vinU, vinK, Real.exp_zero]
    field_simp
    ring
  · simp only [E2, bmE2, bmPhi1, bmPhi2, bmY_V0 P hV, bmW]
    field_simp
    ring
  · simp [E2, murE2, ratio_self hV]

/-- **eos_at_V0** — `E(V₀) = E₀` -/
theorem eos_at_V0 (k : Kind) (h : Admissible P) : eval envR k P P.V0 = P.E0 := by
  have hV := h.V0_pos
  cases k
  · simp [eval, vinet_eq, vinPsi, vinT_V0 P hV]
  · simp [eval, bm_eq, bmPhi, bmY_V0 P hV]
  · have h1 : P.Bp - 1 ≠ 0 := sub_ne_zero.2 h.Bp_ne_one
    have h0 := h.Bp_ne_zero
    simp only [eval, murnaghan, envR, div_self (ne_of_gt hV), Real.one_rpow]
    field_simp
    ring

/-- **hasDerivAt_eos_V0** — zero pressure at `V₀`: `E'(V₀) = 0` -/
theorem hasDerivAt_eos_V0 (k : Kind) (h : Admissible P) : HasDerivAt (eval envR k P) 0 P.V0 := by
  have := hasDerivAt_eval k h h.V0_pos
  rwa [E1_V0 k h] at this

theorem deriv_eval_eventuallyEq (k : Kind) (h : Admissible P) (hv : 0 < v) :
    deriv (eval envR k P) =ᶠ[𝓝 v] E1 k P := by
  filter_upwards [eventually_gt_nhds hv] with y hy
  exact (hasDerivAt_eval k h hy).deriv

theorem deriv2_eval_eventuallyEq (k : Kind) (h : Admissible P) (hv : 0 < v) :
    deriv (deriv (eval envR k P)) =ᶠ[𝓝 v] E2 k P := by
  filter_upwards [eventually_gt_nhds hv] with y hy
  rw [(deriv_eval_eventuallyEq k h hy).deriv_eq]
  exact (hasDerivAt_E1 k h hy).deriv

/-- **bulk_modulus_V0** — `V₀ · E''(V₀) = B₀` -/
theorem bulk_modulus_V0 (k : Kind) (h : Admissible P) :
    P.V0 * deriv (deriv (eval envR k P)) P.V0 = P.B0 := by
  rw [(deriv2_eval_eventuallyEq k h h.V0_pos).eq_of_nhds, E2_V0 k h]
  field_simp [ne_of_gt h.V0_pos]

/-- **bulk_modulus_deriv_V0** — with `p(V) = -E'(V)` and `B(V) = V·E''(V)`:
`dB/dp = (dB/dV)/(dp/dV) = B₀'` at `V₀` (all three equations of state; `B₀ ≠ 0`). -/
theorem bulk_modulus_deriv_V0 (k : Kind) (h : Admissible P) (hB : P.B0 ≠ 0) :
    deriv (fun V => V * deriv (deriv (eval envR k P)) V) P.V0
      / deriv (fun V => -deriv (eval envR k P) V) P.V0 = P.Bp := by
  have hV := h.V0_pos
  have hnum : deriv (fun V => V * deriv (deriv (eval envR k P)) V) P.V0 = -(P.Bp * P.B0 / P.V0) := by
    have he : (fun V => V * deriv (deriv (eval envR k P)) V) =ᶠ[𝓝 P.V0] fun V => V * E2 k P V := by
      filter_upwards [deriv2_eval_eventuallyEq k h hV] with y hy
      rw [hy]
    rw [he.deriv_eq]
    exact (hasDerivAt_bulk k h).deriv
  have hden : deriv (fun V => -deriv (eval envR k P) V) P.V0 = -(P.B0 / P.V0) := by
    have he : (fun V => -deriv (eval envR k P) V) =ᶠ[𝓝 P.V0] fun V => -E1 k P V := by
      filter_upwards [deriv_eval_eventuallyEq k h hV] with y hy
      rw [hy]
    rw [he.deriv_eq]
    have := (hasDerivAt_E1 k h hV).neg
    rw [E2_V0 k h] at this
    exact this.deriv
  rw [hnum, hden]
  field_simp [ne_of_gt hV]

/-! ## fitting -/

theorem sumSq_nonneg (eos : ℝ → ℝ) (data : List (ℝ × ℝ)) : 0 ≤ sumSq eos data := by
  induction data with
  | nil => simp [sumSq]
  | cons d ds ih =>
    have : sumSq eos (d :: ds) = EOS.residual eos d.1 d.2 * EOS.residual eos d.1 d.2 + sumSq eos ds := rfl
    rw [this]
    have := mul_self_nonneg (EOS.residual eos d.1 d.2)
    linarith

theorem sumSq_exact (eos : ℝ → ℝ) (vs : List ℝ) : sumSq eos (vs.map fun v => (v, eos v)) = 0 := by
  induction vs with
  | nil => simp [sumSq]
  | cons d ds ih =>
    have : sumSq eos ((d :: ds).map fun v => (v, eos v))
        = EOS.residual eos d (eos d) * EOS.residual eos d (eos d) + sumSq eos (ds.map fun v => (v, eos v)) := rfl
    rw [this, ih]; simp [EOS.residual]

/-- **fit_residual_zero** — energies that are exactly an EOS with parameters `P` have zero residual at
`P`, and `P` is a global minimiser of the least-squares objective (over all parameter sets) -/
theorem fit_residual_zero (k : Kind) (P : EosParams ℝ) (vs : List ℝ) :
    sumSq (eval envR k P) (vs.map fun v => (v, eval envR k P v)) = 0 ∧
    ∀ P' : EosParams ℝ, sumSq (eval envR k P) (vs.map fun v => (v, eval envR k P v))
      ≤ sumSq (eval envR k P') (vs.map fun v => (v, eval envR k P v)) := by
  refine ⟨sumSq_exact _ _, fun P' => ?_⟩
  rw [sumSq_exact]
  exact sumSq_nonneg _ _

/-! ## pressure, electronic energies -/

/-- **pressure_sign** — adding `+P·V/c` (`c = EVAngstromToGPa > 0`) to an energy curve moves the stationary
volume to where the EOS pressure `-E'(V)·c` equals `P`; the model adds exactly this term; and for the
Murnaghan curve a positive pressure means a stationary volume below `V₀`. -/
theorem pressure_sign {E : ℝ → ℝ} {e' Pr c : ℝ} (hc : c ≠ 0) (hE : HasDerivAt E e' v) :
    (HasDerivAt (fun y => E y + y * Pr / c) 0 v ↔ Pr = -e' * c) ∧
    (∀ (nt nv : Nat) (vol : Fin nv → ℝ) (e : Fin nv → ℝ) (i : Fin nt) (j : Fin nv),
      elEnergy c vol (some Pr) (.static e : Electronic ℝ nt nv) i j = e j + vol j * Pr / c) := by
  refine ⟨?_, fun _ _ _ _ _ _ => rfl⟩
  have hG : HasDerivAt (fun y => E y + y * Pr / c) (e' + Pr / c) v := by
    have := hE.fun_add (((hasDerivAt_id' v).mul_const Pr).div_const c)
    simpa using this
  constructor
  · intro h0
    have := hG.unique h0
    field_simp at this
    linarith
  · intro hP
    have : e' + Pr / c = 0 := by rw [hP]; field_simp; ring
    rwa [this] at hG

theorem pressure_sign_murnaghan (h : Admissible P) (hB : 0 < P.B0) (hBp : 0 < P.Bp) {c Pr : ℝ} (hc : 0 < c)
    (hv : 0 < v) (hst : HasDerivAt (fun y => murnaghan envR P y + y * Pr / c) 0 v) : 0 < Pr ↔ v < P.V0 := by
  have hE := mur_hasDerivAt P h.V0_pos h.Bp_ne_zero h.Bp_ne_one hv
  have hP := ((pressure_sign (ne_of_gt hc) hE).1).1 hst
  have hpos : 0 < P.V0 / v := div_pos h.V0_pos hv
  rw [hP]
  unfold murE1
  have hkey : (1 < (P.V0 / v) ^ P.Bp) ↔ v < P.V0 := by
    rw [Real.one_lt_rpow_iff_of_pos hpos]
    constructor
    · rintro (⟨h1, _⟩ | ⟨_, h2⟩)
      · exact (one_lt_div hv).1 h1
      · linarith
    · intro hlt
      exact Or.inl ⟨(one_lt_div hv).2 hlt, hBp⟩
  rw [← hkey]
  have hcoef : 0 < P.B0 / P.Bp * c := by positivity
  constructor
  · intro hh
    by_contra hcon
    have : (P.V0 / v) ^ P.Bp ≤ 1 := not_lt.1 hcon
    nlinarith
  · intro hh
    nlinarith

/-- **electronic_per_temperature** — an electronic free energy of shape (T, V) is added row by row, one of
shape (V) is broadcast over temperatures (it equals the (T, V) array with identical rows); the phonon free
energy is converted from kJ/mol, the pressure term is added per volume. -/
theorem electronic_per_temperature {nt nv : Nat} (c1 c2 : ℝ) (vol : Fin nv → ℝ) (Pr : Option ℝ)
    (fph : Fin nt → Fin nv → ℝ) :
    (∀ (e : Fin nt → Fin nv → ℝ) i j, freeEnergy c1 c2 vol Pr (.perT e) fph i j
        = fph i j / c1 + (e i j + (match Pr with | none => 0 | some p => vol j * p / c2))) ∧
    (∀ (e : Fin nv → ℝ) i j, freeEnergy c1 c2 vol Pr (.static e) fph i j
        = freeEnergy c1 c2 vol Pr (.perT fun _ => e) fph i j) := by
  constructor
  · intro e i j
    cases Pr <;> simp [freeEnergy, elEnergy]
  · intro e i j
    rfl

/-- **repeated_construction** — the analysis copies its inputs: however many analyses are run on the same caller
arrays, each one sees `E_el + P·V/c` (the +PV term once); taking the inputs without a copy would add it `n + 1`
times in the `(n+1)`-th analysis, which differs as soon as `P·V ≠ 0` (the harness requires the caller's arrays
bit-identical after construction and `run()`, and equal results of repeated analyses). -/
theorem repeated_construction {nt nv : Nat} (c : ℝ) (vol : Fin nv → ℝ) (Pr : ℝ) (e : Fin nt → Fin nv → ℝ) (n : Nat) :
    (∀ i j, repeated (construct c vol (some Pr)) n (.perT e) i j = e i j + vol j * Pr / c) ∧
    (∀ i j, repeated (constructAliased c vol (some Pr)) n (.perT e) i j = e i j + (n + 1) * (vol j * Pr / c)) ∧
    (construct c vol (some Pr) (.perT e)).2 = .perT e := by
  refine ⟨?_, ?_, rfl⟩
  · induction n with
    | zero => intro i j; rfl
    | succ n ih => intro i j; exact ih i j
  · induction n generalizing e with
    | zero => intro i j; simp [repeated, constructAliased, elEnergy]
    | succ n ih =>
      intro i j
      have := ih (fun i j => elEnergy c vol (some Pr) (.perT e : Electronic ℝ nt nv) i j) i j
      simp only [repeated, constructAliased] at this ⊢
      rw [this]
      simp only [elEnergy]
      push_cast
      ring

/-! ## finite differences in temperature -/

/-- **central_difference_exact_quadratic** — on an equally spaced temperature grid the thermal-expansion
formula `(V[i+1]-V[i-1])/(T[i+1]-T[i-1])/V[i]` is exactly `V'(T_i)/V(T_i)` for every quadratic `V(T)`;
the heat-capacity formula `-2·a₂·T_i` (`a₂` = leading coefficient of the parabola through three
consecutive points of `G·EvTokJmol·1000`) is exactly `-T_i·g''` for every quadratic `G(T)` on *any*
grid of distinct temperatures; index 0 is 0 in both. -/
theorem central_difference_exact_quadratic (a b c T0 h : ℝ) (hh : h ≠ 0) (i : Nat) (hi : 1 ≤ i) :
    (let T : Nat → ℝ := fun k => T0 + k * h
     let V : Nat → ℝ := fun k => a + b * T k + c * T k ^ 2
     thermalExpansion T V i = (b + 2 * c * T i) / V i ∧ thermalExpansion T V 0 = 0) ∧
    (∀ (T : Nat → ℝ) (e th : ℝ), T (i - 1) ≠ T i → T i ≠ T (i + 1) → T (i - 1) ≠ T (i + 1) →
      let G : Nat → ℝ := fun k => a + b * T k + c * T k ^ 2
      cpNumerical e th T G i = -(2 * (c * e * th)) * T i ∧ cpNumerical e th T G 0 = 0) := by
  constructor
  · intro T V
    refine ⟨?_, by simp [thermalExpansion]⟩
    have hi0 : i ≠ 0 := by omega
    have hcast : ((i - 1 : Nat) : ℝ) = (i : ℝ) - 1 := by
      rw [Nat.cast_sub hi]; simp
    simp only [thermalExpansion, hi0, if_false, T, V, hcast, Nat.cast_add, Nat.cast_one]
    have h2 : (T0 + ((i:ℝ) + 1) * h - (T0 + ((i:ℝ) - 1) * h)) = 2 * h := by ring
    rw [h2]
    congr 1
    field_simp
    ring
  · intro T e th h01 h12 h02 G
    refine ⟨?_, by simp [cpNumerical]⟩
    have hi0 : i ≠ 0 := by omega
    have d01 : T i - T (i - 1) ≠ 0 := sub_ne_zero.2 (Ne.symm h01)
    have d12 : T (i + 1) - T i ≠ 0 := sub_ne_zero.2 (Ne.symm h12)
    have d02 : T (i + 1) - T (i - 1) ≠ 0 := sub_ne_zero.2 (Ne.symm h02)
    simp only [cpNumerical, hi0, if_false, quadCoeff, G]
    generalize T (i - 1) = t0 at *
    generalize T i = t1 at *
    generalize T (i + 1) = t2 at *
    field_simp
    ring

/-- number of fitted temperatures and public array length: all temperatures without `t_max`; never more than
are given; `t_max` selects (index of the temperature closest to it) + 2 points, capped; public arrays drop
the last fitted point. -/
theorem num_elems_spec (ts : List ℝ) :
    numElems ts none = ts.length ∧
    (∀ t, numElems ts (some t) = min (argminAbs ts t + 2) (max ts.length (argminAbs ts t + 1))) ∧
    (∀ n, outLen (n + 1) = n) := by
  refine ⟨?_, ?_, fun n => rfl⟩
  · simp [numElems]
  · intro t
    simp only [numElems]
    split_ifs with h <;> omega

/-- Grüneisen parameter: `γ = β·K_T / (C_V/V)` in consistent units, 0 at index 0 and when `C_V/V < 1e-10` -/
theorem gruneisen_spec (c1 c2 th tiny : ℝ) (i : Nat) (hi : i ≠ 0) (beta kt cv V : ℝ)
    (hcv : ¬ cv / V / th / c1 * c2 < tiny) :
    gruneisen c1 c2 th tiny i beta kt cv V = beta * kt / (cv / V / th / c1 * c2) ∧
    gruneisen c1 c2 th tiny 0 beta kt cv V = 0 := by
  simp [gruneisen, hi, hcv]

/-- unit of the pressure term: 1 eV/Å³ = `EV` J / 10⁻³⁰ m³ = `EV·10³⁰` Pa = `EV·10²¹` GPa, and
1 eV per cell = `EV·N_A/1000` kJ/mol (constants read from phonopy/units.py on every run) -/
theorem pressure_units :
    ThermalC.EVAngstromToGPa_q = ThermalC.EV_q * 10 ^ 30 / 10 ^ 9 ∧
    ThermalC.EvTokJmol_q = ThermalC.EV_q * ThermalC.Avogadro_q / 10 ^ 3 ∧
    0 < ThermalC.EVAngstromToGPa_q ∧ 0 < ThermalC.EvTokJmol_q := by
  refine ⟨?_, ?_, ?_, ?_⟩ <;>
  norm_num [ThermalC.EVAngstromToGPa_q, ThermalC.EvTokJmol_q, ThermalC.EV_q, ThermalC.Avogadro_q]

/-- **cp_numerical_exact_quadratic_nonuniform** — for `G(T)` exactly quadratic the numerical heat capacity
`-2·a₂·T_i` equals `-T_i·g''` on every grid of three distinct temperatures (three-point parabola exactness;
`g = G·EvTokJmol·1000`). -/
theorem cp_numerical_exact_quadratic_nonuniform (a b c e th : ℝ) (T : Nat → ℝ) (i : Nat) (hi : 1 ≤ i)
    (h01 : T (i - 1) ≠ T i) (h12 : T i ≠ T (i + 1)) (h02 : T (i - 1) ≠ T (i + 1)) :
    cpNumerical e th T (fun k => a + b * T k + c * T k ^ 2) i = -(T i) * (2 * c * e * th) := by
  have := ((central_difference_exact_quadratic a b c 0 1 one_ne_zero i hi).2 T e th h01 h12 h02).1
  rw [this]; ring

/-- **cp_polyfit_spec** — the ingredients of `heat_capacity_P_polyfit`: the quartic and its derivative as evaluated by the
code are a polynomial and its derivative (`dS/dV`), the three-point `dV/dT` is exact for quadratic `V(T)` on any
grid of distinct temperatures, and the result is `C_V(V_i) + T_i·(dV/dT)·(dS/dV)`; entry 0 is 0; the property
exists only for electronic energies of shape (V). -/
theorem cp_polyfit_spec (a b c d e : ℝ) :
    (∀ x, HasDerivAt (poly4 a b c d e) (dpoly4 a b c d x) x) ∧
    (∀ (p q r : ℝ) (T : Nat → ℝ) (i : Nat), T (i - 1) ≠ T i → T i ≠ T (i + 1) → T (i - 1) ≠ T (i + 1) →
      dvdtAt T (fun k => p + q * T k + r * T k ^ 2) i = q + 2 * r * T i) ∧
    (∀ (T V : Nat → ℝ) (cvc sc : Nat → Fin 5 → ℝ) (j : Nat), j ≠ 0 →
      cpPolyfit T V cvc sc j = poly4 (cvc j 0) (cvc j 1) (cvc j 2) (cvc j 3) (cvc j 4) (V j)
        + T j * dvdtAt T V j * dsdv V sc j) ∧
    (∀ (T V : Nat → ℝ) (cvc sc : Nat → Fin 5 → ℝ), cpPolyfit T V cvc sc 0 = 0) ∧
    (∀ (nt nv : Nat) (e1 : Fin nv → ℝ) (e2 : Fin nt → Fin nv → ℝ),
      cpPolyfitAvailable (.static e1 : Electronic ℝ nt nv) = true ∧ cpPolyfitAvailable (.perT e2) = false) := by
  refine ⟨?_, ?_, ?_, ?_, fun _ _ _ _ => ⟨rfl, rfl⟩⟩
  · intro x
    have hx := hasDerivAt_id' x
    have h4 := (((hx.fun_mul hx).fun_mul hx).fun_mul hx).const_mul a
    have h3 := ((hx.fun_mul hx).fun_mul hx).const_mul b
    have h2 := (hx.fun_mul hx).const_mul c
    have h1 := hx.const_mul d
    have := (((h4.fun_add h3).fun_add h2).fun_add h1).add_const e
    refine this.congr_deriv ?_
    unfold dpoly4; ring
  · intro p q r T i h01 h12 h02
    have d01 : T i - T (i - 1) ≠ 0 := sub_ne_zero.2 (Ne.symm h01)
    have d12 : T (i + 1) - T i ≠ 0 := sub_ne_zero.2 (Ne.symm h12)
    have d02 : T (i + 1) - T (i - 1) ≠ 0 := sub_ne_zero.2 (Ne.symm h02)
    simp only [dvdtAt, quadLin, quadCoeff]
    generalize T (i - 1) = t0 at *
    generalize T i = t1 at *
    generalize T (i + 1) = t2 at *
    field_simp
    ring
  · intro T V cvc sc j hj
    simp [cpPolyfit, dsdv, hj]
  · intro T V cvc sc
    simp [cpPolyfit]

/-- every finite-difference entry `i < len = num_elems - 1` with `i ≥ 1` reads only fitted points `i-1, i, i+1 < num_elems`
(the last fitted temperature serves only as the right neighbour), and `t_max` never selects more than the given
temperatures — for all arrays, since all are cut to `len` -/
theorem fd_reads_in_range (ts : List ℝ) (tmax : Option ℝ) (i : Nat) (hi : i < outLen (numElems ts tmax)) :
    i + 1 < numElems ts tmax ∧ numElems ts tmax ≤ max ts.length (numElems ts tmax) ∧
    (∀ t, numElems ts (some t) ≤ max ts.length (argminAbs ts t + 1)) := by
  refine ⟨?_, le_max_right _ _, fun t => ?_⟩
  · unfold outLen at hi; omega
  · rw [(num_elems_spec ts).2.1 t]; exact min_le_right _ _

open PhononModel.Units PhononModel.Gen.Units in
/-- **bulk_modulus_units_monomial** — in the exponent-vector algebra of the unit translator (Gen/Units.lean, regenerated
from units.py): `EVAngstromToGPa` is `EV / Å³ / 10⁹` (eV/Å³ → GPa, the factor of `bulk_modulus_temperature` and of the
`+PV` term), `EvTokJmol` is `EV·N_A/10³`, and the Grüneisen conversion `/1000/EvTokJmol*EVAngstromToGPa` of `C_V/V`
is `1/N_A / Å³ / 10⁹` (J/K/mol per Å³ → GPa/K). -/
theorem bulk_modulus_units_monomial :
    normEq EVAngstromToGPa (.div (.div EV (.pow Angstrom 3)) (.num 1 9)) = true ∧
    normEq EvTokJmol (.div (.mul EV Avogadro) (.num 1 3)) = true ∧
    normEq (.mul (.div (.div UExpr.one (.num 1 3)) EvTokJmol) EVAngstromToGPa)
      (.div (.div (.div UExpr.one Avogadro) (.pow Angstrom 3)) (.num 1 9)) = true := by
  decide +kernel

/-! ## non-vacuity -/

/-- silicon-like parameters are admissible for all three equations of state -/
example : Admissible (⟨-10.8, 0.55, 4.2, 40.0⟩ : EosParams ℝ) :=
  ⟨by norm_num, by norm_num, by norm_num⟩

example : ∃ (T : Nat → ℝ), T 0 ≠ T 1 ∧ T 1 ≠ T 2 ∧ T 0 ≠ T 2 := ⟨fun k => k, by norm_num, by norm_num, by norm_num⟩

end PhononModel.C20

#print axioms PhononModel.C20.eos_at_V0
#print axioms PhononModel.C20.hasDerivAt_eos_V0
#print axioms PhononModel.C20.bulk_modulus_V0
#print axioms PhononModel.C20.bulk_modulus_deriv_V0
#print axioms PhononModel.C20.fit_residual_zero
#print axioms PhononModel.C20.pressure_sign
#print axioms PhononModel.C20.pressure_sign_murnaghan
#print axioms PhononModel.C20.electronic_per_temperature
#print axioms PhononModel.C20.central_difference_exact_quadratic
#print axioms PhononModel.C20.num_elems_spec
#print axioms PhononModel.C20.gruneisen_spec
#print axioms PhononModel.C20.pressure_units
#print axioms PhononModel.C20.repeated_construction
#print axioms PhononModel.C20.cp_numerical_exact_quadratic_nonuniform
#print axioms PhononModel.C20.cp_polyfit_spec
#print axioms PhononModel.C20.fd_reads_in_range
#print axioms PhononModel.C20.bulk_modulus_units_monomial
