import PhononModel.Lemmas.ShortestPairs
import PhononModel.Lemmas.ShortestPairsTol
import PhononModel.Lemmas.WindowCert
import PhononModel.Lemmas.ShortestPairsConvert
/-!
# C05 — shortest-vector tables are the complete set of minimum-image vectors

Theorems about `Model/ShortestPairs.lean` over `ℚ` (squared lengths, Gram matrix of the reduced
basis).  `./check C05` feeds the model the implementation's own reduced basis (as its exact
integer transformation of a rational Gram matrix), reduced positions and lattice points, compares
`implShortest` with the C kernels (dense and sparse) and with `specShortest`, the minimum over
**all** lattice images (`box_complete`).
-/
set_option linter.unusedSectionVars false
namespace PhononModel.C05
open PhononModel PhononModel.ShortestPairs

/-- the executable checks on the Gram matrix mean: symmetric with positive principal minors -/
theorem gram_checks_sound (G : M3 ℚ) (hs : isSymm G = true) (hp : isPD G = true) : PD G :=
  pd_of_checks G hs hp

/-- **box_complete**: every lattice image `d + n`, `n ∈ ℤ³`, that is not longer than `d` lies in the
finite box the specification enumerates.  (Cauchy–Schwarz against the dual basis, in Gram form:
`(d_i+n_i)²·det G ≤ |d+n|²·adj(G)_ii`.) -/
theorem box_complete (G : M3 ℚ) (hs : isSymm G = true) (hp : isPD G = true) (d : V3 ℚ) (n : V3 ℤ)
    (hn : len2 G (d + n.toRat) ≤ len2 G d) : n ∈ boxPoints G d :=
  box_complete' G (pd_of_checks G hs hp) d n hn

/-- the coordinate bound behind it -/
theorem gram_coordinate_bound (G : M3 ℚ) (hs : isSymm G = true) (hp : isPD G = true) (v : V3 ℚ) :
    v.x * v.x * G.det ≤ len2 G v * G.adj.a00 ∧ v.y * v.y * G.det ≤ len2 G v * G.adj.a11 ∧
    v.z * v.z * G.det ≤ len2 G v * G.adj.a22 :=
  let h := pd_of_checks G hs hp
  ⟨gram_bound_x G h v, gram_bound_y G h v, gram_bound_z G h v⟩

/-- hence `specShortest` is the set of minimum images over the whole lattice: `n` is listed iff no
`n' ∈ ℤ³` gives a shorter image; and it is never empty. -/
theorem spec_is_global_minimum (G : M3 ℚ) (hs : isSymm G = true) (hp : isPD G = true) (d : V3 ℚ) :
    (∀ n : V3 ℤ, n ∈ specShortestPoints G d ↔ IsGlobalMin G d n) ∧ (∃ n, n ∈ specShortestPoints G d) := by
  have h := pd_of_checks G hs hp
  refine ⟨mem_spec_iff_global G h d, ?_⟩
  obtain ⟨n, hn⟩ := exists_global_min G h d
  exact ⟨n, (mem_spec_iff_global G h d n).mpr hn⟩

/-- what the kernels store for one pair: exactly the images over the search points whose length is
minimal *among the search points* — none longer, none that ties missing. -/
theorem impl_is_window_minimum (G : M3 ℚ) (d : V3 ℚ) (pts : List (V3 ℤ)) (v : V3 ℚ) :
    v ∈ pairShortest G d pts ↔
      ∃ p ∈ pts, v = d + p.toRat ∧ ∀ p' ∈ pts, len2 G (d + p.toRat) ≤ len2 G (d + p'.toRat) :=
  mem_pairShortest G d pts v

/-- window completeness: every global minimiser is among the search points -/
def WindowComplete (G : M3 ℚ) (d : V3 ℚ) (pts : List (V3 ℤ)) : Prop :=
  ∀ n : V3 ℤ, IsGlobalMin G d n → n ∈ pts

/-- **impl_subset_spec_iff**: the stored set equals the set of true minimum images **iff** the
window is complete for this lattice and separation.  This reduces the property to window
completeness. -/
theorem impl_subset_spec_iff (G : M3 ℚ) (hs : isSymm G = true) (hp : isPD G = true) (d : V3 ℚ) (pts : List (V3 ℤ)) :
    (∀ v, v ∈ pairShortest G d pts ↔ v ∈ specShortest G d) ↔ WindowComplete G d pts := by
  have h := pd_of_checks G hs hp
  have hspec : ∀ v, v ∈ specShortest G d ↔ ∃ n, IsGlobalMin G d n ∧ v = d + n.toRat := by
    intro v
    unfold specShortest
    simp only [List.mem_map]
    constructor
    · rintro ⟨n, hn, rfl⟩; exact ⟨n, (mem_spec_iff_global G h d n).mp hn, rfl⟩
    · rintro ⟨n, hn, rfl⟩; exact ⟨n, (mem_spec_iff_global G h d n).mpr hn, rfl⟩
  constructor
  · intro heq n hn
    have : d + n.toRat ∈ pairShortest G d pts := (heq _).mpr ((hspec _).mpr ⟨n, hn, rfl⟩)
    obtain ⟨p, hp', he, _⟩ := (mem_pairShortest G d pts _).mp this
    rw [toRat_add_inj d n p he]; exact hp'
  · intro hw v
    obtain ⟨n0, hn0⟩ := exists_global_min G h d
    rw [mem_pairShortest, hspec]
    constructor
    · rintro ⟨p, hp', rfl, hmin⟩
      refine ⟨p, ?_, rfl⟩
      intro n'
      exact le_trans (hmin n0 (hw n0 hn0)) (hn0 n')
    · rintro ⟨n, hn, rfl⟩
      exact ⟨n, hw n hn, rfl, fun p' _ => hn p'⟩

/-- **window_complete_of_certificate**: the reduction of window completeness to a finite decidable
condition on the Gram matrix.  `windowCert G window65` inspects the finitely many lattice points `n` of
a box (outside it every image is longer than any reduced separation) that are not search points and
covers the cube `[-1,1]³` of separations (both positions of a pair are reduced into `[-1/2,1/2]³`) by
boxes, found by bisection, on each of which some neighbour step `e` makes `d+n−e` strictly shorter than
`d+n`.  If it passes, the window is complete for **all** separations the kernels can see.  The check evaluates it in the driver for every generated lattice. -/
theorem window_complete_of_certificate (G : M3 ℚ) (hs : isSymm G = true) (hp : isPD G = true)
    (hc : windowCert G window65 = true) (d : V3 ℚ) (hd : InCube d) :
    WindowComplete G d window65 :=
  fun n hn => windowCert_sound G (pd_of_checks G hs hp) window65 hc d hd n hn

/-- … and therefore the kernels' table is the set of minimum images over the whole lattice, for every
pair (the separation of two positions reduced by `x − rint(x)` always lies in the cube `[-1,1]³`). -/
theorem impl_eq_spec_of_certificate (G : M3 ℚ) (hs : isSymm G = true) (hp : isPD G = true)
    (hc : windowCert G window65 = true) (d : V3 ℚ) (hd : InCube d) (v : V3 ℚ) :
    v ∈ pairShortest G d window65 ↔ v ∈ specShortest G d :=
  ((impl_subset_spec_iff G hs hp d window65).mpr (window_complete_of_certificate G hs hp hc d hd)) v

/-- per-pair certificate (always decidable, also when the per-lattice certificate is not evaluated):
the window is complete for `(G, d)` iff every point of `specShortestPoints G d` is a search point. -/
theorem window_complete_iff_spec_subset (G : M3 ℚ) (hs : isSymm G = true) (hp : isPD G = true) (d : V3 ℚ) (pts : List (V3 ℤ)) :
    WindowComplete G d pts ↔ ∀ n ∈ specShortestPoints G d, n ∈ pts := by
  have h := pd_of_checks G hs hp
  constructor
  · intro hw n hn; exact hw n ((mem_spec_iff_global G h d n).mp hn)
  · intro hsub n hn; exact hsub n ((mem_spec_iff_global G h d n).mpr hn)

example : windowCert (M3.one : M3 ℚ) window65 = true := by decide +kernel
example : windowCert (⟨4, 2, 2, 2, 4, 2, 2, 2, 4⟩ : M3 ℚ) window65 = true := by decide +kernel   -- fcc primitive, acute

/-- the part of the property that is **not** a theorem here (the source says "There is no proof that
this is enough"): for **every** well-reduced Gram matrix the certificate passes / the 65-point window is
complete for every separation in `[-1,1]³`.  It is a theorem for every lattice whose
certificate passes (`window_complete_of_certificate`), evaluated per case, and is tested per pair
against `specShortest` otherwise. -/
def FullStatement_window : Prop :=
  ∀ (G : M3 ℚ) (d : V3 ℚ), PD G → wellReduced G = true →
    InCube d → WindowComplete G d window65

/-- **window_complete_partial**: the sub-case that is proved outright — orthogonal reduced lattices
(diagonal Gram matrix: cubic, tetragonal, orthorhombic P), every separation in `[-1,1]³`. -/
theorem window_complete_partial (G : M3 ℚ) (d : V3 ℚ) (h01 : G.a01 = 0) (h02 : G.a02 = 0) (h10 : G.a10 = 0)
    (h12 : G.a12 = 0) (h20 : G.a20 = 0) (h21 : G.a21 = 0) (p0 : 0 < G.a00) (p1 : 0 < G.a11) (p2 : 0 < G.a22)
    (hd : InCube d) : WindowComplete G d window65 := by
  intro n hn
  have L := len2_diag G h01 h02 h10 h12 h20 h21
  have hxm := hn ⟨n.x - 1, n.y, n.z⟩
  have hxp := hn ⟨n.x + 1, n.y, n.z⟩
  have hym := hn ⟨n.x, n.y - 1, n.z⟩
  have hyp := hn ⟨n.x, n.y + 1, n.z⟩
  have hzm := hn ⟨n.x, n.y, n.z - 1⟩
  have hzp := hn ⟨n.x, n.y, n.z + 1⟩
  rw [L, L] at hxm hxp hym hyp hzm hzp
  simp only [V3.add_def, V3.toRat, V3.map, Int.cast_sub, Int.cast_add, Int.cast_one] at hxm hxp hym hyp hzm hzp
  have cx : n.x ∈ ([-1, 0, 1] : List Int) := coord_small p0 hd.1 (by linarith) (by linarith)
  have cy : n.y ∈ ([-1, 0, 1] : List Int) := coord_small p1 hd.2.1 (by linarith) (by linarith)
  have cz : n.z ∈ ([-1, 0, 1] : List Int) := coord_small p2 hd.2.2 (by linarith) (by linarith)
  exact cube_in_window n.x cx n.y cy n.z cz

/-- hence, for orthogonal reduced lattices, the kernels store exactly the minimum images over the whole lattice -/
theorem impl_eq_spec_orthogonal (G : M3 ℚ) (d : V3 ℚ) (hs : isSymm G = true) (hp : isPD G = true)
    (h01 : G.a01 = 0) (h02 : G.a02 = 0) (h12 : G.a12 = 0) (hd : InCube d) (v : V3 ℚ) :
    v ∈ pairShortest G d window65 ↔ v ∈ specShortest G d := by
  have h := pd_of_checks G hs hp
  have w := window_complete_partial G d h01 h02 (by rw [h.s01, h01]) h12 (by rw [h.s02, h02]) (by rw [h.s12, h12])
    h.p0 h.p1 h.p2 hd
  exact ((impl_subset_spec_iff G hs hp d window65).mpr w) v

/-! ### the tolerance clause ("within the symmetry tolerance") -/

/-- **tolerance_rule_is_in_length**: the model's rational test `tieWithin tol m2 l2` on squared lengths is
exactly the kernels' comparison of lengths `√l2 − √m2 < tol`. -/
theorem tolerance_rule_is_in_length (tol m2 l2 : ℚ) (hm : 0 ≤ m2) (hml : m2 ≤ l2) (ht : 0 < tol) :
    tieWithin tol m2 l2 = true ↔ Real.sqrt (l2 : ℝ) - Real.sqrt (m2 : ℝ) < (tol : ℝ) :=
  tieWithin_iff_sqrt tol m2 l2 hm hml ht

/-- what the kernels store with tolerance `tol`: exactly the images over the search points whose
length is within `tol` of the minimum over the search points. -/
theorem impl_tol_is_window_near_minimum (tol : ℚ) (G : M3 ℚ) (d : V3 ℚ) (pts : List (V3 ℤ)) (m : ℚ)
    (hm : minList (pts.map (fun p => len2 G (d + p.toRat))) = some m) (v : V3 ℚ) :
    v ∈ pairShortestTol tol G d pts ↔
      ∃ p ∈ pts, v = d + p.toRat ∧ tieWithin tol m (len2 G (d + p.toRat)) = true :=
  mem_pairShortestTol tol G d pts m hm v

/-- every exact tie is stored for every positive tolerance (no tie is missing) -/
theorem exact_ties_within_tolerance (tol : ℚ) (ht : 0 < tol) (G : M3 ℚ) (d : V3 ℚ) (pts : List (V3 ℤ)) (v : V3 ℚ)
    (hv : v ∈ pairShortest G d pts) : v ∈ pairShortestTol tol G d pts :=
  pairShortest_subset_tol tol ht G d pts v hv

example : (pairShortestTol (1/100000) M3.one ⟨5000001/10000000, 0, 0⟩ window65).length = 2 := by decide +kernel
example : (pairShortestTol (1/100000) M3.one ⟨5001/10000, 0, 0⟩ window65).length = 1 := by decide +kernel

/-- the window really has 65 distinct points and is what `np.unique` returns (sorted) -/
theorem window65_card : window65.length = 65 ∧ window65.Nodup := by decide +kernel

/-- **multiplicity_eq_card**: the stored multiplicity is the number of search points whose image
attains the minimum over the search points. -/
theorem multiplicity_eq_card (G : M3 ℚ) (d : V3 ℚ) (pts : List (V3 ℤ)) (m : ℚ)
    (hm : minList (pts.map (fun p => len2 G (d + p.toRat))) = some m) :
    (pairShortest G d pts).length = pts.countP (fun p => len2 G (d + p.toRat) == m) := by
  unfold pairShortest
  simp only [List.map_map]
  have : (len2 G ∘ fun p : V3 ℤ => d + p.toRat) = fun p => len2 G (d + p.toRat) := rfl
  rw [this, hm]
  simp only [List.filter_map, List.length_map, List.countP_eq_length_filter]
  rfl

/-- **no_duplicates** for one pair: distinct search points give distinct stored vectors, also after the
transformation back to supercell coordinates by an invertible integer matrix. -/
theorem no_duplicates (G : M3 ℚ) (T : M3 ℤ) (hT : T.det ≠ 0) (pts : List (V3 ℤ)) (hpts : pts.Nodup) (a b : V3 ℚ) :
    (pairShortest G (a - b) pts).Nodup ∧ (implShortest G T pts a b).Nodup := by
  have h1 : (pairShortest G (a - b) pts).Nodup := by
    unfold pairShortest
    simp only
    split
    · exact List.nodup_nil
    · apply List.Nodup.filter
      apply List.Nodup.map _ hpts
      intro p p' hpp
      exact toRat_add_inj _ p p' hpp
  refine ⟨h1, ?_⟩
  unfold implShortest
  apply List.Nodup.map _ h1
  intro v w hvw
  unfold backTransform at hvw
  have hd : (intToRat T).det ≠ 0 := by
    have : (intToRat T).det = (T.det : ℚ) := by
      simp only [intToRat, M3.map, M3.det]; push_cast; ring
    rw [this]; exact_mod_cast hT
  have e : ∀ u : V3 ℚ, (intToRat T).adj.mulVec ((intToRat T).mulVec u) = V3.smul (intToRat T).det u := by
    intro u; rw [← M3.mulVec_mul, M3.adj_mul, M3.smul_one_mulVec]
  have := congrArg ((intToRat T).adj.mulVec) hvw
  rw [e, e] at this
  have hx := congrArg V3.x this
  have hy := congrArg V3.y this
  have hz := congrArg V3.z this
  simp only [V3.smul] at hx hy hz
  ext
  · exact mul_left_cancel₀ hd hx
  · exact mul_left_cancel₀ hd hy
  · exact mul_left_cancel₀ hd hz

/-- dense storage is consistent: entry `k` of the multiplicity table `(count, address)` addresses
exactly the vectors of pair `k`, and `count` is their number (pass 1 and pass 2 agree). -/
theorem dense_multiplicity_addresses (G : M3 ℚ) (T : M3 ℤ) (pts : List (V3 ℤ)) (pto pfrom : List (V3 ℚ)) :
    let D := denseRun G T pts pto pfrom
    D.multi.map (fun ma => ((D.svecs.drop ma.2).take ma.1, ma.1)) =
      (pairs pto pfrom).map (fun ab => (implShortest G T pts ab.1 ab.2, (implShortest G T pts ab.1 ab.2).length)) := by
  have := dense_cells G T pts (pairs pto pfrom) []
  simpa [denseRun] using this

/-- **dense_sparse_same**: whenever the sparse kernel succeeds (no pair has more than 27 vectors),
converting the dense result gives exactly the sparse result. -/
theorem dense_sparse_same (G : M3 ℚ) (T : M3 ℤ) (pts : List (V3 ℤ)) (pto pfrom : List (V3 ℚ)) (s : Sparse)
    (h : sparseRun G T pts pto pfrom = .ok s) : denseToSparse (denseRun G T pts pto pfrom) = s := by
  unfold sparseRun at h
  cases hc : sparseCells G T pts (pairs pto pfrom) with
  | error e => rw [hc] at h; cases h
  | ok c =>
    rw [hc] at h
    simp only [Except.ok.injEq] at h
    rw [← h, sparseCells_ok G T pts _ c hc]
    unfold denseToSparse
    congr 1
    have hd := dense_multiplicity_addresses G T pts pto pfrom
    simp only at hd
    have := congrArg (List.map (fun (vm : List (V3 ℚ) × ℕ) => (pad27 vm.1, vm.2))) hd
    simpa [List.map_map, Function.comp_def] using this

/-- rejecting branch of the sparse kernel: more than 27 vectors for a pair is an error, not a
truncated table. -/
theorem sparse_rejects_overflow (G : M3 ℚ) (T : M3 ℤ) (pts : List (V3 ℤ)) (a b : V3 ℚ)
    (h : 27 < (implShortest G T pts a b).length) : sparseRun G T pts [a] [b] = .error .tooMany := by
  simp [sparseRun, pairs, sparseCells, h]

/-! ### non-vacuity: the body centre of a cubic cell has 8 shortest images, all in the window -/
example : isSymm (M3.one : M3 ℚ) = true ∧ isPD (M3.one : M3 ℚ) = true := by decide +kernel
example : (specShortestPoints M3.one ⟨1/2, 1/2, 1/2⟩).length = 8 := by decide +kernel
example : (pairShortest M3.one ⟨1/2, 1/2, 1/2⟩ window65).length = 8 := by decide +kernel

/-! ### conversion of ARBITRARY tables (`dense_to_sparse_svecs`, `sparse_to_dense_svecs` in cells.py) -/

/-- **dense → sparse reads through the address column.**  For every dense table with at most 27 vectors per
pair and address ranges inside the vector array — blocks in any storage order, multiplicity rows
sub-selected or permuted — the sparse table holds, for every pair, exactly the vectors the dense one
addresses (same order). -/
theorem dense_to_sparse_any_table (d : Dense) (hd : d.wf) (k : ℕ) : (denseToSparse d).read k = d.read k :=
  denseToSparse_read d hd k

/-- **sparse → dense** keeps, for every pair, the first `count` slots. -/
theorem sparse_to_dense_any_table (s : Sparse) (hs : s.wf) (k : ℕ) : (sparseToDense s).read k = s.read k :=
  sparseToDense_read s hs k

/-- round trip of an arbitrary well-formed dense table through the sparse format: the same sets, pair by pair. -/
theorem dense_sparse_roundtrip_any_table (d : Dense) (hd : d.wf) (k : ℕ) :
    (sparseToDense (denseToSparse d)).read k = d.read k :=
  sparseToDense_denseToSparse_read d hd k

/-- the hypothesis is met by a table whose blocks are stored in reverse order -/
example : ({ svecs := [⟨1, 0, 0⟩, ⟨0, 1, 0⟩, ⟨0, 0, 1⟩], multi := [(1, 2), (2, 0)] } : Dense).wf := by
  intro p hp
  simp only [List.mem_cons, List.not_mem_nil, or_false] at hp
  rcases hp with rfl | rfl <;> simp

end PhononModel.C05

#print axioms PhononModel.C05.gram_checks_sound
#print axioms PhononModel.C05.box_complete
#print axioms PhononModel.C05.gram_coordinate_bound
#print axioms PhononModel.C05.spec_is_global_minimum
#print axioms PhononModel.C05.impl_is_window_minimum
#print axioms PhononModel.C05.impl_subset_spec_iff
#print axioms PhononModel.C05.window_complete_of_certificate
#print axioms PhononModel.C05.impl_eq_spec_of_certificate
#print axioms PhononModel.C05.window_complete_iff_spec_subset
#print axioms PhononModel.C05.window_complete_partial
#print axioms PhononModel.C05.impl_eq_spec_orthogonal
#print axioms PhononModel.C05.tolerance_rule_is_in_length
#print axioms PhononModel.C05.impl_tol_is_window_near_minimum
#print axioms PhononModel.C05.exact_ties_within_tolerance
#print axioms PhononModel.C05.window65_card
#print axioms PhononModel.C05.multiplicity_eq_card
#print axioms PhononModel.C05.no_duplicates
#print axioms PhononModel.C05.dense_multiplicity_addresses
#print axioms PhononModel.C05.dense_sparse_same
#print axioms PhononModel.C05.sparse_rejects_overflow
#print axioms PhononModel.C05.dense_to_sparse_any_table
#print axioms PhononModel.C05.sparse_to_dense_any_table
#print axioms PhononModel.C05.dense_sparse_roundtrip_any_table
