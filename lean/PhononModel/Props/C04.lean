import PhononModel.Lemmas.Supercell
import PhononModel.Lemmas.SNFDiag
import PhononModel.Lemmas.Frame
import PhononModel.Lemmas.SNFTerm
import PhononModel.Lemmas.SNFPos
import PhononModel.Model.CellTables
import Mathlib.Data.Fintype.Basic
import Mathlib.Data.Fintype.EquivFin
import Mathlib.Logic.ExistsUnique
import Mathlib.Algebra.BigOperators.Group.Finset.Basic
import Mathlib.Algebra.Order.BigOperators.Group.Finset
import Mathlib.Data.Fintype.Card
/-!
# C04 — supercell and primitive cell are exact re-tilings with consistent index maps

Theorems about `Model/SNF.lean` (a step model of `phonopy/structure/snf.py`), `Model/Supercell.lean`
(`phonopy/structure/cells.py`: lattice points, congruence modulo `Sℤ³`) and `Model/CellTables.lean`
(certificates for the index tables).  `./check C04` ties the models to the code: exact comparison of
`D, P, Q`, xgcd triples, maps, permutations and rational positions, and evaluates the certificates
on the implementation's own tables.
-/
set_option linter.unusedSectionVars false
namespace PhononModel.C04
open PhononModel PhononModel.SNF PhononModel.Supercell PhononModel.CellTables

/-! ### Xgcd -/

/-- Bezout: the assertion `r0 == a*s0 + b*t0` of `Xgcd.run` can never fire — for all integers,
also when the 1000 iterations are exhausted. -/
theorem xgcd_bezout (a b : Int) : (xgcd a b).r = a * (xgcd a b).s + b * (xgcd a b).t :=
  xgcd_bezout' a b

/-- when the loop ends with `r1 == 0`, `|r|` is the gcd; in particular `r ∣ a`, `r ∣ b`, `r ≠ 0`
(the divisions `-b // r`, `a // r` of `_set_zero` are exact). -/
theorem xgcd_gcd (a b : Int) (hb : b ≠ 0) (hd : (xgcd a b).done = true) :
    (xgcd a b).r.natAbs = Int.gcd a b ∧ (xgcd a b).r ≠ 0 ∧ (xgcd a b).r ∣ a ∧ (xgcd a b).r ∣ b :=
  ⟨xgcd_natAbs a b hb hd, xgcd_facts a b hb hd⟩

/-- the loop does end regularly within its 1000 iterations for every divisor up to 1000 in absolute
value (remainders are non-negative and strictly decreasing) — all matrices the checks use. -/
theorem xgcd_terminates (a b : Int) (hb : b ≠ 0) (hsmall : b.natAbs ≤ 1000) : (xgcd a b).done = true :=
  xgcd_done a b hb hsmall

example : xgcd 12 (-18) = ⟨6, 2, 1, true⟩ := by decide
example : (xgcd 4 (-2)).r = -2 := by decide   -- the "gcd" may be negative

/-! ### SNF3x3: every elementary step is unimodular -/

theorem elementary_steps_unimodular :
    (∀ i j : Fin 3, (swapL i j).det * (swapL i j).det = 1) ∧
    (∀ i : Fin 3, (flipL i).det * (flipL i).det = 1) ∧
    (∀ i j : Fin 3, i ≠ j → (disturbL i j).det = 1) ∧
    (∀ x y : Int, (SNF.set (SNF.set eye 1 0 x) 2 0 y).det = 1) ∧
    (∀ x : Int, (SNF.set eye 2 1 x).det = 1) ∧
    (∀ a b : Int, b ≠ 0 → (xgcd a b).done = true →
      (setZeroL 0 1 a b (xgcd a b).r (xgcd a b).s (xgcd a b).t).det = 1 ∧
      (setZeroL 0 2 a b (xgcd a b).r (xgcd a b).s (xgcd a b).t).det = 1 ∧
      (setZeroL 1 2 a b (xgcd a b).r (xgcd a b).s (xgcd a b).t).det = 1) :=
  ⟨swapL_det_sq, flipL_det_sq, disturbL_det, unitLower_det, unitLower21_det, fun a b hb hd => by
    obtain ⟨hr, ha, hb'⟩ := xgcd_facts a b hb hd
    exact setZeroL_det hr ha hb' (xgcd_bezout' a b)⟩

/-- states reachable by iterating `__next__` from `SNF3x3(A)` -/
inductive Reach (A : M3 Int) : St → Prop
  | init : Reach A (St.init A)
  | step {s s' : St} {r : Option Bool} : Reach A s → next s = .ok (s', r) → Reach A s'

/-- **invariant** `A_cur = P·A₀·Q` in every reachable state (so the final `assert` of `run` cannot
fire), and `P`, `Q` unimodular as long as every `Xgcd` loop finished. -/
theorem snf_invariant_reachable (A : M3 Int) (s : St) (h : Reach A s) :
    s.A = s.P * A * s.Q ∧ (s.xok = true → s.P.det * s.P.det = 1 ∧ s.Q.det * s.Q.det = 1) := by
  induction h with
  | init => exact ⟨init_invP A, init_uni A⟩
  | step _ hn ih =>
    constructor
    · rcases next_adm (invP_adm A) _ _ _ hn ih.1 with ⟨_, h⟩ | ⟨s2, _, he, h⟩
      · exact h
      · rw [he]; exact setPQ_invP A _ h
    · rcases next_adm uni_adm _ _ _ hn ih.2 with ⟨_, h⟩ | ⟨s2, _, he, h⟩
      · exact h
      · intro hx
        rw [he] at hx ⊢
        have hx2 : s2.xok = true := by rw [← (setPQ_A s2).2]; exact hx
        obtain ⟨hp, hq⟩ := setPQ_uni s2 h hx2
        rw [hp]
        rcases hq with hq | hq <;> rw [hq] <;> simp

/-- `D = P·A·Q` for whatever `run` returns (finished or not). -/
theorem snf_invariant (fuel : Nat) (A : M3 Int) (o : Out) (h : SNF.run fuel A = .ok o) :
    o.D = o.P * A * o.Q := by
  obtain ⟨s', hi, hc⟩ := runLoop_adm (invP_adm A) fuel 0 _ o h (init_invP A)
  rcases hc with ⟨_, hD, hP, hQ, _⟩ | ⟨_, hD, hP, hQ, _⟩
  · rw [hD, hP, hQ]; exact hi
  · rw [hD, hP, hQ]; exact setPQ_invP A _ hi

/-- `det P = 1`, `det Q = ±1` for a finished run in which every `Xgcd` loop ended regularly. -/
theorem snf_unimodular (fuel : Nat) (A : M3 Int) (o : Out) (h : SNF.run fuel A = .ok o)
    (hf : o.finished = true) (hx : o.xok = true) : o.P.det = 1 ∧ (o.Q.det = 1 ∨ o.Q.det = -1) := by
  obtain ⟨s', hi, hc⟩ := runLoop_adm uni_adm fuel 0 _ o h (init_uni A)
  rcases hc with ⟨hf', _⟩ | ⟨_, _, hP, hQ, hxx⟩
  · rw [hf] at hf'; cases hf'
  · rw [hP, hQ]
    apply setPQ_uni s' hi
    rw [← (setPQ_A s').2, ← hxx]; exact hx

/-- product of the diagonal = `|det A|` (for a diagonal, positive `D`; both are decidable on the
output and are checked on every case by `isSNF`). -/
theorem snf_det_product (fuel : Nat) (A : M3 Int) (o : Out) (h : SNF.run fuel A = .ok o)
    (hf : o.finished = true) (hx : o.xok = true) (hd : o.D.isDiag = true)
    (h0 : 0 < o.D.a00) (h1 : 0 < o.D.a11) (h2 : 0 < o.D.a22) :
    o.D.a00 * o.D.a11 * o.D.a22 = |A.det| := by
  have hinv := snf_invariant fuel A o h
  obtain ⟨hp, hq⟩ := snf_unimodular fuel A o h hf hx
  have hdet : o.D.det = A.det * o.Q.det := by rw [hinv, M3.det_mul, M3.det_mul, hp, one_mul]
  have hdiag : o.D.det = o.D.a00 * o.D.a11 * o.D.a22 := by
    unfold M3.isDiag at hd
    simp only [Bool.and_eq_true, decide_eq_true_eq] at hd
    obtain ⟨⟨⟨⟨⟨a, b⟩, c⟩, d⟩, e⟩, f⟩ := hd
    simp only [M3.det, a, b, c, d, e, f]; ring
  have hpos : 0 < o.D.a00 * o.D.a11 * o.D.a22 := Int.mul_pos (Int.mul_pos h0 h1) h2
  rw [← hdiag, hdet] at hpos ⊢
  rcases hq with hq | hq
  · rw [hq, mul_one] at hpos ⊢; exact (abs_of_pos hpos).symm
  · rw [hq] at hpos ⊢
    have : A.det < 0 := by linarith
    rw [abs_of_neg this]; ring

/-- **diagonal result**: a finished run on a non-singular matrix, with regular `Xgcd` loops and with
the two `_first()/_second()` calls inside `_finalize` (whose results the code ignores) returning
`True`, leaves a diagonal `D`.  (Zero patterns are followed through every routine.) -/
theorem snf_diagonal (fuel : Nat) (A : M3 Int) (o : Out) (hA : A.det ≠ 0) (h : SNF.run fuel A = .ok o)
    (hf : o.finished = true) (hx : o.xok = true) (hok : o.finOk = true) : o.D.isDiag = true :=
  run_diag fuel A o hA h hf hx hok

/-- **positive diagonal**: the sign fix-up of `_finalize` makes the diagonal positive and the two
disturb-and-reduce rounds keep it positive (sign analysis of the `Xgcd` results on the sorted diagonal). -/
theorem snf_positive (fuel : Nat) (A : M3 Int) (o : Out) (hA : A.det ≠ 0) (h : SNF.run fuel A = .ok o)
    (hf : o.finished = true) (hx : o.xok = true) (hok : o.finOk = true) :
    0 < o.D.a00 ∧ 0 < o.D.a11 ∧ 0 < o.D.a22 :=
  run_pos fuel A o hA h hf hx hok

/-- **the Smith-normal-form result** (what `SNF3x3` promises): `D = P·A·Q` diagonal with positive entries
whose product is `|det A|`, `det P = 1`, `det Q = ±1`; `(D, P, adj P, Q, det Q · adj Q)` is an SNF certificate
in the sense of `SnfCert.ok`. -/
theorem snf_result (fuel : Nat) (A : M3 Int) (o : Out) (hA : A.det ≠ 0) (h : SNF.run fuel A = .ok o)
    (hf : o.finished = true) (hx : o.xok = true) (hok : o.finOk = true) :
    o.D.isDiag = true ∧ (0 < o.D.a00 ∧ 0 < o.D.a11 ∧ 0 < o.D.a22) ∧ o.D.a00 * o.D.a11 * o.D.a22 = |A.det| ∧
    SnfCert.ok A ⟨o.D, o.P, o.P.adj, o.Q, M3.smul o.Q.det o.Q.adj⟩ = true := by
  have hd := snf_diagonal fuel A o hA h hf hx hok
  obtain ⟨h0, h1, h2⟩ := snf_positive fuel A o hA h hf hx hok
  have hinv := snf_invariant fuel A o h
  obtain ⟨hp, hq⟩ := snf_unimodular fuel A o h hf hx
  refine ⟨hd, ⟨h0, h1, h2⟩, snf_det_product fuel A o h hf hx hd h0 h1 h2, ?_⟩
  have e1 : o.P.adj * o.P = M3.one := by rw [M3.adj_mul, hp]; ext <;> simp [M3.smul, M3.map, M3.one]
  have e2 : o.P * o.P.adj = M3.one := by rw [M3.mul_adj, hp]; ext <;> simp [M3.smul, M3.map, M3.one]
  have hqq : o.Q.det * o.Q.det = 1 := by rcases hq with hq | hq <;> rw [hq] <;> rfl
  have e3 : o.Q * M3.smul o.Q.det o.Q.adj = M3.one := by
    have : o.Q * M3.smul o.Q.det o.Q.adj = M3.smul o.Q.det (o.Q * o.Q.adj) := by
      ext <;> simp only [M3.mul_def, M3.mul, M3.smul, M3.map] <;> ring
    rw [this, M3.mul_adj]
    ext <;> simp [M3.smul, M3.map, M3.one, hqq]
  have e4 : M3.smul o.Q.det o.Q.adj * o.Q = M3.one := by
    have : M3.smul o.Q.det o.Q.adj * o.Q = M3.smul o.Q.det (o.Q.adj * o.Q) := by
      ext <;> simp only [M3.mul_def, M3.mul, M3.smul, M3.map] <;> ring
    rw [this, M3.adj_mul]
    ext <;> simp [M3.smul, M3.map, M3.one, hqq]
  unfold SnfCert.ok
  simp only [Bool.and_eq_true, decide_eq_true_eq]
  exact ⟨⟨⟨⟨⟨⟨⟨⟨hinv, hd⟩, h0⟩, h1⟩, h2⟩, e1⟩, e2⟩, e3⟩, e4⟩

/-! ### termination of the unbounded loop -/

/-- a `_first()` that runs on a state left by a failed `_first()` (pivot does not divide the rest of
the first column) strictly decreases `|A₀₀|`; likewise `_second()` and `|A₁₁|`. -/
theorem snf_pass_decreases :
    (∀ (s s' : St) (b : Bool), first s = .ok (s', b) → s'.xok = true → PostA s → s'.A.a00.natAbs < s.A.a00.natAbs) ∧
    (∀ (s : St), PostB s → (second s).1.xok = true → (second s).1.A.a11.natAbs < s.A.a11.natAbs) :=
  ⟨fun s s' b h hx hA => first_decreases s s' b h hx hA, fun s hB hx => second_decreases s hB hx⟩

/-- every `__next__` that does not stop leaves such a state (for `det ≠ 0`, regular `Xgcd` loops) -/
theorem snf_next_progress (s s' : St) (h : next s = .ok (s', none)) (hd : s.xok = true → s.A.det ≠ 0) (hx : s'.xok = true) :
    PostA s' ∨ PostB s' :=
  next_none_post s s' h hd hx

/-- **snf_terminates**: for every non-singular integer matrix there is a bound `N` such that
`SNF3x3.run` has stopped after at most `N` iterations of `for _ in self` — for every fuel `≥ N` the
model reports `finished`, provided the `Xgcd` loops ended regularly (`xok`, which holds whenever all
intermediate divisors are ≤ 1000 in absolute value, `xgcd_terminates`).  The measure is `|A₀₀|` while
the first row/column is being cleared, then `|A₁₁|`. -/
theorem snf_terminates (A : M3 Int) (hA : A.det ≠ 0) :
    ∃ N : Nat, ∀ (fuel : Nat) (o : Out), N ≤ fuel → SNF.run fuel A = .ok o → o.xok = true → o.finished = true :=
  run_terminates A hA

/-- what remains unproved about the flags: that the two `_first()/_second()` calls inside `_finalize`, whose
results the code ignores, always return `True` (`finOk`).  It is checked on every matrix. (`xok` can only
fail for divisors beyond 1000 in absolute value, `xgcd_terminates`.) -/
def FullStatement_snf_flags : Prop :=
  ∀ (fuel : Nat) (A : M3 Int) (o : Out), A.det ≠ 0 → SNF.run fuel A = .ok o → o.finished = true → o.xok = true →
    o.finOk = true

/-- the executable `isSNF` means what it says -/
theorem isSNF_sound (A : M3 Int) (o : Out) (h : isSNF A o = true) :
    o.D = o.P * A * o.Q ∧ o.D.isDiag = true ∧ 0 < o.D.a00 ∧ 0 < o.D.a11 ∧ 0 < o.D.a22 ∧
      o.P.det = 1 ∧ (o.Q.det = 1 ∨ o.Q.det = -1) := by
  unfold isSNF at h
  simp only [Bool.and_eq_true, decide_eq_true_eq] at h
  obtain ⟨⟨⟨⟨⟨⟨h1, h2⟩, h3⟩, h4⟩, h5⟩, h8⟩, h9⟩ := h
  exact ⟨h1, h2, h3, h4, h5, h8, h9⟩

/-- the textbook divisibility chain `d₀ ∣ d₁ ∣ d₂` is **not** a property of this algorithm (its docstring
says so: "the diagonal elements don't follow the rule"): model and implementation agree on
`D = diag(2, 1, 212)` for this matrix (found by the thorough tier).  The supercell construction
needs only a positive diagonal `D` and unimodular `P`, `Q`. -/
theorem snf_divisibility_chain_counterexample :
    ∃ (A : M3 Int) (o : Out), SNF.run 64 A = .ok o ∧ o.finished = true ∧ isSNF A o = true ∧ ¬ (o.D.a00 ∣ o.D.a11) := by
  refine ⟨⟨-6,-4,-8, 0,4,-8, -4,4,-1⟩, ⟨⟨2,0,0, 0,1,0, 0,0,212⟩, ⟨-1,0,2, 2,18,-3, 8,73,-12⟩,
    ⟨-1,-21,1098, 0,-3,157, 0,-1,52⟩, true, true, true, 1⟩, by decide, rfl, by decide, by decide⟩

example : (SNF.run 64 ⟨2,1,0, 0,2,0, 1,0,2⟩).toOption.map (fun o => (o.D, o.finished, o.xok, o.finOk)) =
    some (⟨1,0,0, 0,1,0, 0,0,8⟩, true, true, true) := by decide

/-- rejecting branch: a zero first column raises "Determinant is 0." -/
theorem snf_rejects_zero_first_column (fuel : Nat) (A : M3 Int) (h0 : A.a00 = 0) (h1 : A.a10 = 0) (h2 : A.a20 = 0) :
    SNF.run (fuel + 1) A = .error .detZero := by
  have hc : firstColumn (St.init A) = .error .detZero := by
    simp [firstColumn, searchFirstPivot, St.init, h0, h1, h2]
  simp [SNF.run, runLoop, next, first, firstOneLoop, hc, bind, Except.bind]

/-! ### lattice points of the SNF route are a complete irredundant residue system -/

/-- `{P⁻¹·m : m ∈ box D}` represents every class of `ℤ³/Sℤ³` exactly once. -/
theorem snf_points_are_reps (S : M3 Int) (c : SnfCert) (hc : c.ok S = true) (x : V3 Int) :
    ∃! m, m ∈ boxPoints c.D ∧ CongS S x (c.Pinv.mulVec m) := by
  obtain ⟨m, hm, hu⟩ := reps_of_cert S c (SnfCert.ok_good S c hc) x
  exact ⟨m, hm, hu⟩

/-- the SNF route end to end: for a non-singular `S`, the points `adj(P)·m`, `m` in the box of the `D`
the run returns, are a complete irredundant system of representatives of `ℤ³/Sℤ³`. -/
theorem snf_route_points_are_reps (fuel : Nat) (S : M3 Int) (o : Out) (hS : S.det ≠ 0) (h : SNF.run fuel S = .ok o)
    (hf : o.finished = true) (hx : o.xok = true) (hok : o.finOk = true) (x : V3 Int) :
    ∃! m, m ∈ boxPoints o.D ∧ CongS S x (o.P.adj.mulVec m) :=
  snf_points_are_reps S ⟨o.D, o.P, o.P.adj, o.Q, M3.smul o.Q.det o.Q.adj⟩
    (snf_result fuel S o hS h hf hx hok).2.2.2 x

/-- the number of representatives is `d₀·d₁·d₂` (= `|det S|` by `snf_det_product`) -/
theorem snf_points_count (D : M3 Int) : (boxPoints D).length = D.a00.toNat * D.a11.toNat * D.a22.toNat :=
  length_latticePoints _

/-- the certificate used on the implementation's atoms (both routes): if the executable check
passes, the points tile — every integer vector is congruent modulo `Sℤ³` to exactly one of them. -/
theorem complete_residue_system_sound (S : M3 Int) (c : SnfCert) (pts : List (V3 Int))
    (h : isCompleteResidueSystem S c pts = true) (hS : S.det ≠ 0) (x : V3 Int) :
    ∃! p, p ∈ pts ∧ CongS S x p := by
  unfold isCompleteResidueSystem at h
  simp only [Bool.and_eq_true, List.all_eq_true, beq_iff_eq] at h
  obtain ⟨⟨hc, _⟩, hall⟩ := h
  obtain ⟨m, ⟨hm, hxm⟩, _⟩ := reps_of_cert S c (SnfCert.ok_good S c hc) x
  obtain ⟨p, hp, hpm, huniq⟩ := filter_length_one pts _ (hall m hm)
  rw [eqModS_iff S hS] at hpm
  refine ⟨p, ⟨hp, hxm.trans' hpm.symm'⟩, ?_⟩
  rintro p' ⟨hp', hxp'⟩
  apply huniq p' hp'
  rw [eqModS_iff S hS]
  exact (hxp'.symm'.trans' hxm)

/-- **classic_eq_snf_as_sets**: two point lists that both pass the certificate (the lattice points of
the classic and of the SNF construction) are matched one to one by congruence modulo `Sℤ³`. -/
theorem classic_eq_snf_as_sets (S : M3 Int) (c c' : SnfCert) (pts pts' : List (V3 Int)) (hS : S.det ≠ 0)
    (h : isCompleteResidueSystem S c pts = true) (h' : isCompleteResidueSystem S c' pts' = true) :
    (∀ p ∈ pts, ∃! p', p' ∈ pts' ∧ CongS S p p') ∧ (∀ p' ∈ pts', ∃! p, p ∈ pts ∧ CongS S p' p) :=
  ⟨fun p _ => complete_residue_system_sound S c' pts' h' hS p,
   fun p' _ => complete_residue_system_sound S c pts h hS p'⟩

/-- **frame_complete_partial** (classic route): under the decidable condition `frameComplete`, which
the check evaluates per matrix, the lattice points of the surrounding frame meet every class of
`ℤ³/Sℤ³` — so trimming them leaves a complete irredundant system. -/
theorem frame_complete_partial (S : M3 Int) (c : SnfCert) (hS : S.det ≠ 0) (h : frameComplete S c = true) (x : V3 Int) :
    ∃ p, p ∈ latticePoints (surroundingFrame S) ∧ CongS S x p := by
  unfold frameComplete at h
  simp only [Bool.and_eq_true, List.all_eq_true, List.any_eq_true] at h
  obtain ⟨hc, hall⟩ := h
  obtain ⟨m, ⟨hm, hxm⟩, _⟩ := reps_of_cert S c (SnfCert.ok_good S c hc) x
  obtain ⟨p, hp, hpm⟩ := hall m hm
  rw [eqModS_iff S hS] at hpm
  exact ⟨p, hp, hxm.trans' hpm.symm'⟩

/-- the unconditional statement for the classic route -/
def FullStatement_frame : Prop :=
  ∀ (S : M3 Int), 0 < S.det → ∀ x : V3 Int, ∃ p, p ∈ latticePoints (surroundingFrame S) ∧ CongS S x p

/-- **frame_complete**: `FullStatement_frame` holds — for every integer matrix with positive determinant
the lattice points of the surrounding frame (`_get_surrounding_frame`: extent of the eight corners of
the parallelepiped) meet every class of `ℤ³/Sℤ³`.  (Every class has a representative `S·t`,
`t ∈ [0,1)³`; its coordinates lie in the half-open extent of the corners.) -/
theorem frame_complete : FullStatement_frame := fun S hS x => Supercell.frame_complete S hS x

/-- the frame extents are the row-wise spreads `Σ max(S_ij,0) − Σ min(S_ij,0)` -/
theorem surrounding_frame_formula (S : M3 Int) :
    surroundingFrame S = ⟨rowPos S.a00 S.a01 S.a02 - rowNeg S.a00 S.a01 S.a02,
                          rowPos S.a10 S.a11 S.a12 - rowNeg S.a10 S.a11 S.a12,
                          rowPos S.a20 S.a21 S.a22 - rowNeg S.a20 S.a21 S.a22⟩ :=
  surroundingFrame_eq S

example : isCompleteResidueSystem ⟨1,1,0, 0,1,0, 0,0,2⟩
    ⟨⟨1,0,0, 0,1,0, 0,0,2⟩, ⟨1,0,0, -1,1,0, 0,0,1⟩, ⟨1,0,0, 1,1,0, 0,0,1⟩, ⟨0,-1,0, 1,1,0, 0,0,1⟩, ⟨1,1,0, -1,0,0, 0,0,1⟩⟩
    [⟨0,0,0⟩, ⟨5,3,1⟩] = true := by decide

/-- F9 as a statement about the two candidate lattices: `S·L` (what the SNF route of the pinned code
assigns) is not `Sᵀ·L` (what the positions are computed for). -/
theorem snf_route_lattice_as_coded_counterexample :
    ∃ (S : M3 Int) (L : M3 Rat), simpleLatticeAsCoded S L ≠ (intToRat S).transpose * L :=
  ⟨⟨1,1,0, 0,1,0, 0,0,1⟩, M3.one, by
    intro h
    have h01 := congrArg M3.a01 h
    simp [simpleLatticeAsCoded, intToRat, M3.map, M3.transpose, M3.mul_def, M3.mul, M3.one] at h01⟩

/-! ### what a successful construction guarantees (rejecting branches, contrapositively) -/

/-- `TrimmedCell`: success means the atom-count guard `len(cell) == rint(len(trimmed)/det R)` held and
`R` was invertible; otherwise "Remapping of atoms by TrimmedCell failed." / `LinAlgError`. -/
theorem trim_rejects_nonTiling (R : M3 Rat) (pos : Array (V3 Rat)) (chk : Bool) (t : Trimmed)
    (h : trim R pos chk = .ok t) : R.det ≠ 0 ∧ (pos.size : Int) = ratRint (1 / R.det * (t.pos.size : Rat)) :=
  trim_ok_count R pos chk t h

/-- `Supercell`: a supercell is returned only with `N = det S` atoms per unit-cell atom (so never for
`det S < 0`), its lattice is `Sᵀ·L`, and the maps are `s2u[k] = u_k·N`, `u2s[u] = u·N`. -/
theorem supercell_built_only_if_tiling (L : M3 Rat) (upos : Array (V3 Rat)) (S : M3 Int) (old : Bool) (o : SupercellOut)
    (h : supercell L upos S old = .ok o) :
    (o.N : Int) = S.det ∧ 0 ≤ S.det ∧ o.lattice = (intToRat S).transpose * L ∧
    o.s2u = o.atoms.map (fun a => a.u * o.N) ∧ o.u2s = (Array.range upos.size).map (· * o.N) := by
  obtain ⟨h1, h2, h3⟩ := supercell_ok L upos S old o h
  exact ⟨h1, by rw [← h1]; exact Int.natCast_nonneg _, h2, h3⟩

theorem supercell_rejects_negative_det (L : M3 Rat) (upos : Array (V3 Rat)) (S : M3 Int) (old : Bool)
    (hS : S.det < 0) : ∃ e, supercell L upos S old = .error e := by
  cases h : supercell L upos S old with
  | error e => exact ⟨e, rfl⟩
  | ok o => have := (supercell_built_only_if_tiling L upos S old o h).2.1; omega

/-- `Primitive`: success means every atom carries the symbol of the atom it was mapped onto
(`mapping_rejects_symbol_mismatch`) and the atom count matches the index of the primitive lattice. -/
theorem primitive_built_only_if_consistent (spos : Array (V3 Rat)) (symbols : Array Nat) (pmat : M3 Rat) (o : PrimitiveOut)
    (h : primitive spos symbols pmat = .ok o) :
    (∀ i, i < spos.size → symbols.getD i 0 = symbols.getD (o.mapping.getD i 0) 0) ∧
    pmat.det ≠ 0 ∧ (spos.size : Int) = ratRint (1 / pmat.det * (o.pos.size : Rat)) :=
  primitive_ok spos symbols pmat o h

/-! ### centring tables (`get_primitive_matrix_by_centring`) -/

/-- the six primitive matrices have determinants `1, 1/4, 1/2, 1/2, 1/2, 1/3` and integral inverses of
determinant `1, 4, 2, 2, 2, 3`: the conventional lattice is a sublattice of index 1, 4, 2, 2, 2, 3 of the
primitive one (so `ℤ³ ⊂` primitive lattice, as the translation-group argument needs). -/
theorem centring_tables :
    (centringMatrix "P").map (centringOk · 1) = some true ∧ (centringMatrix "F").map (centringOk · 4) = some true ∧
    (centringMatrix "I").map (centringOk · 2) = some true ∧ (centringMatrix "A").map (centringOk · 2) = some true ∧
    (centringMatrix "C").map (centringOk · 2) = some true ∧ (centringMatrix "R").map (centringOk · 3) = some true := by
  decide +kernel

theorem centringOk_sound (m : M3 Rat) (k : Nat) (h : centringOk m k = true) :
    m.det * (k : Rat) = 1 ∧ (∀ q ∈ m.inv.toList, q.den = 1) ∧ m.inv.det = (k : Rat) := by
  unfold centringOk at h
  simp only [Bool.and_eq_true, beq_iff_eq, List.all_eq_true] at h
  exact ⟨h.1.1, h.1.2, h.2⟩

/-! ### index tables -/

theorem allFin_iff {n : Nat} (p : Fin n → Bool) : allFin n p = true ↔ ∀ i, p i = true := by
  simp [allFin, List.all_eq_true, List.mem_finRange]

theorem anyFin_iff {n : Nat} (p : Fin n → Bool) : anyFin n p = true ↔ ∃ i, p i = true := by
  simp [anyFin, List.any_eq_true, List.mem_finRange]

theorem countFin_one {n : Nat} (p : Fin n → Bool) (h : countFin n p = 1) : ∃! i, p i = true := by
  obtain ⟨a, _, ha, hu⟩ := filter_length_one (List.finRange n) p h
  exact ⟨a, ha, fun b hb => hu b (List.mem_finRange b) hb⟩

/-- **maps_consistent** (supercell): `u2s u = u·N`, `s2u` is idempotent onto the representatives,
every unit-cell atom has exactly `N` images, `n_s = n_u·N`. -/
theorem maps_consistent_supercell {nu ns : Nat} (T : STables nu ns) (h : T.wf = true) :
    ns = nu * T.N ∧ (∀ u, (T.u2s u).1 = u.1 * T.N) ∧ (∀ u, T.s2u (T.u2s u) = T.u2s u) ∧
    (∀ k, ∃ u, T.s2u k = T.u2s u) ∧ (∀ k, T.s2u (T.s2u k) = T.s2u k) ∧
    (∀ u, countFin ns (fun k => T.s2u k == T.u2s u) = T.N) := by
  unfold STables.wf at h
  simp only [Bool.and_eq_true, allFin_iff, anyFin_iff, beq_iff_eq] at h
  obtain ⟨⟨⟨⟨h1, h2⟩, h3⟩, h4⟩, h5⟩ := h
  refine ⟨h1, h2, h3, h4, ?_, h5⟩
  intro k
  obtain ⟨u, hu⟩ := h4 k
  rw [hu, h3]

/-- **maps_consistent** (primitive): `s2p ∘ p2s = p2s`, `s2p` maps onto the image of the injective `p2s`. -/
theorem maps_consistent_primitive {np ns nt : Nat} (T : PTables np ns nt) (h : T.wf = true) :
    (∀ j, T.s2p (T.p2s j) = T.p2s j) ∧ (∀ k, ∃ j, T.s2p k = T.p2s j) ∧ Function.Injective T.p2s ∧
    (∀ k, T.s2p (T.s2p k) = T.s2p k) := by
  unfold PTables.wf at h
  simp only [Bool.and_eq_true, allFin_iff, anyFin_iff, beq_iff_eq, Bool.or_eq_true, Bool.not_eq_true'] at h
  obtain ⟨⟨⟨⟨⟨⟨⟨⟨h1, h2⟩, h3⟩, _⟩, _⟩, _⟩, _⟩, _⟩, _⟩ := h
  refine ⟨h1, h2, ?_, ?_⟩
  · intro j j' hj
    rcases h3 j j' with h | h
    · rw [beq_eq_false_iff_ne] at h; exact absurd hj h
    · exact h
  · intro k
    obtain ⟨j, hj⟩ := h2 k
    rw [hj, h1]

/-- **translations_simply_transitive**: the stored permutations are bijections, contain the identity,
are closed under composition and inverses, keep every sublattice `{k : s2p k = r}` and act simply
transitively on it (exactly one translation carries the representative to a given atom). -/
theorem translations_simply_transitive {np ns nt : Nat} (T : PTables np ns nt) (h : T.wf = true) :
    (∀ t, Function.Bijective (T.perms t)) ∧
    (∃ t, ∀ i, T.perms t i = i) ∧
    (∀ t t', ∃ t'', ∀ i, T.perms t'' i = T.perms t (T.perms t' i)) ∧
    (∀ t, ∃ t', ∀ i, T.perms t' (T.perms t i) = i) ∧
    (∀ t k, T.s2p (T.perms t k) = T.s2p k) ∧
    (∀ k, ∃! t, T.perms t (T.s2p k) = k) := by
  unfold PTables.wf at h
  simp only [Bool.and_eq_true, allFin_iff, anyFin_iff, beq_iff_eq, Bool.or_eq_true, Bool.not_eq_true'] at h
  obtain ⟨⟨⟨⟨⟨⟨⟨⟨_, _⟩, _⟩, h4⟩, h5⟩, h6⟩, h7⟩, h8⟩, h9⟩ := h
  refine ⟨?_, h5, h6, h7, h8, ?_⟩
  · intro t
    apply Finite.injective_iff_bijective.mp
    intro i i' hi
    rcases h4 t i i' with h | h
    · rw [beq_eq_false_iff_ne] at h; exact absurd hi h
    · exact h
  · intro k
    obtain ⟨t, ht, hu⟩ := countFin_one _ (h9 k)
    exact ⟨t, by simpa using ht, fun t' ht' => hu t' (by simpa using ht')⟩

open Finset in
/-- **translations_simply_transitive** from the smaller certificate `wfSmall` (identity, closure,
sublattices kept, freeness at the representatives, `n_s = n_t·n_p`): the orbit map of every
representative is injective into its sublattice, the sublattices partition the atoms, so by counting
each orbit is the whole sublattice — exactly one translation carries the representative to a given atom. -/
theorem translations_simply_transitive_small {np ns nt : Nat} (T : PTables np ns nt) (h : T.wfSmall = true) :
    (∃ t, ∀ i, T.perms t i = i) ∧
    (∀ t t', ∃ t'', ∀ i, T.perms t'' i = T.perms t (T.perms t' i)) ∧
    (∀ t k, T.s2p (T.perms t k) = T.s2p k) ∧
    (∀ k, ∃! t, T.perms t (T.s2p k) = k) := by
  unfold PTables.wfSmall at h
  simp only [Bool.and_eq_true, allFin_iff, anyFin_iff, beq_iff_eq, Bool.or_eq_true, Bool.not_eq_true'] at h
  obtain ⟨⟨⟨⟨⟨⟨⟨hcount, h1⟩, h2⟩, h3⟩, hid⟩, hcl⟩, hfree⟩, hsub⟩ := h
  have hinj : Function.Injective T.p2s := by
    intro j j' hj
    rcases h3 j j' with h | h
    · rw [beq_eq_false_iff_ne] at h; exact absurd hj h
    · exact h
  have hfree' : ∀ j : Fin np, Function.Injective (fun t => T.perms t (T.p2s j)) := by
    intro j t t' ht
    rcases hfree t t' j with h | h
    · rw [beq_eq_false_iff_ne] at h; exact absurd ht h
    · exact h
  refine ⟨hid, hcl, hsub, ?_⟩
  -- sublattices
  let S : Fin np → Finset (Fin ns) := fun j => univ.filter (fun k => T.s2p k = T.p2s j)
  have hdisj : ∀ j ∈ (univ : Finset (Fin np)), ∀ j' ∈ (univ : Finset (Fin np)), j ≠ j' → Disjoint (S j) (S j') := by
    intro j _ j' _ hne
    rw [Finset.disjoint_left]
    intro k hk hk'
    simp only [S, mem_filter, mem_univ, true_and] at hk hk'
    exact hne (hinj (hk.symm.trans hk'))
  have hcover : (univ : Finset (Fin np)).biUnion S = univ := by
    ext k
    simp only [mem_biUnion, mem_univ, true_and, iff_true, S, mem_filter]
    exact h2 k
  have hsum : ∑ j, (S j).card = ns := by
    rw [← Finset.card_biUnion hdisj, hcover, Finset.card_univ, Fintype.card_fin]
  have himg : ∀ j, (univ.image (fun t => T.perms t (T.p2s j))) ⊆ S j := by
    intro j k hk
    simp only [mem_image, mem_univ, true_and] at hk
    obtain ⟨t, rfl⟩ := hk
    simp only [S, mem_filter, mem_univ, true_and]
    rw [hsub, h1]
  have hle : ∀ j ∈ (univ : Finset (Fin np)), nt ≤ (S j).card := by
    intro j _
    calc nt = (univ.image (fun t : Fin nt => T.perms t (T.p2s j))).card := by
            rw [Finset.card_image_of_injective _ (hfree' j), Finset.card_univ, Fintype.card_fin]
      _ ≤ (S j).card := Finset.card_le_card (himg j)
  have hconst : ∑ _j : Fin np, nt = ns := by
    rw [Finset.sum_const, Finset.card_univ, Fintype.card_fin, smul_eq_mul, hcount, Nat.mul_comm]
  have heq : ∀ j ∈ (univ : Finset (Fin np)), nt = (S j).card :=
    (Finset.sum_eq_sum_iff_of_le hle).mp (by rw [hconst, hsum])
  intro k
  obtain ⟨j, hj⟩ := h2 k
  have hfull : univ.image (fun t => T.perms t (T.p2s j)) = S j := by
    apply Finset.eq_of_subset_of_card_le (himg j)
    rw [Finset.card_image_of_injective _ (hfree' j), Finset.card_univ, Fintype.card_fin]
    exact le_of_eq (heq j (mem_univ _)).symm
  have hk : k ∈ S j := by simp only [S, mem_filter, mem_univ, true_and]; exact hj
  rw [← hfull] at hk
  simp only [mem_image, mem_univ, true_and] at hk
  obtain ⟨t, ht⟩ := hk
  refine ⟨t, by rw [hj]; exact ht, ?_⟩
  intro t' ht'
  rw [hj] at ht'
  exact hfree' j (ht'.trans ht.symm)

/-- non-vacuity: two atoms of one sublattice, translation of order two -/
def Tex : PTables 1 2 2 where
  p2s := fun _ => 0
  s2p := fun _ => 0
  perms := fun t i => t + i
example : Tex.wf = true := by decide
example : Tex.wfSmall = true := by decide
def Sex : STables 2 4 where
  s2u := fun k => if k.1 < 2 then 0 else 2
  u2s := fun u => if u.1 = 0 then 0 else 2
  N := 2
example : Sex.wf = true := by decide

end PhononModel.C04

#print axioms PhononModel.C04.xgcd_bezout
#print axioms PhononModel.C04.xgcd_gcd
#print axioms PhononModel.C04.xgcd_terminates
#print axioms PhononModel.C04.elementary_steps_unimodular
#print axioms PhononModel.C04.snf_invariant_reachable
#print axioms PhononModel.C04.snf_invariant
#print axioms PhononModel.C04.snf_unimodular
#print axioms PhononModel.C04.snf_det_product
#print axioms PhononModel.C04.snf_diagonal
#print axioms PhononModel.C04.snf_positive
#print axioms PhononModel.C04.snf_result
#print axioms PhononModel.C04.snf_pass_decreases
#print axioms PhononModel.C04.snf_next_progress
#print axioms PhononModel.C04.snf_terminates
#print axioms PhononModel.C04.isSNF_sound
#print axioms PhononModel.C04.snf_divisibility_chain_counterexample
#print axioms PhononModel.C04.snf_rejects_zero_first_column
#print axioms PhononModel.C04.snf_points_are_reps
#print axioms PhononModel.C04.snf_route_points_are_reps
#print axioms PhononModel.C04.snf_points_count
#print axioms PhononModel.C04.complete_residue_system_sound
#print axioms PhononModel.C04.classic_eq_snf_as_sets
#print axioms PhononModel.C04.frame_complete_partial
#print axioms PhononModel.C04.frame_complete
#print axioms PhononModel.C04.surrounding_frame_formula
#print axioms PhononModel.C04.snf_route_lattice_as_coded_counterexample
#print axioms PhononModel.C04.trim_rejects_nonTiling
#print axioms PhononModel.C04.supercell_built_only_if_tiling
#print axioms PhononModel.C04.supercell_rejects_negative_det
#print axioms PhononModel.C04.primitive_built_only_if_consistent
#print axioms PhononModel.C04.centring_tables
#print axioms PhononModel.C04.centringOk_sound
#print axioms PhononModel.C04.maps_consistent_supercell
#print axioms PhononModel.C04.maps_consistent_primitive
#print axioms PhononModel.C04.translations_simply_transitive
#print axioms PhononModel.C04.translations_simply_transitive_small
