import PhononModel.Lemmas.Displacement
import PhononModel.Lemmas.FDPipeline
import PhononModel.Lemmas.DesignRank
import PhononModel.Lemmas.FDStaged
import PhononModel.Lemmas.FDLit
import PhononModel.Lemmas.FDLitStaged
import PhononModel.Lemmas.SymBook
import Mathlib.Tactic.NormNum
/-!
# C01 — the finite-displacement solver recovers exactly harmonic force constants

Theorems are about `Model/Displacement.lean` (over `Int`) and `Model/FDSolver.lean` (over every field,
an ordered field where positivity is used — so ℚ, the driver's scalars, and ℝ).  `./check C01` ties both
models to `harmonic/displacement.py`, `harmonic/force_constants.py` and `c/phonopy.c: distribute_fc2`
by running them on the same inputs, evaluates the certificates `siteCert`/`doneCert` on the
implementation's own tables, and evaluates the property itself on the implementation.
-/
set_option linter.unusedSectionVars false
namespace PhononModel.C01
open PhononModel PhononModel.Disp PhononModel.FD Finset Matrix

/-! ## (1), (2): the displacement set is always sufficient -/

/-- (1) for EVERY list `S` of integer matrices containing the identity (crystallographic or not) and every
option combination, `get_least_displacements` returns directions whose site-symmetry images contain three
vectors with non-zero determinant (case analysis of the three return paths). -/
theorem disp_sufficient (S : List M3) (hI : M3.one ∈ S) (o : Options) :
    ∃ L, leastDisplacements S o = some L ∧ Rank3 (images S L) := by
  have hax : ∃ a b c rest, directionsAxis = a :: b :: c :: rest ∧ Disp.det3 a b c ≠ 0 :=
    ⟨_, _, _, _, rfl, by decide⟩
  have hdg : ∃ a b c rest, directionsDiag = a :: b :: c :: rest ∧ Disp.det3 a b c ≠ 0 :=
    ⟨_, _, _, _, rfl, by decide⟩
  obtain ⟨a, b, c, rest, hd, h3⟩ : ∃ a b c rest,
      (if o.isDiagonal then directionsDiag else directionsAxis) = a :: b :: c :: rest ∧ Disp.det3 a b c ≠ 0 := by
    split
    · exact hdg
    · exact hax
  obtain ⟨D, hD, hR⟩ := getDisplacement_sufficient S hI _ a b c rest hd h3 o.isTrigonal
  have hL : leastDisplacements S o = some (D.flatMap fun d =>
      match o.plusminus with
      | .auto => if needsMinus d S then [d, d.neg] else [d]
      | .on => [d, d.neg]
      | .off => [d]) := by
    unfold leastDisplacements; rw [hD]; rfl
  refine ⟨_, hL, ?_⟩
  refine Rank3.mono (images_mono ?_) hR
  intro d hd
  rw [List.mem_flatMap]
  refine ⟨d, hd, ?_⟩
  cases o.plusminus
  · dsimp only; split <;> simp
  · simp
  · simp

/-- the same for `get_displacement` with any direction table whose first three rows are independent -/
theorem disp_sufficient_any_table (S : List M3) (hI : M3.one ∈ S) (a b c : V3) (rest : List V3)
    (h3 : Disp.det3 a b c ≠ 0) (isTrigonal : Bool) :
    ∃ D, getDisplacement S (a :: b :: c :: rest) isTrigonal = some D ∧ Rank3 (images S D) :=
  getDisplacement_sufficient S hI _ a b c rest rfl h3 isTrigonal

/-- (2) the `auto` rule is sound: when `-d` is not added, some site operation sends `d` to `-d` … -/
theorem plusminus_auto_sound (d : V3) (S : List M3) (h : needsMinus d S = false) :
    ∃ r ∈ S, r.rot d = d.neg := needsMinus_false h

/-- … and exact: `-d` is added only when no site operation does. -/
theorem plusminus_auto_exact (d : V3) (S : List M3) (h : needsMinus d S = true) :
    ∀ r ∈ S, r.rot d ≠ d.neg := needsMinus_true h

/-! non-vacuity: the identity-only site group takes the third return path, a 3-fold axis the second -/
example : leastDisplacements [M3.one] ⟨.auto, true, false⟩ =
    some [⟨1,0,0⟩, ⟨-1,0,0⟩, ⟨0,1,0⟩, ⟨0,-1,0⟩, ⟨0,0,1⟩, ⟨0,0,-1⟩] := by decide
example : getDisplacement [M3.one, ⟨⟨0,1,0⟩, ⟨0,0,1⟩, ⟨1,0,0⟩⟩] directionsDiag true =
    some [⟨1,0,0⟩, ⟨0,0,1⟩, ⟨0,1,0⟩, ⟨0,1,0⟩] := by decide

/-! ## (3): the pseudo-inverse step -/

variable {K : Type} [Field K]

/-- (3a) full column rank ⇒ the normal-equation left inverse recovers `X` from `U·X`. -/
theorem pinv_recovers {ι κ : Type} [Fintype ι] [Fintype κ] [DecidableEq ι]
    (U : Matrix ι (Fin 3) K) (X : Matrix (Fin 3) κ K) (h : IsUnit (Uᵀ * U).det) :
    (Uᵀ * U)⁻¹ * Uᵀ * (U * X) = X := pinv_recovers_matrix U X h

/-- (3a′) the same for the model's own adjugate inverse and fold-based sums -/
theorem pinv_recovers_model {nd m : Nat} (U : Fin nd → Fin m → Vec3 K) (X : Mat3 K)
    (h : FD.det3 (gram U) ≠ 0) :
    applyPinv (pinvOf (inv3 (gram U)) U) (fun k s b => -(∑ c, U k s c * X c b)) = X :=
  applyPinv_recovers U X _ (fun _ _ _ => rfl) h

section ordered
variable {F : Type} [Field F] [LinearOrder F] [IsStrictOrderedRing F]

/-- (3b) three independent rows ⇒ `det (UᵀU) ≠ 0` over any linearly ordered field (positive definiteness). -/
theorem gram_det_ne_zero {ι : Type} [Fintype ι] (U : Matrix ι (Fin 3) F) (p₁ p₂ p₃ : ι)
    (h : (Matrix.of ![U p₁, U p₂, U p₃]).det ≠ 0) : (Uᵀ * U).det ≠ 0 :=
  det_gram_ne_zero U p₁ p₂ p₃ h

/-- (3c) **the fit is never under-determined**: for every site-symmetry list containing the identity, every
option combination, every non-singular lattice `Lc` and non-zero scale factors, the design matrix built from
the directions the model emits has `det (UᵀU) ≠ 0` — composition of (1), the similarity transformation to
Cartesian coordinates and (3b). -/
theorem design_never_underdetermined (S : List M3) (hI : M3.one ∈ S) (o : Options) :
    ∃ L, leastDisplacements S o = some L ∧
      ∀ (Lc : Matrix (Fin 3) (Fin 3) F), Lc.det ≠ 0 →
      ∀ (Rc : Fin S.length → Mat3 F), (∀ s, ofMat (Rc s) * Lc = Lc * castM (S.get s)) →
      ∀ (c : Fin L.length → F), (∀ k, c k ≠ 0) →
      ∀ (u : Fin L.length → Vec3 F), (∀ k, u k = c k • (Lc *ᵥ castV (L.get k))) →
        FD.det3 (gram (rotDisps Rc u)) ≠ 0 := by
  obtain ⟨L, hL, hrank⟩ := disp_sufficient S hI o
  refine ⟨L, hL, ?_⟩
  intro Lc hLc Rc hsim c hc u hu
  refine design_full_rank (fun s => S.get s) (fun k => L.get k) ?_ Lc hLc Rc hsim c hc u hu
  rw [List.ofFn_get, List.ofFn_get]
  exact hrank

end ordered

/-! ## (4), (5), (6): solver rows, distribution, pipeline -/

variable [DecidableEq K]

/-- Cartesian matrix is orthogonal -/
def Orthogonal (R : Mat3 K) : Prop := (ofMat R)ᵀ * ofMat R = 1
/-- `Φ(π_g i, π_g j) = R_g Φ(i,j) R_gᵀ` for every listed operation -/
def Invariant {n nrot : Nat} (Φ : FC n K) (perms : Fin nrot → Fin n → Fin n) (R : Fin nrot → Mat3 K) : Prop :=
  ∀ g i j, ofMat (Φ (perms g i) (perms g j)) = ofMat (R g) * ofMat (Φ i j) * (ofMat (R g))ᵀ
/-- index-permutation symmetry -/
def PermSym {n : Nat} (Φ : FC n K) : Prop := ∀ i j k l, Φ i j k l = Φ j i l k
/-- the supplied forces are those of the harmonic crystal `Φ`: `F_k(j) = -Φ(j,a)·u_k` -/
def HarmonicForces {n : Nat} (Φ : FC n K) (D : AtomData n K) : Prop :=
  ∀ k j β, D.F k j β = -(∑ α, Φ j D.atom β α * D.u k α)
/-- `D`'s site-symmetry tables are consistent with the listed operations (what `siteCert` checks) -/
def SiteConsistent {n nrot : Nat} (R : Fin nrot → Mat3 K) (perms : Fin nrot → Fin n → Fin n) (D : AtomData n K) : Prop :=
  ∃ ops : Fin D.m → Fin nrot, ∀ s, perms (ops s) D.atom = D.atom ∧ (∀ i, perms (ops s) (D.rho s i) = i) ∧ D.R s = R (ops s)

theorem siteCert_sound {n nrot : Nat} (R : Fin nrot → Mat3 K) (perms : Fin nrot → Fin n → Fin n) (D : AtomData n K)
    (ops : Fin D.m → Fin nrot) (h : siteCert R perms D ops = true) : SiteConsistent R perms D :=
  ⟨ops, fun s => siteCert_spec h s⟩

/-- (4) harmonic forces, Φ invariant under the site group (in the `rot_map_syms` form
`Φ(a,i) = R_s Φ(a,ρ_s i) R_sᵀ`), index-permutation symmetry, orthogonal rotations, full rank
⇒ the solved block row is `Φ(a,·)`. -/
theorem solve_row_exact {n nd m : Nat} (Φ : FC n K) (a : Fin n)
    (R : Fin m → Mat3 K) (rho : Fin m → Fin n → Fin n) (u : Fin nd → Vec3 K) (F : Fin nd → Fin n → Vec3 K)
    (hR : ∀ s, Orthogonal (R s))
    (hsite : ∀ s i, ofMat (Φ a i) = ofMat (R s) * ofMat (Φ a (rho s i)) * (ofMat (R s))ᵀ)
    (hperm : PermSym Φ)
    (hF : ∀ k j β, F k j β = -(∑ α, Φ j a β α * u k α))
    (hdet : FD.det3 (gram (rotDisps R u)) ≠ 0) :
    solveRows R rho u F = some (fun i => Φ a i) :=
  solveRows_exact Φ a R rho u F hR hsite hperm hF hdet

/-- (4′) the site-group hypothesis of (4) follows from invariance under the listed operations and the
table consistency the check certifies per case. -/
theorem site_invariance_of_invariant {n nrot : Nat} (Φ : FC n K) (perms : Fin nrot → Fin n → Fin n)
    (R : Fin nrot → Mat3 K) (hinv : Invariant Φ perms R) (D : AtomData n K) (hD : SiteConsistent R perms D) :
    ∀ s i, ofMat (Φ D.atom i) = ofMat (D.R s) * ofMat (Φ D.atom (D.rho s i)) * (ofMat (D.R s))ᵀ := by
  obtain ⟨ops, h⟩ := hD
  intro s i
  obtain ⟨h1, h2, h3⟩ := h s
  have := hinv (ops s) D.atom (D.rho s i)
  rw [h1, h2 i] at this
  rw [h3]; exact this

/-- (5) **distribution is exact for ANY valid choice of `map_syms`**: Φ invariant under every listed operation,
orthogonal Cartesian matrices, rows exact where the atom maps to itself and zero elsewhere (the
`np.zeros` initialisation), the done atom of every other target present among the targets
⇒ after `distribute_fc2` every target row equals Φ and no other row is touched. -/
theorem distribute_exact {M Mr n nrot : Nat} (Φ : FC n K) (targets : Fin M → Fin n) (fcIdx : Fin M → Fin Mr)
    (R : Fin nrot → Mat3 K) (perms : Fin nrot → Fin n → Fin n) (mapSyms : Fin n → Fin nrot) (fc : Rows Mr n K)
    (hinj : Function.Injective fcIdx) (hR : ∀ g, Orthogonal (R g)) (hinv : Invariant Φ perms R)
    (hdone : ∀ i, perms (mapSyms (targets i)) (targets i) = targets i → fc (fcIdx i) = Φ (targets i))
    (htodo : ∀ i, perms (mapSyms (targets i)) (targets i) ≠ targets i → fc (fcIdx i) = fun _ _ _ => 0)
    (hmem : ∀ i, perms (mapSyms (targets i)) (targets i) ≠ targets i →
      ∃ i', targets i' = perms (mapSyms (targets i)) (targets i) ∧
        perms (mapSyms (targets i')) (targets i') = targets i') :
    ∃ out, distribute targets fcIdx R perms mapSyms fc = some out ∧ (∀ i, out (fcIdx i) = Φ (targets i)) ∧
      (∀ r, (∀ i, fcIdx i ≠ r) → out r = fc r) :=
  distribute_exact_core Φ targets fcIdx R perms mapSyms fc hinj hR hinv hdone htodo hmem

/-- the mapping `_get_sym_mappings_from_permutations` computes is one of the valid choices -/
theorem symMappings_valid {n nrot : Nat} (perms : Fin nrot → Fin n → Fin n) (done : List (Fin n))
    (hcert : doneCert perms done = true) (ms : Fin n → Fin nrot) (h : symMappings perms done = some ms) :
    (∀ a, perms (ms a) a ∈ done) ∧ (∀ d ∈ done, perms (ms d) d = d) :=
  ⟨symMappings_some h, fun d hd => doneCert_spec hcert d hd _ (symMappings_some h d)⟩

/-- (6) **the pipeline is exact** (`FDFCSolver._run`, direct branch; `atomList = id` is the full layout,
`atomList = p2s_map` the compact one): forces of a harmonic crystal whose Φ is invariant under the listed
operations and index-permutation symmetric, consistent tables, enough displaced atoms, full-rank designs
⇒ the result is `Φ` restricted to the stored rows. -/
theorem fd_pipeline_exact {M n nrot : Nat} (Φ : FC n K) (atomList : Fin M → Fin n)
    (hinjA : Function.Injective atomList) (R : Fin nrot → Mat3 K) (perms : Fin nrot → Fin n → Fin n)
    (data : List (AtomData n K))
    (hR : ∀ g, Orthogonal (R g)) (hinv : Invariant Φ perms R) (hperm : PermSym Φ)
    (hF : ∀ D ∈ data, HarmonicForces Φ D)
    (hsite : ∀ D ∈ data, SiteConsistent R perms D)
    (hrank : ∀ D ∈ data, FD.det3 (gram (rotDisps D.R D.u)) ≠ 0)
    (hrow : ∀ D ∈ data, ∃ r, atomList r = D.atom)
    (hdone : doneCert perms (data.map (·.atom)) = true)
    (hcover : ∀ a, ∃ g, perms g a ∈ data.map (·.atom)) :
    runDirect atomList R perms data = some (fun r => Φ (atomList r)) := by
  refine runDirect_exact Φ atomList hinjA R perms data hR hinv ?_ hrow (doneCert_spec hdone) hcover
  intro D hD
  obtain ⟨ops, hops⟩ := hsite D hD
  refine solveRows_exact Φ D.atom D.R D.rho D.u D.F ?_ (site_invariance_of_invariant Φ perms R hinv D ⟨ops, hops⟩)
    hperm (hF D hD) (hrank D hD)
  intro s
  rw [(hops s).2.2]; exact hR _

/-- corollary: full layout -/
theorem full_exact {n nrot : Nat} (Φ : FC n K) (R : Fin nrot → Mat3 K) (perms : Fin nrot → Fin n → Fin n)
    (data : List (AtomData n K))
    (hR : ∀ g, Orthogonal (R g)) (hinv : Invariant Φ perms R) (hperm : PermSym Φ)
    (hF : ∀ D ∈ data, HarmonicForces Φ D) (hsite : ∀ D ∈ data, SiteConsistent R perms D)
    (hrank : ∀ D ∈ data, FD.det3 (gram (rotDisps D.R D.u)) ≠ 0)
    (hdone : doneCert perms (data.map (·.atom)) = true)
    (hcover : ∀ a, ∃ g, perms g a ∈ data.map (·.atom)) :
    runDirect (id : Fin n → Fin n) R perms data = some Φ :=
  fd_pipeline_exact Φ id (fun _ _ h => h) R perms data hR hinv hperm hF hsite hrank (fun D _ => ⟨D.atom, rfl⟩) hdone hcover

/-- corollary: compact layout (`atom_list = p2s_map`, injective, contains the displaced atoms) -/
theorem compact_exact {np n nrot : Nat} (Φ : FC n K) (p2s : Fin np → Fin n) (hinjP : Function.Injective p2s)
    (R : Fin nrot → Mat3 K) (perms : Fin nrot → Fin n → Fin n) (data : List (AtomData n K))
    (hR : ∀ g, Orthogonal (R g)) (hinv : Invariant Φ perms R) (hperm : PermSym Φ)
    (hF : ∀ D ∈ data, HarmonicForces Φ D) (hsite : ∀ D ∈ data, SiteConsistent R perms D)
    (hrank : ∀ D ∈ data, FD.det3 (gram (rotDisps D.R D.u)) ≠ 0)
    (hrow : ∀ D ∈ data, ∃ r, p2s r = D.atom)
    (hdone : doneCert perms (data.map (·.atom)) = true)
    (hcover : ∀ a, ∃ g, perms g a ∈ data.map (·.atom)) :
    runDirect p2s R perms data = some (fun r => Φ (p2s r)) :=
  fd_pipeline_exact Φ p2s hinjP R perms data hR hinv hperm hF hsite hrank hrow hdone hcover

/-- corollary: `distribute_force_constants_by_translations` expands exact compact rows to the full array
(operations = pure translations of the primitive cell, Cartesian matrices orthogonal — the identity in exact
arithmetic —, done set `p2s_map`). -/
theorem translations_exact {np n nt : Nat} (Φ : FC n K) (p2s : Fin np → Fin n)
    (RT : Fin nt → Mat3 K) (permsT : Fin nt → Fin n → Fin n)
    (hRT : ∀ t, Orthogonal (RT t)) (hinvT : Invariant Φ permsT RT)
    (hdoneT : doneCert permsT ((List.finRange np).map p2s) = true)
    (hcoverT : ∀ a, ∃ t, permsT t a ∈ (List.finRange np).map p2s)
    (fc : Rows n n K) (hfc : ∀ i, fc (p2s i) = Φ (p2s i)) (hzero : ∀ r, (∀ i, p2s i ≠ r) → fc r = fun _ _ _ => 0) :
    ∃ mt, symMappings permsT ((List.finRange np).map p2s) = some mt ∧
      distribute (id : Fin n → Fin n) (id : Fin n → Fin n) RT permsT mt fc = some Φ := by
  obtain ⟨mt, hmt⟩ := symMappings_isSome hcoverT
  have hmtd := symMappings_some hmt
  have hineqT := doneCert_spec hdoneT
  have hmemP : ∀ a, a ∈ (List.finRange np).map p2s ↔ ∃ i, p2s i = a := by
    intro a; simp [List.mem_map]
  refine ⟨mt, hmt, ?_⟩
  obtain ⟨out, hout, hex, _⟩ := distribute_exact_core Φ (id : Fin n → Fin n) (id : Fin n → Fin n) RT permsT mt fc
    (fun _ _ h => h) hRT hinvT
    (by
      intro r h
      obtain ⟨i, hi⟩ := (hmemP _).mp (hmtd r)
      have : p2s i = r := by rw [hi]; exact h
      show fc r = Φ r
      rw [← this]; exact hfc i)
    (by
      intro r h
      show fc r = _
      apply hzero
      intro i hi
      exact h (hineqT r ((hmemP _).mpr ⟨i, hi⟩) _ (hmtd r)))
    (by
      intro r _
      exact ⟨permsT (mt r) r, rfl, hineqT _ (hmtd r) _ (hmtd _)⟩)
  rw [hout]
  congr 1
  funext r
  exact hex r

/-- (6′) the two-stage branch of `_run` (`atom_list is None and primitive is not None`) -/
theorem fd_pipeline_twostage_exact {np n nrot nt : Nat} (Φ : FC n K) (p2s : Fin np → Fin n)
    (hinjP : Function.Injective p2s) (R : Fin nrot → Mat3 K) (perms : Fin nrot → Fin n → Fin n)
    (RT : Fin nt → Mat3 K) (permsT : Fin nt → Fin n → Fin n) (data : List (AtomData n K))
    (hR : ∀ g, Orthogonal (R g)) (hinv : Invariant Φ perms R) (hperm : PermSym Φ)
    (hRT : ∀ t, Orthogonal (RT t)) (hinvT : Invariant Φ permsT RT)
    (hF : ∀ D ∈ data, HarmonicForces Φ D) (hsite : ∀ D ∈ data, SiteConsistent R perms D)
    (hrank : ∀ D ∈ data, FD.det3 (gram (rotDisps D.R D.u)) ≠ 0)
    (hrow : ∀ D ∈ data, ∃ r, p2s r = D.atom)
    (hdone : doneCert perms (data.map (·.atom)) = true)
    (hcover : ∀ a, ∃ g, perms g a ∈ data.map (·.atom))
    (hdoneT : doneCert permsT ((List.finRange np).map p2s) = true)
    (hcoverT : ∀ a, ∃ t, permsT t a ∈ (List.finRange np).map p2s) :
    runTwoStage p2s R perms RT permsT data = some Φ := by
  refine runTwoStage_exact Φ p2s hinjP R perms RT permsT data hR hinv hRT hinvT ?_ hrow
    (doneCert_spec hdone) hcover (doneCert_spec hdoneT) hcoverT
  intro D hD
  obtain ⟨ops, hops⟩ := hsite D hD
  refine solveRows_exact Φ D.atom D.R D.rho D.u D.F ?_ (site_invariance_of_invariant Φ perms R hinv D ⟨ops, hops⟩)
    hperm (hF D hD) (hrank D hD)
  intro s
  rw [(hops s).2.2]; exact hR _

/-! ## the C kernel, literally: `distribute_fc2`'s loops equal the closed form -/

/-- the literal loop model of `c/phonopy.c: distribute_fc2` (`atom_list_reverse` table, `continue` on done
atoms, `+=` in source order on the current array) equals the closed form used by (5)/(6) — for all sizes, arrays
and tables — whenever no row that is read (position whose atom maps to itself) is also written (position whose
atom does not). -/
theorem distributeLit_eq_distribute {M Mr n nrot : Nat} (targets : Fin M → Fin n) (fcIdx : Fin M → Fin Mr)
    (R : Fin nrot → Mat3 K) (perms : Fin nrot → Fin n → Fin n) (mapSyms : Fin n → Fin nrot) (fc : Rows Mr n K)
    (hsep : ∀ i i', perms (mapSyms (targets i)) (targets i) ≠ targets i →
      perms (mapSyms (targets i')) (targets i') = targets i' → fcIdx i' ≠ fcIdx i) :
    distributeLit targets fcIdx R perms mapSyms fc = distribute targets fcIdx R perms mapSyms fc :=
  distributeLit_eq targets fcIdx R perms mapSyms fc hsep

/-- in particular for every injective `fc_indices_of_atom_list` (`arange`, `p2s_map`: all call sites) -/
theorem distributeLit_eq_distribute_of_injective {M Mr n nrot : Nat} (targets : Fin M → Fin n)
    (fcIdx : Fin M → Fin Mr) (hinj : Function.Injective fcIdx)
    (R : Fin nrot → Mat3 K) (perms : Fin nrot → Fin n → Fin n) (mapSyms : Fin n → Fin nrot) (fc : Rows Mr n K) :
    distributeLit targets fcIdx R perms mapSyms fc = distribute targets fcIdx R perms mapSyms fc :=
  distributeLit_eq targets fcIdx R perms mapSyms fc (fun i i' h h' e => by
    have := hinj e; subst this; exact h h')

/-- the first C loop builds exactly the table the closed form looks up -/
theorem atom_list_reverse_spec {M n : Nat} (targets : Fin M → Fin n) (mapAtoms : Fin n → Fin n) (d : Fin n) :
    revTable targets mapAtoms d = revIdx targets mapAtoms d := revTable_eq targets mapAtoms d

/-- the pipeline run with the literal kernel is the pipeline the exactness theorems are about -/
theorem runDirectLit_eq_runDirect {M n nrot : Nat} (atomList : Fin M → Fin n) (R : Fin nrot → Mat3 K)
    (perms : Fin nrot → Fin n → Fin n) (data : List (AtomData n K)) :
    runDirectLit atomList R perms data = runDirect atomList R perms data := by
  unfold runDirectLit runDirect
  cases fcDisps atomList data (fun _ _ _ _ => 0) with
  | none => rfl
  | some fc0 =>
    cases symMappings perms (data.map (·.atom)) with
    | none => rfl
    | some ms => exact distributeLit_eq_distribute_of_injective atomList id (fun _ _ h => h) R perms ms fc0

/-- hence (6) for the literal kernel -/
theorem fd_pipeline_exact_literal {M n nrot : Nat} (Φ : FC n K) (atomList : Fin M → Fin n)
    (hinjA : Function.Injective atomList) (R : Fin nrot → Mat3 K) (perms : Fin nrot → Fin n → Fin n)
    (data : List (AtomData n K))
    (hR : ∀ g, Orthogonal (R g)) (hinv : Invariant Φ perms R) (hperm : PermSym Φ)
    (hF : ∀ D ∈ data, HarmonicForces Φ D)
    (hsite : ∀ D ∈ data, SiteConsistent R perms D)
    (hrank : ∀ D ∈ data, FD.det3 (gram (rotDisps D.R D.u)) ≠ 0)
    (hrow : ∀ D ∈ data, ∃ r, atomList r = D.atom)
    (hdone : doneCert perms (data.map (·.atom)) = true)
    (hcover : ∀ a, ∃ g, perms g a ∈ data.map (·.atom)) :
    runDirectLit atomList R perms data = some (fun r => Φ (atomList r)) := by
  rw [runDirectLit_eq_runDirect]
  exact fd_pipeline_exact Φ atomList hinjA R perms data hR hinv hperm hF hsite hrank hrow hdone hcover

theorem runDirectLitT_eq {M n nrot : Nat} (atomList : Fin M → Fin n) (R : Fin nrot → Mat3 K)
    (perms : Fin nrot → Fin n → Fin n) (data : List (AtomData n K)) :
    (runDirectLitT atomList R perms data).map Tab4.read = runDirectLit atomList R perms data :=
  runDirectLitT_spec atomList R perms data

/-! ## `Symmetry` bookkeeping the solver relies on (certificate form where spglib is involved) -/

section symmetry

/-- independent atoms are exactly the fixed points of `map_atoms`, without repetition -/
theorem independent_atoms_spec {n : Nat} (m : Fin n → Fin n) :
    (∀ a, a ∈ independentAtoms m ↔ m a = a) ∧ (independentAtoms m).Nodup :=
  ⟨fun _ => mem_independentAtoms, independentAtoms_nodup m⟩

/-- for tables passing `equivCert`: the independent atoms are orbit representatives — every atom is sent to an
independent atom (its `map_atoms` entry) by some listed operation, `map_operations` finds such an operation, and no
two different independent atoms are related by a listed operation. -/
theorem independent_atoms_are_representatives {n nrot : Nat} (perms : Fin nrot → Fin n → Fin n) (m : Fin n → Fin n)
    (h : equivCert perms m = true) :
    (∀ i, m i ∈ independentAtoms m ∧ ∃ g, mapOperation perms m i = some g ∧ perms g i = m i) ∧
    (∀ a ∈ independentAtoms m, ∀ g, perms g a ∈ independentAtoms m → perms g a = a) :=
  ⟨fun i => ⟨rep_mem_independent h i, mapOperation_spec h i⟩, fun a ha g hb => independent_inequivalent h a ha g hb⟩

/-- `get_site_symmetry(a)` (as selected from the permutation table) is exactly the stabiliser of `a` in the
operation list, in list order, each operation once … -/
theorem site_symmetry_is_stabiliser {n nrot : Nat} (rots : Fin nrot → M3) (perms : Fin nrot → Fin n → Fin n) (a : Fin n) :
    (∀ g, g ∈ siteOps perms a ↔ perms g a = a) ∧ (siteOps perms a).Nodup ∧
    (∀ r, r ∈ siteSymmetry rots perms a ↔ ∃ g, perms g a = a ∧ rots g = r) :=
  ⟨fun _ => mem_siteOps, siteOps_nodup perms a, fun _ => mem_siteSymmetry⟩

/-- … and contains the identity whenever the operation list does. -/
theorem site_symmetry_contains_identity {n nrot : Nat} (rots : Fin nrot → M3) (perms : Fin nrot → Fin n → Fin n)
    (h : identityCert rots perms = true) (a : Fin n) : M3.one ∈ siteSymmetry rots perms a :=
  identity_mem_siteSymmetry h a

/-- `get_least_displacements(symmetry, …)` on the whole crystal: succeeds, and for every independent atom the rows
carrying its number are, in order, the directions of (1) for its site symmetry — whose images have rank 3.
(`_get_force_constants_disps` regroups the data set by exactly this filter.) -/
theorem generate_directions_sufficient {n nrot : Nat} (rots : Fin nrot → M3) (perms : Fin nrot → Fin n → Fin n)
    (m : Fin n → Fin n) (hid : identityCert rots perms = true) (o : Options) :
    ∃ out, generateDirections rots perms m o = some out ∧ (∀ p ∈ out, p.1 ∈ independentAtoms m) ∧
      ∀ a ∈ independentAtoms m, ∃ L, leastDisplacements (siteSymmetry rots perms a) o = some L ∧
        (out.filter (fun p => p.1 = a)).map (·.2) = L ∧ Rank3 (images (siteSymmetry rots perms a) L) := by
  have hex := fun a => disp_sufficient (siteSymmetry rots perms a) (identity_mem_siteSymmetry hid a) o
  obtain ⟨out, hout, hmem, hfil⟩ := go_spec rots perms o (fun a => Classical.choose (hex a)) (independentAtoms m)
    (independentAtoms_nodup m) (fun a _ => (Classical.choose_spec (hex a)).1)
  exact ⟨out, hout, hmem, fun a ha => ⟨_, (Classical.choose_spec (hex a)).1, hfil a ha, (Classical.choose_spec (hex a)).2⟩⟩

end symmetry

section dataset
variable {F : Type} [Field F] [LinearOrder F] [IsStrictOrderedRing F]

/-- (3) **rank statement for the ACTUAL data-set vectors**: `directions_to_displacement_dataset` turns direction `d`
into `d·lattice · distance/‖d·lattice‖`; for every non-singular lattice, non-zero distance and any `norm` with
`norm² = |d·lattice|²` the scale is well defined and non-zero, and the Cartesian design matrix built from these very
vectors and the similarity-transformed site operations has `det(UᵀU) ≠ 0` — the rank statement of (1) is invariant
under the change of basis and the scaling. -/
theorem dataset_design_full_rank (S : List M3) (hI : M3.one ∈ S) (o : Options) :
    ∃ L, leastDisplacements S o = some L ∧
      ∀ (lattice : Mat3 F), (ofMat lattice).det ≠ 0 → ∀ (distance : F), distance ≠ 0 →
      ∀ (norms : Fin L.length → F),
        (∀ k, norms k * norms k = ∑ j, dispCartesian lattice (L.get k) j * dispCartesian lattice (L.get k) j) →
      ∀ (Rc : Fin S.length → Mat3 F), (∀ s, ofMat (Rc s) * (ofMat lattice)ᵀ = (ofMat lattice)ᵀ * castM (S.get s)) →
        (∀ k, norms k ≠ 0) ∧
        FD.det3 (gram (rotDisps Rc (fun k => datasetVector lattice distance (norms k) (L.get k)))) ≠ 0 := by
  obtain ⟨L, hL, hfull⟩ := design_never_underdetermined (F := F) S hI o
  refine ⟨L, hL, ?_⟩
  intro lattice hdet distance hdist norms hnorm Rc hsim
  have hn : ∀ k, norms k ≠ 0 := fun k =>
    norm_ne_zero lattice hdet (leastDisplacements_ne_zero hL _ (List.get_mem L k)) (norms k) (hnorm k)
  refine ⟨hn, ?_⟩
  refine hfull (ofMat lattice)ᵀ (by rwa [Matrix.det_transpose]) Rc hsim (fun k => distance / norms k)
    (fun k => div_ne_zero hdist (hn k)) _ (fun k => ?_)
  funext j
  simp only [datasetVector, dispCartesian_eq, Pi.smul_apply, smul_eq_mul]
  ring

end dataset

/-- (6″) the pipeline with the `Symmetry` bookkeeping modelled: the displaced atoms are the independent atoms of a
`map_atoms` table passing `equivCert` — "enough displaced atoms" and "done atoms pairwise inequivalent" are then
theorems, not hypotheses. -/
theorem fd_pipeline_exact_symmetry {M n nrot : Nat} (Φ : FC n K) (atomList : Fin M → Fin n)
    (hinjA : Function.Injective atomList) (R : Fin nrot → Mat3 K) (perms : Fin nrot → Fin n → Fin n)
    (m : Fin n → Fin n) (hm : equivCert perms m = true)
    (data : List (AtomData n K)) (hatoms : data.map (·.atom) = independentAtoms m)
    (hR : ∀ g, Orthogonal (R g)) (hinv : Invariant Φ perms R) (hperm : PermSym Φ)
    (hF : ∀ D ∈ data, HarmonicForces Φ D)
    (hsite : ∀ D ∈ data, SiteConsistent R perms D)
    (hrank : ∀ D ∈ data, FD.det3 (gram (rotDisps D.R D.u)) ≠ 0)
    (hrow : ∀ D ∈ data, ∃ r, atomList r = D.atom) :
    runDirect atomList R perms data = some (fun r => Φ (atomList r)) :=
  fd_pipeline_exact Φ atomList hinjA R perms data hR hinv hperm hF hsite hrank hrow
    (hatoms ▸ doneCert_independent hm) (fun a => hatoms ▸ independent_cover hm a)

/-! ## the property, with the displacements phonopy itself generated (no rank hypothesis left) -/

section generated
variable {F : Type} [Field F] [LinearOrder F] [IsStrictOrderedRing F] [DecidableEq F]

/-- the design of one displaced atom was produced by `generate_displacements`: site symmetry `S` (integer
matrices, identity included), directions from `get_least_displacements` (any options), Cartesian rotations by
the similarity transformation with a non-singular lattice `Lc`, displacements `c_k · Lc d_k` with non-zero
scale (`directions_to_displacement_dataset`). -/
def GeneratedDesign {n : Nat} (D : AtomData n F) : Prop :=
  ∃ (S : List M3) (o : Options) (L : List V3), M3.one ∈ S ∧ leastDisplacements S o = some L ∧
  ∃ (hm : D.m = S.length) (hn : D.nd = L.length) (Lc : Matrix (Fin 3) (Fin 3) F) (c : Fin D.nd → F),
    Lc.det ≠ 0 ∧ (∀ s, ofMat (D.R s) * Lc = Lc * castM (S.get (Fin.cast hm s))) ∧
    (∀ k, c k ≠ 0 ∧ D.u k = c k • (Lc *ᵥ castV (L.get (Fin.cast hn k))))

theorem generated_design_full_rank {n : Nat} (D : AtomData n F) (h : GeneratedDesign D) :
    FD.det3 (gram (rotDisps D.R D.u)) ≠ 0 := by
  obtain ⟨S, o, L, hI, hL, hm, hn, Lc, c, hLc, hsim, hu⟩ := h
  obtain ⟨atom, nd, m, R, rho, u, F'⟩ := D
  simp only at hm hn hsim hu ⊢
  subst hm hn
  obtain ⟨L', hL', hfull⟩ := design_never_underdetermined (F := F) S hI o
  rw [hL] at hL'
  cases hL'
  exact hfull Lc hLc R (fun s => by simpa using hsim s) c (fun k => (hu k).1) u (fun k => by simpa using (hu k).2)

/-- **C01 over an ordered field**: forces of a harmonic crystal whose force constants are invariant under the
listed space-group operations and index-permutation symmetric, for the displacements phonopy itself
generated ⇒ `FDFCSolver._run` returns exactly that crystal's force constants, full (`atomList = id`) or
compact (`atomList = p2s_map`) — the fit is never under-determined. -/
theorem fd_pipeline_exact_generated {M n nrot : Nat} (Φ : FC n F) (atomList : Fin M → Fin n)
    (hinjA : Function.Injective atomList) (R : Fin nrot → Mat3 F) (perms : Fin nrot → Fin n → Fin n)
    (data : List (AtomData n F))
    (hR : ∀ g, Orthogonal (R g)) (hinv : Invariant Φ perms R) (hperm : PermSym Φ)
    (hF : ∀ D ∈ data, HarmonicForces Φ D)
    (hsite : ∀ D ∈ data, SiteConsistent R perms D)
    (hgen : ∀ D ∈ data, GeneratedDesign D)
    (hrow : ∀ D ∈ data, ∃ r, atomList r = D.atom)
    (hdone : doneCert perms (data.map (·.atom)) = true)
    (hcover : ∀ a, ∃ g, perms g a ∈ data.map (·.atom)) :
    runDirect atomList R perms data = some (fun r => Φ (atomList r)) :=
  fd_pipeline_exact Φ atomList hinjA R perms data hR hinv hperm hF hsite
    (fun D hD => generated_design_full_rank D (hgen D hD)) hrow hdone hcover

end generated

/-! ## the driver's staged evaluators compute exactly the model -/

theorem solveRowsT_eq {n nd m : Nat} (R : Fin m → Mat3 K) (rho : Fin m → Fin n → Fin n)
    (u : Fin nd → Vec3 K) (F : Fin nd → Fin n → Vec3 K) :
    (solveRowsT R rho u F).map Tab3.read = solveRows R rho u F := solveRowsT_spec R rho u F

theorem runDirectT_eq {M n nrot : Nat} (atomList : Fin M → Fin n) (R : Fin nrot → Mat3 K)
    (perms : Fin nrot → Fin n → Fin n) (data : List (AtomData n K)) :
    (runDirectT atomList R perms data).map Tab4.read = runDirect atomList R perms data :=
  runDirectT_spec atomList R perms data

theorem runTwoStageT_eq {np n nrot nt : Nat} (p2s : Fin np → Fin n) (R : Fin nrot → Mat3 K)
    (perms : Fin nrot → Fin n → Fin n) (RT : Fin nt → Mat3 K) (permsT : Fin nt → Fin n → Fin n)
    (data : List (AtomData n K)) :
    (runTwoStageT p2s R perms RT permsT data).map Tab4.read = runTwoStage p2s R perms RT permsT data :=
  runTwoStageT_spec p2s R perms RT permsT data

/-! non-vacuity of (4)–(6): two atoms related by a translation (`R = 1`), a symmetric on-site block,
displacements along the three axes — all hypotheses of `full_exact` hold. -/
def Aex : Mat3 ℚ := fun a b => if a = b then (a.1 + 1 : ℚ) else 0
def Φex : FC 2 ℚ := fun i j a b => if i = j then Aex a b else -Aex a b
def permsEx : Fin 2 → Fin 2 → Fin 2 := fun g i => g + i
def Iex : Mat3 ℚ := fun a b => if a = b then 1 else 0
def Rex : Fin 2 → Mat3 ℚ := fun _ => Iex
def Dex : AtomData 2 ℚ where
  atom := 0
  nd := 3
  m := 1
  R := fun _ => Iex
  rho := fun _ i => i
  u := fun k a => if k = a then 1 / 100 else 0
  F := fun k j β => -(∑ α, Φex j 0 β α * (if k = α then 1 / 100 else 0))

theorem ofMat_Iex : ofMat Iex = 1 := by
  ext a b; simp [Iex, Matrix.one_apply]

example : runDirect (id : Fin 2 → Fin 2) Rex permsEx [Dex] = some Φex := by
  apply full_exact Φex Rex permsEx [Dex]
  · intro g; simp [Orthogonal, Rex, ofMat_Iex]
  · intro g i j
    simp only [Rex, ofMat_Iex, Matrix.one_mul, Matrix.transpose_one, Matrix.mul_one]
    have : (permsEx g i = permsEx g j) ↔ i = j := by
      fin_cases g <;> fin_cases i <;> fin_cases j <;> decide
    ext a b
    simp [Φex, this]
  · intro i j k l
    simp only [Φex, Aex]
    by_cases h : i = j <;> by_cases h' : k = l <;> simp [h, h', eq_comm]
  · intro D hD
    simp only [List.mem_singleton] at hD
    subst hD
    intro k j β
    rfl
  · intro D hD
    simp only [List.mem_singleton] at hD
    subst hD
    exact ⟨fun _ => 0, fun s => ⟨by simp [permsEx, Dex], fun i => by simp [permsEx, Dex], rfl⟩⟩
  · intro D hD
    simp only [List.mem_singleton] at hD
    subst hD
    have hg : gram (rotDisps Dex.R Dex.u) = fun a b => if a = b then (1 / 10000 : ℚ) else 0 := by
      funext a b
      simp only [gram, rotDisps, sumFin_eq, Dex, Iex]
      fin_cases a <;> fin_cases b <;> simp <;> norm_num
    rw [hg]
    simp [FD.det3]
  · decide
  · decide

/-- non-vacuity of `GeneratedDesign`: the example data set is what the model generates for the trivial
site group with `is_plusminus=False, is_diagonal=False` on the unit lattice at distance 1/100. -/
example : GeneratedDesign Dex := by
  refine ⟨[M3.one], ⟨.off, false, false⟩, [⟨1,0,0⟩, ⟨0,1,0⟩, ⟨0,0,1⟩], by simp, by decide, rfl, rfl, 1,
    fun _ => 1 / 100, by simp, ?_, ?_⟩
  · intro s
    have : (castM M3.one : Matrix (Fin 3) (Fin 3) ℚ) = 1 := by
      ext a b; fin_cases a <;> fin_cases b <;> simp [castM, castV, M3.one]
    simp [Dex, ofMat_Iex, this]
  · intro k
    refine ⟨by norm_num, ?_⟩
    funext a
    fin_cases k <;> fin_cases a <;> simp [Dex, castV]

end PhononModel.C01

#print axioms PhononModel.C01.disp_sufficient
#print axioms PhononModel.C01.disp_sufficient_any_table
#print axioms PhononModel.C01.plusminus_auto_sound
#print axioms PhononModel.C01.plusminus_auto_exact
#print axioms PhononModel.C01.pinv_recovers
#print axioms PhononModel.C01.pinv_recovers_model
#print axioms PhononModel.C01.gram_det_ne_zero
#print axioms PhononModel.C01.design_never_underdetermined
#print axioms PhononModel.C01.siteCert_sound
#print axioms PhononModel.C01.solve_row_exact
#print axioms PhononModel.C01.site_invariance_of_invariant
#print axioms PhononModel.C01.distribute_exact
#print axioms PhononModel.C01.symMappings_valid
#print axioms PhononModel.C01.fd_pipeline_exact
#print axioms PhononModel.C01.full_exact
#print axioms PhononModel.C01.compact_exact
#print axioms PhononModel.C01.translations_exact
#print axioms PhononModel.C01.fd_pipeline_twostage_exact
#print axioms PhononModel.C01.distributeLit_eq_distribute
#print axioms PhononModel.C01.distributeLit_eq_distribute_of_injective
#print axioms PhononModel.C01.atom_list_reverse_spec
#print axioms PhononModel.C01.runDirectLit_eq_runDirect
#print axioms PhononModel.C01.fd_pipeline_exact_literal
#print axioms PhononModel.C01.runDirectLitT_eq
#print axioms PhononModel.C01.independent_atoms_spec
#print axioms PhononModel.C01.independent_atoms_are_representatives
#print axioms PhononModel.C01.site_symmetry_is_stabiliser
#print axioms PhononModel.C01.site_symmetry_contains_identity
#print axioms PhononModel.C01.generate_directions_sufficient
#print axioms PhononModel.C01.dataset_design_full_rank
#print axioms PhononModel.C01.fd_pipeline_exact_symmetry
#print axioms PhononModel.C01.generated_design_full_rank
#print axioms PhononModel.C01.fd_pipeline_exact_generated
#print axioms PhononModel.C01.solveRowsT_eq
#print axioms PhononModel.C01.runDirectT_eq
#print axioms PhononModel.C01.runTwoStageT_eq
