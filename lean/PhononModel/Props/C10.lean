import PhononModel.Lemmas.ThermalLimits
import PhononModel.Lemmas.Basic
import PhononModel.Lemmas.IEEE
import PhononModel.Lemmas.ThermalLoop
import Mathlib.Algebra.Order.Floor.Semiring
/-!
# C10 — thermal properties: harmonic closed forms and thermodynamic identities

Objects: `ThermalC.get_free_energy / get_entropy / get_heat_capacity` are *generated* from
`c/phonopy.c` on every run (tools/cexpr2lean.py); `Thermal.modeF / modeS / modeCv / …` and the mesh
sums are the hand-written model of `phonopy/phonon/thermal_properties.py`.  All are polymorphic in the
scalar; here they are instantiated at ℝ with Mathlib's `exp log sinh cosh` (`envR k`, any `k > 0`)
and, for the finiteness clause, at the special-values model `X ℝ`.  `./check C10` runs the same
definitions at `Float` against the implementation.
-/
set_option linter.unusedSectionVars false
set_option linter.unusedVariables false
set_option linter.unreachableTactic false
set_option linter.unusedTactic false
namespace PhononModel.C10
open PhononModel PhononModel.Thermal Real Filter Topology Finset

variable {k T f : ℝ}

/-! ## 1. the compiled and the Python path are the same real functions -/

/-- the generated C entropy is, literally, one of the two modelled Python forms -/
theorem get_entropy_form (k T f : ℝ) :
    ThermalC.get_entropy (envR k) T f 0 = modeS (envR k) T f false ∨
    ThermalC.get_entropy (envR k) T f 0 = modeS' (envR k) T f false := by
  first
    | exact Or.inl rfl
    | exact Or.inr rfl

theorem entropy_C_eq_Py (hk : 0 < k) (hT : 0 < T) (hf : 0 < f) :
    ThermalC.get_entropy (envR k) T f 0 = modeS (envR k) T f false := by
  rcases get_entropy_form k T f with h | h
  · exact h
  · rw [h, modeS'_eq hk hT hf, modeS_eq hk hT hf]

/-- generated C heat capacity in reduced form (`k·x²eˣ/(eˣ-1)²`), for the pinned expression
`KB*val1*val2*val2` as well as for the overflow-free one -/
theorem get_heat_capacity_eq (hk : 0 < k) (hT : 0 < T) (hf : 0 < f) :
    ThermalC.get_heat_capacity (envR k) T f 0 = k * sC (f / (k * T)) := by
  first
    | exact modeCv'_eq hk hT hf
    | (have h1 : 0 < Real.exp (f / (k * T)) - 1 := exp_sub_one_pos (by positivity)
       simp only [ThermalC.get_heat_capacity, envR, sC, ne_eq, not_true_eq_false, if_false]
       generalize Real.exp (f / (k * T)) = A at h1 ⊢
       field_simp)

theorem cv_C_eq_Py (hk : 0 < k) (hT : 0 < T) (hf : 0 < f) :
    ThermalC.get_heat_capacity (envR k) T f 0 = modeCv (envR k) T f false := by
  rw [get_heat_capacity_eq hk hT hf, modeCv_eq hk hT hf]

/-- C free energy + zero-point energy = Python free energy (no hypothesis needed) -/
theorem F_C_plus_ZPE_eq_Py (k T f : ℝ) :
    ThermalC.get_free_energy (envR k) T f 0 + modeZPE (envR k) T f false = modeF (envR k) T f false := by
  simp only [ThermalC.get_free_energy, modeZPE, modeF, envR, ne_eq, not_true_eq_false, if_false,
    Bool.false_eq_true]

/-- classical statistics: the three C functions are the three Python functions -/
theorem classical_C_eq_Py (k T f : ℝ) :
    ThermalC.get_free_energy (envR k) T f 1 = modeF (envR k) T f true ∧
    ThermalC.get_entropy (envR k) T f 1 = modeS (envR k) T f true ∧
    ThermalC.get_heat_capacity (envR k) T f 1 = modeCv (envR k) T f true := by
  refine ⟨?_, ?_, ?_⟩ <;>
  simp [ThermalC.get_free_energy, ThermalC.get_entropy, ThermalC.get_heat_capacity, modeF, modeS, modeCv, envR]

/-- documented closed forms (`x = hν/kT`): `F = kT ln(1-e⁻ˣ) + hν/2`,
`S = k[x/(eˣ-1) - ln(1-e⁻ˣ)]`, `C_V = k x² eˣ/(eˣ-1)²` -/
theorem closed_forms (hk : 0 < k) (hT : 0 < T) (hf : 0 < f) :
    modeF (envR k) T f false = k * T * Real.log (1 - Real.exp (-(f / (k * T)))) + f / 2 ∧
    modeS (envR k) T f false
      = k * (f / (k * T) / (Real.exp (f / (k * T)) - 1) - Real.log (1 - Real.exp (-(f / (k * T))))) ∧
    modeCv (envR k) T f false
      = k * ((f / (k * T)) ^ 2 * Real.exp (f / (k * T)) / (Real.exp (f / (k * T)) - 1) ^ 2) :=
  ⟨modeF_eq k T f, modeS_eq hk hT hf, modeCv_eq hk hT hf⟩

/-- the overflow-free forms of proposed_fixes/c10-thermal-overflow.diff are the same real functions -/
theorem fixed_forms_eq (hk : 0 < k) (hT : 0 < T) (hf : 0 < f) :
    modeS' (envR k) T f false = modeS (envR k) T f false ∧
    modeCv' (envR k) T f false = modeCv (envR k) T f false :=
  ⟨by rw [modeS'_eq hk hT hf, modeS_eq hk hT hf], by rw [modeCv'_eq hk hT hf, modeCv_eq hk hT hf]⟩

/-! ## 2. thermodynamic identities -/

/-- `S = -∂F/∂T` -/
theorem hasDerivAt_F (hk : 0 < k) (hT : 0 < T) (hf : 0 < f) :
    HasDerivAt (fun t => modeF (envR k) t f false) (-(modeS (envR k) T f false)) T :=
  hasDerivAt_modeF hk hT hf

/-- `C_V = T ∂S/∂T` -/
theorem hasDerivAt_S (hk : 0 < k) (hT : 0 < T) (hf : 0 < f) :
    HasDerivAt (fun t => modeS (envR k) t f false) (modeCv (envR k) T f false / T) T :=
  hasDerivAt_modeS hk hT hf

/-- classical statistics: `S_cl = -∂F_cl/∂T` -/
theorem hasDerivAt_F_cl (hk : 0 < k) (hT : 0 < T) (hf : 0 < f) :
    HasDerivAt (fun t => modeF (envR k) t f true) (-(modeS (envR k) T f true)) T :=
  hasDerivAt_modeF_cl hk hT hf

/-- classical statistics: `C_V,cl = T ∂S_cl/∂T`, and `C_V,cl = k` -/
theorem hasDerivAt_S_cl (hk : 0 < k) (hT : 0 < T) (hf : 0 < f) :
    HasDerivAt (fun t => modeS (envR k) t f true) (modeCv (envR k) T f true / T) T ∧
    modeCv (envR k) T f true = k :=
  ⟨hasDerivAt_modeS_cl hk hT hf, by simp [modeCv, envR]⟩

theorem S_nonneg (hk : 0 < k) (hT : 0 < T) (hf : 0 < f) : 0 < modeS (envR k) T f false := by
  rw [modeS_eq hk hT hf]; exact mul_pos hk (sS_pos (by positivity))

theorem cv_nonneg (hk : 0 < k) (hT : 0 < T) (hf : 0 < f) : 0 < modeCv (envR k) T f false := by
  rw [modeCv_eq hk hT hf]; exact mul_pos hk (sC_pos (by positivity))

theorem cv_le_kB (hk : 0 < k) (hT : 0 < T) (hf : 0 < f) : modeCv (envR k) T f false ≤ k := by
  rw [modeCv_eq hk hT hf]
  have := sC_le_one (x := f / (k * T)) (by positivity)
  nlinarith

theorem S_mono_T (hk : 0 < k) (hf : 0 < f) :
    MonotoneOn (fun t => modeS (envR k) t f false) (Set.Ioi 0) := by
  intro a ha b hb hab
  rw [Set.mem_Ioi] at ha hb
  simp only
  rw [modeS_eq hk ha hf, modeS_eq hk hb hf]
  apply mul_le_mul_of_nonneg_left _ (le_of_lt hk)
  exact sS_antitoneOn (Set.mem_Ioi.2 (by positivity)) (Set.mem_Ioi.2 (by positivity))
    (x_antitone hk hf ha hab)

theorem cv_mono_T (hk : 0 < k) (hf : 0 < f) :
    MonotoneOn (fun t => modeCv (envR k) t f false) (Set.Ioi 0) := by
  intro a ha b hb hab
  rw [Set.mem_Ioi] at ha hb
  simp only
  rw [modeCv_eq hk ha hf, modeCv_eq hk hb hf]
  apply mul_le_mul_of_nonneg_left _ (le_of_lt hk)
  exact sC_antitoneOn (Set.mem_Ioi.2 (by positivity)) (Set.mem_Ioi.2 (by positivity))
    (x_antitone hk hf ha hab)

/-! ## 3. limits -/

/-- Dulong–Petit: `C_V → k` per mode as `T → ∞` -/
theorem cv_tendsto_kB (hk : 0 < k) (hf : 0 < f) :
    Tendsto (fun t => modeCv (envR k) t f false) atTop (𝓝 k) := by
  have h := (tendsto_sC_zero.comp (tendsto_x_atTop hk hf)).const_mul k
  rw [mul_one] at h
  refine h.congr' ?_
  filter_upwards [eventually_gt_atTop 0] with t ht
  exact (modeCv_eq hk ht hf).symm

/-- third law: `C_V → 0` and `S → 0` as `T → 0⁺` -/
theorem S_cv_tendsto_zero (hk : 0 < k) (hf : 0 < f) :
    Tendsto (fun t => modeS (envR k) t f false) (𝓝[>] 0) (𝓝 0) ∧
    Tendsto (fun t => modeCv (envR k) t f false) (𝓝[>] 0) (𝓝 0) := by
  constructor
  · have h := (tendsto_sS_atTop.comp (tendsto_x_zero hk hf)).const_mul k
    rw [mul_zero] at h
    refine h.congr' ?_
    filter_upwards [self_mem_nhdsWithin] with t ht
    exact (modeS_eq hk ht hf).symm
  · have h := (tendsto_sC_atTop.comp (tendsto_x_zero hk hf)).const_mul k
    rw [mul_zero] at h
    refine h.congr' ?_
    filter_upwards [self_mem_nhdsWithin] with t ht
    exact (modeCv_eq hk ht hf).symm

/-- `F → hν/2` (zero-point energy) as `T → 0⁺` -/
theorem F_tendsto_zpe (hk : 0 < k) (hf : 0 < f) :
    Tendsto (fun t => modeF (envR k) t f false) (𝓝[>] 0) (𝓝 (f / 2)) := by
  have h1 : Tendsto (fun t : ℝ => k * t) (𝓝[>] 0) (𝓝 (k * 0)) :=
    ((continuous_const.mul continuous_id).tendsto 0).mono_left nhdsWithin_le_nhds
  have h2 := tendsto_sF_atTop.comp (tendsto_x_zero hk hf)
  have h3 := (h1.mul h2).add_const (f / 2)
  simp only [mul_zero, zero_add] at h3
  refine h3.congr' ?_
  filter_upwards [self_mem_nhdsWithin] with t ht
  exact (modeF_eq k t f).symm

/-! ## 4. the mesh quantities: weighted sums over modes above the cutoff -/

section mesh
variable {nq nb : Nat} (w : Fin nq → ℝ) (fr : Fin nq → Fin nb → ℝ) (cut c : ℝ)

/-- `Σ_q Σ_ν [ν > cut] g(ν)·w_q` as a `Finset` double sum -/
noncomputable def msum (g : ℝ → ℝ) : ℝ := ∑ q, ∑ j, if cut < fr q j then g (fr q j) * w q else 0

theorem meshSum_eq (g : ℝ → ℝ) : meshSum w fr cut g = msum w fr cut g := by
  unfold meshSum selSum msum
  rw [sumFin_eq]
  refine Finset.sum_congr rfl fun q _ => ?_
  rw [sumFin_eq, Finset.sum_mul]
  refine Finset.sum_congr rfl fun j _ => ?_
  split_ifs <;> simp

theorem cSum_eq (g : ℝ → ℝ → Int → ℝ) (cl : Int) (hT : 0 < T) :
    cSum g cl w fr cut T = msum w fr cut (fun f => g T f cl) := by
  unfold cSum msum
  rw [sumFin_eq]
  refine Finset.sum_congr rfl fun q _ => ?_
  rw [sumFin_eq]
  refine Finset.sum_congr rfl fun j _ => ?_
  simp [hT]

theorem cSum_cold (g : ℝ → ℝ → Int → ℝ) (cl : Int) (hT : ¬ 0 < T) : cSum g cl w fr cut T = 0 := by
  unfold cSum
  rw [sumFin_eq]
  refine Finset.sum_eq_zero fun q _ => ?_
  rw [sumFin_eq]
  refine Finset.sum_eq_zero fun j _ => ?_
  simp [hT]

theorem wsum_eq : wsum w = ∑ q, w q := sumFin_eq _ _

theorem msum_congr {g h : ℝ → ℝ} (H : ∀ q j, cut < fr q j → g (fr q j) = h (fr q j)) :
    msum w fr cut g = msum w fr cut h := by
  unfold msum
  refine Finset.sum_congr rfl fun q _ => Finset.sum_congr rfl fun j _ => ?_
  split_ifs with hc
  · rw [H q j hc]
  · rfl

theorem msum_add (g h : ℝ → ℝ) : msum w fr cut (fun f => g f + h f) = msum w fr cut g + msum w fr cut h := by
  unfold msum
  rw [← Finset.sum_add_distrib]
  refine Finset.sum_congr rfl fun q _ => ?_
  rw [← Finset.sum_add_distrib]
  refine Finset.sum_congr rfl fun j _ => ?_
  split_ifs <;> ring

theorem msum_smul (a : ℝ) (g : ℝ → ℝ) : msum w fr cut (fun f => a * g f) = a * msum w fr cut g := by
  unfold msum
  rw [Finset.mul_sum]
  refine Finset.sum_congr rfl fun q _ => ?_
  rw [Finset.mul_sum]
  refine Finset.sum_congr rfl fun j _ => ?_
  split_ifs <;> ring

theorem msum_nonneg {g : ℝ → ℝ} (hw : ∀ q, 0 ≤ w q) (H : ∀ q j, cut < fr q j → 0 ≤ g (fr q j)) :
    0 ≤ msum w fr cut g := by
  unfold msum
  refine Finset.sum_nonneg fun q _ => Finset.sum_nonneg fun j _ => ?_
  split_ifs with hc
  · exact mul_nonneg (H q j hc) (hw q)
  · exact le_rfl

theorem msum_mono {g h : ℝ → ℝ} (hw : ∀ q, 0 ≤ w q) (H : ∀ q j, cut < fr q j → g (fr q j) ≤ h (fr q j)) :
    msum w fr cut g ≤ msum w fr cut h := by
  unfold msum
  refine Finset.sum_le_sum fun q _ => Finset.sum_le_sum fun j _ => ?_
  split_ifs with hc
  · exact mul_le_mul_of_nonneg_right (H q j hc) (hw q)
  · exact le_rfl

theorem hasDerivAt_msum {G : ℝ → ℝ → ℝ} {G' : ℝ → ℝ}
    (H : ∀ q j, cut < fr q j → HasDerivAt (fun t => G t (fr q j)) (G' (fr q j)) T) :
    HasDerivAt (fun t => msum w fr cut (G t)) (msum w fr cut G') T := by
  unfold msum
  refine HasDerivAt.fun_sum fun q _ => HasDerivAt.fun_sum fun j _ => ?_
  split_ifs with hc
  · exact (H q j hc).mul_const (w q)
  · exact hasDerivAt_const T 0

/-- **weighted_sum_linear** — every reported quantity is the weighted sum, over the modes above the
cutoff, of the per-mode function, divided by `Σw` and converted; linear in the per-mode function. -/
theorem weighted_sum_linear (hT : 0 < T) (E : ThermalEnv ℝ) (cl : Bool)
    (sf cf : ThermalEnv ℝ → ℝ → ℝ → Bool → ℝ) :
    pyF E c cl w fr cut T
      = (∑ q, ∑ j, if cut < fr q j then modeF E T (fr q j) cl * w q else 0) / (∑ q, w q) * c ∧
    pyS sf E c cl w fr cut T
      = (∑ q, ∑ j, if cut < fr q j then sf E T (fr q j) cl * w q else 0) / (∑ q, w q) * c ∧
    pyCv cf E c cl w fr cut T
      = (∑ q, ∑ j, if cut < fr q j then cf E T (fr q j) cl * w q else 0) / (∑ q, w q) * c ∧
    (∀ (a b : ℝ) (g h : ℝ → ℝ), meshSum w fr cut (fun f => a * g f + b * h f)
      = a * meshSum w fr cut g + b * meshSum w fr cut h) := by
  refine ⟨?_, ?_, ?_, ?_⟩
  · simp only [pyF, hT, if_true, meshSum_eq, wsum_eq, msum]
  · simp only [pyS, hT, if_true, meshSum_eq, wsum_eq, msum]
  · simp only [pyCv, hT, if_true, meshSum_eq, wsum_eq, msum]
  · intro a b g h
    simp only [meshSum_eq]
    rw [msum_add, msum_smul, msum_smul]

/-- `T = 0` branch (any `T` that is not `> 0`): `F` is the zero-point energy of the modes above the
cutoff, `S = C_V = 0`; on the compiled path `F = zero_point_energy`, `S = C_V = 0`. -/
theorem zero_temperature_branch (hT : ¬ 0 < T) (E : ThermalEnv ℝ)
    (sf cf : ThermalEnv ℝ → ℝ → ℝ → Bool → ℝ) (zthr : ℝ) :
    pyF E c false w fr cut T
      = (∑ q, ∑ j, if cut < fr q j then fr q j / 2 * w q else 0) / (∑ q, w q) * c ∧
    pyS sf E c false w fr cut T = 0 ∧ pyCv cf E c false w fr cut T = 0 ∧
    cF E c false w fr cut zthr T = zpe c false w fr zthr ∧
    cS E c false w fr cut T = 0 ∧ cCv E c false w fr cut T = 0 := by
  refine ⟨?_, ?_, ?_, ?_, ?_, ?_⟩
  · simp only [pyF, hT, if_false, meshSum_eq, wsum_eq, msum, modeZPE, Bool.false_eq_true]
  · simp [pyS, hT, meshSum_eq, msum, modeZero]
  · simp [pyCv, hT, meshSum_eq, msum, modeZero]
  · simp [cF, cSum_cold w fr cut _ _ hT]
  · simp [cS, cSum_cold w fr cut _ _ hT]
  · simp [cCv, cSum_cold w fr cut _ _ hT]

theorem zpe_eq (zthr : ℝ) : zpe c false w fr zthr = msum w fr zthr (fun f => f / 2) / (∑ q, w q) * c := by
  simp only [zpe, Bool.false_eq_true, if_false, wsum_eq, msum]
  congr 2
  rw [sumFin_eq]
  refine Finset.sum_congr rfl fun q _ => ?_
  unfold selSum
  rw [sumFin_eq, Finset.sum_mul, div_eq_mul_inv, Finset.sum_mul]
  refine Finset.sum_congr rfl fun j _ => ?_
  split_ifs <;> ring

/-- compiled path = Python path on the mesh, entropy and heat capacity, `T > 0`, `cutoff ≥ 0` -/
theorem mesh_S_cv_C_eq_Py (hk : 0 < k) (hT : 0 < T) (hcut : 0 ≤ cut) :
    cS (envR k) c false w fr cut T = pyS modeS (envR k) c false w fr cut T ∧
    cCv (envR k) c false w fr cut T = pyCv modeCv (envR k) c false w fr cut T := by
  constructor
  · simp only [cS, pyS, hT, if_true, clInt, Bool.false_eq_true, if_false, cSum_eq w fr cut _ _ hT, meshSum_eq]
    rw [msum_congr w fr cut (h := fun f => modeS (envR k) T f false)
      fun q j hc => entropy_C_eq_Py hk hT (lt_of_le_of_lt hcut hc)]
  · simp only [cCv, pyCv, hT, if_true, clInt, Bool.false_eq_true, if_false, cSum_eq w fr cut _ _ hT, meshSum_eq]
    rw [msum_congr w fr cut (h := fun f => modeCv (envR k) T f false)
      fun q j hc => cv_C_eq_Py hk hT (lt_of_le_of_lt hcut hc)]

/-- compiled path = Python path for the free energy **when the zero-point energy is summed over the
same modes as the thermal part** (`zthr = cut`, proposed_fixes/c10-zpe-cutoff.diff) … -/
theorem mesh_F_C_eq_Py (hT : 0 < T) :
    cF (envR k) c false w fr cut cut T = pyF (envR k) c false w fr cut T := by
  simp only [cF, pyF, hT, if_true, clInt, Bool.false_eq_true, if_false, cSum_eq w fr cut _ _ hT, meshSum_eq,
    zpe_eq, wsum_eq]
  rw [← add_mul, ← add_div, ← msum_add]
  rw [msum_congr w fr cut (h := fun f => modeF (envR k) T f false) fun q j hc => ?_]
  have := F_C_plus_ZPE_eq_Py k T (fr q j)
  simpa [modeZPE] using this

/-- … and for the pinned code (`zero_point_energy` summed over `ν > 0`) exactly when no mode lies in
`(0, cutoff]`. -/
theorem mesh_F_C_eq_Py_pinned_partial (hT : 0 < T) (hcut : 0 ≤ cut)
    (hno : ∀ q j, 0 < fr q j → cut < fr q j) :
    cF (envR k) c false w fr cut 0 T = pyF (envR k) c false w fr cut T := by
  rw [← mesh_F_C_eq_Py w fr cut c hT]
  simp only [cF, zpe_eq]
  congr 3
  unfold msum
  refine Finset.sum_congr rfl fun q _ => Finset.sum_congr rfl fun j _ => ?_
  by_cases h0 : 0 < fr q j
  · simp [h0, hno q j h0]
  · have : ¬ cut < fr q j := fun h => h0 (lt_of_le_of_lt hcut h)
    simp [h0, this]

/-- the statement one would like for the pinned code — false, see the counterexample below -/
def MeshFCEqPyPinned : Prop :=
  ∀ (nq nb : Nat) (w : Fin nq → ℝ) (fr : Fin nq → Fin nb → ℝ) (cut c k T : ℝ), 0 < k → 0 < T → 0 ≤ cut →
    cF (envR k) c false w fr cut 0 T = pyF (envR k) c false w fr cut T

/-- one mode of energy 1 below a cutoff of 2: the compiled path reports its zero-point energy, the
Python path reports 0 (replayed on the implementation by the oracle, class `zpe-below-cutoff`). -/
theorem mesh_F_C_eq_Py_pinned_counterexample : ¬ MeshFCEqPyPinned := by
  intro H
  have h := H 1 1 (fun _ => 1) (fun _ _ => 1) 2 1 1 1 one_pos one_pos (by norm_num)
  simp [cF, pyF, zpe, cSum, meshSum, selSum, wsum, sumFin] at h

/-- `S = -∂F/∂T` for the mesh free energy (Python path; `cutoff ≥ 0` so every summed mode is real) -/
theorem mesh_hasDerivAt_F (hk : 0 < k) (hT : 0 < T) (hcut : 0 ≤ cut) :
    HasDerivAt (fun t => pyF (envR k) c false w fr cut t) (-(pyS modeS (envR k) c false w fr cut T)) T := by
  have h1 : HasDerivAt (fun t => msum w fr cut (fun f => modeF (envR k) t f false))
      (msum w fr cut (fun f => -(modeS (envR k) T f false))) T :=
    hasDerivAt_msum w fr cut fun q j hc => hasDerivAt_F hk hT (lt_of_le_of_lt hcut hc)
  have h2 := (h1.div_const (∑ q, w q)).mul_const c
  have h3 : HasDerivAt (fun t => pyF (envR k) c false w fr cut t)
      (msum w fr cut (fun f => -(modeS (envR k) T f false)) / (∑ q, w q) * c) T := by
    refine h2.congr_of_eventuallyEq ?_
    filter_upwards [eventually_gt_nhds hT] with t ht
    simp only [pyF, ht, if_true, meshSum_eq, wsum_eq]
  refine h3.congr_deriv ?_
  simp only [pyS, hT, if_true, meshSum_eq, wsum_eq]
  have : msum w fr cut (fun f => -(modeS (envR k) T f false))
      = -msum w fr cut (fun f => modeS (envR k) T f false) := by
    have := msum_smul w fr cut (-1) (fun f => modeS (envR k) T f false)
    simpa using this
  rw [this]; ring

/-- `C_V = T ∂S/∂T` for the mesh entropy -/
theorem mesh_hasDerivAt_S (hk : 0 < k) (hT : 0 < T) (hcut : 0 ≤ cut) :
    HasDerivAt (fun t => pyS modeS (envR k) c false w fr cut t)
      (pyCv modeCv (envR k) c false w fr cut T / T) T := by
  have h1 : HasDerivAt (fun t => msum w fr cut (fun f => modeS (envR k) t f false))
      (msum w fr cut (fun f => modeCv (envR k) T f false / T)) T :=
    hasDerivAt_msum w fr cut fun q j hc => hasDerivAt_S hk hT (lt_of_le_of_lt hcut hc)
  have h2 := (h1.div_const (∑ q, w q)).mul_const c
  have h3 : HasDerivAt (fun t => pyS modeS (envR k) c false w fr cut t)
      (msum w fr cut (fun f => modeCv (envR k) T f false / T) / (∑ q, w q) * c) T := by
    refine h2.congr_of_eventuallyEq ?_
    filter_upwards [eventually_gt_nhds hT] with t ht
    simp only [pyS, ht, if_true, meshSum_eq, wsum_eq]
  refine h3.congr_deriv ?_
  simp only [pyCv, hT, if_true, meshSum_eq, wsum_eq]
  have : msum w fr cut (fun f => modeCv (envR k) T f false / T)
      = T⁻¹ * msum w fr cut (fun f => modeCv (envR k) T f false) := by
    rw [← msum_smul]; congr 1; funext f; ring
  rw [this]; ring

/-- mesh `S ≥ 0`, `0 ≤ C_V`, both non-decreasing in `T` (weights `≥ 0`, `Σw > 0`, conversion `c ≥ 0`) -/
theorem mesh_S_cv_nonneg_mono (hk : 0 < k) (hcut : 0 ≤ cut) (hw : ∀ q, 0 ≤ w q) (hW : 0 < ∑ q, w q)
    (hc : 0 ≤ c) :
    (∀ T, 0 < T → 0 ≤ pyS modeS (envR k) c false w fr cut T ∧ 0 ≤ pyCv modeCv (envR k) c false w fr cut T) ∧
    MonotoneOn (fun t => pyS modeS (envR k) c false w fr cut t) (Set.Ioi 0) ∧
    MonotoneOn (fun t => pyCv modeCv (envR k) c false w fr cut t) (Set.Ioi 0) := by
  refine ⟨fun T hT => ⟨?_, ?_⟩, ?_, ?_⟩
  · simp only [pyS, hT, if_true, meshSum_eq, wsum_eq]
    exact mul_nonneg (div_nonneg (msum_nonneg w fr cut hw fun q j h =>
      le_of_lt (S_nonneg hk hT (lt_of_le_of_lt hcut h))) hW.le) hc
  · simp only [pyCv, hT, if_true, meshSum_eq, wsum_eq]
    exact mul_nonneg (div_nonneg (msum_nonneg w fr cut hw fun q j h =>
      le_of_lt (cv_nonneg hk hT (lt_of_le_of_lt hcut h))) hW.le) hc
  · intro a ha b hb hab
    have ha' : (0:ℝ) < a := ha
    have hb' : (0:ℝ) < b := hb
    simp only [pyS, ha', hb', if_true, meshSum_eq, wsum_eq]
    apply mul_le_mul_of_nonneg_right _ hc
    apply div_le_div_of_nonneg_right _ hW.le
    exact msum_mono w fr cut hw fun q j h => S_mono_T hk (lt_of_le_of_lt hcut h) ha hb hab
  · intro a ha b hb hab
    have ha' : (0:ℝ) < a := ha
    have hb' : (0:ℝ) < b := hb
    simp only [pyCv, ha', hb', if_true, meshSum_eq, wsum_eq]
    apply mul_le_mul_of_nonneg_right _ hc
    apply div_le_div_of_nonneg_right _ hW.le
    exact msum_mono w fr cut hw fun q j h => cv_mono_T hk (lt_of_le_of_lt hcut h) ha hb hab

end mesh

/-! ## 4a. the Python preparation: band selection, pretend_real, cutoff, projection, mode counts -/

section prep
variable {nq nb ns : Nat} (w : Fin nq → ℝ) (fr : Fin nq → Fin nb → ℝ) (cut c thz : ℝ)

/-- `cutoff_frequency = None` or negative gives 0, otherwise the value in eV; it is never negative
(for a non-negative conversion factor) — the hypothesis `0 ≤ cut` of the mesh theorems. -/
theorem cutoff_nonneg (hthz : 0 ≤ thz) (co : Option ℝ) :
    0 ≤ cutoffEv thz co ∧ cutoffEv thz none = 0 ∧ (∀ x, x < 0 → cutoffEv thz (some x) = 0) ∧
    (∀ x, 0 ≤ x → cutoffEv thz (some x) = x * thz) := by
  refine ⟨?_, rfl, fun x hx => by simp [cutoffEv, hx], fun x hx => by simp [cutoffEv, not_lt.2 hx]⟩
  cases co with
  | none => simp [cutoffEv]
  | some x =>
    by_cases hx : x < 0
    · simp [cutoffEv, hx]
    · simp only [cutoffEv, hx, if_false]
      exact mul_nonneg (not_lt.1 hx) hthz

/-- **pretend_real** — the prepared frequency is `|ν|·THzToEv` (so imaginary modes, stored as negative
numbers, are summed as if real); without it `ν·THzToEv`. -/
theorem pretend_real_abs (bi : Fin ns → Fin nb) (q : Fin nq) (j : Fin ns) :
    prepFreqs thz true bi fr q j = |fr q (bi j)| * thz ∧ prepFreqs thz false bi fr q j = fr q (bi j) * thz := by
  constructor
  · simp only [prepFreqs, if_true, absv]
    by_cases h : fr q (bi j) < 0
    · rw [if_pos h, abs_of_neg h]
    · rw [if_neg h, abs_of_nonneg (not_lt.1 h)]
  · simp [prepFreqs]

/-- **band_indices** — selecting bands restricts every mesh sum to the selected bands: the sum over the
selected columns equals the sum over the full band range restricted to the image of the selection
(distinct indices). -/
theorem band_selection_restricts (bi : Fin ns → Fin nb) (hbi : Function.Injective bi) (pr : Bool) (g : ℝ → ℝ) :
    meshSum w (prepFreqs thz pr bi fr) cut g
      = ∑ q, ∑ b ∈ Finset.univ.image bi,
          if cut < prepFreqs thz pr id fr q b then g (prepFreqs thz pr id fr q b) * w q else 0 := by
  rw [meshSum_eq]
  unfold msum
  refine Finset.sum_congr rfl fun q _ => ?_
  rw [Finset.sum_image (fun a _ b _ h => hbi h)]
  rfl

/-- **projection** — for eigenvectors normalised per mode (`Σ_j |e_{jν}|² = 1`) the projected components
add up to the unprojected quantity. -/
theorem projection_sums_to_total {nr : Nat} (e2 : Fin nq → Fin nr → Fin nb → ℝ) (hnorm : ∀ q ν, ∑ j, e2 q j ν = 1)
    (g : ℝ → ℝ) : ∑ j, projSum w fr e2 cut g j = meshSum w fr cut g := by
  rw [meshSum_eq]
  unfold projSum msum
  simp only [sumFin_eq]
  rw [Finset.sum_comm]
  refine Finset.sum_congr rfl fun q _ => ?_
  rw [← Finset.sum_mul, Finset.sum_comm, Finset.sum_mul]
  refine Finset.sum_congr rfl fun ν _ => ?_
  by_cases h : cut < fr q ν
  · simp only [h, if_true]
    rw [← Finset.sum_mul, hnorm]; ring
  · simp [h]

/-- **mode counts** — `number_of_modes = (number of bands)·Σw`, `number_of_integrated_modes = Σ_q w_q·#{ν > cutoff}`;
with classical statistics the mesh heat capacity is exactly `k_B` per integrated mode (equipartition), and the
quantum one never exceeds it. -/
theorem mode_counts (hk : 0 < k) (hT : 0 < T) (hcut : 0 ≤ cut) (hw : ∀ q, 0 ≤ w q) (hW : 0 < ∑ q, w q)
    (hc : 0 ≤ c) :
    numModes nb w = nb * ∑ q, w q ∧
    numIntegrated w fr cut = ∑ q, w q * ((Finset.univ.filter fun j => cut < fr q j).card : ℝ) ∧
    pyCv modeCv (envR k) c true w fr cut T = k * numIntegrated w fr cut / (∑ q, w q) * c ∧
    pyCv modeCv (envR k) c false w fr cut T ≤ k * numIntegrated w fr cut / (∑ q, w q) * c := by
  have hnum : numIntegrated w fr cut = msum w fr cut (fun _ => 1) := by
    unfold numIntegrated msum
    rw [sumFin_eq]
    refine Finset.sum_congr rfl fun q _ => ?_
    rw [sumFin_eq, Finset.mul_sum]
    refine Finset.sum_congr rfl fun j _ => ?_
    split_ifs <;> ring
  refine ⟨?_, ?_, ?_, ?_⟩
  · unfold numModes
    simp [sumFin_eq, Finset.mul_sum]
  · unfold numIntegrated
    rw [sumFin_eq]
    refine Finset.sum_congr rfl fun q _ => ?_
    rw [sumFin_eq, Finset.sum_ite, Finset.sum_const, Finset.sum_const_zero]
    simp
  · simp only [pyCv, hT, if_true, meshSum_eq, wsum_eq, hnum]
    rw [← msum_smul]
    congr 2
    refine msum_congr w fr cut fun q j _ => ?_
    simp [modeCv, envR]
  · simp only [pyCv, hT, if_true, meshSum_eq, wsum_eq, hnum]
    rw [← msum_smul]
    apply mul_le_mul_of_nonneg_right _ hc
    apply div_le_div_of_nonneg_right _ hW.le
    refine msum_mono w fr cut hw fun q j h => ?_
    have := cv_le_kB hk hT (lt_of_le_of_lt hcut h)
    linarith

end prep

/-! ## 4c. the temperature grid -/

/-- real instantiation of the grid environment: `ceil` is `Nat.ceil`, `(double) i` is the cast -/
noncomputable def gridR : GridEnv ℝ := { ceil := fun x => ⌈x⌉₊, ofNat := fun n => (n : ℝ) }

/-- **temperature_grid_inclusive** — `set_temperature_range(t_min, t_max, t_step)` with `t_min ≥ 0`, `t_step > 0` and
`t_max = t_min + n·t_step` yields exactly the `n + 1` temperatures `t_min, t_min + t_step, …, t_max` (the end point is
included: the stop value is `t_max + t_step/2`); the defaults give `10, 20, …, 1000`. -/
theorem temperature_grid_inclusive (tmin step : ℝ) (n : ℕ) (h0 : 0 ≤ tmin) (hs : 0 < step) :
    tempRange gridR (some tmin) (some (tmin + n * step)) (some step)
      = (List.range (n + 1)).map (fun (i : ℕ) => tmin + (i : ℝ) * step) ∧
    tempRange gridR none none none = (List.range 100).map (fun (i : ℕ) => (10 : ℝ) + (i : ℝ) * 10) := by
  constructor
  · have ht1 : (if tmin < tmin + n * step then tmin + n * step else tmin) = tmin + n * step := by
      split_ifs with h
      · rfl
      · have : (n : ℝ) * step ≤ 0 := by linarith
        have hn : (n : ℝ) * step = 0 := le_antisymm this (by positivity)
        linarith
    simp only [tempRange, arange, gridR, not_lt.2 h0, if_false, hs, if_true, ht1]
    have hlen : ⌈(tmin + n * step + step / 2 - tmin) / step⌉₊ = n + 1 := by
      have : (tmin + n * step + step / 2 - tmin) / step = (n : ℝ) + 1 / 2 := by field_simp; ring
      rw [this, Nat.ceil_eq_iff (by omega)]
      constructor <;> push_cast <;> linarith
    rw [hlen]
    refine List.map_congr_left fun i _ => ?_
    ring
  · simp only [tempRange, arange, gridR]
    have hlen : ⌈((1000 : ℝ) + 10 / 2 - 10) / 10⌉₊ = 100 := by
      rw [Nat.ceil_eq_iff (by norm_num)]
      constructor <;> norm_num
    rw [hlen]
    refine List.map_congr_left fun i _ => ?_
    ring

/-! ## 4b. the compiled loop nest is the model's guarded weighted sum -/

/-- **loop_eq_model** — the loop nest of `phpy_get_thermal_properties` as translated from c/phonopy.c on this
run (zeroing of the malloc'd `tp`, the q-point / temperature / band loops with the `T > 0 && f > cutoff` test,
the serial reduction into `thermal_props`) adds to `thermal_props[3j + c]` exactly the model sum
`cSum g_c` of `Model/Thermal.lean` — for every number of temperatures, q-points and bands, every input
array, and whatever the uninitialised contents of the malloc'd buffer were; cells beyond `3·num_temp` are untouched. -/
theorem loop_eq_model (E : ThermalEnv ℝ) (props0 temps freqs weights : Nat → ℝ) (nt nq nb : Nat) (cut : ℝ)
    (cl : Int) (tp0 : Nat → ℝ) :
    (∀ j, j < nt →
      ThermalC.phpy_get_thermal_properties E props0 temps freqs weights nt nq nb cut cl tp0 (j * 3 + 0)
        = props0 (j * 3 + 0) + cSum (ThermalC.get_free_energy E) cl (fun q : Fin nq => weights q)
            (fun (q : Fin nq) (k : Fin nb) => freqs (q * nb + k)) cut (temps j) ∧
      ThermalC.phpy_get_thermal_properties E props0 temps freqs weights nt nq nb cut cl tp0 (j * 3 + 1)
        = props0 (j * 3 + 1) + cSum (ThermalC.get_entropy E) cl (fun q : Fin nq => weights q)
            (fun (q : Fin nq) (k : Fin nb) => freqs (q * nb + k)) cut (temps j) ∧
      ThermalC.phpy_get_thermal_properties E props0 temps freqs weights nt nq nb cut cl tp0 (j * 3 + 2)
        = props0 (j * 3 + 2) + cSum (ThermalC.get_heat_capacity E) cl (fun q : Fin nq => weights q)
            (fun (q : Fin nq) (k : Fin nb) => freqs (q * nb + k)) cut (temps j)) ∧
    (∀ m, nt * 3 ≤ m →
      ThermalC.phpy_get_thermal_properties E props0 temps freqs weights nt nq nb cut cl tp0 m = props0 m) := by
  refine ⟨fun j hj => ⟨?_, ?_, ?_⟩, fun m hm => proc_frame E temps freqs weights nt nq nb cut cl props0 tp0 hm⟩
  all_goals
    rw [proc_cell E temps freqs weights nt nq nb cut cl props0 tp0 hj (by omega)]
    congr 1
    unfold cSum
    rw [sumFin_eq, Finset.sum_range]
    refine Finset.sum_congr rfl fun q _ => ?_
    rw [sumFin_eq, Finset.sum_range]
    refine Finset.sum_congr rfl fun k _ => ?_
    simp [contrib]

/-! ## 5. units -/

/-- the literal `#define KB 8.6173382568083159E-05` of c/phonopy.c is `kb_J/EV` of phonopy/units.py
to within one unit in the last place of binary64 (relative `2⁻⁵²`; the harness checks that the two
binary64 values are bit-identical); both are positive. -/
theorem KB_literal_close :
    |ThermalC.KB_q - ThermalC.Kb_q| ≤ ThermalC.Kb_q * (1 / 2 ^ 52) ∧ 0 < ThermalC.KB_q ∧ 0 < ThermalC.Kb_q := by
  refine ⟨?_, ?_, ?_⟩ <;>
  norm_num [ThermalC.KB_q, ThermalC.Kb_q, ThermalC.kb_J_q, ThermalC.EV_q, abs_le]

/-! ## 6. finiteness in binary64 — special-values model -/

section ieee
open X
variable (L : Lim ℝ)

/-- binary64 thresholds of `exp` (overflow, flush to zero) and `sinh/cosh` (overflow) -/
noncomputable def lim64 : Lim ℝ := ⟨709.782712893384, -745.1332191019412, 710.4758600739439⟩

/-- **F5** — the pinned heat-capacity formula `Kb·x²·eˣ/(eˣ-1)²` evaluates to NaN whenever `x = f/Kb/T`
exceeds the overflow threshold of `exp` (`∞/∞`). -/
theorem cv_formula_nan (hk : 0 < k) (hT : 0 < T) (hf : 0 < f) (hbig : L.expHi < f / k / T) :
    modeCv (X.env L (envR k)) (fin T) (fin f) false = nan := by
  have hx : 0 < f / k / T := by positivity
  simp [modeCv, X.env, envR, fin_div_fin (ne_of_gt hk), fin_div_fin (ne_of_gt hT), hbig, fin_mul_pinf,
    sgnInf_pos (mul_pos hk (mul_pos hx hx))]

/-- the pinned entropy formula `…cosh(v)/sinh(v) - Kb·log(2 sinh v)` evaluates to NaN whenever
`v = f/(2 Kb T)` exceeds the overflow threshold of `sinh`. -/
theorem S_formula_nan (hk : 0 < k) (hT : 0 < T) (hf : 0 < f) (hbig : L.sinhHi < f / (2 * k * T)) :
    modeS (X.env L (envR k)) (fin T) (fin f) false = nan := by
  have h2T : (2 * T) ≠ 0 := by positivity
  have h2kT : (2 * k * T) ≠ 0 := by positivity
  have hp : 0 < T⁻¹ * 2⁻¹ * f := by positivity
  simp [modeS, X.env, envR, fin_div_fin h2T, fin_div_fin h2kT, hbig, fin_mul_pinf, sgnInf_pos hp,
    sgnInf_pos (two_pos : (0:ℝ) < 2)]

/-- concrete witness replayed on the implementation: `x = 800` -/
theorem cv_formula_nan_witness :
    modeCv (X.env lim64 (envR 1)) (fin 1) (fin 800) false = nan ∧
    modeS (X.env lim64 (envR 1)) (fin 1) (fin 1600) false = nan :=
  ⟨cv_formula_nan lim64 one_pos one_pos (by norm_num) (by norm_num [lim64]),
   S_formula_nan lim64 one_pos one_pos (by norm_num) (by norm_num [lim64])⟩

/-- the overflow-free forms never produce NaN or ±∞ for finite `T, f > 0` -/
theorem no_nan (hk : 0 < k) (hT : 0 < T) (hf : 0 < f) (hL : 0 ≤ L.expHi) :
    (∃ r, modeCv' (X.env L (envR k)) (fin T) (fin f) false = fin r) ∧
    (∃ r, modeS' (X.env L (envR k)) (fin T) (fin f) false = fin r) ∧
    (∃ r, modeF (X.env L (envR k)) (fin T) (fin f) false = fin r) := by
  have hx : 0 < f / (k * T) := by positivity
  have hkT : k * T ≠ 0 := by positivity
  have hnb : ¬ L.expHi < -(f / (k * T)) := by intro h; linarith
  have hem : -(Real.exp (-(f / (k * T))) - 1) ≠ 0 := by
    have := one_sub_exp_neg_pos hx; intro h; linarith
  have hempos : ¬ -(Real.exp (-(f / (k * T))) - 1) < 0 := by
    have := one_sub_exp_neg_pos hx; intro h; linarith
  have hem' : 1 - Real.exp (-(f / (k * T))) ≠ 0 := ne_of_gt (one_sub_exp_neg_pos hx)
  have hx' : ¬ f / (k * T) < 0 := not_lt.2 hx.le
  refine ⟨?_, ?_, ?_⟩
  · by_cases hlo : -(f / (k * T)) < L.expLo <;>
    simp [modeCv', X.env, envR, fin_div_fin hkT, fin_div_fin hem', hnb, hlo]
  · by_cases hlo : -(f / (k * T)) < L.expLo <;>
    simp [modeS', X.env, envR, fin_div_fin hkT, fin_div_fin hem', hnb, hlo, hem', hx']
  · have hnb' : ¬ L.expHi < -f / (k * T) := by rw [neg_div]; exact hnb
    have h1 : ¬ (1 + -Real.exp (-f / (k * T)) < 0) := by
      have := one_sub_exp_neg_pos hx; rw [neg_div]; intro h; linarith
    have h2 : (1 + -Real.exp (-f / (k * T))) ≠ 0 := by
      have := one_sub_exp_neg_pos hx; rw [neg_div]; intro h; linarith
    by_cases hlo : -f / (k * T) < L.expLo <;>
    simp [modeF, X.env, envR, fin_div_fin hkT, fin_div_fin (two_ne_zero : (2:ℝ) ≠ 0), hnb', hlo, h1, h2,
      (by norm_num : ¬ (1:ℝ) < 0)]

/-- the generated C heat capacity, in the special-values model, is in one of the two states:
NaN beyond the `exp` threshold (pinned expression) or finite for every `T, f > 0` (overflow-free) -/
theorem get_heat_capacity_special (hL : 0 ≤ L.expHi) :
    (∀ k T f : ℝ, 0 < k → 0 < T → 0 < f → L.expHi < f / (k * T) →
        ThermalC.get_heat_capacity (X.env L (envR k)) (fin T) (fin f) 0 = nan) ∨
    (∀ k T f : ℝ, 0 < k → 0 < T → 0 < f →
        ∃ r, ThermalC.get_heat_capacity (X.env L (envR k)) (fin T) (fin f) 0 = fin r) := by
  first
    | (right; intro k T f hk hT hf; exact (no_nan L hk hT hf hL).1)
    | (left; intro k T f hk hT hf hbig
       have hkT : k * T ≠ 0 := by positivity
       simp [ThermalC.get_heat_capacity, X.env, envR, fin_div_fin hkT, hbig, fin_mul_pinf, sgnInf_pos hk,
         pinf_mul_fin])

end ieee

/-! ## non-vacuity: the hypotheses used above are satisfiable by ordinary data -/

/-- a mode of 0.02 eV at 300 K with the code's Boltzmann constant -/
example : ∃ k T f : ℝ, 0 < k ∧ 0 < T ∧ 0 < f ∧ k = ((ThermalC.KB_q : ℚ) : ℝ) :=
  ⟨_, 300, 0.02, by have := KB_literal_close.2.1; exact_mod_cast this, by norm_num, by norm_num, rfl⟩

/-- a two-point mesh with weights 1, 2, one mode below the cutoff on the first point: hypotheses of
`mesh_S_cv_nonneg_mono`, `mesh_hasDerivAt_F`; the hypothesis of `mesh_F_C_eq_Py_pinned_partial` fails on it
(0 < 1/2 ≤ cutoff), which is the counterexample's situation. -/
example : ∃ (w : Fin 2 → ℝ) (fr : Fin 2 → Fin 2 → ℝ) (cut : ℝ), (∀ q, 0 ≤ w q) ∧ 0 < ∑ q, w q ∧ 0 ≤ cut ∧
    ¬ (∀ q j, 0 < fr q j → cut < fr q j) :=
  ⟨![1, 2], ![![1/2, 3], ![2, 5]], 1, by intro q; fin_cases q <;> simp, by norm_num [Fin.sum_univ_two], by norm_num,
   by intro h; have := h 0 0 (by simp); norm_num at this⟩

/-- … and one on which it holds -/
example : ∃ (fr : Fin 1 → Fin 2 → ℝ) (cut : ℝ), 0 ≤ cut ∧ (∀ q j, 0 < fr q j → cut < fr q j) :=
  ⟨![![-1, 3]], 1, by norm_num, by intro q j; fin_cases q; fin_cases j <;> simp⟩

example : 0 ≤ lim64.expHi ∧ lim64.expLo < 0 := by constructor <;> norm_num [lim64]

end PhononModel.C10

#print axioms PhononModel.C10.entropy_C_eq_Py
#print axioms PhononModel.C10.cv_C_eq_Py
#print axioms PhononModel.C10.F_C_plus_ZPE_eq_Py
#print axioms PhononModel.C10.classical_C_eq_Py
#print axioms PhononModel.C10.closed_forms
#print axioms PhononModel.C10.fixed_forms_eq
#print axioms PhononModel.C10.hasDerivAt_F
#print axioms PhononModel.C10.hasDerivAt_S
#print axioms PhononModel.C10.hasDerivAt_F_cl
#print axioms PhononModel.C10.hasDerivAt_S_cl
#print axioms PhononModel.C10.S_nonneg
#print axioms PhononModel.C10.cv_nonneg
#print axioms PhononModel.C10.cv_le_kB
#print axioms PhononModel.C10.S_mono_T
#print axioms PhononModel.C10.cv_mono_T
#print axioms PhononModel.C10.cv_tendsto_kB
#print axioms PhononModel.C10.S_cv_tendsto_zero
#print axioms PhononModel.C10.F_tendsto_zpe
#print axioms PhononModel.C10.weighted_sum_linear
#print axioms PhononModel.C10.zero_temperature_branch
#print axioms PhononModel.C10.cutoff_nonneg
#print axioms PhononModel.C10.pretend_real_abs
#print axioms PhononModel.C10.band_selection_restricts
#print axioms PhononModel.C10.projection_sums_to_total
#print axioms PhononModel.C10.mode_counts
#print axioms PhononModel.C10.temperature_grid_inclusive
#print axioms PhononModel.C10.loop_eq_model
#print axioms PhononModel.C10.mesh_S_cv_C_eq_Py
#print axioms PhononModel.C10.mesh_F_C_eq_Py
#print axioms PhononModel.C10.mesh_F_C_eq_Py_pinned_partial
#print axioms PhononModel.C10.mesh_F_C_eq_Py_pinned_counterexample
#print axioms PhononModel.C10.mesh_hasDerivAt_F
#print axioms PhononModel.C10.mesh_hasDerivAt_S
#print axioms PhononModel.C10.mesh_S_cv_nonneg_mono
#print axioms PhononModel.C10.KB_literal_close
#print axioms PhononModel.C10.cv_formula_nan
#print axioms PhononModel.C10.S_formula_nan
#print axioms PhononModel.C10.cv_formula_nan_witness
#print axioms PhononModel.C10.no_nan
#print axioms PhononModel.C10.get_heat_capacity_special
