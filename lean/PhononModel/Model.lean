-- every Mathlib-free model file (what the drivers import)
import PhononModel.Model.Basic
import PhononModel.Model.Wire
import PhononModel.Model.Symmetrize
