import PhononModel.Model.Basic
/-!
Model of the two displacement-dataset types and their conversion (property C16).

Source anchors (tied by the correspondence run of `./check C16`, not by proof):
* `phonopy/structure/dataset.py: get_displacements_and_forces` (type-1 ↦ type-2)  ↦ `toType2`
* `phonopy/structure/dataset.py: forces_in_dataset`                                ↦ `forcesInDataset`
* the inverse on the image (not in phonopy; what "without loss" means)             ↦ `toType1`

Type 1: one displaced atom per supercell (`first_atoms`: `number`, `displacement`, optional
`forces`).  Type 2: displacements (and optionally forces) of all atoms of all supercells.
Energies are not touched by the conversion routine and are not part of this model.
-/
namespace PhononModel.DS

abbrev Vec3 (α : Type) := Fin 3 → α
/-- one 3-vector per supercell atom -/
abbrev Field3 (n : Nat) (α : Type) := Fin n → Fin 3 → α

structure Entry (n : Nat) (α : Type) where
  number : Fin n
  displacement : Vec3 α
  forces : Option (Field3 n α)

/-- type-1 dataset with `natom = n` -/
structure Type1 (n : Nat) (α : Type) where
  first_atoms : List (Entry n α)

/-- type-2 dataset -/
structure Type2 (n : Nat) (α : Type) where
  displacements : List (Field3 n α)
  forces : Option (List (Field3 n α))

inductive Dataset (n : Nat) (α : Type)
  | t1 (d : Type1 n α)
  | t2 (d : Type2 n α)

variable {n : Nat} {α : Type}

/-- `disps[i, disp1["number"]] = disp1["displacement"]` on a zero array -/
def spread [OfNat α 0] (e : Entry n α) : Field3 n α :=
  fun i k => if i = e.number then e.displacement k else 0

def zeroField [OfNat α 0] : Field3 n α := fun _ _ => 0

/-- `get_displacements_and_forces` on a type-1 dataset: `forces` stays `None` until the first
entry that has forces; entries without forces keep the zeros of `np.zeros_like`. -/
def toType2 [OfNat α 0] (d : Type1 n α) : Type2 n α :=
  { displacements := d.first_atoms.map spread
    forces :=
      if d.first_atoms.any (fun e => e.forces.isSome) then
        some (d.first_atoms.map fun e => match e.forces with | some f => f | none => zeroField)
      else none }

/-- `get_displacements_and_forces` (both branches): displacements and forces -/
def displacementsAndForces [OfNat α 0] : Dataset n α → List (Field3 n α) × Option (List (Field3 n α))
  | .t1 d => ((toType2 d).displacements, (toType2 d).forces)
  | .t2 d => (d.displacements, d.forces)

/-- `forces_in_dataset` -/
def forcesInDataset : Option (Dataset n α) → Bool
  | none => false
  | some (.t1 d) => d.first_atoms.all fun e => e.forces.isSome
  | some (.t2 d) => d.forces.isSome

/-! ### the inverse on the image -/

def rowIsZero [OfNat α 0] [DecidableEq α] (u : Field3 n α) (i : Fin n) : Bool :=
  decide (u i 0 = 0) && decide (u i 1 = 0) && decide (u i 2 = 0)

/-- the displaced atom of a snapshot: the first atom with a non-zero displacement -/
def displacedAtom [OfNat α 0] [DecidableEq α] (u : Field3 n α) : Option (Fin n) :=
  (List.finRange n).find? fun i => !rowIsZero u i

/-- a snapshot is of type-1 shape when exactly its displaced atom moves -/
def entryOf [OfNat α 0] [DecidableEq α] (u : Field3 n α) (f : Option (Field3 n α)) : Option (Entry n α) :=
  match displacedAtom u with
  | none => none
  | some i =>
    if (List.finRange n).all (fun j => j = i || rowIsZero u j) then
      some { number := i, displacement := u i, forces := f }
    else none

/-- type-2 ↦ type-1 entry list; `none` when a snapshot is not of type-1 shape or the numbers of
displacement and force snapshots differ -/
def entries [OfNat α 0] [DecidableEq α] :
    List (Field3 n α) → Option (List (Field3 n α)) → Option (List (Entry n α))
  | [], none => some []
  | [], some [] => some []
  | [], some (_ :: _) => none
  | u :: us, none =>
    match entryOf u none, entries us none with
    | some e, some es => some (e :: es)
    | _, _ => none
  | _ :: _, some [] => none
  | u :: us, some (f :: fs) =>
    match entryOf u (some f), entries us (some fs) with
    | some e, some es => some (e :: es)
    | _, _ => none

/-- type-2 ↦ type-1, defined when every snapshot displaces exactly one atom -/
def toType1 [OfNat α 0] [DecidableEq α] (d : Type2 n α) : Option (Type1 n α) :=
  (entries d.displacements d.forces).map fun es => { first_atoms := es }

end PhononModel.DS
