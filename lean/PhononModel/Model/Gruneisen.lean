import PhononModel.Model.CxPair
/-!
Model of mode Grüneisen parameters and of the group-velocity formula (property C12).

Source anchors (tied by the correspondence run of `./check C12`):
* `gruneisen/core.py: GruneisenBase.__init__` (`delta_strain = (V₊ − V₋)/V`)         ↦ `deltaStrain`
* `gruneisen/core.py: GruneisenBase._get_dD` (`dm_plus − dm_minus`)                   ↦ `matSub`
* `phonon/degeneracy.py: rotate_eigenvectors` on a non-degenerate band
  (`eigh` of the 1×1 matrix `e†·dD·e` = its real part)                                 ↦ `expect`
* `gruneisen/core.py: _set_gruneisen` (`-edDe / delta_strain / eigenvalues / 2`)      ↦ `gruneisen`
* `phonon/group_velocity.py: _perturb_D` (non-degenerate), `_calculate_group_velocity_at_q`
  (`gv *= factor²/f/2` above the cutoff, else 0)                                       ↦ `gvMode`
* `gruneisen/mesh.py`/`structure/grid_points.py` weights: a weighted sum over irreducible points ↦ `meshSum`

`eigh` results (eigenvalue `lam`, eigenvector `e`) are parameters.
-/
namespace PhononModel.C12
open PhononModel PhononModel.CP

variable {α : Type} [Add α] [Sub α] [Neg α] [Mul α] [Div α] [OfNat α 0] [OfNat α 2] [NatCast α]

def matSub {d : Nat} (A B : Fin d → Fin d → Cx α) : Fin d → Fin d → Cx α := fun r c => A r c - B r c

/-- `(M e)_r` -/
def matVec {d : Nat} (M : Fin d → Fin d → Cx α) (e : Fin d → Cx α) (r : Fin d) : Cx α :=
  sumFin d fun c => M r c * e c

/-- `e†·M·e` -/
def quadForm {d : Nat} (e : Fin d → Cx α) (M : Fin d → Fin d → Cx α) : Cx α :=
  sumFin d fun r => Cx.conj (e r) * matVec M e r

/-- real part of `e†·M·e` (what `eigh` returns for a 1×1 block / `np.diag(...).real`) -/
def expect {d : Nat} (e : Fin d → Cx α) (M : Fin d → Fin d → Cx α) : α := (quadForm e M).re

def deltaStrain (V Vp Vm : α) : α := (Vp - Vm) / V

/-- `γ = −⟨e|D₊ − D₋|e⟩ / delta_strain / λ / 2` -/
def gruneisen {d : Nat} (V Vp Vm : α) (lam : α) (e : Fin d → Cx α) (Dm Dp : Fin d → Fin d → Cx α) : α :=
  -(expect e (matSub Dp Dm)) / deltaStrain V Vp Vm / lam / 2

/-- group velocity component of a non-degenerate mode of frequency `f` -/
def gvMode {d : Nat} [LT α] [DecidableLT α] (factor cutoff f : α) (e : Fin d → Cx α) (ddm : Fin d → Fin d → Cx α) : α :=
  if cutoff < f then expect e ddm * (factor * factor / f / 2) else 0

/-- weighted sum over irreducible mesh points -/
def meshSum {nr : Nat} (w : Fin nr → Nat) (g : Fin nr → α) : α := sumFin nr fun j => (w j : α) * g j

end PhononModel.C12
