import PhononModel.Model.FDSolver
/-!
LITERAL loop model of `c/phonopy.c: distribute_fc2` (property C01, phase 2).

The closed form `FD.distribute` (Model/FDSolver.lean) is what the exactness theorems use; this file follows
the C source statement by statement, as folds over index lists in C loop order:

```
for (i = 0; i < len_atom_list; i++) {                       -- `revTable`
    atom_done = map_atoms[atom_list[i]];
    if (atom_done == atom_list[i]) atom_list_reverse[atom_done] = i;
}
for (i = 0; i < len_atom_list; i++) {                       -- `distributeLit` (outer `foldlM`)
    atom_todo = atom_list[i]; atom_done = map_atoms[atom_todo]; sym_index = map_syms[atom_todo];
    if (atom_todo == atom_done) continue;
    r_cart = r_carts[sym_index]; permutation = &permutations[sym_index * num_pos];
    for (atom_other = 0; atom_other < num_pos; atom_other++) {                     -- `distributeBody`
        fc2_done = fc2[fc_indices_of_atom_list[atom_list_reverse[atom_done]] * num_pos + permutation[atom_other]];
        fc2_todo = fc2[fc_indices_of_atom_list[i] * num_pos + atom_other];
        for j for k for l for m: fc2_todo[j][k] += r_cart[l][j] * r_cart[m][k] * fc2_done[l][m];   -- `setEntry`
    }
}
```
`atom_list_reverse` is `malloc`ed and only partly written: an entry never written is `none`, and reading it
makes the whole run `none`.  Every `+=` reads the *current* array (both operands).  `Props/C01:
distributeLit_eq_distribute` proves this equal to the closed form whenever no row that is read is ever
written (`fc_indices_of_atom_list` separates done positions from the others — true for `arange` and `p2s_map`).
-/
namespace PhononModel.FD

section
variable {α : Type} [Add α] [Mul α] [OfNat α 0]

/-- `fc2[r * num_pos + o][j][k] = v` -/
def setEntry {Mr n : Nat} (fc : Rows Mr n α) (r : Fin Mr) (o : Fin n) (j k : Fin 3) (v : α) : Rows Mr n α :=
  fun r' o' j' k' => if r' = r ∧ o' = o ∧ j' = j ∧ k' = k then v else fc r' o' j' k'

/-- first loop: `atom_list_reverse` (entries never written are `none`) -/
def revTable {M n : Nat} (targets : Fin M → Fin n) (mapAtoms : Fin n → Fin n) : Fin n → Option (Fin M) :=
  (List.finRange M).foldl (fun rev i =>
    let atomDone := mapAtoms (targets i)
    if atomDone = targets i then (fun d => if d = atomDone then some i else rev d) else rev) (fun _ => none)

/-- loops over `j, k, l, m` for one position `i` of `atom_list` and one `atom_other = o`
(`ri = atom_list_reverse[atom_done]`): `fc2_todo[j][k] += r_cart[l][j] * r_cart[m][k] * fc2_done[l][m]` -/
def distributeOther {M Mr n nrot : Nat} (fcIdx : Fin M → Fin Mr) (R : Fin nrot → Mat3 α)
    (perms : Fin nrot → Fin n → Fin n) (i ri : Fin M) (sym : Fin nrot) (o : Fin n) (fc : Rows Mr n α) : Rows Mr n α :=
  (List.finRange 3).foldl (fun fc j =>
    (List.finRange 3).foldl (fun fc k =>
      (List.finRange 3).foldl (fun fc l =>
        (List.finRange 3).foldl (fun fc m =>
          setEntry fc (fcIdx i) o j k
            (fc (fcIdx i) o j k + R sym l j * R sym m k * fc (fcIdx ri) (perms sym o) l m))
        fc) fc) fc) fc

/-- loop over `atom_other` -/
def distributeBody {M Mr n nrot : Nat} (fcIdx : Fin M → Fin Mr) (R : Fin nrot → Mat3 α)
    (perms : Fin nrot → Fin n → Fin n) (i ri : Fin M) (sym : Fin nrot) (fc : Rows Mr n α) : Rows Mr n α :=
  (List.finRange n).foldl (fun fc o => distributeOther fcIdx R perms i ri sym o fc) fc

/-- `distribute_fc2`, literally -/
def distributeLit {M Mr n nrot : Nat} (targets : Fin M → Fin n) (fcIdx : Fin M → Fin Mr)
    (R : Fin nrot → Mat3 α) (perms : Fin nrot → Fin n → Fin n) (mapSyms : Fin n → Fin nrot)
    (fc : Rows Mr n α) : Option (Rows Mr n α) :=
  let mapAtoms : Fin n → Fin n := fun a => perms (mapSyms a) a
  let rev := revTable targets mapAtoms
  (List.finRange M).foldlM (fun fc i =>
    let atomTodo := targets i
    let atomDone := mapAtoms atomTodo
    let sym := mapSyms atomTodo
    if atomTodo = atomDone then some fc
    else match rev atomDone with
      | none => none
      | some ri => some (distributeBody fcIdx R perms i ri sym fc)) fc

/-! staged evaluation for the driver: the same loops on a materialised array with in-place `set`
(a function-valued state would re-evaluate every `+=` on every later read) -/

def Tab.set {n : Nat} {β : Type} (A : Tab n β) (i : Fin n) (v : β) : Tab n β :=
  ⟨A.1.set i.1 v (by rw [A.2]; exact i.2), by rw [Array.size_set]; exact A.2⟩

theorem Tab.read_set {n : Nat} {β : Type} (A : Tab n β) (i : Fin n) (v : β) (i' : Fin n) :
    (A.set i v).read i' = if i' = i then v else A.read i' := by
  simp only [Tab.set, Tab.read, Array.getElem_set]
  by_cases h : i' = i
  · simp [h]
  · have : ¬ i.1 = i'.1 := fun e => h (Fin.ext e.symm)
    simp [h, this]

/-- `fc2[r * num_pos + o][j][k] = v` on the materialised array -/
def setEntryT {Mr n : Nat} (A : Tab4 Mr n 3 3 α) (r : Fin Mr) (o : Fin n) (j k : Fin 3) (v : α) : Tab4 Mr n 3 3 α :=
  let Ar := Tab.read A r
  let Aro := Tab.read Ar o
  let Aroj := Tab.read Aro j
  Tab.set A r (Tab.set Ar o (Tab.set Aro j (Tab.set Aroj k v)))

def distributeOtherT {M Mr n nrot : Nat} (fcIdx : Fin M → Fin Mr) (R : Fin nrot → Mat3 α)
    (perms : Fin nrot → Fin n → Fin n) (i ri : Fin M) (sym : Fin nrot) (o : Fin n) (fc : Tab4 Mr n 3 3 α) :
    Tab4 Mr n 3 3 α :=
  (List.finRange 3).foldl (fun (fc : Tab4 Mr n 3 3 α) j =>
    (List.finRange 3).foldl (fun (fc : Tab4 Mr n 3 3 α) k =>
      (List.finRange 3).foldl (fun (fc : Tab4 Mr n 3 3 α) l =>
        (List.finRange 3).foldl (fun (fc : Tab4 Mr n 3 3 α) m =>
          setEntryT fc (fcIdx i) o j k
            (fc.read (fcIdx i) o j k + R sym l j * R sym m k * fc.read (fcIdx ri) (perms sym o) l m))
        fc) fc) fc) fc

def distributeBodyT {M Mr n nrot : Nat} (fcIdx : Fin M → Fin Mr) (R : Fin nrot → Mat3 α)
    (perms : Fin nrot → Fin n → Fin n) (i ri : Fin M) (sym : Fin nrot) (fc : Tab4 Mr n 3 3 α) : Tab4 Mr n 3 3 α :=
  (List.finRange n).foldl (fun (fc : Tab4 Mr n 3 3 α) o => distributeOtherT fcIdx R perms i ri sym o fc) fc

/-- staged evaluation of the whole kernel -/
def distributeLitT {M Mr n nrot : Nat} (targets : Fin M → Fin n) (fcIdx : Fin M → Fin Mr)
    (R : Fin nrot → Mat3 α) (perms : Fin nrot → Fin n → Fin n) (mapSyms : Fin n → Fin nrot)
    (fc : Tab4 Mr n 3 3 α) : Option (Tab4 Mr n 3 3 α) :=
  let ms := tab mapSyms
  let mapAtoms : Fin n → Fin n := fun a => perms (ms.read a) a
  let rev := tab (revTable targets mapAtoms)
  (List.finRange M).foldlM (fun (fc : Tab4 Mr n 3 3 α) i =>
    let atomTodo := targets i
    let atomDone := mapAtoms atomTodo
    let sym := ms.read atomTodo
    if atomTodo = atomDone then some fc
    else match rev.read atomDone with
      | none => none
      | some ri => some (distributeBodyT fcIdx R perms i ri sym fc)) fc

end

section
variable {α : Type} [Add α] [Sub α] [Neg α] [Mul α] [Div α] [OfNat α 0] [DecidableEq α]

/-- `FDFCSolver._run`, direct branch, with the literal kernel (staged) -/
def runDirectLitT {M n nrot : Nat} (atomList : Fin M → Fin n) (R : Fin nrot → Mat3 α)
    (perms : Fin nrot → Fin n → Fin n) (data : List (AtomData n α)) : Option (Tab4 M n 3 3 α) :=
  match fcDispsT atomList data (tab4 fun _ _ _ _ => 0) with
  | none => none
  | some fc0 =>
    match symMappings perms (data.map (·.atom)) with
    | none => none
    | some ms => distributeLitT atomList id R perms ms fc0

/-- the same on functions (what the theorems are about) -/
def runDirectLit {M n nrot : Nat} (atomList : Fin M → Fin n) (R : Fin nrot → Mat3 α)
    (perms : Fin nrot → Fin n → Fin n) (data : List (AtomData n α)) : Option (Rows M n α) :=
  match fcDisps atomList data (fun _ _ _ _ => 0) with
  | none => none
  | some fc0 =>
    match symMappings perms (data.map (·.atom)) with
    | none => none
    | some ms => distributeLit atomList id R perms ms fc0

end
end PhononModel.FD
