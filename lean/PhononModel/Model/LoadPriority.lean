import PhononModel.Model.Basic
/-!
Decision logic of `phonopy.load` (property C16): which source wins, when force constants
are produced, which unit factors are used — a pure function of "what is present".

Source anchors (tied by the correspondence run of `./check C16`, not by proof):
* `phonopy/cui/load.py: load` (l.224-352, the `phonopy_yaml` branch)                 ↦ `load`
* `phonopy/cui/load_helper.py: get_nac_params` (l.127-181)                           ↦ `nacSource`, `nacFactor`
* `phonopy/cui/load_helper.py: select_and_load_dataset` (l.209-238)                  ↦ `datasetSource`
* `phonopy/cui/load_helper.py: select_and_extract_force_constants` (l.241-290)       ↦ `fcSource`
* `phonopy/api_phonopy.py: Phonopy.save` (l.3798-3864) + `PhonopyYamlDumper`
  (`_dataset_yaml_lines`, `_force_constants_yaml_lines`, `_nac_yaml_lines_given_symbols`)
  + `PhonopyYamlLoader._parse_nac` (needs both `born` and `dielectric`)               ↦ `save`
* docstring of `phonopy.load` ("Force sets or force constants … priority")          ↦ `docFcSource`

Files named `FORCE_SETS`, `FORCE_CONSTANTS`, `force_constants.hdf5`, `BORN` are looked up in
the current directory.  A force-sets file always carries forces.
-/
namespace PhononModel.LP

/-- displacement dataset content -/
inductive DS | absent | dispOnly | withForces
  deriving DecidableEq, Repr

inductive Calc | vasp | qe | other
  deriving DecidableEq, Repr

/-- what `phonopy.load(phonopy_yaml, …)` can see -/
structure Present where
  -- arguments
  argNac : Bool            -- `nac_params=`
  argNacHasFactor : Bool
  argBornFile : Bool       -- `born_filename=`
  argBornFileHasFactor : Bool
  argForceSets : Bool      -- `force_sets_filename=`
  argFcFile : Bool         -- `force_constants_filename=`
  argCalculator : Option Calc
  argFactor : Bool         -- `factor=`
  isNac : Bool
  produceFc : Bool
  -- content of the yaml file
  yamlNac : Bool
  yamlNacHasFactor : Bool
  yamlDataset : DS
  yamlFc : Bool
  yamlCalculator : Option Calc
  -- files in the current directory
  fileForceSets : Bool
  fileForceConstants : Bool
  fileHdf5 : Bool
  fileBorn : Bool
  fileBornHasFactor : Bool
  deriving DecidableEq, Repr

inductive NacSrc | none | bornArg | arg | yaml | bornFile
  deriving DecidableEq, Repr
inductive DsSrc | none | yaml | arg | file
  deriving DecidableEq, Repr
inductive FcSrc | none | yaml | arg | fileText | fileHdf5 | produced
  deriving DecidableEq, Repr
inductive FactorSrc | arg | calculatorDefault
  deriving DecidableEq, Repr
inductive NacFactorSrc | na | inParams | calculatorDefault
  deriving DecidableEq, Repr

structure Loaded where
  calculator : Option Calc
  factor : FactorSrc
  nac : NacSrc
  nacFactor : NacFactorSrc
  dataset : DsSrc
  datasetForces : Bool
  fc : FcSrc
  deriving DecidableEq, Repr

/-- `_calculator` -/
def calculator (p : Present) : Option Calc :=
  match p.argCalculator with
  | some c => some c
  | none => p.yamlCalculator

/-- `_nac_params` of `load` followed by `get_nac_params` -/
def nacSource (p : Present) : NacSrc :=
  -- load(): nac_params argument, else yaml's if is_nac, else None
  let fromLoad : NacSrc := if p.argNac then .arg else if p.isNac && p.yamlNac then .yaml else .none
  -- `if born_filename is not None or _nac_params is not None or is_nac:`
  if p.argBornFile || fromLoad != .none || p.isNac then
    if p.argBornFile then .bornArg
    else if fromLoad != .none then fromLoad
    else if p.isNac && p.fileBorn then .bornFile
    else .none
  else .none

/-- `if _nac_params and "factor" not in _nac_params and nac_factor is not None` -/
def nacFactor (p : Present) : NacFactorSrc :=
  match nacSource p with
  | .none => .na
  | .bornArg => if p.argBornFileHasFactor then .inParams else .calculatorDefault
  | .arg => if p.argNacHasFactor then .inParams else .calculatorDefault
  | .yaml => if p.yamlNacHasFactor then .inParams else .calculatorDefault
  | .bornFile => if p.fileBornHasFactor then .inParams else .calculatorDefault

/-- `select_and_load_dataset` -/
def datasetSource (p : Present) : DsSrc × Bool :=
  if p.yamlDataset = .withForces then (.yaml, true)
  else if p.argForceSets then (.arg, true)
  else if p.fileForceSets then (.file, true)
  else if p.yamlDataset = .dispOnly then (.yaml, false)
  else (.none, false)

/-- `select_and_extract_force_constants`, then the `produce_fc` step of `load` -/
def fcSource (p : Present) : FcSrc :=
  if p.yamlFc then .yaml
  else if p.argFcFile then .arg
  else if p.fileForceConstants then .fileText
  else if p.fileHdf5 then .fileHdf5
  else if p.produceFc && (datasetSource p).2 then .produced
  else .none

def load (p : Present) : Loaded :=
  { calculator := calculator p
    factor := if p.argFactor then .arg else .calculatorDefault
    nac := nacSource p
    nacFactor := nacFactor p
    dataset := (datasetSource p).1
    datasetForces := (datasetSource p).2
    fc := fcSource p }

/-- the priority list of the docstring of `phonopy.load` (1. force_constants_filename,
2. force_sets_filename, 3. yaml force constants, 4. yaml forces, 5. FORCE_CONSTANTS,
6. force_constants.hdf5, 7. FORCE_SETS) read as "the first available source provides the
force constants" -/
def docFcSource (p : Present) : FcSrc :=
  if p.argFcFile then .arg
  else if p.argForceSets then (if p.produceFc then .produced else .none)
  else if p.yamlFc then .yaml
  else if p.yamlDataset = .withForces then (if p.produceFc then .produced else .none)
  else if p.fileForceConstants then .fileText
  else if p.fileHdf5 then .fileHdf5
  else if p.fileForceSets then (if p.produceFc then .produced else .none)
  else .none

/-! ### what is recomputed on load

* `select_and_extract_force_constants` (l.282-286) / `_read_force_constants_file` (l.466-469):
  force constants from any source are converted to the layout `is_compact_fc` asks for;
* `load_helper.produce_force_constants` (l.314-335): produced with
  `calculate_full_force_constants = not is_compact_fc` and `fc_calculator`, then symmetrised iff
  `symmetrize_fc` — force constants that were *read* are never symmetrised;
* `interface/fc_calculator.py`: `fc_calculator=None` means the traditional finite-difference
  solver, which rejects type-2 datasets (`ForceCalculatorRequiredError`).                 ↦ `recompute` -/

inductive Solver | traditional | symfc | alm
  deriving DecidableEq, Repr

/-- options of `load` and layouts of the sources that do not influence *which* source wins -/
structure Opts where
  isCompactFc : Bool        -- `is_compact_fc=` (default True)
  symmetrizeFc : Bool       -- `symmetrize_fc=` (default True)
  fcCalculator : Option Solver
  yamlFcCompact : Bool      -- layout of the force constants in the yaml file
  argFcCompact : Bool       -- … in the file named by `force_constants_filename`
  fileFcCompact : Bool      -- … in FORCE_CONSTANTS
  hdf5Compact : Bool        -- … in force_constants.hdf5
  datasetType2 : Bool       -- the dataset that wins is of type 2
  deriving DecidableEq, Repr

structure Recomputed where
  fcCompact : Option Bool   -- layout of `Phonopy.force_constants` after load (`none`: no force constants)
  converted : Bool          -- a full↔compact conversion was applied to force constants that were read
  produced : Bool
  symmetrized : Bool
  solver : Option Solver
  raises : Bool             -- `load` raises ForceCalculatorRequiredError
  deriving DecidableEq, Repr

def sourceLayout (o : Opts) : FcSrc → Option Bool
  | .yaml => some o.yamlFcCompact
  | .arg => some o.argFcCompact
  | .fileText => some o.fileFcCompact
  | .fileHdf5 => some o.hdf5Compact
  | _ => none

def recompute (p : Present) (o : Opts) : Recomputed :=
  match fcSource p with
  | .none => { fcCompact := none, converted := false, produced := false, symmetrized := false, solver := none, raises := false }
  | .produced =>
    let sv := o.fcCalculator.getD .traditional
    if o.datasetType2 && sv == .traditional then
      { fcCompact := none, converted := false, produced := false, symmetrized := false, solver := some sv, raises := true }
    else
      { fcCompact := some o.isCompactFc, converted := false, produced := true, symmetrized := o.symmetrizeFc,
        solver := some sv, raises := false }
  | src =>
    { fcCompact := some o.isCompactFc, converted := sourceLayout o src != some o.isCompactFc, produced := false,
      symmetrized := false, solver := none, raises := false }

/-! ### `Phonopy.save` at the same level -/

/-- what a `Phonopy` object holds (as far as save/load decisions go) -/
structure Obj where
  dataset : DS
  fc : Bool
  nac : Bool
  nacHasFactor : Bool
  calculator : Option Calc
  deriving DecidableEq, Repr

/-- `settings` of `Phonopy.save`; `force_constants` is three-valued (absent / False / True) -/
structure Settings where
  forceSets : Bool := true
  displacements : Bool := true
  forceConstants : Option Bool := none
  born : Bool := true
  dielectric : Bool := true
  deriving DecidableEq, Repr

/-- content of the written yaml file -/
structure Yaml where
  nac : Bool
  nacHasFactor : Bool
  dataset : DS
  fc : Bool
  calculator : Option Calc
  deriving DecidableEq, Repr

def save (st : Settings) (o : Obj) : Yaml :=
  -- `if _settings.get("force_constants") is False: pass
  --  elif not forces_in_dataset(self.dataset) and self.force_constants is not None: … True`
  let fcSetting : Bool :=
    match st.forceConstants with
    | some false => false
    | other => if o.dataset != .withForces && o.fc then true else other.getD false
  { -- both tensors are needed by `_parse_nac`; the factor and method lines are written if any line is
    nac := o.nac && st.born && st.dielectric
    nacHasFactor := o.nac && st.born && st.dielectric && o.nacHasFactor
    dataset :=
      if st.forceSets || st.displacements then
        (match o.dataset with
          | .withForces => if st.forceSets then .withForces else .dispOnly
          | d => d)
      else .absent
    fc := fcSetting && o.fc
    calculator := o.calculator }

/-- `phonopy.load(file)` with default arguments in a directory without other files -/
def presentOf (y : Yaml) : Present :=
  { argNac := false, argNacHasFactor := false, argBornFile := false, argBornFileHasFactor := false,
    argForceSets := false, argFcFile := false, argCalculator := none, argFactor := false,
    isNac := true, produceFc := true,
    yamlNac := y.nac, yamlNacHasFactor := y.nacHasFactor, yamlDataset := y.dataset, yamlFc := y.fc,
    yamlCalculator := y.calculator,
    fileForceSets := false, fileForceConstants := false, fileHdf5 := false, fileBorn := false,
    fileBornHasFactor := false }

/-- the object that results from loading -/
def objOf (y : Yaml) (l : Loaded) : Obj :=
  { dataset := (match l.dataset with | .none => .absent | _ => if l.datasetForces then .withForces else y.dataset)
    fc := l.fc != .none
    nac := l.nac != .none
    -- `get_nac_params` stores the calculator's default factor into the dict when it has none
    nacHasFactor := l.nac != .none
    calculator := l.calculator }

def reload (st : Settings) (o : Obj) : Obj :=
  objOf (save st o) (load (presentOf (save st o)))

end PhononModel.LP
