import PhononModel.Model.Symmetrize
/-!
Literal model of the in-place loop of `phpy_set_index_permutation_symmetry_compact_fc`
(c/phonopy.c) in **transpose mode** (`is_transpose = 1`), as repaired by the `fix:` commit
for finding F2: the outer `for j … for i_p …` loops, the `done` table and the three cases
(diagonal block, block paired with itself, pair of distinct blocks) are followed in source
order; the 3×3 inner loops are summarised as one block operation (`Props/C07:
transposeLoop_eq` proves that for certified tables this loop computes the closed form
`transposeC`, for every size).  The unrepaired loop (every (k,l) swapped also on a
self-paired block) is `blockStepPinned`; `Props/C07` refutes the same statement for it.
-/
namespace PhononModel
variable {α : Type}

structure LoopState (np ns : Nat) (α : Type) where
  fc : CFC np ns α
  done : Fin np → Fin ns → Bool

/-- one iteration of the double loop body at `(i_p, j)` -/
def blockStep {np ns nt : Nat} (T : CTables np ns nt) (s : LoopState np ns α) (ip : Fin np) (j : Fin ns) :
    LoopState np ns α :=
  let i := T.p2s ip
  -- `if (i == j)`: diagonal part, swap (k,l) with (l,k) for l > k
  let fc1 : CFC np ns α :=
    if i = j then (fun a b k l => if a = ip ∧ b = i then s.fc ip i l k else s.fc a b k l) else s.fc
  if s.done ip j then { s with fc := fc1 } else
    let jp := T.s2pp j
    let it := T.perms (T.nsym j) i
    let done' : Fin np → Fin ns → Bool :=
      fun a b => if (a = ip ∧ b = j) ∨ (a = jp ∧ b = it) then true else s.done a b
    let fc2 : CFC np ns α :=
      if jp = ip ∧ it = j then
        -- block paired with itself: `continue` unless l > k (and always if i == j)
        (if i = j then fc1 else fun a b k l => if a = ip ∧ b = j then fc1 ip j l k else fc1 a b k l)
      else
        fun a b k l =>
          if a = ip ∧ b = j then fc1 jp it l k
          else if a = jp ∧ b = it then fc1 ip j l k
          else fc1 a b k l
    { fc := fc2, done := done' }

/-- the same iteration **before** the repair: on a self-paired block every (k,l) is swapped
with (l,k) and then (l,k) with (k,l) again — the block is left as it was. -/
def blockStepPinned {np ns nt : Nat} (T : CTables np ns nt) (s : LoopState np ns α) (ip : Fin np) (j : Fin ns) :
    LoopState np ns α :=
  let i := T.p2s ip
  let fc1 : CFC np ns α :=
    if i = j then (fun a b k l => if a = ip ∧ b = i then s.fc ip i l k else s.fc a b k l) else s.fc
  if s.done ip j then { s with fc := fc1 } else
    let jp := T.s2pp j
    let it := T.perms (T.nsym j) i
    let done' : Fin np → Fin ns → Bool :=
      fun a b => if (a = ip ∧ b = j) ∨ (a = jp ∧ b = it) then true else s.done a b
    let fc2 : CFC np ns α :=
      if jp = ip ∧ it = j then fc1
      else
        fun a b k l =>
          if a = ip ∧ b = j then fc1 jp it l k
          else if a = jp ∧ b = it then fc1 ip j l k
          else fc1 a b k l
    { fc := fc2, done := done' }

/-- `(i_p, j)` in the order of the C loops: `for j … for i_p …` -/
def loopPairs (np ns : Nat) : List (Fin np × Fin ns) :=
  (List.finRange ns).flatMap fun j => (List.finRange np).map fun ip => (ip, j)

def transposeLoop {np ns nt : Nat} (T : CTables np ns nt) (fc : CFC np ns α) : CFC np ns α :=
  ((loopPairs np ns).foldl (fun s x => blockStep T s x.1 x.2) { fc := fc, done := fun _ _ => false }).fc

def transposeLoopPinned {np ns nt : Nat} (T : CTables np ns nt) (fc : CFC np ns α) : CFC np ns α :=
  ((loopPairs np ns).foldl (fun s x => blockStepPinned T s x.1 x.2) { fc := fc, done := fun _ _ => false }).fc

end PhononModel

namespace PhononModel
variable {α : Type} [Add α] [Div α] [OfNat α 2]

/-! ### literal loop of `set_index_permutation_symmetry_fc` (full layout, c/phonopy.c)

    for i: for j = i+1 … : for k,l:  m=(i,j,k,l), n=(j,i,l,k):  fc[m] += fc[n]; fc[m] /= 2; fc[n] = fc[m];
           for k<2: for l=k+1…:    m=(i,i,k,l), n=(i,i,l,k):  (same three statements)
-/
abbrev Idx4 (n : Nat) := Fin n × Fin n × Fin 3 × Fin 3

/-- the index swapped with `x` by index-permutation symmetry -/
def swapIdx {n : Nat} (x : Idx4 n) : Idx4 n := (x.2.1, x.1, x.2.2.2, x.2.2.1)

/-- `fc[m] += fc[n]; fc[m] /= 2; fc[n] = fc[m];` -/
def avgStmt {n : Nat} (s : Idx4 n → α) (m : Idx4 n) : Idx4 n → α :=
  -- (no `let`: the value is only computed for the two entries that are written)
  fun x => if x = swapIdx m then (s m + s (swapIdx m)) / 2 else if x = m then (s m + s (swapIdx m)) / 2 else s x

/-- the `m` indices in the order the C loops visit them -/
def permLoopIdx (n : Nat) : List (Idx4 n) :=
  (List.finRange n).flatMap fun i =>
    (((List.finRange n).filter fun j => i < j).flatMap fun j =>
      (List.finRange 3).flatMap fun k => (List.finRange 3).map fun l => (i, j, k, l))
    ++ (((List.finRange 3).filter fun k => k.1 < 2).flatMap fun k =>
      ((List.finRange 3).filter fun l => k < l).map fun l => (i, i, k, l))

def permSymLoop {n : Nat} (Φ : FC n α) : FC n α :=
  let s := (permLoopIdx n).foldl avgStmt (fun x : Idx4 n => Φ x.1 x.2.1 x.2.2.1 x.2.2.2)
  fun i j k l => s (i, j, k, l)

/-- `phpy_perm_trans_symmetrize_fc` with the permutation step run through the literal loop
(staged evaluator used by the driver on small cases) -/
def fullSymLoopF {α : Type} [Add α] [Sub α] [Neg α] [Mul α] [Div α] [OfNat α 0] [OfNat α 2] [NatCast α]
    (n : Nat) (level : Nat) (A : Frozen4 α) : Frozen4 α :=
  stage4 (transDiag (n := n)) (iter (fun A => stage4 (permSymLoop (n := n)) (stage4 (rowDrift (m := n) (n := n)) (stage4 (colDrift (n := n)) A))) level A)

end PhononModel
