import PhononModel.Model.Symmetrize
/-!
Literal model of the in-place loop of `phpy_set_index_permutation_symmetry_compact_fc`
(c/phonopy.c) in **transpose mode** (`is_transpose = 1`), as repaired by the `fix:` commit
for finding F2: the outer `for j … for i_p …` loops, the `done` table and the three cases
(diagonal block, block paired with itself, pair of distinct blocks) are followed in source
order; the 3×3 inner loops are summarised as one block operation (`Props/C07:
transposeLoop_eq` proves that for certified tables this loop computes the closed form
`transposeC`, for every size).  The unrepaired loop (every (k,l) swapped also on a
self-paired block) is `blockStepPinned`; `Props/C07` refutes the same statement for it.
-/
namespace PhononModel
variable {α : Type}

structure LoopState (np ns : Nat) (α : Type) where
  fc : CFC np ns α
  done : Fin np → Fin ns → Bool

/-- one iteration of the double loop body at `(i_p, j)` -/
def blockStep {np ns nt : Nat} (T : CTables np ns nt) (s : LoopState np ns α) (ip : Fin np) (j : Fin ns) :
    LoopState np ns α :=
  let i := T.p2s ip
  -- `if (i == j)`: diagonal part, swap (k,l) with (l,k) for l > k
  let fc1 : CFC np ns α :=
    if i = j then (fun a b k l => if a = ip ∧ b = i then s.fc ip i l k else s.fc a b k l) else s.fc
  if s.done ip j then { s with fc := fc1 } else
    let jp := T.s2pp j
    let it := T.perms (T.nsym j) i
    let done' : Fin np → Fin ns → Bool :=
      fun a b => if (a = ip ∧ b = j) ∨ (a = jp ∧ b = it) then true else s.done a b
    let fc2 : CFC np ns α :=
      if jp = ip ∧ it = j then
        -- block paired with itself: `continue` unless l > k (and always if i == j)
        (if i = j then fc1 else fun a b k l => if a = ip ∧ b = j then fc1 ip j l k else fc1 a b k l)
      else
        fun a b k l =>
          if a = ip ∧ b = j then fc1 jp it l k
          else if a = jp ∧ b = it then fc1 ip j l k
          else fc1 a b k l
    { fc := fc2, done := done' }

/-- the same iteration **before** the repair: on a self-paired block every (k,l) is swapped
with (l,k) and then (l,k) with (k,l) again — the block is left as it was. -/
def blockStepPinned {np ns nt : Nat} (T : CTables np ns nt) (s : LoopState np ns α) (ip : Fin np) (j : Fin ns) :
    LoopState np ns α :=
  let i := T.p2s ip
  let fc1 : CFC np ns α :=
    if i = j then (fun a b k l => if a = ip ∧ b = i then s.fc ip i l k else s.fc a b k l) else s.fc
  if s.done ip j then { s with fc := fc1 } else
    let jp := T.s2pp j
    let it := T.perms (T.nsym j) i
    let done' : Fin np → Fin ns → Bool :=
      fun a b => if (a = ip ∧ b = j) ∨ (a = jp ∧ b = it) then true else s.done a b
    let fc2 : CFC np ns α :=
      if jp = ip ∧ it = j then fc1
      else
        fun a b k l =>
          if a = ip ∧ b = j then fc1 jp it l k
          else if a = jp ∧ b = it then fc1 ip j l k
          else fc1 a b k l
    { fc := fc2, done := done' }

/-- `(i_p, j)` in the order of the C loops: `for j … for i_p …` -/
def loopPairs (np ns : Nat) : List (Fin np × Fin ns) :=
  (List.finRange ns).flatMap fun j => (List.finRange np).map fun ip => (ip, j)

def transposeLoop {np ns nt : Nat} (T : CTables np ns nt) (fc : CFC np ns α) : CFC np ns α :=
  ((loopPairs np ns).foldl (fun s x => blockStep T s x.1 x.2) { fc := fc, done := fun _ _ => false }).fc

def transposeLoopPinned {np ns nt : Nat} (T : CTables np ns nt) (fc : CFC np ns α) : CFC np ns α :=
  ((loopPairs np ns).foldl (fun s x => blockStepPinned T s x.1 x.2) { fc := fc, done := fun _ _ => false }).fc

end PhononModel
