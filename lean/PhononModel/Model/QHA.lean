import PhononModel.Model.Basic
/-!
# Quasi-harmonic analysis — model of the bookkeeping of `phonopy/qha/core.py: QHA`

Source anchors

* `QHA.__init__`: `electronic_energies += volumes * pressure / EVAngstromToGPa`, `fe_phonon / EvTokJmol`
  ↦ `Electronic`, `elEnergy`
* input handling of `QHA.__init__` (`np.array(...)` copies; repeated analyses on the same caller arrays) ↦ `construct`,
  `repeated` (`constructAliased`: the excluded in-place behaviour)
* `QHA.run`, the list `fe = [ph_e + el_e …]` fitted at temperature `i` ↦ `freeEnergy`
* `_get_num_elems` and the `+1 / -1` adjustment in `run` ↦ `argminAbs`, `numElems`
* `_set_thermal_expansion` ↦ `thermalExpansion`
* `_set_heat_capacity_P_numerical` (parabola through three points = `np.polyfit(…, 2)` on three points,
  `cp = -(2*parameters[0])*t`) ↦ `quadCoeff`, `cpNumerical`
* `_set_gruneisen_parameter` (quartic `np.polyfit` of C_V(V) is an *input* here: its value at `V_i`) ↦ `gruneisen`
* `_set_heat_capacity_P_polyfit` (quartic fits are inputs: their coefficients) ↦ `poly4`, `dpoly4`, `quadLin`,
  `dvdtAt`, `cpPolyfit`, `dsdv`; the `NotImplementedError` branch of `heat_capacity_P_polyfit` ↦ `cpPolyfitAvailable`
* `_equiv_bulk_modulus` ↦ `bulkGPa`
* the public slices `[: self._len]`, `_len = len(thermal_expansions) = num_elems - 1` ↦ `outLen`

The EOS fit itself (`scipy.optimize.leastsq`) is not modelled: fitted `V(T), G(T), B(T)` are inputs.
-/
namespace PhononModel.QHA
open PhononModel

section energies
variable {α : Type} [Add α] [Mul α] [Div α]

/-- `electronic_energies`: `ndim == 1` (per volume) or `ndim == 2` (per temperature and volume) -/
inductive Electronic (α : Type) (nt nv : Nat) where
  | static (e : Fin nv → α)
  | perT (e : Fin nt → Fin nv → α)

/-- `self._electronic_energies` after `+= volumes * pressure / EVAngstromToGPa` (numpy broadcasts the
row over temperatures); `pressure = None` adds nothing -/
def elEnergy {nt nv : Nat} (eVA3ToGPa : α) (vol : Fin nv → α) (P : Option α) (el : Electronic α nt nv)
    (i : Fin nt) (j : Fin nv) : α :=
  let e := match el with
    | .static e => e j
    | .perT e => e i j
  match P with
  | none => e
  | some p => e + vol j * p / eVA3ToGPa

/-- the energies fitted at temperature `i`: `fe_phonon[i][j]/EvTokJmol + el_energy[j]` -/
def freeEnergy {nt nv : Nat} (evToKJmol eVA3ToGPa : α) (vol : Fin nv → α) (P : Option α)
    (el : Electronic α nt nv) (fph : Fin nt → Fin nv → α) (i : Fin nt) (j : Fin nv) : α :=
  fph i j / evToKJmol + elEnergy eVA3ToGPa vol P el i j

/-- `QHA.__init__` / `BulkModulus.__init__` take their inputs with `np.array(...)` (a copy): one analysis maps the caller's
electronic energies to the internal energies (`+PV` added) and leaves the caller's array as it was -/
def construct {nt nv : Nat} (eVA3ToGPa : α) (vol : Fin nv → α) (P : Option α) (caller : Electronic α nt nv) :
    (Fin nt → Fin nv → α) × Electronic α nt nv :=
  (fun i j => elEnergy eVA3ToGPa vol P caller i j, caller)

/-- the behaviour the property excludes (inputs taken without copying, `+=` in place): the caller's array becomes the
internal one -/
def constructAliased {nt nv : Nat} (eVA3ToGPa : α) (vol : Fin nv → α) (P : Option α) (caller : Electronic α nt nv) :
    (Fin nt → Fin nv → α) × Electronic α nt nv :=
  let e := fun i j => elEnergy eVA3ToGPa vol P caller i j
  (e, .perT e)

/-- `n + 1` analyses in a row on the same caller array; result: internal energies of the last one -/
def repeated {nt nv : Nat} (step : Electronic α nt nv → (Fin nt → Fin nv → α) × Electronic α nt nv) :
    Nat → Electronic α nt nv → (Fin nt → Fin nv → α)
  | 0, caller => (step caller).1
  | n + 1, caller => repeated step n (step caller).2

end energies

section counting
variable {α : Type} [Sub α] [Neg α] [OfNat α 0] [LT α] [∀ a b : α, Decidable (a < b)]

def absv (x : α) : α := if x < 0 then -x else x

/-- `np.argmin(np.abs(temperatures - t_max))`: index of the first minimum -/
def argminAbs (ts : List α) (tmax : α) : Nat :=
  let rec go (l : List α) (idx best : Nat) (bestv : α) : Nat :=
    match l with
    | [] => best
    | t :: r => if absv (t - tmax) < bestv then go r (idx + 1) idx (absv (t - tmax)) else go r (idx + 1) best bestv
  match ts with
  | [] => 0
  | t :: r => go r 1 0 (absv (t - tmax))

/-- `num_elems = _get_num_elems(T) + 1; if num_elems > len(T): num_elems -= 1` -/
def numElems (ts : List α) (tmax : Option α) : Nat :=
  let n0 := match tmax with
    | none => ts.length
    | some t => argminAbs ts t + 1
  if n0 + 1 > ts.length then n0 else n0 + 1

/-- length of every public per-temperature array: `len(self._thermal_expansions) = num_elems - 1` -/
def outLen (num : Nat) : Nat := num - 1

end counting

section fd
variable {α : Type} [Add α] [Sub α] [Mul α] [Div α] [Neg α] [OfNat α 0] [OfNat α 2]

/-- `_set_thermal_expansion`: `beta[0] = 0`, `beta[i] = (V[i+1]-V[i-1])/(T[i+1]-T[i-1])/V[i]`, `1 ≤ i ≤ num-2` -/
def thermalExpansion (T V : Nat → α) (i : Nat) : α :=
  if i = 0 then 0 else (V (i + 1) - V (i - 1)) / (T (i + 1) - T (i - 1)) / V i

/-- leading coefficient of the parabola through `(t0,g0),(t1,g1),(t2,g2)` — what
`np.polyfit([t0,t1,t2],[g0,g1,g2],2)[0]` is (second divided difference) -/
def quadCoeff (t0 t1 t2 g0 g1 g2 : α) : α :=
  ((g2 - g1) / (t2 - t1) - (g1 - g0) / (t1 - t0)) / (t2 - t0)

/-- `_set_heat_capacity_P_numerical`: `cp[0] = 0`, `cp[i] = -(2*parameters[0])*T[i]` with
`g = G * EvTokJmol * 1000` -/
def cpNumerical (evToKJmol thousand : α) (T G : Nat → α) (i : Nat) : α :=
  if i = 0 then 0
  else
    let g : Nat → α := fun k => G k * evToKJmol * thousand
    let a2 : α := quadCoeff (T (i - 1)) (T i) (T (i + 1)) (g (i - 1)) (g i) (g (i + 1))
    Neg.neg (2 * a2) * T i

/-- linear coefficient of the parabola `a₂t² + a₁t + a₀` through three points (`np.polyfit(…, 2)[1]`) -/
def quadLin (t0 t1 t2 v0 v1 v2 : α) : α :=
  (v1 - v0) / (t1 - t0) - quadCoeff t0 t1 t2 v0 v1 v2 * (t0 + t1)

/-- `np.dot(parameters, [x**4, x**3, x**2, x, 1])` -/
def poly4 (a b c d e x : α) : α := a * (x * x * x * x) + b * (x * x * x) + c * (x * x) + d * x + e

end fd

section polyfit
variable {α : Type} [Add α] [Sub α] [Mul α] [Div α] [Neg α] [OfNat α 0] [OfNat α 2] [OfNat α 3] [OfNat α 4]

/-- `np.dot(parameters[:4], [4*x**3, 3*x**2, 2*x, 1])` -/
def dpoly4 (a b c d x : α) : α := a * (4 * (x * x * x)) + b * (3 * (x * x)) + c * (2 * x) + d

/-- `dvdt = parameters[0]*2*t + parameters[1]` of the parabola through `(T[i-1..i+1], V[i-1..i+1])` -/
def dvdtAt (T V : Nat → α) (i : Nat) : α :=
  quadCoeff (T (i - 1)) (T i) (T (i + 1)) (V (i - 1)) (V i) (V (i + 1)) * 2 * T i
    + quadLin (T (i - 1)) (T i) (T (i + 1)) (V (i - 1)) (V i) (V (i + 1))

/-- `_set_heat_capacity_P_polyfit`: `cp[0] = 0`, `cp[j] = cv_p + t*dvdt*dsdv_t` with the quartic fits of `C_V(V)` and
`S(V)` at temperature `j` given by their coefficients (`cvc j`, `sc j`: highest power first) and `x = V[j]` -/
def cpPolyfit (T V : Nat → α) (cvc sc : Nat → Fin 5 → α) (j : Nat) : α :=
  if j = 0 then 0
  else
    poly4 (cvc j 0) (cvc j 1) (cvc j 2) (cvc j 3) (cvc j 4) (V j)
      + T j * dvdtAt T V j * dpoly4 (sc j 0) (sc j 1) (sc j 2) (sc j 3) (V j)

/-- `self._dsdv` -/
def dsdv (V : Nat → α) (sc : Nat → Fin 5 → α) (j : Nat) : α :=
  if j = 0 then 0 else dpoly4 (sc j 0) (sc j 1) (sc j 2) (sc j 3) (V j)

end polyfit

/-- `heat_capacity_P_polyfit` is available only for electronic energies of shape (V) (`NotImplementedError` otherwise) -/
def cpPolyfitAvailable {α : Type} {nt nv : Nat} : Electronic α nt nv → Bool
  | .static _ => true
  | .perT _ => false

/-- `self._equiv_bulk_modulus = parameters[:, 1] * EVAngstromToGPa` -/
def bulkGPa {α : Type} [Mul α] (eVA3ToGPa b0 : α) : α := b0 * eVA3ToGPa

section grun
variable {α : Type} [Mul α] [Div α] [OfNat α 0] [LT α] [∀ a b : α, Decidable (a < b)]

/-- `_set_gruneisen_parameter`: `cv = cvpoly(V_i)/V_i/1000/EvTokJmol*EVAngstromToGPa`,
`gamma = 0 if cv < 1e-10 else beta*K_T/cv`; `gamma[0] = 0` -/
def gruneisen (evToKJmol eVA3ToGPa thousand tiny : α) (i : Nat) (beta kt cvAtV v : α) : α :=
  if i = 0 then 0
  else
    let cv := cvAtV / v / thousand / evToKJmol * eVA3ToGPa
    if cv < tiny then 0 else beta * kt / cv

end grun

end PhononModel.QHA
