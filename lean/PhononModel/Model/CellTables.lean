import PhononModel.Model.Basic
/-!
# Executable certificates for the index tables of `Supercell` and `Primitive`  (C04)

The tables (`s2u_map`, `u2s_map`; `p2s_map`, `s2p_map`, `atomic_permutations`) come out of
`phonopy/structure/cells.py`; `wf` is evaluated in the driver on the implementation's own tables
for every generated case, and `Props/C04.lean` proves what `wf = true` means.
-/
namespace PhononModel.CellTables

def allFin (n : Nat) (p : Fin n → Bool) : Bool := (List.finRange n).all p
def anyFin (n : Nat) (p : Fin n → Bool) : Bool := (List.finRange n).any p
def countFin (n : Nat) (p : Fin n → Bool) : Nat := ((List.finRange n).filter p).length

/-- `Supercell.s2u_map`, `Supercell.u2s_map` with `N` atoms per unit-cell atom -/
structure STables (nu ns : Nat) where
  s2u : Fin ns → Fin ns
  u2s : Fin nu → Fin ns
  N : Nat

def STables.wf {nu ns : Nat} (T : STables nu ns) : Bool :=
  ns == nu * T.N &&
  allFin nu (fun u => (T.u2s u).1 == u.1 * T.N) &&
  allFin nu (fun u => T.s2u (T.u2s u) == T.u2s u) &&
  allFin ns (fun k => anyFin nu (fun u => T.s2u k == T.u2s u)) &&
  allFin nu (fun u => countFin ns (fun k => T.s2u k == T.u2s u) == T.N)

/-- `Primitive.p2s_map`, `Primitive.s2p_map`, `Primitive.atomic_permutations` -/
structure PTables (np ns nt : Nat) where
  p2s : Fin np → Fin ns
  s2p : Fin ns → Fin ns
  perms : Fin nt → Fin ns → Fin ns

def PTables.wf {np ns nt : Nat} (T : PTables np ns nt) : Bool :=
  allFin np (fun j => T.s2p (T.p2s j) == T.p2s j) &&
  allFin ns (fun k => anyFin np (fun j => T.s2p k == T.p2s j)) &&
  allFin np (fun j => allFin np (fun j' => !(T.p2s j == T.p2s j') || j == j')) &&
  allFin nt (fun t => allFin ns (fun i => allFin ns (fun i' => !(T.perms t i == T.perms t i') || i == i'))) &&
  anyFin nt (fun t => allFin ns (fun i => T.perms t i == i)) &&
  allFin nt (fun t => allFin nt (fun t' => anyFin nt (fun t'' => allFin ns (fun i => T.perms t'' i == T.perms t (T.perms t' i))))) &&
  allFin nt (fun t => anyFin nt (fun t' => allFin ns (fun i => T.perms t' (T.perms t i) == i))) &&
  allFin nt (fun t => allFin ns (fun k => T.s2p (T.perms t k) == T.s2p k)) &&
  allFin ns (fun k => countFin nt (fun t => T.perms t (T.s2p k) == k) == 1)

/-- a smaller certificate: identity, closure, sublattices kept, **freeness at the representatives** (two
different translations never send a representative to the same atom) and the count `n_s = n_t·n_p`.
Simple transitivity then follows by counting (`Props/C04.lean: translations_simply_transitive_small`). -/
def PTables.wfSmall {np ns nt : Nat} (T : PTables np ns nt) : Bool :=
  ns == nt * np &&
  allFin np (fun j => T.s2p (T.p2s j) == T.p2s j) &&
  allFin ns (fun k => anyFin np (fun j => T.s2p k == T.p2s j)) &&
  allFin np (fun j => allFin np (fun j' => !(T.p2s j == T.p2s j') || j == j')) &&
  anyFin nt (fun t => allFin ns (fun i => T.perms t i == i)) &&
  allFin nt (fun t => allFin nt (fun t' => anyFin nt (fun t'' => allFin ns (fun i => T.perms t'' i == T.perms t (T.perms t' i))))) &&
  allFin nt (fun t => allFin nt (fun t' => allFin np (fun j => !(T.perms t (T.p2s j) == T.perms t' (T.p2s j)) || t == t'))) &&
  allFin nt (fun t => allFin ns (fun k => T.s2p (T.perms t k) == T.s2p k))

end PhononModel.CellTables
