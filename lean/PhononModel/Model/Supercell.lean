import PhononModel.Model.SNF
/-!
# Model of `phonopy/structure/cells.py`: `Supercell`, `TrimmedCell`, `Primitive` maps  (C04)

Source anchors ↦ model definitions
* `Supercell._get_surrounding_frame`             ↦ `surroundingFrame`
* `np.meshgrid` lattice points (a fastest)       ↦ `latticePoints`
* `Supercell._get_simple_supercell`              ↦ `simpleSupercell`
* `TrimmedCell._run / _extract`                  ↦ `trim`  (`distance < symprec` ↦ exact equality mod 1)
* `Supercell._create_supercell` (classic / SNF)  ↦ `supercell`  (`old = true / false`)
* `Supercell._create_supercell` tail (`N != determinant(S)` guard, `s2u/u2s`) ↦ `perAtom`, `finishSupercell`
* `Primitive._create_primitive_cell` (trim + symbol check) ↦ `primTrim`; `_map_atomic_indices` ↦ `primS2P`;
  `_get_atomic_permutations` (+ `compute_all_sg_permutations` for pure translations) ↦ `primPerms`;
  `Primitive._run` ↦ `primitive`
* certificates (no counterpart in the code): `eqModS`, `SnfCert`, `isCompleteResidueSystem`, `frameComplete`
* `determinant`                                  ↦ `M3.det`

Positions are exact rationals; the lattice enters only through `cell = Sᵀ·L` (rational `L`).
The supercell lattice is modelled as the property demands it, `Sᵀ·L`, on both routes; the
SNF route of the code as pinned computes `S·L` (`simpleLatticeAsCoded`, finding F9).
Likewise the SNF route is modelled as taking the diagonal shortcut only for diagonal matrices
with positive entries; the pinned code takes it for every diagonal matrix and then builds an
empty cell for e.g. `diag(-1,-1,1)` (finding F9b).
Error branches are errors (`CErr`).
-/
namespace PhononModel.Supercell
open PhononModel PhononModel.SNF

inductive CErr where
  | snf (e : SNF.Err)          -- RuntimeError("Determinant is 0.")
  | snfNotFinished             -- model fuel exhausted (the code would still loop)
  | pinvNotUnimodular          -- `assert determinant(P_inv) == 1`
  | singular                   -- numpy.linalg.LinAlgError("Singular matrix")
  | trimFailed                 -- RuntimeError("Remapping of atoms by TrimmedCell failed.")
  | creationFailed             -- "Supercell creation failed." (empty cell is returned)
  | symbolMismatch             -- RuntimeError("Atom symbol mapping failure. …")
  | mapNotUnique               -- `assert len(indices) == 1` in `_map_atomic_indices`
  | overlapNotUnique           -- `assert len(overlap_indices) == 1` in `_extract`
  | permNotFound               -- ValueError from `_compute_permutation_c`
deriving Repr, DecidableEq

/-! ### rational helpers -/

def fracPart (q : Rat) : Rat := q - (q.floor : Int)
def isIntRat (q : Rat) : Bool := q.den == 1
def V3.isInt (v : V3 Rat) : Bool := isIntRat v.x && isIntRat v.y && isIntRat v.z
def V3.frac (v : V3 Rat) : V3 Rat := v.map fracPart

/-- `np.rint` (round half to even) -/
def ratRint (q : Rat) : Int :=
  let f := q.floor
  let r := q - (f : Int)
  if r < 1/2 then f else if 1/2 < r then f + 1 else if f % 2 = 0 then f else f + 1

/-- `np.linalg.inv` (raises on singular input) -/
def invRat (m : M3 Rat) : Except CErr (M3 Rat) :=
  if m.det = 0 then .error .singular else .ok m.inv

/-- two scaled positions are the same point of the torus (`diff -= rint(diff); |diff| < symprec`) -/
def sameMod1 (a b : V3 Rat) : Bool := V3.isInt (a - b)

/-! ### surrounding frame and lattice points -/

def max8 (l : List Int) : Int := l.foldl max (l.headD 0)
def min8 (l : List Int) : Int := l.foldl min (l.headD 0)

def surroundingFrame (S : M3 Int) : V3 Int :=
  let c0 := S.col 0
  let c1 := S.col 1
  let c2 := S.col 2
  let axes : List (V3 Int) := [⟨0, 0, 0⟩, c0, c1, c2, c1 + c2, c2 + c0, c0 + c1, c0 + c1 + c2]
  let ext (f : V3 Int → Int) : Int := max8 (axes.map f) - min8 (axes.map f)
  ⟨ext (·.x), ext (·.y), ext (·.z)⟩

/-- `b, c, a = meshgrid(range(m1), range(m2), range(m0)); c_[a.ravel(), b.ravel(), c.ravel()]` -/
def latticePoints (multi : V3 Int) : List (V3 Int) :=
  (List.range multi.z.toNat).flatMap fun (c : Nat) =>
    (List.range multi.y.toNat).flatMap fun (b : Nat) =>
      (List.range multi.x.toNat).map fun (a : Nat) => (⟨(a : Int), (b : Int), (c : Int)⟩ : V3 Int)

/-! ### cells -/

structure SimpleAtom where
  /-- `atom_map`: index of the unit-cell atom -/
  u : Nat
  /-- lattice point added to the unit-cell position (unit-cell coordinates) -/
  lp : V3 Int
  /-- scaled position in the simple supercell -/
  pos : V3 Rat
deriving Repr, DecidableEq

/-- `_get_simple_supercell`: `mat` is `diag(multi)` (classic) or `S` (SNF); `Pinv` is `rint(inv P)` or the identity -/
def simpleSupercell (upos : Array (V3 Rat)) (multi : V3 Int) (Pinv : M3 Int) (matInv : M3 Rat) : Array SimpleAtom := Id.run do
  let pts := (latticePoints multi).map (fun m => Pinv.mulVec m)
  let mut out : Array SimpleAtom := #[]
  for h : u in [0:upos.size] do
    let x := upos[u]'(h.2.1)
    for lp in pts do
      out := out.push { u := u, lp := lp, pos := matInv.mulVec (lp.toRat + x) }
  pure out

structure Trimmed where
  /-- scaled positions in the trimmed lattice, in `[0,1)` -/
  pos : Array (V3 Rat)
  /-- `extracted_atoms` -/
  extracted : Array Nat
  /-- `mapping_table` -/
  mapping : Array Nat
deriving Repr, DecidableEq

/-- `TrimmedCell._extract` (sequential overlap removal) -/
def extract (pnew : Array (V3 Rat)) (checkOverlap : Bool) : Except CErr Trimmed := do
  let mut tpos : Array (V3 Rat) := #[]
  let mut ext : Array Nat := #[]
  let mut mapping : Array Nat := Array.range pnew.size
  for h : i in [0:pnew.size] do
    let p := pnew[i]'(h.2.1)
    let mut found := false
    if checkOverlap && tpos.size > 0 then
      let idx := (List.range tpos.size).filter (fun k => sameMod1 (tpos.getD k ⟨0, 0, 0⟩) p)
      match idx with
      | [] => pure ()
      | [k] =>
        found := true
        mapping := mapping.setIfInBounds i (ext.getD k 0)
      | _ => throw .overlapNotUnique
    if !found then
      tpos := tpos.push p
      ext := ext.push i
  pure { pos := tpos, extracted := ext, mapping := mapping }

/-- `TrimmedCell._run`: positions in the lattice `Rᵀ·cell`, reduced into `[0,1)`, overlap removal,
atom-count guard `len(cell) == rint(len(trimmed) / det R)`. -/
def trim (R : M3 Rat) (pos : Array (V3 Rat)) (checkOverlap : Bool) : Except CErr Trimmed := do
  let Rinv ← invRat R
  let pnew := pos.map (fun p => V3.frac (Rinv.mulVec p))
  let t ← extract pnew checkOverlap
  let scale : Rat := 1 / R.det
  if (pos.size : Int) = ratRint (scale * (t.pos.size : Rat)) then pure t else throw .trimFailed

structure SAtom where
  u : Nat
  lp : V3 Int
  pos : V3 Rat
deriving Repr, DecidableEq

structure SupercellOut where
  /-- rows are the basis vectors: `Sᵀ·L` -/
  lattice : M3 Rat
  atoms : Array SAtom
  s2u : Array Nat
  u2s : Array Nat
  /-- atoms per unit-cell atom -/
  N : Nat
deriving Repr, DecidableEq

def snfFuel : Nat := 64

/-- the lattice the SNF route of the pinned code assigns (`np.dot(mat, lattice)`, finding F9) -/
def simpleLatticeAsCoded (S : M3 Int) (L : M3 Rat) : M3 Rat := intToRat S * L

/-- `N = num_satom // num_uatom` -/
def perAtom (ns nu : Nat) : Int := if nu = 0 then 0 else ((ns / nu : Nat) : Int)

/-- tail of `_create_supercell`: the `N != determinant(S)` guard and the index maps -/
def finishSupercell (L : M3 Rat) (upos : Array (V3 Rat)) (S : M3 Int) (simple : Array SimpleAtom) (t : Trimmed) :
    Except CErr SupercellOut :=
  let ns := t.pos.size
  let nu := upos.size
  let N : Int := perAtom ns nu
  if N ≠ S.det then .error .creationFailed
  else
    let atoms : Array SAtom := (Array.range ns).map fun k =>
      let sa := simple.getD (t.extracted.getD k 0) ⟨0, ⟨0, 0, 0⟩, ⟨0, 0, 0⟩⟩
      { u := sa.u, lp := sa.lp, pos := t.pos.getD k ⟨0, 0, 0⟩ }
    .ok { lattice := (intToRat S).transpose * L
          atoms := atoms
          s2u := atoms.map (fun a => a.u * N.toNat)
          u2s := (Array.range nu).map (· * N.toNat)
          N := N.toNat }

/-- `Supercell._create_supercell` -/
def supercell (L : M3 Rat) (upos : Array (V3 Rat)) (S : M3 Int) (old : Bool) : Except CErr SupercellOut := do
  let nu := upos.size
  let simple : Array SimpleAtom ← (do
    if old then
      let multi := surroundingFrame S
      let mat : M3 Rat := intToRat (M3.diag multi.x multi.y multi.z)
      let matInv ← invRat mat
      pure (simpleSupercell upos multi eye matInv)
    else
      let matInv ← invRat (intToRat S)
      if S.isDiag && decide (0 < S.a00) && decide (0 < S.a11) && decide (0 < S.a22) then
        pure (simpleSupercell upos ⟨S.a00, S.a11, S.a22⟩ eye matInv)
      else
        let o ← (match SNF.run snfFuel S with
          | .error e => Except.error (CErr.snf e)
          | .ok o => pure o)
        if !o.finished then throw .snfNotFinished
        let PinvR ← invRat (intToRat o.P)
        let Pinv : M3 Int := PinvR.map ratRint
        if Pinv.det ≠ 1 then throw .pinvNotUnimodular
        pure (simpleSupercell upos ⟨o.D.a00, o.D.a11, o.D.a22⟩ Pinv matInv))
  let t ← (do
    if old then
      let multi := surroundingFrame S
      -- trim_frame rows: mat[i] / multi[i]
      let fr : M3 Rat := M3.ofRows ((S.row 0).toRat.map (· / (multi.x : Rat)))
        ((S.row 1).toRat.map (· / (multi.y : Rat))) ((S.row 2).toRat.map (· / (multi.z : Rat)))
      trim fr (simple.map (·.pos)) true
    else
      trim M3.one (simple.map (·.pos)) false)
  finishSupercell L upos S simple t

/-! ### primitive cell -/

structure PrimitiveOut where
  /-- scaled positions of the primitive atoms in the primitive lattice -/
  pos : Array (V3 Rat)
  p2s : Array Nat
  s2p : Array Nat
  /-- `mapping_table` of the trimming -/
  mapping : Array Nat
  /-- `atomic_permutations[t][i]` -/
  perms : Array (Array Nat)
deriving Repr, DecidableEq

/-- index `j` with `pos[j] ≡ target (mod 1)`; the C routine takes the first free match -/
def findMod1 (spos : Array (V3 Rat)) (target : V3 Rat) : Option Nat :=
  (List.range spos.size).find? (fun j => sameMod1 (spos.getD j ⟨0, 0, 0⟩) target)

/-- `_create_primitive_cell`: trimming and the symbol check
`supercell.symbols == [supercell.symbols[i] for i in mapping_table]` -/
def primTrim (spos : Array (V3 Rat)) (symbols : Array Nat) (pmat : M3 Rat) : Except CErr Trimmed :=
  match trim pmat spos true with
  | .error e => .error e
  | .ok t =>
    if (List.range spos.size).all (fun i => symbols.getD i 0 == symbols.getD (t.mapping.getD i 0) 0) then .ok t
    else .error .symbolMismatch

/-- `_map_atomic_indices` -/
def primS2P (spos : Array (V3 Rat)) (pmat : M3 Rat) (p2s : Array Nat) : Except CErr (Array Nat) := do
  let Pinv ← invRat pmat
  let frac := spos.map (fun p => Pinv.mulVec p)
  let mut s2p : Array Nat := #[]
  for sp in frac do
    let idx := (List.range p2s.size).filter (fun k => sameMod1 (frac.getD (p2s.getD k 0) ⟨0, 0, 0⟩) sp)
    match idx with
    | [k] => s2p := s2p.push (p2s.getD k 0)
    | _ => throw .mapNotUnique
  pure s2p

/-- `_get_atomic_permutations` (pure translations through `compute_all_sg_permutations`) -/
def primPerms (spos : Array (V3 Rat)) (p2s s2p : Array Nat) : Except CErr (Array (Array Nat)) := do
  let p0 := p2s.getD 0 0
  let x0 := spos.getD p0 ⟨0, 0, 0⟩
  let transIdx := (List.range spos.size).filter (fun k => s2p.getD k 0 == p0)
  let mut perms : Array (Array Nat) := #[]
  for k in transIdx do
    let tvec := spos.getD k ⟨0, 0, 0⟩ - x0
    let mut row : Array Nat := #[]
    for i in [0:spos.size] do
      match findMod1 spos (spos.getD i ⟨0, 0, 0⟩ + tvec) with
      | some j => row := row.push j
      | none => throw .permNotFound
    perms := perms.push row
  pure perms

/-- `Primitive._run` without the shortest vectors (those are C05) -/
def primitive (spos : Array (V3 Rat)) (symbols : Array Nat) (pmat : M3 Rat) : Except CErr PrimitiveOut :=
  match primTrim spos symbols pmat with
  | .error e => .error e
  | .ok t =>
    match primS2P spos pmat t.extracted with
    | .error e => .error e
    | .ok s2p =>
      match primPerms spos t.extracted s2p with
      | .error e => .error e
      | .ok perms => .ok { pos := t.pos, p2s := t.extracted, s2p := s2p, mapping := t.mapping, perms := perms }

/-! ### `get_primitive_matrix_by_centring` (table copied from cells.py) -/

def centringMatrix : String → Option (M3 Rat)
  | "P" => some ⟨1, 0, 0, 0, 1, 0, 0, 0, 1⟩
  | "F" => some ⟨0, 1/2, 1/2, 1/2, 0, 1/2, 1/2, 1/2, 0⟩
  | "I" => some ⟨-1/2, 1/2, 1/2, 1/2, -1/2, 1/2, 1/2, 1/2, -1/2⟩
  | "A" => some ⟨1, 0, 0, 0, 1/2, -1/2, 0, 1/2, 1/2⟩
  | "C" => some ⟨1/2, 1/2, 0, -1/2, 1/2, 0, 0, 0, 1⟩
  | "R" => some ⟨2/3, -1/3, -1/3, 1/3, 1/3, -2/3, 1/3, 1/3, 1/3⟩
  | _ => none

/-- determinant and integrality of the inverse of a centring matrix -/
def centringOk (m : M3 Rat) (index : Nat) : Bool :=
  m.det * (index : Rat) == 1 && (m.inv.toList.all fun q => q.den == 1) && m.inv.det == (index : Rat)

/-! ### executable certificates used by the theorems of `Props/C04.lean` -/

/-- `x ≡ y (mod S ℤ³)`: `adj(S)·(x − y)` is divisible by `det S` componentwise -/
def eqModS (S : M3 Int) (x y : V3 Int) : Bool :=
  let w := S.adj.mulVec (x - y)
  let d := S.det
  w.x % d == 0 && w.y % d == 0 && w.z % d == 0

/-- certificate of an SNF triple with explicit inverses -/
structure SnfCert where
  D : M3 Int
  P : M3 Int
  Pinv : M3 Int
  Q : M3 Int
  Qinv : M3 Int
deriving Repr, DecidableEq

def SnfCert.ok (S : M3 Int) (c : SnfCert) : Bool :=
  c.D = c.P * S * c.Q && c.D.isDiag && decide (0 < c.D.a00) && decide (0 < c.D.a11) && decide (0 < c.D.a22)
    && c.Pinv * c.P = M3.one && c.P * c.Pinv = M3.one && c.Q * c.Qinv = M3.one && c.Qinv * c.Q = M3.one

def boxPoints (D : M3 Int) : List (V3 Int) := latticePoints ⟨D.a00, D.a11, D.a22⟩

/-- the points `pts` hit every residue class of `ℤ³ / Sℤ³` exactly once: checked against the
`|det S|` representatives `P⁻¹·m`, `m ∈ box D`, of the SNF certificate -/
def isCompleteResidueSystem (S : M3 Int) (c : SnfCert) (pts : List (V3 Int)) : Bool :=
  c.ok S && pts.length == (boxPoints c.D).length &&
    (boxPoints c.D).all (fun m => (pts.filter (fun p => eqModS S p (c.Pinv.mulVec m))).length == 1)

/-- the classic route: the box of the surrounding frame meets every residue class of `ℤ³ / Sℤ³`
(checked against the representatives of an SNF certificate) -/
def frameComplete (S : M3 Int) (c : SnfCert) : Bool :=
  c.ok S && (boxPoints c.D).all (fun m =>
    (latticePoints (surroundingFrame S)).any (fun p => eqModS S p (c.Pinv.mulVec m)))

end PhononModel.Supercell
