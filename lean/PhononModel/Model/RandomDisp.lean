import PhononModel.Model.CxPair
/-!
Model of the random-displacement sampler as a linear map and of the displacement correlation
matrices (property C19).

Source anchors (tied by the correspondence run of `./check C19`, not by proof):
* `phonon/random_displacements.py: RandomDisplacements._get_sigma` (cutoff mask)          ↦ `maskSigma`
* `… _solve_ii` (real D-type eigenvectors × variates × cos phase)                         ↦ `uII`, coefficients `Aii`
* `… _solve_ij` (`√2·(Re(u₁·phase) − Im(u₂·phase))`, two variates per mode)               ↦ `uIJ`, coefficients `A1`, `A2`
* `… run` (`(u_ii + u_ij)/sqrt(mass·N)`)                                                   ↦ `displ`; `A·Aᵀ` ↦ `cov`
* `… _collect_eigensolutions` (D-type → C-type, conjugate copies for −q)                  ↦ `eC`, `dmOf` on the three classes
* `harmonic/dynmat_to_fc.py: create_dynamical_matrices` (`E·diag(v)·E†`)                  ↦ `dmOf`
* `c/dynmat.c: transform_dynmat_to_fc_ij` (rows of primitive atoms)                       ↦ `d2fEntry`, `d2fRow`
* `… run_correlation_matrix` (`uu` = d2f of σ², divided by `m_i m_j`; `uu_inv` = d2f of masked 1/σ²) ↦ `uuRow`, `uuInvRow`, `a2inv`
* `harmonic/dynmat_to_fc.py: categorize_commensurate_points`                               ↦ `partitionOk` (executable certificate)

Parameters (with hypotheses in `Props/C19.lean`): `eigh` results, the phase factors `cos/exp`, `σ(λ,T)` before masking,
`sqrt(m N)`, `√2`.  Row index of an eigenvector: `3·(primitive atom) + Cartesian component`.
-/
namespace PhononModel.C19
open PhononModel PhononModel.CP

variable {α : Type} [Add α] [Sub α] [Neg α] [Mul α] [Div α] [OfNat α 0] [OfNat α 1] [NatCast α]

def row {np : Nat} (p : Fin np) (a : Fin 3) : Fin (np * 3) :=
  ⟨p.1 * 3 + a.1, by have := p.2; have := a.2; omega⟩

/-- `_get_sigma`: `sigma = where(freq > cutoff, sigma, 0)` -/
def maskSigma [LT α] [DecidableLT α] (cutoff freq sig : α) : α := if cutoff < freq then sig else 0

/-- everything `run()` reads, for one temperature -/
structure RDIn (np ns nii nij : Nat) (α : Type) where
  s2pp : Fin ns → Fin np
  eii : Fin nii → Fin (np * 3) → Fin (np * 3) → α
  cosii : Fin nii → Fin ns → α
  eij : Fin nij → Fin (np * 3) → Fin (np * 3) → Cx α
  phij : Fin nij → Fin ns → Cx α
  sigii : Fin nii → Fin (np * 3) → α
  sigij : Fin nij → Fin (np * 3) → α
  rm : Fin ns → α
  r2 : α

section sampler
variable {np ns nii nij : Nat}

/-- `_solve_ii` -/
def uII (I : RDIn np ns nii nij α) (z : Fin nii → Fin (np * 3) → α) (κ : Fin ns) (a : Fin 3) : α :=
  sumFin nii fun q => (sumFin (np * 3) fun ν => z q ν * I.sigii q ν * I.eii q (row (I.s2pp κ) a) ν) * I.cosii q κ

/-- `u_red[t]` of `_solve_ij` -/
def uRed (I : RDIn np ns nii nij α) (z : Fin nij → Fin (np * 3) → α) (q : Fin nij) (κ : Fin ns) (a : Fin 3) : Cx α :=
  sumFin (np * 3) fun ν => Cx.smul (z q ν * I.sigij q ν) (I.eij q (row (I.s2pp κ) a) ν)

/-- `_solve_ij` -/
def uIJ (I : RDIn np ns nii nij α) (z1 z2 : Fin nij → Fin (np * 3) → α) (κ : Fin ns) (a : Fin 3) : α :=
  (sumFin nij fun q => (uRed I z1 q κ a * I.phij q κ).re - (uRed I z2 q κ a * I.phij q κ).im) * I.r2

/-- `run`: the displacement of supercell atom `κ` along `a` for the variates `(z, z1, z2)` -/
def displ (I : RDIn np ns nii nij α) (z : Fin nii → Fin (np * 3) → α) (z1 z2 : Fin nij → Fin (np * 3) → α)
    (κ : Fin ns) (a : Fin 3) : α :=
  (uII I z κ a + uIJ I z1 z2 κ a) / I.rm κ

/-- displacement pattern of mode `(q,ν)` of the pair class: eigenvector × phase -/
def wij (I : RDIn np ns nii nij α) (q : Fin nij) (ν : Fin (np * 3)) (κ : Fin ns) (a : Fin 3) : Cx α :=
  I.eij q (row (I.s2pp κ) a) ν * I.phij q κ

/-- columns of the linear map -/
def Aii (I : RDIn np ns nii nij α) (κ : Fin ns) (a : Fin 3) (q : Fin nii) (ν : Fin (np * 3)) : α :=
  I.sigii q ν * I.eii q (row (I.s2pp κ) a) ν * I.cosii q κ / I.rm κ
def A1 (I : RDIn np ns nii nij α) (κ : Fin ns) (a : Fin 3) (q : Fin nij) (ν : Fin (np * 3)) : α :=
  I.r2 * (I.sigij q ν * (wij I q ν κ a).re) / I.rm κ
def A2 (I : RDIn np ns nii nij α) (κ : Fin ns) (a : Fin 3) (q : Fin nij) (ν : Fin (np * 3)) : α :=
  -(I.r2 * (I.sigij q ν * (wij I q ν κ a).im)) / I.rm κ

/-- `A·Aᵀ` -/
def cov (I : RDIn np ns nii nij α) (κ : Fin ns) (a : Fin 3) (κ' : Fin ns) (b : Fin 3) : α :=
  (sumFin nii fun q => sumFin (np * 3) fun ν => Aii I κ a q ν * Aii I κ' b q ν)
  + (sumFin nij fun q => sumFin (np * 3) fun ν => A1 I κ a q ν * A1 I κ' b q ν + A2 I κ a q ν * A2 I κ' b q ν)

/-- the full supercell matrix `uu_inv` in closed form (the code obtains it from the rows of the primitive atoms by
`distribute_force_constants_by_translations`): weights `g` on the same real normal modes, mass factor `s_κ s_κ'/N = rm_κ rm_κ'/N²`. -/
def covInv (I : RDIn np ns nii nij α) (gii : Fin nii → Fin (np * 3) → α) (gij : Fin nij → Fin (np * 3) → α)
    (κ : Fin ns) (a : Fin 3) (κ' : Fin ns) (b : Fin 3) : α :=
  ((sumFin nii fun q => sumFin (np * 3) fun ν =>
      gii q ν * (I.eii q (row (I.s2pp κ) a) ν * I.cosii q κ) * (I.eii q (row (I.s2pp κ') b) ν * I.cosii q κ'))
   + (sumFin nij fun q => sumFin (np * 3) fun ν =>
      gij q ν * (wij I q ν κ a * Cx.conj (wij I q ν κ' b) + Cx.conj (wij I q ν κ a) * wij I q ν κ' b).re))
  * (I.rm κ * I.rm κ') / (((nii + 2 * nij : Nat) : α) * ((nii + 2 * nij : Nat) : α))

end sampler

/-! ### correlation matrices through `DynmatToForceConstants` -/

/-- `create_dynamical_matrices`: `E·diag(v)·E†` -/
def dmOf {nb : Nat} (E : Fin nb → Fin nb → Cx α) (v : Fin nb → α) (r c : Fin nb) : Cx α :=
  sumFin nb fun ν => Cx.smul (v ν) (E r ν) * Cx.conj (E c ν)

/-- D-type → C-type eigenvector: `Vd[row]·e[row,ν]` -/
def eC {np : Nat} (vd : Fin np → Cx α) (e : Fin (np * 3) → Fin (np * 3) → α) (r ν : Fin (np * 3)) : Cx α :=
  vd ⟨r.1 / 3, by have := r.2; omega⟩ * Cx.ofRe (e r ν)

def conjE {nb : Nat} (E : Fin nb → Fin nb → Cx α) (r ν : Fin nb) : Cx α := Cx.conj (E r ν)

/-- one commensurate point's contribution to `fc[p2s i][j][l][m]` before the factor:
`dm.re·cos − dm.im·sin` with `(cos, sin)` the averaged phase of `−2π q·svec(j,i)` -/
def d2fEntry {np ns : Nat} (s2pp : Fin ns → Fin np) (DM : Fin (np * 3) → Fin (np * 3) → Cx α) (ph : Fin ns → Fin np → Cx α)
    (i : Fin np) (j : Fin ns) (l m : Fin 3) : α :=
  (DM (row i l) (row (s2pp j) m) * ph j i).re

/-- input of `run_correlation_matrix` / `run_d2f`: the collected eigen-solutions in three classes
(`q = −q`, `q`, `−q`) with the d2f phase factors of each class -/
structure D2FIn (np ns nii nij : Nat) (α : Type) where
  s2pp : Fin ns → Fin np
  eii : Fin nii → Fin (np * 3) → Fin (np * 3) → α
  vd : Fin nii → Fin np → Cx α
  eij : Fin nij → Fin (np * 3) → Fin (np * 3) → Cx α
  pii : Fin nii → Fin ns → Fin np → Cx α
  pij : Fin nij → Fin ns → Fin np → Cx α
  pnij : Fin nij → Fin ns → Fin np → Cx α
  ms : Fin np → Fin np → α
  pmass : Fin np → α
  smass : Fin ns → α

section corr
variable {np ns nii nij : Nat}

/-- `transform_dynmat_to_fc`, row of primitive atom `i`, for per-mode "eigenvalues" `vii`, `vij` -/
def d2fRow (J : D2FIn np ns nii nij α) (vii : Fin nii → Fin (np * 3) → α) (vij : Fin nij → Fin (np * 3) → α)
    (i : Fin np) (j : Fin ns) (l m : Fin 3) : α :=
  ((sumFin nii fun q => d2fEntry J.s2pp (dmOf (eC (J.vd q) (J.eii q)) (vii q)) (J.pii q) i j l m)
    + (sumFin nij fun q => d2fEntry J.s2pp (dmOf (J.eij q) (vij q)) (J.pij q) i j l m)
    + (sumFin nij fun q => d2fEntry J.s2pp (dmOf (conjE (J.eij q)) (vij q)) (J.pnij q) i j l m))
  * (J.ms i (J.s2pp j) / ((nii + 2 * nij : Nat) : α))

/-- `a2_inv = where(conditions, 1/a², 0)` -/
def a2inv [LT α] [DecidableLT α] (cutoff freq a : α) : α := if cutoff < freq then 1 / (a * a) else 0

/-- `uu[p2s i][j]` -/
def uuRow (J : D2FIn np ns nii nij α) (aii : Fin nii → Fin (np * 3) → α) (aij : Fin nij → Fin (np * 3) → α)
    (i : Fin np) (j : Fin ns) (l m : Fin 3) : α :=
  d2fRow J (fun q ν => aii q ν * aii q ν) (fun q ν => aij q ν * aij q ν) i j l m / (J.pmass i * J.smass j)

/-- `uu_inv[p2s i][j]` -/
def uuInvRow [LT α] [DecidableLT α] (J : D2FIn np ns nii nij α) (cutoff : α)
    (fii : Fin nii → Fin (np * 3) → α) (fij : Fin nij → Fin (np * 3) → α)
    (aii : Fin nii → Fin (np * 3) → α) (aij : Fin nij → Fin (np * 3) → α)
    (i : Fin np) (j : Fin ns) (l m : Fin 3) : α :=
  d2fRow J (fun q ν => a2inv cutoff (fii q ν) (aii q ν)) (fun q ν => a2inv cutoff (fij q ν) (aij q ν)) i j l m

end corr

/-! ### the partition of the commensurate points (certificate on `categorize_commensurate_points`) -/

/-- integer commensurate points `p` (the q-point is `p/N`): `p + p' ≡ 0 (mod N)` componentwise -/
def isNeg (N : Nat) (p p' : Fin 3 → Int) : Bool :=
  (List.finRange 3).all fun x => (p x + p' x) % (N : Int) == 0

/-- every `ii` point is its own negative, every `ij` point has its negative in the list at an index that is
neither in `ii` nor in `ij`, these negatives are pairwise different, and the counts add up. -/
def partitionOk (pts : Array (Fin 3 → Int)) (ii ij : Array Nat) : Bool :=
  let N := pts.size
  let get := fun k => pts.getD k (fun _ => 0)
  let negIdx : Nat → Option Nat := fun k => (List.range N).find? fun k' => isNeg N (get k) (get k')
  ii.all (fun k => k < N && isNeg N (get k) (get k))
  && ij.all (fun k => k < N && !(isNeg N (get k) (get k)) &&
      match negIdx k with
      | some k' => !(ii.contains k') && !(ij.contains k')
      | none => false)
  && (ii.toList ++ ij.toList ++ ij.toList.filterMap negIdx).Nodup
  && ii.size + 2 * ij.size == N

end PhononModel.C19
