import PhononModel.Model.Basic
/-!
Complex numbers as pairs over an arbitrary scalar (helper shared by the C12 and C19 models;
core Lean only).  The drivers run it at `Rat`; `Lemmas/CxPair.lean` shows that over a
commutative ring these operations form a commutative ring, so that the theorems may use
`ring`/`Finset` algebra on the very same operations.

numpy's complex arithmetic (`a*b`, `a.conj()`, `.real`, `.imag`) ↦ `Cx.mul`, `Cx.conj`, `.re`, `.im`.
-/
namespace PhononModel.CP

structure Cx (α : Type) where
  re : α
  im : α
deriving Repr, DecidableEq

namespace Cx
variable {α : Type}

instance [Add α] : Add (Cx α) := ⟨fun a b => ⟨a.re + b.re, a.im + b.im⟩⟩
instance [Sub α] : Sub (Cx α) := ⟨fun a b => ⟨a.re - b.re, a.im - b.im⟩⟩
instance [Neg α] : Neg (Cx α) := ⟨fun a => ⟨-a.re, -a.im⟩⟩
instance [Add α] [Sub α] [Mul α] : Mul (Cx α) :=
  ⟨fun a b => ⟨a.re * b.re - a.im * b.im, a.re * b.im + a.im * b.re⟩⟩
instance [OfNat α 0] : OfNat (Cx α) 0 := ⟨⟨0, 0⟩⟩
instance [OfNat α 0] [OfNat α 1] : OfNat (Cx α) 1 := ⟨⟨1, 0⟩⟩

/-- complex conjugate -/
def conj [Neg α] (a : Cx α) : Cx α := ⟨a.re, -a.im⟩
/-- real scalar times complex -/
def smul [Mul α] (r : α) (a : Cx α) : Cx α := ⟨r * a.re, r * a.im⟩
/-- complex divided by a real scalar -/
def sdiv [Div α] (a : Cx α) (r : α) : Cx α := ⟨a.re / r, a.im / r⟩
/-- embedding of a real -/
def ofRe [OfNat α 0] (r : α) : Cx α := ⟨r, 0⟩

@[simp] theorem add_re [Add α] (a b : Cx α) : (a + b).re = a.re + b.re := rfl
@[simp] theorem add_im [Add α] (a b : Cx α) : (a + b).im = a.im + b.im := rfl
@[simp] theorem sub_re [Sub α] (a b : Cx α) : (a - b).re = a.re - b.re := rfl
@[simp] theorem sub_im [Sub α] (a b : Cx α) : (a - b).im = a.im - b.im := rfl
@[simp] theorem neg_re [Neg α] (a : Cx α) : (-a).re = -a.re := rfl
@[simp] theorem neg_im [Neg α] (a : Cx α) : (-a).im = -a.im := rfl
@[simp] theorem mul_re [Add α] [Sub α] [Mul α] (a b : Cx α) : (a * b).re = a.re * b.re - a.im * b.im := rfl
@[simp] theorem mul_im [Add α] [Sub α] [Mul α] (a b : Cx α) : (a * b).im = a.re * b.im + a.im * b.re := rfl
@[simp] theorem zero_re [OfNat α 0] : (0 : Cx α).re = 0 := rfl
@[simp] theorem zero_im [OfNat α 0] : (0 : Cx α).im = 0 := rfl
@[simp] theorem one_re [OfNat α 0] [OfNat α 1] : (1 : Cx α).re = 1 := rfl
@[simp] theorem one_im [OfNat α 0] [OfNat α 1] : (1 : Cx α).im = 0 := rfl
@[simp] theorem conj_re [Neg α] (a : Cx α) : (conj a).re = a.re := rfl
@[simp] theorem conj_im [Neg α] (a : Cx α) : (conj a).im = -a.im := rfl
@[simp] theorem smul_re [Mul α] (r : α) (a : Cx α) : (smul r a).re = r * a.re := rfl
@[simp] theorem smul_im [Mul α] (r : α) (a : Cx α) : (smul r a).im = r * a.im := rfl
@[simp] theorem sdiv_re [Div α] (a : Cx α) (r : α) : (sdiv a r).re = a.re / r := rfl
@[simp] theorem sdiv_im [Div α] (a : Cx α) (r : α) : (sdiv a r).im = a.im / r := rfl
@[simp] theorem ofRe_re [OfNat α 0] (r : α) : (ofRe r).re = r := rfl
@[simp] theorem ofRe_im [OfNat α 0] (r : α) : (ofRe r).im = 0 := rfl

theorem ext' {a b : Cx α} (h1 : a.re = b.re) (h2 : a.im = b.im) : a = b := by
  cases a; cases b; simp_all

end Cx

/-- finite sum over a list (executable fold) -/
def sumList {ι α : Type} [Add α] [OfNat α 0] (l : List ι) (f : ι → α) : α :=
  (l.map f).foldr (· + ·) 0

/-! two-index materialisation for the drivers -/
def freeze2 {a b : Nat} {β : Type} (f : Fin a → Fin b → β) : Array (Array β) :=
  freeze1 fun i => freeze1 fun j => f i j
def thaw2 {a b : Nat} {β : Type} (A : Array (Array β)) (d : β) : Fin a → Fin b → β :=
  fun i j => thaw1 (thaw1 A #[] i) d j
theorem thaw2_freeze2 {a b : Nat} {β : Type} (f : Fin a → Fin b → β) (d : β) :
    thaw2 (freeze2 f) d = f := by
  funext i j; simp [thaw2, freeze2, thaw1_freeze1]

end PhononModel.CP
