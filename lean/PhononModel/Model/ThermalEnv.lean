/-!
Environment of the thermal-property formulas: the libm functions and the Boltzmann constant
the code uses, as a structure of functions over an arbitrary scalar type.

* proofs instantiate it with `Real.exp`, `Real.log`, `Real.sinh`, `Real.cosh`, `x ↦ exp x - 1`
  and any `k > 0` (Props/C10.lean: `envR k`);
* the driver instantiates it with `Float.exp` … and the literal of `c/phonopy.c` / `units.py`;
* the special-values model (Model/IEEE.lean) instantiates it with saturating versions.

`Gen/ThermalC.lean` (generated from c/phonopy.c) and `Model/Thermal.lean` (hand-written from
phonopy/phonon/thermal_properties.py) are both written against this structure.
-/
namespace PhononModel

structure ThermalEnv (α : Type) where
  exp : α → α
  log : α → α
  sinh : α → α
  cosh : α → α
  /-- `expm1 x = exp x - 1` (C99 / numpy) -/
  expm1 : α → α
  /-- Boltzmann constant in eV/K: the macro `KB` of c/phonopy.c, `Kb` of phonopy/units.py -/
  KB : α

/-- core Lean has no `Float.expm1`; Kahan's formula `(u-1)·x / log u`, `u = exp x`, is accurate to a
few ulp (the comparison with the implementation's libm `expm1` is toleranced anyway). -/
def floatExpm1 (x : Float) : Float :=
  let u := Float.exp x
  if u == 1.0 then x
  else if u - 1.0 == -1.0 then -1.0
  else if u == (1.0 / 0.0) then u
  else (u - 1.0) * x / Float.log u

def floatEnv (kb : Float) : ThermalEnv Float :=
  { exp := Float.exp, log := Float.log, sinh := Float.sinh, cosh := Float.cosh,
    expm1 := floatExpm1, KB := kb }

end PhononModel
