import PhononModel.Gen.DispTables
/-!
Integer model of the displacement-direction selection (property C01).

Source anchors (`phonopy/harmonic/displacement.py`; tied by the correspondence run of
`./check C01`, the two literal tables are regenerated from the source by
`tools/disptables2lean.py` on every run):
* `directions_axis`, `directions_diag`   ↦ `directionsAxis`, `directionsDiag` (from `Gen/DispTables`)
* `_determinant(a, b, c)`                ↦ `det3`
* `np.dot(direction, r.T)`               ↦ `M3.rot r direction`   (row vector, lattice coordinates)
* `_get_displacement_one`                ↦ `displacementOne`  (returns `(i, direction)`)
* `_get_displacement_two`                ↦ `displacementTwo`  (returns `(i, site_symmetry[i], direction, second)`)
* `_is_trigonal_axis`                    ↦ `isTrigonalAxis`
* `get_displacement`                     ↦ `getDisplacement`  (`none` = the `IndexError` of
                                            `directions[2]` on a table with fewer than three rows)
* `is_minus_displacement`                ↦ `needsMinus`
* `get_least_displacements` (body of the loop over one independent atom) ↦ `leastDisplacements`

Everything is over `Int`; no Mathlib.
-/
namespace PhononModel.Disp

structure V3 where
  x : Int
  y : Int
  z : Int
deriving DecidableEq, Repr

/-- integer 3×3 matrix by rows -/
structure M3 where
  r0 : V3
  r1 : V3
  r2 : V3
deriving DecidableEq, Repr

def V3.dot (a b : V3) : Int := a.x * b.x + a.y * b.y + a.z * b.z
def V3.neg (a : V3) : V3 := ⟨-a.x, -a.y, -a.z⟩
def V3.add (a b : V3) : V3 := ⟨a.x + b.x, a.y + b.y, a.z + b.z⟩
def V3.smul (c : Int) (a : V3) : V3 := ⟨c * a.x, c * a.y, c * a.z⟩
def V3.zero : V3 := ⟨0, 0, 0⟩

def M3.one : M3 := ⟨⟨1, 0, 0⟩, ⟨0, 1, 0⟩, ⟨0, 0, 1⟩⟩

/-- `np.dot(d, r.T)`: component `i` is `Σ_j d_j r[i][j]`. -/
def M3.rot (r : M3) (d : V3) : V3 := ⟨r.r0.dot d, r.r1.dot d, r.r2.dot d⟩

/-- `np.dot(a, b)`: row `i` of the product is `Σ_k a[i][k] · b[k]`. -/
def M3.mul (a b : M3) : M3 :=
  let row (v : V3) : V3 := ((V3.smul v.x b.r0).add (V3.smul v.y b.r1)).add (V3.smul v.z b.r2)
  ⟨row a.r0, row a.r1, row a.r2⟩

/-- `_determinant(a, b, c)` — same six terms in the same order. -/
def det3 (a b c : V3) : Int :=
  a.x * b.y * c.z - a.x * b.z * c.y + a.y * b.z * c.x - a.y * b.x * c.z + a.z * b.x * c.y - a.z * b.y * c.x

def ofTriple (t : Int × Int × Int) : V3 := ⟨t.1, t.2.1, t.2.2⟩

def directionsAxis : List V3 := directionsAxisRaw.map ofTriple
def directionsDiag : List V3 := directionsDiagRaw.map ofTriple

/-- inner double loop of `_get_displacement_one` for one direction `d`:
`rots = [rot_directions[i], rot_directions[i+1], …]`, `i` the index of the head. -/
def oneInner (d : V3) : List V3 → Nat → Option Nat
  | [], _ => none
  | ri :: rest, i =>
    if rest.any (fun rj => det3 d ri rj != 0) then some i else oneInner d rest (i + 1)

/-- `_get_displacement_one(site_symmetry, directions)`; `none` ↔ `(None, None)`. -/
def displacementOne (S : List M3) (dirs : List V3) : Option (Nat × V3) :=
  dirs.findSome? fun d => (oneInner d (S.map fun r => r.rot d) 0).map fun i => (i, d)

/-- loops `for i … for second_direction in directions` of `_get_displacement_two` for one `d`. -/
def twoInner (d : V3) (dirs : List V3) : List M3 → Nat → Option (Nat × M3 × V3)
  | [], _ => none
  | r :: rest, i =>
    match dirs.find? (fun d2 => det3 d (r.rot d) d2 != 0) with
    | some d2 => some (i, r, d2)
    | none => twoInner d dirs rest (i + 1)

/-- `_get_displacement_two`; the result carries `site_symmetry[i]` itself so that
`get_displacement` needs no partial list lookup. -/
def displacementTwo (S : List M3) (dirs : List V3) : Option (Nat × M3 × V3 × V3) :=
  dirs.findSome? fun d => (twoInner d dirs S 0).map fun (i, r, d2) => (i, r, d, d2)

/-- `_is_trigonal_axis(r)`: `r³ = 1`. -/
def isTrigonalAxis (r : M3) : Bool := (r.mul r).mul r == M3.one

/-- `get_displacement(site_symmetry, directions, is_trigonal)`. -/
def getDisplacement (S : List M3) (dirs : List V3) (isTrigonal : Bool) : Option (List V3) :=
  match displacementOne S dirs with
  | some (_, d) => some [d]
  | none =>
    match displacementTwo S dirs with
    | some (_, r, d, d2) =>
      if isTrigonal then
        some ([d] ++ (if isTrigonalAxis r then [r.rot d, r.rot (r.rot d)] else []) ++ [d2])
      else some [d, d2]
    | none =>
      match dirs with
      | a :: b :: c :: _ => some [a, b, c]
      | _ => none

/-- `is_minus_displacement(direction, site_symmetry)`: no operation sends `d` to `−d`. -/
def needsMinus (d : V3) (S : List M3) : Bool :=
  S.all fun r => (r.rot d).add d != V3.zero

inductive PlusMinus where
  | auto | on | off
deriving DecidableEq, Repr

structure Options where
  plusminus : PlusMinus
  isDiagonal : Bool
  isTrigonal : Bool

/-- directions `get_least_displacements` emits for one atom with site symmetry `S`
(in emission order: each direction followed by its negative when requested/needed). -/
def leastDisplacements (S : List M3) (o : Options) : Option (List V3) :=
  (getDisplacement S (if o.isDiagonal then directionsDiag else directionsAxis) o.isTrigonal).map fun D =>
    D.flatMap fun d =>
      match o.plusminus with
      | .auto => if needsMinus d S then [d, d.neg] else [d]
      | .on => [d, d.neg]
      | .off => [d]

/-- every vector the solver's design matrix contains for this atom, in lattice coordinates:
the site-symmetry images of the emitted directions. -/
def images (S : List M3) (D : List V3) : List V3 :=
  D.flatMap fun d => S.map fun r => r.rot d

/-- three of the vectors have a non-zero determinant -/
def Rank3 (L : List V3) : Prop := ∃ a ∈ L, ∃ b ∈ L, ∃ c ∈ L, det3 a b c ≠ 0

end PhononModel.Disp
