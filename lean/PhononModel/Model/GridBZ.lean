import PhononModel.Model.Grid
/-!
# Relocation of q-points into the first Brillouin zone (property C09)

Source anchors: `phonopy/structure/brillouin_zone.py`: `search_space` ↦ `searchSpace`; `BrillouinZone.__init__`
(`_tmat = inv(reciprocal_lattice) · reduced_bases.T`, tolerance `min(Σ_rows L²) · 0.01`) ↦ inputs `T` (the integer
matrix `_tmat` is up to rounding; Niggli reduction by spglib is not modelled: `T` is an input with the executable
certificate `det T = ±1`, evaluated on the implementation's own matrix on every case) and `tolOf`;
`BrillouinZone.run` ↦ `bzCandidates` / `bzRelocate` (reduce modulo the reduced basis with `np.rint`, 27 neighbouring
lattice points, squared Cartesian lengths, first point within `min + tolerance`);
`GridPoints._fit_qpoints_in_BZ` (first element of each set) ↦ `bzRelocate`.
Lengths are exact: `|L·T·y|²` with `L` the reciprocal lattice (columns a*, b*, c*) as rationals.
-/
namespace PhononModel.Grid

/-- rational 3×3 matrix by rows -/
structure Q33 where
  r0 : V3 Rat
  r1 : V3 Rat
  r2 : V3 Rat
deriving DecidableEq, Repr

def dotQ (a b : V3 Rat) : Rat := a.x * b.x + a.y * b.y + a.z * b.z

def Q33.mulVec (L : Q33) (v : V3 Rat) : V3 Rat := ⟨dotQ L.r0 v, dotQ L.r1 v, dotQ L.r2 v⟩

def norm2 (v : V3 Rat) : Rat := dotQ v v

def M3.det (T : M3) : Int :=
  T.r0.x * (T.r1.y * T.r2.z - T.r1.z * T.r2.y) - T.r0.y * (T.r1.x * T.r2.z - T.r1.z * T.r2.x)
    + T.r0.z * (T.r1.x * T.r2.y - T.r1.y * T.r2.x)

/-- adjugate -/
def M3.adj (T : M3) : M3 :=
  ⟨⟨T.r1.y * T.r2.z - T.r1.z * T.r2.y, T.r0.z * T.r2.y - T.r0.y * T.r2.z, T.r0.y * T.r1.z - T.r0.z * T.r1.y⟩,
   ⟨T.r1.z * T.r2.x - T.r1.x * T.r2.z, T.r0.x * T.r2.z - T.r0.z * T.r2.x, T.r0.z * T.r1.x - T.r0.x * T.r1.z⟩,
   ⟨T.r1.x * T.r2.y - T.r1.y * T.r2.x, T.r0.y * T.r2.x - T.r0.x * T.r2.y, T.r0.x * T.r1.y - T.r0.y * T.r1.x⟩⟩

def IV.scale (k : Int) (v : IV) : IV := ⟨k * v.x, k * v.y, k * v.z⟩
def M3.scale (k : Int) (T : M3) : M3 := ⟨IV.scale k T.r0, IV.scale k T.r1, IV.scale k T.r2⟩

/-- inverse of a unimodular integer matrix: `det · adj` (since `det = ±1`) -/
def M3.invUni (T : M3) : M3 := M3.scale T.det T.adj

/-- `search_space` of brillouin_zone.py, in its order -/
def searchSpace : List IV :=
  [⟨0, 0, 0⟩, ⟨0, 0, 1⟩, ⟨0, 1, -1⟩, ⟨0, 1, 0⟩, ⟨0, 1, 1⟩, ⟨1, -1, -1⟩, ⟨1, -1, 0⟩, ⟨1, -1, 1⟩, ⟨1, 0, -1⟩,
   ⟨1, 0, 0⟩, ⟨1, 0, 1⟩, ⟨1, 1, -1⟩, ⟨1, 1, 0⟩, ⟨1, 1, 1⟩, ⟨-1, -1, -1⟩, ⟨-1, -1, 0⟩, ⟨-1, -1, 1⟩, ⟨-1, 0, -1⟩,
   ⟨-1, 0, 0⟩, ⟨-1, 0, 1⟩, ⟨-1, 1, -1⟩, ⟨-1, 1, 0⟩, ⟨-1, 1, 1⟩, ⟨0, -1, -1⟩, ⟨0, -1, 0⟩, ⟨0, -1, 1⟩, ⟨0, 0, -1⟩]

/-- tolerance of `BrillouinZone.__init__`: `min(np.sum(L**2, axis=0)) * tolerance` (column norms) -/
def tolOf (L : Q33) (tolf : Rat) : Rat :=
  let c0 := L.r0.x * L.r0.x + L.r1.x * L.r1.x + L.r2.x * L.r2.x
  let c1 := L.r0.y * L.r0.y + L.r1.y * L.r1.y + L.r2.y * L.r2.y
  let c2 := L.r0.z * L.r0.z + L.r1.z * L.r1.z + L.r2.z * L.r2.z
  min (min c0 c1) c2 * tolf

/-- `reduced_qpoints -= np.rint(reduced_qpoints)` -/
def reduceQ (T : M3) (q : V3 Rat) : V3 Rat :=
  let y := T.invUni.act q
  ⟨y.x - (rint y.x : Rat), y.y - (rint y.y : Rat), y.z - (rint y.z : Rat)⟩

/-- squared Cartesian length of the point with reduced coordinates `x + g` -/
def bzDist (L : Q33) (T : M3) (x : V3 Rat) (g : IV) : Rat := norm2 (L.mulVec (T.act (x.addInt g)))

def listMin (d : Rat) : List Rat → Rat
  | [] => d
  | a :: l => listMin (min d a) l

inductive BZErr
  | notUnimodular
  | empty
deriving Repr, DecidableEq

structure BZResult where
  point : V3 Rat          -- the relocated q-point (first of the shortest set)
  shift : IV              -- the lattice point of the search space that was chosen
  dmin : Rat              -- smallest squared length in the window
  tol : Rat
  nshort : Nat            -- number of window points within `dmin + tol`
deriving Repr, DecidableEq

/-- `BrillouinZone.run` for one q-point, first element of the shortest set -/
def bzRelocate (L : Q33) (T : M3) (tolf : Rat) (q : V3 Rat) : Except BZErr BZResult :=
  if T.det = 1 ∨ T.det = -1 then
    let x := reduceQ T q
    let dmin := listMin (bzDist L T x ⟨0, 0, 0⟩) (searchSpace.map (bzDist L T x))
    let tol := tolOf L tolf
    match searchSpace.find? (fun g => decide (bzDist L T x g < dmin + tol)) with
    | some g => .ok ⟨T.act (x.addInt g), g, dmin, tol,
        (searchSpace.filter (fun g => decide (bzDist L T x g < dmin + tol))).length⟩
    | none => .error .empty
  else .error .notUnimodular

end PhononModel.Grid
