import PhononModel.Model.Basic
/-!
# Unit algebra (C17; also used for the unit statements of C02/C10)

Source anchors
* `phonopy/units.py` (every module-level assignment)                 ↦ a `UExpr` in `Gen/Units.lean`
  (written by `tools/units2lean.py` on every run)
* `phonopy/interface/calculator.py: get_default_physical_units`      ↦ `CalcUnits` records (`Gen.Units.units`)
* `phonopy/interface/calculator.py: get_force_constant_conversion_factor` (`factor_to_eVperA2`) ↦ `Gen.Units.fcConversionTable`
* the consistency statements of property C17                         ↦ `factorOK`, `nacOK`, `convOK`

A `UExpr` is the right-hand side of such an assignment: names, numerals, `* / **`, `sqrt`, `pi`.
`norm` sends it to a monomial: a finite map (sorted association list) from symbols to **rational**
exponents, so `sqrt` is exact and identities between unit expressions are decidable equalities of
normal forms.  Symbols are natural numbers: `0` is π, `2 3 5` are the primes (numerals are factored
over them, a numeral with another prime factor is rejected — the translator turns such literals into
symbols), `≥ 10` are the fundamental constants of `units.py` and opaque literals.
-/
namespace PhononModel.Units

inductive UExpr where
  | sym (k : Nat)
  | num (n : Nat) (e10 : Int)      -- n · 10^e10
  | mul (a b : UExpr)
  | div (a b : UExpr)
  | pow (a : UExpr) (k : Int)
  | sqrt (a : UExpr)
  deriving Repr, DecidableEq, Inhabited

def UExpr.pi : UExpr := .sym 0
def UExpr.one : UExpr := .num 1 0

/-- monomial: association list symbol ↦ exponent, kept sorted by symbol, no zero exponents -/
abbrev Mono := List (Nat × Rat)

def Mono.insert (k : Nat) (q : Rat) : Mono → Mono
  | [] => if q = 0 then [] else [(k, q)]
  | (k', q') :: t =>
    if k < k' then (if q = 0 then (k', q') :: t else (k, q) :: (k', q') :: t)
    else if k = k' then (if q + q' = 0 then t else (k, q + q') :: t)
    else (k', q') :: Mono.insert k q t

def Mono.mul (a b : Mono) : Mono := a.foldr (fun p acc => Mono.insert p.1 p.2 acc) b

def Mono.scale (c : Rat) (a : Mono) : Mono :=
  a.foldr (fun p acc => Mono.insert p.1 (c * p.2) acc) []

def Mono.inv (a : Mono) : Mono := Mono.scale (-1) a

/-- divide `p` out of `n` at most `fuel` times: (multiplicity, cofactor) -/
def factorOut (p : Nat) : Nat → Nat → Nat × Nat
  | 0, n => (0, n)
  | fuel + 1, n =>
    if n % p = 0 ∧ n ≠ 0 then
      let r := factorOut p fuel (n / p)
      (r.1 + 1, r.2)
    else (0, n)

/-- `n · 10^e` as a monomial over the primes 2, 3, 5 (`none` if `n = 0` or `n` has another prime factor) -/
def numMono (n : Nat) (e : Int) : Option Mono :=
  let f2 := factorOut 2 (n.log2 + 1) n
  let f3 := factorOut 3 (n.log2 + 1) f2.2
  let f5 := factorOut 5 (n.log2 + 1) f3.2
  if f5.2 = 1 then
    some (Mono.insert 2 (((f2.1 : Int) + e : Int) : Rat)
      (Mono.insert 3 ((f3.1 : Int) : Rat) (Mono.insert 5 (((f5.1 : Int) + e : Int) : Rat) [])))
  else none

def norm : UExpr → Option Mono
  | .sym k => some [(k, 1)]
  | .num n e => numMono n e
  | .mul a b =>
    match norm a, norm b with
    | some x, some y => some (Mono.mul x y)
    | _, _ => none
  | .div a b =>
    match norm a, norm b with
    | some x, some y => some (Mono.mul x (Mono.inv y))
    | _, _ => none
  | .pow a k =>
    match norm a with
    | some x => some (Mono.scale (k : Rat) x)
    | none => none
  | .sqrt a =>
    match norm a with
    | some x => some (Mono.scale (1 / 2) x)
    | none => none

/-- decidable identity of two unit expressions: both normalise, to the same monomial -/
def normEq (a b : UExpr) : Bool :=
  match norm a, norm b with
  | some x, some y => x == y
  | _, _ => false

/-! ### physical-unit names used by `get_default_physical_units` -/

inductive UAtom where
  | eV | Ry | mRy | hartree | angstrom | au
  deriving Repr, DecidableEq, Inhabited

/-- a unit string such as `"eV/angstrom.au"`: numerator atom, list of denominator atoms -/
structure UnitStr where
  top : UAtom
  bot : List UAtom
  deriving Repr, DecidableEq, Inhabited

/-- the record `get_default_physical_units(calculator)` returns -/
structure CalcUnits where
  factor : Option UExpr
  nac : Option UExpr
  distToA : Option UExpr
  forceToEVperA : Option UExpr
  fcUnit : Option UnitStr
  lenUnit : Option UnitStr
  forceUnit : Option UnitStr
  deriving Repr, Inhabited

/-- the constants the meaning of a unit name refers to (all in eV / Å / kg / s as in `units.py`) -/
structure Consts where
  rydberg : UExpr      -- Ry in eV
  hartree : UExpr      -- Ha in eV
  bohr : UExpr         -- a.u. of length in Å
  ev : UExpr           -- eV in J
  amu : UExpr          -- atomic mass unit in kg

def UAtom.meaning (K : Consts) : UAtom → UExpr
  | .eV => .one
  | .Ry => K.rydberg
  | .mRy => .div K.rydberg (.num 1000 0)
  | .hartree => K.hartree
  | .angstrom => .one
  | .au => K.bohr

/-- value of the unit in eV and Å -/
def UnitStr.meaning (K : Consts) (u : UnitStr) : UExpr :=
  u.bot.foldl (fun acc a => .div acc (a.meaning K)) (u.top.meaning K)

/-- frequency factor: `factor² = fcUnit / AMU / (2π)² / THz²` with the force-constant unit in J/m² -/
def factorSpec (K : Consts) (fc : UnitStr) : UExpr :=
  .div (.div (.div (.div (.mul (fc.meaning K) K.ev) (.pow (.num 1 (-10)) 2)) K.amu)
    (.pow (.mul (.num 2 0) .pi) 2)) (.pow (.num 1 12) 2)

def factorOK (K : Consts) (c : CalcUnits) : Bool :=
  match c.factor, c.fcUnit with
  | some f, some fc => normEq (.mul f f) (factorSpec K fc)
  | _, _ => false

/-- `e²/4πε₀ = Hartree·Bohr` (eV·Å) expressed in force-constant unit × length unit³ -/
def nacSpec (K : Consts) (fc : UnitStr) (len : UnitStr) : UExpr :=
  .div (.mul K.hartree K.bohr) (.mul (fc.meaning K) (.pow (len.meaning K) 3))

/-- `none` (not implemented, cp2k) is accepted: nothing is claimed then -/
def nacOK (K : Consts) (c : CalcUnits) : Bool :=
  match c.nac, c.fcUnit, c.lenUnit with
  | none, _, _ => true
  | some x, some fc, some len => normEq x (nacSpec K fc len)
  | _, _, _ => false

def lookupUnit (t : List (UnitStr × UExpr)) (u : UnitStr) : Option UExpr :=
  match t with
  | [] => none
  | (v, e) :: r => if v = u then some e else lookupUnit r u

/-- conversion table and the per-calculator unit names agree with each other:
* the calculator's force-constant unit is a key of `factor_to_eVperA2` and the entry is its value in eV/Å²,
* `distance_to_A` is the value of `length_unit`,
* `force_to_eVperA`, where given, is the value of `force_unit`,
* force-constant unit = force unit / length unit. -/
def convOK (K : Consts) (table : List (UnitStr × UExpr)) (c : CalcUnits) : Bool :=
  match c.fcUnit, c.lenUnit, c.forceUnit, c.distToA with
  | some fc, some len, some fo, some d =>
    (match lookupUnit table fc with
      | some e => normEq e (fc.meaning K)
      | none => false)
    && normEq d (len.meaning K)
    && (match c.forceToEVperA with
      | some f => normEq f (fo.meaning K)
      | none => true)
    && normEq (fc.meaning K) (.div (fo.meaning K) (len.meaning K))
  | _, _, _, _ => false

/-- every entry of the conversion table is the value of its key -/
def tableOK (K : Consts) (table : List (UnitStr × UExpr)) : Bool :=
  table.all (fun p => normEq p.2 (p.1.meaning K))

/-! ### printing (driver) -/

def showRat (r : Rat) : String :=
  if r.den = 1 then toString r.num else toString r.num ++ "/" ++ toString r.den

def Mono.show (m : Mono) : String :=
  if m.isEmpty then "1" else " ".intercalate (m.map (fun p => toString p.1 ++ "^" ++ showRat p.2))

end PhononModel.Units
