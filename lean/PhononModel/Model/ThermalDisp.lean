import PhononModel.Model.RandomDisp
/-!
Model of mean-square displacements and mean-square displacement matrices (property C19).

Source anchors (tied by the correspondence run of `./check C19`):
* `phonon/thermal_displacement.py: ThermalMotion._get_population` (guard `t > T₀`, `T₀` read from the source:
  `1.0` in `/repo` at the time of modelling)                                             ↦ `population`
* `… _get_Q2` (`ħ·(n + ½)/ω` with the unit factor)                                       ↦ `q2`
* `… ThermalDisplacementMatrices._get_disp_matrices` (`Σ Q2·v⊗v*/m`, `.real/(count+1)`,
  `assert |imag| < 1e-10`)                                                               ↦ `tdmC`, `tdm`, `tdmChecked`
* `… ThermalDisplacementMatrices.run` (`ANinv·U·ANinvᵀ`)                                  ↦ `cifOf`
* `… ThermalDisplacements.run` (no projection / projection on a unit vector)             ↦ `msd`, `msdProj`

`n(f,T) = 1/(exp(hf/kT) − 1)` is a parameter (`nBE`), the frequency window is a decidable mask.
-/
namespace PhononModel.C19
open PhononModel PhononModel.CP

variable {α : Type} [Add α] [Sub α] [Neg α] [Mul α] [Div α] [OfNat α 0] [OfNat α 1] [OfNat α 2] [NatCast α]
  [LT α] [DecidableLT α]

/-- `_get_population`: the Bose factor above the guard temperature, 0 at or below it -/
def population (tguard T nBE : α) : α := if tguard < T then nBE else 0

/-- `_get_Q2`: `unit·(n + 0.5)/(f·w)`, `unit = ħ·EV/Å²`, `w = 1e12·2π` -/
def q2 (unit w tguard T f nBE : α) : α := unit * ((population tguard T nBE + 1 / 2) / (f * w))

/-- frequency window `fmin < f (< fmax)` -/
def valid (fmin : α) (fmax : Option α) (f : α) : Bool :=
  decide (fmin < f) && (match fmax with | none => true | some fm => decide (f < fm))

structure TDIn (np nq : Nat) (α : Type) where
  f : Fin nq → Fin (np * 3) → α
  e : Fin nq → Fin (np * 3) → Fin (np * 3) → Cx α
  mass : Fin np → α
  q2 : Fin nq → Fin (np * 3) → α
  fmin : α
  fmax : Option α

section td
variable {np nq : Nat}

/-- the complex accumulator `disps` divided by the number of q-points -/
def tdmC (I : TDIn np nq α) (i : Fin np) (a b : Fin 3) : Cx α :=
  Cx.sdiv (sumFin nq fun q => sumFin (np * 3) fun ν =>
      if valid I.fmin I.fmax (I.f q ν) = true then
        Cx.smul (I.q2 q ν) (Cx.sdiv (I.e q (row i a) ν * Cx.conj (I.e q (row i b) ν)) (I.mass i))
      else 0) ((nq : Nat) : α)

/-- `thermal_displacement_matrices[T][i][a][b]` -/
def tdm (I : TDIn np nq α) (i : Fin np) (a b : Fin 3) : α := (tdmC I i a b).re

def absv (x : α) : α := if x < 0 then -x else x

/-- with the `assert (abs(disps.imag) < tol)` of the code (on the accumulator before the division) -/
def tdmChecked (I : TDIn np nq α) (tol : α) : Option (Fin np → Fin 3 → Fin 3 → α) :=
  if (List.finRange np).all (fun i => (List.finRange 3).all fun a => (List.finRange 3).all fun b =>
      decide (absv ((tdmC I i a b).im * ((nq : Nat) : α)) < tol)) then some (tdm I) else none

/-- `ANinv·U·ANinvᵀ` -/
def cifOf (ANinv : Fin 3 → Fin 3 → α) (U : Fin 3 → Fin 3 → α) (x y : Fin 3) : α :=
  sumFin 3 fun a => sumFin 3 fun b => ANinv x a * U a b * ANinv y b

/-- `ThermalDisplacements.run`, no projection: `Σ Q2·|e|²/m / nq` -/
def msd (I : TDIn np nq α) (i : Fin np) (a : Fin 3) : α :=
  (sumFin nq fun q => sumFin (np * 3) fun ν =>
    if valid I.fmin I.fmax (I.f q ν) = true then
      I.q2 q ν * (((I.e q (row i a) ν).re * (I.e q (row i a) ν).re + (I.e q (row i a) ν).im * (I.e q (row i a) ν).im) / I.mass i)
    else 0) / ((nq : Nat) : α)

/-- projection of the eigenvector of atom `i` on the direction `n` -/
def proj (I : TDIn np nq α) (n : Fin 3 → α) (q : Fin nq) (ν : Fin (np * 3)) (i : Fin np) : Cx α :=
  sumFin 3 fun a => Cx.smul (n a) (I.e q (row i a) ν)

/-- `ThermalDisplacements.run` with `projection_direction` (already normalised): `Σ Q2·|e·n|²/m / nq` -/
def msdProj (I : TDIn np nq α) (n : Fin 3 → α) (i : Fin np) : α :=
  (sumFin nq fun q => sumFin (np * 3) fun ν =>
    if valid I.fmin I.fmax (I.f q ν) = true then
      I.q2 q ν * (((proj I n q ν i).re * (proj I n q ν i).re + (proj I n q ν i).im * (proj I n q ν i).im) / I.mass i)
    else 0) / ((nq : Nat) : α)

end td
end PhononModel.C19
