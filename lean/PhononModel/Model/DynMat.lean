import PhononModel.Model.Basic
import PhononModel.Model.Symmetrize
/-!
Model of the dynamical matrix (properties C02 and C03).

Source anchors (tied by the correspondence run of `./check C02`, not by proof):
* `c/dynmat.c: get_dm` (phase averaged over the `m_pair` equidistant images,
  `cos_phase += cos(2π q·svec)/m_pair`)                                  ↦ `phaseAvgC`
* `c/dynmat.c: get_dynmat_ij` (sum over supercell atoms `k` with
  `s2p_map[k] == p2s_map[j]`, `fc[p2s_map[i], k] * phase`, `/ sqrt(m_i m_j)`) ↦ `dynmatRawC`
* `c/dynmat.c: make_Hermitian`                                           ↦ `hermC`
* `c/dynmat.c: dym_get_dynamical_matrix_at_q` (both loop forms, OpenMP and serial) ↦ `dynmatC`
* `harmonic/dynamical_matrix.py: run_dynamical_matrix_solver_c / _get_fc_elements_mapping`
  (full fc: `p2s, s2p`; compact fc: `arange, s2pp`)                      ↦ `DTables` as filled by the harness,
                                                                           `compactTables`, `compressFC`
* `harmonic/dynamical_matrix.py: DynamicalMatrix._run_py_dynamical_matrix`
  (`fc_elem[k] * exp(..).sum() / sqrt_mm / m`, `(dm + dm.conj().T)/2`)   ↦ `dynmatRawPy`, `hermPy`, `dynmatPy`
* `structure/cells.py: sparse_to_dense_svecs`                            ↦ `denseAdrs`, `phaseSumSparse`

Complex numbers are pairs `Cx α` over the real scalar `α`.  The phase factor is a
PARAMETER: `ph l` is the value of `exp(2πi q·svecs[l])` for the `l`-th stored shortest
vector (the harness passes the very `cos`/`sin` doubles the code used, as exact rationals);
`mm i j` is the value of `sqrt(mass[i]*mass[j])`.  The theorems instantiate `ph l = e (sv l)`
with a unitary character `e` and `mm i j = s i * s j`.
-/
namespace PhononModel

/-- a complex number `re + i·im` over the real scalar `α` -/
structure Cx (α : Type) where
  re : α
  im : α
deriving Repr, DecidableEq

namespace Cx
variable {α : Type}

instance [OfNat α 0] : OfNat (Cx α) 0 := ⟨⟨0, 0⟩⟩
instance [OfNat α 0] [OfNat α 1] : OfNat (Cx α) 1 := ⟨⟨1, 0⟩⟩
instance [Add α] : Add (Cx α) := ⟨fun a b => ⟨a.re + b.re, a.im + b.im⟩⟩
instance [Sub α] : Sub (Cx α) := ⟨fun a b => ⟨a.re - b.re, a.im - b.im⟩⟩
instance [Neg α] : Neg (Cx α) := ⟨fun a => ⟨-a.re, -a.im⟩⟩
instance [Add α] [Sub α] [Mul α] : Mul (Cx α) :=
  ⟨fun a b => ⟨a.re * b.re - a.im * b.im, a.re * b.im + a.im * b.re⟩⟩

/-- complex conjugate -/
def conj [Neg α] (a : Cx α) : Cx α := ⟨a.re, -a.im⟩
/-- real × complex (`fc_elem * cos_phase`, `fc_elem * sin_phase`) -/
def smulR [Mul α] (r : α) (a : Cx α) : Cx α := ⟨r * a.re, r * a.im⟩
/-- complex / real (`dm[k][l][0] / mass_sqrt`, `dm[k][l][1] / mass_sqrt`) -/
def divR [Div α] (a : Cx α) (r : α) : Cx α := ⟨a.re / r, a.im / r⟩
/-- embedding of the reals -/
def ofR [OfNat α 0] (r : α) : Cx α := ⟨r, 0⟩

end Cx

/-- a dynamical matrix `D[(i,a),(j,b)]`, row index `3 i + a`, column index `3 j + b` -/
abbrev DM (np : Nat) (β : Type) := Fin np → Fin 3 → Fin np → Fin 3 → β

/-- The index tables `dym_get_dynamical_matrix_at_q` receives.
`nf` is the number of rows of the force-constant array (`ns` for full, `np` for compact fc);
`multi[k][i] = (mult k i, adrs k i)` in the dense format, `nsv` the number of stored vectors.
An address range outside the stored vectors, or a multiplicity 0, is not a table
(the driver answers `bad-op`; the C code would read out of bounds). -/
structure DTables (np nf ns nsv : Nat) where
  p2s  : Fin np → Fin nf
  s2p  : Fin ns → Fin nf
  mult : Fin ns → Fin np → Nat
  adrs : Fin ns → Fin np → Nat
  hpos : ∀ k i, 1 ≤ mult k i
  hbnd : ∀ k i, adrs k i + mult k i ≤ nsv

namespace DTables
variable {np nf ns nsv : Nat}

/-- index `adrs + l` of the `l`-th stored image of the pair (supercell atom `k`, primitive atom `i`) -/
def svIdx (T : DTables np nf ns nsv) (k : Fin ns) (i : Fin np) (l : Fin (T.mult k i)) : Fin nsv :=
  ⟨T.adrs k i + l.1, Nat.lt_of_lt_of_le (Nat.add_lt_add_left l.2 _) (T.hbnd k i)⟩

end DTables

section model
variable {α : Type} [Add α] [Sub α] [Neg α] [Mul α] [Div α] [OfNat α 0] [OfNat α 2] [NatCast α]
variable {np nf ns nsv : Nat}

/-- `Σ_l exp(2πi q·svec_l)` over the stored images of a pair (the Python `np.exp(phase).sum()`). -/
def phaseSum (T : DTables np nf ns nsv) (ph : Fin nsv → Cx α) (k : Fin ns) (i : Fin np) : Cx α :=
  sumFin (T.mult k i) fun l => ph (T.svIdx k i l)

/-- `get_dm`: `cos_phase += cos(..)/m_pair; sin_phase += sin(..)/m_pair`. -/
def phaseAvgC (T : DTables np nf ns nsv) (ph : Fin nsv → Cx α) (k : Fin ns) (i : Fin np) : Cx α :=
  sumFin (T.mult k i) fun l => Cx.divR (ph (T.svIdx k i l)) ((T.mult k i : Nat) : α)

/-- `get_dynmat_ij` + `get_dm` (no NAC: `charge_sum == NULL`): the block before `make_Hermitian`. -/
def dynmatRawC (T : DTables np nf ns nsv) (ph : Fin nsv → Cx α) (mm : Fin np → Fin np → α)
    (fc : Fin nf → Fin ns → Fin 3 → Fin 3 → α) : DM np (Cx α) :=
  fun i a j b =>
    Cx.divR
      (sumFin ns fun k =>
        if T.s2p k = T.p2s j then Cx.smulR (fc (T.p2s i) k a b) (phaseAvgC T ph k i) else 0)
      (mm i j)

/-- band index `3 i + a` -/
def bidx {np : Nat} (i : Fin np) (a : Fin 3) : Nat := i.1 * 3 + a.1

/-- `make_Hermitian`: for `row ≤ col` the element becomes `((re+reᵀ)/2, (im−imᵀ)/2)` and the
transposed element its conjugate (each pair is touched once, so the in-place loop is this closed form). -/
def hermC (D : DM np (Cx α)) : DM np (Cx α) :=
  fun i a j b =>
    if bidx i a ≤ bidx j b then
      ⟨((D i a j b).re + (D j b i a).re) / 2, ((D i a j b).im - (D j b i a).im) / 2⟩
    else
      ⟨((D j b i a).re + (D i a j b).re) / 2, -(((D j b i a).im - (D i a j b).im) / 2)⟩

/-- `dym_get_dynamical_matrix_at_q` (serial double loop and OpenMP `ij` loop fill the same
entries; then `make_Hermitian`). -/
def dynmatC (T : DTables np nf ns nsv) (ph : Fin nsv → Cx α) (mm : Fin np → Fin np → α)
    (fc : Fin nf → Fin ns → Fin 3 → Fin 3 → α) : DM np (Cx α) :=
  hermC (dynmatRawC T ph mm fc)

/-- The extra maps the Python reference uses for the selection test `s_j == s2p_map[k]`
(always the full-fc maps, also for compact fc). -/
structure PyTables (np nf ns nsv : Nat) extends DTables np nf ns nsv where
  p2sF : Fin np → Fin ns
  s2pF : Fin ns → Fin ns

/-- `_run_py_dynamical_matrix` before the Hermitisation:
`dm_local += fc_elem[k] * phase_factor / sqrt_mm / m` for the `k` with `s_j == s2p_map[k]`;
`fc_elem = fc[s_i]` (full) or `fc[i]` (compact) is `fc (p2s i)` of the underlying `DTables`. -/
def dynmatRawPy (T : PyTables np nf ns nsv) (ph : Fin nsv → Cx α) (mm : Fin np → Fin np → α)
    (fc : Fin nf → Fin ns → Fin 3 → Fin 3 → α) : DM np (Cx α) :=
  fun i a j b =>
    sumFin ns fun k =>
      if T.p2sF j = T.s2pF k then
        Cx.divR (Cx.divR (Cx.smulR (fc (T.p2s i) k a b) (phaseSum T.toDTables ph k i)) (mm i j))
          ((T.mult k i : Nat) : α)
      else 0

/-- `(dm + dm.conj().transpose()) / 2`. -/
def hermPy (D : DM np (Cx α)) : DM np (Cx α) :=
  fun i a j b => Cx.divR (D i a j b + Cx.conj (D j b i a)) 2

def dynmatPy (T : PyTables np nf ns nsv) (ph : Fin nsv → Cx α) (mm : Fin np → Fin np → α)
    (fc : Fin nf → Fin ns → Fin 3 → Fin 3 → α) : DM np (Cx α) :=
  hermPy (dynmatRawPy T ph mm fc)

/-- Executable certificate: the Python selection test picks the same supercell atoms as the C one. -/
def PyTables.selOk (T : PyTables np nf ns nsv) : Bool :=
  (List.finRange ns).all fun k => (List.finRange np).all fun j =>
    (decide (T.p2sF j = T.s2pF k)) == (decide (T.s2p k = T.p2s j))

/-- `_get_fc_elements_mapping` for compact fc: `p2s = arange`, `s2p = s2pp`; same `multi`. -/
def compactTables (T : DTables np ns ns nsv) (s2pp : Fin ns → Fin np) : DTables np np ns nsv where
  p2s := fun i => i
  s2p := s2pp
  mult := T.mult
  adrs := T.adrs
  hpos := T.hpos
  hbnd := T.hbnd

/-- Executable certificate relating the compact maps to the full ones: `s2pp k = j ↔ s2p k = p2s j`. -/
def compactOk (T : DTables np ns ns nsv) (s2pp : Fin ns → Fin np) : Bool :=
  (List.finRange ns).all fun k => (List.finRange np).all fun j =>
    (decide (s2pp k = j)) == (decide (T.s2p k = T.p2s j))

/-- Executable certificate: the full-fc tables use the index maps of the translation tables `C`
(`p2s` equal, `s2p k = p2s (s2pp k)`), so that the C07 certificate `CTables.wf` speaks about them. -/
def linkedOk {nt : Nat} (T : DTables np ns ns nsv) (C : CTables np ns nt) : Bool :=
  (List.finRange np).all (fun i => T.p2s i == C.p2s i) &&
  (List.finRange ns).all (fun k => T.s2p k == C.p2s (C.s2pp k))

/-- compact force constants of a full array: rows of the primitive atoms (`fc[p2s_map]`). -/
def compressFC (p2s : Fin np → Fin ns) (fc : Fin ns → Fin ns → Fin 3 → Fin 3 → α) :
    Fin np → Fin ns → Fin 3 → Fin 3 → α :=
  fun i k a b => fc (p2s i) k a b

/-! ### sparse shortest-vector storage (`store_dense_svecs=False`)

`svecs[k][i][0..26]`, `multi[k][i]`; `sparse_to_dense_svecs` concatenates the used slots in
row-major pair order. -/

/-- number of stored vectors before pair number `p` (pairs numbered `k * np + i`) -/
def denseAdrsAux (np : Nat) (smulti : Nat → Nat → Nat) : Nat → Nat
  | 0 => 0
  | p+1 => denseAdrsAux np smulti p + smulti (p / np) (p % np)

/-- `dmulti[s_i, p_i, 1]` of `sparse_to_dense_svecs` -/
def denseAdrs (np : Nat) (smulti : Nat → Nat → Nat) (k i : Nat) : Nat :=
  denseAdrsAux np smulti (k * np + i)

/-- phase sum read directly from the sparse table -/
def phaseSumSparse (smulti : Fin ns → Fin np → Nat) (sph : Fin ns → Fin np → Nat → Cx α)
    (k : Fin ns) (i : Fin np) : Cx α :=
  sumFin (smulti k i) fun l => sph k i l.1

/-! ### invariance of the shortest-vector table under a space-group operation (C03, point-group clause)

For an operation that maps the supercell onto itself: `pi` permutes the primitive atoms (sublattices),
`kap i` is the permutation of the supercell atoms "apply the operation, then the lattice translation that brings the
image of primitive atom `i` back to primitive atom `pi i`", `sig` maps the index of every stored shortest vector to
the index of its image.  `svecsInvariantOk` is the executable certificate that these maps send the table onto itself:
the stored vectors of pair `(k, i)` go bijectively to the stored vectors of pair `(kap i k, pi i)`. -/

structure SymMaps (np ns nsv : Nat) where
  pi   : Fin np → Fin np
  pinv : Fin np → Fin np
  kap  : Fin np → Fin ns → Fin ns
  kinv : Fin np → Fin ns → Fin ns
  sig  : Fin nsv → Fin nsv
  sinv : Fin nsv → Fin nsv

/-- stored-vector index `x` lies in the address range `[adrs, adrs + mult)` of the pair `(k, i)` -/
def inRange (T : DTables np nf ns nsv) (k : Fin ns) (i : Fin np) (x : Fin nsv) : Bool :=
  decide (T.adrs k i ≤ x.1) && decide (x.1 < T.adrs k i + T.mult k i)

def svecsInvariantOk (T : DTables np nf ns nsv) (M : SymMaps np ns nsv) : Bool :=
  (List.finRange np).all (fun i => M.pinv (M.pi i) == i && M.pi (M.pinv i) == i) &&
  (List.finRange np).all (fun i => (List.finRange ns).all fun k =>
      M.kinv i (M.kap i k) == k && M.kap i (M.kinv i k) == k) &&
  (List.finRange nsv).all (fun x => M.sinv (M.sig x) == x && M.sig (M.sinv x) == x) &&
  (List.finRange np).all (fun i => (List.finRange ns).all fun k =>
      T.mult (M.kap i k) (M.pi i) == T.mult k i) &&
  (List.finRange np).all (fun i => (List.finRange ns).all fun k => (List.finRange nsv).all fun x =>
      (!inRange T k i x || inRange T (M.kap i k) (M.pi i) (M.sig x)) &&
      (!inRange T (M.kap i k) (M.pi i) x || inRange T k i (M.sinv x))) &&
  (List.finRange np).all (fun i => (List.finRange ns).all fun k => (List.finRange np).all fun j =>
      decide (T.s2p (M.kap i k) = T.p2s (M.pi j)) == decide (T.s2p k = T.p2s j))

/-! ### both loop forms of the kernel and the q-point batch

`dym_get_dynamical_matrix_at_q(use_openmp=1)` runs `get_dynmat_ij(ij / num_patom, ij % num_patom)` for
`ij < num_patom²`; `dym_dynamical_matrices_with_dd_openmp_over_qpoints` (no NAC) writes the matrix of q-point `n`
at `dynamical_matrices + adrs_shift * n`, `adrs_shift = num_patom² · 9`, element `(3i+a)·3·num_patom + 3j+b`. -/

/-- the block the `ij`-th iteration of the OpenMP loop writes -/
def rawByIJ (T : DTables np nf ns nsv) (ph : Fin nsv → Cx α) (mm : Fin np → Fin np → α)
    (fc : Fin nf → Fin ns → Fin 3 → Fin 3 → α) (hnp : 0 < np) (ij : Fin (np * np)) (a b : Fin 3) : Cx α :=
  dynmatRawC T ph mm fc ⟨ij.1 / np, Nat.div_lt_of_lt_mul ij.2⟩ a ⟨ij.1 % np, Nat.mod_lt _ hnp⟩ b

/-- flat index of element `(i,a),(j,b)` of the matrix of q-point `n` in the output buffer -/
def flatIdx (np : Nat) (n : Nat) (i : Fin np) (a : Fin 3) (j : Fin np) (b : Fin 3) : Nat :=
  n * (np * np * 9) + ((i.1 * 3 + a.1) * (np * 3) + (j.1 * 3 + b.1))

/-- the output buffer of the q-point loop as a function of the flat index (0 outside the buffer) -/
def dynmatBatchFlat (T : DTables np nf ns nsv) {nq : Nat} (phs : Fin nq → Fin nsv → Cx α)
    (mm : Fin np → Fin np → α) (fc : Fin nf → Fin ns → Fin 3 → Fin 3 → α) (idx : Nat) : Cx α :=
  let n := idx / (np * np * 9)
  let r := idx % (np * np * 9)
  let row := r / (np * 3)
  let col := r % (np * 3)
  if h : n < nq ∧ row / 3 < np ∧ col / 3 < np then
    dynmatC T (phs ⟨n, h.1⟩) mm fc ⟨row / 3, h.2.1⟩ ⟨row % 3, Nat.mod_lt _ (by decide)⟩
      ⟨col / 3, h.2.2⟩ ⟨col % 3, Nat.mod_lt _ (by decide)⟩
  else 0

/-! ### frequencies (`QpointsPhonon._run`: `np.sqrt(np.abs(eigvals)) * np.sign(eigvals) * factor`)

The eigenvalues (LAPACK) and the square root are parameters. -/

/-- `np.sign` -/
def signR {β : Type} [LT β] [DecidableLT β] [OfNat β 0] [OfNat β 1] [Neg β] (x : β) : β :=
  if 0 < x then 1 else if x < 0 then -1 else 0
/-- `np.abs` -/
def absR {β : Type} [LT β] [DecidableLT β] [OfNat β 0] [Neg β] (x : β) : β := if x < 0 then -x else x
/-- frequency of an eigenvalue; imaginary modes are reported as negative numbers -/
def frequency {β : Type} [LT β] [DecidableLT β] [OfNat β 0] [OfNat β 1] [Neg β] [Mul β]
    (sqrt : β → β) (factor : β) (ev : β) : β :=
  sqrt (absR ev) * signR ev * factor

/-! ### staged evaluators used by the driver (proved equal to the model in `Props/C02`) -/

def dynmatCF (T : DTables np nf ns nsv) (ph : Fin nsv → Cx α) (mm : Fin np → Fin np → α)
    (fc : Fin nf → Fin ns → Fin 3 → Fin 3 → α) : Frozen4 (Cx α) :=
  stage4 (hermC (np := np) (α := α)) (freeze4 (dynmatRawC T ph mm fc))

def dynmatPyF (T : PyTables np nf ns nsv) (ph : Fin nsv → Cx α) (mm : Fin np → Fin np → α)
    (fc : Fin nf → Fin ns → Fin 3 → Fin 3 → α) : Frozen4 (Cx α) :=
  stage4 (hermPy (np := np) (α := α)) (freeze4 (dynmatRawPy T ph mm fc))

end model

end PhononModel
