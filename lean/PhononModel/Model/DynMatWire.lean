import PhononModel.Model.DynMat
import PhononModel.Model.Symmetrize
import PhononModel.Model.RecipOps
import PhononModel.Model.Wire
namespace PhononModel.DynMatWire
open PhononModel PhononModel.Wire

/-!
Line protocol of the dynamical-matrix model (served by `Drivers/C02.lean` and `Drivers/C03.lean`).

  c   np nf ns nsv  p2s[np] s2p[ns] multi[ns*np*2]                      ph[nsv*2] mm[np*np] fc[nf*ns*9]
  py  np nf ns nsv  p2s[np] s2p[ns] multi[ns*np*2] p2sF[np] s2pF[ns]    ph[nsv*2] mm[np*np] fc[nf*ns*9]
        → `3np × 3np` complex entries `re im`, row-major (i a j b); `py` is preceded by the `selOk` flag
  compactok np ns nsv p2s[np] s2p[ns] multi[ns*np*2] s2pp[ns]           → true | false
  linked    np ns nsv p2s[np] s2p[ns] multi[ns*np*2]  nt p2s'[np] s2pp[ns] nsym[ns] perms[nt*ns]
        → `<linkedOk> <CTables.wf>`
  svinv np nf ns nsv p2s[np] s2p[ns] multi[ns*np*2] pi[np] pinv[np] kap[np*ns] kinv[np*ns] sig[nsv] sinv[nsv]
        → `svecsInvariantOk` (true | false)
  svdev nsv R[9] sig[nsv] svecs[nsv*3] tol                              → true | false
  batch nq np nf ns nsv p2s[np] s2p[ns] multi[ns*np*2] ph[nq*nsv*2] mm[np*np] fc[nf*ns*9]
        → the flat output buffer of the q-point loop, `nq·(3np)²` complex entries
  freq factor n (ev sqrt|ev|)[n]                                         → n frequencies
  ptgops tr n rots[9n]   → `<isGroupOk> <#ptg> ptg_ops... | <#recip> reciprocal_rotations...`
  denseadrs ns np smulti[ns*np]                                          → the `ns*np` addresses
Numbers are exact (`n/d`).  Anything malformed (wrong count, index out of range, multiplicity 0,
address range outside the stored vectors) → `bad-op`.
-/

def readDTables (c : Cur) (np nf ns nsv : Nat) : Option (DTables np nf ns nsv × Cur) := do
  let (p2s, c) ← c.nats? np
  let (s2p, c) ← c.nats? ns
  let (multi, c) ← c.nats? (ns * np * 2)
  let p2s ← allFin? nf p2s
  let s2p ← allFin? nf s2p
  if h1 : p2s.size = np ∧ s2p.size = ns then
    let mult : Fin ns → Fin np → Nat := fun k i => multi.getD ((k.1 * np + i.1) * 2) 0
    let adrs : Fin ns → Fin np → Nat := fun k i => multi.getD ((k.1 * np + i.1) * 2 + 1) 0
    if h2 : (∀ k i, 1 ≤ mult k i) ∧ (∀ k i, adrs k i + mult k i ≤ nsv) then
      pure ({ p2s := fun i => p2s[i.1]'(by omega), s2p := fun k => s2p[k.1]'(by omega),
              mult := mult, adrs := adrs, hpos := h2.1, hbnd := h2.2 }, c)
    else none
  else none

def readCx (c : Cur) (n : Nat) : Option ((Fin n → Cx Rat) × Cur) := do
  let (v, c) ← c.rats? (n * 2)
  pure (fun l => ⟨v.getD (l.1 * 2) 0, v.getD (l.1 * 2 + 1) 0⟩, c)

def toFC' (a b : Nat) (v : Array Rat) : Fin a → Fin b → Fin 3 → Fin 3 → Rat :=
  fun i j k l => v.getD (i.1 * b * 9 + j.1 * 9 + k.1 * 3 + l.1) 0

def showDM (np : Nat) (D : DM np (Cx Rat)) : String := Id.run do
  let mut out : Array Rat := Array.mkEmpty (np * np * 18)
  for i in List.finRange np do
    for a in List.finRange 3 do
      for j in List.finRange np do
        for b in List.finRange 3 do
          let z := D i a j b
          out := (out.push z.re).push z.im
  pure (showRats out)

def readCTables (c : Cur) (np ns : Nat) : Option ((nt : Nat) × CTables np ns nt × Cur) := do
  let (nt, c) ← c.nat?
  let (p2s, c) ← c.nats? np
  let (s2pp, c) ← c.nats? ns
  let (nsym, c) ← c.nats? ns
  let (perms, c) ← c.nats? (nt * ns)
  let p2s ← allFin? ns p2s
  let s2pp ← allFin? np s2pp
  let nsym ← allFin? nt nsym
  let perms ← allFin? ns perms
  if h1 : p2s.size = np ∧ s2pp.size = ns ∧ nsym.size = ns ∧ perms.size = nt * ns then
    let T : CTables np ns nt :=
      { p2s := fun i => p2s[i.1]'(by omega)
        s2pp := fun i => s2pp[i.1]'(by omega)
        nsym := fun i => nsym[i.1]'(by omega)
        perms := fun t i => perms[t.1 * ns + i.1]'(by
          have := t.2; have := i.2
          calc t.1 * ns + i.1 < t.1 * ns + ns := by omega
            _ = (t.1 + 1) * ns := by rw [Nat.add_mul, Nat.one_mul]
            _ ≤ nt * ns := Nat.mul_le_mul_right _ (by omega)
            _ = perms.size := by omega) }
    pure ⟨nt, T, c⟩
  else none

def handle (line : String) : String :=
  let c : Cur := { toks := (tokens line).toArray }
  let r : Option String := do
    let (op, c) ← c.str?
    match op with
    | "c" | "py" =>
      let (np, c) ← c.nat?
      let (nf, c) ← c.nat?
      let (ns, c) ← c.nat?
      let (nsv, c) ← c.nat?
      let (T, c) ← readDTables c np nf ns nsv
      if op == "c" then
        let (ph, c) ← readCx c nsv
        let (mm, c) ← c.rats? (np * np)
        let (fc, c) ← c.rats? (nf * ns * 9)
        if !c.atEnd then none
        let mmf : Fin np → Fin np → Rat := fun i j => mm.getD (i.1 * np + j.1) 0
        pure (showDM np (thaw4 (dynmatCF T ph mmf (toFC' nf ns fc))))
      else
        let (p2sF, c) ← c.nats? np
        let (s2pF, c) ← c.nats? ns
        let p2sF ← allFin? ns p2sF
        let s2pF ← allFin? ns s2pF
        if h : p2sF.size = np ∧ s2pF.size = ns then
          let P : PyTables np nf ns nsv :=
            { toDTables := T, p2sF := fun i => p2sF[i.1]'(by omega), s2pF := fun k => s2pF[k.1]'(by omega) }
          let (ph, c) ← readCx c nsv
          let (mm, c) ← c.rats? (np * np)
          let (fc, c) ← c.rats? (nf * ns * 9)
          if !c.atEnd then none
          let mmf : Fin np → Fin np → Rat := fun i j => mm.getD (i.1 * np + j.1) 0
          pure (toString P.selOk ++ " " ++ showDM np (thaw4 (dynmatPyF P ph mmf (toFC' nf ns fc))))
        else none
    | "compactok" =>
      let (np, c) ← c.nat?
      let (ns, c) ← c.nat?
      let (nsv, c) ← c.nat?
      let (T, c) ← readDTables c np ns ns nsv
      let (s2pp, c) ← c.nats? ns
      let s2pp ← allFin? np s2pp
      if !c.atEnd then none
      if h : s2pp.size = ns then
        pure (toString (compactOk T (fun k => s2pp[k.1]'(by omega))))
      else none
    | "linked" =>
      let (np, c) ← c.nat?
      let (ns, c) ← c.nat?
      let (nsv, c) ← c.nat?
      let (T, c) ← readDTables c np ns ns nsv
      let ⟨_, C, c⟩ ← readCTables c np ns
      if !c.atEnd then none
      pure (toString (linkedOk T C) ++ " " ++ toString C.wf)
    | "svinv" =>
      let (np, c) ← c.nat?
      let (nf, c) ← c.nat?
      let (ns, c) ← c.nat?
      let (nsv, c) ← c.nat?
      let (T, c) ← readDTables c np nf ns nsv
      let (pi, c) ← c.nats? np
      let (pinv, c) ← c.nats? np
      let (kap, c) ← c.nats? (np * ns)
      let (kinv, c) ← c.nats? (np * ns)
      let (sig, c) ← c.nats? nsv
      let (sinv, c) ← c.nats? nsv
      if !c.atEnd then none
      let pi ← allFin? np pi
      let pinv ← allFin? np pinv
      let kap ← allFin? ns kap
      let kinv ← allFin? ns kinv
      let sig ← allFin? nsv sig
      let sinv ← allFin? nsv sinv
      if hnp : 0 < np ∧ 0 < ns ∧ 0 < nsv then
        let d1 : Fin np := ⟨0, hnp.1⟩
        let d2 : Fin ns := ⟨0, hnp.2.1⟩
        let d3 : Fin nsv := ⟨0, hnp.2.2⟩
        let M : SymMaps np ns nsv :=
          { pi := fun i => pi.getD i.1 d1, pinv := fun i => pinv.getD i.1 d1,
            kap := fun i k => kap.getD (i.1 * ns + k.1) d2, kinv := fun i k => kinv.getD (i.1 * ns + k.1) d2,
            sig := fun x => sig.getD x.1 d3, sinv := fun x => sinv.getD x.1 d3 }
        pure (toString (svecsInvariantOk T M))
      else none
    | "svdev" =>
      -- every stored vector is mapped onto the stored vector `sig` names: |R·sv_l − sv_(sig l)|_∞ ≤ tol
      let (nsv, c) ← c.nat?
      let (rot, c) ← c.ints? 9
      let (sig, c) ← c.nats? nsv
      let (sv, c) ← c.rats? (nsv * 3)
      let (tol, c) ← c.rat?
      if !c.atEnd then none
      let ok := (List.range nsv).all fun l =>
        (List.range 3).all fun a =>
          let img : Rat := (List.range 3).foldl (fun acc b => acc + ((rot.getD (a * 3 + b) 0 : Int) : Rat) * sv.getD (l * 3 + b) 0) 0
          let tgt := sv.getD ((sig.getD l nsv) * 3 + a) 0
          let d := img - tgt
          decide (d ≤ tol) && decide (-tol ≤ d) && decide (sig.getD l nsv < nsv)
      pure (toString ok)
    | "batch" =>
      let (nq, c) ← c.nat?
      let (np, c) ← c.nat?
      let (nf, c) ← c.nat?
      let (ns, c) ← c.nat?
      let (nsv, c) ← c.nat?
      let (T, c) ← readDTables c np nf ns nsv
      let (phv, c) ← c.rats? (nq * nsv * 2)
      let (mm, c) ← c.rats? (np * np)
      let (fc, c) ← c.rats? (nf * ns * 9)
      if !c.atEnd then none
      let phs : Fin nq → Fin nsv → Cx Rat := fun n l =>
        ⟨phv.getD ((n.1 * nsv + l.1) * 2) 0, phv.getD ((n.1 * nsv + l.1) * 2 + 1) 0⟩
      let mmf : Fin np → Fin np → Rat := fun i j => mm.getD (i.1 * np + j.1) 0
      let fcf := toFC' nf ns fc
      let out : Array Rat := Id.run do
        let mut out : Array Rat := Array.mkEmpty (nq * np * np * 18)
        for idx in [0:nq * np * np * 9] do
          let z := dynmatBatchFlat T phs mmf fcf idx
          out := (out.push z.re).push z.im
        pure out
      pure (showRats out)
    | "freq" =>
      let (factor, c) ← c.rat?
      let (n, c) ← c.nat?
      let (v, c) ← c.rats? (n * 2)
      if !c.atEnd then none
      pure (showRats (Array.ofFn (n := n) fun k =>
        frequency (fun _ => v.getD (k.1 * 2 + 1) 0) factor (v.getD (k.1 * 2) 0)))
    | "ptgops" =>
      let (tr, c) ← c.nat?
      let (n, c) ← c.nat?
      let (v, c) ← c.ints? (n * 9)
      if !c.atEnd then none
      if tr > 1 then none
      let rots : List RecipOps.M3 := (List.range n).map fun r => fun i j => v.getD (r * 9 + i.1 * 3 + j.1) 0
      let (p, rr) := RecipOps.pointgroupOps rots (tr == 1)
      let flat (l : List RecipOps.M3) : String :=
        " ".intercalate (l.map fun m => " ".intercalate ((List.finRange 3).flatMap fun i => (List.finRange 3).map fun j => toString (m i j)))
      pure (toString (RecipOps.isGroupOk rots) ++ " " ++ toString p.length ++ " " ++ flat p ++ " | " ++ toString rr.length ++ " " ++ flat rr)
    | "denseadrs" =>
      let (ns, c) ← c.nat?
      let (np, c) ← c.nat?
      let (sm, c) ← c.nats? (ns * np)
      if !c.atEnd then none
      let smf : Nat → Nat → Nat := fun k i => sm.getD (k * np + i) 0
      pure (showNats (Array.ofFn (n := ns * np) fun p => denseAdrs np smf (p.1 / np) (p.1 % np)))
    | _ => none
  r.getD "bad-op"

end PhononModel.DynMatWire
