import PhononModel.Model.ThermalEnv
/-!
# Special-values model of binary64 arithmetic (used only for the finiteness clause of C10)

A value is a finite number, `+∞`, `-∞` or `NaN`.  Arithmetic on finite values is *exact* (rounding is
not modelled, nor is overflow of `+ - × ÷` on finite operands, nor the sign of zero); what is modelled
is how IEEE-754 and libm treat and create the special values:

* `∞ - ∞`, `0 · ∞`, `∞ / ∞`, `0 / 0` are NaN; `x / 0 = ±∞` for finite `x ≠ 0`; `x / ±∞ = 0`;
* `exp r = +∞` for `r > expHi` (709.78…), `exp r = 0` for `r < expLo` (-745.13…);
* `sinh r = ±∞`, `cosh r = +∞` for `|r| > sinhHi` (710.47…);
* `log 0 = -∞`, `log r = NaN` for `r < 0`;
* `expm1 r = +∞` for `r > expHi`, never underflows (`expm1 r → -1`).

The thresholds are parameters (`Lim`); the harness checks them against the libm the implementation
actually runs on.  The mathematical functions on finite values are the fields of a `ThermalEnv α`.
-/
namespace PhononModel

inductive X (α : Type) where
  | fin (r : α)
  | pinf
  | ninf
  | nan
  deriving Repr

namespace X
variable {α : Type}

def isFin : X α → Bool
  | fin _ => true
  | _ => false

section ops
variable [Add α] [Mul α] [Div α] [Neg α] [OfNat α 0] [LT α] [∀ a b : α, Decidable (a < b)] [DecidableEq α]

def neg : X α → X α
  | fin r => fin (-r)
  | pinf => ninf
  | ninf => pinf
  | nan => nan

def add : X α → X α → X α
  | nan, _ => nan
  | _, nan => nan
  | fin a, fin b => fin (a + b)
  | fin _, pinf => pinf
  | fin _, ninf => ninf
  | pinf, fin _ => pinf
  | ninf, fin _ => ninf
  | pinf, pinf => pinf
  | ninf, ninf => ninf
  | pinf, ninf => nan
  | ninf, pinf => nan

/-- sign-directed infinity: `s > 0 ↦ +∞`, `s < 0 ↦ -∞`, `s = 0 ↦ NaN` -/
def sgnInf (s : α) : X α := if 0 < s then pinf else if s < 0 then ninf else nan

def mul : X α → X α → X α
  | nan, _ => nan
  | _, nan => nan
  | fin a, fin b => fin (a * b)
  | fin a, pinf => sgnInf a
  | fin a, ninf => sgnInf (-a)
  | pinf, fin b => sgnInf b
  | ninf, fin b => sgnInf (-b)
  | pinf, pinf => pinf
  | ninf, ninf => pinf
  | pinf, ninf => ninf
  | ninf, pinf => ninf

def div : X α → X α → X α
  | nan, _ => nan
  | _, nan => nan
  | fin a, fin b => if b = 0 then sgnInf a else fin (a / b)
  | fin _, pinf => fin 0
  | fin _, ninf => fin 0
  | pinf, fin b => if b < 0 then ninf else pinf
  | ninf, fin b => if b < 0 then pinf else ninf
  | pinf, pinf => nan
  | ninf, ninf => nan
  | pinf, ninf => nan
  | ninf, pinf => nan

instance : Neg (X α) := ⟨neg⟩
instance : Add (X α) := ⟨add⟩
instance : Sub (X α) := ⟨fun a b => add a (neg b)⟩
instance : Mul (X α) := ⟨mul⟩
instance : Div (X α) := ⟨div⟩

end ops

instance {n : Nat} [OfNat α n] : OfNat (X α) n := ⟨fin (OfNat.ofNat n)⟩

/-- overflow / underflow thresholds of libm on binary64 -/
structure Lim (α : Type) where
  expHi : α
  expLo : α
  sinhHi : α

section env
variable [Sub α] [Neg α] [OfNat α 0] [OfNat α 1] [LT α] [∀ a b : α, Decidable (a < b)] [DecidableEq α]

/-- the saturating libm over special values, built from the exact functions of `E` -/
def env (L : Lim α) (E : ThermalEnv α) : ThermalEnv (X α) where
  exp
    | fin r => if L.expHi < r then pinf else if r < L.expLo then fin 0 else fin (E.exp r)
    | pinf => pinf
    | ninf => fin 0
    | nan => nan
  log
    | fin r => if r < 0 then nan else if r = 0 then ninf else fin (E.log r)
    | pinf => pinf
    | ninf => nan
    | nan => nan
  sinh
    | fin r => if L.sinhHi < r then pinf else if r < -L.sinhHi then ninf else fin (E.sinh r)
    | pinf => pinf
    | ninf => ninf
    | nan => nan
  cosh
    | fin r => if L.sinhHi < r then pinf else if r < -L.sinhHi then pinf else fin (E.cosh r)
    | pinf => pinf
    | ninf => pinf
    | nan => nan
  expm1
    | fin r => if L.expHi < r then pinf else fin (E.expm1 r)
    | pinf => pinf
    | ninf => fin (-1)
    | nan => nan
  KB := fin E.KB

end env
end X
end PhononModel
