import PhononModel.Model.Displacement
import PhononModel.Model.FDSolver
/-!
Model of the `Symmetry` bookkeeping the finite-displacement solver relies on (property C01, phase 2), and of the
assembly of the displacement data set.

Source anchors (tied by the correspondence run of `./check C01`):
* `structure/symmetry.py: Symmetry._set_independent_atoms / get_independent_atoms`  ↦ `independentAtoms`
  (`map_atoms` = spglib's `equivalent_atoms`, or `s2p_map` when `is_symmetry=False`, is an input, certified
  per case by `equivCert`)
* `Symmetry._get_map_operations_from_permutations`                                   ↦ `mapOperation`
* `Symmetry.get_site_symmetry(atom)` ↦ `siteOps`, `siteSymmetry`: the code selects the operations `(r, t)` with
  `|r·x_a + t − x_a| < symprec` modulo the lattice; the model selects the operations whose atom permutation
  (`Symmetry.atomic_permutations`, computed with the same tolerance) fixes `a`.  That the two selections coincide
  is what the correspondence compares (all atoms of every generated crystal).
* `harmonic/displacement.py: get_least_displacements` (outer loop over independent atoms)  ↦ `generateDirections`
* `harmonic/displacement.py: directions_to_displacement_dataset`                          ↦ `dispCartesian`,
  `datasetVector` (`np.linalg.norm` is a parameter: the driver is handed the float the code computed, the theorems
  assume `norm² = |v|²`)
-/
namespace PhononModel.FD
open PhononModel.Disp

/-- `_set_independent_atoms`: `[i for i, atom_map in enumerate(map_atoms) if i == atom_map]` -/
def independentAtoms {n : Nat} (mapAtoms : Fin n → Fin n) : List (Fin n) :=
  (List.finRange n).filter fun i => i = mapAtoms i

/-- `_get_map_operations_from_permutations`: `np.where(perm[:, i] == eq_atom)[0][0]` (`none` = the `assert`) -/
def mapOperation {n nrot : Nat} (perms : Fin nrot → Fin n → Fin n) (mapAtoms : Fin n → Fin n) (i : Fin n) :
    Option (Fin nrot) :=
  (List.finRange nrot).find? fun g => perms g i = mapAtoms i

/-- indices (list order) of the operations that fix atom `a` -/
def siteOps {n nrot : Nat} (perms : Fin nrot → Fin n → Fin n) (a : Fin n) : List (Fin nrot) :=
  (List.finRange nrot).filter fun g => perms g a = a

/-- `get_site_symmetry(a)`: their matrix parts -/
def siteSymmetry {n nrot : Nat} (rots : Fin nrot → M3) (perms : Fin nrot → Fin n → Fin n) (a : Fin n) : List M3 :=
  (siteOps perms a).map rots

/-- certificate on spglib's `equivalent_atoms`: representatives are fixed points, every atom reaches its
representative by a listed operation, and the representative is constant on orbits of the listed operations -/
def equivCert {n nrot : Nat} (perms : Fin nrot → Fin n → Fin n) (mapAtoms : Fin n → Fin n) : Bool :=
  (List.finRange n).all fun i =>
    mapAtoms (mapAtoms i) == mapAtoms i &&
    (List.finRange nrot).any (fun g => perms g i == mapAtoms i) &&
    (List.finRange nrot).all fun g => mapAtoms (perms g i) == mapAtoms i

/-- some listed operation is the identity (matrix and permutation) -/
def identityCert {n nrot : Nat} (rots : Fin nrot → M3) (perms : Fin nrot → Fin n → Fin n) : Bool :=
  (List.finRange nrot).any fun g => rots g == M3.one && (List.finRange n).all fun i => perms g i == i

/-- `get_least_displacements(symmetry, …)`: for every independent atom the directions of its site symmetry,
as `[atom, d]` rows in emission order (`none` = an exception of `get_displacement`) -/
def generateDirections {n nrot : Nat} (rots : Fin nrot → M3) (perms : Fin nrot → Fin n → Fin n)
    (mapAtoms : Fin n → Fin n) (o : Options) : Option (List (Fin n × V3)) :=
  let rec go : List (Fin n) → Option (List (Fin n × V3))
    | [] => some []
    | a :: rest =>
      match leastDisplacements (siteSymmetry rots perms a) o, go rest with
      | some L, some tail => some (L.map (fun d => (a, d)) ++ tail)
      | _, _ => none
  go (independentAtoms mapAtoms)

section dataset
variable {α : Type} [Add α] [Mul α] [Div α] [IntCast α]

/-- `np.dot(direction, lattice)` (lattice vectors are the rows of `supercell.cell`) -/
def dispCartesian (lattice : Mat3 α) (d : V3) : Vec3 α :=
  fun j => (d.x : α) * lattice 0 j + (d.y : α) * lattice 1 j + (d.z : α) * lattice 2 j

/-- `disp_cartesian *= distance / np.linalg.norm(disp_cartesian)` -/
def datasetVector (lattice : Mat3 α) (distance norm : α) (d : V3) : Vec3 α :=
  fun j => dispCartesian lattice d j * (distance / norm)

end dataset

end PhononModel.FD
