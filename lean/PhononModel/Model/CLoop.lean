/-!
Semantics of the C loop subset translated by tools/cexpr2lean.py (`for (v = 0; v < n; v++)`,
`a[i] = e`, `a[i] += e`): counted loops as iterated state transformers, arrays as functions on `Nat`
with point update.  Core Lean only.
-/
namespace PhononModel.CLoop

/-- `for (i = 0; i < n; i++) s = body(i, s)` -/
def forN {σ : Type} : Nat → (Nat → σ → σ) → σ → σ
  | 0, _, s => s
  | n + 1, body, s => body n (forN n body s)

/-- `a[i] = v` -/
def upd {α : Type} (a : Nat → α) (i : Nat) (v : α) : Nat → α := fun k => if k = i then v else a k

/-- executable variant used by the driver: identical results, tail recursive -/
def forNFast {σ : Type} (n : Nat) (body : Nat → σ → σ) (s : σ) : σ := Id.run do
  let mut s := s
  for i in [0:n] do
    s := body i s
  pure s

end PhononModel.CLoop
