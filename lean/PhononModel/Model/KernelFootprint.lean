import PhononModel.Model.Basic
/-!
# C13 — write footprints of the compiled kernels

For every `#pragma omp parallel for` of `/repo/c` (11 of them, `inventory` below is the list this
file was written against; `tools/pragmas.py` recomputes it from the sources on every run) the map
*iteration ↦ list of flat indices written* as a function of the shape parameters, exactly as the C
text computes the addresses (same association of the products).  Indices are in units of the
element type of the numpy array the Python layer hands over: complex buffers are passed as
`view(dtype="double")`, so a C `double (*)[2]` address `a` is the two cells `2a, 2a+1` (`cplx`).

Source anchors (file: function ↦ model definition)
* c/derivative_dynmat.c: ddm_get_derivative_dynmat_at_q / get_derivative_dynmat_at_q ↦ `ddmLoop`
* c/dynmat.c: dym_dynamical_matrices_with_dd_openmp_over_qpoints (Wang / non-Wang) ↦ `dmQLoop`
* c/dynmat.c: dym_get_dynamical_matrix_at_q / get_dynmat_ij ↦ `dynmatIJLoop`
* c/dynmat.c: dym_transform_dynmat_to_fc / transform_dynmat_to_fc_ij ↦ `dynmatToFcLoop`
* c/dynmat.c: get_dd (table `KK[g][3][3]`) ↦ `ddKKLoop`
* c/dynmat.c: multiply_borns / multiply_borns_at_ij ↦ `bornsLoop`
* c/phonopy.c: phpy_get_tetrahedra_frequenies (inner `j` loop at fixed `i`) ↦ `tetraFreqLoop`
* c/phonopy.c: phpy_tetrahedron_method_dos ↦ `dosLoop`
* c/phonopy.c: phpy_get_thermal_properties (table `tp`, then the serial reduction) ↦ `thermalLoop`, `thermalReduce`
* c/_phonopy.cpp: py_thm_integration_weight_at_omegas ↦ `iwLoop`
* whole-kernel write sets per output argument as the glue c/_phonopy.cpp wires the shapes ↦ `K*` definitions
-/
namespace PhononModel.Footprint

/-- the two `double` cells of the complex cell at address `a` of a `double (*)[2]` buffer -/
def cplx (a : Nat) : List Nat := [2 * a, 2 * a + 1]

def for1 (n : Nat) (f : Nat → List Nat) : List Nat := (List.range n).flatMap f
def for2 (a b : Nat) (f : Nat → Nat → List Nat) : List Nat := for1 a fun i => for1 b fun j => f i j
def for3 (a b c : Nat) (f : Nat → Nat → Nat → List Nat) : List Nat :=
  for1 a fun i => for1 b fun j => for1 c fun k => f i j k

/-- a parallel loop: iteration count, write list of each iteration, size of the buffer written -/
structure PLoop where
  iters : Nat
  writes : Nat → List Nat
  size : Nat

/-- distinct iterations write disjoint index sets -/
def PLoop.Disjoint (L : PLoop) : Prop :=
  ∀ a b, a < L.iters → b < L.iters → a ≠ b → ∀ x, x ∈ L.writes a → x ∉ L.writes b

/-- every write is inside the buffer -/
def PLoop.InBounds (L : PLoop) : Prop := ∀ a, a < L.iters → ∀ x ∈ L.writes a, x < L.size

/-- union of all iterations' writes (what the driver prints) -/
def PLoop.all (L : PLoop) : List Nat := for1 L.iters L.writes

/-- brute-force versions, used by the driver on concrete shapes (cross-check of the theorems) -/
def PLoop.disjointB (L : PLoop) : Bool :=
  (List.range L.iters).all fun a => (List.range L.iters).all fun b =>
    a == b || (L.writes a).all fun x => !(L.writes b).contains x
def PLoop.inBoundsB (L : PLoop) : Bool :=
  (List.range L.iters).all fun a => (L.writes a).all fun x => decide (x < L.size)

/-! ## the eleven parallel loops -/

/-- derivative_dynmat.c:88 — `ij < num_patom*num_patom`, `i = ij / num_patom`, `j = ij % num_patom`;
`adrs = k*np*np*9 + (i*3+l)*np*3 + j*3 + m` (`+=` on both parts). Buffer `ddm[3][3np][3np]` complex. -/
def ddmLoop (np : Nat) : PLoop where
  iters := np * np
  writes := fun ij =>
    let i := ij / np
    let j := ij % np
    for3 3 3 3 fun k l m => cplx (k * np * np * 9 + (i * 3 + l) * np * 3 + j * 3 + m)
  size := 2 * (3 * (np * 3) * (np * 3))

/-- dynmat.c:136 and :147 — one dynamical matrix per q-point: iteration `i` owns the block
`dynamical_matrices + adrs_shift*i`, `adrs_shift = np*np*9`; inside the block every cell is written
(get_dynmat_ij over all (i,j,k,l), then make_Hermitian over all pairs). -/
def dmQLoop (nq np : Nat) : PLoop where
  iters := nq
  writes := fun i => for1 (np * np * 9) fun a => cplx (np * np * 9 * i + a)
  size := 2 * (nq * (np * 3) * (np * 3))

/-- dynmat.c:268 — get_dynmat_ij: `adrs = (i*3+k)*np*3 + j*3 + l`. -/
def dynmatIJLoop (np : Nat) : PLoop where
  iters := np * np
  writes := fun ij =>
    let i := ij / np
    let j := ij % np
    for2 3 3 fun k l => cplx ((i * 3 + k) * np * 3 + j * 3 + l)
  size := 2 * ((np * 3) * (np * 3))

/-- dynmat.c:484 — transform_dynmat_to_fc_ij: `ij < np*ns`, `i = ij / ns`, `j = ij % ns`,
writes `fc[fc_index_map[i]*ns*9 + j*9 + l*3 + m]`; `nfc` is the first dimension of `fc`. -/
def dynmatToFcLoop (np ns nfc : Nat) (fim : Nat → Nat) : PLoop where
  iters := np * ns
  writes := fun ij =>
    let i := ij / ns
    let j := ij % ns
    for2 3 3 fun l m => [fim i * ns * 9 + j * 9 + l * 3 + m]
  size := nfc * ns * 9

/-- dynmat.c:613 — get_dd: iteration `g` fills `KK[g][i][j]` of the malloc'ed `double[num_G][3][3]`. -/
def ddKKLoop (nG : Nat) : PLoop where
  iters := nG
  writes := fun g => for2 3 3 fun i j => [g * 9 + i * 3 + j]
  size := nG * 9

/-- dynmat.c:720 — multiply_borns_at_ij: `adrs = i*np*9 + k*np*3 + j*3 + l`. -/
def bornsLoop (np : Nat) : PLoop where
  iters := np * np
  writes := fun ij =>
    let i := ij / np
    let j := ij % np
    for2 3 3 fun k l => cplx (i * np * 9 + k * np * 3 + j * 3 + l)
  size := 2 * (np * np * 9)

/-- phonopy.c:181 — inner loop `j < num_band*96` at fixed outer `i < ngp`: `freq_tetras[i*nb*96 + j]`. -/
def tetraFreqLoop (ngp nb i : Nat) : PLoop where
  iters := nb * 96
  writes := fun j => [i * nb * 96 + j]
  size := ngp * nb * 96

/-- phonopy.c:239 — `dos[i*nb*nf*nc + k*nc*nf + j*nc + m] += …`, `k<nb, j<nf, m<nc`. -/
def dosLoop (nir nb nf nc : Nat) : PLoop where
  iters := nir
  writes := fun i => for3 nb nf nc fun k j m => [i * nb * nf * nc + k * nc * nf + j * nc + m]
  size := nir * nb * nf * nc

/-- phonopy.c:299 — `tp[i*nt*3 + j*3 + c] += …`, `j<nt`, `c<3` (only when T>0 and f>cutoff). -/
def thermalLoop (nq nt : Nat) : PLoop where
  iters := nq
  writes := fun i => for2 nt 3 fun j c => [i * nt * 3 + j * 3 + c]
  size := nq * nt * 3

/-- _phonopy.cpp:493 — `iw[i] = …`. -/
def iwLoop (n : Nat) : PLoop where
  iters := n
  writes := fun i => [i]
  size := n

/-! ## schedules and the serial reduction -/

/-- sequential execution of whole iterations in the order `σ` -/
def runSched {α : Type} (body : Nat → (Nat → α) → (Nat → α)) (σ : List Nat) (s : Nat → α) : Nat → α :=
  σ.foldl (fun s i => body i s) s

/-- an iteration that changes exactly the cells `W i`; the new content of a cell is `f i x s` -/
def iterBody {α : Type} (W : Nat → List Nat) (f : Nat → Nat → (Nat → α) → α) (i : Nat) (s : Nat → α) :
    Nat → α := fun x => if x ∈ W i then f i x s else s x

/-- the update of iteration `i` looks at the store only through iteration `i`'s own cells
(all other reads are of read-only inputs, i.e. constants of `f`) -/
def LocalUpd {α : Type} (W : Nat → List Nat) (f : Nat → Nat → (Nat → α) → α) : Prop :=
  ∀ i x s s', x ∈ W i → (∀ y ∈ W i, s y = s' y) → f i x s = f i x s'

/-- phonopy.c:319-323 — after the parallel region: `thermal_props[j] += tp[i*nt*3 + j]`,
`i` ascending, with an arbitrary (not necessarily associative) addition -/
def thermalReduce {α : Type} (add : α → α → α) (nq nt : Nat) (tp : Nat → α) (out : Nat → α) : Nat → α :=
  (List.range nq).foldl (fun o i => fun j => if j < nt * 3 then add (o j) (tp (i * nt * 3 + j)) else o j) out

/-! ## whole-kernel write sets per output argument (as wired by c/_phonopy.cpp) -/

def whole (n : Nat) : List Nat := List.range n

/-- transform_dynmat_to_fc, arg 0: zero-fill of the first `np*ns*9` cells, then the loop -/
def kDynmatToFc (np ns nfc : Nat) (fim : Nat → Nat) : List Nat :=
  whole (np * ns * 9) ++ (dynmatToFcLoop np ns nfc fim).all

/-- perm_trans_symmetrize_fc, arg 0: level 0 touches only the diagonal blocks -/
def kSymFc (n level : Nat) : List Nat :=
  if level = 0 then for3 n 3 3 fun i k l => [i * n * 9 + i * 9 + k * 3 + l] else whole (n * n * 9)

/-- perm_trans_symmetrize_compact_fc, arg 0 -/
def kSymCompactFc (np ns level : Nat) (p2s : Nat → Nat) : List Nat :=
  if level = 0 then for3 np 3 3 fun i k l => [i * ns * 9 + p2s i * 9 + k * 3 + l] else whole (np * ns * 9)

def kTransposeCompactFc (np ns : Nat) : List Nat := whole (np * ns * 9)

/-- dynamical_matrices_with_dd_openmp_over_qpoints, arg 0 (`n_qpoints = qpoints.shape(0)`) -/
def kDynmats (nq np : Nat) : List Nat := (dmQLoop nq np).all

def kRecipDD (np : Nat) : List Nat := whole (2 * (np * np * 9))
def kRecipDDq0 (np : Nat) : List Nat := whole (2 * (np * 9))

/-- derivative_dynmat, arg 0: the loop, then the Hermitisation sweep over index pairs `(j,k)` of
each Cartesian block `i<3`: `adrs = i*np*np*9 + j*np*3 + k`, `adrsT = i*np*np*9 + k*np*3 + j`.
Which pairs are visited (`j ≥ i, all k` in the pinned text; `k ≥ j` after the F15 fix) does not matter
for the footprint: every visit writes both cells, and the set below is all of them. -/
def kDerivDynmat (np : Nat) : List Nat :=
  (ddmLoop np).all ++
  for3 3 (np * 3) (np * 3) fun i j k =>
    cplx (i * np * np * 9 + j * np * 3 + k) ++ cplx (i * np * np * 9 + k * np * 3 + j)

def kThermal (nt : Nat) : List Nat := whole (nt * 3)

/-- distribute_fc2, arg 0: for every listed atom that is not its own representative the row
`fc_indices_of_atom_list[i]` -/
def kDistributeFc2 (npos : Nat) (atomList fcIdx mapAtoms : List Nat) : List Nat :=
  for1 atomList.length fun i =>
    let a := atomList.getD i 0
    if mapAtoms.getD a 0 = a then [] else
      for2 npos 9 fun o e => [(fcIdx.getD i 0 * npos + o) * 9 + e]

def kComputePermutation (npos : Nat) : List Nat := whole npos

/-- gsv_set_smallest_vectors_sparse: arg 0 `smallest_vectors[pair][27][3]` up to the multiplicity found,
arg 1 the multiplicities -/
def kGsvSparseVecs (mult : List Nat) : List Nat :=
  for1 mult.length fun p => for2 (mult.getD p 0) 3 fun c l => [p * 81 + c * 3 + l]
def kGsvSparseMult (npairs : Nat) : List Nat := whole npairs

/-- gsv_set_smallest_vectors_dense: `ini ≠ 0` writes only `multiplicity[pair][2]`,
`ini = 0` only `smallest_vectors[adrs+count][3]` -/
def kGsvDenseVecs (ini : Nat) (counts : List Nat) : List Nat :=
  if ini = 0 then whole (3 * counts.foldl (· + ·) 0) else []
def kGsvDenseMult (ini npairs : Nat) : List Nat :=
  if ini = 0 then [] else whole (2 * npairs)

def kRelGridAddress : List Nat := whole (24 * 4 * 3)
def kAllRelGridAddress : List Nat := whole (4 * 24 * 4 * 3)
def kIwAtOmegas (n : Nat) : List Nat := (iwLoop n).all
def kTetraFreqs (ngp nb : Nat) : List Nat := for1 ngp fun i => (tetraFreqLoop ngp nb i).all
def kDos (nir nb nf nc : Nat) : List Nat := (dosLoop nir nb nf nc).all

/-! ## the pragma inventory this model was written against (`tools/pragmas.py`, `canonical`, field `key`)

Canonical form: file | external-linkage functions that reach the loop | directive | loop bound and `if` clause with
the parameters of the nearest external-linkage callers named by position (`P<k>`; static helpers are inlined along every
call chain, single-assignment locals substituted, products folded and sorted; loop variable `V`, macros resolved;
`collapse(n)` over a perfect nest counts as the flattened loop over the product of the bounds; `schedule(...)` is not part of
the key; the `if` entry is the conjunction of the OpenMP `if` clause and the plain-flag C `if (flag)` blocks enclosing the pragma) | other clauses |
non-private function-scope locals written inside the parallel region (a race: must be empty) | shared objects written
inside the region, followed through calls into helpers: pointer parameters by position, heap temporaries by element
type and element count.  Names of static functions and of locals, `private(...)` lists versus declarations inside the
loop body, statement order and index expressions are *not* part of it (index expressions are tied to the model by the
sentinel/guard footprint runs). -/
def inventory : List String := [
  "c/_phonopy.cpp|py_thm_integration_weight_at_omegas|parallel for|V < P1.shape(0)|if()||shared-locals[]|writes[param:0]",
  "c/derivative_dynmat.c|ddm_get_derivative_dynmat_at_q,phpy_get_derivative_dynmat_at_q,py_get_derivative_dynmat|parallel for|V < P1 * P1|if(P17)||shared-locals[]|writes[param:0]",
  "c/dynmat.c|dym_dynamical_matrices_with_dd_openmp_over_qpoints,dym_get_dynamical_matrix_at_q,phpy_dynamical_matrices_with_dd_openmp_over_qpoints,py_get_dynamical_matrices_with_dd_openmp_over_qpoints|parallel for|V < P1 * P1|if(P11)||shared-locals[]|writes[param:0]",
  "c/dynmat.c|dym_dynamical_matrices_with_dd_openmp_over_qpoints,dym_get_recip_dipole_dipole,dym_get_recip_dipole_dipole_q0,phpy_dynamical_matrices_with_dd_openmp_over_qpoints,phpy_get_recip_dipole_dipole,phpy_get_recip_dipole_dipole_q0,py_get_dynamical_matrices_with_dd_openmp_over_qpoints,py_get_recip_dipole_dipole,py_get_recip_dipole_dipole_q0|parallel for|V < P2/P3|if(P13/P9)||shared-locals[]|writes[temp:double[3][3]:P2/P3]",
  "c/dynmat.c|dym_dynamical_matrices_with_dd_openmp_over_qpoints,dym_get_recip_dipole_dipole,dym_get_recip_dipole_dipole_q0,phpy_dynamical_matrices_with_dd_openmp_over_qpoints,phpy_get_recip_dipole_dipole,phpy_get_recip_dipole_dipole_q0,py_get_dynamical_matrices_with_dd_openmp_over_qpoints,py_get_recip_dipole_dipole,py_get_recip_dipole_dipole_q0|parallel for|V < P3 * P3/P4 * P4|if(P13/P9)||shared-locals[]|writes[param:0,temp:double[2]:9 * P3 * P3]",
  "c/dynmat.c|dym_dynamical_matrices_with_dd_openmp_over_qpoints,phpy_dynamical_matrices_with_dd_openmp_over_qpoints,py_get_dynamical_matrices_with_dd_openmp_over_qpoints|parallel for|V < P2|if()||shared-locals[]|writes[param:0]",
  "c/dynmat.c|dym_dynamical_matrices_with_dd_openmp_over_qpoints,phpy_dynamical_matrices_with_dd_openmp_over_qpoints,py_get_dynamical_matrices_with_dd_openmp_over_qpoints|parallel for|V < P2|if(P21)||shared-locals[]|writes[param:0]",
  "c/dynmat.c|dym_transform_dynmat_to_fc,phpy_transform_dynmat_to_fc,py_transform_dynmat_to_fc|parallel for|V < P8 * P9|if(P10)||shared-locals[]|writes[param:0]",
  "c/phonopy.c|phpy_get_tetrahedra_frequenies,py_get_tetrahedra_frequenies|parallel for|V < 96 * P7|if()||shared-locals[]|writes[param:0]",
  "c/phonopy.c|phpy_get_thermal_properties,py_get_thermal_properties|parallel for|V < P5|if()||shared-locals[]|writes[temp:double:3 * P4 * P5]",
  "c/phonopy.c|phpy_tetrahedron_method_dos,py_tetrahedron_method_dos|parallel for|V < P9|if()||shared-locals[]|writes[param:0]"
]

/-! ## heap temporaries of the kernels

Every `malloc`/`calloc` of `/repo/c` (`mallocInventory`, recomputed by `tools/pragmas.py` on every run: file,
external-linkage functions reaching it, element type, element count with parameters by position) with the index set the kernel uses on it as a function
of the shape parameters and index tables.  `Temp.InBounds`: every access index is below the allocated
element count. -/

structure Temp where
  size : Nat            -- allocated element count (the `malloc` expression of the C text)
  accesses : List Nat   -- element indices read or written

def Temp.InBounds (t : Temp) : Prop := ∀ x ∈ t.accesses, x < t.size
def Temp.inBoundsB (t : Temp) : Bool := t.accesses.all fun x => decide (x < t.size)

/-- phonopy.c distribute_fc2: `atom_list_reverse = malloc(sizeof(int) * num_pos)`, written at
`atom_done = map_atoms[atom_list[i]]` when that equals `atom_list[i]`, read at `map_atoms[atom_list[i]]` otherwise:
indexed by *supercell atom*, not by position in `atom_list`. -/
def tAtomListReverse (npos len : Nat) (atomList mapAtoms : Nat → Nat) : Temp where
  size := npos
  accesses := for1 len fun i => [mapAtoms (atomList i)]

/-- phonopy.c set_index_permutation_symmetry_compact_fc: `done = malloc(sizeof(char) * n_satom * n_patom)`,
cells `i_p*n_satom + j` and `j_p*n_satom + i_trans` with `j_p = s2pp[j]`, `i_trans = perms[nsym_list[j]*n_satom + p2s[i_p]]` -/
def tDone (ns np : Nat) (s2pp : Nat → Nat) (itrans : Nat → Nat → Nat) : Temp where
  size := ns * np
  accesses := for2 ns np fun j ip => [ip * ns + j, s2pp j * ns + itrans j ip]

/-- dynmat.c get_dynmat_want: `charge_sum = malloc(sizeof(double[3][3]) * np * np)`, cell `[i*np + j][a][b]` (in doubles) -/
def tChargeSum (np : Nat) : Temp where
  size := np * np * 9
  accesses := for2 np np fun i j => for2 3 3 fun a b => [(i * np + j) * 9 + a * 3 + b]

/-- dynmat.c dym_get_charge_sum: `q_born = malloc(sizeof(double[3]) * np)` -/
def tQBorn (np : Nat) : Temp where
  size := np * 3
  accesses := for2 np 3 fun i j => [i * 3 + j]

/-- derivative_dynmat.c: `ddnac = malloc(sizeof(double) * np*np*27)`, index `k*np*np*9 + i*9*np + j*9 + l*3 + m` -/
def tDdnac (np : Nat) : Temp where
  size := np * np * 27
  accesses := for3 3 np np fun k i j => for2 3 3 fun l m => [k * np * np * 9 + i * 9 * np + j * 9 + l * 3 + m]

/-- derivative_dynmat.c: `dnac = malloc(sizeof(double) * np*np*9)`, index `i*9*np + j*9 + l*3 + m` -/
def tDnac (np : Nat) : Temp where
  size := np * np * 9
  accesses := for2 np np fun i j => for2 3 3 fun l m => [i * 9 * np + j * 9 + l * 3 + m]

/-- dynmat.c dd / dd_tmp / dd_tmp1 / dd_tmp2: `malloc(sizeof(double[2]) * np*np*9)`, complex cell
`i*np*9 + k*np*3 + j*3 + l` (in doubles: the cells of `bornsLoop`) -/
def tDdTmp (np : Nat) : Temp where
  size := 2 * (np * np * 9)
  accesses := (bornsLoop np).all

/-- dynmat.c get_dd: `KK = malloc(sizeof(double[3][3]) * num_G)` (in doubles) -/
def tKK (nG : Nat) : Temp where
  size := nG * 9
  accesses := (ddKKLoop nG).all

/-- phonopy.c thermal properties: `tp = malloc(sizeof(double) * nq*nt*3)`: the loop cells and the reduction reads `i*nt*3 + j` -/
def tTp (nq nt : Nat) : Temp where
  size := nq * nt * 3
  accesses := (thermalLoop nq nt).all ++ for2 nq (nt * 3) fun i j => [i * nt * 3 + j]

/-- phonopy.c smallest vectors: `length`, `vec` = `malloc(… * num_lattice_points)`, index `k < num_lattice_points` (vec in doubles) -/
def tGsvLength (nlp : Nat) : Temp where
  size := nlp
  accesses := whole nlp
def tGsvVec (nlp : Nat) : Temp where
  size := nlp * 3
  accesses := for2 nlp 3 fun k l => [k * 3 + l]

/-- phonopy.c tetrahedron_method_dos: `gp2ir = malloc(int64 * num_gp)` indexed by grid point `i`, by
`grid_mapping_table[i]` and by the grid index of a neighbour (`gidx`, a residue modulo the mesh) -/
def tGp2ir (ngp : Nat) (gmt : Nat → Nat) (neigh : List Nat) : Temp where
  size := ngp
  accesses := (for1 ngp fun i => [i, gmt i]) ++ neigh

/-- `ir_grid_points`, `weights` = `malloc(int64 * num_ir_gp)`: written at `count` = number of fixed points of
`grid_mapping_table` seen so far, `weights` also at `gp2ir[i]` -/
def tIrGridPoints (nir ngp : Nat) (gmt : Nat → Nat) : Temp where
  size := nir
  accesses := for1 ngp fun i => if gmt i = i then [((List.range i).filter fun k => gmt k = k).length] else []

def mallocInventory : List String := [
  "c/derivative_dynmat.c|ddm_get_derivative_dynmat_at_q,phpy_get_derivative_dynmat_at_q,py_get_derivative_dynmat|double|27 * P1 * P1",
  "c/derivative_dynmat.c|ddm_get_derivative_dynmat_at_q,phpy_get_derivative_dynmat_at_q,py_get_derivative_dynmat|double|9 * P1 * P1",
  "c/dynmat.c|dym_dynamical_matrices_with_dd_openmp_over_qpoints,dym_get_charge_sum,phpy_dynamical_matrices_with_dd_openmp_over_qpoints,phpy_get_charge_sum,py_get_dynamical_matrices_with_dd_openmp_over_qpoints|double[3]|P1",
  "c/dynmat.c|dym_dynamical_matrices_with_dd_openmp_over_qpoints,dym_get_recip_dipole_dipole,dym_get_recip_dipole_dipole_q0,phpy_dynamical_matrices_with_dd_openmp_over_qpoints,phpy_get_recip_dipole_dipole,phpy_get_recip_dipole_dipole_q0,py_get_dynamical_matrices_with_dd_openmp_over_qpoints,py_get_recip_dipole_dipole,py_get_recip_dipole_dipole_q0|double[3][3]|P2/P3",
  "c/dynmat.c|dym_dynamical_matrices_with_dd_openmp_over_qpoints,dym_get_recip_dipole_dipole,phpy_dynamical_matrices_with_dd_openmp_over_qpoints,phpy_get_recip_dipole_dipole,py_get_dynamical_matrices_with_dd_openmp_over_qpoints,py_get_recip_dipole_dipole|double[2]|9 * P4 * P4",
  "c/dynmat.c|dym_dynamical_matrices_with_dd_openmp_over_qpoints,phpy_dynamical_matrices_with_dd_openmp_over_qpoints,py_get_dynamical_matrices_with_dd_openmp_over_qpoints|double[2]|9 * P7 * P7",
  "c/dynmat.c|dym_dynamical_matrices_with_dd_openmp_over_qpoints,phpy_dynamical_matrices_with_dd_openmp_over_qpoints,py_get_dynamical_matrices_with_dd_openmp_over_qpoints|double[3][3]|P7 * P7",
  "c/dynmat.c|dym_dynamical_matrices_with_dd_openmp_over_qpoints,phpy_dynamical_matrices_with_dd_openmp_over_qpoints,py_get_dynamical_matrices_with_dd_openmp_over_qpoints|double|3",
  "c/dynmat.c|dym_get_recip_dipole_dipole_q0,phpy_get_recip_dipole_dipole_q0,py_get_recip_dipole_dipole_q0|double[2]|9 * P3 * P3",
  "c/dynmat.c|dym_get_recip_dipole_dipole_q0,phpy_get_recip_dipole_dipole_q0,py_get_recip_dipole_dipole_q0|double[2]|9 * P3 * P3",
  "c/phonopy.c|phpy_distribute_fc2,py_distribute_fc2|int|P9",
  "c/phonopy.c|phpy_get_thermal_properties,py_get_thermal_properties|double|3 * P4 * P5",
  "c/phonopy.c|phpy_perm_trans_symmetrize_compact_fc,phpy_set_index_permutation_symmetry_compact_fc,py_perm_trans_symmetrize_compact_fc,py_transpose_compact_fc|char|P5 * P6",
  "c/phonopy.c|phpy_set_smallest_vectors_dense,py_gsv_set_smallest_vectors_dense|double[3]|P7",
  "c/phonopy.c|phpy_set_smallest_vectors_dense,py_gsv_set_smallest_vectors_dense|double|P7",
  "c/phonopy.c|phpy_set_smallest_vectors_sparse,py_gsv_set_smallest_vectors_sparse|double[3]|P7",
  "c/phonopy.c|phpy_set_smallest_vectors_sparse,py_gsv_set_smallest_vectors_sparse|double|P7",
  "c/phonopy.c|phpy_tetrahedron_method_dos,py_tetrahedron_method_dos|int64_t|P12",
  "c/phonopy.c|phpy_tetrahedron_method_dos,py_tetrahedron_method_dos|int64_t|P9",
  "c/phonopy.c|phpy_tetrahedron_method_dos,py_tetrahedron_method_dos|int64_t|P9"
]

end PhononModel.Footprint
