import PhononModel.Model.Basic
/-!
Model of the point-group / reciprocal-space operation lists (property C03, point-group clause).

Source anchors (tied by the correspondence run of `./check C03`):
* `structure/symmetry.py: collect_unique_rotations`        ↦ `collectUnique`
* `structure/symmetry.py: get_pointgroup_operations`       ↦ `pointgroupOps`
  (`Symmetry.pointgroup_operations` is its first, `Symmetry.reciprocal_operations` — used as `q' = R q` —
  its second component)
-/
namespace PhononModel.RecipOps

/-- integer 3×3 matrix (`rot[i][j]`) -/
abbrev M3 := Fin 3 → Fin 3 → Int

def M3.beq (a b : M3) : Bool :=
  (List.finRange 3).all fun i => (List.finRange 3).all fun j => a i j == b i j
/-- `rot.T` -/
def M3.transpose (a : M3) : M3 := fun i j => a j i
/-- `-rot` -/
def M3.neg (a : M3) : M3 := fun i j => -a i j
/-- `-np.eye(3)` -/
def M3.negOne : M3 := fun i j => if i = j then -1 else 0

/-- `collect_unique_rotations`: first occurrences, in order -/
def collectUnique (rots : List M3) : List M3 :=
  rots.foldl (fun acc r => if acc.any (fun t => M3.beq t r) then acc else acc ++ [r]) []

/-- `get_pointgroup_operations(rotations, is_time_reversal)` → `(ptg_ops, reciprocal_rotations)` -/
def pointgroupOps (rots : List M3) (tr : Bool) : List M3 × List M3 :=
  let p := collectUnique rots
  let rr := p.map M3.transpose
  (p, if tr && !(p.any fun r => M3.beq r M3.negOne) then rr ++ p.map (fun r => M3.neg (M3.transpose r)) else rr)

end PhononModel.RecipOps
