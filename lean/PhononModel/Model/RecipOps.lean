import PhononModel.Model.Basic
/-!
Model of the point-group / reciprocal-space operation lists (property C03, point-group clause).

Source anchors (tied by the correspondence run of `./check C03`):
* `structure/symmetry.py: collect_unique_rotations`        ↦ `collectUnique`
* `structure/symmetry.py: get_pointgroup_operations`       ↦ `pointgroupOps`
  (`Symmetry.pointgroup_operations` is its first, `Symmetry.reciprocal_operations` — used as `q' = R q` —
  its second component)
-/
namespace PhononModel.RecipOps

/-- integer 3×3 matrix (`rot[i][j]`) -/
abbrev M3 := Fin 3 → Fin 3 → Int

def M3.beq (a b : M3) : Bool :=
  a 0 0 == b 0 0 && a 0 1 == b 0 1 && a 0 2 == b 0 2 &&
  a 1 0 == b 1 0 && a 1 1 == b 1 1 && a 1 2 == b 1 2 &&
  a 2 0 == b 2 0 && a 2 1 == b 2 1 && a 2 2 == b 2 2
/-- `rot.T` -/
def M3.transpose (a : M3) : M3 := fun i j => a j i
/-- `-rot` -/
def M3.neg (a : M3) : M3 := fun i j => -a i j
/-- `-np.eye(3)` -/
def M3.negOne : M3 := fun i j => if i = j then -1 else 0

/-- `np.eye(3)` -/
def M3.one : M3 := fun i j => if i = j then 1 else 0
/-- `np.dot(a, b)` -/
def M3.mul (a b : M3) : M3 := fun i j => a i 0 * b 0 j + a i 1 * b 1 j + a i 2 * b 2 j

/-- `collect_unique_rotations`: first occurrences, in order -/
def collectUnique (rots : List M3) : List M3 :=
  rots.foldl (fun acc r => if acc.any (fun t => M3.beq t r) then acc else acc ++ [r]) []

/-- `get_pointgroup_operations(rotations, is_time_reversal)` → `(ptg_ops, reciprocal_rotations)` -/
def pointgroupOps (rots : List M3) (tr : Bool) : List M3 × List M3 :=
  let p := collectUnique rots
  let rr := p.map M3.transpose
  (p, if tr && !(p.any fun r => M3.beq r M3.negOne) then rr ++ p.map (fun r => M3.neg (M3.transpose r)) else rr)

/-- the nine entries as data (a function-valued matrix recomputes its entries at every access) -/
def M3.toArr (a : M3) : Array Int := #[a 0 0, a 0 1, a 0 2, a 1 0, a 1 1, a 1 2, a 2 0, a 2 1, a 2 2]

/-- Executable certificate: the rotation list is the element list of a matrix group
(contains the identity, closed under products, every element has a two-sided inverse in the list). -/
def isGroupOk (rots : List M3) : Bool :=
  let arrs := rots.map M3.toArr
  let one := M3.toArr M3.one
  arrs.contains one &&
  (rots.all fun a => rots.all fun b => arrs.contains (M3.toArr (M3.mul a b))) &&
  (rots.all fun a => rots.any fun b => M3.toArr (M3.mul a b) == one && M3.toArr (M3.mul b a) == one)

end PhononModel.RecipOps
