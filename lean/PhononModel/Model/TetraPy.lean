import PhononModel.Model.Basic
/-!
# The Python tetrahedron method (property C11), hand-written model

Source anchors (`phonopy/structure/tetrahedron_method.py`, class `TetrahedronMethod`):
`_f` ↦ `f`; `_n_0.._n_4` ↦ `n_0..n_4`; `_g_0.._g_4` ↦ `g_0..g_4`; `_J_0, _J_10.._J_33, _J_4` ↦ `J_*`;
`_I_0, _I_10.._I_33, _I_4` ↦ `I_*`; the dispatchers `_n/_g/_J/_I` ↦ `n/g/J/I` (their `RuntimeError` branches are
unreachable: the interval index is one of 0..4 and the position of the central vertex one of 0..3 — typed as
`Fin 5`, `Fin 4` here); `np.argsort(..., axis=1)` on four values (insertion sort, stable) ↦ `argsort`;
`_get_integration_weight_py` ↦ `tetraContribution` / `integrationWeight`.

Scalars are a type parameter. The driver instantiates it with *checked* rationals (division by zero yields an
absorbing error value), so that "Python divides by zero here (IEEE inf/nan arithmetic follows)" is reported as
outside the model rather than computed with a totalised division.

`closed = false` is the interval selection of the pinned code (`v[i] < ω and ω < v[i+1]`: a frequency equal to a
vertex value selects no interval, the tetrahedron contributes 0); `closed = true` is the selection of
`proposed_fixes/c11-interval-closed.diff` (`ω <= v[0]` ↦ below; `v[0] < ω < v[1]`; `v[i] <= ω < v[i+1]` for i = 1, 2;
`v[3] <= ω` ↦ above: every frequency selects exactly one branch and no branch divides by zero).
-/
namespace PhononModel.TetraPy

variable {α : Type} [Add α] [Sub α] [Mul α] [Div α] [NatCast α] [LT α] [DecidableRel (fun a b : α => a < b)]

section formulas
variable (ω : α) (v : Fin 4 → α)

def f (n m : Fin 4) : α := (ω - v m) / (v n - v m)

def n_0 : α := ((0 : Nat) : α)
def n_1 : α := f ω v 1 0 * f ω v 2 0 * f ω v 3 0
def n_2 : α := f ω v 3 1 * f ω v 2 1 + f ω v 3 0 * f ω v 1 3 * f ω v 2 1 + f ω v 3 0 * f ω v 2 0 * f ω v 1 2
def n_3 : α := ((1 : Nat) : α) - f ω v 0 3 * f ω v 1 3 * f ω v 2 3
def n_4 : α := ((1 : Nat) : α)

def g_0 : α := ((0 : Nat) : α)
def g_1 : α := ((3 : Nat) : α) * f ω v 1 0 * f ω v 2 0 / (v 3 - v 0)
def g_2 : α := ((3 : Nat) : α) / (v 3 - v 0) * (f ω v 1 2 * f ω v 2 0 + f ω v 2 1 * f ω v 1 3)
def g_3 : α := ((3 : Nat) : α) * f ω v 1 3 * f ω v 2 3 / (v 3 - v 0)
def g_4 : α := ((0 : Nat) : α)

def J_0 : α := ((0 : Nat) : α)
def J_10 : α := (((1 : Nat) : α) + f ω v 0 1 + f ω v 0 2 + f ω v 0 3) / ((4 : Nat) : α)
def J_11 : α := f ω v 1 0 / ((4 : Nat) : α)
def J_12 : α := f ω v 2 0 / ((4 : Nat) : α)
def J_13 : α := f ω v 3 0 / ((4 : Nat) : α)
def J_20 : α :=
  (f ω v 3 1 * f ω v 2 1 + f ω v 3 0 * f ω v 1 3 * f ω v 2 1 * (((1 : Nat) : α) + f ω v 0 3)
    + f ω v 3 0 * f ω v 2 0 * f ω v 1 2 * (((1 : Nat) : α) + f ω v 0 3 + f ω v 0 2)) / ((4 : Nat) : α) / n_2 ω v
def J_21 : α :=
  (f ω v 3 1 * f ω v 2 1 * (((1 : Nat) : α) + f ω v 1 3 + f ω v 1 2)
    + f ω v 3 0 * f ω v 1 3 * f ω v 2 1 * (f ω v 1 3 + f ω v 1 2)
    + f ω v 3 0 * f ω v 2 0 * f ω v 1 2 * f ω v 1 2) / ((4 : Nat) : α) / n_2 ω v
def J_22 : α :=
  (f ω v 3 1 * f ω v 2 1 * f ω v 2 1 + f ω v 3 0 * f ω v 1 3 * f ω v 2 1 * f ω v 2 1
    + f ω v 3 0 * f ω v 2 0 * f ω v 1 2 * (f ω v 2 1 + f ω v 2 0)) / ((4 : Nat) : α) / n_2 ω v
def J_23 : α :=
  (f ω v 3 1 * f ω v 2 1 * f ω v 3 1 + f ω v 3 0 * f ω v 1 3 * f ω v 2 1 * (f ω v 3 1 + f ω v 3 0)
    + f ω v 3 0 * f ω v 2 0 * f ω v 1 2 * f ω v 3 0) / ((4 : Nat) : α) / n_2 ω v
/-- `x ** 2` -/
def sq (x : α) : α := x * x
def J_30 : α := (((1 : Nat) : α) - sq (f ω v 0 3) * f ω v 1 3 * f ω v 2 3) / ((4 : Nat) : α) / n_3 ω v
def J_31 : α := (((1 : Nat) : α) - f ω v 0 3 * sq (f ω v 1 3) * f ω v 2 3) / ((4 : Nat) : α) / n_3 ω v
def J_32 : α := (((1 : Nat) : α) - f ω v 0 3 * f ω v 1 3 * sq (f ω v 2 3)) / ((4 : Nat) : α) / n_3 ω v
def J_33 : α :=
  (((1 : Nat) : α) - f ω v 0 3 * f ω v 1 3 * f ω v 2 3 * (((1 : Nat) : α) + f ω v 3 0 + f ω v 3 1 + f ω v 3 2))
    / ((4 : Nat) : α) / n_3 ω v
def J_4 : α := ((1 : Nat) : α) / ((4 : Nat) : α)

def I_0 : α := ((0 : Nat) : α)
def I_10 : α := (f ω v 0 1 + f ω v 0 2 + f ω v 0 3) / ((3 : Nat) : α)
def I_11 : α := f ω v 1 0 / ((3 : Nat) : α)
def I_12 : α := f ω v 2 0 / ((3 : Nat) : α)
def I_13 : α := f ω v 3 0 / ((3 : Nat) : α)
/-- the common denominator of `_I_2x` -/
def gden : α := f ω v 1 2 * f ω v 2 0 + f ω v 2 1 * f ω v 1 3
def I_20 : α := (f ω v 0 3 + f ω v 0 2 * f ω v 2 0 * f ω v 1 2 / gden ω v) / ((3 : Nat) : α)
def I_21 : α := (f ω v 1 2 + sq (f ω v 1 3) * f ω v 2 1 / gden ω v) / ((3 : Nat) : α)
def I_22 : α := (f ω v 2 1 + sq (f ω v 2 0) * f ω v 1 2 / gden ω v) / ((3 : Nat) : α)
def I_23 : α := (f ω v 3 0 + f ω v 3 1 * f ω v 1 3 * f ω v 2 1 / gden ω v) / ((3 : Nat) : α)
def I_30 : α := f ω v 0 3 / ((3 : Nat) : α)
def I_31 : α := f ω v 1 3 / ((3 : Nat) : α)
def I_32 : α := f ω v 2 3 / ((3 : Nat) : α)
def I_33 : α := (f ω v 3 0 + f ω v 3 1 + f ω v 3 2) / ((3 : Nat) : α)
def I_4 : α := ((0 : Nat) : α)

def n (i : Fin 5) : α :=
  match i with
  | 0 => n_0
  | 1 => n_1 ω v
  | 2 => n_2 ω v
  | 3 => n_3 ω v
  | 4 => n_4

def g (i : Fin 5) : α :=
  match i with
  | 0 => g_0
  | 1 => g_1 ω v
  | 2 => g_2 ω v
  | 3 => g_3 ω v
  | 4 => g_4

def J (i : Fin 5) (ci : Fin 4) : α :=
  match i, ci with
  | 0, _ => J_0
  | 1, 0 => J_10 ω v
  | 1, 1 => J_11 ω v
  | 1, 2 => J_12 ω v
  | 1, 3 => J_13 ω v
  | 2, 0 => J_20 ω v
  | 2, 1 => J_21 ω v
  | 2, 2 => J_22 ω v
  | 2, 3 => J_23 ω v
  | 3, 0 => J_30 ω v
  | 3, 1 => J_31 ω v
  | 3, 2 => J_32 ω v
  | 3, 3 => J_33 ω v
  | 4, _ => J_4

def I (i : Fin 5) (ci : Fin 4) : α :=
  match i, ci with
  | 0, _ => I_0
  | 1, 0 => I_10 ω v
  | 1, 1 => I_11 ω v
  | 1, 2 => I_12 ω v
  | 1, 3 => I_13 ω v
  | 2, 0 => I_20 ω v
  | 2, 1 => I_21 ω v
  | 2, 2 => I_22 ω v
  | 2, 3 => I_23 ω v
  | 3, 0 => I_30 ω v
  | 3, 1 => I_31 ω v
  | 3, 2 => I_32 ω v
  | 3, 3 => I_33 ω v
  | 4, _ => I_4

end formulas

/-! ### choice of the main diagonal

`_get_relative_grid_addresses_from_microzone_lattice` (`np.argmin` of the squared lengths of `a+b+c, -a+b+c, a-b+c,
a+b-c`, columns of the microzone lattice) and `c/tetrahedron_method.c: get_main_diagonal` (strict `>` keeps the first
minimum). `TetrahedronMethod.__init__` forms the microzone lattice as `primitive_vectors / mesh`: column `j` divided by
`mesh[j]`. -/

def diagLen2 (L : Fin 3 → Fin 3 → α) (sa sb sc : Bool) : α :=
  let sg : Bool → α → α := fun s x => if s then ((0 : Nat) : α) - x else x
  let comp : Fin 3 → α := fun i => sg sa (L i 0) + sg sb (L i 1) + sg sc (L i 2)
  comp 0 * comp 0 + comp 1 * comp 1 + comp 2 * comp 2

/-- squared lengths of the four main diagonals -/
def diagLens (L : Fin 3 → Fin 3 → α) : Fin 4 → α := fun d =>
  match d with
  | 0 => diagLen2 L false false false
  | 1 => diagLen2 L true false false
  | 2 => diagLen2 L false true false
  | 3 => diagLen2 L false false true

/-- index of the first shortest main diagonal -/
def mainDiagonal (L : Fin 3 → Fin 3 → α) : Fin 4 :=
  let l := diagLens L
  let b1 : Fin 4 := if l 1 < l 0 then 1 else 0
  let b2 : Fin 4 := if l 2 < l b1 then 2 else b1
  if l 3 < l b2 then 3 else b2

/-- microzone lattice of `TetrahedronMethod(primitive_vectors, mesh)` -/
def microzone (P : Fin 3 → Fin 3 → α) (mesh : Fin 3 → α) : Fin 3 → Fin 3 → α := fun i j => P i j / mesh j

/-! ### ordering: `np.argsort` of four values (stable) -/

def insertIdx (v : Fin 4 → α) (k : Fin 4) : List (Fin 4) → List (Fin 4)
  | [] => [k]
  | j :: rest => if v k < v j then k :: j :: rest else j :: insertIdx v k rest

def argsort (v : Fin 4 → α) : List (Fin 4) :=
  insertIdx v 3 (insertIdx v 2 (insertIdx v 1 (insertIdx v 0 [])))

/-- position of `c` in the list (`np.where(indices == ci)[0][0]`) -/
def posOf (c : Fin 4) : List (Fin 4) → Nat
  | [] => 0
  | j :: rest => if j = c then 0 else posOf c rest + 1

/-- which of the five branches of `_get_integration_weight_py` is taken; `none`: no branch (ω equals a vertex
value in the pinned code) -/
def interval (closed : Bool) (ω : α) (s : Fin 4 → α) : Option (Fin 5) :=
  if closed then
    (if ¬ (s 0 < ω) then some 0
     else if s 0 < ω ∧ ω < s 1 then some 1
     else if ¬ (ω < s 1) ∧ ω < s 2 then some 2
     else if ¬ (ω < s 2) ∧ ω < s 3 then some 3
     else if ¬ (ω < s 3) then some 4
     else none)
  else
    (if ω < s 0 then some 0
     else if s 0 < ω ∧ ω < s 1 then some 1
     else if s 1 < ω ∧ ω < s 2 then some 2
     else if s 2 < ω ∧ ω < s 3 then some 3
     else if s 3 < ω then some 4
     else none)

/-- contribution of one tetrahedron: `IJ(i, pos) * gn(i)` for the selected interval, 0 if none is selected.
`valueI = true` is `value='I'` (density), `false` is `'J'` (cumulative). -/
def tetraContribution (valueI closed : Bool) (ω : α) (v : Fin 4 → α) (central : Fin 4) : α :=
  let idx := argsort v
  let s : Fin 4 → α := fun p => v (idx.getD p.1 0)
  let p := posOf central idx
  let ci : Fin 4 := if h : p < 4 then ⟨p, h⟩ else 0
  match interval closed ω s with
  | none => ((0 : Nat) : α)
  | some i => if valueI then I ω s i ci * g ω s i else J ω s i ci * n ω s i

/-- `_get_integration_weight_py`: sum over the 24 tetrahedra, divided by 6 -/
def integrationWeight (valueI closed : Bool) (ω : α) (tet : Fin 24 → Fin 4 → α) (central : Fin 24 → Fin 4) : α :=
  (List.finRange 24).foldl (fun acc t => acc + tetraContribution valueI closed ω (tet t) (central t)) ((0 : Nat) : α)
    / ((6 : Nat) : α)

end PhononModel.TetraPy
