import PhononModel.Model.Mat3
/-!
# Model of the shortest-vector search  (C05)

Source anchors ↦ model definitions
* `ShortestPairs._transform_cell_basis`: `lattice_4D · bases`, `np.unique(axis=0)` ↦ `window65`
  (the 65 lattice points, lexicographically sorted)
* `c/phonopy.c: phpy_set_smallest_vectors_dense / _sparse`, inner part for one pair
  (`vec[k] = pos_to − pos_from + lattice_points[k]`, `length[k]`, `minimum`, the filter
  `length[k] − minimum < symprec`, transformation by `trans_mat`) ↦ `pairShortest`, `implShortest`
* dense two-pass driver (`initialize = 1` counts and addresses, `initialize = 0` fills) ↦ `denseRun`
* sparse driver (27 slots per pair, `count > 27` ⇒ warning and `break`) ↦ `sparseRun`
* `dense_to_sparse_svecs`, `sparse_to_dense_svecs` (cells.py) ↦ `denseToSparse`, `sparseToDense`
* the specification: minimum over **all** lattice images ↦ `specShortest`, a minimum over the finite
  box `boxPoints G d` whose size is computed from the Gram matrix; `Props/C05.lean: box_complete`
  proves that no image outside the box can be as short.

Everything is over `Rat` with **squared** lengths `len2 G x = x·G·xᵀ`, `G` the Gram matrix of the
reduced basis (the C code multiplies by the basis and takes `sqrt`; only `G` enters the comparison).
The tolerance rule `length[k] − minimum < symprec` is modelled as equality of squared lengths;
generated cases keep distinct lengths ≥ 1e-3 apart.
-/
namespace PhononModel.ShortestPairs
open PhononModel

/-- squared length of the vector with reduced fractional coordinates `x` -/
def len2 (G : M3 Rat) (x : V3 Rat) : Rat := V3.dot x (G.mulVec x)

/-! ### the 65-point window -/

def lattice1D : List Int := [-1, 0, 1]

/-- rows of `np.dot(lattice_4D, [[1,0,0],[0,1,0],[0,0,1],[-1,-1,-1]])` in generation order -/
def window81 : List (V3 Int) :=
  lattice1D.flatMap fun i => lattice1D.flatMap fun j => lattice1D.flatMap fun k => lattice1D.map fun l =>
    (⟨i - l, j - l, k - l⟩ : V3 Int)

def lexLe (a b : V3 Int) : Bool :=
  a.x < b.x || (a.x == b.x && (a.y < b.y || (a.y == b.y && a.z ≤ b.z)))

def insertLex (a : V3 Int) : List (V3 Int) → List (V3 Int)
  | [] => [a]
  | b :: l => if a == b then b :: l else if lexLe a b then a :: b :: l else b :: insertLex a l

/-- `np.unique(lattice_points, axis=0)`: distinct rows, lexicographically sorted -/
def window65 : List (V3 Int) := window81.foldr insertLex []

/-! ### one pair -/

def minList : List Rat → Option Rat
  | [] => none
  | a :: l => some (l.foldl (fun m x => if x < m then x else m) a)

/-- images `d + p` over the search points that attain the minimum squared length -/
def pairShortest (G : M3 Rat) (d : V3 Rat) (pts : List (V3 Int)) : List (V3 Rat) :=
  let vecs := pts.map (fun p => d + p.toRat)
  match minList (vecs.map (len2 G)) with
  | none => []
  | some m => vecs.filter (fun v => len2 G v == m)

/-- transformation back to supercell coordinates: `vec_xyz[l] = Σ_m trans_mat[l][m]·vec[m]` -/
def backTransform (T : M3 Int) (v : V3 Rat) : V3 Rat := (intToRat T).mulVec v

/-- what the kernels store for the pair `(to, from)` -/
def implShortest (G : M3 Rat) (T : M3 Int) (pts : List (V3 Int)) (pto pfrom : V3 Rat) : List (V3 Rat) :=
  (pairShortest G (pto - pfrom) pts).map (backTransform T)

/-! ### the tolerance rule of the kernels, exactly

`length[k] − minimum < symprec` compares **lengths**.  With squared lengths `l2, m2` (`m2 ≤ l2`) and
`tol > 0` it is `√l2 < √m2 + tol`, i.e. `l2 − m2 − tol² < 2·tol·√m2`, which is decided in `ℚ` without
a square root (`Props/C05.lean: tieWithin_iff_sqrt`). `pairShortest` above is the `tol → 0⁺` limit
(exact ties only); `pairShortestTol` is the rule as coded. -/

def tieWithin (tol m2 l2 : Rat) : Bool :=
  decide (l2 - m2 - tol * tol < 0) ||
    decide ((l2 - m2 - tol * tol) * (l2 - m2 - tol * tol) < 4 * (tol * tol) * m2)

def pairShortestTol (tol : Rat) (G : M3 Rat) (d : V3 Rat) (pts : List (V3 Int)) : List (V3 Rat) :=
  let vecs := pts.map (fun p => d + p.toRat)
  match minList (vecs.map (len2 G)) with
  | none => []
  | some m => vecs.filter (fun v => tieWithin tol m (len2 G v))

def implShortestTol (tol : Rat) (G : M3 Rat) (T : M3 Int) (pts : List (V3 Int)) (pto pfrom : V3 Rat) : List (V3 Rat) :=
  (pairShortestTol tol G (pto - pfrom) pts).map (backTransform T)

/-! ### dense and sparse storage -/

structure Dense where
  /-- `shortest_vectors`, shape `(Σ multiplicity, 3)` -/
  svecs : List (V3 Rat)
  /-- `multiplicity[i][j] = (count, address)`, row-major over `(i, j)` -/
  multi : List (Nat × Nat)
deriving Repr, DecidableEq

def pairs (pto pfrom : List (V3 Rat)) : List (V3 Rat × V3 Rat) :=
  pto.flatMap fun a => pfrom.map fun b => (a, b)

/-- pass 1 (`initialize = 1`): counts and running addresses -/
def densePass1 (G : M3 Rat) (pts : List (V3 Int)) : List (V3 Rat × V3 Rat) → Nat → List (Nat × Nat)
  | [], _ => []
  | (a, b) :: rest, adrs =>
    let count := (pairShortest G (a - b) pts).length
    (count, adrs) :: densePass1 G pts rest (adrs + count)

/-- pass 2 (`initialize = 0`): the vectors, written at `adrs + count` -/
def densePass2 (G : M3 Rat) (T : M3 Int) (pts : List (V3 Int)) : List (V3 Rat × V3 Rat) → List (V3 Rat)
  | [] => []
  | (a, b) :: rest => implShortest G T pts a b ++ densePass2 G T pts rest

def denseRun (G : M3 Rat) (T : M3 Int) (pts : List (V3 Int)) (pto pfrom : List (V3 Rat)) : Dense :=
  { svecs := densePass2 G T pts (pairs pto pfrom), multi := densePass1 G pts (pairs pto pfrom) 0 }

inductive SErr where
  | tooMany   -- "number of shortest vectors is out of range" (count > 27: the kernel prints and breaks)
deriving Repr, DecidableEq

structure Sparse where
  /-- per pair: the 27 slots (unused ones zero) and the multiplicity -/
  cells : List (List (V3 Rat) × Nat)
deriving Repr, DecidableEq

def pad27 (l : List (V3 Rat)) : List (V3 Rat) := l ++ List.replicate (27 - l.length) ⟨0, 0, 0⟩

def sparseCells (G : M3 Rat) (T : M3 Int) (pts : List (V3 Int)) :
    List (V3 Rat × V3 Rat) → Except SErr (List (List (V3 Rat) × Nat))
  | [] => .ok []
  | (a, b) :: rest =>
    if (implShortest G T pts a b).length > 27 then .error .tooMany
    else match sparseCells G T pts rest with
      | .error e => .error e
      | .ok r => .ok ((pad27 (implShortest G T pts a b), (implShortest G T pts a b).length) :: r)

def sparseRun (G : M3 Rat) (T : M3 Int) (pts : List (V3 Int)) (pto pfrom : List (V3 Rat)) : Except SErr Sparse :=
  match sparseCells G T pts (pairs pto pfrom) with
  | .error e => .error e
  | .ok c => .ok { cells := c }

/-- `dense_to_sparse_svecs` -/
def denseToSparse (d : Dense) : Sparse :=
  { cells := d.multi.map fun (m, adrs) => (pad27 ((d.svecs.drop adrs).take m), m) }

/-- `sparse_to_dense_svecs` -/
def sparseToDenseAux : List (List (V3 Rat) × Nat) → Nat → List (V3 Rat) × List (Nat × Nat)
  | [], _ => ([], [])
  | (slots, m) :: rest, adrs =>
    let r := sparseToDenseAux rest (adrs + m)
    (slots.take m ++ r.1, (m, adrs) :: r.2)

def sparseToDense (s : Sparse) : Dense :=
  let r := sparseToDenseAux s.cells 0
  { svecs := r.1, multi := r.2 }

/-! ### the specification: minimum over all lattice images -/

/-- all principal minors positive (the Gram matrix of a basis) -/
def isPD (G : M3 Rat) : Bool :=
  decide (0 < G.a00) && decide (0 < G.a11) && decide (0 < G.a22) &&
  decide (0 < G.a00 * G.a11 - G.a01 * G.a01) && decide (0 < G.a00 * G.a22 - G.a02 * G.a02) &&
  decide (0 < G.a11 * G.a22 - G.a12 * G.a12) && decide (0 < G.det)

def isSymm (G : M3 Rat) : Bool := G.a01 == G.a10 && G.a02 == G.a20 && G.a12 == G.a21

/-- `⌈q⌉ = -⌊-q⌋` -/
def ceilR (q : Rat) : Int := -((-q).floor)

/-- smallest natural `R` with `c ≤ R²` -/
def sqrtCeil (c : Nat) : Nat := if Nat.sqrt c * Nat.sqrt c = c then Nat.sqrt c else Nat.sqrt c + 1

/-- `R_i`: `ρ²·adj(G)_ii / det G ≤ R_i²` — a bound for `|d_i + n_i|` over images no longer than `ρ` -/
def radius (G : M3 Rat) (rho2 : Rat) (aii : Rat) : Nat := sqrtCeil (ceilR (rho2 * aii / G.det)).toNat

/-- integers `n` with `-R ≤ x + n ≤ R` -/
def range1 (R : Nat) (x : Rat) : List Int :=
  let lo : Int := ceilR (-(R : Rat) - x)
  let hi : Int := ((R : Rat) - x).floor
  (List.range (hi - lo + 1).toNat).map fun (k : Nat) => lo + (k : Int)

/-- the finite search box of the specification, computed from the Gram matrix and `ρ² = |d|²` -/
def boxPoints (G : M3 Rat) (d : V3 Rat) : List (V3 Int) :=
  let rho2 := len2 G d
  let A := G.adj
  (range1 (radius G rho2 A.a00) d.x).flatMap fun nx =>
    (range1 (radius G rho2 A.a11) d.y).flatMap fun ny =>
      (range1 (radius G rho2 A.a22) d.z).map fun nz => (⟨nx, ny, nz⟩ : V3 Int)

/-- lattice translations `n` for which `d + n` is a shortest image — over the box, hence
(`box_complete`) over all of `ℤ³` -/
def specShortestPoints (G : M3 Rat) (d : V3 Rat) : List (V3 Int) :=
  let box := boxPoints G d
  match minList (box.map (fun n => len2 G (d + n.toRat))) with
  | none => []
  | some m => box.filter (fun n => len2 G (d + n.toRat) == m)

def specShortest (G : M3 Rat) (d : V3 Rat) : List (V3 Rat) :=
  (specShortestPoints G d).map (fun n => d + n.toRat)

/-! ### a per-lattice certificate of window completeness (all separations at once)

Both positions of a pair are reduced into `[-1/2,1/2]³` (`x − rint(x)`), so the separation `d` handed
to the kernels lies in `[-1,1]³`.  `Q(d+n) − Q(d+n−e) = 2·eᵀG(d+n) − Q(e)` is linear in `d`; over a box
`lo ≤ d ≤ hi` it is at least `stepGainBox G n e lo hi`.  If for every lattice point `n` of a finite box
that is not a search point, every `d` of the cube lies in a sub-box (found by bisection up to `depth`)
on which some neighbour step `e` has positive gain, no such `n` is a minimum image for any
separation; points outside the finite box are too long (`Props/C05.lean`). -/

def absR (q : Rat) : Rat := if q < 0 then -q else q
def minR (a b : Rat) : Rat := if a ≤ b then a else b

/-- an upper bound of `len2 G d` over the cube `|d_i| ≤ 1` -/
def cubeRho2 (G : M3 Rat) : Rat :=
  absR G.a00 + absR G.a01 + absR G.a02 + absR G.a10 + absR G.a11 + absR G.a12 + absR G.a20 + absR G.a21 + absR G.a22

def symRange (R : Nat) : List Int := (List.range (2 * R + 1)).map fun (k : Nat) => (k : Int) - (R : Int)

/-- all lattice translations that can give an image no longer than some `d` in the cube `[-1,1]³` -/
def cubeBox (G : M3 Rat) : List (V3 Int) :=
  let rho2 := cubeRho2 G
  let A := G.adj
  (symRange (radius G rho2 A.a00 + 1)).flatMap fun nx =>
    (symRange (radius G rho2 A.a11 + 1)).flatMap fun ny =>
      (symRange (radius G rho2 A.a22 + 1)).map fun nz => (⟨nx, ny, nz⟩ : V3 Int)

def neighbours26 : List (V3 Int) :=
  (lattice1D.flatMap fun i => lattice1D.flatMap fun j => lattice1D.map fun k => (⟨i, j, k⟩ : V3 Int)).filter
    (fun e => e != ⟨0, 0, 0⟩)

/-- lower bound of `Q(d+n) − Q(d+n−e)` over the box `lo ≤ d ≤ hi` -/
def stepGainBox (G : M3 Rat) (n e : V3 Int) (lo hi : V3 Rat) : Rat :=
  let ge := G.mulVec e.toRat
  2 * V3.dot ge n.toRat - V3.dot e.toRat ge +
    (minR (2 * ge.x * lo.x) (2 * ge.x * hi.x) + minR (2 * ge.y * lo.y) (2 * ge.y * hi.y) + minR (2 * ge.z * lo.z) (2 * ge.z * hi.z))

def sgnI (k : Int) : Int := if k < 0 then -1 else if 0 < k then 1 else 0

/-- steps tried for `n`: first the one towards the origin in every coordinate, then all 26 neighbours -/
def stepCandidates (n : V3 Int) : List (V3 Int) := ⟨sgnI n.x, sgnI n.y, sgnI n.z⟩ :: neighbours26

def halves (lo hi : Rat) : List (Rat × Rat) := [(lo, (lo + hi) / 2), ((lo + hi) / 2, hi)]

/-- `n` is beaten by a neighbour everywhere on the box, established by bisection to at most `depth` levels -/
def certPoint (G : M3 Rat) (n : V3 Int) : Nat → V3 Rat → V3 Rat → Bool
  | depth, lo, hi =>
    (stepCandidates n).any (fun e => decide (0 < stepGainBox G n e lo hi)) ||
      match depth with
      | 0 => false
      | k + 1 =>
        (halves lo.x hi.x).all fun bx => (halves lo.y hi.y).all fun by' => (halves lo.z hi.z).all fun bz =>
          certPoint G n k ⟨bx.1, by'.1, bz.1⟩ ⟨bx.2, by'.2, bz.2⟩

def certDepth : Nat := 7

def windowCert (G : M3 Rat) (W : List (V3 Int)) : Bool :=
  (cubeBox G).all fun n => W.contains n || certPoint G n certDepth ⟨-1, -1, -1⟩ ⟨1, 1, 1⟩

/-- the reduction conditions spglib's Niggli reduction aims at (main conditions): ordered diagonal,
`|2 g_ij| ≤ min(g_ii, g_jj)`, off-diagonal entries all positive or all non-positive -/
def wellReduced (G : M3 Rat) : Bool :=
  decide (G.a00 ≤ G.a11) && decide (G.a11 ≤ G.a22) &&
  decide (2 * absR G.a01 ≤ G.a00) && decide (2 * absR G.a02 ≤ G.a00) && decide (2 * absR G.a12 ≤ G.a11) &&
  ((decide (0 < G.a01) && decide (0 < G.a02) && decide (0 < G.a12)) ||
   (decide (G.a01 ≤ 0) && decide (G.a02 ≤ 0) && decide (G.a12 ≤ 0)))

end PhononModel.ShortestPairs
