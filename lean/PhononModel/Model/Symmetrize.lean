import PhononModel.Model.Basic
/-!
Model of the force-constant symmetrisers (property C07).

Source anchors (tied by the correspondence run of `./check C07`, not by proof):
* `c/phonopy.c: phpy_perm_trans_symmetrize_fc`            ↦ `fullSym`
* `c/phonopy.c: set_index_permutation_symmetry_fc`        ↦ `permSym`
* `c/phonopy.c: set_translational_symmetry_fc`            ↦ `transDiag`
* `harmonic/force_constants.py: set_translational_invariance,
   set_permutation_symmetry` (Python fallback)            ↦ `pyFullSym`
* `c/phonopy.c: phpy_set_index_permutation_symmetry_compact_fc` ↦ `transposeC` / `permSymC`
* `c/phonopy.c: phpy_perm_trans_symmetrize_compact_fc`    ↦ `compactSym`
* `c/phonopy.c: set_translational_symmetry_compact_fc`    ↦ `transDiagC`
* `harmonic/force_constants.py: compact_fc_to_full_fc / full_fc_to_compact_fc /
   distribute_force_constants_by_translations`            ↦ `expand` / `compress`

The C loops update in place; each location is written once per pass from values
not yet overwritten (or overwritten with the same value), so each pass is the
closed form below.  That claim is exactly what the correspondence compares.
-/
namespace PhononModel
variable {α : Type} [Add α] [Sub α] [Neg α] [Mul α] [Div α] [OfNat α 0] [OfNat α 2] [NatCast α]

/-- subtract the drift along the first index (the "column" pass of the C code;
`set_translational_invariance_per_index(index=0)` in Python). -/
def colDrift {n : Nat} (Φ : FC n α) : FC n α :=
  fun i j k l => Φ i j k l - (sumFin n fun i' => Φ i' j k l) / (n : α)

/-- subtract the drift along the second index ("row" pass). -/
def rowDrift {m n : Nat} (Φ : Fin m → Fin n → Fin 3 → Fin 3 → α) : Fin m → Fin n → Fin 3 → Fin 3 → α :=
  fun i j k l => Φ i j k l - (sumFin n fun j' => Φ i j' k l) / (n : α)

/-- index-permutation symmetrisation `Φ(i,j,k,l) ← (Φ(i,j,k,l)+Φ(j,i,l,k))/2`. -/
def permSym {n : Nat} (Φ : FC n α) : FC n α :=
  fun i j k l => (Φ i j k l + Φ j i l k) / 2

/-- `set_translational_symmetry_fc`: the self term is reset to minus the symmetrised
sum of the other blocks of its row. -/
def transDiag {n : Nat} (Φ : FC n α) : FC n α :=
  fun i j k l =>
    if i = j then
      -((sumFin n fun j' => if i = j' then 0 else Φ i j' k l)
        + (sumFin n fun j' => if i = j' then 0 else Φ i j' l k)) / 2
    else Φ i j k l

def iter {β : Type} (f : β → β) : Nat → β → β
  | 0, x => x
  | k+1, x => iter f k (f x)

/-- one iteration of the C routine: column drift, row drift, permutation symmetry. -/
def symStep {n : Nat} (Φ : FC n α) : FC n α := permSym (rowDrift (colDrift Φ))

/-- `phpy_perm_trans_symmetrize_fc(fc, n, level)`. -/
def fullSym {n : Nat} (level : Nat) (Φ : FC n α) : FC n α :=
  transDiag (iter symStep level Φ)

/-- the Python fallback of `symmetrize_force_constants`. -/
def pyFullSym {n : Nat} (level : Nat) (Φ : FC n α) : FC n α :=
  rowDrift (colDrift (iter (fun Φ => permSym (rowDrift (colDrift Φ))) level Φ))

/-! ### compact layout -/

/-- The index tables the Python layer hands to the compact routines. -/
structure CTables (np ns nt : Nat) where
  p2s   : Fin np → Fin ns
  s2pp  : Fin ns → Fin np
  nsym  : Fin ns → Fin nt
  perms : Fin nt → Fin ns → Fin ns

/-- `compact_fc_to_full_fc`: row `i` of the full array is the compact row of its
primitive representative read through the pure translation that sends `i` there. -/
def expand {np ns nt : Nat} (T : CTables np ns nt) (Φc : CFC np ns α) : FC ns α :=
  fun i j k l => Φc (T.s2pp i) (T.perms (T.nsym i) j) k l

/-- `full_fc_to_compact_fc`. -/
def compress {np ns nt : Nat} (T : CTables np ns nt) (Φ : FC ns α) : CFC np ns α :=
  fun ip j k l => Φ (T.p2s ip) j k l

/-- transpose mode of `phpy_set_index_permutation_symmetry_compact_fc`
(`is_transpose = 1`): block `(i_p, j)` receives the transposed block `(j_p, i_trans)`. -/
def transposeC {np ns nt : Nat} (T : CTables np ns nt) (Φc : CFC np ns α) : CFC np ns α :=
  fun ip j k l => Φc (T.s2pp j) (T.perms (T.nsym j) (T.p2s ip)) l k

/-- averaging mode (`is_transpose = 0`). -/
def permSymC {np ns nt : Nat} (T : CTables np ns nt) (Φc : CFC np ns α) : CFC np ns α :=
  fun ip j k l => (Φc ip j k l + Φc (T.s2pp j) (T.perms (T.nsym j) (T.p2s ip)) l k) / 2

/-- `set_translational_symmetry_compact_fc`. -/
def transDiagC {np ns nt : Nat} (T : CTables np ns nt) (Φc : CFC np ns α) : CFC np ns α :=
  fun ip j k l =>
    if T.p2s ip = j then
      -((sumFin ns fun j' => if T.p2s ip = j' then 0 else Φc ip j' k l)
        + (sumFin ns fun j' => if T.p2s ip = j' then 0 else Φc ip j' l k)) / 2
    else Φc ip j k l

def symStepC {np ns nt : Nat} (T : CTables np ns nt) (Φc : CFC np ns α) : CFC np ns α :=
  permSymC T (rowDrift (transposeC T (rowDrift (transposeC T Φc))))

/-- `phpy_perm_trans_symmetrize_compact_fc`. -/
def compactSym {np ns nt : Nat} (T : CTables np ns nt) (level : Nat) (Φc : CFC np ns α) : CFC np ns α :=
  transDiagC T (iter (symStepC T) level Φc)

/-! ### staged evaluators used by the driver (proved equal to the model in `Props/C07`) -/

def iterN {β : Type} (f : β → β) : Nat → β → β := iter f

def fullSymF {α : Type} [Add α] [Sub α] [Neg α] [Mul α] [Div α] [OfNat α 0] [OfNat α 2] [NatCast α]
    (n : Nat) (level : Nat) (A : Frozen4 α) : Frozen4 α :=
  stage4 (transDiag (n := n)) (iter (fun A => stage4 (permSym (n := n)) (stage4 (rowDrift (m := n) (n := n)) (stage4 (colDrift (n := n)) A))) level A)

def pyFullSymF {α : Type} [Add α] [Sub α] [Neg α] [Mul α] [Div α] [OfNat α 0] [OfNat α 2] [NatCast α]
    (n : Nat) (level : Nat) (A : Frozen4 α) : Frozen4 α :=
  stage4 (rowDrift (m := n) (n := n)) (stage4 (colDrift (n := n))
    (iter (fun A => stage4 (permSym (n := n)) (stage4 (rowDrift (m := n) (n := n)) (stage4 (colDrift (n := n)) A))) level A))

def compactSymF {α : Type} [Add α] [Sub α] [Neg α] [Mul α] [Div α] [OfNat α 0] [OfNat α 2] [NatCast α]
    {np ns nt : Nat} (T : CTables np ns nt) (level : Nat) (A : Frozen4 α) : Frozen4 α :=
  stage4 (transDiagC T) (iter (fun A =>
    stage4 (permSymC T) (stage4 (rowDrift (m := np) (n := ns)) (stage4 (transposeC T)
      (stage4 (rowDrift (m := np) (n := ns)) (stage4 (transposeC T) A))))) level A)

/-- Executable well-formedness certificate of the tables (evaluated by the check on the
implementation's own tables for every case; the theorems assume exactly this). -/
def CTables.wf {np ns nt : Nat} (T : CTables np ns nt) : Bool :=
  -- the recorded translation sends an atom to its primitive representative
  (List.finRange ns).all (fun i => T.perms (T.nsym i) i == T.p2s (T.s2pp i)) &&
  -- primitive representatives are fixed points of the maps
  (List.finRange np).all (fun ip => T.s2pp (T.p2s ip) == ip &&
      (List.finRange ns).all (fun j => T.perms (T.nsym (T.p2s ip)) j == j)) &&
  -- translations preserve the sublattice
  (List.finRange nt).all (fun t => (List.finRange ns).all (fun i => T.s2pp (T.perms t i) == T.s2pp i)) &&
  -- every translation is a bijection of the atoms (injective on a finite set)
  (List.finRange nt).all (fun t => (List.finRange ns).all (fun i => (List.finRange ns).all (fun j =>
      (T.perms t i != T.perms t j) || i == j))) &&
  -- regularity: the translation recorded for a translated atom composes correctly
  (List.finRange nt).all (fun t => (List.finRange ns).all (fun j => (List.finRange ns).all (fun x =>
      T.perms (T.nsym (T.perms t j)) (T.perms t x) == T.perms (T.nsym j) x)))

/-! ### `get_nsym_list_and_s2pp`: the tables handed to the compact routines are computed

`harmonic/force_constants.py: get_nsym_list_and_s2pp(s2p_map, p2p_map, permutations)` ↦ `mkTables`:
`s2pp[i] = p2p_map[s2p_map[i]]` and `nsym_list[i] = np.where(permutations[:, i] == s2p_map[i])[0][0]`
(the FIRST pure translation that sends atom `i` to its primitive representative).  `p2p_map` is the
dict `{p2s_map[ip]: ip}` (`structure/cells.py: Primitive._map_atomic_indices`); with an injective
`p2s_map` (part of the certificate below) "last key wins" and "first match" coincide. -/

/-- `np.where(permutations[:, i] == target)[0][0]`; `none` ↔ the Python raises `IndexError`. -/
def firstTrans {ns nt : Nat} (perms : Fin nt → Fin ns → Fin ns) (i target : Fin ns) : Option (Fin nt) :=
  (List.finRange nt).find? (fun t => perms t i == target)

/-- `p2p_map[s]`; `none` ↔ `KeyError`. -/
def p2pLookup {np ns : Nat} (p2s : Fin np → Fin ns) (s : Fin ns) : Option (Fin np) :=
  (List.finRange np).find? (fun ip => p2s ip == s)

/-- `get_nsym_list_and_s2pp` returns (raises neither `KeyError` nor `IndexError`). -/
def tablesDefined {np ns nt : Nat} (p2s : Fin np → Fin ns) (s2p : Fin ns → Fin ns)
    (perms : Fin nt → Fin ns → Fin ns) : Bool :=
  (List.finRange ns).all fun i => (p2pLookup p2s (s2p i)).isSome && (firstTrans perms i (s2p i)).isSome

/-- the tables `get_nsym_list_and_s2pp` computes from `s2p_map`, `p2s_map` and the table of pure
translations (`Primitive.atomic_permutations`).  The defaults are never used when `tablesDefined`. -/
def mkTables {np ns nt : Nat} (hnp : 0 < np) (hnt : 0 < nt) (p2s : Fin np → Fin ns) (s2p : Fin ns → Fin ns)
    (perms : Fin nt → Fin ns → Fin ns) : CTables np ns nt :=
  { p2s := p2s
    s2pp := fun i => (p2pLookup p2s (s2p i)).getD ⟨0, hnp⟩
    nsym := fun i => (firstTrans perms i (s2p i)).getD ⟨0, hnt⟩
    perms := perms }

/-- Executable certificate on the INPUTS of `get_nsym_list_and_s2pp`: the rows of `perms` form a group of
permutations acting freely on the atoms, preserving the sublattice map `s2p`, and reaching every atom's
representative; representatives are the primitive atoms.  (What `Primitive` promises; evaluated by the check
on the implementation's own arrays.)  `transGroupCert_wf` derives `CTables.wf` of the computed tables. -/
def transGroupCert {np ns nt : Nat} (p2s : Fin np → Fin ns) (s2p : Fin ns → Fin ns)
    (perms : Fin nt → Fin ns → Fin ns) : Bool :=
  -- every representative is a primitive atom
  (List.finRange ns).all (fun i => (List.finRange np).any (fun ip => p2s ip == s2p i)) &&
  -- primitive atoms represent themselves
  (List.finRange np).all (fun ip => s2p (p2s ip) == p2s ip) &&
  -- p2s is injective
  (List.finRange np).all (fun a => (List.finRange np).all (fun b => (p2s a != p2s b) || a == b)) &&
  -- the identity is among the translations
  (List.finRange nt).any (fun e => (List.finRange ns).all (fun x => perms e x == x)) &&
  -- the action is free: two translations that agree on one atom agree everywhere
  (List.finRange nt).all (fun a => (List.finRange nt).all (fun b => (List.finRange ns).all (fun j =>
    (perms a j != perms b j) || (List.finRange ns).all (fun x => perms a x == perms b x)))) &&
  -- translations preserve the sublattice
  (List.finRange nt).all (fun t => (List.finRange ns).all (fun i => s2p (perms t i) == s2p i)) &&
  -- every translation is injective on the atoms
  (List.finRange nt).all (fun t => (List.finRange ns).all (fun i => (List.finRange ns).all (fun j =>
    (perms t i != perms t j) || i == j))) &&
  -- closed under composition
  (List.finRange nt).all (fun a => (List.finRange nt).all (fun b => (List.finRange nt).any (fun c =>
    (List.finRange ns).all (fun x => perms c x == perms a (perms b x))))) &&
  -- every atom is carried to its representative by some translation
  (List.finRange ns).all (fun i => (List.finRange nt).any (fun t => perms t i == s2p i))

end PhononModel
