import PhononModel.Model.UnitAlgebra
import PhononModel.Gen.Units
/-!
The specification's constants for C17: textbook SI formulas over the base symbols of `units.py`
(`Gen/Units.lean`), independent of the derived definitions in `units.py`
(`Bohr`, `Hartree`, `Rydberg`, `Epsilon0` — those are *checked* against these in Props/C17).
Shared by `Props/C17.lean` and `Drivers/C17.lean`.
-/
namespace PhononModel.UnitSpec
open PhononModel.Units PhononModel.Gen.Units

/-- μ₀ = 4π·10⁻⁷ (SI before 2019, as in `units.py`) -/
def specMu0 : UExpr := .mul (.num 4 (-7)) .pi
/-- ε₀ = 1/(μ₀c²) -/
def specEps0 : UExpr := .div .one (.mul specMu0 (.pow SpeedOfLight 2))
/-- ħ in J·s (`PlanckConstant` is in eV·s) -/
def specHbarJ : UExpr := .div (.mul PlanckConstant EV) (.mul (.num 2 0) .pi)
/-- a₀ = 4πε₀ħ²/(mₑe²) in Å; the elementary charge in C is numerically `EV` -/
def specBohr : UExpr :=
  .mul (.num 1 10) (.div (.mul (.mul (.mul (.num 4 0) .pi) specEps0) (.pow specHbarJ 2)) (.mul Me (.pow EV 2)))
/-- E_h = mₑe⁴/((4πε₀)²ħ²) in eV -/
def specHartree : UExpr :=
  .div (.div (.mul Me (.pow EV 4)) (.mul (.pow (.mul (.mul (.num 4 0) .pi) specEps0) 2) (.pow specHbarJ 2))) EV
def specRydberg : UExpr := .div specHartree (.num 2 0)

/-- the constants the unit names refer to -/
def K : Consts := { rydberg := specRydberg, hartree := specHartree, bohr := specBohr, ev := EV, amu := AMU }

end PhononModel.UnitSpec
